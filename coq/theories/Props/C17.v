(* C17 - Problem generators encode exactly the relation they document.
   The gate theorems are stated over Gen/Gen_Gates.v, which is regenerated from
   dimod/generators/gates.py before every build: changing a coefficient in the
   source breaks the corresponding theorem.
   Only statements; every proof is `exact <lemma>`. *)
From Coq Require Import List ZArith QArith Qcanon Bool Arith.
From Dimod Require Import Base.Util Model.Poly Model.Comb Gen.Gen_Gates Model.Gates
  Proofs.GatesFacts Props.Comb Gen.Gen_Combinations Proofs.CombRule Gen.Gen_Graph Proofs.GraphConstants Model.Knap Proofs.KnapFacts Model.QKnap Gen.Gen_Knap Proofs.KnapGen Model.MultCircuit Proofs.MultFacts Proofs.MultArith Proofs.MultAttain Proofs.MultAll Model.Qap Proofs.QapFacts Model.Magic Proofs.MagicFacts Model.Sat Proofs.SatFacts Gen.Gen_Sat Proofs.SatGen Gen.Gen_Shapes Proofs.ShapeLocks Model.RandomDraws Gen.Gen_RandomDraws Proofs.RandomDrawsFacts Proofs.QapExact Gen.Gen_Qap Model.QapGen Proofs.QapGenFacts Model.FrustLoop Proofs.FrustLoopFacts.
Import ListNotations.

(* energy 0 on exactly the rows of the truth table, >= 1 on every other row (strength 1) *)
Theorem and_gate_table : forall x, length x = 3%nat ->
  (and_ok x = true -> and_energy x = 0%Z) /\ (and_ok x = false -> (1 <= and_energy x)%Z).
Proof. exact and_gate_table_thm. Qed.
Print Assumptions and_gate_table.

Theorem or_gate_table : forall x, length x = 3%nat ->
  (or_ok x = true -> or_energy x = 0%Z) /\ (or_ok x = false -> (1 <= or_energy x)%Z).
Proof. exact or_gate_table_thm. Qed.
Print Assumptions or_gate_table.

(* xor: minimised over the documented auxiliary variable *)
Theorem xor_gate_table : forall x, length x = 3%nat ->
  (xor_ok x = true -> xor_min_energy x = 0%Z) /\ (xor_ok x = false -> (1 <= xor_min_energy x)%Z).
Proof. exact xor_gate_table_thm. Qed.
Print Assumptions xor_gate_table.

Theorem xor_gate_nonneg : forall x, length x = 4%nat -> (0 <= xor_energy x)%Z.
Proof. exact xor_gate_nonneg_thm. Qed.
Print Assumptions xor_gate_nonneg.

Theorem halfadder_table : forall x, length x = 4%nat ->
  (halfadder_ok x = true -> halfadder_energy x = 0%Z) /\ (halfadder_ok x = false -> (1 <= halfadder_energy x)%Z).
Proof. exact halfadder_table_thm. Qed.
Print Assumptions halfadder_table.

Theorem fulladder_table : forall x, length x = 5%nat ->
  (fulladder_ok x = true -> fulladder_energy x = 0%Z) /\ (fulladder_ok x = false -> (1 <= fulladder_energy x)%Z).
Proof. exact fulladder_table_thm. Qed.
Print Assumptions fulladder_table.

(* the BQM with coefficients strength * table has energy strength * (integer energy) *)
Theorem C17_gate_poly_energy :
  forall lin quad (s : Qc) x,
    energy (gate_poly lin quad s) (sample_of_bits x) = (s * z2q (gate_energy lin quad x))%Qc.
Proof. exact gate_poly_energy. Qed.
Print Assumptions C17_gate_poly_energy.

(* scaling lemma: any strength > 0 *)
Theorem C17_gate_scaling :
  forall (s : Qc) (e : Z), (0 < s)%Qc ->
    (e = 0%Z -> (s * z2q e = 0)%Qc) /\ ((1 <= e)%Z -> (s <= s * z2q e)%Qc) /\
    ((0 <= e)%Z -> (0 <= s * z2q e)%Qc) /\ ((s * z2q e = 0)%Qc -> e = 0%Z).
Proof. exact gate_scaling. Qed.
Print Assumptions C17_gate_scaling.

(* assembled: 0 on the truth table, >= strength elsewhere, for any table that passes the computed check *)
Theorem C17_gate_bqm_gap :
  forall lin quad n ok (s : Qc),
    table_ok n ok (gate_energy lin quad) = true -> (0 < s)%Qc ->
    forall x, length x = n ->
      (ok x = true -> energy (gate_poly lin quad s) (sample_of_bits x) = 0%Qc) /\
      (ok x = false -> (s <= energy (gate_poly lin quad s) (sample_of_bits x))%Qc).
Proof. exact gate_bqm_gap. Qed.
Print Assumptions C17_gate_bqm_gap.

(* combinations(n, k): (sum x - k)^2, all n and k (proved in Proofs/CombSlack.v) *)
Theorem C17_combinations :
  forall (k : Z) (x : list bool),
    combinations_energy k x = ((count_true x - k) * (count_true x - k))%Z /\
    (combinations_energy k x = 0%Z <-> count_true x = k) /\
    (count_true x <> k -> (1 <= combinations_energy k x)%Z).
Proof. exact C17_combinations_energy. Qed.
Print Assumptions C17_combinations.

(* the coefficient rule TRANSLATED from the source (every variable comb_lbias, every pair comb_qbias,
   offset comb_offset) is strength * (sum x - k)^2, for all n, k and (integer) strength *)
Theorem C17_combinations_rule :
  forall s k x,
    comb_rule_energy s k x = (s * ((count_true x - k) * (count_true x - k)))%Z.
Proof. exact comb_rule_square. Qed.
Print Assumptions C17_combinations_rule.

Theorem C17_combinations_rule_model :
  forall s k x, comb_rule_energy s k x = (s * combinations_energy k x)%Z.
Proof. exact comb_rule_model. Qed.
Print Assumptions C17_combinations_rule_model.

(* independent-set family: energy = strength * (#listed edges inside the set) - selected weight *)
Theorem C17_mwis_energy :
  forall s edges weights sel,
    energy (mwis_poly s edges weights) (sel_sample sel)
    = (s * edges_inside sel edges - selected_weight sel weights)%Qc.
Proof. exact mwis_energy. Qed.
Print Assumptions C17_mwis_energy.

(* the constants are those TRANSLATED from generators/graph.py on every run *)
Theorem C17_graph_constants_are_model :
  is_edge_bias = 1%Qc /\ is_node_bias = 0%Qc /\ mis_node_weight = 1%Qc /\ mwis_default_weight = 1%Qc /\
  mwis_unweighted_max = 1%Qc /\ mwis_empty_max = 1%Qc /\ mwis_offset = 0%Qc.
Proof. exact graph_constants_are_model. Qed.
Print Assumptions C17_graph_constants_are_model.

Theorem C17_mwis_poly_is_source :
  forall s edges ws,
    mwis_poly s edges ws
    = mkPoly mwis_offset (map (fun t => (fst t, (- snd t)%Qc)) ws)
                         (map (fun e => (fst e, snd e, (s * is_edge_bias)%Qc)) edges).
Proof. exact mwis_poly_is_source. Qed.
Print Assumptions C17_mwis_poly_is_source.

Theorem C17_mwis_independent :
  forall s edges weights sel,
    (forall e, In e edges -> sel (fst e) && sel (snd e) = false) ->
    energy (mwis_poly s edges weights) (sel_sample sel) = (- selected_weight sel weights)%Qc.
Proof. exact mwis_independent. Qed.
Print Assumptions C17_mwis_independent.

(* ---------- knapsack / multi-knapsack / bin packing: any number of items and bins, any
   (rational-valued) assignment; the variable numbering is that of Model/Knap.v ---------- *)
Theorem C17_knapsack_objective :
  forall values weights capacity (x : sample),
    energy (q_obj (knapsack_model values weights capacity)) x = (- ks_value values (length values) x)%Qc.
Proof. exact knapsack_objective. Qed.
Print Assumptions C17_knapsack_objective.

Theorem C17_knapsack_feasible :
  forall values weights capacity (x : sample),
    feasibleb (knapsack_model values weights capacity) x = true
    <-> (ks_weight weights (length values) x <= capacity)%Qc.
Proof. exact knapsack_feasible. Qed.
Print Assumptions C17_knapsack_feasible.

Theorem C17_multi_knapsack_objective :
  forall values weights capacities (x : sample),
    energy (q_obj (mk_model values weights capacities)) x
    = (- mk_value values (length values) (length capacities) x)%Qc.
Proof. exact mk_objective. Qed.
Print Assumptions C17_multi_knapsack_objective.

(* every item in at most one knapsack, every knapsack within its capacity *)
Theorem C17_multi_knapsack_feasible :
  forall values weights capacities (x : sample),
    let n := length values in let b := length capacities in
    feasibleb (mk_model values weights capacities) x = true
    <-> (forall i, (i < n)%nat -> (mk_count b x i <= 1)%Qc) /\
        (forall j, (j < b)%nat -> (mk_load weights n b x j <= wt capacities j)%Qc).
Proof. exact mk_feasible. Qed.
Print Assumptions C17_multi_knapsack_feasible.

Theorem C17_bin_packing_objective :
  forall weights capacity (x : sample),
    energy (q_obj (bp_model weights capacity)) x = bp_open_bins (length weights) x.
Proof. exact bp_objective. Qed.
Print Assumptions C17_bin_packing_objective.

(* every item in exactly one bin; the load of a bin is within the capacity if it is open and 0 otherwise *)
Theorem C17_bin_packing_feasible :
  forall weights capacity (x : sample),
    let n := length weights in
    feasibleb (bp_model weights capacity) x = true
    <-> (forall i, (i < n)%nat -> bp_count n x i = 1%Qc) /\
        (forall j, (j < n)%nat -> (bp_load weights n x j <= capacity * x (bp_y j))%Qc).
Proof. exact bp_feasible. Qed.
Print Assumptions C17_bin_packing_feasible.

Theorem C17_bin_packing_feasible_bool :
  forall weights capacity (x : sample) (place : nat -> nat -> bool),
    let n := length weights in
    (forall i j, (i < n)%nat -> (j < n)%nat -> x (bp_x n i j) = if place i j then 1%Qc else 0%Qc) ->
    (feasibleb (bp_model weights capacity) x = true
     <-> (forall i, (i < n)%nat -> count_ones n (place i) = 1%nat) /\
         (forall j, (j < n)%nat -> (bp_load weights n x j <= capacity * x (bp_y j))%Qc)).
Proof. exact bp_feasible_bool. Qed.
Print Assumptions C17_bin_packing_feasible_bool.

(* the constructions TRANSLATED statement by statement from the source (translators/knap_constructions.py ->
   Gen/Gen_Knap.v) are these models; the generators reject values / weights of different shapes *)
Theorem C17_gen_knapsack_is_model :
  forall values weights capacity,
    length weights = length values -> gen_knapsack values weights capacity = knapsack_model values weights capacity.
Proof. exact gen_knapsack_is_model. Qed.
Print Assumptions C17_gen_knapsack_is_model.

Theorem C17_gen_multi_knapsack_is_model :
  forall values weights capacities,
    length weights = length values -> gen_multi_knapsack values weights capacities = mk_model values weights capacities.
Proof. exact gen_multi_knapsack_is_model. Qed.
Print Assumptions C17_gen_multi_knapsack_is_model.

Theorem C17_gen_bin_packing_is_model :
  forall weights capacity, gen_bin_packing weights capacity = bp_model weights capacity.
Proof. exact gen_bin_packing_is_model. Qed.
Print Assumptions C17_gen_bin_packing_is_model.

(* quadratic_knapsack / quadratic_multi_knapsack, stated on the translated constructions themselves *)
Theorem C17_quadratic_knapsack_objective :
  forall values weights profits capacity (x : sample),
    energy (q_obj (gen_quadratic_knapsack values weights profits capacity)) x
    = (- ks_value values (length values) x - pair_profit profits x)%Qc.
Proof. exact gen_quadratic_knapsack_objective. Qed.
Print Assumptions C17_quadratic_knapsack_objective.

Theorem C17_quadratic_knapsack_feasible :
  forall values weights profits capacity (x : sample),
    feasibleb (gen_quadratic_knapsack values weights profits capacity) x = true
    <-> (ks_weight weights (length weights) x <= capacity)%Qc.
Proof. exact gen_quadratic_knapsack_feasible. Qed.
Print Assumptions C17_quadratic_knapsack_feasible.

Theorem C17_quadratic_multi_knapsack_objective :
  forall values weights profits capacities (x : sample),
    energy (q_obj (gen_quadratic_multi_knapsack values weights profits capacities)) x
    = (energy (q_obj (gen_multi_knapsack values weights capacities)) x
       - pair_profit_multi profits (length capacities) x)%Qc.
Proof. exact gen_quadratic_multi_knapsack_objective. Qed.
Print Assumptions C17_quadratic_multi_knapsack_objective.

Theorem C17_quadratic_multi_knapsack_constraints :
  forall values weights profits capacities,
    q_cons (gen_quadratic_multi_knapsack values weights profits capacities)
    = q_cons (gen_multi_knapsack values weights capacities).
Proof. exact gen_quadratic_multi_knapsack_constraints. Qed.
Print Assumptions C17_quadratic_multi_knapsack_constraints.

(* on 0/1 assignments "the row sums to 1" is "exactly one entry is 1" *)
Theorem C17_exactly_one :
  forall n (f : nat -> bool),
    range_sum n (fun i => if f i then 1%Qc else 0%Qc) = 1%Qc <-> count_ones n f = 1%nat.
Proof. exact exactly_one. Qed.
Print Assumptions C17_exactly_one.

(* ---------- multiplication circuit, wired as the generator wires it (Model/MultCircuit.v) ---------- *)
(* any list of gate instances (so every size n x m): the energy is never negative, it is 0 exactly when
   every gate's truth table holds and at least 1 otherwise *)
Theorem C17_circuit_energy_gap :
  forall gs (a : wassign),
    (0 <= circuit_energy gs a)%Z /\
    (circuit_energy gs a = 0%Z <-> all_sat gs a = true) /\
    (all_sat gs a = false -> (1 <= circuit_energy gs a)%Z).
Proof. exact circuit_energy_gap. Qed.
Print Assumptions C17_circuit_energy_gap.

(* the BQM returned (sum of the gate BQMs over numbered wires) has that energy *)
Theorem C17_circuit_poly_energy :
  forall (idx : wire -> nat) gs (a : wassign) (smp : sample),
    (forall w, smp (idx w) = b2qc (a w)) ->
    energy (circuit_poly idx gs) smp = z2q (circuit_energy gs a).
Proof. exact circuit_poly_energy. Qed.
Print Assumptions C17_circuit_poly_energy.

(* any topologically ordered wiring: an assignment satisfying every gate is the forward
   simulation of its primary inputs *)
Theorem C17_sim_agree :
  forall gs (env a : wassign) known,
    all_sat gs a = true -> topo_ok known gs = true ->
    (forall w, In w known -> env w = a w) ->
    forall w, In w (flat_map inst_outputs gs ++ known) -> sim gs env w = a w.
Proof. exact sim_agree. Qed.
Print Assumptions C17_sim_agree.

(* arithmetic correctness for ALL n, m >= 2, by induction over the rows of the adder array:
   an assignment satisfying every gate has product bits encoding a * b *)
Theorem C17_mult_arith_all :
  forall (n m : nat) (a : wassign),
    (2 <= m)%nat -> all_sat (circuit n m) a = true -> (2 <= n)%nat ->
    bits_val (prod_bits n m a) = (bits_val (a_bits n a) * bits_val (b_bits m a))%Z.
Proof. exact mult_arith_all. Qed.
Print Assumptions C17_mult_arith_all.

(* every input pair has a satisfying assignment (row i = ripple-carry sum of a_i * b and the shifted row i-1) *)
Theorem C17_mult_attained :
  forall (n m : nat) (abits bbits : list bool),
    (2 <= n)%nat -> (2 <= m)%nat -> all_sat (circuit n m) (val n m abits bbits) = true.
Proof. exact val_all_sat. Qed.
Print Assumptions C17_mult_attained.

(* multiplication_circuit(n, m), all n, m >= 2: minimised over the internal wires the energy is 0
   exactly when the product bits encode a * b, and at least 1 otherwise *)
Theorem C17_multiplication_circuit :
  forall n m, (2 <= n)%nat -> (2 <= m)%nat ->
    (forall a : wassign, (0 <= circuit_energy (circuit n m) a)%Z) /\
    (forall a : wassign, circuit_energy (circuit n m) a = 0%Z ->
       bits_val (prod_bits n m a) = (bits_val (a_bits n a) * bits_val (b_bits m a))%Z) /\
    (forall a : wassign,
       bits_val (prod_bits n m a) <> (bits_val (a_bits n a) * bits_val (b_bits m a))%Z ->
       (1 <= circuit_energy (circuit n m) a)%Z) /\
    (forall abits bbits, length abits = n -> length bbits = m ->
       exists a : wassign, a_bits n a = abits /\ b_bits m a = bbits /\ circuit_energy (circuit n m) a = 0%Z).
Proof. exact multiplication_circuit_all. Qed.
Print Assumptions C17_multiplication_circuit.

(* the generator AS IT IS with a 1-bit argument (open finding): zero energy, a = b = 0, product bits = 4 *)
Theorem C17_multiplication_circuit_one_bit_refuted :
  circuit_energy (circuit 3 1) witness_3x1 = 0%Z /\
  bits_val (a_bits 3 witness_3x1) = 0%Z /\ bits_val (b_bits 1 witness_3x1) = 0%Z /\
  bits_val (prod_bits 3 1 witness_3x1) = 4%Z.
Proof. exact multiplication_circuit_one_bit_refuted. Qed.
Print Assumptions C17_multiplication_circuit_one_bit_refuted.

(* ---------- quadratic_assignment (Model/Qap.v, faithful to the code as it is) ---------- *)
(* on "facility i at location pi(i)" the generated objective is
   sum over i > k of (flow[i][k] + flow[k][i]) * dist[pi(i)][pi(k)], for every size n *)
Theorem C17_qap_objective_as_is :
  forall n F D (pi : nat -> nat) (x : sample),
    (forall i, (i < n)%nat -> (pi i < n)%nat) ->
    (forall i j, (i < n)%nat -> (j < n)%nat -> x (qidx n i j) = onehot_sample n pi i j) ->
    energy (qap_objective n F D) x = qap_cost_as_is n F D pi.
Proof. exact qap_objective_as_is. Qed.
Print Assumptions C17_qap_objective_as_is.

(* which is the documented cost sum_{i <> k} flow[i][k] * dist[pi(i)][pi(k)] when the distance matrix is symmetric *)
Theorem C17_qap_cost_symmetric :
  forall n F D (pi : nat -> nat),
    (forall i, (i < n)%nat -> (pi i < n)%nat) -> symmetric n D ->
    qap_cost_as_is n F D pi = qap_cost n F D pi.
Proof. exact qap_cost_symmetric. Qed.
Print Assumptions C17_qap_cost_symmetric.

(* ... and is not in general: flow = dist = [[0,1],[0,0]], identity placement: 0 instead of 1 *)
Theorem C17_qap_asymmetric_refuted :
  qap_cost_as_is 2 F_ex D_ex (fun i => i) <> qap_cost 2 F_ex D_ex (fun i => i).
Proof. exact qap_asymmetric_refuted. Qed.
Print Assumptions C17_qap_asymmetric_refuted.

Theorem C17_qap_feasible :
  forall n F D (x : sample),
    feasibleb (qap_model n F D) x = true
    <-> (forall i, (i < n)%nat -> qap_row n x i = 1%Qc) /\ (forall j, (j < n)%nat -> qap_col n x j = 1%Qc).
Proof. exact qap_feasible. Qed.
Print Assumptions C17_qap_feasible.

(* ---------- magic_square (Model/Magic.v) ---------- *)
(* over Z, any list of pairs: pairwise different integers have a sum of squared differences >= #pairs *)
Theorem C17_sqdiff_sum_distinct :
  forall (v : nat -> Z) pairs,
    all_distinct_on v pairs -> (Z.of_nat (length pairs) <= sqdiff_sum v pairs)%Z.
Proof. exact sqdiff_sum_distinct. Qed.
Print Assumptions C17_sqdiff_sum_distinct.

(* so distinct entries satisfy the "uniqueness" constraint, for every size *)
Theorem C17_magic_uniqueness_necessary :
  forall n (v : nat -> Z),
    all_distinct_on v (cell_pairs n) ->
    (z2q (Z.of_nat (length (cell_pairs n))) <= energy (uniq_poly n) (fun c => z2q (v c)))%Qc.
Proof. exact magic_uniqueness_necessary. Qed.
Print Assumptions C17_magic_uniqueness_necessary.

(* but the constraint does not force distinct entries: a Latin square passes magic_square(3) *)
Theorem C17_magic_uniqueness_not_sufficient_refuted :
  magic_feasibleb 3 1 (zsample latin3) = true /\ nth 0 latin3 0%Z = nth 5 latin3 0%Z.
Proof. exact magic_uniqueness_not_sufficient_refuted. Qed.
Print Assumptions C17_magic_uniqueness_not_sufficient_refuted.

(* ---------- satisfiability generators (Model/Sat.v): the assembly; the draws are monitored ---------- *)
(* a clause of k literals +-1 contributes ((sum of literals)^2 - k) / 2 *)
Theorem C17_clause_energy :
  forall l, Forall (fun x => x = 1 \/ x = -1)%Z l ->
    (2 * pair_sum l = zsum l * zsum l - Z.of_nat (length l))%Z.
Proof. exact clause_energy_pm1. Qed.
Print Assumptions C17_clause_energy.

Theorem C17_nae3_clause :
  forall a b c,
    (pair_sum [lit a; lit b; lit c] = -1 <-> ~ (a = b /\ b = c))%Z /\
    ((a = b /\ b = c) -> pair_sum [lit a; lit b; lit c] = 3)%Z.
Proof. exact nae3_clause. Qed.
Print Assumptions C17_nae3_clause.

Theorem C17_2in4_clause :
  forall a b c d,
    (pair_sum [lit a; lit b; lit c; lit d] = -2 <-> count4 a b c d = 2%nat)%Z /\
    (count4 a b c d <> 2%nat -> 0 <= pair_sum [lit a; lit b; lit c; lit d])%Z.
Proof. exact twoin4_clause. Qed.
Print Assumptions C17_2in4_clause.

(* the BQM assembled from any list of clauses has the sum of the clause energies *)
Theorem C17_sat_poly_energy :
  forall cs (s : nat -> Z), energy (sat_poly cs) (fun v => z2q (s v)) = z2q (sat_energy cs s).
Proof. exact sat_poly_energy. Qed.
Print Assumptions C17_sat_poly_energy.

(* from the literals TRANSLATED from satisfiability.py (Gen/Gen_Sat.v): a sign 2*b - 1 with b in 0..1 is +-1 *)
Theorem C17_sat_sign_pm1 :
  forall b, (sat_sign_low <= b <= sat_sign_high)%Z -> pm1 (sat_sign_scale * b - sat_sign_shift)%Z.
Proof. exact sat_sign_pm1. Qed.
Print Assumptions C17_sat_sign_pm1.

Theorem C17_sat_shape_constants :
  sat_term_size = 2%nat /\ sat_nae3_k = 3%nat /\ sat_2in4_k = 4%nat /\ sat_plant_bound = 1%Z.
Proof. exact sat_shape_constants. Qed.
Print Assumptions C17_sat_shape_constants.

(* plant_solution: every clause keeps |sum of signs| <= the bound, so the all-(+1) assignment is a ground state *)
Theorem C17_planted_ground_state :
  forall cs (s : nat -> Z),
    (forall c, In c cs -> Forall (fun t => pm1 (snd t)) c /\ (Z.abs (zsum (map snd c)) <= sat_plant_bound)%Z) ->
    (forall v, pm1 (s v)) ->
    (sat_energy cs (fun _ => 1%Z) <= sat_energy cs s)%Z.
Proof. exact planted_ground_state. Qed.
Print Assumptions C17_planted_ground_state.

(* quadratic_assignment, magic_square and multiplication_circuit (wiring, naming functions) are mirrored by
   hand; translators/shape_locks.py fails when a statement of them changes shape, and this fails when an
   integer literal changes *)
Theorem C17_shape_literals_unchanged :
  quadratic_assignment_literals = [(0)%Z; (1)%Z; (2)%Z; (0)%Z; (4)%Z; (1)%Z; (1)%Z] /\
  magic_square_literals = [(1)%Z; (2)%Z; (1)%Z; (1)%Z; (1)%Z; (0)%Z; (0)%Z; (0)%Z; (0)%Z; (1)%Z; (0)%Z; (1)%Z; (0)%Z; (0)%Z; (1)%Z; (0)%Z; (2)%Z; (2)%Z; (2)%Z; (4)%Z; (4)%Z; (2)%Z; (2)%Z] /\
  multiplication_circuit_literals = [(1)%Z; (1)%Z; (0)%Z; (1)%Z; (2)%Z; (1)%Z; (0)%Z; (0)%Z; (1)%Z; (1)%Z; (1)%Z; (1)%Z; (0)%Z; (1)%Z; (1)%Z; (1)%Z; (0)%Z; (1)%Z; (1)%Z; (2)%Z] /\
  anti_crossing_clique_literals = [(2)%Z; (6)%Z; (2)%Z; (1)%Z; (1)%Z; (1)%Z; (1)%Z; (1)%Z; (1)%Z; (0)%Z] /\
  anti_crossing_loops_literals = [(2)%Z; (8)%Z; (4)%Z; (2)%Z; (1)%Z; (1)%Z; (1)%Z; (1)%Z; (1)%Z; (1)%Z; (2)%Z; (1)%Z; (3)%Z; (1)%Z; (1)%Z; (1)%Z; (2)%Z; (1)%Z; (3)%Z; (1)%Z; (0)%Z; (0)%Z; (0)%Z].
Proof. exact shape_literals_unchanged. Qed.
Print Assumptions C17_shape_literals_unchanged.

(* ---------- random-model generators: the draws TRANSLATED from dimod/generators/random.py (translators/random_draws.py,
   Gen/Gen_RandomDraws.v; numpy's randint(lo, hi) = an integer lo <= x < hi, uniform(lo, hi) in [lo, hi]: trusted) ---------- *)
(* randint: each of the three draws - linear biases, quadratic biases and the OFFSET - returns integers of the
   inclusive declared range only, for all low / high; and every integer of the range can be drawn *)
Theorem C17_randint_draws_in_range :
  forall low high d x,
    In d (triple_list gen_randint_draws) -> in_draw2 low high d x -> (low <= x <= high)%Z.
Proof. exact randint_draws_in_range. Qed.
Print Assumptions C17_randint_draws_in_range.

Theorem C17_randint_draws_cover :
  forall low high d x,
    In d (triple_list gen_randint_draws) -> (low <= x <= high)%Z -> in_draw2 low high d x.
Proof. exact randint_draws_cover. Qed.
Print Assumptions C17_randint_draws_cover.

(* uniform: each of the three draws is uniform(low, high) with exactly the declared bounds *)
Theorem C17_uniform_draws_bounds :
  forall d, In d (triple_list gen_uniform_draws) -> d = DUniform (1, 0, 0)%Z (0, 1, 0)%Z.
Proof. exact uniform_draws_bounds. Qed.
Print Assumptions C17_uniform_draws_bounds.

(* ran_r / power_r: zero linear biases and offset; the couplings are drawn from exactly the non-zero integers of
   absolute value <= r, for every r *)
Theorem C17_ran_r_draws :
  forall r x, gen_ran_r_draws = (DZero, DChoice, DZero) /\ (in_rvals r gen_ran_r_rvals x <-> pm_range r x).
Proof. exact ran_r_draws. Qed.
Print Assumptions C17_ran_r_draws.

Theorem C17_power_r_draws :
  forall r x, gen_power_r_draws = (DZero, DChoice, DZero) /\ (in_rvals r gen_power_r_rvals x <-> pm_range r x).
Proof. exact power_r_draws. Qed.
Print Assumptions C17_power_r_draws.

Theorem C17_pm_range_nonzero : forall r x, pm_range r x -> x <> 0%Z /\ (Z.abs x <= r)%Z.
Proof. exact pm_range_nonzero. Qed.
Print Assumptions C17_pm_range_nonzero.

(* ---------- quadratic_assignment: exactly when the documented cost holds ---------- *)
(* C17_qap_cost_symmetric has NO hypothesis on the flow matrix: directed / asymmetric flows are exact as long as the
   distance matrix is symmetric.  With an asymmetric distance matrix already symmetric flows go wrong ... *)
Theorem C17_qap_symmetric_flow_asymmetric_distance_refuted :
  qap_cost_as_is 2 F_sym D_ex (fun i => i) <> qap_cost 2 F_sym D_ex (fun i => i).
Proof. exact qap_symmetric_flow_asymmetric_distance_refuted. Qed.
Print Assumptions C17_qap_symmetric_flow_asymmetric_distance_refuted.

(* ... and exactly: for a distance matrix of size n >= 2 the generated objective is the documented cost for ALL flow
   matrices and ALL placements iff the distance matrix is symmetric *)
Theorem C17_qap_exact_iff_symmetric :
  forall n D, (2 <= n)%nat ->
    ((forall F pi, (forall i, (i < n)%nat -> (pi i < n)%nat) -> qap_cost_as_is n F D pi = qap_cost n F D pi)
     <-> symmetric n D).
Proof. exact qap_exact_iff_symmetric. Qed.
Print Assumptions C17_qap_exact_iff_symmetric.

(* ---------- frustrated_loop (Model/FrustLoop.v; the PRNG's choices - which cycles, which edge - are parameters) ---------- *)
(* a closed walk multiplies to +1; with an odd number of anti-ferromagnetic couplers (plant_solution True or False)
   at least one edge is violated: a loop of length L contributes >= -(L - 2) *)
Theorem C17_fcl_closed_walk : forall s, Forall fl_pm1 s -> fl_zprod (sigmas s) = 1%Z.
Proof. exact closed_walk. Qed.
Print Assumptions C17_fcl_closed_walk.

Theorem C17_fcl_frustrated_bound :
  forall J sg, length J = length sg -> Forall fl_pm1 J -> Forall fl_pm1 sg ->
    fl_zprod (map Z.opp J) = (-1)%Z -> fl_zprod sg = 1%Z -> (2 - Z.of_nat (length J) <= loop_energy J sg)%Z.
Proof. exact frustrated_bound. Qed.
Print Assumptions C17_fcl_frustrated_bound.

(* planted loops: all-(+1) attains -(L - 2) on every loop, wherever the anti-ferromagnetic edge is put, so it is a
   ground state of every sum of loops, for all spin assignments *)
Theorem C17_fcl_planted_loop_ground :
  forall (cyc : list nat) idx (a : nat -> Z),
    (idx < length cyc)%nat -> (forall v, fl_pm1 (a v)) ->
    let J := planted_J (length cyc) idx in
    loop_energy J (sigmas (map (fun _ => 1%Z) cyc)) = (2 - Z.of_nat (length cyc))%Z /\
    (loop_energy J (sigmas (map (fun _ => 1%Z) cyc)) <= loop_energy J (sigmas (map a cyc)))%Z.
Proof. exact planted_loop_ground. Qed.
Print Assumptions C17_fcl_planted_loop_ground.

Theorem C17_fcl_planted_ground_state :
  forall loops (a : nat -> Z),
    (forall lp, In lp loops -> (snd lp < length (fst lp))%nat) -> (forall v, fl_pm1 (a v)) ->
    (fl_energy loops (fun _ => 1%Z) <= fl_energy loops a)%Z.
Proof. exact fl_planted_ground_state. Qed.
Print Assumptions C17_fcl_planted_ground_state.

Example C17_ex_fulladder : fulladder_energy [true; true; false; false; true] = 0%Z /\
                           fulladder_energy [true; true; false; true; true] = 1%Z.
Proof. vm_compute. split; reflexivity. Qed.

(* ---------- quadratic_assignment: the construction GENERATED from the source (Gen/Gen_Qap.v) ---------- *)
(* translators/qap_construction.py emits the creation order of the variables, the guard and the bias expression of the
   product(range(n), repeat=4) loop, the list of set_quadratic calls in loop order and both constraint families;
   Model/QapGen.v replays the calls with Model/Poly.v's set_quadratic (last write of an unordered pair survives). *)
Theorem C17_qapg_coef_is_source :
  forall F D i j k l, gq_coef (mget F) (mget D) i j k l = qap_coef F D i j k l.
Proof. exact gq_coef_is_source. Qed.
Print Assumptions C17_qapg_coef_is_source.

(* the four nested loops visit the ordered pairs of different cells p = i*n+j, q = k*n+l in increasing (p, q) *)
Theorem C17_qapg_writes_cells :
  forall n F D, gq_writes n F D = writes2 (n * n) (cell_coef n F D).
Proof. exact gq_writes_cells. Qed.
Print Assumptions C17_qapg_writes_cells.

(* after the replay the bias of the unordered pair {a, b}, b < a, is the one written at its LATER visit (a, b) *)
Theorem C17_qapg_coefficient_is_source :
  forall n F D a b, (b < a)%nat -> (a < n * n)%nat ->
    quad_coeff (p_quad (qapg_objective n F D)) a b = cell_coef n (mget F) (mget D) a b.
Proof. exact qapg_coefficient_is_source. Qed.
Print Assumptions C17_qapg_coefficient_is_source.

(* TIE: generated construction and hand-written mirror: same energy on EVERY assignment, every n, all matrices *)
Theorem C17_qapg_objective_is_source :
  forall n F D (x : sample), energy (qapg_objective n F D) x = energy (qap_objective n F D) x.
Proof. exact qapg_objective_is_source. Qed.
Print Assumptions C17_qapg_objective_is_source.

Theorem C17_qapg_constraints_is_source : forall n, qapg_constraints n = qap_constraints n.
Proof. exact qapg_constraints_is_source. Qed.
Print Assumptions C17_qapg_constraints_is_source.

(* the documented relation, re-proved over the generated construction: on "facility i at location pi(i)" the objective
   is sum_{i <> k} flow[i][k] * dist[pi(i)][pi(k)] for ANY flows when the distance matrix is symmetric *)
Theorem C17_qapg_cost_symmetric :
  forall n F D (pi : nat -> nat) (x : sample),
    (forall i, (i < n)%nat -> (pi i < n)%nat) -> symmetric n D ->
    (forall i j, (i < n)%nat -> (j < n)%nat -> x (gq_index n i j) = onehot_sample n pi i j) ->
    energy (qapg_objective n F D) x = qap_cost n F D pi.
Proof. exact qapg_cost_symmetric. Qed.
Print Assumptions C17_qapg_cost_symmetric.

Theorem C17_qapg_feasible :
  forall n F D (x : sample),
    feasibleb (qapg_model n F D) x = true
    <-> (forall i, (i < n)%nat -> qap_row n x i = 1%Qc) /\ (forall j, (j < n)%nat -> qap_col n x j = 1%Qc).
Proof. exact qapg_feasible. Qed.
Print Assumptions C17_qapg_feasible.

(* ... and with an asymmetric distance matrix the generated construction does NOT give the documented cost *)
Theorem C17_qapg_asymmetric_refuted :
  energy (qapg_objective 2 F_ex D_ex) (perm_sample 2 (fun i => i)) <> qap_cost 2 F_ex D_ex (fun i => i).
Proof. exact qapg_asymmetric_refuted. Qed.
Print Assumptions C17_qapg_asymmetric_refuted.

(* ---------- magic_square: the construction GENERATED from the source (Gen/Gen_Magic.v) ---------- *)
From Dimod Require Import Gen.Gen_Magic Model.MagicGen Proofs.MagicGenFacts.

(* the degree-2 terms of the uniqueness sum, generated in loop order, are those of the mirror *)
Theorem C17_magicg_uniq_quad_is_source : forall n, gm_uniq_quad n = p_quad (uniq_poly n).
Proof. exact gm_uniq_quad_is_source. Qed.
Print Assumptions C17_magicg_uniq_quad_is_source.

(* (size**4 - size**2)/2 of the source (a float division) is the integer the mirror uses: n^4 - n^2 is even *)
Theorem C17_magicg_uniq_rhs_is_source : forall n, magicg_uniq_rhs n = uniq_rhs n.
Proof. exact magicg_uniq_rhs_is_source. Qed.
Print Assumptions C17_magicg_uniq_rhs_is_source.

(* TIE: for the two powers the source accepts the generated list of constraints IS the mirror's, for every n *)
Theorem C17_magicg_constraints_is_source :
  forall n power, power = 1%nat \/ power = 2%nat -> magicg_constraints n power = magic_constraints n power.
Proof. exact magicg_constraints_is_source. Qed.
Print Assumptions C17_magicg_constraints_is_source.

Theorem C17_magicg_feasible_is_source :
  forall n power (x : sample), power = 1%nat \/ power = 2%nat ->
    forallb (fun c => qcon_satb c x) (magicg_constraints n power) = magic_feasibleb n power x.
Proof. exact magicg_feasible_is_source. Qed.
Print Assumptions C17_magicg_feasible_is_source.

(* ---------- random generators with every PRNG draw an ORACLE parameter (Model/RandStruct.v) ---------- *)
(* frustrated_loop: accumulation over loops and the R cut-off (fcl.py); doped, gnm_random_bqm, gnp_random_bqm
   (random.py); chimera_anticluster (chimera.py).  Statements hold for ANY draws. *)
From Dimod Require Import Model.RandStruct Proofs.RandStructFacts.
Local Open Scope Z_scope.

(* fcl.py 144: the "random" closing coupling of plant_solution=False is always +1 *)
Theorem C17_fl_noplant_closing_is_afm :
  forall L,
    noplant_values L = repeat (-1) (L - 1) ++ [1].
Proof. exact fl_noplant_closing_is_afm. Qed.
Print Assumptions C17_fl_noplant_closing_is_afm.

(* ... so the plant_solution=False loop is the planted loop with idx = 0: nothing is sampled *)
Theorem C17_fl_noplant_is_plant0 :
  forall c,
    loop_noplant c = loop_plant c 0.
Proof. exact fl_noplant_is_plant0. Qed.
Print Assumptions C17_fl_noplant_is_plant0.

(* the R cut-off for R = Rn/Rd > 0 and ANY random walk: every accumulated coupling stays below R + 1 ... *)
Theorem C17_fl_cutoff_bound :
  forall Rn Rd plant num maxfail G cds e,
    0 < Rd -> 0 < Rn ->
  Rd * Z.abs (stJ (fl_run Rn Rd plant num maxfail G cds) e) < Rn + Rd.
Proof. exact fl_cutoff_bound. Qed.
Print Assumptions C17_fl_cutoff_bound.

(* ... and every edge still offered to the random walk is strictly below R *)
Theorem C17_fl_alive_below_R :
  forall Rn Rd plant num maxfail G cds e,
    0 < Rd -> 0 < Rn ->
  stAlive (fl_run Rn Rd plant num maxfail G cds) e = true ->
  Rd * Z.abs (stJ (fl_run Rn Rd plant num maxfail G cds) e) < Rn.
Proof. exact fl_alive_below_R. Qed.
Print Assumptions C17_fl_alive_below_R.

(* integer R (the error message says "R should be a positive integer"): |J| <= R *)
Theorem C17_fl_cutoff_integer_R :
  forall R plant num maxfail G cds e,
    0 < R ->
  Z.abs (stJ (fl_run R 1 plant num maxfail G cds) e) <= R.
Proof. exact fl_cutoff_integer_R. Qed.
Print Assumptions C17_fl_cutoff_integer_R.

(* for a fractional R (R is typed float, default inf) "|J| <= R" is FALSE: R = 1/2 on a triangle *)
Theorem C17_fl_cutoff_fractional_R_refuted :
  exists Rn Rd plant num maxfail G cds e, 0 < Rd /\ 0 < Rn /\
    ~ (Rd * Z.abs (stJ (fl_run Rn Rd plant num maxfail G cds) e) <= Rn).
Proof. exact fl_cutoff_fractional_R_refuted. Qed.
Print Assumptions C17_fl_cutoff_fractional_R_refuted.

(* accumulation: the couplings are the sum of exactly the good loops (fcl.py 147), there are at most num_cycles
   of them, and each is a loop of >= 3 distinct edges with one +1 coupling and -1 elsewhere *)
Theorem C17_fl_accumulates :
  forall Rn Rd plant num maxfail G cds,
    let st := fl_run Rn Rd plant num maxfail G cds in
  (forall e, stJ st e = fl_zsum (map (fun lp => coef lp e) (stAcc st))) /\
  length (stAcc st) = stGood st /\ (stGood st <= num)%nat /\
  Forall (fun lp => exists c i, (3 <= length c)%nat /\ NoDup (cycle_edges c) /\ lp = loop_plant c i) (stAcc st).
Proof. exact fl_accumulates. Qed.
Print Assumptions C17_fl_accumulates.

(* for ANY draws: on a graph without repeated edges the coupling of the i-th edge IS the i-th draw, nothing else is
   coupled, linear biases and offset are 0 *)
Theorem C17_doped_structure :
  forall edges draws,
    length draws = length edges -> NoDup (doped_keys edges) ->
  map (doped_J edges draws) (doped_keys edges) = draws /\
  (forall e, ~ In e (doped_keys edges) -> doped_J edges draws e = 0) /\
  (forall v, doped_linear edges v = 0) /\ doped_offset = 0.
Proof. exact doped_structure. Qed.
Print Assumptions C17_doped_structure.

(* choice([1, -1], p=[p, 1-p]) returns an element of positive probability: every coupling is +-1;
   with p = 0 (fm) or p = 1 (not fm) all are -1, with p = 1 (fm) or p = 0 (not fm) all are +1 *)
Theorem C17_doped_couplings_pm1 :
  forall p fm edges draws,
    length draws = length edges -> NoDup (doped_keys edges) ->
  Forall (doped_allowed p fm) draws ->
  Forall fl_pm1 (map (doped_J edges draws) (doped_keys edges)) /\
  ((if fm then p else pflip p) = P0 -> Forall (fun x => x = -1) (map (doped_J edges draws) (doped_keys edges))) /\
  ((if fm then p else pflip p) = P1 -> Forall (fun x => x = 1) (map (doped_J edges draws) (doped_keys edges))).
Proof. exact doped_couplings_pm1. Qed.
Print Assumptions C17_doped_couplings_pm1.

(* add_interaction ACCUMULATES: with an edge listed twice (an edge list [(0,1),(1,0)] is accepted by
   graph_argument) the coupling is not +-1 *)
Theorem C17_doped_repeated_edge_refuted :
  exists edges draws, length draws = length edges /\ Forall fl_pm1 draws /\
    ~ Forall fl_pm1 (map (doped_J edges draws) (doped_keys edges)).
Proof. exact doped_repeated_edge_refuted. Qed.
Print Assumptions C17_doped_repeated_edge_refuted.

(* `variables, edges = graph` but `variables` is never used: isolated nodes of the graph are dropped *)
Theorem C17_doped_keeps_all_nodes_refuted :
  exists (nodes : list nat) edges, Forall (fun uv => In (fst uv) nodes /\ In (snd uv) nodes) edges /\
    exists v, In v nodes /\ ~ In v (doped_vars edges).
Proof. exact doped_keeps_all_nodes_refuted. Qed.
Print Assumptions C17_doped_keeps_all_nodes_refuted.

(* random.py 116-131.  The test `randint(m - t) < m - k` is ALWAYS true (k <= t), so whatever randint returns the
   m interactions are the FIRST m pairs of the upper triangle in row-major order, with qbias[0..m-1] in order:
   gnm_random_bqm draws no random graph at all *)
Theorem C17_gnm_selection_is_prefix :
  forall n m draws,
    length draws = m -> gnm_draws_ok m 0 draws ->
  gnm_sets n m draws = gnm_prefix n m 0 1 0.
Proof. exact gnm_selection_is_prefix. Qed.
Print Assumptions C17_gnm_selection_is_prefix.

(* num_interactions = min(n(n-1)//2, requested) (random.py 98-99): exactly m set_quadratic calls, with qbias indices
   0..m-1, every one on a pair ui < vi < num_variables (labels[ui], labels[vi] exist; no self-loop) *)
Theorem C17_gnm_structure :
  forall n m draws,
    length draws = m -> gnm_draws_ok m 0 draws -> (2 * m <= n * (n - 1))%nat ->
  length (gnm_sets n m draws) = m /\ map snd (gnm_sets n m draws) = seq 0 m /\
  Forall (gnm_valid n) (gnm_sets n m draws).
Proof. exact gnm_structure. Qed.
Print Assumptions C17_gnm_structure.

(* the selected pairs do not depend on the draws *)
Theorem C17_gnm_draws_irrelevant :
  forall n m d1 d2,
    length d1 = m -> length d2 = m -> gnm_draws_ok m 0 d1 -> gnm_draws_ok m 0 d2 ->
  gnm_sets n m d1 = gnm_sets n m d2.
Proof. exact gnm_draws_irrelevant. Qed.
Print Assumptions C17_gnm_draws_irrelevant.

(* for ANY uniform draws: (u, w) is an interaction iff u < w < n and the draw of row u, column w was below p *)
Theorem C17_gnp_edges_spec :
  forall n ex u w,
    In (u, w) (gnp_edges n ex) <-> (u < w < n)%nat /\ ex u (w - u - 1)%nat = true.
Proof. exact gnp_edges_spec. Qed.
Print Assumptions C17_gnp_edges_spec.

(* irow/icol are allocated with num_interactions entries and filled exactly (random.py 196-210) *)
Theorem C17_gnp_count :
  forall n ex,
    length (gnp_edges n ex) = gnp_num_interactions n ex.
Proof. exact gnp_count. Qed.
Print Assumptions C17_gnp_count.

(* for ANY signs: the first len(inrow) biases (intra-tile) are +-1, the others (inter-tile) +-multiplier *)
Theorem C17_anti_qdata_biases :
  forall n_in mult signs,
    Forall fl_pm1 signs ->
  exists A B, anti_qdata n_in mult signs = A ++ B /\ length A = Nat.min n_in (length signs) /\
    length (A ++ B) = length signs /\
    Forall fl_pm1 A /\ Forall (fun x => x = mult \/ x = - mult) B /\
    (forall v, anti_linear v = 0) /\ anti_offset = 0.
Proof. exact anti_qdata_biases. Qed.
Print Assumptions C17_anti_qdata_biases.

(* _iter_chimera_tile_edges: an intra-tile edge joins the two shores of ONE tile c:
   k0 = 2t*c + x, k1 = 2t*c + t + y with x, y < t *)
Theorem C17_tile_edges_intra :
  forall m n t k0 k1,
    In (k0, k1) (tile_edges m n t) ->
  exists c x y, (x < t)%nat /\ (y < t)%nat /\ k0 = (c * (2 * t) + x)%nat /\ k1 = (c * (2 * t) + t + y)%nat.
Proof. exact tile_edges_intra. Qed.
Print Assumptions C17_tile_edges_intra.

(* a cycle returned by _random_cycle has pairwise distinct vertices (walk[visited[u]:] of a walk that stops at
   the first revisit) and, never stepping straight back, at least 3 of them: its edges are pairwise distinct
   (the comment at fcl.py 187), so dict cycle_J has len(cycle) keys and each edge moves by exactly +-1 *)
Theorem C17_cycle_edges_distinct :
  forall c,
    NoDup c -> (3 <= length c)%nat -> NoDup (cycle_edges c).
Proof. exact cycle_edges_distinct. Qed.
Print Assumptions C17_cycle_edges_distinct.

(* so the model has exactly num_interactions interactions: every set_quadratic hits a fresh pair *)
Theorem C17_gnm_pairs_distinct :
  forall n m draws,
    length draws = m -> gnm_draws_ok m 0 draws -> (2 * m <= n * (n - 1))%nat ->
  NoDup (map fst (gnm_sets n m draws)) /\ length (map fst (gnm_sets n m draws)) = m.
Proof. exact gnm_pairs_distinct. Qed.
Print Assumptions C17_gnm_pairs_distinct.

(* the quadratic biases of gnm are exactly the generated qbias, in order; so each lies wherever bias_generator
   puts its values (default uniform(size=n): [0, 1)) *)
Theorem C17_gnm_biases :
  forall n m draws qbias lo hi,
    length draws = m -> gnm_draws_ok m 0 draws -> length qbias = m ->
  map snd (gnm_quadratic n m draws qbias) = qbias /\
  (Forall (fun x => lo <= x <= hi) qbias -> Forall (fun x => lo <= x <= hi) (map snd (gnm_quadratic n m draws qbias))).
Proof. exact gnm_biases. Qed.
Print Assumptions C17_gnm_biases.

Theorem C17_gnp_pairs_distinct :
  forall n ex,
    NoDup (gnp_edges n ex).
Proof. exact gnp_pairs_distinct. Qed.
Print Assumptions C17_gnp_pairs_distinct.

(* fcl.py 148-151, for ANY walk: at every moment the edges offered to _random_cycle are exactly the graph edges with
   |J| < R (an edge is removed when, and only when, it reaches R), and nothing outside the graph is ever coupled *)
Theorem C17_fl_alive_iff :
  forall Rn Rd plant num maxfail G cds e,
    0 < Rn ->
  let st := fl_run Rn Rd plant num maxfail G cds in
  (stAlive st e = true <-> In e G /\ Rd * Z.abs (stJ st e) < Rn) /\ (~ In e G -> stJ st e = 0).
Proof. exact fl_alive_iff. Qed.
Print Assumptions C17_fl_alive_iff.

(* an inter-tile edge joins the SAME shore position of two neighbouring tiles:
   horizontal shore (offset t + x) one tile to the right (+2t), or vertical shore (offset x) one row down (+2t*n) *)
Theorem C17_intertile_edges_shape :
  forall m n t a b,
    In (a, b) (intertile_edges m n t) ->
  exists c x, (x < t)%nat /\
    ((a = (c * (2 * t) + t + x)%nat /\ b = (a + 2 * t)%nat) \/ (a = (c * (2 * t) + x)%nat /\ b = (a + n * (2 * t))%nat)).
Proof. exact intertile_edges_shape. Qed.
Print Assumptions C17_intertile_edges_shape.

(* irow = inrow + outrow: no pair is both an intra-tile and an inter-tile edge, so from_numpy_vectors never adds a
   +-1 and a +-multiplier on the same interaction (guard `if m and n and t`: n > 0) *)
Theorem C17_anti_intra_inter_disjoint :
  forall m n t a b,
    (0 < n)%nat ->
  In (a, b) (tile_edges m n t) -> In (a, b) (intertile_edges m n t) -> False.
Proof. exact anti_intra_inter_disjoint. Qed.
Print Assumptions C17_anti_intra_inter_disjoint.

(* ---------- multiplication_circuit: the wiring GENERATED from the source (Gen/Gen_MultWiring.v) ---------- *)
(* translators/mult_wiring.py emits the naming functions AND / SUM / CARRY (with the product-bit relabelling at the edges), the
   list `inputs` of gate(i, j) (initial value + what the nested ifs append), the and_gate arguments, the outputs, the test
   on len(inputs) that places a half / full adder, and the visiting order; Model/MultWiring.v assembles the gate instances. *)
From Dimod Require Import Gen.Gen_MultWiring Model.MultWiring Proofs.MultWiringFacts.
Local Close Scope Z_scope.

Theorem C17_mult_naming_is_source :
  forall n m i j, gw_AND n m i j = AND_ i j /\ gw_SUM n m i j = SUM_ n i j /\ gw_CARRY n m i j = CARRY_ n m i j.
Proof. exact (fun n m i j => conj (gw_AND_is_source n m i j) (conj (gw_SUM_is_source n m i j) (gw_CARRY_is_source n m i j))). Qed.
Print Assumptions C17_mult_naming_is_source.

(* which gates (and / half adder / full adder) stand at position (i, j) *)
Theorem C17_mult_gate_kind_is_source :
  forall n m i j, map kind_of (mw_gate n m i j) = map kind_of (gate_ij n m i j).
Proof. exact mult_gate_kind_is_source. Qed.
Print Assumptions C17_mult_gate_kind_is_source.

(* ... with all their input / output wires *)
Theorem C17_mult_gate_is_source : forall n m i j, mw_gate n m i j = gate_ij n m i j.
Proof. exact mult_gate_is_source. Qed.
Print Assumptions C17_mult_gate_is_source.

(* TIE: the generated wiring IS the mirror's, as a list of gate instances, for all n, m *)
Theorem C17_mult_wiring_is_source : forall n m, mw_circuit n m = circuit n m.
Proof. exact mult_wiring_is_source. Qed.
Print Assumptions C17_mult_wiring_is_source.

(* the documented relation re-stated over the generated wiring *)
Theorem C17_multiplication_circuit_generated :
  forall n m, (2 <= n)%nat -> (2 <= m)%nat ->
    (forall a : wassign, (0 <= circuit_energy (mw_circuit n m) a)%Z) /\
    (forall a : wassign, circuit_energy (mw_circuit n m) a = 0%Z ->
       bits_val (prod_bits n m a) = (bits_val (a_bits n a) * bits_val (b_bits m a))%Z) /\
    (forall a : wassign,
       bits_val (prod_bits n m a) <> (bits_val (a_bits n a) * bits_val (b_bits m a))%Z ->
       (1 <= circuit_energy (mw_circuit n m) a)%Z) /\
    (forall abits bbits, length abits = n -> length bbits = m ->
       exists a : wassign, a_bits n a = abits /\ b_bits m a = bbits /\ circuit_energy (mw_circuit n m) a = 0%Z).
Proof. exact multiplication_circuit_generated. Qed.
Print Assumptions C17_multiplication_circuit_generated.
