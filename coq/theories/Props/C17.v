(* C17 - Problem generators encode exactly the relation they document.
   The gate theorems are stated over Gen/Gen_Gates.v, which is regenerated from
   dimod/generators/gates.py before every build: changing a coefficient in the
   source breaks the corresponding theorem.
   Only statements; every proof is `exact <lemma>`. *)
From Coq Require Import List ZArith QArith Qcanon Bool Arith.
From Dimod Require Import Base.Util Model.Poly Model.Comb Gen.Gen_Gates Model.Gates
  Proofs.GatesFacts Props.Comb.
Import ListNotations.

(* energy 0 on exactly the rows of the truth table, >= 1 on every other row (strength 1) *)
Theorem and_gate_table : forall x, length x = 3%nat ->
  (and_ok x = true -> and_energy x = 0%Z) /\ (and_ok x = false -> (1 <= and_energy x)%Z).
Proof. exact and_gate_table_thm. Qed.
Print Assumptions and_gate_table.

Theorem or_gate_table : forall x, length x = 3%nat ->
  (or_ok x = true -> or_energy x = 0%Z) /\ (or_ok x = false -> (1 <= or_energy x)%Z).
Proof. exact or_gate_table_thm. Qed.
Print Assumptions or_gate_table.

(* xor: minimised over the documented auxiliary variable *)
Theorem xor_gate_table : forall x, length x = 3%nat ->
  (xor_ok x = true -> xor_min_energy x = 0%Z) /\ (xor_ok x = false -> (1 <= xor_min_energy x)%Z).
Proof. exact xor_gate_table_thm. Qed.
Print Assumptions xor_gate_table.

Theorem xor_gate_nonneg : forall x, length x = 4%nat -> (0 <= xor_energy x)%Z.
Proof. exact xor_gate_nonneg_thm. Qed.
Print Assumptions xor_gate_nonneg.

Theorem halfadder_table : forall x, length x = 4%nat ->
  (halfadder_ok x = true -> halfadder_energy x = 0%Z) /\ (halfadder_ok x = false -> (1 <= halfadder_energy x)%Z).
Proof. exact halfadder_table_thm. Qed.
Print Assumptions halfadder_table.

Theorem fulladder_table : forall x, length x = 5%nat ->
  (fulladder_ok x = true -> fulladder_energy x = 0%Z) /\ (fulladder_ok x = false -> (1 <= fulladder_energy x)%Z).
Proof. exact fulladder_table_thm. Qed.
Print Assumptions fulladder_table.

(* the BQM with coefficients strength * table has energy strength * (integer energy) *)
Theorem C17_gate_poly_energy :
  forall lin quad (s : Qc) x,
    energy (gate_poly lin quad s) (sample_of_bits x) = (s * z2q (gate_energy lin quad x))%Qc.
Proof. exact gate_poly_energy. Qed.
Print Assumptions C17_gate_poly_energy.

(* scaling lemma: any strength > 0 *)
Theorem C17_gate_scaling :
  forall (s : Qc) (e : Z), (0 < s)%Qc ->
    (e = 0%Z -> (s * z2q e = 0)%Qc) /\ ((1 <= e)%Z -> (s <= s * z2q e)%Qc) /\
    ((0 <= e)%Z -> (0 <= s * z2q e)%Qc) /\ ((s * z2q e = 0)%Qc -> e = 0%Z).
Proof. exact gate_scaling. Qed.
Print Assumptions C17_gate_scaling.

(* assembled: 0 on the truth table, >= strength elsewhere, for any table that passes the computed check *)
Theorem C17_gate_bqm_gap :
  forall lin quad n ok (s : Qc),
    table_ok n ok (gate_energy lin quad) = true -> (0 < s)%Qc ->
    forall x, length x = n ->
      (ok x = true -> energy (gate_poly lin quad s) (sample_of_bits x) = 0%Qc) /\
      (ok x = false -> (s <= energy (gate_poly lin quad s) (sample_of_bits x))%Qc).
Proof. exact gate_bqm_gap. Qed.
Print Assumptions C17_gate_bqm_gap.

(* combinations(n, k): (sum x - k)^2, all n and k (proved in Proofs/CombSlack.v) *)
Theorem C17_combinations :
  forall (k : Z) (x : list bool),
    combinations_energy k x = ((count_true x - k) * (count_true x - k))%Z /\
    (combinations_energy k x = 0%Z <-> count_true x = k) /\
    (count_true x <> k -> (1 <= combinations_energy k x)%Z).
Proof. exact C17_combinations_energy. Qed.
Print Assumptions C17_combinations.

(* independent-set family: energy = strength * (#listed edges inside the set) - selected weight *)
Theorem C17_mwis_energy :
  forall s edges weights sel,
    energy (mwis_poly s edges weights) (sel_sample sel)
    = (s * edges_inside sel edges - selected_weight sel weights)%Qc.
Proof. exact mwis_energy. Qed.
Print Assumptions C17_mwis_energy.

Theorem C17_mwis_independent :
  forall s edges weights sel,
    (forall e, In e edges -> sel (fst e) && sel (snd e) = false) ->
    energy (mwis_poly s edges weights) (sel_sample sel) = (- selected_weight sel weights)%Qc.
Proof. exact mwis_independent. Qed.
Print Assumptions C17_mwis_independent.

Example C17_ex_fulladder : fulladder_energy [true; true; false; false; true] = 0%Z /\
                           fulladder_energy [true; true; false; true; true] = 1%Z.
Proof. vm_compute. split; reflexivity. Qed.
