(* C15 - Higher-order reduction is exact on consistent assignments; penalty is never < 0.
   Only statements; every proof is `exact <lemma>`; examples by computation. *)
From Coq Require Import List ZArith QArith Qcanon Bool Arith.
From Dimod Require Import Base.Util Model.Poly Model.HPoly Model.HPolyPy Proofs.HPolyPyFacts Model.PolyCtor Proofs.PolyCtorFacts Gen.Gen_PolyCtor Proofs.PolyCtorGenFacts Model.Reduce
  Proofs.ReduceFacts Proofs.PenaltyFacts Proofs.MakeQuadratic Proofs.NormaliseFacts Proofs.C15EndToEnd Proofs.ReduceLoop Proofs.BaseFacts Model.Gates Gen.Gen_Gates Gen.Gen_SpinProduct Proofs.GenPenalties Proofs.PolymorphFacts Proofs.ExpandInit.
Import ListNotations.
Open Scope Qc_scope.

(* Substituting product variables (ANY valid sequence of constraints, so in
   particular the one the frequency bookkeeping of reduce_binary_polynomial
   happens to choose) preserves the energy at every assignment - not only 0/1
   or +-1 valued - in which each product variable equals its product. *)
Theorem C15_reduce_energy_on_consistent :
  forall (poly : hpoly) (cons : list cons3) (a : sample),
    terms_nodup poly = true -> valid_cons (hvars poly) cons = true -> consistent cons a ->
    henergy (reduce_with cons poly) a = henergy poly a.
Proof. exact reduce_energy_on_consistent. Qed.
Print Assumptions C15_reduce_energy_on_consistent.

(* every assignment of the original variables has such a consistent extension *)
Theorem C15_reduce_energy_extend :
  forall (poly : hpoly) (cons : list cons3) (a : sample),
    terms_nodup poly = true -> valid_cons (hvars poly) cons = true ->
    consistent cons (extend cons a) /\
    (forall x, In x (hvars poly) -> extend cons a x = a x) /\
    henergy (reduce_with cons poly) (extend cons a) = henergy poly a.
Proof. exact reduce_energy_extend. Qed.
Print Assumptions C15_reduce_energy_extend.

(* an applicable substitution lowers the degree of the term by exactly one; terms of
   degree <= 2 are never touched *)
Theorem C15_subst_term_degree :
  forall u v p t, NoDup t -> u <> v -> applies u v t = true ->
    S (length (subst_term (u, v, p) t)) = length t.
Proof. exact subst_term_degree. Qed.
Print Assumptions C15_subst_term_degree.

Theorem C15_subst_term_low_degree :
  forall c t, (length t <= 2)%nat -> subst_term c t = t.
Proof. exact subst_term_low_degree. Qed.
Print Assumptions C15_subst_term_low_degree.

(* the quadratic model built from terms of degree <= 2 (_init_objective) *)
Theorem C15_poly_of_hpoly_energy :
  forall (p : hpoly) (a : sample),
    all_degree_le2 p = true -> energy (poly_of_hpoly p) a = henergy p a.
Proof. exact poly_of_hpoly_energy. Qed.
Print Assumptions C15_poly_of_hpoly_energy.

(* AND penalty 3p + uv - 2up - 2vp (8 rows), scaled by any positive strength *)
Theorem C15_and_penalty :
  forall s x y z : Qc,
    0 < s -> (x = 0 \/ x = 1) -> (y = 0 \/ y = 1) -> (z = 0 \/ z = 1) ->
    0 <= s * and_pen x y z /\ (s * and_pen x y z = 0 <-> z = x * y) /\
    (z <> x * y -> s <= s * and_pen x y z).
Proof. exact and_penalty_scaled. Qed.
Print Assumptions C15_and_penalty.

(* spin product penalty of _spin_product (16 rows): never negative, 0 at the best
   auxiliary spin when the product is right, at least the strength for both
   auxiliary values when it is wrong *)
Theorem C15_spin_penalty :
  forall s x y z : Qc,
    0 < s -> (x = 1 \/ x = - (1)) -> (y = 1 \/ y = - (1)) -> (z = 1 \/ z = - (1)) ->
    (forall w, (w = 1 \/ w = - (1)) -> 0 <= s * spin_pen x y z w) /\
    (z = x * y -> s * spin_pen x y z (s2q (opt_aux (is_one x) (is_one y))) = 0) /\
    (z <> x * y -> forall w, (w = 1 \/ w = - (1)) -> s <= s * spin_pen x y z w).
Proof. exact spin_penalty_scaled. Qed.
Print Assumptions C15_spin_penalty.

(* the penalty polynomials are those tables *)
Theorem C15_and_pen_poly_energy :
  forall u v p (a : sample), energy (and_pen_poly u v p) a = and_pen (a u) (a v) (a p).
Proof. exact energy_and_pen_poly. Qed.
Print Assumptions C15_and_pen_poly_energy.

Theorem C15_spin_pen_poly_energy :
  forall u v p w (a : sample), energy (spin_pen_poly u v p w) a = spin_pen (a u) (a v) (a p) (a w).
Proof. exact energy_spin_pen_poly. Qed.
Print Assumptions C15_spin_pen_poly_energy.

(* ... and they are the tables TRANSLATED from the source on every run (translators/spin_product.py,
   translators/gates_tables.py): a changed constant in _spin_product or and_gate breaks these *)
Theorem C15_spin_pen_poly_is_source :
  forall u v p w,
    spin_pen_poly u v p w = table_poly [u; v; p; w] spin_product_offset spin_product_lin spin_product_quad.
Proof. exact spin_pen_poly_is_source. Qed.
Print Assumptions C15_spin_pen_poly_is_source.

Theorem C15_and_pen_poly_is_source :
  forall u v p,
    and_pen_poly u v p
    = table_poly [u; v; p] 0 (map (fun t => (fst t, z2q (snd t))) and_gate_lin)
                             (map (fun t => (fst t, z2q (snd t))) and_gate_quad).
Proof. exact and_pen_poly_is_source. Qed.
Print Assumptions C15_and_pen_poly_is_source.

(* make_quadratic = strength * penalties + reduced objective *)
Theorem C15_make_quadratic_binary_energy :
  forall s cons red (a : sample),
    energy (mq_binary s cons red) a = s * and_pen_sum cons a + energy (poly_of_hpoly red) a.
Proof. exact mq_binary_energy. Qed.
Print Assumptions C15_make_quadratic_binary_energy.

Theorem C15_make_quadratic_spin_energy :
  forall s cons red (a : sample),
    energy (mq_spin s cons red) a = s * spin_pen_sum cons a + energy (poly_of_hpoly red) a.
Proof. exact mq_spin_energy. Qed.
Print Assumptions C15_make_quadratic_spin_energy.

(* BINARY: exact on consistent assignments ... *)
Theorem C15_make_quadratic_binary_exact :
  forall s poly cons (a : sample),
    terms_nodup poly = true -> valid_cons (hvars poly) cons = true ->
    all_degree_le2 (reduce_with cons poly) = true ->
    is_binary a -> consistent cons a ->
    energy (mq_binary s cons (reduce_with cons poly)) a = henergy poly a.
Proof. exact make_quadratic_binary_exact. Qed.
Print Assumptions C15_make_quadratic_binary_exact.

(* ... attained for every assignment of the original variables ... *)
Theorem C15_make_quadratic_binary_attained :
  forall s poly cons (a : sample),
    terms_nodup poly = true -> valid_cons (hvars poly) cons = true ->
    all_degree_le2 (reduce_with cons poly) = true -> is_binary a ->
    is_binary (extend cons a) /\
    (forall x, In x (hvars poly) -> extend cons a x = a x) /\
    energy (mq_binary s cons (reduce_with cons poly)) (extend cons a) = henergy poly a.
Proof. exact make_quadratic_binary_attained. Qed.
Print Assumptions C15_make_quadratic_binary_attained.

(* ... and never below the reduced objective; an inconsistent product costs >= strength *)
Theorem C15_make_quadratic_binary_lower :
  forall s cons red (a : sample),
    0 < s -> all_degree_le2 red = true -> is_binary a ->
    henergy red a <= energy (mq_binary s cons red) a /\
    (consistentb cons a = false -> henergy red a + s <= energy (mq_binary s cons red) a).
Proof. exact make_quadratic_binary_lower. Qed.
Print Assumptions C15_make_quadratic_binary_lower.

(* SPIN: minimised over the auxiliary spins *)
Theorem C15_make_quadratic_spin_exact :
  forall s poly cons (a : sample),
    terms_nodup poly = true -> valid_cons4 poly cons = true ->
    all_degree_le2 (reduce_with (map drop_aux cons) poly) = true ->
    is_spin a -> consistent (map drop_aux cons) a ->
    let a' := set_aux cons a in
    (forall x, In x (known_vars poly cons) -> a' x = a x) /\ is_spin a' /\
    energy (mq_spin s cons (reduce_with (map drop_aux cons) poly)) a' = henergy poly a.
Proof. exact make_quadratic_spin_exact. Qed.
Print Assumptions C15_make_quadratic_spin_exact.

Theorem C15_make_quadratic_spin_lower :
  forall s cons red (a : sample),
    0 < s -> all_degree_le2 red = true -> is_spin a ->
    henergy red a <= energy (mq_spin s cons red) a /\
    (consistentb (map drop_aux cons) a = false -> henergy red a + s <= energy (mq_spin s cons red) a).
Proof. exact make_quadratic_spin_lower. Qed.
Print Assumptions C15_make_quadratic_spin_lower.

(* BinaryPolynomial's reduction of repeated variables (x*x = x, s*s = 1) keeps the energy and
   yields duplicate-free terms, for every raw polynomial *)
Theorem C15_normalise_energy_binary :
  forall raw (s : sample), (forall v, s v * s v = s v) -> henergy (normalise BINARY raw) s = henergy raw s.
Proof. exact normalise_energy_binary. Qed.
Print Assumptions C15_normalise_energy_binary.

Theorem C15_normalise_energy_spin :
  forall raw (s : sample), (forall v, s v * s v = 1) -> henergy (normalise SPIN raw) s = henergy raw s.
Proof. exact normalise_energy_spin. Qed.
Print Assumptions C15_normalise_energy_spin.

Theorem C15_normalise_terms_nodup :
  forall vt raw, terms_nodup (normalise vt raw) = true.
Proof. exact normalise_terms_nodup. Qed.
Print Assumptions C15_normalise_terms_nodup.

(* end to end from the raw polynomial the user passed *)
Theorem C15_make_quadratic_binary_raw :
  forall s raw cons (a : sample),
    let poly := normalise BINARY raw in
    valid_cons (hvars poly) cons = true -> all_degree_le2 (reduce_with cons poly) = true ->
    is_binary a -> consistent cons a ->
    energy (mq_binary s cons (reduce_with cons poly)) a = henergy raw a.
Proof. exact make_quadratic_binary_raw. Qed.
Print Assumptions C15_make_quadratic_binary_raw.

Theorem C15_make_quadratic_spin_raw :
  forall s raw cons (a : sample),
    let poly := normalise SPIN raw in
    valid_cons4 poly cons = true -> all_degree_le2 (reduce_with (map drop_aux cons) poly) = true ->
    is_spin a -> consistent (map drop_aux cons) a ->
    let a' := set_aux cons a in
    (forall x, In x (known_vars poly cons) -> a' x = a x) /\ is_spin a' /\
    energy (mq_spin s cons (reduce_with (map drop_aux cons) poly)) a' = henergy raw a.
Proof. exact make_quadratic_spin_raw. Qed.
Print Assumptions C15_make_quadratic_spin_raw.

(* The greedy loop of reduce_binary_polynomial with an ARBITRARY admissible choice of the pair
   (any pair of distinct variables occurring together in a term of degree > 2; None only when no
   such term is left - the frequency index and queue are one such choice): with fuel
   sum of max(0, degree - 2) it ends with all degrees <= 2, its constraint sequence is valid
   (fresh, distinct product variables) and its result is reduce_with of that sequence, so
   C15_reduce_energy_on_consistent applies to it. *)
Theorem C15_reduce_degree_le_2 :
  forall (ch : choice) (p : hpoly),
    good_choice ch -> terms_nodup p = true ->
    let '(r, cs) := reduce_loop (excess p) ch (fresh_above p) p in
    all_degree_le2 r = true /\ valid_cons (hvars p) cs = true /\ r = reduce_with cs p /\
    (length cs <= excess p)%nat.
Proof. exact reduce_degree_le_2. Qed.
Print Assumptions C15_reduce_degree_le_2.

(* every admissible substitution strictly lowers the total excess degree *)
Theorem C15_excess_decreases :
  forall u v x p,
    terms_NoDup p -> u <> v -> (exists t, In t p /\ applies u v (fst t) = true) ->
    (excess (subst_step (u, v, x) p) < excess p)%nat.
Proof. exact excess_subst_lt. Qed.
Print Assumptions C15_excess_decreases.

(* the implementation's own sequence is checked to be admissible (every constraint used); such a
   sequence cannot be longer than the total excess degree *)
Theorem C15_admissible_length :
  forall cs vars p,
    wf vars p -> valid_cons vars cs = true -> admissible p cs = true -> (length cs <= excess p)%nat.
Proof. exact admissible_length. Qed.
Print Assumptions C15_admissible_length.

(* admissible choices exist *)
Theorem C15_first_pair_good : good_choice first_pair.
Proof. exact first_pair_good. Qed.
Print Assumptions C15_first_pair_good.

Example C15_ex_loop :
  let poly : hpoly := [([0;1;2;3]%nat, 1); ([0;1;2]%nat, - two); ([3%nat], 1)] in
  snd (reduce_loop (excess poly) first_pair (fresh_above poly) poly) = [(0, 1, 4)%nat; (4, 2, 5)%nat].
Proof. vm_compute. reflexivity. Qed.

(* make_quadratic(..., bqm=base) / make_quadratic_cqm(..., cqm=base): the supplied model, converted to the
   requested vartype, is ADDED to what is built for the polynomial; the conversion keeps the energy at
   corresponding assignments (s = 2x - 1) *)
Theorem C15_convert_base_energy :
  forall vt bvt p (s : sample),
    energy (convert_base vt bvt p) s =
    energy p (match bvt, vt with
              | SPIN, BINARY => fun w => two * s w + - (1)
              | BINARY, SPIN => fun w => half * s w + half
              | _, _ => s
              end).
Proof. exact convert_base_energy. Qed.
Print Assumptions C15_convert_base_energy.

Theorem C15_with_base_energy :
  forall vt base q (s : sample),
    energy (with_base vt base q) s =
    match base with
    | None => energy q s
    | Some (bvt, p) => energy (convert_base vt bvt p) s + energy q s
    end.
Proof. exact with_base_energy. Qed.
Print Assumptions C15_with_base_energy.

(* ---------- make_quadratic_cqm ---------- *)
(* the product constraints u*v - p == 0 are satisfied exactly by the consistent assignments ... *)
Theorem C15_cqm_feasible_iff_consistent :
  forall cons (a : sample), cqm_feasibleb cons a = true <-> consistent cons a.
Proof. exact cqm_feasible_iff_consistent. Qed.
Print Assumptions C15_cqm_feasible_iff_consistent.

(* ... on which the CQM's objective is the polynomial's energy *)
Theorem C15_make_quadratic_cqm_exact :
  forall poly cons (a : sample),
    terms_nodup poly = true -> valid_cons (hvars poly) cons = true ->
    all_degree_le2 (reduce_with cons poly) = true ->
    cqm_feasibleb cons a = true ->
    energy (poly_of_hpoly (reduce_with cons poly)) a = henergy poly a.
Proof. exact make_quadratic_cqm_exact. Qed.
Print Assumptions C15_make_quadratic_cqm_exact.

(* ---------- HigherOrderComposite: polymorph_response, code shaped (polymorph_rows) ---------- *)
(* every returned row stems from a child row, carries the polynomial's energy of the FULL child row and
   the flag "all products consistent"; with discard_unsatisfied only consistent rows are returned *)
Theorem C15_polymorph_rows_spec :
  forall poly cons discard vc vo rows out,
    In out (polymorph_rows poly cons discard vc vo rows) ->
    exists r, In r rows /\
      fst (fst out) = map (row_sample vc r) vo /\
      snd (fst out) = henergy poly (row_sample vc r) /\
      (discard = false -> snd out = consistentb cons (row_sample vc r)) /\
      (discard = true -> snd out = true /\ consistentb cons (row_sample vc r) = true).
Proof. exact polymorph_rows_spec. Qed.
Print Assumptions C15_polymorph_rows_spec.

Theorem C15_polymorph_rows_length :
  forall poly cons vc vo rows,
    length (polymorph_rows poly cons false vc vo rows) = length rows /\
    length (polymorph_rows poly cons true vc vo rows)
    = length (filter (fun r => consistentb cons (row_sample vc r)) rows).
Proof. exact polymorph_rows_length. Qed.
Print Assumptions C15_polymorph_rows_length.

(* the energy computed on the full row is the energy of the row restricted to the returned columns *)
Theorem C15_restricted_row_energy :
  forall poly vc r vo,
    NoDup vo -> (forall x, In x (hvars poly) -> In x vo) -> length (map (row_sample vc r) vo) = length vo ->
    henergy poly (row_sample vo (map (row_sample vc r) vo)) = henergy poly (row_sample vc r).
Proof. exact restricted_row_energy. Qed.
Print Assumptions C15_restricted_row_energy.

(* ---------- HigherOrderComposite.sample_poly(initial_state=...): expand_initial_state ---------- *)
(* the state handed to the child (products in constraint order, then every auxiliary spin at its minimiser; CInit
   compares the implementation's state with exactly this one) keeps the given values, is consistent, and its energy
   in the quadratic model is the polynomial's energy of the given state.  (BINARY: C15_make_quadratic_binary_attained.) *)
Theorem C15_expand_initial_state_spin :
  forall s poly cons (a : sample),
    terms_nodup poly = true -> valid_cons4 poly cons = true ->
    all_degree_le2 (reduce_with (map drop_aux cons) poly) = true -> is_spin a ->
    let e := set_aux cons (extend (map drop_aux cons) a) in
    (forall x, In x (hvars poly) -> e x = a x) /\ is_spin e /\
    consistent (map drop_aux cons) (extend (map drop_aux cons) a) /\
    energy (mq_spin s cons (reduce_with (map drop_aux cons) poly)) e = henergy poly a.
Proof. exact expand_initial_state_spin. Qed.
Print Assumptions C15_expand_initial_state_spin.

(* ---------- the constructors of the polynomial that is reduced (Model/PolyCtor.v, code shaped) ---------- *)
(* BinaryPolynomial(dict | iterable | polynomial, vartype): whatever the order of the variables inside a key, however
   often a variable is repeated, however many keys / entries denote the same monomial, the dict that __init__ builds
   has at EVERY key the coefficient of the normalised input ... *)
Theorem C15_poly_init_coeff :
  forall vt raw, hpoly_eqb (poly_init vt raw) (normalise vt raw) = true.
Proof. exact poly_init_coeff. Qed.
Print Assumptions C15_poly_init_coeff.

(* ... its keys are distinct sorted sets (a dict of frozensets) ... *)
Theorem C15_ctor_model_wf : forall k, hdict_wf (ctor_model k).
Proof. exact ctor_model_wf. Qed.
Print Assumptions C15_ctor_model_wf.

(* ... and the key computed by the constructor's own branch structure is the normalised term *)
Theorem C15_ctor_key_spec :
  forall vt term,
    ctor_key vt term = match vt with SPIN => spin_reduce_vars term | _ => binary_reduce_vars term end.
Proof. exact ctor_key_spec. Qed.
Print Assumptions C15_ctor_key_spec.

(* from_hubo(H, offset): a constant term already present in H (under () or under a key whose variables cancel) is
   KEPT and the offset is added to it: the polynomial is H + offset, coefficient-wise and in value *)
Theorem C15_from_hubo_coeff :
  forall H off, hpoly_eqb (from_hubo_py H off) (normalise BINARY (H ++ opt_offset off)) = true.
Proof. exact from_hubo_py_coeff. Qed.
Print Assumptions C15_from_hubo_coeff.

Theorem C15_from_hubo_energy :
  forall H off (s : sample), (forall v, s v * s v = s v) ->
    henergy (from_hubo_py H off) s = henergy H s + offset_value off.
Proof. exact from_hubo_py_energy. Qed.
Print Assumptions C15_from_hubo_energy.

(* from_hising(h, J, offset): sum_i h_i s_i + J(s) + offset, also when J has keys on a single variable, keys whose
   variables cancel (s*s = 1) or the key () *)
Theorem C15_from_hising_energy :
  forall h J off (s : sample), (forall v, s v * s v = 1) ->
    henergy (from_hising_py h J off) s = lin_energy h s + henergy J s + offset_value off.
Proof. exact from_hising_py_energy. Qed.
Print Assumptions C15_from_hising_energy.

(* every constructor: the value of the polynomial built is the value of what was given *)
Theorem C15_ctor_energy_binary :
  forall k (s : sample), ctor_vt k = BINARY -> (forall v, s v * s v = s v) ->
    henergy (ctor_model k) s = henergy (ctor_spec k) s.
Proof. exact ctor_model_energy_binary. Qed.
Print Assumptions C15_ctor_energy_binary.

Theorem C15_ctor_energy_spin :
  forall k (s : sample), ctor_vt k = SPIN -> (forall v, s v * s v = 1) ->
    henergy (ctor_model k) s = henergy (ctor_spec k) s.
Proof. exact ctor_model_energy_spin. Qed.
Print Assumptions C15_ctor_energy_spin.

(* to_hubo / to_hising lose nothing: (H, offset) resp. (h, J, offset) have the polynomial's value at EVERY assignment;
   to_hubo never emits a constant term (so from_hubo(to_hubo()) exercises no constant inside H) *)
Theorem C15_to_hubo_energy :
  forall p (s : sample), hdict_wf p -> henergy (fst (to_hubo_py p)) s + snd (to_hubo_py p) = henergy p s.
Proof. exact to_hubo_py_energy. Qed.
Print Assumptions C15_to_hubo_energy.

Theorem C15_to_hubo_no_constant :
  forall p t, In t (fst (to_hubo_py p)) -> fst t <> [].
Proof. exact to_hubo_py_no_constant. Qed.
Print Assumptions C15_to_hubo_no_constant.

Theorem C15_to_hising_energy :
  forall p (s : sample), hising_value (to_hising_py p) s = henergy p s.
Proof. exact to_hising_py_energy. Qed.
Print Assumptions C15_to_hising_energy.

Theorem C15_hubo_round_trip :
  forall H off (s : sample), (forall v, s v * s v = s v) ->
    henergy (fst (to_hubo_py (from_hubo_py H off))) s + snd (to_hubo_py (from_hubo_py H off))
    = henergy H s + offset_value off.
Proof. exact to_hubo_from_hubo_energy. Qed.
Print Assumptions C15_hubo_round_trip.

Theorem C15_hising_round_trip :
  forall h J off (s : sample), (forall v, s v * s v = 1) ->
    hising_value (to_hising_py (from_hising_py h J off)) s = lin_energy h s + henergy J s + offset_value off.
Proof. exact to_hising_from_hising_energy. Qed.
Print Assumptions C15_hising_round_trip.

(* the constructor models use what translators/poly_ctors.py TRANSLATES from polynomial.py on every run: the value
   from_hubo stores under () is the source's expression (gen_from_hubo_const), the list from_hising builds consists of
   the source's parts, the parity branch of __init__ is taken for the source's vartype *)
Theorem C15_from_hubo_is_source :
  forall H off,
    from_hubo_py H off =
    let poly := poly_init gen_from_hubo_vartype H in
    match off with
    | None => poly
    | Some o => hdict_set poly [] (gen_from_hubo_const (get_default poly []) o)
    end.
Proof. exact from_hubo_py_uses_source. Qed.
Print Assumptions C15_from_hubo_is_source.

Theorem C15_from_hising_is_source :
  forall h J off k,
    hcoeff (from_hising_py h J off) k
    = hcoeff (poly_init gen_from_hising_vartype (flat_map (hising_part_terms h J off) gen_from_hising_parts)) k.
Proof. exact from_hising_py_uses_source. Qed.
Print Assumptions C15_from_hising_is_source.

Theorem C15_ctor_key_is_source :
  forall vt term,
    ctor_key vt term =
    let fs := dedup term in
    if (length fs <? length term)%nat && vartype_eqb vt gen_init_parity_vartype
    then filter (fun v => Nat.odd (count_occ_nat v term)) fs else fs.
Proof. exact ctor_key_uses_source. Qed.
Print Assumptions C15_ctor_key_is_source.

Theorem C15_exporters_are_source :
  forall p, to_hubo_py p = (filter nonempty_key p, get_default p [] gen_to_hubo_default)
            /\ to_hising_py p = fold_left to_hising_step p ([], [], gen_to_hising_offset_init).
Proof. exact exporters_use_source. Qed.
Print Assumptions C15_exporters_are_source.

(* a HUBO with its own constant 5/4, a repeated variable, the same monomial under two keys, and an offset 3 *)
Example C15_ex_from_hubo :
  let H : hpoly := [([0;1;2]%nat, qc 3 2); ([1;0]%nat, 1); ([0;1;1]%nat, half); ([], qc 5 4)] in
  from_hubo_py H (Some (qc 3 1)) = [([0;1;2]%nat, qc 3 2); ([0;1]%nat, qc 3 2); ([], qc 17 4)]
  /\ to_hubo_py (from_hubo_py H (Some (qc 3 1))) = ([([0;1;2]%nat, qc 3 2); ([0;1]%nat, qc 3 2)], qc 17 4).
Proof. vm_compute. split; reflexivity. Qed.

(* the hypotheses are satisfiable on a non-trivial instance: x0 x1 x2 x3 - 2 x0 x1 x2 + x3 *)
Example C15_ex_reduce :
  let poly : hpoly := [([0;1;2;3]%nat, 1); ([0;1;2]%nat, - two); ([3%nat], 1)] in
  let cons : list cons3 := [(0, 1, 4)%nat; (4, 2, 5)%nat] in
  terms_nodup poly = true /\ valid_cons (hvars poly) cons = true /\
  map fst (reduce_with cons poly) = [[5;3]; [4;2]; [3]]%nat /\
  all_degree_le2 (reduce_with cons poly) = true.
Proof. vm_compute. repeat split; reflexivity. Qed.
