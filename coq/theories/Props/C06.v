(* C06 - Symbolic arithmetic on models is pointwise arithmetic on energies.
   Only statements; every proof is `exact <lemma>`. *)
From Coq Require Import List ZArith QArith Qcanon Bool Arith.
From Dimod Require Import Base.Util Model.Poly Model.Sym Model.SymStore Proofs.PolyFacts Proofs.SymFacts Proofs.SymStoreFacts Model.OpsLang Gen.Gen_Ops Gen.Gen_AddVar Model.Ops Proofs.OpsFacts Proofs.AddVarFacts Proofs.OpsUnaryFacts Proofs.OpsDivFacts Proofs.OpsMulFacts Proofs.OpsPromoFacts Proofs.OpsFrameFacts Proofs.OpsFromBqmFacts.
Import ListNotations.
Open Scope Qc_scope.

(* ---- the polynomial level (re-exported from PolyFacts) ---- *)
Theorem C06_energy_padd : forall a b s, energy (padd a b) s = energy a s + energy b s.
Proof. exact energy_padd. Qed.
Print Assumptions C06_energy_padd.

Theorem C06_energy_psub : forall a b s, energy (psub a b) s = energy a s - energy b s.
Proof. exact energy_psub. Qed.
Print Assumptions C06_energy_psub.

Theorem C06_energy_pneg : forall p s, energy (pneg p) s = - energy p s.
Proof. exact energy_pneg. Qed.
Print Assumptions C06_energy_pneg.

Theorem C06_energy_scale : forall k p s, energy (scale k p) s = k * energy p s.
Proof. exact energy_scale. Qed.
Print Assumptions C06_energy_scale.

(* product of two linear models, with x*x = x (binary), s*s = 1 (spin) and a true
   square otherwise, on every sample that respects the variables' domains *)
Theorem C06_pmul_linear_energy :
  forall vt a b s, p_quad a = [] -> p_quad b = [] -> respects vt s ->
    energy (pmul_linear vt a b) s = energy a s * energy b s.
Proof. exact pmul_linear_energy. Qed.
Print Assumptions C06_pmul_linear_energy.

Theorem C06_energy_add_quadratic :
  forall vt u v b p s, respects vt s -> energy (add_quadratic vt u v b p) s = energy p s + b * s u * s v.
Proof. exact energy_add_quadratic. Qed.
Print Assumptions C06_energy_add_quadratic.

(* ---- the operator level: all expression trees ---- *)
(* whenever the overloads produce a result (number, BQM, QM or view) its energy at every
   sample that respects the domains of the result's variables is the same arithmetic
   applied to the operands' energies: + - * / unary -/+ **2 quicksum, reflected and
   in-place forms, promotion from BQM to QM, views as operands *)
Theorem C06_eval_energy :
  forall e v, eval e = Ok v ->
  forall s, respects (tvt (val_tab v)) s -> val_energy v s = denote e s.
Proof. exact eval_energy. Qed.
Print Assumptions C06_eval_energy.

(* Pow2 of a linear model *)
Theorem C06_pow2_linear_energy :
  forall m m' s, m_pow m 2 = Ok m' -> respects (tvt (m_tab m')) s ->
    energy (m_poly m') s = energy (m_poly m) s * energy (m_poly m) s.
Proof. exact pow2_linear_energy. Qed.
Print Assumptions C06_pow2_linear_energy.

Theorem C06_pow_only_two_and_linear :
  forall m n m', m_pow m n = Ok m' -> n = 2%nat /\ is_linear m = true.
Proof. exact pow_only_two. Qed.
Print Assumptions C06_pow_only_two_and_linear.

(* ---- promotion never changes a variable's type or bounds ---- *)
Theorem C06_promotion_preserves_varinfo_to_qm :
  forall m, m_tab (to_qm m) = m_tab m /\ m_poly (to_qm m) = m_poly m /\ m_cls (to_qm m) = CQm.
Proof. exact to_qm_same. Qed.
Print Assumptions C06_promotion_preserves_varinfo_to_qm.

(* + and - : every variable of either operand is in the result with exactly its vartype and bounds *)
Theorem C06_promotion_preserves_varinfo :
  forall f m1 m2 m, m_addsub f m1 m2 = Ok m ->
    (forall l i, lookup (m_tab m1) l = Some i -> lookup (m_tab m) l = Some i) /\
    (forall l i, lookup (m_tab m2) l = Some i -> lookup (m_tab m) l = Some i).
Proof. exact addsub_preserves_varinfo. Qed.
Print Assumptions C06_promotion_preserves_varinfo.

(* * : same vartype, and same bounds for INTEGER / REAL variables (the bounds of BINARY /
   SPIN variables are fixed by the vartype and are not compared by the code) *)
Theorem C06_promotion_preserves_varinfo_mul :
  forall m1 m2 m, m_mul m1 m2 = Ok m ->
    keeps_info (m_tab m1) (m_tab m) /\ keeps_info (m_tab m2) (m_tab m).
Proof. exact mul_preserves_varinfo. Qed.
Print Assumptions C06_promotion_preserves_varinfo_mul.

(* a merged table contains nothing but entries of its two operands *)
Theorem C06_no_new_variables :
  forall ek a b t l i, merge ek a b = Ok t -> lookup t l = Some i ->
    lookup a l = Some i \/ lookup b l = Some i.
Proof. exact merge_only. Qed.
Print Assumptions C06_no_new_variables.

(* ---- conflicting types or bounds for one label are rejected ---- *)
Theorem C06_conflicting_varinfo_rejected :
  forall f m1 m2 l i1 i2,
    lookup (m_tab m1) l = Some i1 -> lookup (m_tab m2) l = Some i2 -> i1 <> i2 ->
    m_addsub f m1 m2 = Err EValueError.
Proof. exact addsub_conflict_rejected. Qed.
Print Assumptions C06_conflicting_varinfo_rejected.

Theorem C06_conflicting_varinfo_rejected_mul :
  forall m1 m2 l i1 i2,
    lookup (m_tab m1) l = Some i1 -> lookup (m_tab m2) l = Some i2 -> clash i1 i2 ->
    exists e, m_mul m1 m2 = Err e.
Proof. exact mul_conflict_rejected. Qed.
Print Assumptions C06_conflicting_varinfo_rejected_mul.

(* ---- degree stays at most two; division only by numbers ---- *)
Theorem C06_product_of_nonlinear_rejected :
  forall m1 m2, is_linear m1 = false \/ is_linear m2 = false -> m_mul m1 m2 = Err ETypeError.
Proof. exact mul_nonlinear_rejected. Qed.
Print Assumptions C06_product_of_nonlinear_rejected.

Theorem C06_division_by_model_rejected :
  forall a m, v_div a (VMdl m) = Err ETypeError /\ v_div a (VView m) = Err ETypeError.
Proof. exact div_by_model_rejected. Qed.
Print Assumptions C06_division_by_model_rejected.

(* ---- quicksum is the left fold of + and touches none of its arguments ---- *)
Theorem C06_quicksum_left_fold :
  forall x xs vs, mapM eval (x :: xs) = Ok vs -> eval (Quicksum (x :: xs)) = eval (fold_left Add xs x).
Proof. exact quicksum_left_fold. Qed.
Print Assumptions C06_quicksum_left_fold.

Theorem C06_quicksum_frame :
  forall args st st', exec_quicksum args st = Ok st' ->
  exists v, st' = st ++ [v] /\ forall k, (k < length st)%nat -> nth_error st' k = nth_error st k.
Proof. exact quicksum_frame. Qed.
Print Assumptions C06_quicksum_frame.

(* ---- in-place forms: the pure operator on the receiver, a frame for every other object ---- *)
Theorem C06_inplace_is_pure :
  forall o i j st st', exec_inplace o i j st = Ok st' ->
  exists a b v, nth_error st i = Some a /\ nth_error st j = Some b /\ pure_op o a b = Ok v /\
    nth_error st' i = Some v /\ length st' = length st /\
    forall k, k <> i -> nth_error st' k = nth_error st k.
Proof. exact inplace_is_pure. Qed.
Print Assumptions C06_inplace_is_pure.

Theorem C06_inplace_other_operand_unchanged :
  forall o i j st st', exec_inplace o i j st = Ok st' -> j <> i -> nth_error st' j = nth_error st j.
Proof. exact inplace_other_operand_unchanged. Qed.
Print Assumptions C06_inplace_other_operand_unchanged.

Theorem C06_inplace_fails_iff_pure :
  forall o i j st a b, nth_error st i = Some a -> nth_error st j = Some b ->
  forall e, exec_inplace o i j st = Err e <-> pure_op o a b = Err e.
Proof. exact inplace_fails_iff_pure. Qed.
Print Assumptions C06_inplace_fails_iff_pure.

(* ---- comparison objects (sym.Le / Ge / Eq) ---- *)
(* `model <sense> number` and the reflected `number <sense> model` accept exactly the samples on
   which the written relation holds between the two sides' energies *)
Theorem C06_eval_cmp_sat :
  forall a s b c, eval_cmp a s b = Ok c ->
  forall smp, respects (tvt (m_tab (cm_lhs c))) smp ->
    (sat (cm_sense c) (energy (m_poly (cm_lhs c)) smp) (cm_rhs c) <-> sat s (denote a smp) (denote b smp)).
Proof. exact eval_cmp_sat. Qed.
Print Assumptions C06_eval_cmp_sat.

(* a model on both sides is rejected (TypeError); the documented rewrite a - b <sense> 0 accepts
   the same samples *)
Theorem C06_cmp_two_models_rejected : forall m1 m2 s, v_cmp (VMdl m1) s (VMdl m2) = Err ETypeError.
Proof. exact cmp_two_models_rejected. Qed.
Print Assumptions C06_cmp_two_models_rejected.

Theorem C06_cmp_move_terms :
  forall a b d s, v_sub a b = Ok d -> forall smp, respects (tvt (val_tab d)) smp ->
  (sat s (val_energy d smp) 0 <-> sat s (val_energy a smp) (val_energy b smp)).
Proof. exact cmp_move_terms. Qed.
Print Assumptions C06_cmp_move_terms.

(* ---- the operator methods themselves, as translated from the source (Gen/Gen_Ops.v) ---- *)
(* the rejection rule of update() read from cyqm_template.pyx.pxi is the model's rule *)
Theorem C06_gen_update_rule : forall a b, gen_upd_err a b = upd_err a b.
Proof. exact gen_upd_err_eq. Qed.
Print Assumptions C06_gen_update_rule.

(* the equal-label table read from QM.__mul__ turns the double loop into pmul_linear; the table read
   from BQM.__mul__ does so for a BQM whose linear terms are over its own (BINARY / SPIN) variables *)
Theorem C06_gen_qm_product_table : forall vt a b, pmul_linear_tab qm_table vt a b = pmul_linear vt a b.
Proof. exact pmul_linear_qm_table. Qed.
Print Assumptions C06_gen_qm_product_table.

Theorem C06_gen_bqm_product_table :
  forall v1 t ta a b, bqm_terms_ok v1 ta a -> sub_tab ta t ->
    pmul_linear_tab bqm_table (fun _ => v1) a b = pmul_linear (tvt t) a b.
Proof. exact pmul_linear_bqm_table. Qed.
Print Assumptions C06_gen_bqm_product_table.

(* running the translated __add__/__radd__/__iadd__ (resp. __sub__/__rsub__/__isub__) of BQM, QM and
   views through Python's operator protocol gives, for every pair of operand kinds (number, BQM of
   either vartype with or without variables, QM, view), the result the model specifies: same error,
   or same class, same variable table and the same polynomial function *)
Theorem C06_gen_add_correct : forall a b, wfv a -> wfv b -> requiv (g_op OAdd a b) (v_add a b).
Proof. exact g_add_correct. Qed.
Print Assumptions C06_gen_add_correct.

Theorem C06_gen_iadd_correct : forall a b, wfv a -> wfv b -> requiv (g_iop OAdd a b) (v_add a b).
Proof. exact g_iadd_correct. Qed.
Print Assumptions C06_gen_iadd_correct.

Theorem C06_gen_sub_correct : forall a b, wfv a -> wfv b -> requiv (g_op OSub a b) (v_sub a b).
Proof. exact g_sub_correct. Qed.
Print Assumptions C06_gen_sub_correct.

Theorem C06_gen_isub_correct : forall a b, wfv a -> wfv b -> requiv (g_iop OSub a b) (v_sub a b).
Proof. exact g_isub_correct. Qed.
Print Assumptions C06_gen_isub_correct.

(* hence the energy of whatever they return is the sum / difference of the operands' energies, with
   the variable information of both operands kept *)
Theorem C06_gen_add_spec :
  forall a b v, wfv a -> wfv b -> (g_op OAdd a b = Ok v \/ g_iop OAdd a b = Ok v) -> op_spec a b v Qcplus.
Proof. exact g_add_spec. Qed.
Print Assumptions C06_gen_add_spec.

Theorem C06_gen_sub_spec :
  forall a b v, wfv a -> wfv b -> (g_op OSub a b = Ok v \/ g_iop OSub a b = Ok v) -> op_spec a b v Qcminus.
Proof. exact g_sub_spec. Qed.
Print Assumptions C06_gen_sub_spec.

(* the translated __neg__ / __pos__ (unary - and +) of every operand kind give what the model specifies *)
Theorem C06_gen_neg_correct : forall a, wfv a -> requiv (g_neg a) (v_neg a).
Proof. exact g_neg_correct. Qed.
Print Assumptions C06_gen_neg_correct.

Theorem C06_gen_pos_correct : forall a, wfv a -> requiv (g_pos a) (v_pos a).
Proof. exact g_pos_correct. Qed.
Print Assumptions C06_gen_pos_correct.

(* the translated __truediv__ / __itruediv__ (`self * (1 / other)`, `self *= (1 / other)`) are the specified
   division for every pair of operand kinds: by a non-zero number it scales by the inverse, by zero it is a
   ZeroDivisionError, by a model or a view (or of a view) a TypeError *)
Theorem C06_gen_div_correct : forall a b, wfv a -> wfv b -> requiv (g_op ODiv a b) (v_div a b).
Proof. exact g_div_correct. Qed.
Print Assumptions C06_gen_div_correct.

Theorem C06_gen_idiv_correct : forall a b, wfv a -> wfv b -> requiv (g_iop ODiv a b) (v_div a b).
Proof. exact g_idiv_correct. Qed.
Print Assumptions C06_gen_idiv_correct.

(* the translated * for every pair of operand kinds that does not go through BinaryQuadraticModel.__mul__ /
   __rmul__ / from_bqm (numbers, views, QMs; two models must both be QMs).  Superseded by C06_gen_mul_correct below,
   which also covers products of models of different classes or vartypes (promotion through from_bqm / __rmul__) *)
Theorem C06_gen_mul_correct_partial : forall a b, no_bqm_product a b -> requiv (g_op OMul a b) (v_mul a b).
Proof. exact g_mul_correct_partial. Qed.
Print Assumptions C06_gen_mul_correct_partial.

Theorem C06_gen_imul_number_correct :
  forall c t p k, requiv (g_iop OMul (VMdl (mkM c t p)) (VNum k)) (v_mul (VMdl (mkM c t p)) (VNum k)).
Proof. exact g_imul_number_correct. Qed.
Print Assumptions C06_gen_imul_number_correct.

(* two BQMs of one vartype (the double loop of BinaryQuadraticModel.__mul__ with its equal-label table), for a
   left operand whose linear terms range over its own variables - true of every real BQM *)
Theorem C06_gen_mul_bqm_bqm_correct :
  forall v tx px ty py, bqm_terms_ok v tx px ->
    g_op OMul (VMdl (mkM (CBqm v) tx px)) (VMdl (mkM (CBqm v) ty py)) =
    v_mul (VMdl (mkM (CBqm v) tx px)) (VMdl (mkM (CBqm v) ty py)).
Proof. exact g_mul_bqm_bqm_correct. Qed.
Print Assumptions C06_gen_mul_bqm_bqm_correct.

(* qm *= qm: __imul__ declines, Python falls back to __mul__ *)
Theorem C06_gen_imul_qm_qm_correct :
  forall tx px ty py,
    g_iop OMul (VMdl (mkM CQm tx px)) (VMdl (mkM CQm ty py)) = v_mul (VMdl (mkM CQm tx px)) (VMdl (mkM CQm ty py)).
Proof. exact g_imul_qm_qm_correct. Qed.
Print Assumptions C06_gen_imul_qm_qm_correct.

(* the translated ** of a QM: only the power 2, only of a linear model, then the product with itself
   - the power of a BQM is C06_gen_pow_bqm_correct below *)
Theorem C06_gen_pow_qm_correct : forall t p n, g_pow (VMdl (mkM CQm t p)) n = v_pow (VMdl (mkM CQm t p)) n.
Proof. exact g_pow_qm_correct. Qed.
Print Assumptions C06_gen_pow_qm_correct.

(* ---- the remaining dispatch paths of * and **: promotion through QuadraticModel.from_bqm / __rmul__ ---- *)
(* ** of a BQM: BinaryQuadraticModel.__pow__ -> self * self -> the double loop of BinaryQuadraticModel.__mul__ *)
Theorem C06_gen_pow_bqm_correct :
  forall v t p n, bqm_terms_ok v t p -> g_pow (VMdl (mkM (CBqm v) t p)) n = v_pow (VMdl (mkM (CBqm v) t p)) n.
Proof. exact g_pow_bqm_correct. Qed.
Print Assumptions C06_gen_pow_bqm_correct.

(* BQM x QM: BinaryQuadraticModel.__mul__ -> qm = from_bqm(self); qm *= other -> QuadraticModel.__imul__ declines ->
   QuadraticModel.__mul__ *)
Theorem C06_gen_mul_bqm_qm_correct :
  forall v tx px ty py,
    g_op OMul (VMdl (mkM (CBqm v) tx px)) (VMdl (mkM CQm ty py)) = v_mul (VMdl (mkM (CBqm v) tx px)) (VMdl (mkM CQm ty py)).
Proof. exact g_mul_bqm_qm_correct. Qed.
Print Assumptions C06_gen_mul_bqm_qm_correct.

(* QM x BQM: QuadraticModel.__mul__ declines -> BinaryQuadraticModel.__rmul__ -> from_bqm(self) *= other, i.e. the
   product runs with the BQM as left operand (its variables are registered first) *)
Theorem C06_gen_mul_qm_bqm_correct :
  forall v tx px ty py,
    g_op OMul (VMdl (mkM CQm tx px)) (VMdl (mkM (CBqm v) ty py)) = v_mul (VMdl (mkM CQm tx px)) (VMdl (mkM (CBqm v) ty py)).
Proof. exact g_mul_qm_bqm_correct. Qed.
Print Assumptions C06_gen_mul_qm_bqm_correct.

(* BQM x BQM of any two vartypes: a right operand with variables of another vartype promotes
   (from_bqm(self) * other -> QuadraticModel.__mul__ declines -> other.__rmul__ -> from_bqm(other) *= from_bqm(self));
   otherwise (same vartype, or a right operand without variables) the double loop of BinaryQuadraticModel.__mul__ *)
Theorem C06_gen_mul_bqm_bqm_any_correct :
  forall v v' tx px ty py, bqm_terms_ok v tx px ->
    g_op OMul (VMdl (mkM (CBqm v) tx px)) (VMdl (mkM (CBqm v') ty py)) =
    v_mul (VMdl (mkM (CBqm v) tx px)) (VMdl (mkM (CBqm v') ty py)).
Proof. exact g_mul_bqm_bqm_any_correct. Qed.
Print Assumptions C06_gen_mul_bqm_bqm_any_correct.

(* so the translated * and *= are the specified product for EVERY pair of operand kinds (number, BQM of either
   vartype, QM, view) - for a left BQM whose linear terms range over its own variables (every real BQM) *)
Theorem C06_gen_mul_correct : forall a b, bqm_wf a -> requiv (g_op OMul a b) (v_mul a b).
Proof. exact g_mul_correct. Qed.
Print Assumptions C06_gen_mul_correct.

Theorem C06_gen_imul_correct : forall a b, bqm_wf a -> requiv (g_iop OMul a b) (v_mul a b).
Proof. exact g_imul_correct. Qed.
Print Assumptions C06_gen_imul_correct.

(* whatever they return has the product of the operands' energies on every sample valid for the domains of the
   result's variables, and every operand variable is in the result with its vartype *)
Theorem C06_gen_mul_spec :
  forall a b v, bqm_wf a -> (g_op OMul a b = Ok v \/ g_iop OMul a b = Ok v) -> op_spec a b v Qcmult.
Proof. exact g_mul_spec. Qed.
Print Assumptions C06_gen_mul_spec.

(* the translated ** for every operand kind, and its energy *)
Theorem C06_gen_pow_correct : forall a n, bqm_wf a -> g_pow a n = v_pow a n.
Proof. exact g_pow_correct. Qed.
Print Assumptions C06_gen_pow_correct.

Theorem C06_gen_pow_spec :
  forall a n v, bqm_wf a -> g_pow a n = Ok v ->
    sub_vt (val_tab a) (val_tab v) /\
    forall s, respects (tvt (val_tab v)) s -> val_energy v s = qpow (val_energy a s) n.
Proof. exact g_pow_spec. Qed.
Print Assumptions C06_gen_pow_spec.

Theorem C06_gen_pow_model_square :
  forall m n v, bqm_wf (VMdl m) -> g_pow (VMdl m) n = Ok v ->
    n = 2%nat /\ is_linear m = true /\
    forall s, respects (tvt (val_tab v)) s -> val_energy v s = energy (m_poly m) s * energy (m_poly m) s.
Proof. exact g_pow_model_square. Qed.
Print Assumptions C06_gen_pow_model_square.

(* ---- the promotion primitive: QuadraticModel.from_bqm -> cyqm from_cybqm, as read from the source ---- *)
(* for a BQM whose table is that of a BQM (every variable of the model's vartype, with that vartype's domain) the
   translated constructor builds exactly what the interpreter uses for from_bqm: same variables, vartypes, bounds,
   offset, linear and quadratic biases, class QM *)
Theorem C06_gen_from_bqm_correct :
  forall m v, m_cls m = CBqm v -> bqm_tab_ok v (m_tab m) -> from_bqm_gen m = to_qm m.
Proof. exact from_bqm_gen_correct. Qed.
Print Assumptions C06_gen_from_bqm_correct.

Theorem C06_gen_from_bqm_energy :
  forall m v s, m_cls m = CBqm v -> bqm_tab_ok v (m_tab m) ->
    energy (m_poly (from_bqm_gen m)) s = energy (m_poly m) s /\ m_tab (from_bqm_gen m) = m_tab m /\
    m_cls (from_bqm_gen m) = CQm.
Proof. exact from_bqm_gen_energy. Qed.
Print Assumptions C06_gen_from_bqm_energy.

Theorem C06_bqm_tab_ok_satisfiable :
  forall l, bqm_tab_ok BINARY (m_tab (var_mdl KBin l 0 1)).
Proof. exact var_mdl_tab_ok_bin. Qed.
Print Assumptions C06_bqm_tab_ok_satisfiable.

(* ---- operands unchanged ---- *)
(* no translated pure operator method (every class: + - * / with their reflected forms, unary - and +, power) contains a statement
   whose target is `self` or `other` (assignment, augmented assignment, .offset +=, .update(), .scale()), nor binds
   a local name to a bare operand *)
Theorem C06_gen_pure_methods_never_target_operands :
  forall k m, pure_method m = true -> body_clean k m = true.
Proof. exact pure_methods_clean. Qed.
Print Assumptions C06_gen_pure_methods_never_target_operands.

(* no method at all - the in-place ones included - has its right operand as a target *)
Theorem C06_gen_methods_never_target_other : forall k m, body_spares_other k m = true.
Proof. exact methods_spare_other. Qed.
Print Assumptions C06_gen_methods_never_target_other.

(* running a statement free of such targets leaves both operand slots as they were, whatever the nested
   operator applications do *)
Theorem C06_exec_stmt_frame :
  forall d s en en', touches s = false -> exec_stmt d s en = Cont en' ->
    en_self en' = en_self en /\ en_other en' = en_other en.
Proof. exact exec_stmt_frame. Qed.
Print Assumptions C06_exec_stmt_frame.

(* so at whatever point the body of a pure method has got to, `self` and `other` are what it was called with *)
Theorem C06_gen_pure_method_operands_unchanged :
  forall d k m body pre post self other n en',
    pure_method m = true -> gen_method k m = Some body -> body = pre ++ post ->
    exec_list d pre (mkEnv self other n []) = Cont en' -> en_self en' = self /\ en_other en' = other.
Proof. exact pure_method_operands_unchanged. Qed.
Print Assumptions C06_gen_pure_method_operands_unchanged.

(* ---- add_variable on an existing label (the merge step of QM.__mul__), as read from
   cyqm_template.pyx.pxi by translators/qm_addvar.py (Gen/Gen_AddVar.v) ---- *)
(* a re-declaration is accepted exactly when it is compatible: same vartype and, for INTEGER / REAL,
   every bound that is passed (zero, negative, equal to the other bound, ...) is the existing one *)
Theorem C06_gen_addvar_accepts_iff_compatible :
  forall have vt lb ub, gen_addvar_existing have vt lb ub = None <-> redecl_ok have vt lb ub.
Proof. exact gen_addvar_existing_accepts. Qed.
Print Assumptions C06_gen_addvar_accepts_iff_compatible.

Theorem C06_gen_addvar_rejection_kind :
  forall have vt lb ub e, gen_addvar_existing have vt lb ub = Some e ->
  (vi_vt have <> vt /\ e = ETypeError) \/ (vi_vt have = vt /\ bounded_vt vt /\ e = EValueError).
Proof. exact gen_addvar_existing_kind. Qed.
Print Assumptions C06_gen_addvar_rejection_kind.

(* the boolean the check evaluates on the observations is that specification *)
Theorem C06_redecl_oracle_sound :
  forall have vt lb ub, redecl_ok_b have vt lb ub = true <-> redecl_ok have vt lb ub.
Proof. exact redecl_ok_b_spec. Qed.
Print Assumptions C06_redecl_oracle_sound.

(* called with both bounds explicit (QM.__mul__) it is the model's rule, so conflicting vartypes or
   bounds of a shared label are rejected whichever operand carries which *)
Theorem C06_gen_mul_rule : forall have new, gen_mul_err have new = mul_err have new.
Proof. exact gen_mul_err_eq. Qed.
Print Assumptions C06_gen_mul_rule.

Theorem C06_gen_mul_conflict_rejected : forall have new, clash have new -> exists e, gen_mul_err have new = Some e.
Proof. exact gen_mul_err_clash. Qed.
Print Assumptions C06_gen_mul_conflict_rejected.

(* the translated product block of QM.__mul__ (variable merge through add_variable, REAL interactions
   refused, the equal-label table) is the specified product of two linear QMs *)
Theorem C06_gen_qm_product_correct :
  forall x y, m_cls x = CQm -> m_cls y = CQm -> is_linear x = true -> is_linear y = true ->
    product_qm qm_table x y = m_mul x y.
Proof. exact product_qm_correct. Qed.
Print Assumptions C06_gen_qm_product_correct.

(* ---- non-vacuity: the hypotheses are satisfiable on non-trivial data ---- *)
Definition xb := Var KBin 0%nat 0 1.
Definition ss := Var KSpin 1%nat (- (1)) 1.
Definition ii := Var KInt 2%nat (qc (-2) 1) (qc 5 1).
Definition jj := Var KInt 3%nat 0 (qc 7 1).

Definition coeffs (e : sx) : option (cls * Qc * list Qc * list Qc) :=
  match eval e with
  | Ok (VMdl m) => Some (m_cls m, p_off (m_poly m),
                         map (lin_coeff (p_lin (m_poly m))) [0;1;2;3]%nat,
                         map (fun uv => quad_coeff (p_quad (m_poly m)) (fst uv) (snd uv))
                             [(0,0);(1,1);(2,2);(0,1);(0,2);(2,3)]%nat)
  | _ => None
  end.

Definition coeffs_are (e : sx) (c : cls) (off : Qc) (lins quads : list Qc) : bool :=
  match coeffs e with
  | Some (c', o', l', q') => cls_eqb c' c && Qc_eqb o' off && list_eqb Qc_eqb l' lins && list_eqb Qc_eqb q' quads
  | None => false
  end.

(* x*x = x stays a BQM *)
Example C06_binary_square : coeffs_are (Mul xb xb) (CBqm BINARY) (0) [1;0;0;0] [0;0;0;0;0;0] = true.
Proof. vm_compute. reflexivity. Qed.
(* s*s = 1 *)
Example C06_spin_square : coeffs_are (Pow ss 2) (CBqm SPIN) (1) [0;0;0;0] [0;0;0;0;0;0] = true.
Proof. vm_compute. reflexivity. Qed.
(* i*i is a true square, (i*j)*2 *)
Example C06_integer_square : coeffs_are (Mul ii ii) (CQm) (0) [0;0;0;0] [0;0;1;0;0;0] = true.
Proof. vm_compute. reflexivity. Qed.
Example C06_int_product_times_two : coeffs_are (Mul (Mul ii jj) (Num two)) (CQm) (0) [0;0;0;0] [0;0;0;0;0;two] = true.
Proof. vm_compute. reflexivity. Qed.
(* 3 - x, x / 2 *)
Example C06_three_minus_x : coeffs_are (Sub (Num (qc 3 1)) xb) (CBqm BINARY) (qc 3 1) [- (1);0;0;0] [0;0;0;0;0;0] = true.
Proof. vm_compute. reflexivity. Qed.
Example C06_x_half : coeffs_are (Div xb (Num two)) (CBqm BINARY) (0) [half;0;0;0] [0;0;0;0;0;0] = true.
Proof. vm_compute. reflexivity. Qed.
(* (x + s + 2 i) ** 2 : mixed kinds promote to a QM:  x + 1 + 4 i^2 + 2 x s + 4 x i + 4 s i *)
Example C06_mixed_square :
  coeffs_are (Pow (Add (Add xb ss) (Mul (Num two) ii)) 2) (CQm) (1) [1;0;0;0] [0;0;qc 4 1;two;qc 4 1;0] = true.
Proof. vm_compute. reflexivity. Qed.
(* a label used as BINARY and as SPIN is rejected: ValueError by +, TypeError by * *)
Example C06_clash_add : eval (Add xb (Var KSpin 0%nat (- (1)) 1)) = Err EValueError.
Proof. vm_compute. reflexivity. Qed.
Example C06_clash_mul : eval (Mul xb (Var KSpin 0%nat (- (1)) 1)) = Err ETypeError.
Proof. vm_compute. reflexivity. Qed.
Example C06_clash_bounds : eval (Add ii (Var KInt 2%nat (qc (-2) 1) (qc 7 1))) = Err EValueError.
Proof. vm_compute. reflexivity. Qed.
(* degree three is a TypeError *)
Example C06_degree_three : eval (Mul (Mul xb ss) ii) = Err ETypeError.
Proof. vm_compute. reflexivity. Qed.

(* an upper bound of exactly 0 (or a degenerate interval) on either operand of a product is compared *)
Definition iw := Var KInt 2%nat (qc (-5) 1) (qc 5 1).
Definition inp := Var KInt 2%nat (qc (-5) 1) 0.
Example C06_clash_zero_upper_mul : eval (Mul iw inp) = Err EValueError /\ eval (Mul inp iw) = Err EValueError.
Proof. vm_compute. split; reflexivity. Qed.
Example C06_clash_zero_upper_mul_gen : eval_gen (Mul iw inp) = Err EValueError /\ eval_gen (Mul inp iw) = Err EValueError.
Proof. vm_compute. split; reflexivity. Qed.
Example C06_zero_upper_square : coeffs_are (Mul inp inp) (CQm) (0) [0;0;0;0] [0;0;1;0;0;0] = true.
Proof. vm_compute. reflexivity. Qed.
Example C06_addvar_zero_bound :
  gen_addvar_existing (mkVI INTEGER (qc (-4) 1) (qc 4 1)) INTEGER (Some (qc (-4) 1)) (Some 0) = Some EValueError
  /\ gen_addvar_existing (mkVI INTEGER (qc (-4) 1) (qc 4 1)) INTEGER None (Some (qc 4 1)) = None
  /\ gen_addvar_existing (mkVI INTEGER 0 (qc 4 1)) INTEGER (Some (qc (-1) 1)) None = Some EValueError
  /\ gen_addvar_existing (mkVI INTEGER 0 (qc 4 1)) REAL None None = Some ETypeError.
Proof. vm_compute. repeat split; reflexivity. Qed.

(* ---- the promoting paths on concrete operands, through the translated dispatch ---- *)
Theorem C06_bqm_wf_satisfiable : forall k l lb ub, bqm_wf (VMdl (var_mdl k l lb ub)).
Proof. exact var_mdl_bqm_wf. Qed.
Print Assumptions C06_bqm_wf_satisfiable.

Definition coeffs_gen_are (e : sx) (c : cls) (off : Qc) (lins quads : list Qc) : bool :=
  match eval_gen e with
  | Ok (VMdl m) => cls_eqb (m_cls m) c && Qc_eqb (p_off (m_poly m)) off &&
                   list_eqb Qc_eqb (map (lin_coeff (p_lin (m_poly m))) [0;1;2;3]%nat) lins &&
                   list_eqb Qc_eqb (map (fun uv => quad_coeff (p_quad (m_poly m)) (fst uv) (snd uv))
                                        [(0,0);(1,1);(2,2);(0,1);(0,2);(2,3)]%nat) quads
  | _ => false
  end.
Definition yb := Var KBin 1%nat 0 1.
(* (x + y) ** 2 of a BINARY BQM stays a BQM: x + y + 2xy *)
Example C06_gen_bqm_square : coeffs_gen_are (Pow (Add xb yb) 2) (CBqm BINARY) 0 [1;1;0;0] [0;0;0;two;0;0] = true.
Proof. vm_compute. reflexivity. Qed.
(* (s + 1) ** 2 of a SPIN BQM: 2 + 2s *)
Example C06_gen_spin_square : coeffs_gen_are (Pow (Add ss (Num 1)) 2) (CBqm SPIN) two [0;two;0;0] [0;0;0;0;0;0] = true.
Proof. vm_compute. reflexivity. Qed.
(* BINARY BQM x SPIN BQM promotes: (x + 1) * s = xs + s, and the other way round *)
Example C06_gen_mixed_bqm_product :
  coeffs_gen_are (Mul (Add xb (Num 1)) ss) CQm 0 [0;1;0;0] [0;0;0;1;0;0] = true /\
  coeffs_gen_are (Mul ss (Add xb (Num 1))) CQm 0 [0;1;0;0] [0;0;0;1;0;0] = true.
Proof. vm_compute. split; reflexivity. Qed.
(* BQM x QM and QM x BQM, also in place: x * (i + 2) = xi + 2x *)
Example C06_gen_bqm_qm_product :
  coeffs_gen_are (Mul xb (Add ii (Num two))) CQm 0 [two;0;0;0] [0;0;0;0;1;0] = true /\
  coeffs_gen_are (Mul (Add ii (Num two)) xb) CQm 0 [two;0;0;0] [0;0;0;0;1;0] = true.
Proof. vm_compute. split; reflexivity. Qed.
(* a label that is BINARY on one side and SPIN on the other is a TypeError on every promoting path *)
Example C06_gen_clash_promoting :
  eval_gen (Mul xb (Var KSpin 0%nat (- (1)) 1)) = Err ETypeError /\
  eval_gen (Mul xb (Add (Var KInt 0%nat 0 1) ii)) = Err ETypeError /\
  eval_gen (Mul (Add (Var KInt 0%nat 0 1) ii) xb) = Err ETypeError.
Proof. vm_compute. repeat split; reflexivity. Qed.
