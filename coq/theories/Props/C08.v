(* C08 - CQM feasibility and violation reports agree with the constraint definition.
   Only statements; every proof is `exact <lemma>`; examples by computation. *)
From Coq Require Import List ZArith QArith Qcanon Bool Arith.
From Dimod Require Import Base.Util Model.Poly Model.Samples Model.Feas Model.EnergyCy Model.FeasCy
  Proofs.PolyFacts Proofs.SamplesFacts Proofs.EnergyCyFacts Proofs.FeasFacts Proofs.FeasCyFacts.
Import ListNotations.

(* ---- per-sample path (constrained.py) ---- *)

(* iter_constraint_data yields lhs, rhs, sense, activity = lhs - rhs and the violation of the definition;
   a variable-free left-hand side evaluates to its offset because `energy` does *)
Theorem C08_per_sample_path_eq_spec :
  forall (m : cqm) (s : sample),
    iter_constraint_data m s
    = map (fun k => mkDatum (energy (c_lhs k) s) (c_rhs k) (c_sense k) (activity k s) (violation k s)) (m_cons m).
Proof. exact iter_constraint_data_spec. Qed.
Print Assumptions C08_per_sample_path_eq_spec.

(* violations / iter_violations: plain, clip = max(., 0), skip_satisfied = keep violation > 0 *)
Theorem C08_iter_violations_eq_spec :
  forall (m : cqm) (s : sample) (skip clip : bool),
    iter_violations m s skip clip
    = if skip then filter (fun iv => negb (Qc_leb (snd iv) 0%Qc)) (spec_violation_list m s)
      else if clip then map (fun iv => (fst iv, qmax0 (snd iv))) (spec_violation_list m s)
      else spec_violation_list m s.
Proof. exact iter_violations_spec. Qed.
Print Assumptions C08_iter_violations_eq_spec.

(* check_feasible as written: EVERY constraint, soft ones included *)
Theorem C08_check_feasible_is_all_constraints :
  forall (m : cqm) (s : sample) (rtol atol : Qc),
    check_feasible m s rtol atol = forallb (fun k => satisfied atol rtol k s) (m_cons m).
Proof. exact check_feasible_all. Qed.
Print Assumptions C08_check_feasible_is_all_constraints.

Theorem C08_check_feasible_eq_spec_partial :
  forall (m : cqm) (s : sample) (rtol atol : Qc),
    no_soft_violated atol rtol m s -> check_feasible m s rtol atol = feasible atol rtol m s.
Proof. exact check_feasible_eq_spec_if. Qed.
Print Assumptions C08_check_feasible_eq_spec_partial.

(* soft constraint x == 1 (weight 1), sample x = 0: check_feasible is false, the definition says feasible *)
Theorem C08_check_feasible_counts_soft_refuted :
  exists m s rtol atol, check_feasible m s rtol atol <> feasible atol rtol m s.
Proof. exact check_feasible_counts_soft_refuted. Qed.
Print Assumptions C08_check_feasible_counts_soft_refuted.

(* ---- vectorised path (sampleset.py), for every content of the uninitialised np.empty matrix ---- *)

Theorem C08_vector_path_eq_spec :
  forall (atol rtol : Qc) (m : cqm) (samples : list sample) (garb : list bool),
    from_samples_cqm atol rtol m samples garb
    = mkVec (map (spec_energy atol rtol m) samples)
            (map (fun s => map (fun k => satisfied atol rtol k s) (m_cons m)) samples)
            (map (feasible atol rtol m) samples).
Proof. exact from_samples_cqm_spec. Qed.
Print Assumptions C08_vector_path_eq_spec.

Theorem C08_exact_cqm_solver_eq_spec :
  forall (atol rtol : Qc) (m : cqm) (cases : list sample) (garb : list bool),
    exact_cqm_solver atol rtol m cases garb
    = mkVec (map (spec_energy atol rtol m) cases)
            (map (fun s => map (fun k => satisfied atol rtol k s) (m_cons m)) cases)
            (map (feasible atol rtol m) cases).
Proof. exact from_samples_cqm_spec. Qed.
Print Assumptions C08_exact_cqm_solver_eq_spec.

(* ---- the two paths against each other ---- *)

Theorem C08_paths_agree_satisfied :
  forall (atol rtol : Qc) (m : cqm) (samples : list sample) (garb : list bool),
    v_is_satisfied (from_samples_cqm atol rtol m samples garb)
    = map (fun s => map (fun d => Qc_leb (d_violation d) (atol + rtol * qabs (d_rhs d))%Qc)
                        (iter_constraint_data m s)) samples.
Proof. exact paths_agree_satisfied. Qed.
Print Assumptions C08_paths_agree_satisfied.

Theorem C08_paths_agree :
  forall (atol rtol : Qc) (m : cqm) (samples : list sample) (garb : list bool),
    (forall s, In s samples -> no_soft_violated atol rtol m s) ->
    v_is_feasible (from_samples_cqm atol rtol m samples garb)
    = map (fun s => check_feasible m s rtol atol) samples.
Proof. exact paths_agree_feasible. Qed.
Print Assumptions C08_paths_agree.

Theorem C08_paths_agree_unconditioned_refuted :
  exists atol rtol m samples garb,
    v_is_feasible (from_samples_cqm atol rtol m samples garb)
    <> map (fun s => check_feasible m s rtol atol) samples.
Proof. exact paths_agree_unconditioned_refuted. Qed.
Print Assumptions C08_paths_agree_unconditioned_refuted.

(* the np.empty matrix is read before it is completely written (is_satisfied.all() at step i sees the
   columns > i), so the oracle stays in the model; what is proved is that its content is never observed *)
Theorem C08_uninitialised_memory_never_observed :
  forall (atol rtol : Qc) (m : cqm) (samples : list sample) (garb garb' : list bool),
    from_samples_cqm atol rtol m samples garb = from_samples_cqm atol rtol m samples garb'.
Proof. exact from_samples_cqm_garb_irrelevant. Qed.
Print Assumptions C08_uninitialised_memory_never_observed.

(* ---- tolerances ---- *)
Theorem C08_satisfied_monotone_in_tolerances :
  forall (atol rtol atol' rtol' : Qc) (k : constraint) (s : sample),
    (atol <= atol')%Qc -> (rtol <= rtol')%Qc ->
    satisfied atol rtol k s = true -> satisfied atol' rtol' k s = true.
Proof. exact satisfied_mono. Qed.
Print Assumptions C08_satisfied_monotone_in_tolerances.

Theorem C08_feasible_monotone_in_tolerances :
  forall (atol rtol atol' rtol' : Qc) (m : cqm) (s : sample),
    (atol <= atol')%Qc -> (rtol <= rtol')%Qc ->
    feasible atol rtol m s = true -> feasible atol' rtol' m s = true.
Proof. exact feasible_mono. Qed.
Print Assumptions C08_feasible_monotone_in_tolerances.

Theorem C08_check_feasible_monotone_in_tolerances :
  forall (m : cqm) (s : sample) (atol rtol atol' rtol' : Qc),
    (atol <= atol')%Qc -> (rtol <= rtol')%Qc ->
    check_feasible m s rtol atol = true -> check_feasible m s rtol' atol' = true.
Proof. exact check_feasible_mono. Qed.
Print Assumptions C08_check_feasible_monotone_in_tolerances.

Theorem C08_zero_tolerance_is_exact :
  forall (k : constraint) (s : sample), satisfied 0%Qc 0%Qc k s = true <-> (violation k s <= 0)%Qc.
Proof. exact satisfied_zero_tol. Qed.
Print Assumptions C08_zero_tolerance_is_exact.

Theorem C08_soft_penalty_nonneg :
  forall (atol rtol : Qc) (k : constraint) (s : sample),
    (0 <= atol)%Qc -> (0 <= rtol)%Qc -> (forall w pen, c_soft k = Some (w, pen) -> (0 <= w)%Qc) ->
    (0 <= soft_penalty atol rtol k s)%Qc.
Proof. exact soft_penalty_nonneg. Qed.
Print Assumptions C08_soft_penalty_nonneg.

(* ---- labels and order of iter_violations ---- *)
Theorem C08_iter_violations_labels :
  forall (m : cqm) (s : sample) (clip : bool),
    map fst (iter_violations m s false clip) = seq 0 (length (m_cons m)).
Proof. exact iter_violations_labels. Qed.
Print Assumptions C08_iter_violations_labels.

Theorem C08_iter_violations_skip_labels :
  forall (m : cqm) (s : sample) (clip : bool),
    map fst (iter_violations m s true clip)
    = map fst (filter (fun iv => negb (Qc_leb (snd iv) 0%Qc)) (spec_violation_list m s)) /\
    (forall iv, In iv (iter_violations m s true clip) -> In iv (spec_violation_list m s) /\ ~ (snd iv <= 0)%Qc).
Proof. exact iter_violations_skip_labels. Qed.
Print Assumptions C08_iter_violations_skip_labels.

(* ---- ExactCQMSolver: feasibility column ---- *)
Theorem C08_exact_solver_feasible_column :
  forall (atol rtol : Qc) (m : cqm) (cases : list sample) (garb : list bool),
    v_is_feasible (exact_cqm_solver atol rtol m cases garb) = map (feasible atol rtol m) cases.
Proof. exact exact_solver_feasible_column. Qed.
Print Assumptions C08_exact_solver_feasible_column.

Theorem C08_exact_solver_reports_feasible :
  forall (atol rtol : Qc) (m : cqm) (cases : list sample) (garb : list bool),
    In true (v_is_feasible (exact_cqm_solver atol rtol m cases garb))
    <-> exists s, In s cases /\ feasible atol rtol m s = true.
Proof. exact exact_solver_reports_feasible. Qed.
Print Assumptions C08_exact_solver_reports_feasible.


(* ---- the left-hand sides as the code evaluates them (cyexpression._energies under both paths):
        raw expression state (parent indices, biases over local indices), sample matrix with column labels in
        ANY order, columns the model does not know, the model's variables added in ANY order ---- *)

(* one expression over a whole matrix: the labelled definition on every row *)
Theorem C08_cy_lhs_energies_eq_definition :
  forall (e : xexpr) (pvars ls : list label) (rows : list (list Qc)),
    xexpr_wf e -> covers ls (xexpr_labels e pvars) = true ->
    xexpr_energies_cy e pvars ls rows
    = Some (map (fun row => energy (xexpr_poly_labels e pvars) (row_sample ls row)) rows).
Proof. exact xexpr_energies_cy_covered. Qed.
Print Assumptions C08_cy_lhs_energies_eq_definition.

(* iter_constraint_data on the raw state = the per-sample path on the labelled CQM ... *)
Theorem C08_cy_per_sample_path_refines :
  forall (xm : xcqm) (ls : list label) (row : list Qc),
    xcons_wf (xm_cons xm) -> xcons_covered (xm_pvars xm) ls (xm_cons xm) ->
    x_iter_constraint_data (xm_pvars xm) (xm_cons xm) ls row
    = Some (iter_constraint_data (xcqm_cqm xm) (row_sample ls row)).
Proof. exact x_iter_constraint_data_eq. Qed.
Print Assumptions C08_cy_per_sample_path_refines.

(* ... hence the definition: lhs(sample), rhs, sense, activity, violation with every value assigned to the
   variable CARRYING THAT LABEL *)
Theorem C08_cy_per_sample_path_eq_definition :
  forall (xm : xcqm) (ls : list label) (row : list Qc),
    xcons_wf (xm_cons xm) -> xcons_covered (xm_pvars xm) ls (xm_cons xm) ->
    x_iter_constraint_data (xm_pvars xm) (xm_cons xm) ls row
    = Some (map (fun k => let s := row_sample ls row in
                          mkDatum (energy (c_lhs k) s) (c_rhs k) (c_sense k) (activity k s) (violation k s))
                (m_cons (xcqm_cqm xm))).
Proof. exact x_iter_constraint_data_definition. Qed.
Print Assumptions C08_cy_per_sample_path_eq_definition.

(* from_samples_cqm: the objective column and the lhs columns that feed the vectorised loop *)
Theorem C08_cy_vector_inputs_eq_definition :
  forall (xm : xcqm) (ls : list label) (rows : list (list Qc)),
    xexpr_wf (xm_obj xm) -> covers ls (xexpr_labels (xm_obj xm) (xm_pvars xm)) = true ->
    xcons_wf (xm_cons xm) -> xcons_covered (xm_pvars xm) ls (xm_cons xm) ->
    x_vec_inputs xm ls rows
    = Some (map (fun row => energy (m_obj (xcqm_cqm xm)) (row_sample ls row)) rows,
            map (fun k => map (fun row => energy (c_lhs k) (row_sample ls row)) rows) (m_cons (xcqm_cqm xm))).
Proof. exact x_vec_inputs_eq. Qed.
Print Assumptions C08_cy_vector_inputs_eq_definition.

(* a list / iterator of samples, each in its OWN label order (dicts with different key orders, labelled rows):
   after _as_samples_iterator's re-alignment to the first sample's order, every row is evaluated as the
   assignment it was given as - for every permutation, not only self-inverse ones *)
Theorem C08_cy_vector_inputs_aligned :
  forall (xm : xcqm) (first : list label) (lrs : list (list label * list Qc)),
    xexpr_wf (xm_obj xm) -> covers first (xexpr_labels (xm_obj xm) (xm_pvars xm)) = true ->
    xcons_wf (xm_cons xm) -> xcons_covered (xm_pvars xm) first (xm_cons xm) ->
    x_vec_inputs xm first (align_rows first lrs)
    = Some (map (fun lr => energy (m_obj (xcqm_cqm xm)) (row_sample (fst lr) (snd lr))) lrs,
            map (fun k => map (fun lr => energy (c_lhs k) (row_sample (fst lr) (snd lr))) lrs) (m_cons (xcqm_cqm xm))).
Proof. exact x_vec_inputs_aligned. Qed.
Print Assumptions C08_cy_vector_inputs_aligned.

(* two presentations of the same assignment (other column order, extra columns) give the same data *)
Theorem C08_cy_column_order_irrelevant :
  forall (xm : xcqm) (ls : list label) (row : list Qc) (ls' : list label) (row' : list Qc),
    xcons_wf (xm_cons xm) ->
    xcons_covered (xm_pvars xm) ls (xm_cons xm) -> xcons_covered (xm_pvars xm) ls' (xm_cons xm) ->
    (forall k v, In k (xm_cons xm) -> In v (xexpr_labels (xc_lhs k) (xm_pvars xm)) ->
                 row_sample ls row v = row_sample ls' row' v) ->
    x_iter_constraint_data (xm_pvars xm) (xm_cons xm) ls row
    = x_iter_constraint_data (xm_pvars xm) (xm_cons xm) ls' row'.
Proof. exact x_iter_constraint_data_column_order. Qed.
Print Assumptions C08_cy_column_order_irrelevant.

(* a label some left-hand side needs is missing from the samples: ValueError, in both paths *)
Theorem C08_cy_missing_label_raises :
  forall (pvars : list label) (cons : list xcon) (ls : list label) (row : list Qc),
    xcons_wf cons -> (exists k, In k cons /\ xcon_covered pvars ls k = false) ->
    x_iter_constraint_data pvars cons ls row = None.
Proof. exact x_iter_constraint_data_raises. Qed.
Print Assumptions C08_cy_missing_label_raises.

Theorem C08_cy_missing_objective_label_raises :
  forall (xm : xcqm) (ls : list label) (rows : list (list Qc)),
    xexpr_wf (xm_obj xm) -> covers ls (xexpr_labels (xm_obj xm) (xm_pvars xm)) = false ->
    x_vec_inputs xm ls rows = None.
Proof. exact x_vec_inputs_raises. Qed.
Print Assumptions C08_cy_missing_objective_label_raises.

(* variables 2, 0, 1 added in that order, x2 - x0 over an unlabelled row [1; 5; 2] (label c <-> column c): 2 - 1 *)
Example C08_ex_range_labels_out_of_order :
  x_energy1 (mkX [0%nat; 1%nat] (qm_of_raw [INTEGER; INTEGER] [qc 1 1; qc (-1) 1] [] 0%Qc))
            [2%nat; 0%nat; 1%nat] [0%nat; 1%nat; 2%nat] [qc 1 1; qc 5 1; qc 2 1] = Some (qc 1 1).
Proof. vm_compute. reflexivity. Qed.

(* ---- hypotheses are satisfiable on non-trivial data ---- *)
Definition ex_cqm : cqm :=
  mkCqm (mkPoly 0%Qc [(0%nat, 1%Qc); (1%nat, two)] [])
    [ mkCon (mkPoly 0%Qc [(0%nat, 1%Qc); (1%nat, 1%Qc)] []) Le 1%Qc None;
      mkCon (mkPoly 0%Qc [(0%nat, 1%Qc); (1%nat, (- (1))%Qc)] []) Eq 1%Qc (Some (qc 3 1, PLinear));
      mkCon (mkPoly (qc 3 1) [] []) Ge two (Some (two, PQuadratic)) ].
Definition ex_s : sample := sample_of_list [(0%nat, 0%Qc); (1%nat, 1%Qc)].

Example C08_ex_energy : Qc_eqb (spec_energy 0%Qc 0%Qc ex_cqm ex_s) (qc 8 1) = true.
Proof. vm_compute; reflexivity. Qed.
Example C08_ex_feasible : feasible 0%Qc 0%Qc ex_cqm ex_s = true /\ check_feasible ex_cqm ex_s 0%Qc 0%Qc = false.
Proof. vm_compute; split; reflexivity. Qed.
Example C08_ex_constant_only :
  map (fun iv => Qc_eqb (snd iv) (- (1))%Qc) (iter_violations ex_cqm ex_s false false) = [false; false; true].
Proof. vm_compute; reflexivity. Qed.
