(* C07 - samplers and composites report each row's true energy over the right
   variables; exact solvers enumerate their whole search space exactly once.
   Only statements; every proof is `exact <lemma>`; examples by computation. *)
From Coq Require Import List ZArith QArith Qcanon Bool Arith Permutation.
From Dimod Require Import Base.Util Model.Poly Model.HPoly Model.Samples Model.Comb Model.Solve
  Proofs.CombFacts Proofs.CombGray Proofs.PolyFacts Proofs.HPolyFacts Proofs.SamplesFacts
  Model.Feas Proofs.FeasFacts Gen.Gen_PolyScale Gen.Gen_ExactHoc Proofs.SolveEnum Proofs.SolveComp Proofs.SolveScale Proofs.SolveSamplers
  Gen.Gen_Deferred Model.Deferred Proofs.DeferredFacts Model.ParseInit Proofs.ParseInitFacts Model.ChkC07 Proofs.ChkC07Deferred.
Import ListNotations.
Local Open Scope nat_scope.

(* ================================================================== *)
(* exact enumeration *)

(* ExactSolver / ExactPolySolver: the gray-code walk visits every bit vector once *)
Theorem C07_graycode_each_once :
  forall n : nat,
    length (graycode n) = 2 ^ n /\
    Permutation (graycode n) (all_bitvectors n) /\
    NoDup (graycode n) /\
    (forall v, In v (graycode n) <-> length v = n).
Proof. exact graycode_each_once. Qed.
Print Assumptions C07_graycode_each_once.

(* np.meshgrid order: exactly the assignments of the product, each once *)
Theorem C07_mesh_each_once :
  forall (A : Type) (doms : list (list A)),
    (forall xs, In xs (mesh doms) <-> Forall2 (fun x d => In x d) xs doms) /\
    (Forall (@NoDup A) doms -> NoDup (mesh doms) /\ Permutation (mesh doms) (product doms)).
Proof.
  exact (fun A doms => conj (mesh_In doms) (fun H => conj (mesh_NoDup doms H) (mesh_perm doms H))).
Qed.
Print Assumptions C07_mesh_each_once.

(* ExactDQMSolver: every case assignment 0 <= x_v < num_cases(v) exactly once *)
Theorem C07_dqm_cases_each_once :
  forall ncases : list nat,
    NoDup (all_cases_dqm ncases) /\
    (forall row, In row (all_cases_dqm ncases) <->
                 Forall2 (fun x n => (0 <= x < Z.of_nat n)%Z) row ncases) /\
    Permutation (all_cases_dqm ncases) (product (map gen_dqm_values ncases)).
Proof. exact dqm_cases_each_once. Qed.
Print Assumptions C07_dqm_cases_each_once.

(* a one-hot block is exactly a 0/1 vector of the group's length that sums to 1 *)
Theorem C07_onehots_spec :
  forall (d : nat) (l : list Z), In l (onehots d) <-> is_onehot d l.
Proof. exact onehots_In. Qed.
Print Assumptions C07_onehots_spec.

(* ExactCQMSolver: no duplicates; exactly the assignments that are one-hot on every
   group marked discrete and in-domain ({0,1}, {-1,1}, [lb..ub]) elsewhere *)
Theorem C07_cqm_cases_each_once :
  forall (sizes : list nat) (doms : list vdom),
    NoDup (all_cases_cqm sizes doms) /\
    (forall row, In row (all_cases_cqm sizes doms) <-> cqm_row_ok sizes doms row) /\
    (forall row, cqm_row_ok [] doms row <-> Forall2 (fun x d => in_vdom d x) row doms).
Proof. exact cqm_cases_each_once. Qed.
Print Assumptions C07_cqm_cases_each_once.

(* INTEGER variables with arbitrary (also non-integral) bounds: every enumerated value lies
   within [lb, ub] and every integer within the bounds is enumerated (ceil(lb) .. floor(ub)) *)
Theorem C07_cqm_integer_domain_within_bounds :
  forall (lb ub : Qc) (z : Z), In z (dom_values (DIntQ lb ub)) <-> within_bounds lb ub z.
Proof. exact cqm_integer_domain_within_bounds. Qed.
Print Assumptions C07_cqm_integer_domain_within_bounds.

(* _all_cases_cqm as written (index product, zeros-with-a-one concatenation, the c1-empty branch,
   the early break, the final fallback; domains generated from _iterator_by_vartype) is the
   functional enumeration, hence lists every assignment of the search space exactly once *)
Theorem C07_all_cases_cqm_code_eq :
  forall (sizes : list nat) (doms : list vdom),
    (sizes <> [] \/ doms <> []) -> Forall (fun d => 0 < d) sizes ->
    (doms <> [] -> mesh (map dom_values doms) <> []) ->
    all_cases_cqm_code sizes doms = all_cases_cqm sizes doms.
Proof. exact all_cases_cqm_code_eq. Qed.
Print Assumptions C07_all_cases_cqm_code_eq.

(* the first lowest row of a complete enumeration is a global optimum of the search space *)
Theorem C07_lowest_is_global_optimum :
  forall (A : Type) (f : A -> Qc) (space rows : list A),
    (forall x, In x space -> In x rows) ->
    (space <> [] -> exists best, argmin f rows = Some best) /\
    (forall best, argmin f rows = Some best ->
       In best rows /\ forall x, In x space -> (f best <= f x)%Qc).
Proof. exact @lowest_is_global_optimum. Qed.
Print Assumptions C07_lowest_is_global_optimum.

(* ExactSolver / ExactPolySolver: a lowest row exists and is optimal over all 2^n assignments *)
Theorem C07_exact_solver_lowest_is_optimal :
  forall (n : nat) (f : list bool -> Qc),
    (exists best, argmin f (graycode n) = Some best) /\
    forall best, argmin f (graycode n) = Some best ->
      length best = n /\ forall v, length v = n -> (f best <= f v)%Qc.
Proof. exact exact_solver_lowest_is_optimal. Qed.
Print Assumptions C07_exact_solver_lowest_is_optimal.

Theorem C07_exact_dqm_lowest_is_optimal :
  forall (ncases : list nat) (f : list Z -> Qc) (best : list Z),
    argmin f (all_cases_dqm ncases) = Some best ->
    Forall2 (fun x n => (0 <= x < Z.of_nat n)%Z) best ncases /\
    forall row, Forall2 (fun x n => (0 <= x < Z.of_nat n)%Z) row ncases -> (f best <= f row)%Qc.
Proof. exact exact_dqm_lowest_is_optimal. Qed.
Print Assumptions C07_exact_dqm_lowest_is_optimal.

(* ExactCQMSolver: the lowest feasible row is optimal among the feasible assignments *)
Theorem C07_exact_cqm_lowest_feasible_is_optimal :
  forall (sizes : list nat) (doms : list vdom) (f : list Z -> Qc) (feas : list Z -> bool) (best : list Z),
    argmin f (filter feas (all_cases_cqm sizes doms)) = Some best ->
    (cqm_row_ok sizes doms best /\ feas best = true) /\
    forall row, cqm_row_ok sizes doms row -> feas row = true -> (f best <= f row)%Qc.
Proof. exact exact_cqm_lowest_feasible_is_optimal. Qed.
Print Assumptions C07_exact_cqm_lowest_feasible_is_optimal.

(* ================================================================== *)
(* Sampler mixins: sample / sample_ising / sample_qubo with change_vartype(energy_offset=) *)

Theorem C07_mixin_energy_is_submitted_energy :
  forall (child : poly -> result) (vars : list label) (p : poly),
    NoDup vars -> mentions_only p vars ->
    (let q := to_binary_all vars p in
     well_formed vars (child (drop_offset q)) -> honest (energy (drop_offset q)) (child (drop_offset q)) ->
     honest (energy p) (sample_spin_via_qubo child vars p)) /\
    (let q := to_spin_all vars p in
     well_formed vars (child (drop_offset q)) -> honest (energy (drop_offset q)) (child (drop_offset q)) ->
     honest (energy p) (sample_binary_via_ising child vars p)) /\
    (honest (energy (drop_offset p)) (child (drop_offset p)) ->
     honest (energy p) (sample_same_vartype child p)).
Proof. exact mixin_energy_is_submitted_energy. Qed.
Print Assumptions C07_mixin_energy_is_submitted_energy.

(* ------------------------------------------------------------------ *)
(* future-backed sample sets (SampleSet.from_future, nonblocking_sample_method): the implemented
   method may answer with a sample set that is not resolved when the mixin adjusts vartype and
   offset.  Which arguments the deferred hook forwards is GENERATED from the source
   (Gen/Gen_Deferred.v); with them, resolving the deferred set is the immediate adjustment, at any
   nesting depth, and change_vartype / the mixins never block. *)
Theorem C07_deferred_change_vartype :
  forall (conv : list Qc -> list Qc) (off : Qc) (s : sset),
    ss_resolve (change_vartype_ss conv off s) = change_vartype conv off (ss_resolve s) /\
    ss_done (change_vartype_ss conv off s) = ss_done s.
Proof. exact deferred_change_vartype. Qed.
Print Assumptions C07_deferred_change_vartype.

Theorem C07_deferred_change_vartype_copy :
  forall (conv : list Qc -> list Qc) (off : Qc) (s : sset),
    ss_resolve (change_vartype_copy_ss conv off s) = change_vartype conv off (ss_resolve s).
Proof. exact change_vartype_copy_ss_resolve. Qed.
Print Assumptions C07_deferred_change_vartype_copy.

Theorem C07_deferred_stack :
  forall (levels : list (level * Qc)) (base : sset),
    ss_resolve (stack_ss levels base) = stack_result levels (ss_resolve base) /\
    ss_done (stack_ss levels base) = ss_done base.
Proof. exact deferred_stack. Qed.
Print Assumptions C07_deferred_stack.

Theorem C07_mixin_deferred_energy_is_submitted_energy :
  forall (child : poly -> sset) (vars : list label) (p : poly),
    NoDup vars -> mentions_only p vars ->
    (let q := to_binary_all vars p in
     well_formed vars (ss_resolve (child (drop_offset q))) ->
     honest (energy (drop_offset q)) (ss_resolve (child (drop_offset q))) ->
     honest (energy p) (ss_resolve (sample_spin_via_qubo_ss child vars p))) /\
    (let q := to_spin_all vars p in
     well_formed vars (ss_resolve (child (drop_offset q))) ->
     honest (energy (drop_offset q)) (ss_resolve (child (drop_offset q))) ->
     honest (energy p) (ss_resolve (sample_binary_via_ising_ss child vars p))) /\
    (honest (energy (drop_offset p)) (ss_resolve (child (drop_offset p))) ->
     honest (energy p) (ss_resolve (sample_same_vartype_ss child p))).
Proof. exact mixin_deferred_energy_is_submitted_energy. Qed.
Print Assumptions C07_mixin_deferred_energy_is_submitted_energy.

Theorem C07_mixin_deferred_nonblocking :
  forall (child : poly -> sset) (vars : list label) (p : poly),
    ss_done (sample_spin_via_qubo_ss child vars p) = ss_done (child (drop_offset (to_binary_all vars p))) /\
    ss_done (sample_binary_via_ising_ss child vars p) = ss_done (child (drop_offset (to_spin_all vars p))) /\
    ss_done (sample_same_vartype_ss child p) = ss_done (child (drop_offset p)).
Proof. exact mixin_deferred_nonblocking. Qed.
Print Assumptions C07_mixin_deferred_nonblocking.

(* what a passing CStack case of the correspondence check establishes: the table the implementation
   resolved to is the immediate stack of adjustments of the base's table, and the pending flag it
   showed is the base future's *)
Theorem C07_check_stack_sound :
  forall kind pending_seen vars levels base res,
    check_stack kind pending_seen vars levels base res = true ->
    res_equiv (stack_result (map (level_of vars) levels) base) res = true /\
    pending_seen = negb (match kind with FNone => true | FObject hd d => negb hd || d end).
Proof. exact check_stack_sound. Qed.
Print Assumptions C07_check_stack_sound.

(* ================================================================== *)
(* composites: the energies are the ORIGINAL problem's energies *)

(* PolyScaleComposite on the code-shaped model (normalize's loop, the inv_scalar formula, the
   scalar recovered as poly[v] / original[v], `energy /= scalar` - the formulas are GENERATED from
   the source, Gen/Gen_PolyScale.v): both branches (un-scale / recompute), any non-zero scalar *)
Theorem C07_polyscale_energy_is_original :
  forall (orig : hpoly) (scalar : option Qc) (lr pr : Qc * Qc) (ign : list (list label)) (r : result),
    dictlike_b orig = true ->
    (forall k, scalar = Some k -> k <> 0%Qc) ->
    let qk := polyscale_problem scalar lr pr ign orig in
    honest (henergy (fst qk)) r -> honest (henergy orig) (polyscale_result orig (snd qk) ign r).
Proof. exact polyscale_honest. Qed.
Print Assumptions C07_polyscale_energy_is_original.

(* the scalar the composite recovers from the biases is the factor that was applied *)
Theorem C07_ratio_scalar_recovers :
  forall (k : Qc) (ign : list (list label)) (p : hpoly),
    dictlike_b p = true ->
    ratio_scalar ign p (hscale k ign p) =
    match find (fun t => negb (Qc_eqb (snd t) 0%Qc) && negb (ignored ign t)) p with
    | Some _ => k
    | None => 1%Qc
    end.
Proof. exact ratio_scalar_recovers. Qed.
Print Assumptions C07_ratio_scalar_recovers.

(* bias_range / poly_range rule: the normalisation factor is positive and brings every
   non-ignored linear bias into lin_range and every non-ignored higher-order bias into poly_range *)
Theorem C07_normalize_within_range :
  forall (lr pr : Qc * Qc) (ign : list (list label)) (p : hpoly) (k : Qc),
    (fst lr < 0)%Qc -> (0 < snd lr)%Qc -> (fst pr < 0)%Qc -> (0 < snd pr)%Qc ->
    normalize_scalar lr pr ign p = Some k ->
    (0 < k)%Qc /\
    forall t, In t p -> ignored ign t = false ->
      (length (fst t) = 1 -> (fst lr <= k * snd t)%Qc /\ (k * snd t <= snd lr)%Qc) /\
      (1 < length (fst t) -> (fst pr <= k * snd t)%Qc /\ (k * snd t <= snd pr)%Qc).
Proof. exact normalize_within_range. Qed.
Print Assumptions C07_normalize_within_range.

(* improper ranges (no zero bound): one bound on its proper side makes the factor positive, and
   every bound on its proper side is respected; nothing is promised for the others *)
Theorem C07_normalize_one_sided :
  forall (lr pr : Qc * Qc) (ign : list (list label)) (p : hpoly) (k : Qc),
    ((fst lr < 0)%Qc \/ (0 < snd lr)%Qc \/ (fst pr < 0)%Qc \/ (0 < snd pr)%Qc) ->
    normalize_scalar lr pr ign p = Some k ->
    (0 < k)%Qc /\
    forall t, In t p -> ignored ign t = false ->
      (length (fst t) = 1 ->
         ((fst lr < 0)%Qc -> (fst lr <= k * snd t)%Qc) /\ ((0 < snd lr)%Qc -> (k * snd t <= snd lr)%Qc)) /\
      (1 < length (fst t) ->
         ((fst pr < 0)%Qc -> (fst pr <= k * snd t)%Qc) /\ ((0 < snd pr)%Qc -> (k * snd t <= snd pr)%Qc)).
Proof. exact normalize_one_sided. Qed.
Print Assumptions C07_normalize_one_sided.

(* REFUTED beyond that: a range on one side of zero is not met (bias -4, range (1,2), factor 1/4),
   and an inverted range (1,-1) yields a NEGATIVE factor - the child receives the negated
   polynomial; the reported energies stay correct (C07_polyscale_energy_is_original needs k <> 0) *)
Theorem C07_normalize_improper_range_refuted :
  (exists k, normalize_scalar (qc 1 1, qc 2 1) (qc 1 1, qc 2 1) [] improper_example = Some k /\
             exists t, In t improper_example /\ length (fst t) = 1 /\ (k * snd t < qc 1 1)%Qc) /\
  (exists k, normalize_scalar (qc 1 1, qc (-1) 1) (qc 1 1, qc (-1) 1) [] improper_example = Some k /\ (k < 0)%Qc).
Proof. exact normalize_improper_range_refuted. Qed.
Print Assumptions C07_normalize_improper_range_refuted.

(* a zero bound: normalize divides by it -> ZeroDivisionError, exactly when no scalar is given *)
Theorem C07_polyscale_call_raises :
  forall (scalar : option Qc) (lr pr : Qc * Qc) (ign : list (list label)) (p : hpoly),
    polyscale_call scalar lr pr ign p = None <->
    scalar = None /\ (fst lr = 0%Qc \/ snd lr = 0%Qc \/ fst pr = 0%Qc \/ snd pr = 0%Qc).
Proof. exact polyscale_call_raises. Qed.
Print Assumptions C07_polyscale_call_raises.

Theorem C07_parse_range_number_proper :
  forall r : Qc, r <> 0%Qc ->
    (fst (parse_range (RNum r)) < 0)%Qc /\ (0 < snd (parse_range (RNum r)))%Qc.
Proof. exact parse_range_number_proper. Qed.
Print Assumptions C07_parse_range_number_proper.

(* PolyFixedVariableComposite: fix, sample, append the fixed columns *)
Theorem C07_polyfixed_energy_is_original :
  forall (orig : hpoly) (fs : list (label * Qc)) (r : result),
    (forall row, In row (r_rows r) -> length row = length (r_labels r)) ->
    (forall f, In f fs -> ~ In (fst f) (r_labels r)) ->
    honest (henergy (hfix fs orig)) r -> honest (henergy orig) (polyfixed_result orig fs r).
Proof. exact polyfixed_honest. Qed.
Print Assumptions C07_polyfixed_energy_is_original.

(* TruncateComposite / PolyTruncateComposite, sorted or not *)
Theorem C07_truncate_energy_is_original :
  forall (e : sample -> Qc) (n : nat) (r : result),
    honest e r -> honest e (truncate_unsorted n r) /\ honest e (truncate_sorted n r).
Proof. exact truncate_honest. Qed.
Print Assumptions C07_truncate_energy_is_original.

Theorem C07_aggregate_energy_is_original :
  forall (e : sample -> Qc) (r : result), honest e r -> honest e (aggregate r).
Proof. exact aggregate_honest. Qed.
Print Assumptions C07_aggregate_energy_is_original.

Theorem C07_truncate_rows_from_child :
  forall (n : nat) (r : result),
    r_labels (truncate_unsorted n r) = r_labels r /\ r_labels (truncate_sorted n r) = r_labels r /\
    (forall row, In row (r_rows (truncate_unsorted n r)) -> In row (r_rows r)) /\
    (forall row, In row (r_rows (truncate_sorted n r)) -> In row (r_rows r)) /\
    (length (r_rows (truncate_unsorted n r)) <= n)%nat /\ (length (r_rows (truncate_sorted n r)) <= n)%nat.
Proof. exact truncate_rows_from_child. Qed.
Print Assumptions C07_truncate_rows_from_child.

(* sorted truncation keeps the n lowest energies, in ascending order *)
Theorem C07_truncate_sorted_keeps_lowest :
  forall (n : nat) (r : result),
    let all := combine (r_energies r) (r_rows r) in
    let s := sort_by_energy all in
    Permutation (firstn n s ++ skipn n s) all /\
    sorted_pairs (firstn n s) /\
    (forall a b, In a (firstn n s) -> In b (skipn n s) -> (fst a <= fst b)%Qc) /\
    r_energies (truncate_sorted n r) = map fst (firstn n s) /\
    r_rows (truncate_sorted n r) = map snd (firstn n s).
Proof. exact truncate_sorted_keeps_lowest. Qed.
Print Assumptions C07_truncate_sorted_keeps_lowest.

(* discard_unsatisfied keeps only rows whose product columns equal the products *)
Theorem C07_polymorph_discard :
  forall (poly : hpoly) (pv : list label) (red : list (label * label * label)) (keep : bool) (r : result) (row : list Qc),
    In row (r_rows (polymorph poly pv red keep true r)) ->
    exists row0, In row0 (r_rows r) /\ penalty_ok (r_labels r) red row0 = true.
Proof. exact polymorph_discard. Qed.
Print Assumptions C07_polymorph_discard.

(* np.argsort's default kind is not stable and the source does not request a stable one in
   slice/truncate: ANY ordering of the child's (energy,row) pairs that is ascending in energy has
   the same first n energies as the model's sort, and keeps only pairs of the child *)
Theorem C07_truncate_any_ascending_order :
  forall (n : nat) (r : result) (s : list (Qc * list Qc)),
    Permutation s (combine (r_energies r) (r_rows r)) -> sorted_pairs s ->
    map fst (firstn n s) = r_energies (truncate_sorted n r) /\
    (forall x, In x (firstn n s) -> In x (combine (r_energies r) (r_rows r))).
Proof. exact truncate_any_ascending_order. Qed.
Print Assumptions C07_truncate_any_ascending_order.

(* PolyFixedVariableComposite: in whatever order the columns are re-inserted (sort_labels) *)
Theorem C07_polyfixed_reordered_energy_is_original :
  forall (orig : hpoly) (fs : list (label * Qc)) (r : result) (ls' : list label),
    (forall row, In row (r_rows r) -> length row = length (r_labels r)) ->
    (forall f, In f fs -> ~ In (fst f) (r_labels r)) ->
    hmentions_only orig ls' ->
    honest (henergy (hfix fs orig)) r ->
    honest (henergy orig) (reorder_columns ls' (polyfixed_result orig fs r)).
Proof. exact polyfixed_reordered_honest. Qed.
Print Assumptions C07_polyfixed_reordered_energy_is_original.

(* HigherOrderComposite: whatever the child returned, the energies are the polynomial's *)
Theorem C07_polymorph_energy_is_original :
  forall (poly : hpoly) (pv : list label) (red : list (label * label * label)) (keep discard : bool) (r : result),
    hmentions_only poly pv -> honest (henergy poly) (polymorph poly pv red keep discard r).
Proof. exact polymorph_honest. Qed.
Print Assumptions C07_polymorph_energy_is_original.

(* Tracking / Structure *)
Theorem C07_passthrough : forall r : result, passthrough r = r.
Proof. exact passthrough_id. Qed.
Print Assumptions C07_passthrough.

(* ================================================================== *)
(* every column carries the values of the variable it is labelled with *)

Theorem C07_composite_columns_labelled_correctly :
  (* dropping the penalty columns *)
  (forall poly pv red discard r,
     let out := polymorph poly pv red false discard r in
     r_labels out = pv /\
     forall row', In row' (r_rows out) ->
       exists row, In row (r_rows r) /\
                   forall v, In v pv -> row_value pv row' v = row_value (r_labels r) row v) /\
  (* appending the fixed columns *)
  (forall fs r row,
     In row (r_rows r) -> length row = length (r_labels r) ->
     (forall f, In f fs -> ~ In (fst f) (r_labels r)) ->
     let out := append_fixed fs r in
     In (row ++ map snd fs) (r_rows out) /\
     (forall v, In v (r_labels r) ->
        row_value (r_labels out) (row ++ map snd fs) v = row_value (r_labels r) row v) /\
     (forall v a, lookup fs v = Some a -> row_value (r_labels out) (row ++ map snd fs) v = a)) /\
  (* vartype conversion keeps the labels and maps the values row by row *)
  (forall conv off r,
     r_labels (change_vartype conv off r) = r_labels r /\
     r_rows (change_vartype conv off r) = map conv (r_rows r)).
Proof. exact (conj polymorph_columns (conj append_fixed_columns change_vartype_labels)). Qed.
Print Assumptions C07_composite_columns_labelled_correctly.

(* re-ordering the columns of a table together with its labels does not change what it says *)
Theorem C07_reindex_row_value :
  forall (first ls : list label) (row : list Qc) (v : label),
    In v first -> row_value first (reindex_row first ls row) v = row_value ls row v.
Proof. exact reindex_row_value. Qed.
Print Assumptions C07_reindex_row_value.

(* ================================================================== *)
(* the stochastic samplers: everything but the search *)

(* RandomSampler / IdentitySampler / any search: for ANY rows, the reported energies are the
   submitted problem's energies of those rows, whatever the (sorted) column order *)
Theorem C07_search_agnostic_energy :
  forall (p : poly) (vars ls ls' : list label) (rows : list (list Qc)),
    mentions_only p vars -> (forall v, In v vars -> In v ls') ->
    let out := reorder_columns ls' (from_samples_bqm (energy p) vars ls rows) in
    r_energies out = map (fun row => energy p (row_sample ls row)) rows /\
    honest (energy p) out.
Proof. exact search_agnostic_energy. Qed.
Print Assumptions C07_search_agnostic_energy.

(* SimulatedAnnealingSampler: whatever spin rows the annealer ends in *)
Theorem C07_sa_search_agnostic_energy :
  forall (binary : bool) (vars : list label) (p : poly) (ls : list label) (rows : list (list Qc)),
    NoDup vars -> mentions_only p vars ->
    (forall v, In v vars -> In v ls) -> (forall row, In row rows -> length row = length ls) ->
    honest (energy p) (sa_sample binary vars p ls rows).
Proof. exact sa_search_agnostic_energy. Qed.
Print Assumptions C07_sa_search_agnostic_energy.

Theorem C07_null_sample_spec :
  forall (e : sample -> Qc) (vars : list label),
    honest e (null_sample vars) /\ r_labels (null_sample vars) = vars /\ r_rows (null_sample vars) = [].
Proof. exact null_sample_spec. Qed.
Print Assumptions C07_null_sample_spec.

(* IdentitySampler: energies are the problem's; rejected exactly in the documented cases;
   'none' / 'tile' return exactly the given states (read i = state i mod len); 'random' keeps
   the given states first *)
Theorem C07_identity_honest :
  forall g num_reads (e : sample -> Qc) vars ls conv init extra r,
    identity_sample g num_reads e vars ls conv init extra = Some r -> honest e r.
Proof. exact identity_honest. Qed.
Print Assumptions C07_identity_honest.

Theorem C07_identity_rejects :
  forall g num_reads (e : sample -> Qc) vars ls conv init extra,
    identity_sample g num_reads e vars ls conv init extra = None <->
    same_label_set vars ls = false \/ reads num_reads (length init) < 1 \/
    (g = GNone /\ length init < reads num_reads (length init)) \/ (g = GTile /\ length init < 1).
Proof. exact identity_rejects. Qed.
Print Assumptions C07_identity_rejects.

(* parse_initial_states tests the SYMMETRIC difference of the label sets: a foreign label in the
   initial states is rejected just like a missing one (IdentitySampler and RandomSampler) *)
Theorem C07_identity_rejects_foreign_or_missing :
  forall g num_reads (e : sample -> Qc) vars ls conv init extra v,
    (In v ls /\ ~ In v vars) \/ (In v vars /\ ~ In v ls) ->
    identity_sample g num_reads e vars ls conv init extra = None.
Proof. exact identity_rejects_foreign_or_missing. Qed.
Print Assumptions C07_identity_rejects_foreign_or_missing.

Theorem C07_same_label_set_symmetric :
  forall vars ls, same_label_set vars ls = true <-> (forall v, In v vars <-> In v ls).
Proof. exact same_label_set_symmetric. Qed.
Print Assumptions C07_same_label_set_symmetric.

Theorem C07_identity_none_tile_exact :
  forall g num_reads (e : sample -> Qc) vars ls conv init extra r d,
    g <> GRandom ->
    identity_sample g num_reads e vars ls conv init extra = Some r ->
    let n := reads num_reads (length init) in
    length (r_rows r) = n /\
    forall i, i < n -> nth i (r_rows r) d = nth (i mod length init) (map conv init) d.
Proof. exact identity_none_tile_exact. Qed.
Print Assumptions C07_identity_none_tile_exact.

Theorem C07_identity_random_prefix :
  forall num_reads (e : sample -> Qc) vars ls conv init extra r,
    identity_sample GRandom num_reads e vars ls conv init extra = Some r ->
    r_rows r = firstn (reads num_reads (length init)) (map conv init ++ extra).
Proof. exact identity_random_prefix. Qed.
Print Assumptions C07_identity_random_prefix.

(* Initialized.parse_initial_states, code-shaped (Model/ParseInit.v): the vartype of RAW initial
   states is inferred from their values exactly as sampleset.infer_vartype does *)
Theorem C07_infer_vartype_spec :
  forall rows : list (list Qc),
    let flat := concat rows in
    (infer_vartype rows = Some None <-> forall x, In x flat -> x = 1%Qc) /\
    (infer_vartype rows = Some (Some VBinary) <->
       (exists x, In x flat /\ x <> 1%Qc) /\ forall x, In x flat -> in_vt VBinary x) /\
    (infer_vartype rows = Some (Some VSpin) <->
       (exists x, In x flat /\ x <> 0%Qc /\ x <> 1%Qc) /\ forall x, In x flat -> in_vt VSpin x) /\
    (infer_vartype rows = None <->
       (exists x, In x flat /\ x <> 0%Qc /\ x <> 1%Qc) /\ (exists x, In x flat /\ x <> (- (1))%Qc /\ x <> 1%Qc)).
Proof. exact infer_vartype_spec. Qed.
Print Assumptions C07_infer_vartype_spec.

Theorem C07_parse_initial_states_honest :
  forall g num_reads (e : sample -> Qc) bqm_vt vars init extra r,
    parse_initial_states g num_reads e bqm_vt vars init extra = Some r -> honest e r.
Proof. exact parse_honest. Qed.
Print Assumptions C07_parse_initial_states_honest.

(* IdentitySampler / RandomSampler: every value of every returned row lies in the model's domain
   (raw states: unconditionally - their vartype is the one their values show; a SampleSet of
   states is assumed to hold values of its own vartype; drawn rows are the generator's) *)
Theorem C07_parse_initial_states_values_in_domain :
  forall g num_reads (e : sample -> Qc) bqm_vt vars init extra r,
    parse_initial_states g num_reads e bqm_vt vars init extra = Some r ->
    (forall i v, init = Some i -> i_declared i = Some v ->
                 forall row x, In row (i_rows i) -> In x row -> in_vt v x) ->
    (forall row x, In row extra -> In x row -> in_vt bqm_vt x) ->
    forall row x, In row (r_rows r) -> In x row -> in_vt bqm_vt x.
Proof. exact parse_values_in_domain. Qed.
Print Assumptions C07_parse_initial_states_values_in_domain.

Theorem C07_parse_initial_states_rejects_unknown_values :
  forall g num_reads (e : sample -> Qc) bqm_vt vars ls rows extra,
    (exists x, In x (concat rows) /\ x <> 0%Qc /\ x <> 1%Qc) ->
    (exists x, In x (concat rows) /\ x <> (- (1))%Qc /\ x <> 1%Qc) ->
    parse_initial_states g num_reads e bqm_vt vars (Some (mkInit None ls rows)) extra = None.
Proof. exact parse_rejects_unknown_values. Qed.
Print Assumptions C07_parse_initial_states_rejects_unknown_values.

(* ... and on arguments of any Python type (the type tests raise TypeError, in source order before
   the value tests of the same argument): accepted exactly when every argument has the right type
   and the value tests pass *)
Theorem C07_sa_outcome_accept_iff :
  forall num_reads beta_range num_sweeps,
    sa_outcome num_reads beta_range num_sweeps = Accept <->
    exists r s, num_reads = AInt r /\ num_sweeps = AInt s /\
      (beta_range <> BNotSeq) /\
      (forall items, beta_range = BSeq items -> forallb bitem_is_num items = true) /\
      sa_validate r (match beta_range with BSeq items => Some (map bitem_q items) | _ => None end) s = true.
Proof. exact sa_outcome_accept_iff. Qed.
Print Assumptions C07_sa_outcome_accept_iff.

Theorem C07_check_parse_sound :
  forall g num_reads (e : sample -> Qc) spin vars init seen r,
    check_parse g num_reads e spin vars init seen = true -> seen = Some r ->
    exists m, honest e m /\ res_equiv m r = true.
Proof. exact check_parse_sound. Qed.
Print Assumptions C07_check_parse_sound.

(* SimulatedAnnealingSampler: accepted exactly for num_reads >= 1, num_sweeps >= 1 and no or a
   two-element all-positive beta_range *)
Theorem C07_sa_validate_spec :
  forall num_reads beta_range num_sweeps,
    sa_validate num_reads beta_range num_sweeps = true <->
    (1 <= num_reads)%Z /\ (1 <= num_sweeps)%Z /\
    match beta_range with
    | None => True
    | Some l => length l = 2%nat /\ forall b, In b l -> (0 < b)%Qc
    end.
Proof. exact sa_validate_spec. Qed.
Print Assumptions C07_sa_validate_spec.

(* sample_qubo: the BQM built from Q (self-loops folded into linear biases) has, on binary
   samples, the energy of the QUBO as the user wrote it *)
Theorem C07_from_qubo_energy :
  forall (Q : list qterm) (s : sample),
    respects (fun _ => BINARY) s -> energy (from_qubo Q) s = energy (qubo_poly Q) s.
Proof. exact from_qubo_energy. Qed.
Print Assumptions C07_from_qubo_energy.

(* ================================================================== *)
(* StructureComposite / TrackingComposite *)

Theorem C07_structured_spec :
  forall nodes edges vars quad,
    structured nodes edges vars quad = true <->
    (forall v, In v vars -> In v nodes) /\
    (forall u v, In (u, v) quad -> In (u, v) edges \/ In (v, u) edges).
Proof. exact structured_spec. Qed.
Print Assumptions C07_structured_spec.

Theorem C07_structure_sample_spec :
  forall (I : Type) nodes edges vars quad (child : I -> result) (bqm : I),
    (structured nodes edges vars quad = true ->
       structure_sample nodes edges vars quad child bqm = Some (child bqm)) /\
    (structured nodes edges vars quad = false ->
       forall child' : I -> result, structure_sample nodes edges vars quad child' bqm = None).
Proof. exact @structure_sample_spec. Qed.
Print Assumptions C07_structure_sample_spec.

Theorem C07_tracking_sample_spec :
  forall (I : Type) (t : tracker I) (child : I -> result) (inp : I),
    snd (tracking_sample t child inp) = child inp /\
    t_inputs (fst (tracking_sample t child inp)) = t_inputs t ++ [inp] /\
    t_outputs (fst (tracking_sample t child inp)) = t_outputs t ++ [child inp].
Proof. exact @tracking_sample_spec. Qed.
Print Assumptions C07_tracking_sample_spec.

(* ================================================================== *)
(* ExactCQMSolver: the is_feasible column is the hard-constraint definition (C08's `feasible`)
   evaluated on the enumeration of this file *)
Theorem C07_exact_cqm_feasible_column :
  forall (atol rtol : Qc) (m : cqm) order sizes doms garb,
    let cases := cqm_case_samples order sizes doms in
    v_is_feasible (exact_cqm_solver atol rtol m cases garb) = map (feasible atol rtol m) cases /\
    length (v_is_feasible (exact_cqm_solver atol rtol m cases garb)) = length (all_cases_cqm sizes doms) /\
    (forall s, feasible atol rtol m s = true <->
               forall k, In k (m_cons m) -> is_hard k = true -> satisfied atol rtol k s = true).
Proof. exact exact_cqm_feasible_column. Qed.
Print Assumptions C07_exact_cqm_feasible_column.

(* ================================================================== *)
(* examples: hypotheses are satisfiable on non-trivial data *)

Example C07_ex_mesh : mesh [[1; 2]; [10; 20]; [100; 200]] =
  [[1; 10; 100]; [1; 20; 100]; [2; 10; 100]; [2; 20; 100];
   [1; 10; 200]; [1; 20; 200]; [2; 10; 200]; [2; 20; 200]].
Proof. vm_compute; reflexivity. Qed.

Example C07_ex_cqm :
  all_cases_cqm [2] [DInt (-1) 0; DSpin] =
  [[1; 0; -1; -1]; [1; 0; -1; 1]; [1; 0; 0; -1]; [1; 0; 0; 1];
   [0; 1; -1; -1]; [0; 1; -1; 1]; [0; 1; 0; -1]; [0; 1; 0; 1]]%Z.
Proof. vm_compute; reflexivity. Qed.

Example C07_ex_mixin :
  let p := mkPoly (qc 3 2) [(0, qc 1 1); (1, qc (-2) 1)] [(0, 1, qc 5 2)] in
  let child := fun q => mkRes [1; 0] [[qc 0 1; qc 1 1]; [qc 1 1; qc 1 1]]
                 (map (fun row => energy q (row_sample [1; 0] row)) [[qc 0 1; qc 1 1]; [qc 1 1; qc 1 1]]) in
  r_energies (sample_spin_via_qubo child [0; 1] p) = [qc 2 1; qc 3 1] /\
  r_rows (sample_spin_via_qubo child [0; 1] p) = [[qc (-1) 1; qc 1 1]; [qc 1 1; qc 1 1]].
Proof. vm_compute. split; reflexivity. Qed.

Example C07_ex_polyfixed :
  let orig := [([], qc 3 1); ([0; 1], qc 2 1); ([1; 2], qc (-1) 1)] in
  let fs := [(1, qc (-1) 1)] in
  let child := mkRes [2; 0] [[qc 1 1; qc 1 1]]
                 [henergy (hfix fs orig) (row_sample [2; 0] [qc 1 1; qc 1 1])] in
  polyfixed_result orig fs child = mkRes [2; 0; 1] [[qc 1 1; qc 1 1; qc (-1) 1]] [qc 2 1].
Proof. vm_compute; reflexivity. Qed.

Example C07_ex_tile :
  tile_rows 5 [[qc 1 1]; [qc 2 1]; [qc 3 1]] = [[qc 1 1]; [qc 2 1]; [qc 3 1]; [qc 1 1]; [qc 2 1]].
Proof. vm_compute; reflexivity. Qed.

Example C07_ex_structured :
  structured [0; 1; 2] [(1, 0)] [0; 1] [(0, 1)] = true /\ structured [0; 1; 2] [(1, 0)] [0; 1; 2] [(0, 2)] = false.
Proof. vm_compute. split; reflexivity. Qed.
