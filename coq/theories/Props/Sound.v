(* Sound - the executable comparisons used by the correspondence check are
   verified decision procedures for equality of energies. *)
From Coq Require Import List ZArith QArith Qcanon Bool Arith.
From Dimod Require Import Base.Util Model.Poly Model.HPoly Proofs.PolyFacts Proofs.CoeffSound.
Import ListNotations.
Open Scope Qc_scope.

(* Qc_eqb is equality *)
Theorem Sound_Qc_eqb : forall a b, Qc_eqb a b = true <-> a = b.
Proof. exact Qc_eqb_iff. Qed.
Print Assumptions Sound_Qc_eqb.

(* the label-range side condition is itself executable *)
Theorem Sound_labels_belowb : forall n p, labels_belowb n p = true <-> labels_below n p.
Proof. exact labels_belowb_spec. Qed.
Print Assumptions Sound_labels_belowb.

(* a bag of terms has the energy of its coefficient table *)
Theorem Sound_energy_grouped :
  forall n p s, labels_below n p ->
    energy p s =
    p_off p
    + qsum (map (fun v => lin_coeff (p_lin p) v * s v) (seq 0 n))
    + qsum (map (fun u => qsum (map (fun v => quad_coeff (p_quad p) u v * s u * s v)
                                  (seq 0 (S u)))) (seq 0 n)).
Proof. exact energy_grouped. Qed.
Print Assumptions Sound_energy_grouped.

(* coefficient-wise agreement on [0,n) implies the same energy on every sample *)
Theorem Sound_poly_coeff_eqb :
  forall n a b, labels_below n a -> labels_below n b -> poly_coeff_eqb n a b = true ->
    forall s, energy a s = energy b s.
Proof. exact poly_coeff_eqb_sound. Qed.
Print Assumptions Sound_poly_coeff_eqb.

(* and conversely: the same energy everywhere forces coefficient-wise agreement *)
Theorem Sound_poly_coeff_eqb_complete :
  forall n a b, (forall s, energy a s = energy b s) -> poly_coeff_eqb n a b = true.
Proof. exact coeff_eq_complete. Qed.
Print Assumptions Sound_poly_coeff_eqb_complete.

Theorem Sound_poly_coeff_eqb_decides :
  forall n a b, labels_below n a -> labels_below n b ->
    (poly_coeff_eqb n a b = true <-> forall s, energy a s = energy b s).
Proof. exact poly_coeff_eqb_iff. Qed.
Print Assumptions Sound_poly_coeff_eqb_decides.

(* higher order: agreement of the coefficients of every occurring sorted key
   implies the same energy on every sample (no duplicate-freeness needed) *)
Theorem Sound_hpoly_eqb :
  forall a b, hpoly_eqb a b = true -> forall s, henergy a s = henergy b s.
Proof. exact hpoly_eqb_sound. Qed.
Print Assumptions Sound_hpoly_eqb.

Theorem Sound_hpoly_eqb_nodup :
  forall a b, (forall t, In t a -> NoDup (fst t)) -> (forall t, In t b -> NoDup (fst t)) ->
    hpoly_eqb a b = true -> forall s, henergy a s = henergy b s.
Proof. exact hpoly_eqb_sound_nodup. Qed.
Print Assumptions Sound_hpoly_eqb_nodup.

(* ---------- worked instances ---------- *)
Definition ex_a : poly :=
  mkPoly (qc 1 2) [(0%nat, qc 1 1); (2%nat, qc 3 1); (0%nat, qc 2 1)]
         [(0%nat, 1%nat, qc 1 2); (1%nat, 0%nat, qc 1 2); (2%nat, 2%nat, qc (-4) 1)].
Definition ex_b : poly :=
  mkPoly (qc 2 4) [(2%nat, qc 3 1); (0%nat, qc 3 1)]
         [(2%nat, 2%nat, qc (-4) 1); (1%nat, 0%nat, qc 1 1)].

Example ex_checker_accepts :
  labels_belowb 3 ex_a && labels_belowb 3 ex_b && poly_coeff_eqb 3 ex_a ex_b = true.
Proof. vm_compute. reflexivity. Qed.

(* ... hence the two bags are the same function, on all (not only tested) samples *)
Example ex_same_energy : forall s, energy ex_a s = energy ex_b s.
Proof.
  apply (poly_coeff_eqb_sound 3).
  - apply labels_belowb_spec. vm_compute. reflexivity.
  - apply labels_belowb_spec. vm_compute. reflexivity.
  - vm_compute. reflexivity.
Qed.
Print Assumptions ex_same_energy.

(* a differing coefficient is rejected, and by completeness the energies differ somewhere *)
Example ex_checker_rejects :
  poly_coeff_eqb 3 ex_a (add_linear 1 (qc 1 1) ex_b) = false.
Proof. vm_compute. reflexivity. Qed.

Example ex_energies_differ :
  ~ (forall s, energy ex_a s = energy (add_linear 1 (qc 1 1) ex_b) s).
Proof.
  intros H. apply (coeff_eq_complete 3) in H. rewrite ex_checker_rejects in H. discriminate H.
Qed.
Print Assumptions ex_energies_differ.

Definition ex_ha : hpoly := [([2; 0; 1]%nat, qc 1 1); ([1; 2; 0]%nat, qc 1 2); ([3]%nat, qc 5 1)].
Definition ex_hb : hpoly := [([3]%nat, qc 5 1); ([0; 1; 2]%nat, qc 3 2)].

Example ex_h_same_energy : forall s, henergy ex_ha s = henergy ex_hb s.
Proof. apply hpoly_eqb_sound. vm_compute. reflexivity. Qed.
Print Assumptions ex_h_same_energy.
