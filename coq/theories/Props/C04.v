(* C04 - Any edit history leaves a BQM/QM holding exactly the edited polynomial.
   Only statements; every proof is `exact <lemma>`.  The model (Model/Hist.v) is
   tied to the implementation by the correspondence check (Model/ChkC04.v). *)
From Coq Require Import List ZArith QArith Qcanon Bool Arith.
From Dimod Require Import Base.Util Model.Poly Model.View Model.Hist Model.ChkC04
  Proofs.PolyFacts Proofs.ViewFacts Proofs.HistFacts Proofs.HistWf.
Import ListNotations.
Open Scope Qc_scope.

(* ---------- read after write: each primitive edit changes exactly the coefficient it names ---------- *)
Theorem C04_read_add_linear :
  forall v b p w, lin_coeff (p_lin (add_linear v b p)) w = lin_coeff (p_lin p) w + (if (w =? v)%nat then b else 0).
Proof. exact lin_coeff_add_linear. Qed.
Print Assumptions C04_read_add_linear.

Theorem C04_read_set_linear :
  forall v b p w, lin_coeff (p_lin (set_linear v b p)) w = if (w =? v)%nat then b else lin_coeff (p_lin p) w.
Proof. exact lin_coeff_set_linear. Qed.
Print Assumptions C04_read_set_linear.

Theorem C04_read_add_quadratic :
  forall u v b p x y,
    quad_coeff (p_quad (push_quad u v b p)) x y = quad_coeff (p_quad p) x y + (if same_pair x y u v then b else 0).
Proof. exact quad_coeff_push. Qed.
Print Assumptions C04_read_add_quadratic.

Theorem C04_present_add_quadratic :
  forall u v b p x y, has_pair (p_quad (push_quad u v b p)) x y = same_pair x y u v || has_pair (p_quad p) x y.
Proof. exact has_pair_push. Qed.
Print Assumptions C04_present_add_quadratic.

Theorem C04_read_set_quadratic :
  forall u v b p x y,
    quad_coeff (p_quad (set_quadratic u v b p)) x y = if same_pair x y u v then b else quad_coeff (p_quad p) x y.
Proof. exact quad_coeff_set_quadratic. Qed.
Print Assumptions C04_read_set_quadratic.

Theorem C04_present_set_quadratic :
  forall u v b p x y, has_pair (p_quad (set_quadratic u v b p)) x y = same_pair x y u v || has_pair (p_quad p) x y.
Proof. exact has_pair_set_quadratic. Qed.
Print Assumptions C04_present_set_quadratic.

Theorem C04_read_remove_interaction :
  forall u v p x y,
    quad_coeff (p_quad (remove_interaction u v p)) x y = (if same_pair x y u v then 0 else quad_coeff (p_quad p) x y)
    /\ has_pair (p_quad (remove_interaction u v p)) x y = negb (same_pair x y u v) && has_pair (p_quad p) x y.
Proof. intros. split; [apply quad_coeff_remove_interaction|apply has_pair_remove_interaction]. Qed.
Print Assumptions C04_read_remove_interaction.

Theorem C04_interactions_unordered :
  forall q u v, quad_coeff q u v = quad_coeff q v u /\ has_pair q u v = has_pair q v u.
Proof. intros. split; [apply quad_coeff_sym|apply has_pair_sym]. Qed.
Print Assumptions C04_interactions_unordered.

Theorem C04_remove_variable_frame :
  forall v x y (l : list qterm), x <> v -> y <> v ->
    quad_coeff (filter (fun t => negb (mentions v t)) l) x y = quad_coeff l x y.
Proof. exact quad_coeff_remove_other. Qed.
Print Assumptions C04_remove_variable_frame.

Theorem C04_read_scale :
  forall k p w x y,
    lin_coeff (p_lin (scale k p)) w = k * lin_coeff (p_lin p) w
    /\ quad_coeff (p_quad (scale k p)) x y = k * quad_coeff (p_quad p) x y
    /\ has_pair (p_quad (scale k p)) x y = has_pair (p_quad p) x y.
Proof. intros. split; [apply lin_coeff_scale|split; [apply quad_coeff_scale|apply has_pair_scale]]. Qed.
Print Assumptions C04_read_scale.

Theorem C04_read_relabel :
  forall f p w, (forall t, In t (p_lin p) -> f (fst t) = f w -> fst t = w) ->
    lin_coeff (p_lin (relabel f p)) (f w) = lin_coeff (p_lin p) w.
Proof. exact lin_coeff_relabel. Qed.
Print Assumptions C04_read_relabel.

(* ---------- energy effects ---------- *)
Theorem C04_energy_add_quadratic_folds :
  forall vt u v b p s, respects vt s -> energy (add_quadratic vt u v b p) s = energy p s + b * s u * s v.
Proof. exact energy_add_quadratic. Qed.
Print Assumptions C04_energy_add_quadratic_folds.

Theorem C04_energy_flip :
  forall v p s, energy (flip_spin v p) s = energy p (upd s v (- s v))
             /\ energy (flip_binary v p) s = energy p (upd s v (1 - s v)).
Proof. intros. split; [apply flip_spin_energy|apply flip_binary_energy]. Qed.
Print Assumptions C04_energy_flip.

Theorem C04_energy_scale : forall k p s, energy (scale k p) s = k * energy p s.
Proof. exact energy_scale. Qed.
Print Assumptions C04_energy_scale.

Theorem C04_energy_fix : forall v a p s, energy (fix_variable v a p) s = energy p (upd s v a).
Proof. exact energy_fix_variable. Qed.
Print Assumptions C04_energy_fix.

Theorem C04_energy_relabel : forall f p s, energy (relabel f p) s = energy p (fun v => s (f v)).
Proof. exact energy_relabel. Qed.
Print Assumptions C04_energy_relabel.

Theorem C04_energy_offset : forall b p s, energy (set_off b p) s = energy p s - p_off p + b.
Proof. exact energy_set_off. Qed.
Print Assumptions C04_energy_offset.

(* QM.update adds the other polynomial, or (conflicting vartype / bounds on a shared label) does nothing *)
Theorem C04_update_is_padd :
  forall o s, existsb (vinfo_conflict s) (st_vars o) = false ->
    forall x, energy (st_poly (fst (m_update_qm o s))) x = energy (st_poly s) x + energy (st_poly o) x.
Proof. intros o s H x. rewrite (update_qm_is_padd o s H). apply energy_padd. Qed.
Print Assumptions C04_update_is_padd.

Theorem C04_update_conflict_noop :
  forall o s, existsb (vinfo_conflict s) (st_vars o) = true -> m_update_qm o s = (s, Raised BValue).
Proof. exact update_qm_conflict_noop. Qed.
Print Assumptions C04_update_conflict_noop.

(* a write through a .spin/.binary view adds the term in the view's own variables *)
Theorem C04_view_add_linear_energy :
  forall d v b base y,
    energy (view_add_linear d v b base) y = energy base y + b * view_value d (y v).
Proof. exact view_add_linear_energy. Qed.
Print Assumptions C04_view_add_linear_energy.

(* ---------- a raising call changes nothing (calls decided before the first write, on the base object) ---------- *)
Theorem C04_failed_op_is_noop_partial :
  forall s o e, simple_op o = true -> snd (step s (Direct, o)) = Raised e -> fst (step s (Direct, o)) = s.
Proof. exact failed_op_is_noop_direct. Qed.
Print Assumptions C04_failed_op_is_noop_partial.

Theorem C04_conflicting_relabel_is_noop :
  forall s h m, relabel_ok m s = false -> step s (h, ORelabel m) = (s, Raised BValue).
Proof. exact order_relabel_rejected. Qed.
Print Assumptions C04_conflicting_relabel_is_noop.

(* ---------- read paths are functions of the polynomial and agree with each other ---------- *)
Theorem C04_read_paths_consistent :
  forall q vs, (sumdeg_in q vs + nself_in q vs = 2 * nint_in q vs)%nat.
Proof. exact read_paths_consistent. Qed.
Print Assumptions C04_read_paths_consistent.

Theorem C04_is_linear_iff : forall s, is_linear s = true <-> num_interactions s = 0%nat.
Proof. exact is_linear_iff_no_interaction. Qed.
Print Assumptions C04_is_linear_iff.

(* ---------- the variable order is the order a python list would have ---------- *)
Theorem C04_order_append_on_first_use :
  forall s v b, labels (fst (step s (Direct, OAddLinear v b)))
    = if has_var s v then labels s else if is_bqm s then labels s ++ [v] else labels s.
Proof. exact order_add_linear. Qed.
Print Assumptions C04_order_append_on_first_use.

Theorem C04_order_delete_on_remove :
  forall s v, has_var s v = true ->
    labels (fst (step s (Direct, ORemoveVariable (Some v)))) = filter (fun w => negb (w =? v)%nat) (labels s).
Proof. exact order_remove_variable. Qed.
Print Assumptions C04_order_delete_on_remove.

Theorem C04_order_replace_on_relabel :
  forall s h m, relabel_ok m s = true -> labels (fst (step s (h, ORelabel m))) = map (lookup m) (labels s).
Proof. exact order_relabel. Qed.
Print Assumptions C04_order_replace_on_relabel.

(* ---------- well-formedness is an invariant of histories ---------- *)
(* partial: covers every call expressed through the primitive writes, on the base
   object and through view handles (add/set/remove linear and quadratic, *_from
   loops, add_variable, remove_variable(s), contract, flip, fix, scale with ignored
   sets, BQM.update, offset, clear); relabelling, change_vartype, resize, QM.update
   and QM variable/bound edits are not covered by the proof - for those `wfb` is
   evaluated on the model state after every call of every generated history. *)
Theorem C04_wf_step_partial :
  forall s h o, wf_covered o = true -> (match o with OUpdate _ => is_bqm s = true | _ => True end) ->
    wf s -> wf (fst (step s (h, o))).
Proof. exact wf_step_partial. Qed.
Print Assumptions C04_wf_step_partial.

Theorem C04_wf_reachable_partial :
  forall s l, wf s -> forallb (fun ho => hist_covered (snd ho)) l = true -> wf (run s l).
Proof. exact wf_reachable_partial. Qed.
Print Assumptions C04_wf_reachable_partial.

Theorem C04_wfb_sound : forall s, wfb s = true -> wf s.
Proof. exact wfb_sound. Qed.
Print Assumptions C04_wfb_sound.

(* ---------- non-vacuity ---------- *)
Definition ex_s0 : state :=
  mkSt (Some BINARY) [mkvar BINARY 0%nat; mkvar BINARY 1%nat]
       (mkPoly (qc 1 2) [(0%nat, qc 1 1); (1%nat, qc 2 1)] [(0%nat, 1%nat, qc 3 1)]).

Definition ex_hist : list (handle * op) :=
  [(Via SPIN, OAddQuadratic 1%nat 2%nat (qc 1 1)); (Direct, OContract 0%nat 1%nat);
   (Via SPIN, OFlip 2%nat); (Direct, ORemoveVariable None)].

Example C04_example_wf : wfb ex_s0 = true /\ wfb (run ex_s0 ex_hist) = true
                          /\ forallb (fun ho => hist_covered (snd ho)) ex_hist = true.
Proof. vm_compute. repeat split. Qed.

Example C04_example_contract_self_raises :
  step ex_s0 (Direct, OContract 0%nat 0%nat) = (ex_s0, Raised BValue).
Proof. vm_compute. reflexivity. Qed.
