(* C04 - Any edit history leaves a BQM/QM holding exactly the edited polynomial.
   Only statements; every proof is `exact <lemma>`.  The model (Model/Hist.v) is
   tied to the implementation by the correspondence check (Model/ChkC04.v). *)
From Coq Require Import List ZArith QArith Qcanon Bool Arith.
From Dimod Require Import Base.Util Model.Poly Model.View Model.Hist Model.ChkC04
  Proofs.PolyFacts Proofs.ViewFacts Proofs.HistFacts Proofs.HistWf Proofs.HistWf2 Proofs.HistAtomic
  Proofs.HistContract Proofs.HistAtomicQM Proofs.HistQmAtomic Proofs.HistQmPres Proofs.HistLoops Proofs.HistBqmReach Proofs.HistViewStep Proofs.HistViewStep2 Proofs.HistViewStep3 Proofs.HistContractView Gen.Gen_ViewWrites Proofs.HistGenTie2 Gen.Gen_QmLimits Gen.Gen_RelabelRules Proofs.HistGenTie Proofs.HistBackends Proofs.HistCoeffEq Proofs.HistCoeffScale.
From Dimod Require Model.Adj Proofs.AdjFacts.
Import ListNotations.
Open Scope Qc_scope.

(* ---------- read after write: each primitive edit changes exactly the coefficient it names ---------- *)
Theorem C04_read_add_linear :
  forall v b p w, lin_coeff (p_lin (add_linear v b p)) w = lin_coeff (p_lin p) w + (if (w =? v)%nat then b else 0).
Proof. exact lin_coeff_add_linear. Qed.
Print Assumptions C04_read_add_linear.

Theorem C04_read_set_linear :
  forall v b p w, lin_coeff (p_lin (set_linear v b p)) w = if (w =? v)%nat then b else lin_coeff (p_lin p) w.
Proof. exact lin_coeff_set_linear. Qed.
Print Assumptions C04_read_set_linear.

Theorem C04_read_add_quadratic :
  forall u v b p x y,
    quad_coeff (p_quad (push_quad u v b p)) x y = quad_coeff (p_quad p) x y + (if same_pair x y u v then b else 0).
Proof. exact quad_coeff_push. Qed.
Print Assumptions C04_read_add_quadratic.

Theorem C04_present_add_quadratic :
  forall u v b p x y, has_pair (p_quad (push_quad u v b p)) x y = same_pair x y u v || has_pair (p_quad p) x y.
Proof. exact has_pair_push. Qed.
Print Assumptions C04_present_add_quadratic.

Theorem C04_read_set_quadratic :
  forall u v b p x y,
    quad_coeff (p_quad (set_quadratic u v b p)) x y = if same_pair x y u v then b else quad_coeff (p_quad p) x y.
Proof. exact quad_coeff_set_quadratic. Qed.
Print Assumptions C04_read_set_quadratic.

Theorem C04_present_set_quadratic :
  forall u v b p x y, has_pair (p_quad (set_quadratic u v b p)) x y = same_pair x y u v || has_pair (p_quad p) x y.
Proof. exact has_pair_set_quadratic. Qed.
Print Assumptions C04_present_set_quadratic.

Theorem C04_read_remove_interaction :
  forall u v p x y,
    quad_coeff (p_quad (remove_interaction u v p)) x y = (if same_pair x y u v then 0 else quad_coeff (p_quad p) x y)
    /\ has_pair (p_quad (remove_interaction u v p)) x y = negb (same_pair x y u v) && has_pair (p_quad p) x y.
Proof. intros. split; [apply quad_coeff_remove_interaction|apply has_pair_remove_interaction]. Qed.
Print Assumptions C04_read_remove_interaction.

Theorem C04_interactions_unordered :
  forall q u v, quad_coeff q u v = quad_coeff q v u /\ has_pair q u v = has_pair q v u.
Proof. intros. split; [apply quad_coeff_sym|apply has_pair_sym]. Qed.
Print Assumptions C04_interactions_unordered.

Theorem C04_remove_variable_frame :
  forall v x y (l : list qterm), x <> v -> y <> v ->
    quad_coeff (filter (fun t => negb (mentions v t)) l) x y = quad_coeff l x y.
Proof. exact quad_coeff_remove_other. Qed.
Print Assumptions C04_remove_variable_frame.

Theorem C04_read_scale :
  forall k p w x y,
    lin_coeff (p_lin (scale k p)) w = k * lin_coeff (p_lin p) w
    /\ quad_coeff (p_quad (scale k p)) x y = k * quad_coeff (p_quad p) x y
    /\ has_pair (p_quad (scale k p)) x y = has_pair (p_quad p) x y.
Proof. intros. split; [apply lin_coeff_scale|split; [apply quad_coeff_scale|apply has_pair_scale]]. Qed.
Print Assumptions C04_read_scale.

Theorem C04_read_relabel :
  forall f p w, (forall t, In t (p_lin p) -> f (fst t) = f w -> fst t = w) ->
    lin_coeff (p_lin (relabel f p)) (f w) = lin_coeff (p_lin p) w.
Proof. exact lin_coeff_relabel. Qed.
Print Assumptions C04_read_relabel.

(* ---------- energy effects ---------- *)
Theorem C04_energy_add_quadratic_folds :
  forall vt u v b p s, respects vt s -> energy (add_quadratic vt u v b p) s = energy p s + b * s u * s v.
Proof. exact energy_add_quadratic. Qed.
Print Assumptions C04_energy_add_quadratic_folds.

Theorem C04_energy_flip :
  forall v p s, energy (flip_spin v p) s = energy p (upd s v (- s v))
             /\ energy (flip_binary v p) s = energy p (upd s v (1 - s v)).
Proof. intros. split; [apply flip_spin_energy|apply flip_binary_energy]. Qed.
Print Assumptions C04_energy_flip.

Theorem C04_energy_scale : forall k p s, energy (scale k p) s = k * energy p s.
Proof. exact energy_scale. Qed.
Print Assumptions C04_energy_scale.

Theorem C04_energy_fix : forall v a p s, energy (fix_variable v a p) s = energy p (upd s v a).
Proof. exact energy_fix_variable. Qed.
Print Assumptions C04_energy_fix.

Theorem C04_energy_relabel : forall f p s, energy (relabel f p) s = energy p (fun v => s (f v)).
Proof. exact energy_relabel. Qed.
Print Assumptions C04_energy_relabel.

Theorem C04_energy_offset : forall b p s, energy (set_off b p) s = energy p s - p_off p + b.
Proof. exact energy_set_off. Qed.
Print Assumptions C04_energy_offset.

(* QM.update adds the other polynomial, or (conflicting vartype / bounds on a shared label) does nothing *)
Theorem C04_update_is_padd :
  forall o s, existsb (vinfo_conflict s) (st_vars o) = false ->
    forall x, energy (st_poly (fst (m_update_qm o s))) x = energy (st_poly s) x + energy (st_poly o) x.
Proof. intros o s H x. rewrite (update_qm_is_padd o s H). apply energy_padd. Qed.
Print Assumptions C04_update_is_padd.

Theorem C04_update_conflict_noop :
  forall o s, existsb (vinfo_conflict s) (st_vars o) = true -> m_update_qm o s = (s, Raised BValue).
Proof. exact update_qm_conflict_noop. Qed.
Print Assumptions C04_update_conflict_noop.

(* a write through a .spin/.binary view adds the term in the view's own variables *)
Theorem C04_view_add_linear_energy :
  forall d v b base y,
    energy (view_add_linear d v b base) y = energy base y + b * view_value d (y v).
Proof. exact view_add_linear_energy. Qed.
Print Assumptions C04_view_add_linear_energy.

(* the same at the level of the public call (`step`), for a handle that really translates (vdir_of h s = Some d):
   the call succeeds and the base energy grows by the term in the view's variables; assigning the view's
   offset makes the view show exactly that offset *)
Theorem C04_view_step_add_linear :
  forall h d v b s y, B s -> vdir_of h s = Some d ->
    snd (step s (h, OAddLinear v b)) = Ok /\
    energy (st_poly (fst (step s (h, OAddLinear v b)))) y = energy (st_poly s) y + b * view_value d (y v).
Proof. exact view_step_add_linear. Qed.
Print Assumptions C04_view_step_add_linear.

Theorem C04_view_step_add_quadratic :
  forall h d u v b s y, B s -> vdir_of h s = Some d -> u <> v ->
    snd (step s (h, OAddQuadratic u v b)) = Ok /\
    energy (st_poly (fst (step s (h, OAddQuadratic u v b)))) y
    = energy (st_poly s) y + b * view_value d (y u) * view_value d (y v).
Proof. exact view_step_add_quadratic. Qed.
Print Assumptions C04_view_step_add_quadratic.

Theorem C04_view_step_set_offset :
  forall h d b s y, vdir_of h s = Some d ->
    snd (step s (h, OSetOffset b)) = Ok /\
    h_get_offset h s = energy (st_poly s) (fun _ => match d with BinOverSpin => - (1) | SpinOverBin => half end) /\
    energy (st_poly (fst (step s (h, OSetOffset b)))) y = energy (st_poly s) y - h_get_offset h s + b /\
    h_get_offset h (fst (step s (h, OSetOffset b))) = b.
Proof. exact view_step_set_offset. Qed.
Print Assumptions C04_view_step_set_offset.

(* set_quadratic through a translating handle makes the VIEW's coefficient of (u, v) equal to b (kqm d b on the base,
   vscale back), whatever it was; remove_interaction removes exactly the view's term *)
Theorem C04_view_step_set_quadratic :
  forall h d u v b s y, B s -> wf s -> vdir_of h s = Some d -> u <> v ->
    snd (step s (h, OSetQuadratic u v b)) = Ok /\
    energy (st_poly (fst (step s (h, OSetQuadratic u v b)))) y
    = energy (st_poly s) y + (b - vscale h s (quad s u v)) * view_value d (y u) * view_value d (y v) /\
    quad (fst (step s (h, OSetQuadratic u v b))) u v = kqm d b /\
    hasq (fst (step s (h, OSetQuadratic u v b))) u v = true.
Proof. exact view_step_set_quadratic. Qed.
Print Assumptions C04_view_step_set_quadratic.

Theorem C04_view_step_remove_interaction :
  forall h d u v s y, B s -> wf s -> vdir_of h s = Some d -> u <> v ->
    has_var s u = true -> has_var s v = true -> hasq s u v = true ->
    snd (step s (h, ORemoveInteraction u v)) = Ok /\
    energy (st_poly (fst (step s (h, ORemoveInteraction u v)))) y
    = energy (st_poly s) y - vscale h s (quad s u v) * view_value d (y u) * view_value d (y v) /\
    hasq (fst (step s (h, ORemoveInteraction u v))) u v = false.
Proof. exact view_step_remove_interaction. Qed.
Print Assumptions C04_view_step_remove_interaction.

(* set_linear through a translating handle: afterwards the VIEW's linear bias of v (which involves the sum over v's
   neighbourhood on the base) is exactly b *)
Theorem C04_view_step_set_linear :
  forall h d v b s y, B s -> vdir_of h s = Some d -> has_var s v = true ->
    snd (step s (h, OSetLinear v b)) = Ok /\
    energy (st_poly (fst (step s (h, OSetLinear v b)))) y
    = energy (st_poly s) y + (b - opt0 (h_get_linear h v s)) * view_value d (y v) /\
    h_get_linear h v (fst (step s (h, OSetLinear v b))) = Some b.
Proof. exact view_step_set_linear. Qed.
Print Assumptions C04_view_step_set_linear.

(* remove_variable through a translating handle: the result is the model with the VIEW's variable v set to 0
   (base value zp d: -1 under a binary view of a spin model, 1/2 under a spin view of a binary model) *)
Theorem C04_view_step_remove_variable :
  forall h d v s y, B s -> wf s -> vdir_of h s = Some d -> has_var s v = true ->
    snd (step s (h, ORemoveVariable (Some v))) = Ok /\
    energy (st_poly (fst (step s (h, ORemoveVariable (Some v))))) y = energy (st_poly s) (upd y v (zp d)).
Proof. exact view_step_remove_variable. Qed.
Print Assumptions C04_view_step_remove_variable.

Theorem C04_view_scale_roundtrip :
  forall h d s b, vdir_of h s = Some d -> vscale h s (kqm d b) = b /\ kqm d (vscale h s b) = b.
Proof. intros h d s b D. split; [apply vscale_kqm; exact D|apply kqm_vscale; exact D]. Qed.
Print Assumptions C04_view_scale_roundtrip.

(* ---------- a raising call changes nothing ---------- *)
(* `atomic o`: every call except the documented loops (add_linear_from, add_quadratic_from,
   remove_variables_from, remove_interactions_from, add_variables_from), which stop at the
   first error and keep the effect so far.  For a well-formed BQM: every atomic call, on the
   base object or through any .spin/.binary handle (an update operand must be a well-formed BQM). *)
Theorem C04_failed_op_is_noop :
  forall s h o e, B s -> wf s -> atomic o = true -> op_ok_bqm o ->
    snd (step s (h, o)) = Raised e -> fst (step s (h, o)) = s.
Proof. exact failed_op_is_noop_bqm. Qed.
Print Assumptions C04_failed_op_is_noop.

(* any state (BQM or QM, no well-formedness needed), base object, calls decided before the first write *)
Theorem C04_failed_op_is_noop_direct :
  forall s o e, simple_op o = true -> snd (step s (Direct, o)) = Raised e -> fst (step s (Direct, o)) = s.
Proof. exact failed_op_is_noop_direct. Qed.
Print Assumptions C04_failed_op_is_noop_direct.

Theorem C04_qm_update_is_noop_on_conflict :
  forall o s e, snd (m_update_qm o s) = Raised e -> fst (m_update_qm o s) = s.
Proof. exact noop_m_update_qm. Qed.
Print Assumptions C04_qm_update_is_noop_on_conflict.

Theorem C04_conflicting_relabel_is_noop :
  forall s h m, relabel_ok m s = false -> step s (h, ORelabel m) = (s, Raised BValue).
Proof. exact order_relabel_rejected. Qed.
Print Assumptions C04_conflicting_relabel_is_noop.

(* ---------- read paths are functions of the polynomial and agree with each other ---------- *)
Theorem C04_read_paths_consistent :
  forall q vs, (sumdeg_in q vs + nself_in q vs = 2 * nint_in q vs)%nat.
Proof. exact read_paths_consistent. Qed.
Print Assumptions C04_read_paths_consistent.

Theorem C04_is_linear_iff : forall s, is_linear s = true <-> num_interactions s = 0%nat.
Proof. exact is_linear_iff_no_interaction. Qed.
Print Assumptions C04_is_linear_iff.

(* ---------- the variable order is the order a python list would have ---------- *)
Theorem C04_order_append_on_first_use :
  forall s v b, labels (fst (step s (Direct, OAddLinear v b)))
    = if has_var s v then labels s else if is_bqm s then labels s ++ [v] else labels s.
Proof. exact order_add_linear. Qed.
Print Assumptions C04_order_append_on_first_use.

Theorem C04_order_delete_on_remove :
  forall s v, has_var s v = true ->
    labels (fst (step s (Direct, ORemoveVariable (Some v)))) = filter (fun w => negb (w =? v)%nat) (labels s).
Proof. exact order_remove_variable. Qed.
Print Assumptions C04_order_delete_on_remove.

Theorem C04_order_replace_on_relabel :
  forall s h m, relabel_ok m s = true -> labels (fst (step s (h, ORelabel m))) = map (lookup m) (labels s).
Proof. exact order_relabel. Qed.
Print Assumptions C04_order_replace_on_relabel.

(* ---------- well-formedness is an invariant of histories ---------- *)
(* every call of the model - including relabelling with swaps and cycles (array order and
   dict order), change_vartype, resize, QuadraticModel.update, QM variable creation and bound
   edits - on the base object or through a view handle.  The only side condition: the operand
   of update(other) is itself a well-formed model. *)
Theorem C04_wf_step :
  forall s h o, op_wf o -> wf s -> wf (fst (step s (h, o))).
Proof. exact wf_step. Qed.
Print Assumptions C04_wf_step.

Theorem C04_wf_reachable :
  forall s l, wf s -> Forall (fun ho => op_wf (snd ho)) l -> wf (run s l).
Proof. exact wf_reachable. Qed.
Print Assumptions C04_wf_reachable.

Theorem C04_wf_empty : forall k, (forall vt, k = Some vt -> is_sb vt = true) -> wf (mkSt k [] pzero).
Proof. exact wf_empty. Qed.
Print Assumptions C04_wf_empty.

Theorem C04_relabel_injective_on_variables :
  forall m s x y, relabel_ok m s = true -> In x (labels s) -> In y (labels s) -> lookup m x = lookup m y -> x = y.
Proof. exact lookup_inj. Qed.
Print Assumptions C04_relabel_injective_on_variables.

Theorem C04_wfb_sound : forall s, wfb s = true -> wf s.
Proof. exact wfb_sound. Qed.
Print Assumptions C04_wfb_sound.

(* ---------- the sorted symmetric adjacency of abc.h (index level, Model/Adj.v) ---------- *)
(* every model reachable from the empty one by any sequence of abc.h calls keeps the invariant
   (lengths agree, neighbourhoods strictly sorted, symmetric with equal biases, no self-loop on
   SPIN/BINARY), and its reads obey the same read-after-write laws as the polynomial above *)
Theorem C04_adj_inv_reachable :
  forall ops, Dimod.Model.Adj.Inv (fold_left Dimod.Proofs.AdjFacts.cstep ops Dimod.Model.Adj.empty_qm).
Proof. exact Dimod.Proofs.AdjFacts.inv_reachable. Qed.
Print Assumptions C04_adj_inv_reachable.

Theorem C04_adj_read_add_quadratic :
  forall m u v b x y,
    length (Dimod.Model.Adj.adj m) = Dimod.Model.Adj.nvars m -> (u < Dimod.Model.Adj.nvars m)%nat -> (v < Dimod.Model.Adj.nvars m)%nat ->
    Dimod.Model.Adj.quadratic (Dimod.Model.Adj.add_quadratic u v b m) x y =
    Dimod.Model.Adj.quadratic m x y + (if Dimod.Proofs.AdjRW.aq_hit m u v x y then b else 0).
Proof. exact Dimod.Proofs.AdjRW.quadratic_add_quadratic. Qed.
Print Assumptions C04_adj_read_add_quadratic.

Theorem C04_adj_read_set_quadratic :
  forall m m' u v b x y,
    length (Dimod.Model.Adj.adj m) = Dimod.Model.Adj.nvars m -> (u < Dimod.Model.Adj.nvars m)%nat -> (v < Dimod.Model.Adj.nvars m)%nat ->
    Dimod.Model.Adj.set_quadratic u v b m = Some m' ->
    Dimod.Model.Adj.quadratic m' x y = if same_pair x y u v then b else Dimod.Model.Adj.quadratic m x y.
Proof. exact Dimod.Proofs.AdjRW.quadratic_set_quadratic. Qed.
Print Assumptions C04_adj_read_set_quadratic.

Theorem C04_adj_read_remove_interaction :
  forall m u v x y, Dimod.Model.Adj.Inv m ->
    Dimod.Model.Adj.quadratic (fst (Dimod.Model.Adj.remove_interaction u v m)) x y =
    if same_pair x y u v then 0 else Dimod.Model.Adj.quadratic m x y.
Proof. exact Dimod.Proofs.AdjRW.quadratic_remove_interaction. Qed.
Print Assumptions C04_adj_read_remove_interaction.

Theorem C04_adj_symmetric :
  forall m u v, Dimod.Model.Adj.Inv m -> Dimod.Model.Adj.quadratic m u v = Dimod.Model.Adj.quadratic m v u.
Proof. exact Dimod.Proofs.AdjRW.quadratic_sym. Qed.
Print Assumptions C04_adj_symmetric.

(* the adjacency structure and its polynomial abstraction have the same energy *)
Theorem C04_adj_energy_is_poly_energy :
  forall m s, Dimod.Model.Adj.Inv m -> Dimod.Model.Adj.energy_adj m s = energy (Dimod.Model.Adj.abs m) s.
Proof. exact Dimod.Proofs.AdjEnergy.energy_adj_abs. Qed.
Print Assumptions C04_adj_energy_is_poly_energy.

(* ---------- contract_variables ---------- *)
(* the public method is a loop over primitive writes; `contract_poly` is that loop on the polynomial,
   the model's step computes exactly it, and the result's energy at y is the original's at y[v := y[u]]
   (the merged variable's self interaction reduced by the vartype's rule) *)
Theorem C04_contract_energy :
  forall u v s y, B s -> wf s -> has_var s u = true -> has_var s v = true -> u <> v ->
    (match bvt s with BINARY => y u * y u = y u | _ => y u * y u = 1 end) ->
    snd (step s (Direct, OContract u v)) = Ok /\
    energy (st_poly (fst (step s (Direct, OContract u v)))) y = energy (st_poly s) (upd y v (y u)).
Proof. exact contract_energy. Qed.
Print Assumptions C04_contract_energy.

Theorem C04_contract_step_is_loop :
  forall u v s, B s -> wf s -> has_var s u = true -> has_var s v = true -> u <> v ->
    step s (Direct, OContract u v)
    = ok (mkSt (st_kind s) (filter (fun i => negb (v_lab i =? v)%nat) (st_vars s))
               (contract_poly (bvt s) (labels s) u v (st_poly s))).
Proof. exact contract_step_is_contract_poly. Qed.
Print Assumptions C04_contract_step_is_loop.

(* ---------- QuadraticModel: the looping methods ---------- *)
Theorem C04_qm_fix_is_noop_on_failure :
  forall v a s e, snd (m_fix Direct v a s) = Raised e -> fst (m_fix Direct v a s) = s.
Proof. exact noop_m_fix_qm. Qed.
Print Assumptions C04_qm_fix_is_noop_on_failure.

Theorem C04_qm_add_linear_default_is_noop_on_failure :
  forall v b vt lb ub s e, snd (q_add_linear_dflt v b vt lb ub s) = Raised e -> fst (q_add_linear_dflt v b vt lb ub s) = s.
Proof. exact noop_q_add_linear_dflt. Qed.
Print Assumptions C04_qm_add_linear_default_is_noop_on_failure.

(* flip_variable is all-or-nothing provided no neighbour of v is a REAL variable ... *)
Theorem C04_qm_flip_is_noop_on_failure :
  forall v s, st_kind s = None -> wf s -> no_real_nb s v ->
    forall e, snd (m_flip Direct v s) = Raised e -> fst (m_flip Direct v s) = s.
Proof. exact noop_m_flip_qm. Qed.
Print Assumptions C04_qm_flip_is_noop_on_failure.

(* ... and is not otherwise: set_quadratic refuses the REAL neighbour after earlier neighbours were
   rewritten (the same partial write happens in dimod, see KNOWN_FINDINGS / corpus d9) *)
Theorem C04_qm_flip_refuted :
  wfb flip_cex = true /\ snd (step flip_cex (Direct, OFlip 0%nat)) = Raised BValue
  /\ poly_coeff_eqb 3 (st_poly (fst (step flip_cex (Direct, OFlip 0%nat)))) (st_poly flip_cex) = false.
Proof. exact flip_qm_refuted. Qed.
Print Assumptions C04_qm_flip_refuted.

(* ---------- QuadraticModel: EVERY atomic call, in every reachable state ---------- *)
(* invariant qm_inv: QM kind, well formed, no interaction mentions a REAL variable (what add_quadratic / set_quadratic
   enforce while dimod.REAL_INTERACTIONS is False).  In a state satisfying qm_inv every atomic call (all but the
   documented *_from loops) that raises leaves the model unchanged - flip_variable, scale with ignored sets and
   fix_variable included: their loops over existing interactions cannot raise. *)
Theorem C04_qm_failed_op_is_noop :
  forall s o e, Q s -> wf s -> no_real_inter s -> atomic o = true ->
    snd (step s (Direct, o)) = Raised e -> fst (step s (Direct, o)) = s.
Proof. exact failed_op_is_noop_qm. Qed.
Print Assumptions C04_qm_failed_op_is_noop.

(* qm_inv is preserved by every call (the looping ones included); the operand of update(other) must itself be
   well formed and free of REAL interactions - exactly what open finding d9 violates by toggling the flag *)
Theorem C04_qm_invariant_step :
  forall s o, op_ok_qm o -> qm_inv s -> qm_inv (fst (step s (Direct, o))).
Proof. exact qm_inv_step. Qed.
Print Assumptions C04_qm_invariant_step.

Theorem C04_qm_invariant_empty : qm_inv (mkSt None [] pzero).
Proof. exact I_clear. Qed.
Print Assumptions C04_qm_invariant_empty.

(* the two executable tests the check evaluates on every state a history reaches establish the invariant *)
Theorem C04_qm_checked_state_is_good : forall s, Q s -> wfb s = true -> nrib s = true -> qm_inv s.
Proof. exact checked_state_is_good. Qed.
Print Assumptions C04_qm_checked_state_is_good.

(* hence: after ANY history of calls on a QuadraticModel, a raising atomic call is a no-op *)
Theorem C04_qm_reachable_failed_op_is_noop :
  forall s l o e, qm_inv s -> qm_hist_ok l -> atomic o = true ->
    snd (step (run s l) (Direct, o)) = Raised e -> fst (step (run s l) (Direct, o)) = run s l.
Proof. exact qm_reachable_failed_op_is_noop. Qed.
Print Assumptions C04_qm_reachable_failed_op_is_noop.

(* ---------- the documented loops: a raising call keeps exactly the effect of a successful prefix ---------- *)
(* `take_op k o` is the same call on the first k elements of its argument.  If add_linear_from /
   add_quadratic_from / remove_variables_from / remove_interactions_from (base object or any view handle)
   raises, the model is left exactly as the call on a proper prefix - which succeeds - leaves it: the loop
   stopped at the first offending element and that element changed nothing. *)
Theorem C04_failed_loop_keeps_prefix :
  forall s h o e, B s -> wf s -> bqm_loop o = true -> snd (step s (h, o)) = Raised e ->
    exists k, (k < arg_length o)%nat /\ snd (step s (h, take_op k o)) = Ok
              /\ fst (step s (h, o)) = fst (step s (h, take_op k o)).
Proof. exact failed_loop_keeps_prefix_bqm. Qed.
Print Assumptions C04_failed_loop_keeps_prefix.

(* the same for all six loops of a QuadraticModel (add_variables_from and add_linear_from with defaults included) *)
Theorem C04_qm_failed_loop_keeps_prefix :
  forall s o e, qm_inv s -> atomic o = false -> snd (step s (Direct, o)) = Raised e ->
    exists k, (k < arg_length o)%nat /\ snd (step s (Direct, take_op k o)) = Ok
              /\ fst (step s (Direct, o)) = fst (step s (Direct, take_op k o)).
Proof. exact failed_loop_keeps_prefix_qm. Qed.
Print Assumptions C04_qm_failed_loop_keeps_prefix.

(* ---------- whole histories of a BinaryQuadraticModel ---------- *)
(* `B s /\ wf s` is preserved by every call, on the base object or through any (fresh or stale) view handle;
   so after ANY history a raising atomic call is a no-op and a raising loop keeps a successful prefix *)
Theorem C04_bqm_invariant_step :
  forall s h o, op_ok_bqm o -> B s /\ wf s -> B (fst (step s (h, o))) /\ wf (fst (step s (h, o))).
Proof. exact bqm_inv_step. Qed.
Print Assumptions C04_bqm_invariant_step.

Theorem C04_bqm_reachable_failed_op_is_noop :
  forall s l h o e, B s -> wf s -> bqm_hist_ok l -> atomic o = true -> op_ok_bqm o ->
    snd (step (run s l) (h, o)) = Raised e -> fst (step (run s l) (h, o)) = run s l.
Proof. exact bqm_reachable_failed_op_is_noop. Qed.
Print Assumptions C04_bqm_reachable_failed_op_is_noop.

Theorem C04_bqm_reachable_failed_loop_keeps_prefix :
  forall s l h o e, B s -> wf s -> bqm_hist_ok l -> bqm_loop o = true ->
    snd (step (run s l) (h, o)) = Raised e ->
    exists k, (k < arg_length o)%nat /\ snd (step (run s l) (h, take_op k o)) = Ok
              /\ fst (step (run s l) (h, o)) = fst (step (run s l) (h, take_op k o)).
Proof. exact bqm_reachable_failed_loop_keeps_prefix. Qed.
Print Assumptions C04_bqm_reachable_failed_loop_keeps_prefix.

(* ---------- ties to the source ---------- *)
Theorem C04_limits_from_source :
  forall vt, dflt_lb vt = gen_dflt_lb vt /\ dflt_ub vt = gen_dflt_ub vt /\ vt_min vt = gen_vt_min vt /\ vt_max vt = gen_vt_max vt.
Proof. exact limits_from_source. Qed.
Print Assumptions C04_limits_from_source.

(* ---------- the storage back-ends ---------- *)
Theorem C04_backends_same_step :
  forall s h o,
    snd (step s (h, py_op o)) = snd (step s (h, o))
    /\ st_poly (fst (step s (h, py_op o))) = st_poly (fst (step s (h, o)))
    /\ st_kind (fst (step s (h, py_op o))) = st_kind (fst (step s (h, o)))
    /\ forall i, In i (st_vars (fst (step s (h, py_op o)))) <-> In i (st_vars (fst (step s (h, o)))).
Proof. exact backends_same_step. Qed.
Print Assumptions C04_backends_same_step.

(* ---------- array order vs dict order over whole histories ---------- *)
(* `sim`: both are BQMs of the same vartype holding the same polynomial and the same set of variable
   records (the orders may differ).  For every history of calls that do not consult the variable order
   (`order_free`: primitive writes, the *_from loops, named removals, relabel_variables, offset, clear,
   plain scale; through handles where the call does not read a neighbourhood sum), run with the array
   rule on s and the dict rule on s': the outcomes agree call by call and the final states are related. *)
Theorem C04_backends_indistinguishable :
  forall l s s', forallb order_free l = true -> sim s s' ->
    outcomes s l = outcomes s' (py_hist l) /\ sim (run s l) (run s' (py_hist l)).
Proof. exact backends_indistinguishable. Qed.
Print Assumptions C04_backends_indistinguishable.

Theorem C04_backends_same_polynomial :
  forall l s, is_bqm s = true -> forallb order_free l = true ->
    st_poly (run s l) = st_poly (run s (py_hist l))
    /\ (forall i, In i (st_vars (run s l)) <-> In i (st_vars (run s (py_hist l)))).
Proof. exact backends_same_polynomial. Qed.
Print Assumptions C04_backends_same_polynomial.

(* how the order-consulting calls diverge: they act on the last / the i-th / the first k variables of the respective order *)
Theorem C04_pop_is_remove_last :
  forall h s, step s (h, ORemoveVariable None)
    = match last_label s with Some v => step s (h, ORemoveVariable (Some v)) | None => raise BValue s end.
Proof. exact pop_is_remove_last. Qed.
Print Assumptions C04_pop_is_remove_last.

Theorem C04_relabel_ints_is_positional :
  forall h ints s, step s (h, ORelabelInts ints) = step s (h, ORelabel (combine (labels s) ints)).
Proof. exact relabel_ints_is_positional. Qed.
Print Assumptions C04_relabel_ints_is_positional.

Theorem C04_resize_shrink_keeps_prefix :
  forall h n fresh s, is_bqm s = true -> (0 <= n)%Z -> (Z.to_nat n <= num_variables s)%nat ->
    st_vars (fst (step s (h, OResize n fresh))) = firstn (Z.to_nat n) (st_vars s).
Proof. exact resize_shrink_keeps_prefix. Qed.
Print Assumptions C04_resize_shrink_keeps_prefix.

(* ---------- coefficient equivalence: the back-ends over histories of the order-insensitive calls ---------- *)
(* `ceq s s'`: same kind, same SET of variable records, same offset, same linear bias per variable, same bias per
   unordered pair, same set of interactions present - the order of the variables and of the stored terms is free.
   Equivalently (C04_coefficient_equivalence_iff_energy): same kind / variables / interaction set and the same energy
   on every sample.  `R s s'`: both are well-formed BQMs and ceq.
   `ceq_ok_all`: EVERY call of the model, on the base object or through any
   .spin/.binary handle (translating or not) - primitive writes, *_from loops, named remove_variable, remove_interaction,
   contract_variables, flip_variable, fix_variable, update, change_vartype, relabel_variables, offset, clear, scale in every
   form (ignored_variables / ignored_interactions / ignore_offset, through handles) and the QuadraticModel-only calls
   (refused at once) - EXCEPT the calls that address a variable by its POSITION in the order (pop, resize,
   relabel_variables_as_integers: refuted below); C04_covered_calls_exclude_only_positional says that nothing else is left out.
   The loops of flip / fix / contract / remove_variable-through-a-view / scale run over differently ordered neighbourhoods,
   variable lists and pair lists (the latter also differently ORIENTED) on the two sides; the proof shows that their steps
   never raise, commute up to ceq and do not depend on the orientation of a pair. *)
Theorem C04_backends_equivalent_histories :
  forall l s s', forallb ceq_ok_all l = true -> B s -> wf s -> B s' -> wf s' -> ceq s s' ->
    outcomes s l = outcomes s' l /\ ceq (run s l) (run s' l)
    /\ forall y, energy (st_poly (run s l)) y = energy (st_poly (run s' l)) y.
Proof. exact ceq_histories_all_energy. Qed.
Print Assumptions C04_backends_equivalent_histories.

(* the same with the dict-order discipline of the object-dtype back-end on the right (relabel_variables re-inserts the
   relabelled variables at the end): generalises C04_backends_indistinguishable from `sim` (same term list) to `ceq` *)
Theorem C04_backends_equivalent_histories_dict_order :
  forall l s s', forallb ceq_ok_all l = true -> R s s' ->
    outcomes s l = outcomes s' (py_hist l) /\ R (run s l) (run s' (py_hist l)).
Proof. exact ceq_histories_all_py. Qed.
Print Assumptions C04_backends_equivalent_histories_dict_order.

Theorem C04_backends_equivalent_step :
  forall s s' ho, ceq_ok_all ho = true -> R s s' -> Rr (step s ho) (step s' ho).
Proof. exact ceq_step_all. Qed.
Print Assumptions C04_backends_equivalent_step.

(* one lemma per looping call *)
Theorem C04_equivalent_flip : forall h v s s', R s s' -> Rr (m_flip h v s) (m_flip h v s').
Proof. exact Rr_m_flip. Qed.
Print Assumptions C04_equivalent_flip.
Theorem C04_equivalent_fix : forall h v a s s', R s s' -> Rr (m_fix h v a s) (m_fix h v a s').
Proof. exact Rr_m_fix. Qed.
Print Assumptions C04_equivalent_fix.
Theorem C04_equivalent_contract : forall h u v s s', R s s' -> Rr (m_contract h u v s) (m_contract h u v s').
Proof. exact Rr_m_contract. Qed.
Print Assumptions C04_equivalent_contract.
Theorem C04_equivalent_update : forall h o s s', R s s' -> Rr (m_update_bqm h o s) (m_update_bqm h o s').
Proof. exact Rr_m_update_bqm. Qed.
Print Assumptions C04_equivalent_update.
Theorem C04_equivalent_change_vartype :
  forall h vt s s', R s s' -> Rr (step s (h, OChangeVartype vt)) (step s' (h, OChangeVartype vt)).
Proof. exact Rr_change_vartype. Qed.
Print Assumptions C04_equivalent_change_vartype.
Theorem C04_equivalent_remove_variable_any_handle :
  forall h v s s', R s s' -> Rr (h_remove_variable h (Some v) s) (h_remove_variable h (Some v) s').
Proof. exact Rr_h_remove_variable_some. Qed.
Print Assumptions C04_equivalent_remove_variable_any_handle.
Theorem C04_equivalent_set_linear_any_handle :
  forall h v b s s', R s s' -> Rr (h_set_linear h v b s) (h_set_linear h v b s').
Proof. exact Rr_h_set_linear. Qed.
Print Assumptions C04_equivalent_set_linear_any_handle.

(* scale: every argument combination, every handle *)
Theorem C04_equivalent_scale :
  forall h k iv ii io s s', R s s' -> Rr (m_scale h k iv ii io s) (m_scale h k iv ii io s').
Proof. exact Rr_m_scale. Qed.
Print Assumptions C04_equivalent_scale.

(* the three facts behind it: set_quadratic (base object or view) does not depend on the orientation of the pair ... *)
Theorem C04_set_quadratic_orientation :
  forall h u w c a, B a -> u <> w -> has_var a u = true -> has_var a w = true ->
    snd (h_set_quadratic h u w c a) = Ok /\ snd (h_set_quadratic h w u c a) = Ok
    /\ ceq (fst (h_set_quadratic h u w c a)) (fst (h_set_quadratic h w u c a)).
Proof. exact set_quadratic_orientation. Qed.
Print Assumptions C04_set_quadratic_orientation.

(* ... iter_quadratic lists every unordered interaction exactly once (np = the pair with its smaller label first) ... *)
Theorem C04_pairs_listed_exactly_once :
  forall q vs, NoDup vs -> (forall v, In v vs -> has_pair q v v = false) -> NoDup (map np (pairs_in q vs)).
Proof. exact pairs_in_once. Qed.
Print Assumptions C04_pairs_listed_exactly_once.

(* ... and the lists of two equivalent states are permutations of each other up to flipping elements *)
Theorem C04_pairs_permutation_up_to_flip : forall s s', R s s' -> PermF (pairs s) (pairs s').
Proof. exact pairs_permF. Qed.
Print Assumptions C04_pairs_permutation_up_to_flip.

Theorem C04_covered_calls_exclude_only_positional :
  forall ho, ceq_ok_all ho = false ->
    match snd ho with
    | ORemoveVariable None | OResize _ _ | ORelabelInts _ | ORelabelPy _ | ORelabelIntsPy _ => True
    | _ => False
    end.
Proof. exact ceq_ok_all_excludes. Qed.
Print Assumptions C04_covered_calls_exclude_only_positional.

Example C04_example_equivalent_scale_history :
  forallb ceq_ok_all ex_shist = true /\ outcomes ex_ca ex_shist = [Ok; Ok; Ok]
  /\ ceqb 6 (run ex_ca ex_shist) (run ex_cb ex_shist) = true
  /\ st_poly (run ex_ca ex_shist) <> st_poly (run ex_cb ex_shist)
  /\ pairs ex_ca <> pairs ex_cb.
Proof. exact ex_scale_history. Qed.

Theorem C04_coefficient_equivalence_iff_energy :
  forall s s', ceq s s' <->
    (st_kind s = st_kind s' /\ (forall i, In i (st_vars s) <-> In i (st_vars s')) /\ (forall u v, hasq s u v = hasq s' u v)
     /\ forall y, energy (st_poly s) y = energy (st_poly s') y).
Proof. exact ceq_iff_energy. Qed.
Print Assumptions C04_coefficient_equivalence_iff_energy.

(* the positional calls act on the last / first k / i-th variable of the respective order: from two coefficient-equivalent
   states they produce different polynomials, so they are (rightly) outside ceq_ok *)
Theorem C04_pop_breaks_equivalence_refuted :
  wfb pop_a = true /\ wfb pop_b = true /\ ceq pop_a pop_b
  /\ lin (fst (step pop_a (Direct, ORemoveVariable None))) 0%nat <> lin (fst (step pop_b (Direct, ORemoveVariable None))) 0%nat.
Proof. exact ceq_pop_refuted. Qed.
Print Assumptions C04_pop_breaks_equivalence_refuted.

Theorem C04_positional_calls_break_equivalence_refuted :
  lin (fst (step pop_a (Direct, OResize 1%Z []))) 0%nat <> lin (fst (step pop_b (Direct, OResize 1%Z []))) 0%nat
  /\ lin (fst (step pop_a (Direct, ORelabelInts [7%nat; 8%nat]))) 7%nat <> lin (fst (step pop_b (Direct, ORelabelInts [7%nat; 8%nat]))) 7%nat.
Proof. exact ceq_positional_refuted. Qed.
Print Assumptions C04_positional_calls_break_equivalence_refuted.

(* non-vacuity: different variable orders and term lists, a history through neighbourhood loops and translating views *)
Example C04_example_equivalent_history :
  wfb ex_ca = true /\ wfb ex_cb = true /\ ceqb 6 ex_ca ex_cb = true /\ forallb ceq_ok ex_chist = true
  /\ outcomes ex_ca ex_chist = [Ok; Ok; Ok; Ok; Ok; Ok; Ok]
  /\ labels (run ex_ca ex_chist) = [5%nat] /\ ceqb 6 (run ex_ca ex_chist) (run ex_cb (py_hist ex_chist)) = true
  /\ st_poly (run ex_ca ex_chist) <> st_poly (run ex_cb (py_hist ex_chist)).
Proof. exact ex_ceq_history. Qed.

(* ---------- contraction through a handle whose vartype coincides with the base's ---------- *)
Theorem C04_contract_energy_same_vartype_handle :
  forall h u v s y, vdir_of h s = None ->
    B s -> wf s -> has_var s u = true -> has_var s v = true -> u <> v ->
    (match bvt s with BINARY => y u * y u = y u | _ => y u * y u = 1 end) ->
    snd (step s (h, OContract u v)) = Ok /\
    energy (st_poly (fst (step s (h, OContract u v)))) y = energy (st_poly s) (upd y v (y u)).
Proof. exact contract_energy_same_vartype_handle. Qed.
Print Assumptions C04_contract_energy_same_vartype_handle.

(* ---------- contraction through a TRANSLATING view, and through every handle ---------- *)
(* vdir_of h s = Some d: the handle's vartype differs from the base's; the code path is the view's own loop of translated
   writes (get_linear through neighbourhood sums, set_quadratic / remove_interaction / remove_variable through the view).
   The base energy of the result at y is the original's at y[v := y[u]], for y[u] obeying the BASE vartype's rule
   (equivalently: the view's polynomial with the view's variables of u and v merged under the VIEW's rule). *)
Theorem C04_contract_energy_translating_handle :
  forall h d u v s y,
    B s -> wf s -> vdir_of h s = Some d -> has_var s u = true -> has_var s v = true -> u <> v ->
    (match d with BinOverSpin => hvt h s = BINARY | SpinOverBin => hvt h s <> BINARY end) ->
    (match d with BinOverSpin => y u * y u = 1 | SpinOverBin => y u * y u = y u end) ->
    snd (step s (h, OContract u v)) = Ok /\
    energy (st_poly (fst (step s (h, OContract u v)))) y = energy (st_poly s) (upd y v (y u)).
Proof. exact contract_energy_view. Qed.
Print Assumptions C04_contract_energy_translating_handle.

(* the base object and every .spin / .binary handle, translating or not *)
Theorem C04_contract_energy_any_handle :
  forall h u v s y,
    (match h with Direct => True | Via wv => is_sb wv = true end) ->
    B s -> wf s -> has_var s u = true -> has_var s v = true -> u <> v ->
    (match bvt s with BINARY => y u * y u = y u | _ => y u * y u = 1 end) ->
    snd (step s (h, OContract u v)) = Ok /\
    energy (st_poly (fst (step s (h, OContract u v)))) y = energy (st_poly s) (upd y v (y u)).
Proof. exact contract_energy_any_handle. Qed.
Print Assumptions C04_contract_energy_any_handle.

(* ---------- error conditions generated from the source ---------- *)
Theorem C04_relabel_rule_from_source : forall m s, relabel_ok m s = negb (gen_relabel_raises m s).
Proof. exact relabel_rule_from_source. Qed.
Print Assumptions C04_relabel_rule_from_source.

Theorem C04_relabel_raises_iff :
  forall m s h, snd (step s (h, ORelabel m)) = (if gen_relabel_raises m s then Raised BValue else Ok).
Proof. exact relabel_raises_iff. Qed.
Print Assumptions C04_relabel_raises_iff.

Theorem C04_resize_raises_iff :
  forall n fresh s h, is_bqm s = true ->
    snd (step s (h, OResize n fresh)) = (if gen_resize_raises n then Raised BValue else Ok).
Proof. exact resize_raises_iff. Qed.
Print Assumptions C04_resize_raises_iff.

(* the alternative spellings of an edit (linear[v] = b, del quadratic[u, v], adj[u][v] = b, model *= k, model /= k,
   model += b, model -= b) forward to the methods the correspondence renders them as - read off the source *)
Theorem C04_spellings_from_source :
  gen_linear_setitem = WSetLinear /\ gen_linear_delitem = WRemoveVariableKeyError
  /\ gen_quadratic_setitem = WSetQuadratic /\ gen_quadratic_delitem = WRemoveInteractionKeyError
  /\ gen_neighborhood_setitem = WSetQuadratic
  /\ gen_bqm_imul = WScale /\ gen_bqm_itruediv = WScaleInverse /\ gen_bqm_iadd_number = WOffsetAdd /\ gen_bqm_isub_number = WOffsetSub
  /\ gen_qm_imul = WScale /\ gen_qm_itruediv = WScaleInverse /\ gen_qm_iadd_number = WOffsetAdd /\ gen_qm_isub_number = WOffsetSub.
Proof. exact spellings_forward_as_assumed. Qed.
Print Assumptions C04_spellings_from_source.

(* ---------- non-vacuity ---------- *)
Definition ex_s0 : state :=
  mkSt (Some BINARY) [mkvar BINARY 0%nat; mkvar BINARY 1%nat]
       (mkPoly (qc 1 2) [(0%nat, qc 1 1); (1%nat, qc 2 1)] [(0%nat, 1%nat, qc 3 1)]).

Definition ex_hist : list (handle * op) :=
  [(Via SPIN, OAddQuadratic 1%nat 2%nat (qc 1 1)); (Direct, OContract 0%nat 1%nat);
   (Via SPIN, OFlip 2%nat); (Direct, ORemoveVariable None)].

Example C04_example_wf : wfb ex_s0 = true /\ wfb (run ex_s0 ex_hist) = true
                          /\ forallb (fun ho => atomic (snd ho)) ex_hist = true.
Proof. vm_compute. repeat split. Qed.

Example C04_example_contract_self_raises :
  step ex_s0 (Direct, OContract 0%nat 0%nat) = (ex_s0, Raised BValue).
Proof. vm_compute. reflexivity. Qed.
