(* C10 - a truncated model file never loads as a different model.

   psafeT d e a t :  every proper prefix of the encoding e is rejected by the decoder d, or - only from
   byte t on - accepted with the very value a and nothing left over (only trailing padding was lost).
   Proved for all inputs: header framing, section framing, the whole BQM body (every cut inside it is an
   error), and the composition rule for sequences of such parts (the shape of every dimod file).
   The JSON text layers are proved for the modelled subset (see C09.v); whole BQM / QM / expression files. *)
From Coq Require Import List NArith ZArith Arith Bool.
From Dimod Require Import Gen.Gen_Codec Model.Codec Model.ChkC09 Proofs.CodecBase Proofs.CodecFrame Proofs.CodecBqm Proofs.CodecBqmTop
  Proofs.CodecLabel Proofs.CodecJson Proofs.CodecBqmFull Proofs.CodecQm Proofs.CodecExpr Proofs.CodecExact
  Model.CqmFile Proofs.CqmArchive Proofs.CqmMemberCut.
Import ListNotations.

Theorem header_prefix_safe :
  forall (H : Type) prefix (jd : bytes -> option H) json h v,
    (N.of_nat (length json + 1 + ALIGN) < 256 ^ N.of_nat HEADER_LEN_BYTES)%N ->
    (forall ws, forallb is_ws ws = true -> jd (json ++ ws) = Some h) ->
    (forall k, k < length json -> jd (firstn k json) = None) ->
    forall k, k < length (header prefix v json) ->
      dec_header prefix jd (firstn k (header prefix v json)) = Err
      \/ (length prefix + (2 + (HEADER_LEN_BYTES + length json)) <= k
          /\ dec_header prefix jd (firstn k (header prefix v json)) = Ok ((v, h), [])).
Proof. intros H prefix jd json h v H1 H2 H3. exact (header_psafe prefix jd json h v H1 H2 H3). Qed.
Print Assumptions header_prefix_safe.

Theorem section_prefix_safe :
  forall (A : Type) magic nlen (pd : bytes -> option A) p a,
    (N.of_nat (length p + ALIGN) < 256 ^ N.of_nat nlen)%N ->
    (forall j, pd (p ++ spaces j) = Some a) ->
    (forall k, k < length p -> pd (firstn k p) = None) ->
    forall k, k < length (section magic nlen p) ->
      dec_tsection magic nlen pd (firstn k (section magic nlen p)) = Err
      \/ (length magic + (nlen + length p) <= k
          /\ dec_tsection magic nlen pd (firstn k (section magic nlen p)) = Ok (a, [])).
Proof. intros A magic nlen pd p a H1 H2 H3. exact (tsection_psafe magic nlen pd p a H1 H2 H3). Qed.
Print Assumptions section_prefix_safe.

(* decode_ok_only_if_padding_lost at the section level: an accepted cut lies in the padding *)
Theorem section_ok_only_if_padding_lost :
  forall (A : Type) magic nlen (pd : bytes -> option A) p a,
    (N.of_nat (length p + ALIGN) < 256 ^ N.of_nat nlen)%N ->
    (forall j, pd (p ++ spaces j) = Some a) ->
    (forall k, k < length p -> pd (firstn k p) = None) ->
    forall k x, k < length (section magic nlen p) ->
      dec_tsection magic nlen pd (firstn k (section magic nlen p)) = Ok x ->
      x = (a, []) /\ length magic + nlen + length p <= k.
Proof.
  intros A magic nlen pd p a H1 H2 H3 k x Hk E.
  destruct (tsection_psafe magic nlen pd p a H1 H2 H3 k Hk) as [E'|[L E']]; rewrite E' in E.
  - discriminate.
  - inversion E. split; [reflexivity|]. rewrite Nat.add_assoc in L. exact L.
Qed.
Print Assumptions section_ok_only_if_padding_lost.

(* every cut inside the (unpadded) BQM body is an error *)
Theorem bqm_body_prefix_safe :
  forall w off lin adj m k,
    length off = w ->
    Forall (fun b => length b = w) lin ->
    length adj = length lin ->
    Forall (Forall (rec_ok IDX_BYTES w)) adj ->
    (2 * m = N.of_nat (sumn (map (@length _) adj)))%N ->
    (2 * m < 256 ^ N.of_nat IDX_BYTES)%N ->
    k < length (bqm_body lin adj off) ->
    dec_bqm_body w (length lin) m (firstn k (bqm_body lin adj off)) = Err.
Proof.
  intros w off lin adj m k H1 H2 H3 H4 H5 H6 Hk.
  destruct (Nat.eq_dec (length lin) 0) as [E|E].
  - destruct lin; [|discriminate]. destruct adj; [|discriminate]. exact (body_nil_strict w m off k H1 Hk).
  - exact (body_strict w off lin adj m H1 H2 H3 H4 H5 H6 E k Hk).
Qed.
Print Assumptions bqm_body_prefix_safe.

(* sequencing: a part followed by a (dependent) continuation stays prefix safe - this is how files are
   built from header, body and sections *)
Theorem sequence_prefix_safe :
  forall (A B : Type) (d1 : parser A) (f : A -> parser B) e1 e2 a b t1 t2,
    rt d1 e1 a -> psafeT d1 e1 a t1 -> rt (f a) e2 b -> psafeT (f a) e2 b t2 -> (0 < length e2 -> 0 < t2) ->
    psafeT (bind d1 f) (e1 ++ e2) b (thr e2 t1 (length e1) t2).
Proof. intros A B. exact (@psafeT_bind_gen A B). Qed.
Print Assumptions sequence_prefix_safe.

(* the JSON text layer: every proper prefix of a printed label array / header dictionary is rejected *)
Theorem label_prefix_rejected : forall ls k, LabelsWF ls -> k < length (pr_labels ls) ->
  labels_dec (firstn k (pr_labels ls)) = None.
Proof. exact CodecLabel.label_prefix_rejected. Qed.
Print Assumptions label_prefix_rejected.

Theorem bqm_header_json_prefix_rejected : forall h k, HvWF (h_vars h) -> k < length (bqm_json h) ->
  bqm_jd (firstn k (bqm_json h)) = None.
Proof. intros h k W. exact (proj2 (bqm_hdr_ok h W) k). Qed.
Print Assumptions bqm_header_json_prefix_rejected.

(* whole BQM files (v1 and v2): a cut at ANY byte is an error or the same content *)
Theorem decode_prefix_safe_bqm : forall f k, BqmWFL f -> k < length (bqm_encode f) ->
  run bqm_decode (firstn k (bqm_encode f)) = Err \/ run bqm_decode (firstn k (bqm_encode f)) = Ok f.
Proof. exact CodecBqmFull.bqm_decode_prefix_safe_full. Qed.
Print Assumptions decode_prefix_safe_bqm.

(* ... and it is the same content only when nothing but the padding of the trailing VARS section was lost
   (never for an unlabelled or version-1 file: bqm_tail_pad = 0) *)
Theorem decode_ok_only_if_padding_lost_bqm : forall f k x, BqmWFL f -> k < length (bqm_encode f) ->
  run bqm_decode (firstn k (bqm_encode f)) = Ok x ->
  x = f /\ length (bqm_encode f) - bqm_tail_pad f <= k.
Proof. exact CodecBqmFull.bqm_ok_only_if_padding_lost. Qed.
Print Assumptions decode_ok_only_if_padding_lost_bqm.

Theorem decode_prefix_safe_qm : forall f k, QmWF f -> k < length (qm_encode f) ->
  run qm_decode (firstn k (qm_encode f)) = Err \/ run qm_decode (firstn k (qm_encode f)) = Ok f.
Proof. exact CodecQm.qm_decode_prefix_safe. Qed.
Print Assumptions decode_prefix_safe_qm.

Theorem decode_prefix_safe_expr : forall f k, ExprWF f -> k < length (expr_encode f) ->
  run expr_decode (firstn k (expr_encode f)) = Err \/ run expr_decode (firstn k (expr_encode f)) = Ok f.
Proof. exact CodecExpr.expr_prefix_safe. Qed.
Print Assumptions decode_prefix_safe_expr.

(* exact thresholds at whole-file level: a QM file that still loads lost at most (part of) the padding of its last
   section - VARS if labelled, else the last NEIG, else (no variables) LINB; an expression member: the padding of QUAD *)
Theorem decode_ok_only_if_padding_lost_qm : forall f k x, QmWF f -> k < length (qm_encode f) ->
  run qm_decode (firstn k (qm_encode f)) = Ok x -> x = f /\ length (qm_encode f) - qm_tail_pad f <= k.
Proof. exact CodecExact.qm_ok_only_if_padding_lost. Qed.
Print Assumptions decode_ok_only_if_padding_lost_qm.

Theorem decode_ok_only_if_padding_lost_expr : forall f k x, ExprWF f -> k < length (expr_encode f) ->
  run expr_decode (firstn k (expr_encode f)) = Ok x -> x = f /\ length (expr_encode f) - expr_tail_pad f <= k.
Proof. exact CodecExact.expr_ok_only_if_padding_lost. Qed.
Print Assumptions decode_ok_only_if_padding_lost_expr.

(* members of a CQM serialization-version-1.x archive (whole QM or BQM files loaded through fileview.load's dispatch
   on the magic prefix, header "type" entry ignored): cut at any byte offset, a member is rejected or denotes the same
   expression - it never dispatches to the other loader and never yields a different expression *)
Theorem legacy_member_prefix_safe : forall m k, MemberWF m -> k < length (member_encode m) ->
  member_decode (firstn k (member_encode m)) = Err \/ member_decode (firstn k (member_encode m)) = Ok (member_nexpr m).
Proof. exact CqmMemberCut.member_decode_prefix_safe. Qed.
Print Assumptions legacy_member_prefix_safe.

(* on the implementation's own bytes: every one of the 324 prefixes of the example file is an error or
   the same content, and the accepted ones start after the closing bracket of the VARS JSON *)
Example bqm_example_all_prefixes :
  let f := mkBqmFile (2, 0)%N F64 BSPIN 1%N [0;0;0;0;0;0;224;63]%N
             [[0;0;0;0;0;0;248;63]%N; [0;0;0;0;0;0;0;192]%N; [0;0;0;0;0;0;208;63]%N]
             [[(1%N, [0;0;0;0;0;0;8;64]%N)]; [(0%N, [0;0;0;0;0;0;8;64]%N)]; []]
             (Some [LStr [97]%N; LStr [98]%N; LTup [LStr [116]%N; LInt 1]]) in
  forallb (fun k => match run bqm_decode (firstn k (bqm_encode f)) with
                    | Err => true
                    | Ok g => Nat.leb 288 k && CodecEq.bqmfile_eqb g f
                    end) (seq 0 324) = true.
Proof. vm_compute. reflexivity. Qed.
