(* C11 - serializable / JSON / pickle / copy round trips reproduce BQMs and sample sets.
   Only statements; every proof is `exact <lemma>`; examples by computation. *)
From Coq Require Import List ZArith NArith QArith Qcanon Bool Arith String.
From Dimod Require Import Base.Util Model.Poly Model.Comb Model.Ser Model.ChkC11
  Model.Coo Model.NdArr Proofs.CombPack Proofs.SerFacts Proofs.CoeffSound Proofs.SerVec Proofs.CooFacts Proofs.NdArrFacts
  Model.InfoSer Proofs.InfoSerFacts Model.CooNum Proofs.CooNumFacts Model.CooLex Proofs.CooLexFacts.
Import ListNotations.

(* ================================================================== *)
(* 1-bit packing of one row of samples into uint32 words (Model/Comb.v) *)

Theorem C11_unpack_pack_row :
  forall bits : list bool, unpack_row (pack_row bits) (List.length bits) = bits.
Proof. exact unpack_pack_row. Qed.
Print Assumptions C11_unpack_pack_row.

(* word j holds sample bits 32 j .. 32 j + 31, least significant first, zero padded *)
Theorem C11_pack_row_value :
  forall bits : list bool,
    let padded := bits ++ repeat false (pad_len (List.length bits)) in
    pack_row bits = map bits_value (chunks 32 (List.length padded) padded).
Proof. exact pack_row_value. Qed.
Print Assumptions C11_pack_row_value.

Theorem C11_pack_row_length :
  forall bits : list bool, List.length (pack_row bits) = ((List.length bits + 31) / 32)%nat.
Proof. exact length_pack_row. Qed.
Print Assumptions C11_pack_row_length.

Theorem C11_byte_roundtrip :
  forall c, List.length c = 8%nat -> rev (unpackbits_be (packbits_be (rev c))) = c.
Proof. exact byte_roundtrip. Qed.
Print Assumptions C11_byte_roundtrip.

Theorem C11_word_roundtrip :
  forall bs, List.length bs = 4%nat -> Forall (fun b => (b < 256)%N) bs -> word_bytes (le_word bs) = bs.
Proof. exact word_roundtrip. Qed.
Print Assumptions C11_word_roundtrip.

(* ================================================================== *)
(* the samples of a sample set through to_serializable / from_serializable:
   every vartype, both dtypes classes, both settings of pack_samples *)

Theorem C11_sampleset_samples_roundtrip :
  forall (vt : vartype) (int_dtype pack : bool) (n : nat) (rows : list (list Qc)),
    valid_for vt n rows ->
    deser_samples vt n (ser_samples vt int_dtype pack rows) = rows.
Proof. exact sampleset_samples_roundtrip. Qed.
Print Assumptions C11_sampleset_samples_roundtrip.

Theorem C11_sampleset_unpacked_roundtrip :
  forall vt int_dtype n rows, deser_samples vt n (ser_samples vt int_dtype false rows) = rows.
Proof. exact sampleset_unpacked_roundtrip. Qed.
Print Assumptions C11_sampleset_unpacked_roundtrip.

Theorem C11_nonbinary_never_packed :
  forall vt int_dtype pack n rows, vt = INTEGER \/ vt = REAL ->
    ser_samples vt int_dtype pack rows = Raw rows /\
    deser_samples vt n (ser_samples vt int_dtype pack rows) = rows.
Proof. exact nonbinary_never_packed. Qed.
Print Assumptions C11_nonbinary_never_packed.

Theorem C11_packed_words_shape :
  forall vt int_dtype rows n ws, valid_for vt n rows ->
    ser_samples vt int_dtype true rows = Packed ws ->
    List.length ws = List.length rows /\
    Forall (fun w => List.length w = ((n + 31) / 32)%nat) ws.
Proof. exact packed_words_shape. Qed.
Print Assumptions C11_packed_words_shape.

(* why the guard is needed: one bit per value is not injective on other values ... *)
Theorem C11_pack_loses_information :
  exists r1 r2 : list Qc, r1 <> r2 /\ pack_row (map gt0 r1) = pack_row (map gt0 r2).
Proof. exact pack_loses_information. Qed.
Print Assumptions C11_pack_loses_information.

(* ... and the rule in place before the repair (pack unless DISCRETE) loses a REAL row,
   which the current rule reproduces *)
Theorem C11_unguarded_pack_refuted :
  exists rows, valid_for REAL 3 rows /\
    deser_samples REAL 3 (ser_samples_unguarded REAL false true rows) <> rows /\
    deser_samples REAL 3 (ser_samples REAL false true rows) = rows.
Proof. exact unguarded_pack_refuted. Qed.
Print Assumptions C11_unguarded_pack_refuted.

(* the SPIN unpack mapping 1 -> +1, 0 -> -1 is the only one that round trips *)
Theorem C11_spin_mapping_is_forced :
  forall f : bool -> Qc,
    (forall x, valid_value SPIN x -> f (gt0 x) = x) -> f true = Q2Qc 1 /\ f false = (- Q2Qc 1)%Qc.
Proof. exact spin_mapping_is_forced. Qed.
Print Assumptions C11_spin_mapping_is_forced.

(* ================================================================== *)
(* labels: ints, floats, strings, nested tuples <-> JSON values *)

Theorem C11_labels_roundtrip : forall v, deserialize_variable (serialize_variable v) = v.
Proof. exact labels_roundtrip. Qed.
Print Assumptions C11_labels_roundtrip.

Theorem C11_label_lists_roundtrip :
  forall vs, map deserialize_variable (map serialize_variable vs) = vs.
Proof. exact label_lists_roundtrip. Qed.
Print Assumptions C11_label_lists_roundtrip.

Theorem C11_labels_roundtrip_json : forall j, serialize_variable (deserialize_variable j) = j.
Proof. exact labels_roundtrip_json. Qed.
Print Assumptions C11_labels_roundtrip_json.

Theorem C11_serialize_variable_injective :
  forall a b, serialize_variable a = serialize_variable b -> a = b.
Proof. exact serialize_variable_injective. Qed.
Print Assumptions C11_serialize_variable_injective.

(* ================================================================== *)
(* serialize_ndarray's float -> int compaction preserves every value *)

Theorem C11_replace_float_with_int_value :
  forall a, jarr_val (replace_float_with_int a) = a.
Proof. exact replace_float_with_int_value. Qed.
Print Assumptions C11_replace_float_with_int_value.

Theorem C11_replace_num_kind :
  forall q, (is_integer q = true -> replace_num q = JI (to_int q)) /\
            (is_integer q = false -> replace_num q = JF q).
Proof. exact replace_num_kind. Qed.
Print Assumptions C11_replace_num_kind.

Theorem C11_is_integer_spec :
  forall q, is_integer q = true <-> exists z, q = Q2Qc (inject_Z z).
Proof. exact is_integer_spec. Qed.
Print Assumptions C11_is_integer_spec.

(* ================================================================== *)
(* the vector form of a BQM (ldata / irow / icol / qdata / offset over index labels) *)

Theorem C11_bqm_vectors_roundtrip :
  forall n p s, labels_below n p -> no_selfloops p ->
    energy (from_vectors (to_vectors n p)) s = energy p s.
Proof. exact bqm_vectors_roundtrip. Qed.
Print Assumptions C11_bqm_vectors_roundtrip.

(* with the index maps: idx numbers the labels in the chosen (e.g. sorted) variable order and
   lab reads the label list back; holds for every order *)
Theorem C11_bqm_vectors_roundtrip_labelled :
  forall n (idx lab : nat -> nat) p s,
    (forall l, lab (idx l) = l) -> labels_below n (relabel idx p) -> no_selfloops p ->
    energy (relabel lab (from_vectors (to_vectors n (relabel idx p)))) s = energy p s.
Proof. exact bqm_vectors_roundtrip_labelled. Qed.
Print Assumptions C11_bqm_vectors_roundtrip_labelled.

Theorem C11_to_vectors_shape :
  forall n p,
    List.length (v_lin (to_vectors n p)) = n /\
    Forall (fun t => (fst (fst t) < snd (fst t))%nat /\ (snd (fst t) < n)%nat) (v_quad (to_vectors n p)) /\
    v_off (to_vectors n p) = p_off p.
Proof. exact to_vectors_shape. Qed.
Print Assumptions C11_to_vectors_shape.

(* ================================================================== *)
(* COO text, line level: vartype and every non-zero bias come back (the offset is not in the format) *)

Theorem C11_coo_roundtrip_nonzero :
  forall (header : bool) vt n p, labels_below n p -> no_selfloops p ->
    exists q, coo_loads (if header then None else Some vt) (coo_dumps header vt n p) = Some (vt, q) /\
              forall s, energy q s = (energy p s - p_off p)%Qc.
Proof. exact coo_roundtrip_nonzero. Qed.
Print Assumptions C11_coo_roundtrip_nonzero.

Theorem C11_coo_loads_refusals :
  forall t a h,
    (coo_header t = None -> coo_loads None t = None) /\
    (coo_header t = Some h -> vartype_eqb h a = false -> coo_loads (Some a) t = None).
Proof. exact coo_loads_refusals. Qed.
Print Assumptions C11_coo_loads_refusals.

(* ================================================================== *)
(* serialize_ndarray / deserialize_ndarray: shape bookkeeping, nested list or C-order bytes,
   for any element type with a fixed-width byte codec *)

Theorem C11_ndarray_roundtrip_1d :
  forall (A B : Type) (width : nat) (encb : A -> list B) (decb : list B -> A),
    (0 < width)%nat -> (forall x, List.length (encb x) = width) -> (forall x, decb (encb x) = x) ->
    forall use_bytes xs, deserialize1 A B width decb (serialize1 A B encb use_bytes xs) = Some xs.
Proof. exact ndarray_roundtrip_1d. Qed.
Print Assumptions C11_ndarray_roundtrip_1d.

Theorem C11_ndarray_roundtrip_2d :
  forall (A B : Type) (width : nat) (encb : A -> list B) (decb : list B -> A),
    (0 < width)%nat -> (forall x, List.length (encb x) = width) -> (forall x, decb (encb x) = x) ->
    forall use_bytes r c rows,
      (0 < c)%nat -> List.length rows = r -> Forall (fun row => List.length row = c) rows ->
      deserialize2 A B width decb (serialize2 A B encb use_bytes r c rows) = Some rows.
Proof. exact ndarray_roundtrip_2d. Qed.
Print Assumptions C11_ndarray_roundtrip_2d.

Theorem C11_flatten_reshape :
  forall (A : Type) r c (flat : list A), (0 < c)%nat -> List.length flat = (r * c)%nat ->
    flatten2 A (reshape2 A r c flat) = flat /\
    List.length (reshape2 A r c flat) = r /\
    Forall (fun row => List.length row = c) (reshape2 A r c flat).
Proof. exact flatten_reshape. Qed.
Print Assumptions C11_flatten_reshape.

(* ================================================================== *)
(* serialize_ndarrays / deserialize_ndarrays: the walk over `info`, descending into mappings and
   sequences, for any array type whose document round trips (C11_ndarray_roundtrip_1d, _2d) *)

Theorem C11_info_roundtrip :
  forall (A D : Type) (ser_arr : A -> D) (de_arr : D -> A), (forall a, de_arr (ser_arr a) = a) ->
    forall t, user_ok A D t = true ->
      InfoSer.deserialize A D de_arr (InfoSer.serialize A D ser_arr t) = Some (norm A D t).
Proof. exact info_roundtrip. Qed.
Print Assumptions C11_info_roundtrip.

Theorem C11_info_roundtrip_exact :
  forall (A D : Type) (ser_arr : A -> D) (de_arr : D -> A), (forall a, de_arr (ser_arr a) = a) ->
    forall t, user_ok A D t = true -> no_bool A D t = true ->
      InfoSer.deserialize A D de_arr (InfoSer.serialize A D ser_arr t) = Some t.
Proof. exact info_roundtrip_exact. Qed.
Print Assumptions C11_info_roundtrip_exact.

(* findings, as statements about the faithful model: a user mapping carrying type = 'array' is taken
   for an array document (raises, or silently becomes an array); a bool comes back as an int *)
Theorem C11_info_type_marker_refuted :
  forall (A D : Type) (ser_arr : A -> D) (de_arr : D -> A),
    (InfoSer.deserialize A D de_arr (InfoSer.serialize A D ser_arr (TDict A D [(type_key, TStr A D array_tag)])) = None) /\
    (forall d, InfoSer.deserialize A D de_arr
                 (InfoSer.serialize A D ser_arr (TDict A D [(type_key, TStr A D array_tag); (payload_key, TDoc A D d)]))
               = Some (TArr A D (de_arr d))).
Proof. exact info_type_marker_refuted. Qed.
Print Assumptions C11_info_type_marker_refuted.

Theorem C11_info_bool_refuted :
  forall (A D : Type) (ser_arr : A -> D) (de_arr : D -> A),
    InfoSer.deserialize A D de_arr (InfoSer.serialize A D ser_arr (TDict A D [("flag"%string, TBool A D true)]))
    = Some (TDict A D [("flag"%string, TInt A D 1)]).
Proof. exact info_bool_refuted. Qed.
Print Assumptions C11_info_bool_refuted.

(* ================================================================== *)
(* COO numerals: float('%f' % b) = b for every bias with at most six decimals (b = m / 10^6);
   the integer part goes through its real decimal string *)

Theorem C11_fmt_f_roundtrip : forall m : Z, read_f (fmt_f m) = Some m.
Proof. exact fmt_f_roundtrip. Qed.
Print Assumptions C11_fmt_f_roundtrip.

Theorem C11_fmt_f_shape :
  forall m : Z, List.length (f_frac (fmt_f m)) = 6%nat /\ Forall (fun d => (0 <= d <= 9)%Z) (f_frac (fmt_f m)).
Proof. exact fmt_f_shape. Qed.
Print Assumptions C11_fmt_f_shape.

(* character level: the line regex of coo.py as a recogniser; every line dump prints
   ('%d %d %f') is recognised and read back as the same (u, v, bias) *)
Theorem C11_recognise_print_line :
  forall u v m,
    recognise None (print_line u v m) =
    Some (mkMatch (dec u) (dec v) (m <? 0)%Z (dec (Z.to_N (Z.abs m / MICRO)))
                  (string_of_chars (map digit_char (frac_digits (Z.abs m mod MICRO))))).
Proof. exact recognise_print_line. Qed.
Print Assumptions C11_recognise_print_line.

Theorem C11_read_print_line : forall u v m, read_line None (print_line u v m) = Some (u, v, m).
Proof. exact read_print_line. Qed.
Print Assumptions C11_read_print_line.

(* a regex allowing at most one integer digit instead of any number drops printed lines *)
Theorem C11_one_digit_regex_refuted :
  read_line (Some 1%nat) (print_line 3%N 7%N 10500000) = None /\
  read_line None (print_line 3%N 7%N 10500000) = Some (3%N, 7%N, 10500000%Z) /\
  read_line (Some 1%nat) (print_line 3%N 7%N (-9500000)) = Some (3%N, 7%N, (-9500000)%Z) /\
  print_line 3%N 7%N 10500000 = "3 7 10.500000"%string.
Proof. exact one_digit_regex_refuted. Qed.
Print Assumptions C11_one_digit_regex_refuted.

Example C11_ex_fmt_f :
  fmt_f (-100250000) = mkFText true "100" [2; 5; 0; 0; 0; 0]%Z /\ read_f (fmt_f (-100250000)) = Some (-100250000)%Z.
Proof. vm_compute. split; reflexivity. Qed.

(* ================================================================== *)
(* hypotheses are satisfiable on non-trivial data *)

Example C11_ex_spin_two_words :
  let row := map (fun k => if Nat.even k then Q2Qc 1 else (- Q2Qc 1)%Qc) (seq 0 37) in
  valid_valueb SPIN (nth 3 row (Q2Qc 0)) = true /\
  ser_samples SPIN true true [row] = Packed [[1431655765; 21]%N] /\
  rows_eqb (deser_samples SPIN 37 (ser_samples SPIN true true [row])) [row] = true.
Proof. vm_compute. repeat split; reflexivity. Qed.

Example C11_ex_label :
  let v := LTup [LStr "a"; LTup [LInt 1; LTup [LFlt 5 2; LStr "b"]]] in
  serialize_variable v = JList [JStr "a"; JList [JInt 1; JList [JFlt 5 2; JStr "b"]]] /\
  deserialize_variable (serialize_variable v) = v.
Proof. vm_compute. split; reflexivity. Qed.

Example C11_ex_replace :
  replace_float_with_int (FNest [FRow [qc 3 2; qc 4 2]; FRow [qc (-7) 1; qc 1 4]]) =
  JNest [JRow [JF (qc 3 2); JI 2]; JRow [JI (-7); JF (qc 1 4)]].
Proof. vm_compute. reflexivity. Qed.
