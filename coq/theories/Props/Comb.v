(* C07 / C11 / C16 / C17 - combinatorial cores (Model/Comb.v).
   Only statements; every proof is `exact <lemma>`; examples by computation. *)
From Coq Require Import List ZArith NArith Bool Arith Permutation.
From Dimod Require Import Model.Comb Proofs.CombFacts.
Import ListNotations.

(* ================================================================== *)
(* C16 - slack coefficients of inequality penalties *)

(* all coefficients positive; all slack bits set gives exactly U *)
Theorem C16_slack_coeffs_positive_sum :
  forall U : Z, (0 < U)%Z ->
    Forall (fun c => (0 < c)%Z) (slack_coeffs U) /\
    dot (slack_coeffs U) (repeat true (length (slack_coeffs U))) = U.
Proof. exact slack_coeffs_positive_sum. Qed.
Print Assumptions C16_slack_coeffs_positive_sum.

(* no slack assignment leaves [0, U] *)
Theorem C16_slack_coeffs_bounded :
  forall U : Z, (0 < U)%Z ->
    forall bits, length bits = length (slack_coeffs U) ->
      (0 <= dot (slack_coeffs U) bits <= U)%Z.
Proof. exact slack_coeffs_bounded. Qed.
Print Assumptions C16_slack_coeffs_bounded.

(* every value of [0, U] is reached, by the greedy witness *)
Theorem C16_slack_coeffs_cover :
  forall U : Z, (0 < U)%Z ->
    forall t, (0 <= t <= U)%Z ->
      length (slack_bits U t) = length (slack_coeffs U) /\
      dot (slack_coeffs U) (slack_bits U t) = t.
Proof. exact slack_coeffs_cover. Qed.
Print Assumptions C16_slack_coeffs_cover.

Theorem C16_slack_coeffs_cover_ex :
  forall U : Z, (0 < U)%Z ->
    forall t, (0 <= t <= U)%Z ->
      exists bits, length bits = length (slack_coeffs U) /\ dot (slack_coeffs U) bits = t.
Proof. exact slack_coeffs_cover_ex. Qed.
Print Assumptions C16_slack_coeffs_cover_ex.

(* the representable values are exactly 0..U *)
Theorem C16_slack_coeffs_exact :
  forall U : Z, (0 < U)%Z ->
    forall t, (exists bits, length bits = length (slack_coeffs U) /\ dot (slack_coeffs U) bits = t)
              <-> (0 <= t <= U)%Z.
Proof. exact slack_coeffs_exact. Qed.
Print Assumptions C16_slack_coeffs_exact.

(* generators/integer.py binary_encoding: same list, same three facts *)
Theorem C16_binary_encoding_facts :
  forall ub : Z, (2 <= ub)%Z ->
    binary_encoding_coeffs ub = slack_coeffs ub /\
    Forall (fun c => (0 < c)%Z) (binary_encoding_coeffs ub) /\
    dot (binary_encoding_coeffs ub) (repeat true (length (binary_encoding_coeffs ub))) = ub /\
    (forall bits, length bits = length (binary_encoding_coeffs ub) ->
                  (0 <= dot (binary_encoding_coeffs ub) bits <= ub)%Z) /\
    (forall t, (0 <= t <= ub)%Z ->
       exists bits, length bits = length (binary_encoding_coeffs ub) /\
                    dot (binary_encoding_coeffs ub) bits = t).
Proof. exact binary_encoding_facts. Qed.
Print Assumptions C16_binary_encoding_facts.

(* bound tightening and the four outcomes of add_linear_inequality_constraint *)
Theorem C16_plan_inequality_sound :
  forall (a : list Z) (const lb ub : Z) (x : list bool),
    length x = length a ->
    let A := dot a x in
    let feasible := (lb <= A + const <= ub)%Z in
    (sum_neg a <= A <= sum_pos a)%Z /\
    match plan_inequality a const lb ub with
    | Skip => feasible
    | Infeasible => ~ feasible
    | Equality ubc => feasible <-> A = ubc
    | Slack ubc cs =>
        (feasible -> exists s, length s = length cs /\ ineq_penalty a x cs s ubc = 0%Z) /\
        (~ feasible -> forall s, length s = length cs -> (1 <= ineq_penalty a x cs s ubc)%Z) /\
        (forall s, (0 <= ineq_penalty a x cs s ubc)%Z)
    end.
Proof. exact plan_inequality_sound. Qed.
Print Assumptions C16_plan_inequality_sound.

Example C16_ex_coeffs : slack_coeffs 10 = [1; 2; 4; 3]%Z.
Proof. vm_compute; reflexivity. Qed.
Example C16_ex_bits : slack_bits 10 7 = [false; false; true; true].
Proof. vm_compute; reflexivity. Qed.
Example C16_ex_pow2 : slack_coeffs 8 = [1; 2; 4; 1]%Z.
Proof. vm_compute; reflexivity. Qed.
Example C16_ex_plan : plan_inequality [3; -2; 5]%Z 1 0 6 = Slack 5 [1; 2; 3]%Z.
Proof. vm_compute; reflexivity. Qed.
Example C16_ex_plan_eq : plan_inequality [3; 2]%Z 0 5 9 = Equality 5.
Proof. vm_compute; reflexivity. Qed.

(* ================================================================== *)
(* C17 - combinations(n, k) *)

Theorem C17_combinations_energy :
  forall (k : Z) (x : list bool),
    combinations_energy k x = ((count_true x - k) * (count_true x - k))%Z /\
    (combinations_energy k x = 0%Z <-> count_true x = k) /\
    (count_true x <> k -> (1 <= combinations_energy k x)%Z).
Proof. exact combinations_energy_facts. Qed.
Print Assumptions C17_combinations_energy.

Theorem C17_pairs_true :
  forall x, (2 * pairs_true x = count_true x * (count_true x - 1))%Z.
Proof. exact pairs_true_spec. Qed.
Print Assumptions C17_pairs_true.

Example C17_ex : combinations_energy 2 [true; false; true; true; false] = 1%Z.
Proof. vm_compute; reflexivity. Qed.

(* ================================================================== *)
(* C11 - 1-bit packing of samples into uint32 words *)

Theorem C11_unpack_pack_row :
  forall bits : list bool, unpack_row (pack_row bits) (length bits) = bits.
Proof. exact unpack_pack_row. Qed.
Print Assumptions C11_unpack_pack_row.

(* word j holds sample bits 32 j .. 32 j + 31, least significant first, zero padded *)
Theorem C11_pack_row_value :
  forall bits : list bool,
    let padded := bits ++ repeat false (pad_len (length bits)) in
    pack_row bits = map bits_value (chunks 32 (length padded) padded).
Proof. exact pack_row_value. Qed.
Print Assumptions C11_pack_row_value.

Theorem C11_pack_row_length :
  forall bits : list bool, length (pack_row bits) = (length bits + 31) / 32.
Proof. exact length_pack_row. Qed.
Print Assumptions C11_pack_row_length.

Theorem C11_byte_roundtrip :
  forall c, length c = 8 -> rev (unpackbits_be (packbits_be (rev c))) = c.
Proof. exact byte_roundtrip. Qed.
Print Assumptions C11_byte_roundtrip.

Theorem C11_word_roundtrip :
  forall bs, length bs = 4 -> Forall (fun b => (b < 256)%N) bs -> word_bytes (le_word bs) = bs.
Proof. exact word_roundtrip. Qed.
Print Assumptions C11_word_roundtrip.

Theorem C11_chunks_reassemble :
  forall (A : Type) (k fuel : nat) (l : list A),
    0 < k -> length l <= fuel -> (exists m, length l = m * k) ->
    flat_map id (chunks k fuel l) = l.
Proof. exact @chunks_flat_map_id. Qed.
Print Assumptions C11_chunks_reassemble.

Example C11_ex_pack :
  pack_row ([true; false; true] ++ repeat false 29 ++ [false; true]) = [5; 2]%N.
Proof. vm_compute; reflexivity. Qed.
Example C11_ex_roundtrip :
  let bits := [true; true; false; true; false; false; true; false; true; true] ++ repeat true 30 in
  unpack_row (pack_row bits) 40 = bits.
Proof. vm_compute; reflexivity. Qed.

(* ================================================================== *)
(* C07 - exact enumeration: every assignment exactly once *)

Theorem C07_graycode_each_once :
  forall n : nat,
    length (graycode n) = 2 ^ n /\
    Permutation (graycode n) (all_bitvectors n) /\
    NoDup (graycode n) /\
    (forall v, In v (graycode n) <-> length v = n).
Proof. exact graycode_each_once. Qed.
Print Assumptions C07_graycode_each_once.

Theorem C07_product_In :
  forall (A : Type) (doms : list (list A)) (xs : list A),
    In xs (product doms) <-> Forall2 (fun x d => In x d) xs doms.
Proof. exact @product_In. Qed.
Print Assumptions C07_product_In.

Theorem C07_product_length :
  forall (A : Type) (doms : list (list A)),
    length (product doms) = fold_right Nat.mul 1 (map (@length A) doms).
Proof. exact @product_length. Qed.
Print Assumptions C07_product_length.

Theorem C07_product_NoDup :
  forall (A : Type) (doms : list (list A)),
    Forall (@NoDup A) doms -> NoDup (product doms).
Proof. exact @product_NoDup. Qed.
Print Assumptions C07_product_NoDup.

Example C07_ex_gray3 :
  graycode 3 =
  [[false; false; false]; [true; false; false]; [true; true; false]; [false; true; false];
   [false; true; true]; [true; true; true]; [true; false; true]; [false; false; true]].
Proof. vm_compute; reflexivity. Qed.
Example C07_ex_product : length (product [[1; 2; 3]; [4; 5]; [6; 7]]) = 12.
Proof. vm_compute; reflexivity. Qed.
