(* C20 (with the C04 / C01 parts that live at the same level) - the adjacency
   structure of abc.h QuadraticModelBase stays well formed under every mutator,
   reads see what was written, the early-break energy walk is exact, counts
   lose nothing.  Only statements; every proof is `exact <lemma of AdjFacts>`. *)
From Coq Require Import List ZArith QArith Qcanon Bool Arith Sorted.
From Dimod Require Import Base.Util Model.Poly Model.Adj Proofs.AdjFacts.
Import ListNotations.
Local Open Scope nat_scope.

(* ---------- 1. what the executable invariant says ---------- *)
Theorem C20_inv_b_meaning :
  forall m, inv_b m = true <->
    length (adj m) = nvars m /\
    length (vts m) = nvars m /\
    (forall u, u < nvars m -> StronglySorted lt (map fst (nb m u))) /\
    (forall u w b, u < nvars m -> In (w, b) (nb m u) -> w < nvars m) /\
    (forall u w b, u < nvars m -> In (w, b) (nb m u) -> nb_get u (nb m w) = Some b) /\
    (forall u, u < nvars m -> is_binspin (vt_at m u) = true -> has_interaction m u u = false).
Proof. exact inv_b_iff. Qed.
Print Assumptions C20_inv_b_meaning.

(* ---------- 2. one sorted neighbourhood ---------- *)
Theorem C20_strictly_sorted_meaning :
  forall n, strictly_sorted n = true <-> StronglySorted lt (map fst n).
Proof. exact strictly_sorted_iff. Qed.
Print Assumptions C20_strictly_sorted_meaning.

Theorem C20_lookup_is_membership :
  forall v n b, StronglySorted lt (map fst n) -> (nb_get v n = Some b <-> In (v, b) n).
Proof. exact nb_get_In. Qed.
Print Assumptions C20_lookup_is_membership.

Theorem C20_upsert_sorted :
  forall f v n, StronglySorted lt (map fst n) -> StronglySorted lt (map fst (nb_upsert f v n)).
Proof. exact nb_upsert_sorted. Qed.
Print Assumptions C20_upsert_sorted.

Theorem C20_upsert_keys :
  forall f v n k, In k (map fst (nb_upsert f v n)) <-> k = v \/ In k (map fst n).
Proof. exact nb_upsert_keys. Qed.
Print Assumptions C20_upsert_keys.

Theorem C20_upsert_get_same :
  forall f v n,
    nb_get v (nb_upsert f v n) = Some (f (match nb_get v n with Some b => b | None => 0%Qc end)).
Proof. exact nb_get_upsert_same. Qed.
Print Assumptions C20_upsert_get_same.

Theorem C20_upsert_get_other :
  forall f v w n, w <> v -> nb_get w (nb_upsert f v n) = nb_get w n.
Proof. exact nb_get_upsert_other. Qed.
Print Assumptions C20_upsert_get_other.

Theorem C20_erase_sorted :
  forall v n, StronglySorted lt (map fst n) -> StronglySorted lt (map fst (nb_erase v n)).
Proof. exact nb_erase_sorted. Qed.
Print Assumptions C20_erase_sorted.

Theorem C20_erase_keys :
  forall v n k, StronglySorted lt (map fst n) ->
    (In k (map fst (nb_erase v n)) <-> k <> v /\ In k (map fst n)).
Proof. exact nb_erase_keys. Qed.
Print Assumptions C20_erase_keys.

Theorem C20_erase_get_same :
  forall v n, StronglySorted lt (map fst n) -> nb_get v (nb_erase v n) = None.
Proof. exact nb_get_erase_same. Qed.
Print Assumptions C20_erase_get_same.

Theorem C20_erase_get_other :
  forall v w n, StronglySorted lt (map fst n) -> w <> v -> nb_get w (nb_erase v n) = nb_get w n.
Proof. exact nb_get_erase_other. Qed.
Print Assumptions C20_erase_get_other.

(* a sorted neighbourhood is determined by what lookups return *)
Theorem C20_neighbourhood_extensional :
  forall n1 n2, StronglySorted lt (map fst n1) -> StronglySorted lt (map fst n2) ->
    (forall w, nb_get w n1 = nb_get w n2) -> n1 = n2.
Proof. exact ksorted_ext. Qed.
Print Assumptions C20_neighbourhood_extensional.

(* ---------- 6. the backwards walk of remove_variable ---------- *)
Theorem C20_remove_var_walk :
  forall v n, StronglySorted lt (map fst n) ->
    nb_remove_var v n =
    map (fun e => (if v <? fst e then fst e - 1 else fst e, snd e))
        (filter (fun e => negb (fst e =? v)) n).
Proof. exact nb_remove_var_eq. Qed.
Print Assumptions C20_remove_var_walk.

(* resize's cut at lower_bound(k) *)
Theorem C20_resize_cut :
  forall k n, StronglySorted lt (map fst n) -> nb_below k n = filter (fun e => fst e <? k) n.
Proof. exact nb_below_filter. Qed.
Print Assumptions C20_resize_cut.

(* ---------- 3. the invariant is preserved ---------- *)
Theorem C20_inv_empty : Inv empty_qm.
Proof. exact Inv_empty. Qed.
Print Assumptions C20_inv_empty.

Theorem C20_inv_add_variable : forall t m, Inv m -> Inv (add_variable t m).
Proof. exact Inv_add_variable. Qed.
Print Assumptions C20_inv_add_variable.

Theorem C20_inv_add_linear : forall v b m, Inv m -> Inv (add_linear v b m).
Proof. exact Inv_add_linear. Qed.
Print Assumptions C20_inv_add_linear.

Theorem C20_inv_set_linear : forall v b m, Inv m -> Inv (set_linear v b m).
Proof. exact Inv_set_linear. Qed.
Print Assumptions C20_inv_set_linear.

Theorem C20_inv_add_offset : forall b m, Inv m -> Inv (Adj.add_offset b m).
Proof. exact Inv_add_offset. Qed.
Print Assumptions C20_inv_add_offset.

Theorem C20_inv_set_offset : forall b m, Inv m -> Inv (set_offset b m).
Proof. exact Inv_set_offset. Qed.
Print Assumptions C20_inv_set_offset.

Theorem C20_inv_scale : forall k m, Inv m -> Inv (Adj.scale k m).
Proof. exact Inv_scale. Qed.
Print Assumptions C20_inv_scale.

Theorem C20_inv_add_quadratic :
  forall u v b m, Inv m -> u < nvars m -> v < nvars m -> Inv (add_quadratic u v b m).
Proof. exact Inv_add_quadratic. Qed.
Print Assumptions C20_inv_add_quadratic.

Theorem C20_inv_set_quadratic :
  forall u v b m m', Inv m -> u < nvars m -> v < nvars m ->
    set_quadratic u v b m = Some m' -> Inv m'.
Proof. exact Inv_set_quadratic. Qed.
Print Assumptions C20_inv_set_quadratic.

(* the ordering promise of add_quadratic_back, explicit: the last index stored
   for u is below v and the last index stored for v is below u (or nothing is
   stored); under it add_quadratic_back is add_quadratic *)
Theorem C20_inv_add_quadratic_back :
  forall u v b m, Inv m -> u < nvars m -> v < nvars m ->
    match rev (nb m u) with [] => True | e :: _ => fst e < v end /\
    match rev (nb m v) with [] => True | e :: _ => fst e < u end ->
    Inv (add_quadratic_back u v b m).
Proof. exact Inv_add_quadratic_back. Qed.
Print Assumptions C20_inv_add_quadratic_back.

Theorem C20_add_quadratic_back_is_add_quadratic :
  forall u v b m, Inv m ->
    match rev (nb m u) with [] => True | e :: _ => fst e < v end /\
    match rev (nb m v) with [] => True | e :: _ => fst e < u end ->
    add_quadratic_back u v b m = add_quadratic u v b m.
Proof. exact add_quadratic_back_eq_Inv. Qed.
Print Assumptions C20_add_quadratic_back_is_add_quadratic.

(* without the promise the structure breaks *)
Theorem C20_add_quadratic_back_needs_promise :
  exists u v b m, Inv m /\ u < nvars m /\ v < nvars m /\ ~ Inv (add_quadratic_back u v b m).
Proof. exact add_quadratic_back_unordered_breaks. Qed.
Print Assumptions C20_add_quadratic_back_needs_promise.

Theorem C20_inv_remove_interaction : forall u v m, Inv m -> Inv (fst (remove_interaction u v m)).
Proof. exact Inv_remove_interaction. Qed.
Print Assumptions C20_inv_remove_interaction.

Theorem C20_inv_remove_variable : forall v m, Inv m -> v < nvars m -> Inv (remove_variable v m).
Proof. exact Inv_remove_variable. Qed.
Print Assumptions C20_inv_remove_variable.

Theorem C20_inv_resize : forall t k m, Inv m -> Inv (resize t k m).
Proof. exact Inv_resize. Qed.
Print Assumptions C20_inv_resize.

Theorem C20_inv_fix_variable : forall v a m, Inv m -> v < nvars m -> Inv (fix_variable v a m).
Proof. exact Inv_fix_variable. Qed.
Print Assumptions C20_inv_fix_variable.

Theorem C20_inv_substitute_variable :
  forall v k c m, Inv m -> v < nvars m -> Inv (substitute_variable v k c m).
Proof. exact Inv_substitute_variable. Qed.
Print Assumptions C20_inv_substitute_variable.

(* ---------- 9. every reachable model is well formed ---------- *)
Theorem C20_inv_reachable : forall ops : list cop, Inv (fold_left cstep ops empty_qm).
Proof. exact inv_reachable. Qed.
Print Assumptions C20_inv_reachable.

(* ---------- 4. read after write ---------- *)
Theorem C20_quadratic_symmetric : forall m u v, Inv m -> quadratic m u v = quadratic m v u.
Proof. exact quadratic_sym. Qed.
Print Assumptions C20_quadratic_symmetric.

(* add_quadratic u v b adds b to the stored bias of the unordered pair {u,v};
   a self loop on a BINARY / SPIN variable touches no stored bias *)
Theorem C20_quadratic_add_quadratic :
  forall m u v b x y, length (adj m) = nvars m -> u < nvars m -> v < nvars m ->
    quadratic (add_quadratic u v b m) x y =
    (quadratic m x y +
     (if same_pair x y u v && negb ((u =? v) && is_binspin (vt_at m u)) then b else 0))%Qc.
Proof. exact quadratic_add_quadratic. Qed.
Print Assumptions C20_quadratic_add_quadratic.

Theorem C20_has_interaction_add_quadratic :
  forall m u v b x y, length (adj m) = nvars m -> u < nvars m -> v < nvars m ->
    has_interaction (add_quadratic u v b m) x y =
    same_pair x y u v && negb ((u =? v) && is_binspin (vt_at m u)) || has_interaction m x y.
Proof. exact has_interaction_add_quadratic. Qed.
Print Assumptions C20_has_interaction_add_quadratic.

Theorem C20_add_quadratic_self_binary :
  forall u b m, vt_at m u = BINARY -> add_quadratic u u b m = add_linear u b m.
Proof. exact add_quadratic_self_binary. Qed.
Print Assumptions C20_add_quadratic_self_binary.

Theorem C20_add_quadratic_self_spin :
  forall u b m, vt_at m u = SPIN -> add_quadratic u u b m = Adj.add_offset b m.
Proof. exact add_quadratic_self_spin. Qed.
Print Assumptions C20_add_quadratic_self_spin.

Theorem C20_set_quadratic_error :
  forall u v b m, set_quadratic u v b m = None <-> u = v /\ is_binspin (vt_at m u) = true.
Proof. exact set_quadratic_None_iff. Qed.
Print Assumptions C20_set_quadratic_error.

Theorem C20_quadratic_set_quadratic :
  forall m m' u v b x y, length (adj m) = nvars m -> u < nvars m -> v < nvars m ->
    set_quadratic u v b m = Some m' ->
    quadratic m' x y = if same_pair x y u v then b else quadratic m x y.
Proof. exact quadratic_set_quadratic. Qed.
Print Assumptions C20_quadratic_set_quadratic.

Theorem C20_has_interaction_set_quadratic :
  forall m m' u v b x y, length (adj m) = nvars m -> u < nvars m -> v < nvars m ->
    set_quadratic u v b m = Some m' ->
    has_interaction m' x y = same_pair x y u v || has_interaction m x y.
Proof. exact has_interaction_set_quadratic. Qed.
Print Assumptions C20_has_interaction_set_quadratic.

Theorem C20_quadratic_remove_interaction :
  forall m u v x y, Inv m ->
    quadratic (fst (remove_interaction u v m)) x y =
    if same_pair x y u v then 0%Qc else quadratic m x y.
Proof. exact quadratic_remove_interaction. Qed.
Print Assumptions C20_quadratic_remove_interaction.

Theorem C20_has_interaction_remove_interaction :
  forall m u v x y, Inv m ->
    has_interaction (fst (remove_interaction u v m)) x y =
    negb (same_pair x y u v) && has_interaction m x y.
Proof. exact has_interaction_remove_interaction. Qed.
Print Assumptions C20_has_interaction_remove_interaction.

Theorem C20_remove_interaction_reports :
  forall u v m, snd (remove_interaction u v m) = has_interaction m u v.
Proof. exact remove_interaction_snd. Qed.
Print Assumptions C20_remove_interaction_reports.

(* ---------- 5. C01: the early-break walk is the energy ---------- *)
Theorem C20_walk_energy_is_lower_triangle :
  forall s u n, StronglySorted lt (map fst n) ->
    walk_energy s u n =
    qsum (map (fun e => (snd e * s u * s (fst e))%Qc) (filter (fun e => fst e <=? u) n)).
Proof. exact walk_energy_sum. Qed.
Print Assumptions C20_walk_energy_is_lower_triangle.

Theorem C20_energy_adj_is_energy : forall m s, Inv m -> energy_adj m s = energy (abs m) s.
Proof. exact energy_adj_abs. Qed.
Print Assumptions C20_energy_adj_is_energy.

(* ---------- 8. fixing and substituting a variable (C03 at this level) ---------- *)
Theorem C20_energy_fix_variable :
  forall m v a s, Inv m -> v < nvars m ->
    energy_adj (fix_variable v a m) s =
    energy_adj m (fun i => if i <? v then s i else if i =? v then a else s (i - 1)).
Proof. exact energy_fix_variable_adj. Qed.
Print Assumptions C20_energy_fix_variable.

Theorem C20_energy_substitute_variable :
  forall m v k c s, Inv m -> v < nvars m ->
    energy_adj (substitute_variable v k c m) s =
    energy_adj m (fun i => if i =? v then (k * s i + c)%Qc else s i).
Proof. exact energy_substitute_variable_adj. Qed.
Print Assumptions C20_energy_substitute_variable.

(* ---------- 7. counts ---------- *)
Theorem C20_stored_entries_even :
  forall m, Inv m ->
    Nat.Even (fold_right Nat.add 0 (map (@length _) (adj m)) + self_loops m).
Proof. exact stored_plus_self_even. Qed.
Print Assumptions C20_stored_entries_even.

Theorem C20_num_interactions_no_loss :
  forall m, Inv m ->
    2 * num_interactions m = fold_right Nat.add 0 (map (@length _) (adj m)) + self_loops m.
Proof. exact num_interactions_no_loss. Qed.
Print Assumptions C20_num_interactions_no_loss.

Theorem C20_num_interactions_is_term_count :
  forall m, Inv m -> num_interactions m = length (p_quad (abs m)).
Proof. exact num_interactions_exact. Qed.
Print Assumptions C20_num_interactions_is_term_count.

(* ---------- non-vacuity ---------- *)
Definition ex_model : qm :=
  add_quadratic 1 1 (qc 5 1)            (* self loop on the INTEGER variable *)
    (add_quadratic 0 0 (qc 9 1)         (* BINARY self loop: goes to the linear bias *)
      (add_quadratic 2 0 (qc (-3) 2)
        (add_quadratic 0 1 (qc 2 1)
          (add_quadratic 1 2 (qc 7 1)
            (add_linear 1 (qc 4 1)
              (add_variable SPIN (add_variable INTEGER (add_variable BINARY empty_qm)))))))).

Example C20_example_inv : Inv ex_model.
Proof. vm_compute. reflexivity. Qed.

Example C20_example_shape :
  adj ex_model = [ [(1, qc 2 1); (2, qc (-3) 2)];
                   [(0, qc 2 1); (1, qc 5 1); (2, qc 7 1)];
                   [(0, qc (-3) 2); (1, qc 7 1)] ]
  /\ lin ex_model = [qc 9 1; qc 4 1; 0%Qc] /\ num_interactions ex_model = 4.
Proof. vm_compute. repeat split; reflexivity. Qed.

Example C20_example_after_edits :
  Inv (fold_left cstep
         [CAddVar BINARY; CAddVar INTEGER; CAddVar SPIN; CAddVar REAL;
          CAddQuad 3 0 (qc 1 2); CAddQuad 1 1 (qc 5 1); CAddQuad 2 1 (qc 7 1);
          CSetQuad 0 2 (qc 3 1); CAddQuadBack 1 3 (qc 1 1); CSubst 1 (qc 2 1) (qc (-1) 1);
          CRemInt 2 1; CFix 0 (qc 1 1); CRemVar 1; CResize REAL 5; CScale (qc 1 3)] empty_qm)
  /\ nvars (fold_left cstep
         [CAddVar BINARY; CAddVar INTEGER; CAddVar SPIN; CAddVar REAL;
          CAddQuad 3 0 (qc 1 2); CAddQuad 1 1 (qc 5 1); CAddQuad 2 1 (qc 7 1);
          CSetQuad 0 2 (qc 3 1); CAddQuadBack 1 3 (qc 1 1); CSubst 1 (qc 2 1) (qc (-1) 1);
          CRemInt 2 1; CFix 0 (qc 1 1); CRemVar 1; CResize REAL 5; CScale (qc 1 3)] empty_qm) = 5.
Proof. vm_compute. split; reflexivity. Qed.

(* the invariant is not vacuous the other way either: it rejects a one-sided entry *)
Example C20_example_rejects :
  inv_b (mkQM [0%Qc; 0%Qc] [[(1, qc 1 1)]; []] 0%Qc [INTEGER; INTEGER]) = false.
Proof. vm_compute. reflexivity. Qed.

(* ------------------------------------------------------------------------
   Additions of Model/AdjMore.v and the multi-object step of Model/ChkC20.v
   (the step function the correspondence check runs): bulk removal, clear,
   copy / move / swap as value permutations.
   ------------------------------------------------------------------------ *)
From Dimod Require Import Model.AdjMore Model.ChkC20 Proofs.AdjMoreFacts.
Local Open Scope nat_scope.

(* utils.h remove_by_index on sorted distinct indices = erase one index at a
   time, the largest first (fold_right erases the last list element first) *)
Theorem C20_remove_by_index_is_iterated_erase :
  forall (A : Type) (l : list A) (vs : list nat),
    StronglySorted lt vs ->
    remove_by_index 0 l vs = fold_right (fun v acc => del_nth v acc) l vs.
Proof. exact @remove_by_index_iterated. Qed.
Print Assumptions C20_remove_by_index_is_iterated_erase.

(* an index the cursor has already passed (unsorted / duplicate input) is silently ignored *)
Theorem C20_remove_by_index_ignores_stale_index :
  forall (A : Type) (loc : nat) (l : list A) (v : nat) (vs : list nat),
    v < loc -> remove_by_index loc l (v :: vs) = l.
Proof. exact @remove_by_index_stale. Qed.
Print Assumptions C20_remove_by_index_ignores_stale_index.

Theorem C20_remove_by_index_length :
  forall (A : Type) (l : list A) (vs : list nat),
    StronglySorted lt vs -> Forall (fun v => v < length l) vs ->
    length (remove_by_index 0 l vs) = length l - length vs.
Proof. exact @remove_by_index_length. Qed.
Print Assumptions C20_remove_by_index_length.

(* remove_variables keeps the three parallel vectors of a model the same length *)
Theorem C20_remove_variables_lengths :
  forall vs m,
    StronglySorted lt vs -> Forall (fun v => v < nvars m) vs ->
    length (adj m) = nvars m -> length (vts m) = nvars m ->
    nvars (remove_variables_sorted vs m) = nvars m - length vs
    /\ length (adj (remove_variables_sorted vs m)) = nvars m - length vs
    /\ length (vts (remove_variables_sorted vs m)) = nvars m - length vs.
Proof. exact remove_variables_sorted_lengths. Qed.
Print Assumptions C20_remove_variables_lengths.

(* base operations, clear, copy, move (source cleared or re-assigned), swap and
   reads keep the invariant of EVERY object, for any history from the initial objects *)
Theorem C20_value_ops_preserve_inv :
  forall st o, value_op o -> all_inv st -> all_inv (fst (xstep st o)).
Proof. exact value_ops_preserve_inv. Qed.
Print Assumptions C20_value_ops_preserve_inv.

Theorem C20_value_ops_reachable :
  forall ops, Forall value_op ops ->
    all_inv (fold_left (fun st o => fst (xstep st o)) ops init_state).
Proof. exact value_ops_reachable. Qed.
Print Assumptions C20_value_ops_reachable.

Theorem C20_swap_involutive :
  forall st a b, a < length st -> b < length st ->
    fst (xstep (fst (xstep st (XSwap a b))) (XSwap a b)) = st.
Proof. exact swap_involutive. Qed.
Print Assumptions C20_swap_involutive.

Theorem C20_clear_is_empty :
  forall st s, s < length st ->
    Inv (sm (get (fst (xstep st (XClear s))) s))
    /\ nvars (sm (get (fst (xstep st (XClear s))) s)) = 0
    /\ sb (get (fst (xstep st (XClear s))) s) = [].
Proof. exact clear_is_empty. Qed.
Print Assumptions C20_clear_is_empty.

(* non-trivial data: bulk removal of {1,3} from the 5-variable example, unsorted argument,
   equals removing 3 then 1, and keeps the invariant; dense construction; substitute_variables *)
Definition ex5 : qm :=
  fold_left cstep
    [CAddVar BINARY; CAddVar INTEGER; CAddVar SPIN; CAddVar INTEGER; CAddVar REAL;
     CAddQuad 0 1 (qc 1 2); CAddQuad 1 1 (qc 5 1); CAddQuad 3 1 (qc 7 1); CAddQuad 4 3 (qc 3 1);
     CAddQuad 2 4 (qc (-2) 1); CAddQuad 0 3 (qc 1 4); CAddLin 3 (qc 9 1)] empty_qm.

Example C20_example_bulk_removal :
  remove_variables [3; 1] ex5 = remove_variable 1 (remove_variable 3 ex5)
  /\ Inv (remove_variables [3; 1] ex5)
  /\ adj (remove_variables [3; 1] ex5) = [ []; [(2, qc (-2) 1)]; [(1, qc (-2) 1)] ].
Proof. vm_compute. repeat split; reflexivity. Qed.

Example C20_example_dense_and_substitute :
  Inv (add_quadratic_from_dense 3 [qc 1 1; qc 2 1; 0%Qc; qc 1 2; qc 3 1; 0%Qc; 0%Qc; qc (-1) 1; qc 4 1]
         (resize INTEGER 3 empty_qm))
  /\ Inv (substitute_variables (qc 2 1) (qc (-1) 1) ex5)
  /\ fst (remove_interactions (fun u v _ => (u =? 1) || (v =? 1)) ex5)
     = fst (remove_interaction 1 3 (fst (remove_interaction 1 1 (fst (remove_interaction 0 1 ex5))))).
Proof. vm_compute. repeat split; reflexivity. Qed.

(* ------------------------------------------------------------------------
   Every operation of Model/AdjMore.v keeps the invariant (Proofs/AdjMoreInv.v)
   ------------------------------------------------------------------------ *)
From Dimod Require Import Proofs.AdjMoreInv.
Local Open Scope nat_scope.

(* bulk removal on sorted distinct in-range indices IS iterated remove_variable, largest first *)
Theorem C20_remove_variables_is_iterated :
  forall vs m, Inv m -> StronglySorted lt vs -> Forall (fun v => v < nvars m) vs ->
    remove_variables_sorted vs m = fold_right remove_variable m vs
    /\ Inv (remove_variables_sorted vs m)
    /\ nvars (remove_variables_sorted vs m) = nvars m - length vs.
Proof. exact remove_variables_sorted_iterated. Qed.
Print Assumptions C20_remove_variables_is_iterated.

(* remove_variables as called: distinct in-range indices in any order (sorted first) *)
Theorem C20_inv_remove_variables :
  forall vars m, Inv m -> NoDup vars -> Forall (fun v => v < nvars m) vars ->
    Inv (remove_variables vars m) /\ nvars (remove_variables vars m) = nvars m - length vars.
Proof. exact Inv_remove_variables. Qed.
Print Assumptions C20_inv_remove_variables.

Theorem C20_inv_remove_interactions :
  forall f m, sym_filter f -> Inv m -> Inv (fst (remove_interactions f m)).
Proof. exact Inv_remove_interactions. Qed.
Print Assumptions C20_inv_remove_interactions.

(* on a linear model the add_quadratic_back branch meets its ordering promise at every step:
   both branches perform the same add_quadratic calls *)
Theorem C20_dense_branches_agree :
  forall n d m, Inv m -> n <= nvars m ->
    add_quadratic_from_dense n d m = add_quadratic_coo (dense_terms n d) m.
Proof. exact add_quadratic_from_dense_is_coo. Qed.
Print Assumptions C20_dense_branches_agree.

Theorem C20_inv_add_quadratic_from_dense :
  forall n d m, Inv m -> n <= nvars m ->
    Inv (add_quadratic_from_dense n d m) /\ nvars (add_quadratic_from_dense n d m) = nvars m
    /\ vts (add_quadratic_from_dense n d m) = vts m.
Proof. exact Inv_add_quadratic_from_dense. Qed.
Print Assumptions C20_inv_add_quadratic_from_dense.

Theorem C20_inv_coo_qm :
  forall l m, Inv m -> coo_in_range (nvars m) l -> Inv (add_quadratic_coo l m).
Proof. exact Inv_add_quadratic_coo_qm. Qed.
Print Assumptions C20_inv_coo_qm.

(* the BQM overload grows itself: no precondition on the indices at all *)
Theorem C20_inv_coo_bqm : forall t l m, Inv m -> Inv (add_quadratic_coo_bqm t l m).
Proof. exact Inv_add_quadratic_coo_bqm. Qed.
Print Assumptions C20_inv_coo_bqm.

Theorem C20_inv_substitute_variables : forall k c m, Inv m -> Inv (substitute_variables k c m).
Proof. exact Inv_substitute_variables. Qed.
Print Assumptions C20_inv_substitute_variables.

Theorem C20_inv_bqm_change_vartype :
  forall cur target m, Inv m -> all_binspin m -> Inv (fst (fst (bqm_change_vartype cur target m))).
Proof. exact Inv_bqm_change_vartype. Qed.
Print Assumptions C20_inv_bqm_change_vartype.

Theorem C20_inv_qm_change_vartype :
  forall t v m b, Inv m -> v < nvars m -> Inv (fst (fst (qm_change_vartype t v m b))).
Proof. exact Inv_qm_change_vartype. Qed.
Print Assumptions C20_inv_qm_change_vartype.

(* every operation the correspondence check executes, within the precondition `xpre`
   evaluated on the state it meets, keeps the invariant of all four objects *)
Theorem C20_xstep_preserves_inv :
  forall st o, all_inv st -> xpre st o -> all_inv (fst (xstep st o)).
Proof. exact xstep_preserves_inv. Qed.
Print Assumptions C20_xstep_preserves_inv.

Theorem C20_xstep_reachable :
  forall ops, xrun_pre init_state ops ->
    all_inv (fold_left (fun st o => fst (xstep st o)) ops init_state).
Proof. exact xstep_reachable_init. Qed.
Print Assumptions C20_xstep_reachable.

(* the hypotheses are satisfiable on a non-trivial history using every kind of operation *)
Example C20_example_full_history :
  let ops := [XB 0 (CAddVar INTEGER); XAddVars 0 BINARY 3 None; XB 0 (CAddQuad 0 0 (qc 3 2));
              XDense 0 3 [qc 1 1; qc 2 1; 0%Qc; qc 1 2; 0%Qc; qc 3 1; 0%Qc; 0%Qc; qc 4 1];
              XCoo 0 [(3, 1, qc 1 1); (0, 2, qc (-1) 1)]; XRemInts 0 1 1 0%Qc; XSubstAll 0 (qc 2 1) (qc (-1) 1);
              XChVt 0 SPIN 1; XRemVars 0 [2; 0]; XCopy 1 0; XSwap 0 1;
              XCoo 2 [(4, 1, qc 1 1)]; XChVt 2 SPIN 0; XQmOfBqm 1 2; XDenseCtor 3 2 SPIN [0%Qc; qc 1 1; qc 1 1; 0%Qc]] in
  nvars (sm (get (fold_left (fun st o => fst (xstep st o)) ops init_state) 1)) = 5
  /\ forallb (fun x => inv_b (sm x)) (fold_left (fun st o => fst (xstep st o)) ops init_state) = true.
Proof. vm_compute. split; reflexivity. Qed.

(* ---------- counts for the extended operations ---------- *)
Theorem C20_is_linear_iff_degrees_zero : forall m, is_linear m = true <-> forall v, degree m v = 0.
Proof. exact is_linear_degree. Qed.
Print Assumptions C20_is_linear_iff_degrees_zero.

Theorem C20_is_linear_no_interactions : forall m, is_linear m = true -> num_interactions m = 0.
Proof. exact is_linear_num_interactions. Qed.
Print Assumptions C20_is_linear_no_interactions.

(* substitute_variables (hence BQM change_vartype) leaves every count unchanged *)
Theorem C20_counts_substitute_variables :
  forall k c m, length (adj m) = nvars m ->
    (forall v, degree (substitute_variables k c m) v = degree m v)
    /\ is_linear (substitute_variables k c m) = is_linear m
    /\ num_interactions (substitute_variables k c m) = num_interactions m.
Proof. exact counts_substitute_variables. Qed.
Print Assumptions C20_counts_substitute_variables.

Theorem C20_counts_remove_interactions :
  forall f m, (forall v, degree (fst (remove_interactions f m)) v <= degree m v)
    /\ (is_linear m = true -> is_linear (fst (remove_interactions f m)) = true).
Proof. exact counts_remove_interactions. Qed.
Print Assumptions C20_counts_remove_interactions.

(* ------------------------------------------------------------------------
   Unconditional form (Proofs/AdjMoreBqm.v): every reachable BinaryQuadraticModel
   object carries only BINARY/SPIN variables, so no all_binspin hypothesis is left.
   ------------------------------------------------------------------------ *)
From Dimod Require Import Proofs.AdjMoreBqm Gen.Gen_QmLimits.
Local Open Scope nat_scope.

(* slot_ok: Inv, and for a BQM object all variables and the object's own vartype are BINARY/SPIN;
   xpre2: the documented argument preconditions + the driver's typing (QM-only calls on QM objects,
   a BQM is constructed BINARY or SPIN) - nothing about the vartypes stored in an object *)
Theorem C20_xstep_preserves_ok :
  forall st o, all_ok st -> xpre2 st o -> all_ok (fst (xstep st o)).
Proof. exact xstep_preserves_ok. Qed.
Print Assumptions C20_xstep_preserves_ok.

Theorem C20_xstep_reachable_unconditional :
  forall ops, xrun_pre2 init_state ops ->
    all_inv (fold_left (fun st o => fst (xstep st o)) ops init_state)
    /\ all_ok (fold_left (fun st o => fst (xstep st o)) ops init_state).
Proof. exact xstep_reachable_unconditional. Qed.
Print Assumptions C20_xstep_reachable_unconditional.

Theorem C20_bqm_ops_keep_binspin :
  forall m o, vts_bs m -> (match o with CAddVar t | CResize t _ => bs t | _ => True end) -> vts_bs (cstep m o).
Proof. exact vts_bs_cstep. Qed.
Print Assumptions C20_bqm_ops_keep_binspin.

(* the catalogue operations that had no statement of their own yet *)
Theorem C20_inv_set_vartype :
  forall v t m, Inv m -> (is_binspin t = true -> nb_get v (nb m v) = None) -> Inv (set_vt v t m).
Proof. exact Inv_set_vt. Qed.
Print Assumptions C20_inv_set_vartype.

Theorem C20_inv_add_variables :
  forall t k m, Inv m -> Inv (fold_left (fun acc (_ : nat) => add_variable t acc) (seq 0 k) m).
Proof. exact Inv_add_variables_n. Qed.
Print Assumptions C20_inv_add_variables.

Theorem C20_inv_qm_of_bqm :
  forall m t, Inv m -> vts_bs m -> Inv (mkQM (lin m) (adj m) (off m) (repeat t (nvars m))).
Proof. exact Inv_qm_of_bqm. Qed.
Print Assumptions C20_inv_qm_of_bqm.

(* functional specifications: what a lookup returns after the call *)
Theorem C20_get_remove_interactions :
  forall f m x y, Inv m ->
    nb_get y (nb (fst (remove_interactions f m)) x)
    = match nb_get y (nb m x) with Some b => if f x y b then None else Some b | None => None end.
Proof. exact get_remove_interactions. Qed.
Print Assumptions C20_get_remove_interactions.

Theorem C20_get_substitute_variables :
  forall k c m x y, length (adj m) = nvars m ->
    nb_get y (nb (substitute_variables k c m) x) = option_map (Qcmult (k * k)) (nb_get y (nb m x)).
Proof. exact get_substitute_variables. Qed.
Print Assumptions C20_get_substitute_variables.

(* tie: the default bounds of the model are the table generated from vartypes.h *)
Theorem C20_default_bounds_generated : forall t, default_bounds t = (gen_dflt_lb t, gen_dflt_ub t).
Proof. exact default_bounds_generated. Qed.
Print Assumptions C20_default_bounds_generated.

(* ------------------------------------------------------------------------
   Energy level: AdjMore.substitute_variables is g11's loop-shaped mirror
   (Model/AdjSubstAll.v), so its energy theorems hold for the function this check
   evaluates (Proofs/AdjMoreEnergy.v re-exports, nothing is re-proved).
   ------------------------------------------------------------------------ *)
From Dimod Require Import Proofs.AdjMoreEnergy.
From Dimod Require Model.AdjSubstAll.
Local Open Scope nat_scope.

Theorem C20_substitute_variables_is_loop_mirror :
  forall k c m, length (adj m) = nvars m ->
    AdjMore.substitute_variables k c m = AdjSubstAll.substitute_variables k c m.
Proof. exact substitute_variables_same. Qed.
Print Assumptions C20_substitute_variables_is_loop_mirror.

Theorem C20_substitute_variables_energy :
  forall k c m s, Inv m -> (forall u, u < nvars m -> has_interaction m u u = false) ->
    energy_adj (AdjMore.substitute_variables k c m) s = energy_adj m (fun i => (k * s i + c)%Qc).
Proof. exact substitute_variables_energy_C20. Qed.
Print Assumptions C20_substitute_variables_energy.

Theorem C20_bqm_change_vartype_energy :
  forall cur m s, Inv m -> all_binspin m ->
    (cur <> SPIN ->
     energy_adj (fst (fst (AdjMore.bqm_change_vartype cur SPIN m))) s = energy_adj m (fun i => (half * s i + half)%Qc))
    /\ (cur <> BINARY ->
        energy_adj (fst (fst (AdjMore.bqm_change_vartype cur BINARY m))) s = energy_adj m (fun i => (two * s i + - (1))%Qc))
    /\ energy_adj (fst (fst (AdjMore.bqm_change_vartype cur cur m))) s = energy_adj m s.
Proof. exact bqm_change_vartype_energy_C20. Qed.
Print Assumptions C20_bqm_change_vartype_energy.

(* ------------------------------------------------------------------------
   Expression / Constraint / ConstrainedQuadraticModel: the functions of
   Model/ChkC20Cqm.v that are not operations of g9's ExprOps (proofs in
   Proofs/ChkC20CqmFacts.v).  Inside a module because Model/Expr.v and
   Model/Adj.v define list helpers of the same name; the module is exported.
   ------------------------------------------------------------------------ *)
From Dimod Require Model.Expr Model.ExprOps Model.ChkC20Cqm Proofs.ExprFacts Proofs.ChkC20CqmFacts
  Model.FixCopy Proofs.FixCopyFacts Proofs.C20FixEnergy.
Module Cqm.
Import Dimod.Model.Expr Dimod.Model.ExprOps Dimod.Model.ChkC20Cqm Dimod.Proofs.ExprFacts Dimod.Proofs.ChkC20CqmFacts.
Local Open Scope Qc_scope.

Theorem C20_expr_set_quadratic_inv :
  forall n vt e u v b, ExprInv n e -> (u < n)%nat -> (v < n)%nat -> ExprInv n (m_set_quadratic vt u v b e).
Proof. exact set_quadratic_inv. Qed.
Print Assumptions C20_expr_set_quadratic_inv.

(* unless the call throws (BINARY/SPIN self-loop), the pair then carries exactly the bias that was set *)
Theorem C20_expr_set_quadratic_reads :
  forall n vt e u v b, ExprInv n e -> (u < n)%nat -> (v < n)%nat ->
    let i := snd (enforce u (fst (enforce v e))) in
    let j := snd (enforce v e) in
    ((i =? j)%nat && binspin (vt (nth i (e_vars (fst (enforce u (fst (enforce v e))))) 0%nat))) = false ->
    pair_sum (e_quad (m_set_quadratic vt u v b e)) i j = b
    /\ pair_present (e_quad (m_set_quadratic vt u v b e)) i j = true.
Proof. exact set_quadratic_reads. Qed.
Print Assumptions C20_expr_set_quadratic_reads.

Theorem C20_expr_fix_variable_inv : forall n e v a, ExprInv n e -> ExprInv n (m_fix_variable v a e).
Proof. exact fix_variable_inv. Qed.
Print Assumptions C20_expr_fix_variable_inv.

Theorem C20_expr_fix_variable_forgets : forall n e v a, ExprInv n e -> ~ In v (e_vars (m_fix_variable v a e)).
Proof. exact fix_variable_forgets. Qed.
Print Assumptions C20_expr_fix_variable_forgets.

Theorem C20_expr_scale_inv : forall n k e, ExprInv n e -> ExprInv n (m_scale k e).
Proof. exact scale_inv. Qed.
Print Assumptions C20_expr_scale_inv.

Theorem C20_expr_scale_energy : forall k e s, energy (abs_expr (m_scale k e)) s = k * energy (abs_expr e) s.
Proof. exact scale_energy. Qed.
Print Assumptions C20_expr_scale_energy.

(* Constraint::scale with its LE/GE flip for a negative factor: same satisfying samples *)
Theorem C20_constraint_scale_keeps_meaning :
  forall k c s, k <> 0 -> (holds (con_scale k c) s <-> holds c s).
Proof. exact con_scale_holds. Qed.
Print Assumptions C20_constraint_scale_keeps_meaning.

Theorem C20_remove_constraints_if_ok : forall n p l, cons_ok n l -> cons_ok n (filter p l).
Proof. exact remove_constraints_if_ok. Qed.
Print Assumptions C20_remove_constraints_if_ok.

Theorem C20_remove_constraints_if_spec :
  forall (p : mcon -> bool) l k, In k (filter (fun c => negb (p c)) l) <-> In k l /\ p k = false.
Proof. exact remove_constraints_if_spec. Qed.
Print Assumptions C20_remove_constraints_if_spec.

Theorem C20_is_onehot_spec :
  forall vt c, is_onehot vt c = true <->
    e_quad (mc_e c) = [] /\ (2 <= length (e_vars (mc_e c)))%nat /\ mc_sense c = 2%nat /\ e_off (mc_e c) = 0
    /\ (forall v, In v (e_vars (mc_e c)) -> vt v = BINARY) /\ (forall l, In l (e_lin (mc_e c)) -> l = mc_rhs c).
Proof. exact is_onehot_spec. Qed.
Print Assumptions C20_is_onehot_spec.

(* the value compared with Expression::energy is the energy of the polynomial the expression stands for *)
Theorem C20_model_energy_is_energy :
  forall n e x, ExprInv n e -> model_energy e x = energy (abs_expr e) (fun v => nth v x 0).
Proof. exact model_energy_is_energy. Qed.
Print Assumptions C20_model_energy_is_energy.

(* the copying fix_variables path: every expression of the new model is well formed over the new
   variable count, which is the number of unfixed variables; the constraints are all kept *)
Theorem C20_fix_variables_copy_ok :
  forall vs asg q,
    let q' := cqm_fix_variables vs asg q in
    ExprInv (length (m_info q')) (m_obj q') /\ cons_ok (length (m_info q')) (m_cons q')
    /\ length (m_info q') = count_free (length (m_info q)) vs
    /\ length (m_cons q') = length (m_cons q).
Proof. exact cqm_fix_variables_ok. Qed.
Print Assumptions C20_fix_variables_copy_ok.

Theorem C20_fix_expr_inv :
  forall K vt' o2n a e,
    (forall v nv, nth v o2n None = Some nv -> (nv < K)%nat) -> ExprInv K (fix_expr vt' o2n a e).
Proof. exact fix_expr_inv. Qed.
Print Assumptions C20_fix_expr_inv.

(* non-trivial data *)
Example C20_example_scale_flip :
  let c := mkMC (m_add_linear 1 (qc 3 1) (m_add_linear 0 (qc 2 1) e_empty)) 0%nat (qc 4 1) None 0%nat false in
  mc_sense (con_scale (qc (-2) 1) c) = 1%nat /\ mc_rhs (con_scale (qc (-2) 1) c) = qc (-8) 1
  /\ e_lin (mc_e (con_scale (qc (-2) 1) c)) = [qc (-4) 1; qc (-6) 1].
Proof. vm_compute. repeat split; reflexivity. Qed.


(* ---------- fixing = evaluating at the assignment (round 6): the VALUES of the three fixing paths ---------- *)
(* Expression::fix_variable (the variable leaves this expression only): the energy at any sample is the energy of the
   source with v := a; afterwards the value does not depend on the sample at v *)
Theorem C20_expr_fix_variable_energy :
  forall n e v a s, ExprInv n e -> energy (abs_expr (m_fix_variable v a e)) s = energy (abs_expr e) (upd s v a).
Proof. exact C20FixEnergy.fix_variable_energy. Qed.
Print Assumptions C20_expr_fix_variable_energy.

Theorem C20_expr_fix_variable_energy_indep :
  forall n e v a s x, ExprInv n e ->
    energy (abs_expr (m_fix_variable v a e)) (upd s v x) = energy (abs_expr (m_fix_variable v a e)) s.
Proof. exact C20FixEnergy.fix_variable_energy_indep. Qed.
Print Assumptions C20_expr_fix_variable_energy_indep.

(* the copying path: the C20 model fix_expr IS the C03 mirror of fix_variables_expr (Model/FixCopy.v) ... *)
Theorem C20_fix_expr_is_fix_variables_expr :
  forall n vt' o2n a e, ExprInv n e ->
    fix_expr vt' o2n a e = FixCopy.fix_variables_expr vt' e o2n (C20FixEnergy.asg_list n a).
Proof. exact C20FixEnergy.fix_expr_is_fix_variables_expr. Qed.
Print Assumptions C20_fix_expr_is_fix_variables_expr.

(* ... so its energy at a sample of the NEW model is the energy of the source at that sample extended by the fixed
   values (side condition: where add_quadratic_back folds a self interaction of a BINARY/SPIN variable the sample is
   in the domain; it is void for samples that respect the new vartypes) *)
Theorem C20_fix_expr_energy :
  forall n n' vt' o2n a e s', ExprInv n e -> FixCopyFacts.O2nOk n' o2n ->
    FixCopyFacts.FoldCond vt' s' (e_vars e) o2n (e_quad e) ->
    energy (abs_expr (fix_expr vt' o2n a e)) s'
    = energy (abs_expr e) (fun old => match nth old o2n None with None => a old | Some k => s' k end).
Proof. exact C20FixEnergy.fix_expr_energy. Qed.
Print Assumptions C20_fix_expr_energy.

(* the whole model through fix_variables(first, last, assignment): objective and every constraint *)
Theorem C20_fix_variables_copy_energy :
  forall vs asg q s',
    let n := length (m_info q) in
    let q' := cqm_fix_variables vs asg q in
    let lift := fun old => match nth old (old_to_new n vs) None with None => asg_of vs asg old | Some k => s' k end in
    respects (vt_info (m_info q')) s' ->
    ExprInv n (m_obj q) -> cons_ok n (m_cons q) ->
    energy (abs_expr (m_obj q')) s' = energy (abs_expr (m_obj q)) lift
    /\ map (fun k => energy (abs_expr (mc_e k)) s') (m_cons q')
       = map (fun k => energy (abs_expr (mc_e k)) lift) (m_cons q).
Proof. exact C20FixEnergy.cqm_fix_variables_energy. Qed.
Print Assumptions C20_fix_variables_copy_energy.

(* the index-level op MFixVariable of ExprOps.mstep (substitute_variable(v, 0, a); remove_variable(v), indices above v
   drop by one): objective and every constraint *)
Theorem C20_mstep_fix_variable_energy :
  forall q v a s, (v < length (m_info q))%nat ->
    ExprInv (length (m_info q)) (m_obj q) -> cons_ok (length (m_info q)) (m_cons q) ->
    let q' := mstep q (MFixVariable v a) in
    let lift := upd (fun u => s (shift v u)) v a in
    energy (abs_expr (m_obj q')) s = energy (abs_expr (m_obj q)) lift
    /\ map (fun k => energy (abs_expr (mc_e k)) s) (m_cons q')
       = map (fun k => energy (abs_expr (mc_e k)) lift) (m_cons q).
Proof. exact C20FixEnergy.mstep_fix_variable_energy. Qed.
Print Assumptions C20_mstep_fix_variable_energy.

(* non-trivial data: 2 x0 + 3 x1 + 5 x0 x1 + 7 x1 x2 - 1 with x1 := 1/2 through both paths *)
Example C20_example_fix_paths :
  let vt := fun _ : nat => INTEGER in
  let e := m_add_offset (qc (-1) 1) (m_add_quadratic vt 1 2 (qc 7 1) (m_add_quadratic vt 0 1 (qc 5 1)
             (m_add_linear 1 (qc 3 1) (m_add_linear 0 (qc 2 1) e_empty)))) in
  let s := fun w : nat => match w with 0%nat => qc 3 1 | 1%nat => qc 100 1 | _ => qc (-2) 1 end in
  let s' := fun w : nat => match w with 0%nat => qc 3 1 | _ => qc (-2) 1 end in
  Qc_eqb (energy (abs_expr (m_fix_variable 1 (qc 1 2) e)) s) (energy (abs_expr e) (upd s 1%nat (qc 1 2))) = true
  /\ Qc_eqb (energy (abs_expr (m_fix_variable 1 (qc 1 2) e)) s) (qc 7 1) = true
  /\ Qc_eqb (energy (abs_expr (fix_expr vt [Some 0%nat; None; Some 1%nat] (fun _ => qc 1 2) e)) s') (qc 7 1) = true.
Proof. vm_compute. repeat split; reflexivity. Qed.

End Cqm.
Export Cqm.

(* ---------- 9. the native state of cyDiscreteQuadraticModel (Model/DqmNative.v) ----------
   adj_ (per variable the sorted vector of neighbouring variables), case_starts_ and the case-level BQM under the calls
   reachable from Python; the worker's py_dqm stream compares all three after every call (Model/ChkC20Dqm.v). *)
From Dimod Require Model.DqmNative Proofs.DqmNativeFacts Proofs.DqmRoundTrip Proofs.DqmReads Proofs.DqmReadBack
  Proofs.DqmRoundTripId Proofs.DqmEnergyFull Proofs.DqmOneHot Model.DqmReadsChecked Proofs.DqmReadsMore Proofs.DqmReadsArray Proofs.DqmReadsOrder.
Module Dqm.
Import Dimod.Model.DqmNative Dimod.Proofs.DqmNativeFacts.
Local Open Scope nat_scope.

(* std::lower_bound + `== end or *low != x` is membership, insert at the lower bound keeps the vector strictly sorted *)
Theorem C20_dqm_lower_bound_is_membership :
  forall x l, sorted_nat l = true -> (lb_has x l = true <-> In x l).
Proof. exact lb_has_In. Qed.
Print Assumptions C20_dqm_lower_bound_is_membership.

Theorem C20_dqm_insert_at_lower_bound_sorted :
  forall x l, sorted_nat l = true -> lb_has x l = false -> sorted_nat (lb_ins x l) = true.
Proof. exact lb_ins_sorted. Qed.
Print Assumptions C20_dqm_insert_at_lower_bound_sorted.

Theorem C20_dqm_insert_at_lower_bound_members :
  forall x y l, In y (lb_ins x l) <-> y = x \/ In y l.
Proof. exact In_lb_ins. Qed.
Print Assumptions C20_dqm_insert_at_lower_bound_members.

(* what the executable adjacency check says: every row strictly sorted, in bounds, self-free, symmetric *)
Theorem C20_dqm_adj_wf_meaning :
  forall a, adj_wf_b a = true <->
    forall u, u < length a ->
      sorted_nat (nth u a []) = true /\
      forall v, In v (nth u a []) -> v < length a /\ v <> u /\ In u (nth v a []).
Proof. exact adj_wf_b_iff. Qed.
Print Assumptions C20_dqm_adj_wf_meaning.

(* "track in adjacency" of set_quadratic / set_quadratic_case, for either argument order *)
Theorem C20_dqm_track_keeps_adjacency :
  forall u v a, AdjWf a -> u < length a -> v < length a -> u <> v -> AdjWf (track u v a).
Proof. exact track_wf. Qed.
Print Assumptions C20_dqm_track_keeps_adjacency.

Theorem C20_dqm_track_exact :
  forall u v a w x, AdjWf a -> u < length a -> v < length a -> u <> v ->
    (In x (nth w (track u v a) []) <-> In x (nth w a []) \/ (w = u /\ x = v) \/ (w = v /\ x = u)).
Proof. exact track_frame. Qed.
Print Assumptions C20_dqm_track_exact.

(* inserting the neighbour at lower_bound(v) instead of lower_bound(u) - the slip this stream was added for - breaks it *)
Theorem C20_dqm_track_wrong_bound_breaks :
  adj_wf_b (track_bad 2 0 (track_bad 0 1 [[];[];[]])) = false
  /\ track_bad 2 0 (track_bad 0 1 [[];[];[]]) = [[2;1];[0];[0]]
  /\ adj_wf_b (track 2 0 (track 0 1 [[];[];[]])) = true.
Proof. exact track_wrong_bound_breaks. Qed.
Print Assumptions C20_dqm_track_wrong_bound_breaks.

(* the whole invariant, readable *)
Theorem C20_dqm_invariant_meaning :
  forall d, DInv d <->
    Inv (d_b d) /\
    forallb (vartype_eqb BINARY) (vts (d_b d)) = true /\
    length (d_st d) = S (d_nvars d) /\
    hd 1 (d_st d) = 0 /\
    starts_ok (d_st d) = true /\
    last (d_st d) 0 = nvars (d_b d) /\
    AdjWf (d_adj d) /\
    (forall ci w, ci < nvars (d_b d) -> In w (map fst (nb (d_b d) ci)) ->
       var_of d ci <> var_of d w /\ lb_has (var_of d w) (d_nb d (var_of d ci)) = true).
Proof. exact DInv_iff. Qed.
Print Assumptions C20_dqm_invariant_meaning.

(* the "finally fix the adjacency" merge loop of add_linear_equality_constraint *)
Theorem C20_dqm_fix_walk_is_sorted_union :
  forall v vars adj x, sorted_nat vars = true -> sorted_nat adj = true ->
    (In x (fix_walk (S (length vars + length adj)) v vars adj) <-> In x adj \/ (In x vars /\ x <> v)).
Proof. exact fix_walk_union. Qed.
Print Assumptions C20_dqm_fix_walk_is_sorted_union.

Theorem C20_dqm_fix_adjacency_keeps_adjacency :
  forall vars a, AdjWf a -> sorted_nat vars = true -> (forall x, In x vars -> x < length a) -> AdjWf (fix_adjacency vars a).
Proof. exact fix_adjacency_wf. Qed.
Print Assumptions C20_dqm_fix_adjacency_keeps_adjacency.

(* every call except the to_numpy_vectors/from_numpy_vectors rebuild preserves the invariant (add_variable, set_linear,
   set_linear_case, set_quadratic_case, set_quadratic with a mapping or a dense array, add_linear_equality_constraint,
   the offset setter, copy), hence every state reachable by such calls has it *)
Theorem C20_dqm_step_preserves_invariant :
  forall d o, no_round_trip o = true -> DInv d -> dop_ok d o = true -> DInv (dstep d o).
Proof. exact dstep_preserves_DInv_all_but_round_trip. Qed.
Print Assumptions C20_dqm_step_preserves_invariant.

Theorem C20_dqm_invariant_reachable :
  forall ops d, DqmNativeFacts.run d_empty ops = Some d -> DInv d.
Proof. exact DInv_reachable. Qed.
Print Assumptions C20_dqm_invariant_reachable.

(* the to_numpy_vectors -> _from_numpy_vectors rebuild: the COO dump, add_quadratic_from_coo on an empty BQM, the rebuild
   of adj_ from the case neighbourhoods; the rebuilt BQM is well formed, has the same size and no interaction the
   original did not have, and the whole invariant holds again *)
Theorem C20_dqm_round_trip_bqm :
  forall d, DInv d ->
    (Inv (d_b (round_trip d)) /\ forallb (vartype_eqb BINARY) (vts (d_b (round_trip d))) = true
     /\ (forall ci w, In w (map fst (nb (d_b (round_trip d)) ci)) -> In w (map fst (nb (d_b d) ci))))
    /\ nvars (d_b (round_trip d)) = nvars (d_b d).
Proof. exact DqmRoundTrip.round_trip_bqm_ok. Qed.
Print Assumptions C20_dqm_round_trip_bqm.

Theorem C20_dqm_round_trip_preserves_invariant : forall d, DInv d -> DInv (round_trip d).
Proof. exact DqmRoundTrip.round_trip_preserves_DInv. Qed.
Print Assumptions C20_dqm_round_trip_preserves_invariant.

(* after the rebuild adj_ is exactly the projection of the case interactions *)
Theorem C20_dqm_round_trip_adjacency_exact :
  forall d u v, u < d_nvars d ->
    (In v (d_nb (round_trip d) u) <->
     exists ci w, d_start d u <= ci /\ ci < d_start d u + d_ncases d u
                  /\ In w (map fst (nb (d_b (round_trip d)) ci)) /\ v = var_of d w).
Proof. exact DqmRoundTrip.round_trip_adj_exact. Qed.
Print Assumptions C20_dqm_round_trip_adjacency_exact.

(* hence EVERY modelled call preserves the invariant, and every state reachable by calls within their preconditions has it *)
Theorem C20_dqm_every_step_preserves_invariant :
  forall d o, DInv d -> dop_ok d o = true -> DInv (dstep d o).
Proof. exact DqmRoundTrip.dstep_preserves_DInv_all. Qed.
Print Assumptions C20_dqm_every_step_preserves_invariant.

Theorem C20_dqm_invariant_reachable_unconditional :
  forall ops d, DqmRoundTrip.run_all d_empty ops = Some d -> DInv d.
Proof. exact DqmRoundTrip.DInv_reachable_all. Qed.
Print Assumptions C20_dqm_invariant_reachable_unconditional.

(* reads that binary-search adj_ or walk it *)
Theorem C20_dqm_get_quadratic_finds_recorded_pairs :
  forall d u v, DInv d -> u < d_nvars d -> (get_quadratic d u v = None <-> ~ In v (d_nb d u)).
Proof. exact DqmReads.get_quadratic_none_iff. Qed.
Print Assumptions C20_dqm_get_quadratic_finds_recorded_pairs.

Theorem C20_dqm_get_quadratic_presence_symmetric :
  forall d u v, DInv d -> u < d_nvars d -> v < d_nvars d -> (get_quadratic d u v = None <-> get_quadratic d v u = None).
Proof. exact DqmReads.get_quadratic_presence_symmetric. Qed.
Print Assumptions C20_dqm_get_quadratic_presence_symmetric.

Theorem C20_dqm_get_quadratic_lists_stored :
  forall d u v l cu cv x,
    DInv d -> u < d_nvars d -> v < d_nvars d -> cu < d_ncases d u -> cv < d_ncases d v ->
    get_quadratic d u v = Some l ->
    (In (cu, cv, x) l <-> nb_get (cs d v cv) (nb (d_b d) (cs d u cu)) = Some x).
Proof. exact DqmReads.get_quadratic_lists_stored. Qed.
Print Assumptions C20_dqm_get_quadratic_lists_stored.

(* energies: the `if v > u: break` walk over adj_[u] visits exactly the recorded neighbours below u, each pair once *)
Theorem C20_dqm_energy_walk_is_lower_triangle :
  forall d s, DInv d ->
    d_energy d s =
    (off (d_b d)
     + qsum (map (fun u => linear (d_b d) (cs d u (nth u s 0%nat))
                           + qsum (map (fun v => quadratic (d_b d) (cs d u (nth u s 0%nat)) (cs d v (nth v s 0%nat)))
                                       (filter (fun v => (v <? u)%nat) (d_nb d u))))
                 (seq 0 (d_nvars d))))%Qc.
Proof. exact DqmReads.d_energy_is_sum. Qed.
Print Assumptions C20_dqm_energy_walk_is_lower_triangle.

(* what set_quadratic_case writes is what get_quadratic reads, from either side, whatever the argument order *)
Theorem C20_dqm_set_quadratic_case_read_back :
  forall d u cu v cv b, DInv d -> dop_ok d (DSetQuadCase u cu v cv b) = true ->
    let d' := dstep d (DSetQuadCase u cu v cv b) in
    (exists l, get_quadratic d' u v = Some l /\ In (cu, cv, b) l)
    /\ (exists l, get_quadratic d' v u = Some l /\ In (cv, cu, b) l).
Proof. exact DqmReadBack.set_quadratic_case_read_back. Qed.
Print Assumptions C20_dqm_set_quadratic_case_read_back.


(* ---------- 9b. the rebuild loses nothing and changes no bias (round 6) ---------- *)
(* _from_numpy_vectors(to_numpy_vectors()) on a state satisfying the invariant: the rebuilt case-level BQM is EQUAL to
   the old one - linear vector, every neighbourhood (order and biases, zero biases included), offset, vartypes *)
Theorem C20_dqm_round_trip_bqm_identity : forall d, DInv d -> d_b (round_trip d) = d_b d.
Proof. exact DqmRoundTripId.round_trip_b_identity. Qed.
Print Assumptions C20_dqm_round_trip_bqm_identity.

Theorem C20_dqm_round_trip_case_starts : forall d, d_st (round_trip d) = d_st d.
Proof. exact DqmRoundTripId.round_trip_st. Qed.
Print Assumptions C20_dqm_round_trip_case_starts.

(* the whole rebuilt object: old BQM, old case starts, adj_ = the projection of the case interactions *)
Theorem C20_dqm_round_trip_whole_state :
  forall d, DInv d -> round_trip d = mkD (d_b d) (d_st d) (DqmRoundTrip.afc (d_st d) (d_nvars d) (d_b d)).
Proof. exact DqmRoundTripId.round_trip_eq. Qed.
Print Assumptions C20_dqm_round_trip_whole_state.

Theorem C20_dqm_round_trip_idempotent : forall d, DInv d -> round_trip (round_trip d) = round_trip d.
Proof. exact DqmRoundTripId.round_trip_idempotent. Qed.
Print Assumptions C20_dqm_round_trip_idempotent.

(* it is the identity exactly when adj_ recorded no pair of variables without a case interaction (an all-zero dense
   set_quadratic records such a pair) *)
Theorem C20_dqm_round_trip_identity_iff_tight :
  forall d, DInv d ->
    (round_trip d = d <->
     forall u v, u < d_nvars d -> In v (d_nb d u) ->
       exists ci w, d_start d u <= ci /\ ci < d_start d u + d_ncases d u
                    /\ In w (map fst (nb (d_b d) ci)) /\ v = var_of d w).
Proof. exact DqmRoundTripId.round_trip_identity_iff_tight. Qed.
Print Assumptions C20_dqm_round_trip_identity_iff_tight.

Theorem C20_dqm_round_trip_adjacency_subset :
  forall d u v, DInv d -> u < d_nvars d -> In v (d_nb (round_trip d) u) -> In v (d_nb d u).
Proof. exact DqmEnergyFull.round_trip_adj_subset. Qed.
Print Assumptions C20_dqm_round_trip_adjacency_subset.

(* energies reads the FULL case-level lower triangle: the pairs adj_ does not record have no stored bias *)
Theorem C20_dqm_unrecorded_pair_has_no_bias :
  forall d u v cu cv, DInv d -> u < d_nvars d -> v < d_nvars d -> cu < d_ncases d u -> cv < d_ncases d v ->
    ~ In v (d_nb d u) -> nb_get (cs d v cv) (nb (d_b d) (cs d u cu)) = None.
Proof. exact DqmEnergyFull.unrecorded_pair_zero. Qed.
Print Assumptions C20_dqm_unrecorded_pair_has_no_bias.

Theorem C20_dqm_energy_is_case_polynomial :
  forall d s, DInv d -> (forall u, u < d_nvars d -> nth u s 0%nat < d_ncases d u) ->
    d_energy d s =
    (off (d_b d)
     + qsum (map (fun u => linear (d_b d) (cs d u (nth u s 0%nat))
                           + qsum (map (fun v => quadratic (d_b d) (cs d u (nth u s 0%nat)) (cs d v (nth v s 0%nat)))
                                       (seq 0 u)))
                 (seq 0 (d_nvars d))))%Qc.
Proof. exact DqmEnergyFull.d_energy_full. Qed.
Print Assumptions C20_dqm_energy_is_case_polynomial.

Theorem C20_dqm_round_trip_keeps_energies :
  forall d s, DInv d -> (forall u, u < d_nvars d -> nth u s 0%nat < d_ncases d u) ->
    d_energy (round_trip d) s = d_energy d s.
Proof. exact DqmEnergyFull.round_trip_energy. Qed.
Print Assumptions C20_dqm_round_trip_keeps_energies.

(* get_quadratic after the rebuild: every answer is the old answer; a pair that is gone had nothing to list *)
Theorem C20_dqm_round_trip_keeps_get_quadratic :
  forall d u v l, DInv d -> u < d_nvars d ->
    get_quadratic (round_trip d) u v = Some l -> get_quadratic d u v = Some l.
Proof. exact DqmEnergyFull.round_trip_get_quadratic. Qed.
Print Assumptions C20_dqm_round_trip_keeps_get_quadratic.

Theorem C20_dqm_round_trip_drops_only_empty_pairs :
  forall d u v l, DInv d -> u < d_nvars d -> v < d_nvars d ->
    get_quadratic d u v = Some l -> get_quadratic (round_trip d) u v = None -> l = [].
Proof. exact DqmEnergyFull.round_trip_get_quadratic_dropped. Qed.
Print Assumptions C20_dqm_round_trip_drops_only_empty_pairs.

(* the COO dump of to_numpy_vectors: every entry is a stored interaction written (row, col) with col < row, and every
   stored interaction is listed exactly once, with its bias *)
Theorem C20_dqm_coo_dump_entries :
  forall b t, In t (to_coo b) ->
    fst (fst t) < nvars b /\ snd (fst t) < fst (fst t) /\ In (snd (fst t)) (map fst (nb b (fst (fst t)))).
Proof. exact DqmRoundTrip.to_coo_in. Qed.
Print Assumptions C20_dqm_coo_dump_entries.

Theorem C20_dqm_coo_dump_lists_each_interaction_once :
  forall b x y, Inv b -> y < x -> x < nvars b ->
    filter (fun t => same_pair x y (fst (fst t)) (snd (fst t))) (to_coo b)
    = match nb_get y (nb b x) with Some bias => [(x, y, bias)] | None => [] end.
Proof. exact DqmRoundTripId.to_coo_hits. Qed.
Print Assumptions C20_dqm_coo_dump_lists_each_interaction_once.

(* energies is the polynomial of the case-level BQM (Adj.abs) at the one-hot encoding of the sample *)
Theorem C20_dqm_energy_is_onehot_polynomial :
  forall d s, DInv d -> (forall u, u < d_nvars d -> nth u s 0%nat < d_ncases d u) ->
    d_energy d s
    = energy (abs (d_b d))
             (fun ci => if (ci =? cs d (var_of d ci) (nth (var_of d ci) s 0%nat))%nat then 1%Qc else 0%Qc).
Proof. exact DqmOneHot.d_energy_onehot. Qed.
Print Assumptions C20_dqm_energy_is_onehot_polynomial.

(* unconditional form: on every state reachable from the empty DQM by accepted calls the rebuild loses nothing *)
Theorem C20_dqm_reachable_round_trip_loses_nothing :
  forall ops d, DqmRoundTrip.run_all d_empty ops = Some d ->
    d_b (dstep d DRoundTrip) = d_b d /\ d_st (dstep d DRoundTrip) = d_st d
    /\ (forall s, (forall u, u < d_nvars d -> nth u s 0%nat < d_ncases d u) ->
                  d_energy (dstep d DRoundTrip) s = d_energy d s)
    /\ (forall u v l, u < d_nvars d -> get_quadratic (dstep d DRoundTrip) u v = Some l -> get_quadratic d u v = Some l).
Proof. exact DqmOneHot.reachable_round_trip_loses_nothing. Qed.
Print Assumptions C20_dqm_reachable_round_trip_loses_nothing.

(* ---------- 9c. order of the COO dump, get_quadratic_case, the rejection half of energies (round 6, follow-up) ---------- *)
(* to_numpy_vectors emits the interactions strictly sorted by (row case, col case) - rows ascending, inside a row the
   columns ascending, col < row (C20_dqm_coo_dump_entries) - so no (row, col) key occurs twice *)
Theorem C20_dqm_coo_dump_strictly_sorted :
  forall b, Inv b ->
    StronglySorted (fun t1 t2 : nat * nat * Qc =>
                      fst (fst t1) < fst (fst t2) \/ (fst (fst t1) = fst (fst t2) /\ snd (fst t1) < snd (fst t2)))
                   (to_coo b).
Proof. exact DqmReadsMore.to_coo_sorted. Qed.
Print Assumptions C20_dqm_coo_dump_strictly_sorted.

Theorem C20_dqm_coo_dump_keys_unique : forall b, Inv b -> NoDup (map fst (to_coo b)).
Proof. exact DqmReadsMore.to_coo_keys_NoDup. Qed.
Print Assumptions C20_dqm_coo_dump_keys_unique.

(* get_quadratic_case (Model/DqmReadsChecked.v; None = ValueError) raises exactly for an out-of-range case *)
Theorem C20_dqm_get_quadratic_case_rejects :
  forall d u cu v cv,
    DqmReadsChecked.get_quadratic_case d u cu v cv = None <-> ~ (cu < d_ncases d u /\ cv < d_ncases d v).
Proof. exact DqmReadsMore.get_quadratic_case_None_iff. Qed.
Print Assumptions C20_dqm_get_quadratic_case_rejects.

(* read after write: after set_quadratic_case(u, cu, v, cv, b) the case pair written reads b from either side and
   EVERY other case pair of any two variables reads what it read before *)
Theorem C20_dqm_get_quadratic_case_after_set :
  forall d u cu v cv b x cx y cy,
    DInv d -> dop_ok d (DSetQuadCase u cu v cv b) = true ->
    x < d_nvars d -> y < d_nvars d -> cx < d_ncases d x -> cy < d_ncases d y ->
    DqmReadsChecked.get_quadratic_case (dstep d (DSetQuadCase u cu v cv b)) x cx y cy
    = Some (if ((x =? u) && (cx =? cu) && ((y =? v) && (cy =? cv))) || ((x =? v) && (cx =? cv) && ((y =? u) && (cy =? cu)))
            then b else quadratic (d_b d) (cs d x cx) (cs d y cy)).
Proof. exact DqmReadsMore.get_quadratic_case_after_set. Qed.
Print Assumptions C20_dqm_get_quadratic_case_after_set.

(* the dict form of get_quadratic and get_quadratic_case agree: a listed triple is what the case read returns, an
   unlisted case pair reads 0 *)
Theorem C20_dqm_get_quadratic_case_vs_dict :
  forall d u v l cu cv,
    DInv d -> u < d_nvars d -> v < d_nvars d -> cu < d_ncases d u -> cv < d_ncases d v ->
    get_quadratic d u v = Some l ->
    (forall x, In (cu, cv, x) l -> DqmReadsChecked.get_quadratic_case d u cu v cv = Some x)
    /\ ((forall x, ~ In (cu, cv, x) l) -> DqmReadsChecked.get_quadratic_case d u cu v cv = Some 0%Qc).
Proof. exact DqmReadsMore.get_quadratic_case_vs_dict. Qed.
Print Assumptions C20_dqm_get_quadratic_case_vs_dict.

(* every triple get_quadratic lists is a stored interaction between a case of u and a case of v, both in range *)
Theorem C20_dqm_get_quadratic_entries_in_range :
  forall d u v l cu cv x,
    DInv d -> u < d_nvars d -> v < d_nvars d -> get_quadratic d u v = Some l -> In (cu, cv, x) l ->
    cu < d_ncases d u /\ cv < d_ncases d v /\ nb_get (cs d v cv) (nb (d_b d) (cs d u cu)) = Some x.
Proof. exact DqmReadsMore.get_quadratic_entries_in_range. Qed.
Print Assumptions C20_dqm_get_quadratic_entries_in_range.

(* energies with its checks (one sample row; None = ValueError): it raises - never returns a number - exactly when
   the row has the wrong length or some case is out of range, and otherwise returns d_energy *)
Theorem C20_dqm_energies_rejects_exactly_invalid_rows :
  forall d s,
    DqmReadsChecked.energies_checked d s = None <->
    length s <> d_nvars d \/ exists u, u < d_nvars d /\ d_ncases d u <= nth u s 0.
Proof. exact DqmReadsMore.energies_checked_None_iff. Qed.
Print Assumptions C20_dqm_energies_rejects_exactly_invalid_rows.

Theorem C20_dqm_energies_accepts_valid_rows :
  forall d s, length s = d_nvars d -> (forall u, u < d_nvars d -> nth u s 0 < d_ncases d u) ->
    DqmReadsChecked.energies_checked d s = Some (d_energy d s).
Proof. exact DqmReadsMore.energies_checked_valid. Qed.
Print Assumptions C20_dqm_energies_accepts_valid_rows.

(* the dict form of get_quadratic emits its triples strictly sorted by (case of u, case of v): "exactly the stored case
   pairs" = C20_dqm_get_quadratic_lists_stored + _entries_in_range + no case pair twice *)
Theorem C20_dqm_get_quadratic_strictly_sorted :
  forall d u v l, DInv d -> u < d_nvars d -> get_quadratic d u v = Some l ->
    StronglySorted (fun t1 t2 : nat * nat * Qc =>
                      fst (fst t1) < fst (fst t2) \/ (fst (fst t1) = fst (fst t2) /\ snd (fst t1) < snd (fst t2))) l.
Proof. exact DqmReadsOrder.get_quadratic_sorted. Qed.
Print Assumptions C20_dqm_get_quadratic_strictly_sorted.

Theorem C20_dqm_get_quadratic_keys_unique :
  forall d u v l, DInv d -> u < d_nvars d -> get_quadratic d u v = Some l -> NoDup (map fst l).
Proof. exact DqmReadsOrder.get_quadratic_keys_NoDup. Qed.
Print Assumptions C20_dqm_get_quadratic_keys_unique.

(* get_quadratic(u, v, array=True): raises exactly when the dict form does, has shape num_cases(u) x num_cases(v),
   and every cell is the stored bias between the two cases (0 when there is none) = what get_quadratic_case returns *)
Theorem C20_dqm_get_quadratic_array_presence :
  forall d u v, DqmReadsChecked.get_quadratic_array d u v = None <-> get_quadratic d u v = None.
Proof. exact DqmReadsArray.get_quadratic_array_presence. Qed.
Print Assumptions C20_dqm_get_quadratic_array_presence.

Theorem C20_dqm_get_quadratic_array_shape :
  forall d u v a, DqmReadsChecked.get_quadratic_array d u v = Some a ->
    length a = d_ncases d u /\ forall row, In row a -> length row = d_ncases d v.
Proof. exact DqmReadsArray.get_quadratic_array_shape. Qed.
Print Assumptions C20_dqm_get_quadratic_array_shape.

Theorem C20_dqm_get_quadratic_array_cell :
  forall d u v a cu cv,
    DInv d -> DqmReadsChecked.get_quadratic_array d u v = Some a -> cu < d_ncases d u -> cv < d_ncases d v ->
    nth cv (nth cu a []) 0%Qc = quadratic (d_b d) (cs d u cu) (cs d v cv).
Proof. exact DqmReadsArray.get_quadratic_array_cell. Qed.
Print Assumptions C20_dqm_get_quadratic_array_cell.

Theorem C20_dqm_get_quadratic_array_vs_case :
  forall d u v a cu cv,
    DInv d -> DqmReadsChecked.get_quadratic_array d u v = Some a -> cu < d_ncases d u -> cv < d_ncases d v ->
    DqmReadsChecked.get_quadratic_case d u cu v cv = Some (nth cv (nth cu a []) 0%Qc).
Proof. exact DqmReadsArray.get_quadratic_array_vs_case. Qed.
Print Assumptions C20_dqm_get_quadratic_array_vs_case.

(* non-trivial data: two variables (2 and 3 cases), one stored interaction; the array, the case read, an accepted and
   two rejected energies rows *)
Example C20_dqm_reads_examples :
  let d0 := dstep (dstep d_empty (DAddVar 2)) (DAddVar 3) in
  let d1 := dstep d0 (DSetQuadCase 1 2 0 1 (qc 3 2)) in
  DqmReadsChecked.get_quadratic_array d1 0 1 = Some [[0%Qc; 0%Qc; 0%Qc]; [0%Qc; 0%Qc; qc 3 2]]
  /\ DqmReadsChecked.get_quadratic_case d1 0 1 1 2 = Some (qc 3 2)
  /\ DqmReadsChecked.get_quadratic_case d1 0 2 1 2 = None
  /\ DqmReadsChecked.energies_checked d1 [1; 2] = Some (qc 3 2)
  /\ DqmReadsChecked.energies_checked d1 [1; 3] = None
  /\ DqmReadsChecked.energies_checked d1 [1] = None
  /\ to_coo (d_b d1) = [(4, 1, qc 3 2)].
Proof. vm_compute. repeat split; reflexivity. Qed.

(* both sides of the iff occur: a stored interaction survives the rebuild as it is, a pair recorded by an all-zero
   dense set_quadratic is forgotten (the state still satisfies the invariant) *)
Example C20_dqm_round_trip_examples :
  let d0 := dstep (dstep d_empty (DAddVar 2)) (DAddVar 3) in
  let d1 := dstep d0 (DSetQuadCase 1 2 0 1 (qc 3 2)) in
  let d2 := dstep d0 (DSetQuadDense 0 1 (repeat 0%Qc 6)) in
  (dinv_b d1 = true /\ round_trip d1 = d1 /\ d_nb d1 0 = [1%nat])
  /\ (dinv_b d2 = true /\ d_nb d2 0 = [1%nat] /\ d_nb (round_trip d2) 0 = [] /\ d_b (round_trip d2) = d_b d2).
Proof. vm_compute. repeat split. Qed.

End Dqm.
Export Dqm.

(* ---------- 10. the DQM model's code-shaped parts are the ones GENERATED from cydiscrete_quadratic_model.pyx ----------
   translators/dqm_native_shapes.py reads, fail-closed, the "track in adjacency" blocks of set_quadratic and
   set_quadratic_case (searched vector, search key, compared value, inserted value and position), the early break of
   energies, the per-case cursor reset of the adjacency rebuild and the five-branch merge loop. *)
From Dimod Require Gen.Gen_DqmNative Proofs.GenDqmTie.

Theorem C20_dqm_track_generated :
  (forall u v a, Gen_DqmNative.gen_track_set_quadratic u v a = DqmNative.track u v a)
  /\ (forall u v a, Gen_DqmNative.gen_track_set_quadratic_case u v a = DqmNative.track u v a).
Proof. exact (conj GenDqmTie.gen_track_set_quadratic_ok GenDqmTie.gen_track_set_quadratic_case_ok). Qed.
Print Assumptions C20_dqm_track_generated.

Theorem C20_dqm_energy_break_generated :
  forall u l, DqmNative.below_or_eq u l = GenDqmTie.take_until (Gen_DqmNative.gen_energy_break u) l.
Proof. exact GenDqmTie.gen_energy_break_ok. Qed.
Print Assumptions C20_dqm_energy_break_generated.
