(* C12 - LP text round trip preserves the constrained model or is refused.
   Only statements; every proof is `exact <lemma>`; examples by computation.
   The C++ tokenizer/parser (extern/filereaderlp) is an oracle, not modelled: the theorems
   are about the writer's conventions, the reader's conversion (cylp.pyx) and the text wrapper. *)
From Coq Require Import List ZArith NArith QArith Qcanon Bool Arith.
From Dimod Require Import Base.Util Model.Poly Model.LP Model.LPTok Model.LPRead Model.LPLex Model.ChkC12 Gen.Gen_LP Proofs.LPFacts Proofs.LPTokFacts Proofs.LPReadFacts Proofs.LPLexFacts Proofs.LPLexTokFacts.
Import ListNotations.
Open Scope Qc_scope.

(* ================================================================== *)
(* lp_terms_roundtrip: objective ([ ... ]/2 doubling vs. the reader's 1/2, zero linear terms
   not written, constant kept) and constraints (offset moved to the right-hand side) *)

Theorem C12_objective_roundtrip :
  forall p s, energy (read_objective (write_objective p)) s = energy p s.
Proof. exact objective_roundtrip. Qed.
Print Assumptions C12_objective_roundtrip.

Theorem C12_objective_quad_coeffs :
  forall p,
    map snd (lo_quad2 (write_objective p)) = map (fun t => two * snd t) (p_quad p) /\
    p_quad (read_objective (write_objective p)) = p_quad p.
Proof. exact objective_quad_coeffs. Qed.
Print Assumptions C12_objective_quad_coeffs.

Theorem C12_constraint_roundtrip :
  forall c s,
    let c' := read_constraint (write_constraint c) in
    c_sense c' = c_sense c /\
    energy (c_lhs c') s - c_rhs c' = energy (c_lhs c) s - c_rhs c /\
    p_off (c_lhs c') = 0 /\ c_rhs c' = c_rhs c - p_off (c_lhs c).
Proof. exact constraint_roundtrip. Qed.
Print Assumptions C12_constraint_roundtrip.

(* the same samples satisfy the constraint before and after *)
Theorem C12_constraint_holds_iff :
  forall c s, holds (read_constraint (write_constraint c)) s <-> holds c s.
Proof. exact constraint_holds_iff. Qed.
Print Assumptions C12_constraint_holds_iff.

Theorem C12_objective_max_negates :
  forall o s, energy (read_objective_max o) s = - energy (read_objective o) s.
Proof. exact objective_max_negates. Qed.
Print Assumptions C12_objective_max_negates.

(* ================================================================== *)
(* wrap_preserves_tokens: _WidthLimitedFile never splits a token, whatever the column *)

Theorem C12_wrap_preserves_tokens :
  forall ws, sealed ws -> tokens (wrap ws) = flat_map tokens ws.
Proof. exact wrap_preserves_tokens. Qed.
Print Assumptions C12_wrap_preserves_tokens.

Theorem C12_wrap_from_preserves_tokens :
  forall ws line_len, sealed ws -> tokens (wrap_from line_len ws) = flat_map tokens ws.
Proof. exact wrap_from_preserves_tokens. Qed.
Print Assumptions C12_wrap_from_preserves_tokens.

(* the writes reach the file unchanged and in order; the only insertion is NL SP in front of a
   write: every continuation line starts with a blank *)
Theorem C12_wrap_structure :
  forall ws,
    map snd (wrap_pieces 0%nat ws) = ws /\
    wrap ws = flat_map (fun p : bool * text => (if fst p then [NL; SP] else []) ++ snd p)
                       (wrap_pieces 0%nat ws).
Proof. exact wrap_structure. Qed.
Print Assumptions C12_wrap_structure.

Theorem C12_sealedb_sound : forall ws, sealedb ws = true -> sealed ws.
Proof. exact sealedb_sound. Qed.
Print Assumptions C12_sealedb_sound.

(* ================================================================== *)
(* refused_iff_inexpressible *)

Theorem C12_validate_label_spec : forall l, validate_label l = true <-> lp_name l.
Proof. exact validate_label_spec. Qed.
Print Assumptions C12_validate_label_spec.

Theorem C12_refused_iff_inexpressible : forall m, dump_ok m = false <-> ~ expressible m.
Proof. exact refused_iff_inexpressible. Qed.
Print Assumptions C12_refused_iff_inexpressible.

Theorem C12_refusal_causes :
  forall m,
    (sh_soft m <> 0%nat -> dump_ok m = false) /\
    (forall v, In v (sh_vars m) -> snd v = SPIN -> dump_ok m = false) /\
    (forall l, In l (sh_cons m) \/ In l (map fst (sh_vars m)) -> ~ lp_name l -> dump_ok m = false).
Proof. exact refusal_causes. Qed.
Print Assumptions C12_refusal_causes.

(* ================================================================== *)
(* the file as a token sequence and a reference parser for the writer's grammar (Model/LPTok.v):
   sections, `obj:` / `label:` prefixes, signed coefficients, `+ [ ... ]/2` and `+ [ ... ]`
   blocks with `*`, sense and right-hand side, `lb <= x <= ub` lines, Binary / General lists.
   Names and numerals are abstract tokens: character-level lexing is not modelled. *)

Theorem C12_parse_print_cqm : forall m, parse_tokens (print_cqm m) = Some m.
Proof. exact parse_print_cqm. Qed.
Print Assumptions C12_parse_print_cqm.

(* text level: each token written as a blank-free word, lines broken by _WidthLimitedFile at any
   column; splitting into words, lexing and parsing gives the printed model back *)
Theorem C12_lp_text_roundtrip :
  forall (render : token -> text) (lex : text -> option token) m,
    (forall t, no_blank (render t)) -> (forall t, lex (render t) = Some t) ->
    parse_text lex (wrap (writes_of render (print_cqm m))) = Some m.
Proof. exact lp_text_roundtrip. Qed.
Print Assumptions C12_lp_text_roundtrip.

(* writer conventions then reader conventions (types from the sections, clamped bounds, 1/2 on
   objective quadratic terms): the same variables, types, bounds and constraint labels *)
Theorem C12_cqm_lpmodel_roundtrip :
  forall c, NoDup (map vi_label (q_vars c)) -> Forall var_wf (q_vars c) ->
    let c' := cqm_of_lpmodel (map vi_label (q_vars c)) (lpmodel_of_cqm c) in
    q_vars c' = q_vars c /\
    q_obj c' = read_objective (write_objective (q_obj c)) /\
    q_cons c' = map (fun lc => (fst lc, read_constraint (write_constraint (snd lc)))) (q_cons c) /\
    (forall s, energy (q_obj c') s = energy (q_obj c) s).
Proof. exact cqm_lpmodel_roundtrip. Qed.
Print Assumptions C12_cqm_lpmodel_roundtrip.

(* the property, end to end on the model: dump, wrap, split, lex, parse, convert *)
Theorem C12_lp_model_text_roundtrip :
  forall (render : token -> text) (lex : text -> option token) c,
    (forall t, no_blank (render t)) -> (forall t, lex (render t) = Some t) ->
    NoDup (map vi_label (q_vars c)) -> Forall var_wf (q_vars c) ->
    exists m, parse_text lex (wrap (writes_of render (print_cqm (lpmodel_of_cqm c)))) = Some m /\
      let c' := cqm_of_lpmodel (map vi_label (q_vars c)) m in
      q_vars c' = q_vars c /\
      map fst (q_cons c') = map fst (q_cons c) /\
      (forall s, energy (q_obj c') s = energy (q_obj c) s) /\
      Forall2 (fun a b => forall s, holds (snd a) s <-> holds (snd b) s) (q_cons c') (q_cons c).
Proof. exact lp_model_text_roundtrip. Qed.
Print Assumptions C12_lp_model_text_roundtrip.

(* ================================================================== *)
(* labels against the reader's tokenizer; alphabet, keyword, delimiter and single-character tables are
   GENERATED from dimod/lp.py, extern/filereaderlp/reader.cpp and def.hpp (Gen/Gen_LP.v) *)

(* among the labels dump accepts, exactly the `safe` ones (no leading line-discarding character, no
   inf/nan prefix, not a section keyword; for a variable also not free / infinity) are read back as
   the identifier that was written - for every label, of any length *)
Theorem C12_label_readable_iff :
  forall r s, validate_label (Some s) = true ->
    (reader_reads_label r s = true <-> label_safe r s = true).
Proof. exact label_readable_iff. Qed.
Print Assumptions C12_label_readable_iff.

Theorem C12_reader_reads_safe_labels :
  forall r s, validate_label (Some s) = true -> label_safe r s = true -> reader_reads_label r s = true.
Proof. exact reader_reads_safe_labels. Qed.
Print Assumptions C12_reader_reads_safe_labels.

(* the open findings (KNOWN_FINDINGS: lp_label_semicolon / keyword / infnan), stated against the tables
   of the sources: "every accepted label is read back" is false *)
Theorem C12_validator_accepts_unreadable_refuted :
  (validate_label (Some [59; 97]%N) = true /\ reader_reads_label AsConstraint [59; 97]%N = false) /\
  (validate_label (Some [115; 116]%N) = true /\ reader_reads_label AsVariable [115; 116]%N = false) /\
  (validate_label (Some [66; 105; 110]%N) = true /\ reader_reads_label AsConstraint [66; 105; 110]%N = false) /\
  (validate_label (Some [105; 110; 102; 111]%N) = true /\ reader_reads_label AsVariable [105; 110; 102; 111]%N = false) /\
  (validate_label (Some [78; 97; 110; 99; 121]%N) = true /\ reader_reads_label AsVariable [78; 97; 110; 99; 121]%N = false) /\
  (validate_label (Some [102; 114; 101; 101]%N) = true /\ reader_reads_label AsVariable [102; 114; 101; 101]%N = false /\
   reader_reads_label AsConstraint [102; 114; 101; 101]%N = true).
Proof. exact validator_accepts_unreadable_refuted. Qed.
Print Assumptions C12_validator_accepts_unreadable_refuted.

(* two adjacent names: the reader joins two consecutive identifiers with a blank and looks the result
   up in the (generated) keyword table *)
Theorem C12_reader_joins_iff :
  forall a b, validate_label (Some a) = true ->
    (reader_joins a b = true <-> In (lower_text a, lower_text b) two_word_keywords).
Proof. exact reader_joins_iff. Qed.
Print Assumptions C12_reader_joins_iff.

Theorem C12_names_section_read_spec :
  forall names, Forall (fun s => validate_label (Some s) = true) names ->
    (names_section_read names = true <->
     (Forall (fun s => label_safe AsVariable s = true) names /\ adjacent_join names = false)).
Proof. exact names_section_read_spec. Qed.
Print Assumptions C12_names_section_read_spec.

(* the open finding lp_label_two_word_keyword against the generated table: `subject` and `to` are
   each read back, listed next to each other in the Binary section they are not *)
Theorem C12_adjacent_names_refuted :
  let subject := [115; 117; 98; 106; 101; 99; 116]%N in
  let to := [116; 111]%N in
  let Such := [83; 117; 99; 104]%N in
  let THAT := [84; 72; 65; 84]%N in
  (validate_label (Some subject) = true /\ validate_label (Some to) = true /\
   reader_reads_label AsVariable subject = true /\ reader_reads_label AsVariable to = true /\
   names_section_read [subject; to] = false /\ names_section_read [to; subject] = true) /\
  (reader_reads_label AsVariable Such = true /\ reader_reads_label AsVariable THAT = true /\
   names_section_read [Such; THAT] = false) /\
  two_word_keywords = [(subject, to); ([115; 117; 99; 104]%N, [116; 104; 97; 116]%N)].
Proof. exact adjacent_names_refuted. Qed.
Print Assumptions C12_adjacent_names_refuted.

Theorem C12_wrap_constants_match_source :
  WRAP_BREAK = [NL; SP] /\ WRAP_BREAK_LINE_LEN = 1%nat /\ TARGET = TARGET_LINE_LEN.
Proof. exact wrap_constants_match_source. Qed.
Print Assumptions C12_wrap_constants_match_source.

(* ================================================================== *)
(* the reader's tokenizer as code on the CHARACTERS of the file (Model/LPLex.v: readnexttoken with the
   generated single-character / delimiter / line-discarding / blank tables and a model of strtod's span) *)

Theorem C12_lex_single_char_table_matches_source : map fst single_table = SINGLE_CHAR_TOKENS.
Proof. exact single_table_matches_source. Qed.
Print Assumptions C12_lex_single_char_table_matches_source.

(* the tokenizer never looks past the next blank (or colon): tokenizing u ++ rest is tokenizing u and
   then rest from the mode u ended in - for every text u, every mode, whatever follows the blank *)
Theorem C12_lex_lookahead_is_local :
  forall u m rest, stop rest -> lx m (u ++ rest) = then_lx (lx m u) rest.
Proof. exact lx_app. Qed.
Print Assumptions C12_lex_lookahead_is_local.

(* hence a text is tokenized word by word (words = maximal blank-free runs, lines broken anywhere),
   as long as no word leaves the tokenizer discarding the rest of its line *)
Theorem C12_lex_by_words :
  forall s, Forall closed_word (tokens s) -> lex_text s = Some (flat_map word_toks (tokens s)).
Proof. exact lex_by_words. Qed.
Print Assumptions C12_lex_by_words.

(* a label dump accepts, outside the reported defect regions (leading line-discarding character,
   inf / nan prefix), is one identifier token - for every such label, of any length *)
Theorem C12_lex_label :
  forall s, validate_label (Some s) = true -> raw_safe s = true -> lx (LTok 0) s = Some ([RStr s], LTok 0).
Proof. exact lx_label. Qed.
Print Assumptions C12_lex_label.

Theorem C12_lex_label_colon :
  forall s, validate_label (Some s) = true -> raw_safe s = true ->
    lx (LTok 0) (s ++ [58%N]) = Some ([RStr s; RColon], LTok 0).
Proof. exact lx_label_colon. Qed.
Print Assumptions C12_lex_label_colon.

Theorem C12_label_safe_is_raw_safe : forall r s, label_safe r s = true -> raw_safe s = true.
Proof. exact label_safe_raw. Qed.
Print Assumptions C12_label_safe_is_raw_safe.

(* every decimal numeral (digits [. digits] [e [sign] digits], any length) is one constant token made of
   all of its characters *)
Theorem C12_lex_decimal : forall w, decimal_word w -> lx (LTok 0) w = Some ([RCons w], LTok 0).
Proof. exact lx_decimal. Qed.
Print Assumptions C12_lex_decimal.

Theorem C12_lex_fixed_words :
  Forall (fun p => lx (LTok 0) (fst p) = Some (snd p, LTok 0)) fixed_words.
Proof. exact lx_fixed_words. Qed.
Print Assumptions C12_lex_fixed_words.

(* ... and they are exactly the fixed words GENERATED from lp.py's dump (every literal piece of its f.write
   calls, the values of _sign and _sense, the section names; translators/lp_grammar.py refuses any other
   literal glued to a formatted value than the colon behind a label) *)
Theorem C12_fixed_words_match_source :
  forallb (fun w => in_texts w (map fst fixed_words)) WRITER_FIXED_WORDS = true /\
  forallb (fun p => in_texts (fst p) WRITER_FIXED_WORDS) fixed_words = true /\
  length WRITER_FIXED_WORDS = length fixed_words.
Proof. exact fixed_words_match_source. Qed.
Print Assumptions C12_fixed_words_match_source.

(* the WHOLE output language of the writer at once: any sequence of writer words (labels, `label:`,
   decimal numerals, the fixed words), each written with a blank behind it and wrapped by
   _WidthLimitedFile at whatever column, is tokenized by the reader into exactly the raw tokens of
   those words, in order *)
Theorem C12_lex_writer_language :
  forall wx : list (text * list rawtok),
    Forall (fun p => no_blank (fst p)) wx -> Forall (fun p => writer_word (fst p) (snd p)) wx ->
    lex_text (wrap (word_writes (map fst wx))) = Some (flat_map snd wx).
Proof. exact lex_writer_language. Qed.
Print Assumptions C12_lex_writer_language.

(* ------------------------------------------------------------------ *)
(* the keyword stage (Reader::processtokens as code: Model/LPLex.v process) on the writer's language.
   The text is seen as a sequence of GROUPS (Proofs/LPLexFacts.v item): a name, `label:`, sign + numeral,
   numeral, `-numeral`, `+ [`, `]`, `]/2`, `*`, a comparison, a section word, `Subject To`.  What
   lp.dump writes is such a sequence (by inspection of dump; checked on every generated text by the
   correspondence KTripFull), the theorems hold for EVERY sequence of groups. *)

(* one group in front of anything that does not start with a colon or `[` *)
Theorem C12_process_group :
  forall tbl it rest, item_ok tbl it -> starts_ok rest ->
    process tbl (raw_of it ++ rest) = option_map (app (ptok_of it)) (process tbl rest).
Proof. exact process_item. Qed.
Print Assumptions C12_process_group.

Theorem C12_process_groups :
  forall tbl its, Forall (item_ok tbl) its ->
    process_all tbl (flat_map raw_of its) = Some (flat_map ptok_of its).
Proof. exact process_items. Qed.
Print Assumptions C12_process_groups.

(* THE CHAIN from the characters: words written with a blank behind them, lines broken by
   _WidthLimitedFile at any column, tokenizer, keyword stage *)
Theorem C12_chars_to_processed_tokens :
  forall tbl its,
    Forall (item_ok tbl) its -> Forall item_lex_ok its ->
    Forall (fun p => no_blank (fst p)) (flat_map words_of its) ->
    match lex_text (wrap (word_writes (map fst (flat_map words_of its)))) with
    | Some raws => process_all tbl raws
    | None => None
    end = Some (flat_map ptok_of its).
Proof. exact chars_to_processed. Qed.
Print Assumptions C12_chars_to_processed_tokens.

(* the hypotheses on names and labels follow from the label rules: accepted by dump, outside the reported
   defect regions (label_safe) and not `subject` / `such` (first words of the two-word keywords, the
   open finding lp_label_two_word_keyword) *)
Theorem C12_safe_labels_satisfy_chain_hypotheses :
  forall tbl a,
    validate_label (Some a) = true ->
    in_texts (lower_text a) [w_subject; w_such; w_semi] = false ->
    (label_safe AsVariable a = true -> item_ok tbl (IName a) /\ item_lex_ok (IName a)) /\
    (label_safe AsConstraint a = true -> item_ok tbl (ILabel a) /\ item_lex_ok (ILabel a)).
Proof. exact safe_label_items. Qed.
Print Assumptions C12_safe_labels_satisfy_chain_hypotheses.

Theorem C12_writer_section_words_satisfy_chain_hypotheses :
  forall tbl,
  Forall (fun wk => item_ok tbl (ISec1 (fst wk) (snd wk)) /\ item_lex_ok (ISec1 (fst wk) (snd wk)))
    [ ([77; 105; 110; 105; 109; 105; 122; 101]%N, SEC_OBJMIN); ([66; 111; 117; 110; 100; 115]%N, SEC_BOUNDS);
      ([66; 105; 110; 97; 114; 121]%N, SEC_BIN); ([71; 101; 110; 101; 114; 97; 108]%N, SEC_GEN);
      ([69; 110; 100]%N, SEC_END) ].
Proof. exact writer_sections_ok. Qed.
Print Assumptions C12_writer_section_words_satisfy_chain_hypotheses.

(* ------------------------------------------------------------------ *)
(* the last step of the reader model and the ROUND TRIP FROM THE CHARACTERS.  items_cqm m is the sequence of
   groups of the text of m, mirroring lp.dump / print_cqm (vn, cn: the texts of the variable and constraint
   labels; numw: the numeral written for a non-negative number) *)

(* Uv / Uc: the variables / constraint labels in use (model_in: m mentions no others); the label tables
   `names` / `cons` invert the naming on them.
   the processed tokens of the text of m, translated by LPLex.to_tokens (state: section, `obj:`, signed
   numerals, `]/2`), are exactly print_cqm m *)
Theorem C12_to_tokens_of_written_model :
  forall vn cn numw names cons (Uv Uc : nat -> Prop),
    (forall v, Uv v -> index_of (vn v) names = Some v) -> (forall l, Uc l -> index_of (cn l) cons = Some l) ->
    forall m, model_in Uv Uc m ->
      to_tokens names cons SEC_NONE false false (pt (items_cqm vn cn numw m)) = Some (print_cqm m).
Proof. exact to_tokens_items_cqm. Qed.
Print Assumptions C12_to_tokens_of_written_model.

(* characters -> tokenizer -> keyword stage -> translation -> reference parser = the model, for every
   model, every line-break position *)
Theorem C12_chars_to_model :
  forall vn cn numw names cons (Uv Uc : nat -> Prop) tbl m,
    (forall v, Uv v -> index_of (vn v) names = Some v) -> (forall l, Uc l -> index_of (cn l) cons = Some l) ->
    model_in Uv Uc m ->
    let its := items_cqm vn cn numw m in
    Forall (item_ok tbl) its -> Forall item_lex_ok its ->
    Forall (fun p => no_blank (fst p)) (flat_map words_of its) ->
    let text := wrap (word_writes (map fst (flat_map words_of its))) in
    read_tokens tbl names cons text = Some (print_cqm m) /\
    match read_tokens tbl names cons text with Some toks => parse_tokens toks | None => None end = Some m.
Proof. exact chars_to_model. Qed.
Print Assumptions C12_chars_to_model.

(* the group hypotheses follow from conditions on the names, the labels and the numerals alone: every number
   written in the file (model_nums) has its magnitude written as a decimal word whose value the reader gets
   right (numeral_ok) *)
Theorem C12_written_model_groups_ok :
  forall vn cn numw tbl (Uv Uc : nat -> Prop),
    (forall v, Uv v -> P tbl (IName (vn v))) -> (forall l, Uc l -> P tbl (ILabel (cn l))) ->
    forall m, model_in Uv Uc m -> Forall (numeral_ok numw tbl) (model_nums m) ->
      Forall (item_ok tbl) (items_cqm vn cn numw m) /\ Forall item_lex_ok (items_cqm vn cn numw m).
Proof. exact items_cqm_ok. Qed.
Print Assumptions C12_written_model_groups_ok.

(* THE PROPERTY ON THE MODELS, from the characters: writer conventions (doubling in `[ ]/2`, offsets moved to
   the right-hand side, zero terms dropped, bounds lines, Binary / General lists), the text with any line
   breaks, the reader model, reader conventions (1/2, clamped bounds, types from the sections): same variables
   with types and bounds, same constraint labels, senses and shifted right-hand sides, objective with the
   same energy everywhere.  Hypotheses: labels are read back (safe, see C12_safe_labels_satisfy_chain_hypotheses),
   numerals are decimal words whose value the reader gets right, bounds within the vartype ranges. *)
Theorem C12_lp_chars_roundtrip :
  forall vn cn numw names cons (Uv Uc : nat -> Prop) tbl (c : cqm),
    (forall v, Uv v -> index_of (vn v) names = Some v) -> (forall l, Uc l -> index_of (cn l) cons = Some l) ->
    (forall v, Uv v -> P tbl (IName (vn v))) -> (forall l, Uc l -> P tbl (ILabel (cn l))) ->
    model_in Uv Uc (lpmodel_of_cqm c) ->
    Forall (numeral_ok numw tbl) (model_nums (lpmodel_of_cqm c)) ->
    let its := items_cqm vn cn numw (lpmodel_of_cqm c) in
    Forall (fun p => no_blank (fst p)) (flat_map words_of its) ->
    NoDup (map vi_label (q_vars c)) -> Forall var_wf (q_vars c) ->
    let text := wrap (word_writes (map fst (flat_map words_of its))) in
    exists toks m,
      read_tokens tbl names cons text = Some toks /\ parse_tokens toks = Some m /\
      let c' := cqm_of_lpmodel (map vi_label (q_vars c)) m in
      q_vars c' = q_vars c /\
      q_cons c' = map (fun lc => (fst lc, read_constraint (write_constraint (snd lc)))) (q_cons c) /\
      (forall s, energy (q_obj c') s = energy (q_obj c) s).
Proof. exact lp_chars_roundtrip. Qed.
Print Assumptions C12_lp_chars_roundtrip.

(* ------------------------------------------------------------------ *)
(* the reader's keyword / delimiter tables are the REVIEWED ones.  The theorems above hold for whatever tables
   are generated from reader.cpp and the correspondence follows them too, so a keyword added to the reader
   (one more accepted label silently read as a section, e.g. `st.`) would move model and implementation
   together; this tie does not move *)
Theorem C12_reader_tables_are_the_pinned_ones :
  SECTION_KEYWORDS = PINNED_SECTION_WORDS /\
  KEYWORD_INF = [[105; 110; 102; 105; 110; 105; 116; 121]; [105; 110; 102]]%N /\
  KEYWORD_FREE = [[102; 114; 101; 101]]%N /\
  SINGLE_CHAR_TOKENS = [91; 93; 60; 62; 61; 58; 43; 94; 47; 42; 45]%N /\
  SKIP_LINE_CHARS = [92; 59; 10]%N /\ BLANK_CHARS = [32; 9]%N /\
  IDENT_DELIMS = [9; 10; 92; 58; 43; 60; 62; 94; 61; 32; 47; 45; 42; 91; 93]%N.
Proof. exact keyword_tables_pinned. Qed.
Print Assumptions C12_reader_tables_are_the_pinned_ones.

(* ================================================================== *)
(* hypotheses are satisfiable on non-trivial data *)

Example C12_ex_parse :
  let m := mkLpModel (mkLpObj [(0%nat, qc 2 1); (1%nat, qc (-3) 2)] [(1%nat, 0%nat, qc 2 1); (1%nat, 1%nat, qc 1 2)] (qc 3 1))
             [(0%nat, mkLpCon [(0%nat, 1)] [(1%nat, 0%nat, qc (-2) 1)] Le (qc 3 2)); (1%nat, mkLpCon [] [] Ge (qc (-1) 1))]
             [(1%nat, qc (-3) 1, qc 5 1)] [0%nat] [1%nat] in
  List.length (print_cqm m) = 52%nat /\
  match parse_tokens (print_cqm m) with
  | Some m' => Nat.eqb (List.length (m_cons m')) 2 && list_eqb Nat.eqb (m_binary m') [0%nat]
  | None => false
  end = true.
Proof. vm_compute. split; reflexivity. Qed.
Print Assumptions C12_ex_parse.

(* " obj: " "+ 2 x " ... : a break is inserted before the write that would pass column 79 *)
Example C12_ex_wrap :
  let w := [43; 32; 50; 32; 120; 121; 122; 32]%N in       (* "+ 2 xyz " *)
  let ws := repeat w 11 in
  sealedb ws = true /\
  map fst (wrap_pieces 0%nat ws) = [false; false; false; false; false; false; false; false; false; true; false] /\
  List.length (tokens (wrap ws)) = 33%nat.
Proof. vm_compute. repeat split; reflexivity. Qed.
Print Assumptions C12_ex_wrap.

Example C12_ex_terms :
  let p := mkPoly (qc 3 1) [(0%nat, qc 2 1); (1%nat, 0)] [(0%nat, 1%nat, qc 1 4); (1%nat, 1%nat, qc (-3) 2)] in
  list_eqb Qc_eqb (map snd (lo_quad2 (write_objective p))) [qc 1 2; qc (-3) 1] = true /\
  map fst (lo_lin (write_objective p)) = [0%nat] /\
  poly_coeff_eqb 2 (read_objective (write_objective p)) p = true.
Proof. vm_compute. repeat split; reflexivity. Qed.
Print Assumptions C12_ex_terms.

Example C12_ex_labels :
  validate_label (Some [120; 46; 53]%N) = true /\        (* x.5 *)
  validate_label (Some [101; 49]%N) = false /\           (* e1 *)
  validate_label (Some [97; 32; 98]%N) = false /\        (* "a b" *)
  validate_label (Some []) = false /\ validate_label None = false /\
  validate_label (Some (repeat 97%N 256)) = false /\ validate_label (Some (repeat 97%N 255)) = true.
Proof. vm_compute. repeat split; reflexivity. Qed.
Print Assumptions C12_ex_labels.

(* a whole file from its characters: tokenizer, keyword stage, reference parser *)
Example C12_ex_lex_file :
  let t := fun l : list N => l in
  let file := t [77;105;110;105;109;105;122;101;10; 32;111;98;106;58;32; 43;32;50;32;120;32; 45;32;48;46;49;50;53;32;121;57;32;
                 43;32;91;32;43;32;51;32;120;32;42;32;121;57;32;93;47;50;32; 45;32;48;46;50;53;32;10;10;
                 83;117;98;106;101;99;116;32;84;111;32;10; 32;99;59;49;58;32;43;32;49;32;120;10;32;45;32;50;32;121;57;32;32;60;61;32;45;49;101;43;51;48;10;10;
                 66;111;117;110;100;115;10; 32;45;53;46;48;32;60;61;32;121;57;32;60;61;32;49;101;43;51;48;10;10;
                 66;105;110;97;114;121;10;32;120;10;10; 71;101;110;101;114;97;108;10;32;121;57;10; 69;110;100]%N in
  let big := Q2Qc (inject_Z 1000000000000000019884624838656) in
  let tbl := [([49;101;43;51;48]%N, big)] in
  match read_tokens tbl [[120]%N; [121;57]%N] [[99;59;49]%N] file with
  | Some toks =>
      match parse_tokens toks with
      | Some m => Nat.eqb (List.length (m_cons m)) 1 && list_eqb Nat.eqb (m_binary m) [0%nat]
                  && list_eqb Nat.eqb (m_general m) [1%nat] && Nat.eqb (List.length (lo_quad2 (m_obj m))) 1
                  && Qc_eqb (lo_const (m_obj m)) (qc (-1) 4)
      | None => false
      end
  | None => false
  end = true /\ numtable_ok tbl = true.
Proof. vm_compute. split; reflexivity. Qed.
Print Assumptions C12_ex_lex_file.

(* the hypotheses of the chain are satisfiable: a name, a label, numerals *)
Example C12_ex_chain_hypotheses :
  let x1 := [120; 49]%N in let c0 := [99; 59; 48]%N in        (* x1   c;0 *)
  (item_ok [] (IName x1) /\ item_lex_ok (IName x1)) /\ (item_ok [] (ILabel c0) /\ item_lex_ok (ILabel c0)) /\
  match num_value [] [48; 46; 53]%N with Some q => Qc_eqb q (qc 1 2) | None => false end = true /\    (* 0.5 *)
  decimal_word [48; 46; 53]%N /\ decimal_word [49; 101; 43; 51; 48]%N /\                             (* 1e+30 *)
  match num_value [([49; 101; 43; 51; 48]%N, big_real)] [49; 101; 43; 51; 48]%N with
  | Some q => Qc_eqb q big_real | None => false end = true /\
  num_value [] [49; 101; 43; 51; 48]%N = None.
Proof.
  cbv zeta. split; [|split].
  - apply (proj1 (safe_label_items [] [120; 49]%N eq_refl eq_refl)). reflexivity.
  - apply (proj2 (safe_label_items [] [99; 59; 48]%N eq_refl eq_refl)). reflexivity.
  - split; [vm_compute; reflexivity|]. split; [|split; [|split; vm_compute; reflexivity]].
    + split; [exists 48%N, [46; 53]%N; split; reflexivity | split; reflexivity].
    + split; [exists 49%N, [101; 43; 51; 48]%N; split; reflexivity | split; reflexivity].
Qed.
Print Assumptions C12_ex_chain_hypotheses.
