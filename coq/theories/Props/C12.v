(* C12 - LP text round trip preserves the constrained model or is refused.
   Only statements; every proof is `exact <lemma>`; examples by computation.
   The C++ tokenizer/parser (extern/filereaderlp) is an oracle, not modelled: the theorems
   are about the writer's conventions, the reader's conversion (cylp.pyx) and the text wrapper. *)
From Coq Require Import List ZArith NArith QArith Qcanon Bool Arith.
From Dimod Require Import Base.Util Model.Poly Model.LP Model.LPTok Model.LPRead Model.ChkC12 Gen.Gen_LP Proofs.LPFacts Proofs.LPTokFacts Proofs.LPReadFacts.
Import ListNotations.
Open Scope Qc_scope.

(* ================================================================== *)
(* lp_terms_roundtrip: objective ([ ... ]/2 doubling vs. the reader's 1/2, zero linear terms
   not written, constant kept) and constraints (offset moved to the right-hand side) *)

Theorem C12_objective_roundtrip :
  forall p s, energy (read_objective (write_objective p)) s = energy p s.
Proof. exact objective_roundtrip. Qed.
Print Assumptions C12_objective_roundtrip.

Theorem C12_objective_quad_coeffs :
  forall p,
    map snd (lo_quad2 (write_objective p)) = map (fun t => two * snd t) (p_quad p) /\
    p_quad (read_objective (write_objective p)) = p_quad p.
Proof. exact objective_quad_coeffs. Qed.
Print Assumptions C12_objective_quad_coeffs.

Theorem C12_constraint_roundtrip :
  forall c s,
    let c' := read_constraint (write_constraint c) in
    c_sense c' = c_sense c /\
    energy (c_lhs c') s - c_rhs c' = energy (c_lhs c) s - c_rhs c /\
    p_off (c_lhs c') = 0 /\ c_rhs c' = c_rhs c - p_off (c_lhs c).
Proof. exact constraint_roundtrip. Qed.
Print Assumptions C12_constraint_roundtrip.

(* the same samples satisfy the constraint before and after *)
Theorem C12_constraint_holds_iff :
  forall c s, holds (read_constraint (write_constraint c)) s <-> holds c s.
Proof. exact constraint_holds_iff. Qed.
Print Assumptions C12_constraint_holds_iff.

Theorem C12_objective_max_negates :
  forall o s, energy (read_objective_max o) s = - energy (read_objective o) s.
Proof. exact objective_max_negates. Qed.
Print Assumptions C12_objective_max_negates.

(* ================================================================== *)
(* wrap_preserves_tokens: _WidthLimitedFile never splits a token, whatever the column *)

Theorem C12_wrap_preserves_tokens :
  forall ws, sealed ws -> tokens (wrap ws) = flat_map tokens ws.
Proof. exact wrap_preserves_tokens. Qed.
Print Assumptions C12_wrap_preserves_tokens.

Theorem C12_wrap_from_preserves_tokens :
  forall ws line_len, sealed ws -> tokens (wrap_from line_len ws) = flat_map tokens ws.
Proof. exact wrap_from_preserves_tokens. Qed.
Print Assumptions C12_wrap_from_preserves_tokens.

(* the writes reach the file unchanged and in order; the only insertion is NL SP in front of a
   write: every continuation line starts with a blank *)
Theorem C12_wrap_structure :
  forall ws,
    map snd (wrap_pieces 0%nat ws) = ws /\
    wrap ws = flat_map (fun p : bool * text => (if fst p then [NL; SP] else []) ++ snd p)
                       (wrap_pieces 0%nat ws).
Proof. exact wrap_structure. Qed.
Print Assumptions C12_wrap_structure.

Theorem C12_sealedb_sound : forall ws, sealedb ws = true -> sealed ws.
Proof. exact sealedb_sound. Qed.
Print Assumptions C12_sealedb_sound.

(* ================================================================== *)
(* refused_iff_inexpressible *)

Theorem C12_validate_label_spec : forall l, validate_label l = true <-> lp_name l.
Proof. exact validate_label_spec. Qed.
Print Assumptions C12_validate_label_spec.

Theorem C12_refused_iff_inexpressible : forall m, dump_ok m = false <-> ~ expressible m.
Proof. exact refused_iff_inexpressible. Qed.
Print Assumptions C12_refused_iff_inexpressible.

Theorem C12_refusal_causes :
  forall m,
    (sh_soft m <> 0%nat -> dump_ok m = false) /\
    (forall v, In v (sh_vars m) -> snd v = SPIN -> dump_ok m = false) /\
    (forall l, In l (sh_cons m) \/ In l (map fst (sh_vars m)) -> ~ lp_name l -> dump_ok m = false).
Proof. exact refusal_causes. Qed.
Print Assumptions C12_refusal_causes.

(* ================================================================== *)
(* the file as a token sequence and a reference parser for the writer's grammar (Model/LPTok.v):
   sections, `obj:` / `label:` prefixes, signed coefficients, `+ [ ... ]/2` and `+ [ ... ]`
   blocks with `*`, sense and right-hand side, `lb <= x <= ub` lines, Binary / General lists.
   Names and numerals are abstract tokens: character-level lexing is not modelled. *)

Theorem C12_parse_print_cqm : forall m, parse_tokens (print_cqm m) = Some m.
Proof. exact parse_print_cqm. Qed.
Print Assumptions C12_parse_print_cqm.

(* text level: each token written as a blank-free word, lines broken by _WidthLimitedFile at any
   column; splitting into words, lexing and parsing gives the printed model back *)
Theorem C12_lp_text_roundtrip :
  forall (render : token -> text) (lex : text -> option token) m,
    (forall t, no_blank (render t)) -> (forall t, lex (render t) = Some t) ->
    parse_text lex (wrap (writes_of render (print_cqm m))) = Some m.
Proof. exact lp_text_roundtrip. Qed.
Print Assumptions C12_lp_text_roundtrip.

(* writer conventions then reader conventions (types from the sections, clamped bounds, 1/2 on
   objective quadratic terms): the same variables, types, bounds and constraint labels *)
Theorem C12_cqm_lpmodel_roundtrip :
  forall c, NoDup (map vi_label (q_vars c)) -> Forall var_wf (q_vars c) ->
    let c' := cqm_of_lpmodel (map vi_label (q_vars c)) (lpmodel_of_cqm c) in
    q_vars c' = q_vars c /\
    q_obj c' = read_objective (write_objective (q_obj c)) /\
    q_cons c' = map (fun lc => (fst lc, read_constraint (write_constraint (snd lc)))) (q_cons c) /\
    (forall s, energy (q_obj c') s = energy (q_obj c) s).
Proof. exact cqm_lpmodel_roundtrip. Qed.
Print Assumptions C12_cqm_lpmodel_roundtrip.

(* the property, end to end on the model: dump, wrap, split, lex, parse, convert *)
Theorem C12_lp_model_text_roundtrip :
  forall (render : token -> text) (lex : text -> option token) c,
    (forall t, no_blank (render t)) -> (forall t, lex (render t) = Some t) ->
    NoDup (map vi_label (q_vars c)) -> Forall var_wf (q_vars c) ->
    exists m, parse_text lex (wrap (writes_of render (print_cqm (lpmodel_of_cqm c)))) = Some m /\
      let c' := cqm_of_lpmodel (map vi_label (q_vars c)) m in
      q_vars c' = q_vars c /\
      map fst (q_cons c') = map fst (q_cons c) /\
      (forall s, energy (q_obj c') s = energy (q_obj c) s) /\
      Forall2 (fun a b => forall s, holds (snd a) s <-> holds (snd b) s) (q_cons c') (q_cons c).
Proof. exact lp_model_text_roundtrip. Qed.
Print Assumptions C12_lp_model_text_roundtrip.

(* ================================================================== *)
(* labels against the reader's tokenizer; alphabet, keyword, delimiter and single-character tables are
   GENERATED from dimod/lp.py, extern/filereaderlp/reader.cpp and def.hpp (Gen/Gen_LP.v) *)

(* among the labels dump accepts, exactly the `safe` ones (no leading line-discarding character, no
   inf/nan prefix, not a section keyword; for a variable also not free / infinity) are read back as
   the identifier that was written - for every label, of any length *)
Theorem C12_label_readable_iff :
  forall r s, validate_label (Some s) = true ->
    (reader_reads_label r s = true <-> label_safe r s = true).
Proof. exact label_readable_iff. Qed.
Print Assumptions C12_label_readable_iff.

Theorem C12_reader_reads_safe_labels :
  forall r s, validate_label (Some s) = true -> label_safe r s = true -> reader_reads_label r s = true.
Proof. exact reader_reads_safe_labels. Qed.
Print Assumptions C12_reader_reads_safe_labels.

(* the open findings (KNOWN_FINDINGS: lp_label_semicolon / keyword / infnan), stated against the tables
   of the sources: "every accepted label is read back" is false *)
Theorem C12_validator_accepts_unreadable_refuted :
  (validate_label (Some [59; 97]%N) = true /\ reader_reads_label AsConstraint [59; 97]%N = false) /\
  (validate_label (Some [115; 116]%N) = true /\ reader_reads_label AsVariable [115; 116]%N = false) /\
  (validate_label (Some [66; 105; 110]%N) = true /\ reader_reads_label AsConstraint [66; 105; 110]%N = false) /\
  (validate_label (Some [105; 110; 102; 111]%N) = true /\ reader_reads_label AsVariable [105; 110; 102; 111]%N = false) /\
  (validate_label (Some [78; 97; 110; 99; 121]%N) = true /\ reader_reads_label AsVariable [78; 97; 110; 99; 121]%N = false) /\
  (validate_label (Some [102; 114; 101; 101]%N) = true /\ reader_reads_label AsVariable [102; 114; 101; 101]%N = false /\
   reader_reads_label AsConstraint [102; 114; 101; 101]%N = true).
Proof. exact validator_accepts_unreadable_refuted. Qed.
Print Assumptions C12_validator_accepts_unreadable_refuted.

(* two adjacent names: the reader joins two consecutive identifiers with a blank and looks the result
   up in the (generated) keyword table *)
Theorem C12_reader_joins_iff :
  forall a b, validate_label (Some a) = true ->
    (reader_joins a b = true <-> In (lower_text a, lower_text b) two_word_keywords).
Proof. exact reader_joins_iff. Qed.
Print Assumptions C12_reader_joins_iff.

Theorem C12_names_section_read_spec :
  forall names, Forall (fun s => validate_label (Some s) = true) names ->
    (names_section_read names = true <->
     (Forall (fun s => label_safe AsVariable s = true) names /\ adjacent_join names = false)).
Proof. exact names_section_read_spec. Qed.
Print Assumptions C12_names_section_read_spec.

(* the open finding lp_label_two_word_keyword against the generated table: `subject` and `to` are
   each read back, listed next to each other in the Binary section they are not *)
Theorem C12_adjacent_names_refuted :
  let subject := [115; 117; 98; 106; 101; 99; 116]%N in
  let to := [116; 111]%N in
  let Such := [83; 117; 99; 104]%N in
  let THAT := [84; 72; 65; 84]%N in
  (validate_label (Some subject) = true /\ validate_label (Some to) = true /\
   reader_reads_label AsVariable subject = true /\ reader_reads_label AsVariable to = true /\
   names_section_read [subject; to] = false /\ names_section_read [to; subject] = true) /\
  (reader_reads_label AsVariable Such = true /\ reader_reads_label AsVariable THAT = true /\
   names_section_read [Such; THAT] = false) /\
  two_word_keywords = [(subject, to); ([115; 117; 99; 104]%N, [116; 104; 97; 116]%N)].
Proof. exact adjacent_names_refuted. Qed.
Print Assumptions C12_adjacent_names_refuted.

Theorem C12_wrap_constants_match_source :
  WRAP_BREAK = [NL; SP] /\ WRAP_BREAK_LINE_LEN = 1%nat /\ TARGET = TARGET_LINE_LEN.
Proof. exact wrap_constants_match_source. Qed.
Print Assumptions C12_wrap_constants_match_source.

(* ================================================================== *)
(* hypotheses are satisfiable on non-trivial data *)

Example C12_ex_parse :
  let m := mkLpModel (mkLpObj [(0%nat, qc 2 1); (1%nat, qc (-3) 2)] [(1%nat, 0%nat, qc 2 1); (1%nat, 1%nat, qc 1 2)] (qc 3 1))
             [(0%nat, mkLpCon [(0%nat, 1)] [(1%nat, 0%nat, qc (-2) 1)] Le (qc 3 2)); (1%nat, mkLpCon [] [] Ge (qc (-1) 1))]
             [(1%nat, qc (-3) 1, qc 5 1)] [0%nat] [1%nat] in
  List.length (print_cqm m) = 52%nat /\
  match parse_tokens (print_cqm m) with
  | Some m' => Nat.eqb (List.length (m_cons m')) 2 && list_eqb Nat.eqb (m_binary m') [0%nat]
  | None => false
  end = true.
Proof. vm_compute. split; reflexivity. Qed.

(* " obj: " "+ 2 x " ... : a break is inserted before the write that would pass column 79 *)
Example C12_ex_wrap :
  let w := [43; 32; 50; 32; 120; 121; 122; 32]%N in       (* "+ 2 xyz " *)
  let ws := repeat w 11 in
  sealedb ws = true /\
  map fst (wrap_pieces 0%nat ws) = [false; false; false; false; false; false; false; false; false; true; false] /\
  List.length (tokens (wrap ws)) = 33%nat.
Proof. vm_compute. repeat split; reflexivity. Qed.

Example C12_ex_terms :
  let p := mkPoly (qc 3 1) [(0%nat, qc 2 1); (1%nat, 0)] [(0%nat, 1%nat, qc 1 4); (1%nat, 1%nat, qc (-3) 2)] in
  list_eqb Qc_eqb (map snd (lo_quad2 (write_objective p))) [qc 1 2; qc (-3) 1] = true /\
  map fst (lo_lin (write_objective p)) = [0%nat] /\
  poly_coeff_eqb 2 (read_objective (write_objective p)) p = true.
Proof. vm_compute. repeat split; reflexivity. Qed.

Example C12_ex_labels :
  validate_label (Some [120; 46; 53]%N) = true /\        (* x.5 *)
  validate_label (Some [101; 49]%N) = false /\           (* e1 *)
  validate_label (Some [97; 32; 98]%N) = false /\        (* "a b" *)
  validate_label (Some []) = false /\ validate_label None = false /\
  validate_label (Some (repeat 97%N 256)) = false /\ validate_label (Some (repeat 97%N 255)) = true.
Proof. vm_compute. repeat split; reflexivity. Qed.
