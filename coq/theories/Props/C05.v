(* C05 - a CQM keeps every expression attached to the right variables under any history.
   Only statements; every proof is `exact <lemma>`.
   M = index-level expression of expression.h (Model/Expr.v), S = plain list of labelled
   polynomials (Model/CQMSpec.v).  ExprInv n e: variables_ has no duplicates, every entry is a
   model index < n, the linear biases and interactions are over its local indices and the hash
   map indices_ is exactly the inverse of variables_. *)
From Coq Require Import List ZArith QArith Qcanon Bool Arith.
From Dimod Require Import Base.Util Model.Poly Model.Expr Model.CQMSpec Proofs.PolyFacts Proofs.ExprFacts Proofs.ExprViewFacts Proofs.RefineFacts.
Import ListNotations.
Local Open Scope nat_scope.

(* --- Expression::reindex_variables (run in every expression when the model drops variable v) --- *)

(* the three loops over variables_/indices_ re-establish the invariant for the smaller model *)
Theorem C05_reindex_preserves_invariant :
  forall n e v, ExprInv n e -> v < n -> ExprInv (pred n) (m_reindex v e).
Proof. exact reindex_inv. Qed.
Print Assumptions C05_reindex_preserves_invariant.

(* what the expression stands for afterwards: v's terms deleted, every index above v shifted down *)
Theorem C05_reindex_variables_correct :
  forall n e v, ExprInv n e ->
    abs_expr (m_reindex v e) = relabel (shift v) (remove_variable v (abs_expr e)).
Proof. exact reindex_abs. Qed.
Print Assumptions C05_reindex_variables_correct.

(* "no expression gains, loses or swaps a term belonging to another variable" *)
Theorem C05_reindex_keeps_other_linear :
  forall n e v u, ExprInv n e -> u <> v ->
    lin_coeff (p_lin (abs_expr (m_reindex v e))) (shift v u) = lin_coeff (p_lin (abs_expr e)) u.
Proof. exact reindex_keeps_other_linear. Qed.
Print Assumptions C05_reindex_keeps_other_linear.

Theorem C05_reindex_keeps_other_quadratic :
  forall n e v x y, ExprInv n e -> x <> v -> y <> v ->
    quad_coeff (p_quad (abs_expr (m_reindex v e))) (shift v x) (shift v y) = quad_coeff (p_quad (abs_expr e)) x y.
Proof. exact reindex_keeps_other_quadratic. Qed.
Print Assumptions C05_reindex_keeps_other_quadratic.

Theorem C05_reindex_keeps_offset :
  forall n e v, ExprInv n e -> p_off (abs_expr (m_reindex v e)) = p_off (abs_expr e).
Proof. exact reindex_offset. Qed.
Print Assumptions C05_reindex_keeps_offset.

(* --- enforce_variable --- *)
Theorem C05_enforce_variable_preserves_invariant :
  forall n e v, ExprInv n e -> v < n -> ExprInv n (fst (enforce v e)).
Proof. exact enforce_inv. Qed.
Print Assumptions C05_enforce_variable_preserves_invariant.

Theorem C05_enforce_variable_index :
  forall n e v, ExprInv n e -> v < n ->
    nth_error (e_vars (fst (enforce v e))) (snd (enforce v e)) = Some v.
Proof. exact enforce_index. Qed.
Print Assumptions C05_enforce_variable_index.

(* a fresh variable adds exactly one zero term; a known one changes nothing *)
Theorem C05_enforce_variable_fresh :
  forall n e v, ExprInv n e -> ~ In v (e_vars e) ->
    abs_expr (fst (enforce v e)) =
    mkPoly (p_off (abs_expr e)) (p_lin (abs_expr e) ++ [(v, 0%Qc)]) (p_quad (abs_expr e)).
Proof. exact enforce_abs_fresh. Qed.
Print Assumptions C05_enforce_variable_fresh.

Theorem C05_enforce_variable_known :
  forall n e v, ExprInv n e -> In v (e_vars e) -> fst (enforce v e) = e.
Proof. exact enforce_abs_present. Qed.
Print Assumptions C05_enforce_variable_known.

(* --- Expression::remove_variable through a view: only this expression forgets v, nothing is shifted --- *)
Theorem C05_view_remove_variable_preserves_invariant :
  forall n e v, ExprInv n e -> ExprInv n (m_remove_variable v e).
Proof. exact remove_variable_inv. Qed.
Print Assumptions C05_view_remove_variable_preserves_invariant.

Theorem C05_view_remove_variable_correct :
  forall n e v, ExprInv n e -> abs_expr (m_remove_variable v e) = remove_variable v (abs_expr e).
Proof. exact remove_variable_abs. Qed.
Print Assumptions C05_view_remove_variable_correct.

(* --- ConstrainedQuadraticModel::remove_variable: objective and every constraint --- *)
Theorem C05_remove_then_reindex_all :
  forall q v, CqmInv q -> v < length (m_info q) ->
    let q' := cqm_remove_variable v q in
    CqmInv q'
    /\ abs_expr (m_obj q') = relabel (shift v) (remove_variable v (abs_expr (m_obj q)))
    /\ map (fun k => abs_expr (mc_e k)) (m_cons q')
       = map (fun k => relabel (shift v) (remove_variable v (abs_expr (mc_e k)))) (m_cons q)
    /\ map (fun k => (mc_sense k, mc_rhs k, mc_weight k, mc_pen k, mc_mark k)) (m_cons q')
       = map (fun k => (mc_sense k, mc_rhs k, mc_weight k, mc_pen k, mc_mark k)) (m_cons q)
    /\ (forall u, u <> v -> nth_error (m_info q') (shift v u) = nth_error (m_info q) u).
Proof. exact remove_then_reindex_all. Qed.
Print Assumptions C05_remove_then_reindex_all.

(* --- refinement M -> S for removal: through the label list the index-level removal is the
       plain-polynomial removal of that label; surviving variables keep their label, type, bounds --- *)
Theorem C05_cqm_refines_spec_remove_variable_partial :
  forall q v labels,
    CqmInv q -> NoDup labels -> length labels = length (m_info q) -> v < length (m_info q) ->
    let q' := cqm_remove_variable v q in
    let l := nth v labels 0 in
    lab_abs (remove_nth v labels) (m_obj q') = remove_variable l (lab_abs labels (m_obj q))
    /\ map (fun k => lab_abs (remove_nth v labels) (mc_e k)) (m_cons q')
       = map (fun k => remove_variable l (lab_abs labels (mc_e k))) (m_cons q)
    /\ (forall u, u <> v ->
          nth_error (combine (remove_nth v labels) (m_info q')) (shift v u) = nth_error (combine labels (m_info q)) u).
Proof. exact cqm_remove_variable_refines_spec. Qed.
Print Assumptions C05_cqm_refines_spec_remove_variable_partial.

(* --- the moved-in constraint (add_constraint(QM&&)) and its emptied source --- *)
Theorem C05_move_preserves_invariant :
  forall n lin quad off mapping,
    NoDup mapping -> Forall (fun u => u < n) mapping -> length lin = length mapping ->
    Forall (fun t : lqterm => fst (fst t) < length mapping /\ snd (fst t) < length mapping) quad ->
    ExprInv n (expr_from_move lin quad off mapping).
Proof. exact move_inv. Qed.
Print Assumptions C05_move_preserves_invariant.

Theorem C05_move_then_clear_leaves_empty_source :
  forall lin quad off mapping,
    snd (move_source lin quad off mapping) = e_empty
    /\ abs_expr (fst (move_source lin quad off mapping))
       = mkPoly off (combine mapping lin) (map (to_model mapping) quad).
Proof. exact move_then_clear_leaves_empty_source. Qed.
Print Assumptions C05_move_then_clear_leaves_empty_source.

(* --- frame: an edit through one constraint's view leaves every other expression and all attributes --- *)
Theorem C05_edit_constraint_frame :
  forall q c f,
    let q' := cqm_edit_con c f q in
    m_info q' = m_info q /\ m_obj q' = m_obj q
    /\ (forall c', c' <> c -> nth_error (m_cons q') c' = nth_error (m_cons q) c')
    /\ nth_error (m_cons q') c = option_map (fun k => mc_set_e k (f (mc_e k))) (nth_error (m_cons q) c).
Proof. exact edit_con_frame. Qed.
Print Assumptions C05_edit_constraint_frame.

Theorem C05_view_edit_frame_spec :
  forall l f q q' e, on_target (TCon l) f q = (q', e) ->
    q_vars q' = q_vars q /\ q_obj q' = q_obj q
    /\ map k_lbl (q_cons q') = map k_lbl (q_cons q)
    /\ (forall k', In k' (q_cons q') -> k_lbl k' <> l -> In k' (q_cons q))
    /\ map (fun k => (k_sense k, k_rhs k, k_soft k, k_mark k)) (q_cons q')
       = map (fun k => (k_sense k, k_rhs k, k_soft k, k_mark k)) (q_cons q).
Proof. exact view_edit_frame_spec. Qed.
Print Assumptions C05_view_edit_frame_spec.

(* S level: removal leaves every other variable's coefficients, all attributes and all other variables *)
Theorem C05_spec_remove_variable_others :
  forall l q w, w <> l ->
    lin_coeff (p_lin (q_obj (remove_var_raw l q))) w = lin_coeff (p_lin (q_obj q)) w
    /\ map (fun k => lin_coeff (p_lin (k_p k)) w) (q_cons (remove_var_raw l q))
       = map (fun k => lin_coeff (p_lin (k_p k)) w) (q_cons q)
    /\ map (fun k => (k_lbl k, k_sense k, k_rhs k, k_soft k, k_mark k)) (q_cons (remove_var_raw l q))
       = map (fun k => (k_lbl k, k_sense k, k_rhs k, k_soft k, k_mark k)) (q_cons q)
    /\ (forall x, In x (q_vars (remove_var_raw l q)) <-> In x (q_vars q) /\ v_lbl x <> l).
Proof. exact spec_remove_variable_others. Qed.
Print Assumptions C05_spec_remove_variable_others.

(* --- discrete marks (S level, the rules of the repaired code) --- *)
Theorem C05_fix_variable_discrete_mark :
  forall l a q q' x,
    find_var l (q_vars q) = Some x -> v_vt x = BINARY -> Qc_eqb a 0 = false ->
    fix_one l a q = (q', XNone) ->
    map k_mark (q_cons q') = map (fun k => k_mark k && negb (pmentions (k_p k) l)) (q_cons q).
Proof. exact fix_variable_marks. Qed.
Print Assumptions C05_fix_variable_discrete_mark.

Theorem C05_fix_variable_discrete_mark_other :
  forall l a q q' x,
    find_var l (q_vars q) = Some x -> (is_binary (v_vt x) && negb (Qc_eqb a 0) = false) ->
    fix_one l a q = (q', XNone) ->
    map k_mark (q_cons q') = map k_mark (q_cons q).
Proof. exact fix_variable_marks_other. Qed.
Print Assumptions C05_fix_variable_discrete_mark_other.

Theorem C05_flip_variable_discrete_mark :
  forall l q q',
    flip l q = (q', XNone) ->
    map k_mark (q_cons q') =
    map (fun k => k_mark k && negb (is_discrete (q_vars q) k && pmentions (k_p k) l)) (q_cons q).
Proof. exact flip_variable_marks. Qed.
Print Assumptions C05_flip_variable_discrete_mark.

(* --- the hypotheses are satisfiable on non-trivial data --- *)
Definition ex_e : mexpr :=
  m_add_quadratic (fun _ => INTEGER) 4 1 (qc 3 1) (m_add_linear 3 (qc 5 2) (m_add_linear 0 (qc 1 1) e_empty)).

Example C05_example_invariant_holds : expr_ok 5 ex_e = true /\ expr_ok 4 (m_reindex 1 ex_e) = true.
Proof. vm_compute. split; reflexivity. Qed.

Example C05_example_reindex : e_vars ex_e = [0; 3; 1; 4] /\ e_vars (m_reindex 1 ex_e) = [0; 2; 3]
                              /\ e_vars (m_reindex 2 ex_e) = [0; 2; 1; 3].
Proof. vm_compute. repeat split; reflexivity. Qed.

Definition ex_discrete : list op :=
  [AddDiscreteIter [0; 1; 2] 0 true; FixVar 0 (qc 1 1); VSetOffset (TCon 0) (qc 0 1)].
Definition ex_flip : list op :=
  [AddDiscreteIter [0; 1; 2] 0 true; Flip 0; VRemoveVar (TCon 0) 0; VSetOffset (TCon 0) (qc 0 1)].

(* the discrete status ended by fix_variable(v, 1) / flip_variable(v) does not come back when the
   constraint later becomes one-hot again by other edits *)
Example C05_example_discrete_mark_not_restored :
  existsb (is_discrete (q_vars (run ex_discrete empty_cqm))) (q_cons (run ex_discrete empty_cqm)) = false
  /\ existsb (is_onehot (q_vars (run ex_discrete empty_cqm))) (q_cons (run ex_discrete empty_cqm)) = true
  /\ existsb (is_discrete (q_vars (run ex_flip empty_cqm))) (q_cons (run ex_flip empty_cqm)) = false
  /\ existsb (is_onehot (q_vars (run ex_flip empty_cqm))) (q_cons (run ex_flip empty_cqm)) = true.
Proof. vm_compute. repeat split; reflexivity. Qed.
