(* C05 - a CQM keeps every expression attached to the right variables under any history.
   Only statements; every proof is `exact <lemma>`.
   M = index-level expression of expression.h (Model/Expr.v), S = plain list of labelled
   polynomials (Model/CQMSpec.v).  ExprInv n e: variables_ has no duplicates, every entry is a
   model index < n, the linear biases and interactions are over its local indices and the hash
   map indices_ is exactly the inverse of variables_. *)
From Coq Require Import List ZArith QArith Qcanon Bool Arith.
From Dimod Require Import Base.Util Model.Poly Model.Expr Model.ExprOps Model.CQMSpec Proofs.PolyFacts Proofs.ExprFacts Proofs.ExprViewFacts
  Proofs.RefineFacts Proofs.ExprSim Proofs.CqmSim Proofs.SpecEnergy
  Model.AdjMore Model.ExprBulk Model.ExprLab Gen.Gen_CQM Proofs.ExprBulkFacts Proofs.LabSim Proofs.GenCQMTie Model.ExprOrder Proofs.LabVars Proofs.OrderSim.
From Coq Require Import Sorting.Sorted.
Import ListNotations.
Local Open Scope nat_scope.

(* --- Expression::reindex_variables (run in every expression when the model drops variable v) --- *)

(* the three loops over variables_/indices_ re-establish the invariant for the smaller model *)
Theorem C05_reindex_preserves_invariant :
  forall n e v, ExprInv n e -> v < n -> ExprInv (pred n) (m_reindex v e).
Proof. exact reindex_inv. Qed.
Print Assumptions C05_reindex_preserves_invariant.

(* what the expression stands for afterwards: v's terms deleted, every index above v shifted down *)
Theorem C05_reindex_variables_correct :
  forall n e v, ExprInv n e ->
    abs_expr (m_reindex v e) = relabel (shift v) (remove_variable v (abs_expr e)).
Proof. exact reindex_abs. Qed.
Print Assumptions C05_reindex_variables_correct.

(* "no expression gains, loses or swaps a term belonging to another variable" *)
Theorem C05_reindex_keeps_other_linear :
  forall n e v u, ExprInv n e -> u <> v ->
    lin_coeff (p_lin (abs_expr (m_reindex v e))) (shift v u) = lin_coeff (p_lin (abs_expr e)) u.
Proof. exact reindex_keeps_other_linear. Qed.
Print Assumptions C05_reindex_keeps_other_linear.

Theorem C05_reindex_keeps_other_quadratic :
  forall n e v x y, ExprInv n e -> x <> v -> y <> v ->
    quad_coeff (p_quad (abs_expr (m_reindex v e))) (shift v x) (shift v y) = quad_coeff (p_quad (abs_expr e)) x y.
Proof. exact reindex_keeps_other_quadratic. Qed.
Print Assumptions C05_reindex_keeps_other_quadratic.

Theorem C05_reindex_keeps_offset :
  forall n e v, ExprInv n e -> p_off (abs_expr (m_reindex v e)) = p_off (abs_expr e).
Proof. exact reindex_offset. Qed.
Print Assumptions C05_reindex_keeps_offset.

(* --- enforce_variable --- *)
Theorem C05_enforce_variable_preserves_invariant :
  forall n e v, ExprInv n e -> v < n -> ExprInv n (fst (enforce v e)).
Proof. exact enforce_inv. Qed.
Print Assumptions C05_enforce_variable_preserves_invariant.

Theorem C05_enforce_variable_index :
  forall n e v, ExprInv n e -> v < n ->
    nth_error (e_vars (fst (enforce v e))) (snd (enforce v e)) = Some v.
Proof. exact enforce_index. Qed.
Print Assumptions C05_enforce_variable_index.

(* a fresh variable adds exactly one zero term; a known one changes nothing *)
Theorem C05_enforce_variable_fresh :
  forall n e v, ExprInv n e -> ~ In v (e_vars e) ->
    abs_expr (fst (enforce v e)) =
    mkPoly (p_off (abs_expr e)) (p_lin (abs_expr e) ++ [(v, 0%Qc)]) (p_quad (abs_expr e)).
Proof. exact enforce_abs_fresh. Qed.
Print Assumptions C05_enforce_variable_fresh.

Theorem C05_enforce_variable_known :
  forall n e v, ExprInv n e -> In v (e_vars e) -> fst (enforce v e) = e.
Proof. exact enforce_abs_present. Qed.
Print Assumptions C05_enforce_variable_known.

(* --- Expression::remove_variable through a view: only this expression forgets v, nothing is shifted --- *)
Theorem C05_view_remove_variable_preserves_invariant :
  forall n e v, ExprInv n e -> ExprInv n (m_remove_variable v e).
Proof. exact remove_variable_inv. Qed.
Print Assumptions C05_view_remove_variable_preserves_invariant.

Theorem C05_view_remove_variable_correct :
  forall n e v, ExprInv n e -> abs_expr (m_remove_variable v e) = remove_variable v (abs_expr e).
Proof. exact remove_variable_abs. Qed.
Print Assumptions C05_view_remove_variable_correct.

(* --- ConstrainedQuadraticModel::remove_variable: objective and every constraint --- *)
Theorem C05_remove_then_reindex_all :
  forall q v, CqmInv q -> v < length (m_info q) ->
    let q' := cqm_remove_variable v q in
    CqmInv q'
    /\ abs_expr (m_obj q') = relabel (shift v) (remove_variable v (abs_expr (m_obj q)))
    /\ map (fun k => abs_expr (mc_e k)) (m_cons q')
       = map (fun k => relabel (shift v) (remove_variable v (abs_expr (mc_e k)))) (m_cons q)
    /\ map (fun k => (mc_sense k, mc_rhs k, mc_weight k, mc_pen k, mc_mark k)) (m_cons q')
       = map (fun k => (mc_sense k, mc_rhs k, mc_weight k, mc_pen k, mc_mark k)) (m_cons q)
    /\ (forall u, u <> v -> nth_error (m_info q') (shift v u) = nth_error (m_info q) u).
Proof. exact remove_then_reindex_all. Qed.
Print Assumptions C05_remove_then_reindex_all.

(* --- refinement M -> S for removal: through the label list the index-level removal is the
       plain-polynomial removal of that label; surviving variables keep their label, type, bounds --- *)
Theorem C05_cqm_refines_spec_remove_variable_labels :
  forall q v labels,
    CqmInv q -> NoDup labels -> length labels = length (m_info q) -> v < length (m_info q) ->
    let q' := cqm_remove_variable v q in
    let l := nth v labels 0 in
    lab_abs (remove_nth v labels) (m_obj q') = remove_variable l (lab_abs labels (m_obj q))
    /\ map (fun k => lab_abs (remove_nth v labels) (mc_e k)) (m_cons q')
       = map (fun k => remove_variable l (lab_abs labels (mc_e k))) (m_cons q)
    /\ (forall u, u <> v ->
          nth_error (combine (remove_nth v labels) (m_info q')) (shift v u) = nth_error (combine labels (m_info q)) u).
Proof. exact cqm_remove_variable_refines_spec. Qed.
Print Assumptions C05_cqm_refines_spec_remove_variable_labels.

(* --- the moved-in constraint (add_constraint(QM&&)) and its emptied source --- *)
Theorem C05_move_preserves_invariant :
  forall n lin quad off mapping,
    NoDup mapping -> Forall (fun u => u < n) mapping -> length lin = length mapping ->
    Forall (fun t : lqterm => fst (fst t) < length mapping /\ snd (fst t) < length mapping) quad ->
    ExprInv n (expr_from_move lin quad off mapping).
Proof. exact move_inv. Qed.
Print Assumptions C05_move_preserves_invariant.

Theorem C05_move_then_clear_leaves_empty_source :
  forall lin quad off mapping,
    snd (move_source lin quad off mapping) = e_empty
    /\ abs_expr (fst (move_source lin quad off mapping))
       = mkPoly off (combine mapping lin) (map (to_model mapping) quad).
Proof. exact move_then_clear_leaves_empty_source. Qed.
Print Assumptions C05_move_then_clear_leaves_empty_source.

(* --- frame: an edit through one constraint's view leaves every other expression and all attributes --- *)
Theorem C05_edit_constraint_frame :
  forall q c f,
    let q' := cqm_edit_con c f q in
    m_info q' = m_info q /\ m_obj q' = m_obj q
    /\ (forall c', c' <> c -> nth_error (m_cons q') c' = nth_error (m_cons q) c')
    /\ nth_error (m_cons q') c = option_map (fun k => mc_set_e k (f (mc_e k))) (nth_error (m_cons q) c).
Proof. exact edit_con_frame. Qed.
Print Assumptions C05_edit_constraint_frame.

Theorem C05_view_edit_frame_spec :
  forall l f q q' e, on_target (TCon l) f q = (q', e) ->
    q_vars q' = q_vars q /\ q_obj q' = q_obj q
    /\ map k_lbl (q_cons q') = map k_lbl (q_cons q)
    /\ (forall k', In k' (q_cons q') -> k_lbl k' <> l -> In k' (q_cons q))
    /\ map (fun k => (k_sense k, k_rhs k, k_soft k, k_mark k)) (q_cons q')
       = map (fun k => (k_sense k, k_rhs k, k_soft k, k_mark k)) (q_cons q).
Proof. exact view_edit_frame_spec. Qed.
Print Assumptions C05_view_edit_frame_spec.

(* S level: removal leaves every other variable's coefficients, all attributes and all other variables *)
Theorem C05_spec_remove_variable_others :
  forall l q w, w <> l ->
    lin_coeff (p_lin (q_obj (remove_var_raw l q))) w = lin_coeff (p_lin (q_obj q)) w
    /\ map (fun k => lin_coeff (p_lin (k_p k)) w) (q_cons (remove_var_raw l q))
       = map (fun k => lin_coeff (p_lin (k_p k)) w) (q_cons q)
    /\ map (fun k => (k_lbl k, k_sense k, k_rhs k, k_soft k, k_mark k)) (q_cons (remove_var_raw l q))
       = map (fun k => (k_lbl k, k_sense k, k_rhs k, k_soft k, k_mark k)) (q_cons q)
    /\ (forall x, In x (q_vars (remove_var_raw l q)) <-> In x (q_vars q) /\ v_lbl x <> l).
Proof. exact spec_remove_variable_others. Qed.
Print Assumptions C05_spec_remove_variable_others.

(* --- discrete marks (S level, the rules of the repaired code) --- *)
Theorem C05_fix_variable_discrete_mark :
  forall l a q q' x,
    find_var l (q_vars q) = Some x -> v_vt x = BINARY -> Qc_eqb a 0 = false ->
    fix_one l a q = (q', XNone) ->
    map k_mark (q_cons q') = map (fun k => k_mark k && negb (pmentions (k_p k) l)) (q_cons q).
Proof. exact fix_variable_marks. Qed.
Print Assumptions C05_fix_variable_discrete_mark.

Theorem C05_fix_variable_discrete_mark_other :
  forall l a q q' x,
    find_var l (q_vars q) = Some x -> (is_binary (v_vt x) && negb (Qc_eqb a 0) = false) ->
    fix_one l a q = (q', XNone) ->
    map k_mark (q_cons q') = map k_mark (q_cons q).
Proof. exact fix_variable_marks_other. Qed.
Print Assumptions C05_fix_variable_discrete_mark_other.

Theorem C05_flip_variable_discrete_mark :
  forall l q q',
    flip l q = (q', XNone) ->
    map k_mark (q_cons q') =
    map (fun k => k_mark k && negb (is_discrete (q_vars q) k && pmentions (k_p k) l)) (q_cons q).
Proof. exact flip_variable_marks. Qed.
Print Assumptions C05_flip_variable_discrete_mark.

(* ===================================================================================================
   Whole histories (index level).  mop / mstep (Model/ExprOps.v) is the C++ ConstrainedQuadraticModel API:
   add_variable, set_vartype/bounds, remove_variable, fix_variable, substitute_variable (flip_variable,
   change_vartype), every edit through the objective / a constraint view (add_linear, set_linear,
   add_quadratic, remove_interaction, remove_variable, add_offset, offset :=, clear), add_constraint by
   copy and by move, remove_constraint, weight/penalty/mark.  sstep is the same history on a plain list
   of polynomials.  peq a b: equal energy at every sample (= equal coefficients, CoeffSound).
   =================================================================================================== *)

(* ExprInv holds for the objective and every constraint after EVERY history *)
Theorem C05_expr_inv_reachable : forall ops, CqmInv (mrun ops m_empty).
Proof. exact expr_inv_reachable. Qed.
Print Assumptions C05_expr_inv_reachable.

(* ... and the model stands for what the plain list of polynomials holds *)
Theorem C05_cqm_refines_spec : forall ops, Sim (mrun ops m_empty) (srun ops s_empty).
Proof. exact cqm_refines_spec. Qed.
Print Assumptions C05_cqm_refines_spec.

Theorem C05_cqm_refines_spec_coefficients :
  forall ops n,
    let q := mrun ops m_empty in let sq := srun ops s_empty in
    poly_coeff_eqb n (abs_expr (m_obj q)) (s_obj sq) = true
    /\ Forall2 (fun k p => poly_coeff_eqb n (abs_expr (mc_e k)) p = true) (m_cons q) (s_cons sq).
Proof. exact cqm_refines_spec_coefficients. Qed.
Print Assumptions C05_cqm_refines_spec_coefficients.

(* one step, from any state satisfying invariant + simulation *)
Theorem C05_step_refines : forall q sq o, State q sq -> State (mstep q o) (sstep sq o).
Proof. exact step_state. Qed.
Print Assumptions C05_step_refines.

Theorem C05_state_is_invariant_and_simulation : forall q sq, State q sq <-> CqmInv q /\ Sim q sq.
Proof. exact State_iff. Qed.
Print Assumptions C05_state_is_invariant_and_simulation.

(* the single operations *)
Theorem C05_view_edit_refines :
  forall n vt o e p, ExprInv n e -> eop_ok n o = true -> peq (abs_expr e) p ->
    ExprInv n (apply_eop vt o e) /\ peq (abs_expr (apply_eop vt o e)) (spec_eop vt o p).
Proof. exact eop_step. Qed.
Print Assumptions C05_view_edit_refines.

Theorem C05_remove_interaction_correct :
  forall n e u v, ExprInv n e -> abs_expr (m_remove_interaction u v e) = remove_interaction u v (abs_expr e).
Proof. exact remove_interaction_abs. Qed.
Print Assumptions C05_remove_interaction_correct.

Theorem C05_substitute_variable_preserves_invariant :
  forall n e v m c, ExprInv n e -> ExprInv n (m_substitute v m c e).
Proof. exact substitute_inv. Qed.
Print Assumptions C05_substitute_variable_preserves_invariant.

Theorem C05_substitute_variable_refines :
  forall n e v m c s, ExprInv n e ->
    energy (abs_expr (m_substitute v m c e)) s = energy (substitute v m c (abs_expr e)) s.
Proof. exact substitute_sim. Qed.
Print Assumptions C05_substitute_variable_refines.

Theorem C05_fix_variable_preserves_invariant :
  forall n e v a, ExprInv n e -> (v < n)%nat -> ExprInv (pred n) (m_fix v a e).
Proof. exact fix_inv. Qed.
Print Assumptions C05_fix_variable_preserves_invariant.

(* the fixed expression at any assignment of the remaining (re-indexed) variables = the original at
   that assignment extended by v := a *)
Theorem C05_fix_variable_energy :
  forall n e v a s, ExprInv n e ->
    energy (abs_expr (m_fix v a e)) s = energy (abs_expr e) (upd (fun u => s (shift v u)) v a).
Proof. exact fix_energy. Qed.
Print Assumptions C05_fix_variable_energy.

Theorem C05_fix_variable_refines :
  forall n e v a s, ExprInv n e ->
    energy (abs_expr (m_fix v a e)) s = energy (relabel (shift v) (fix_variable v a (abs_expr e))) s.
Proof. exact fix_sim. Qed.
Print Assumptions C05_fix_variable_refines.

Theorem C05_add_constraint_copy_refines :
  forall n vt lin quad off mapping, mapping_ok n lin quad mapping = true ->
    ExprInv n (expr_from_copy vt lin quad off mapping)
    /\ peq (abs_expr (expr_from_copy vt lin quad off mapping)) (spec_from_copy vt lin quad off mapping).
Proof. exact copy_step. Qed.
Print Assumptions C05_add_constraint_copy_refines.

Theorem C05_add_constraint_move_refines :
  forall n lin quad off mapping, mapping_ok n lin quad mapping = true ->
    ExprInv n (expr_from_move lin quad off mapping)
    /\ abs_expr (expr_from_move lin quad off mapping) = spec_from_move lin quad off mapping.
Proof. exact move_step. Qed.
Print Assumptions C05_add_constraint_move_refines.

(* ===================================================================================================
   S level (labels): effect of the energy-relevant operations of CQMSpec on the energies of the
   objective and every constraint left-hand side
   =================================================================================================== *)
Theorem C05_spec_fix_variable_energies :
  forall l a q q', fix_one l a q = (q', XNone) -> forall s, energies q' s = energies q (upd s l a).
Proof. exact fix_variable_energies. Qed.
Print Assumptions C05_spec_fix_variable_energies.

Theorem C05_spec_flip_variable_energies :
  forall l q q' x, find_var l (q_vars q) = Some x -> flip l q = (q', XNone) ->
    forall s, energies q' s = energies q (upd s l (match v_vt x with BINARY => 1 - s l | _ => - s l end))%Qc.
Proof. exact flip_variable_energies. Qed.
Print Assumptions C05_spec_flip_variable_energies.

Theorem C05_spec_change_vartype_energies :
  forall vt l q q' x, find_var l (q_vars q) = Some x -> change_vartype vt l q = (q', XNone) ->
    forall s, energies q' s =
              energies q (match v_vt x, vt with
                          | SPIN, BINARY | SPIN, INTEGER => upd s l (two * s l - 1)%Qc
                          | BINARY, SPIN => upd s l ((s l + 1) * half)%Qc
                          | _, _ => s
                          end).
Proof. exact change_vartype_energies. Qed.
Print Assumptions C05_spec_change_vartype_energies.

Theorem C05_spec_relabel_variables_energies :
  forall mp q q', relabel_vars mp q = (q', XNone) ->
    forall s, energies q' s = energies q (fun v => s (relabel_fun mp v)).
Proof. exact relabel_variables_energies. Qed.
Print Assumptions C05_spec_relabel_variables_energies.

Theorem C05_spec_remove_variable_energies :
  forall l q s, energies (remove_var_raw l q) s = energies q (upd s l 0%Qc).
Proof. exact remove_variable_energies. Qed.
Print Assumptions C05_spec_remove_variable_energies.

Theorem C05_spec_model_expression_energy :
  forall vt d s,
    energy (desc_poly vt d) s =
    (d_off d + lin_energy (d_lin d) s
     + qsum (map (fun t : qterm => let '(u, v, b) := t in
                   if (u =? v)%nat then match vt u with BINARY => b * s u | SPIN => b | _ => b * s u * s u end
                   else b * s u * s v) (d_quad d)))%Qc.
Proof. exact desc_poly_energy. Qed.
Print Assumptions C05_spec_model_expression_energy.

Theorem C05_spec_view_add_quadratic_energy :
  forall vt u v b p s,
    energy (s_addq vt u v b p) s =
    (energy p s + (if (u =? v)%nat then match vt u with BINARY => b * s u | SPIN => b | _ => b * s u * s u end
                   else b * s u * s v))%Qc.
Proof. exact view_add_quadratic_energy. Qed.
Print Assumptions C05_spec_view_add_quadratic_energy.

Theorem C05_spec_view_set_linear_energy :
  forall v b p s, energy (set_linear v b p) s = (energy p s + (b - lin_coeff (p_lin p) v) * s v)%Qc.
Proof. exact view_set_linear_energy. Qed.
Print Assumptions C05_spec_view_set_linear_energy.

Theorem C05_spec_view_remove_interaction_energy :
  forall u v p s, energy (remove_interaction u v p) s = (energy p s - quad_coeff (p_quad p) u v * s u * s v)%Qc.
Proof. exact view_remove_interaction_energy. Qed.
Print Assumptions C05_spec_view_remove_interaction_energy.

Theorem C05_spec_view_remove_variable_energy :
  forall v p s, energy (remove_variable v p) s = energy p (upd s v 0%Qc).
Proof. exact view_remove_variable_energy. Qed.
Print Assumptions C05_spec_view_remove_variable_energy.

(* ===================================================================================================
   Bulk Expression::remove_variables (code shaped: Model/ExprBulk.v over utils::remove_by_index of
   Model/AdjMore.v) is iterated single removal, highest local index first
   =================================================================================================== *)
Theorem C05_bulk_removal_is_iterated :
  forall n e is_, ExprInv n e -> StronglySorted lt is_ -> Forall (fun i => (i < length (e_vars e))%nat) is_ ->
    let b := bulk_remove_local is_ e in let r := iter_remove is_ e in
    e_vars b = e_vars r /\ e_lin b = e_lin r /\ e_quad b = e_quad r /\ e_off b = e_off r
    /\ ExprInv n b /\ ExprInv n r /\ abs_expr b = abs_expr r
    /\ abs_expr b = fold_right (fun i p => Poly.remove_variable (nth i (e_vars e) 0%nat) p) (abs_expr e) is_.
Proof. exact bulk_is_iterated. Qed.
Print Assumptions C05_bulk_removal_is_iterated.

(* from the model variables handed to remove_variables (duplicate-free; the code sorts the local indices itself) *)
Theorem C05_remove_variables_is_iterated :
  forall n e vs, ExprInv n e -> NoDup vs ->
    let is_ := AdjMore.sort_nat (lookup_all vs e) in
    StronglySorted lt is_
    /\ ExprInv n (m_remove_variables_code vs e)
    /\ abs_expr (m_remove_variables_code vs e) = abs_expr (iter_remove is_ e)
    /\ e_vars (m_remove_variables_code vs e) = e_vars (iter_remove is_ e)
    /\ e_lin (m_remove_variables_code vs e) = e_lin (iter_remove is_ e)
    /\ e_quad (m_remove_variables_code vs e) = e_quad (iter_remove is_ e).
Proof. exact remove_variables_is_iterated. Qed.
Print Assumptions C05_remove_variables_is_iterated.

(* ===================================================================================================
   The label layer (Model/ExprLab.v): Variables as the list of labels; every labelled operation
   (add/remove/fix/substitute/relabel variables, every view edit, add_constraint by move and by copy,
   remove_constraint, attributes) resolves its labels and runs on the index-level model.
   LState: labels duplicate-free, as many as variables, CqmInv, and every expression read through
   the labels has the energy function of the plain polynomial over labels.
   =================================================================================================== *)
Theorem C05_labelled_step_refines : forall q sq o, LState q sq -> LState (lstep q o) (lsstep sq o).
Proof. exact lstep_state. Qed.
Print Assumptions C05_labelled_step_refines.

Theorem C05_cqm_refines_spec_labels : forall ops, LState (lrun ops l_empty) (lsrun ops sl_empty).
Proof. exact labelled_history_state. Qed.
Print Assumptions C05_cqm_refines_spec_labels.

Theorem C05_cqm_refines_spec_labels_coefficients :
  forall ops n,
    let q := lrun ops l_empty in let sq := lsrun ops sl_empty in
    NoDup (l_labels q)
    /\ sl_vars sq = combine (l_labels q) (m_info (l_q q))
    /\ poly_coeff_eqb n (relabel (Lfun (l_labels q)) (abs_expr (m_obj (l_q q)))) (sl_obj sq) = true
    /\ Forall2 (fun k P => poly_coeff_eqb n (relabel (Lfun (l_labels q)) (abs_expr (mc_e k))) P = true)
               (m_cons (l_q q)) (sl_cons sq).
Proof. exact labelled_history_coefficients. Qed.
Print Assumptions C05_cqm_refines_spec_labels_coefficients.

(* ===================================================================================================
   Tie to the source: constants and discrete-marker rules generated by translators/cqm_rules.py
   =================================================================================================== *)
Theorem C05_default_bounds_generated : forall vt, default_bounds vt = gen_default_bounds vt.
Proof. exact default_bounds_generated. Qed.
Print Assumptions C05_default_bounds_generated.

Theorem C05_flip_generated :
  forall l q q' x, find_var l (q_vars q) = Some x -> flip l q = (q', XNone) ->
    q_obj q' = match v_vt x with
               | BINARY => substitute l (fst gen_flip_binary) (snd gen_flip_binary) (q_obj q)
               | _ => substitute l (fst gen_flip_spin) (snd gen_flip_spin) (q_obj q)
               end.
Proof. exact flip_generated. Qed.
Print Assumptions C05_flip_generated.

Theorem C05_spin_to_binary_generated :
  forall v p, spin_to_binary v p = substitute v (fst (fst (fst gen_spin_to_binary))) (snd (fst (fst gen_spin_to_binary))) p.
Proof. exact spin_to_binary_generated. Qed.
Print Assumptions C05_spin_to_binary_generated.

Theorem C05_binary_to_spin_generated :
  forall v p, binary_to_spin v p = substitute v (fst (fst (fst gen_binary_to_spin))) (snd (fst (fst gen_binary_to_spin))) p.
Proof. exact binary_to_spin_generated. Qed.
Print Assumptions C05_binary_to_spin_generated.

Theorem C05_fix_marker_rule_generated :
  forall l a q q' x, find_var l (q_vars q) = Some x -> fix_one l a q = (q', XNone) ->
    map k_mark (q_cons q') =
    map (fun k => k_mark k && negb ((gen_fix_requires_binary_nonzero && is_binary (v_vt x) && negb (Qc_eqb a 0))
                                   && unmark_cond gen_fix_unmark (q_vars q) l k)) (q_cons q).
Proof. exact fix_marker_rule_generated. Qed.
Print Assumptions C05_fix_marker_rule_generated.

Theorem C05_flip_marker_rule_generated :
  forall l q q', flip l q = (q', XNone) ->
    map k_mark (q_cons q') = map (fun k => k_mark k && negb (unmark_cond gen_flip_unmark (q_vars q) l k)) (q_cons q).
Proof. exact flip_marker_rule_generated. Qed.
Print Assumptions C05_flip_marker_rule_generated.

(* ===================================================================================================
   "Exactly the terms": variable order and the ordered interaction list (explicit zeros included)
   =================================================================================================== *)
Theorem C05_step_exact : forall q sq oq o, State q sq -> SState q sq oq -> SState (mstep q o) (sstep sq o) (ostep oq o).
Proof. exact step_sstate. Qed.
Print Assumptions C05_step_exact.

(* for EVERY history: same coefficients (State), and for the objective and every constraint the
   variable order of the order-list run and the interaction list of the specification polynomial *)
Theorem C05_cqm_refines_spec_exact :
  forall ops,
    State (mrun ops m_empty) (srun ops s_empty) /\ SState (mrun ops m_empty) (srun ops s_empty) (orun ops o_empty).
Proof. exact history_exact. Qed.
Print Assumptions C05_cqm_refines_spec_exact.

(* the labelled model is at every moment an index-level history of resolved operations, so the same holds for it *)
Theorem C05_cqm_refines_spec_labels_exact :
  forall ops, exists iops,
    l_q (lrun ops l_empty) = mrun iops m_empty
    /\ State (mrun iops m_empty) (srun iops s_empty)
    /\ SState (mrun iops m_empty) (srun iops s_empty) (orun iops o_empty).
Proof. exact labelled_history_exact. Qed.
Print Assumptions C05_cqm_refines_spec_labels_exact.

(* one expression *)
Theorem C05_view_edit_exact :
  forall n vt op e p o, ExprInv n e -> eop_ok n op = true -> Str e p o ->
    Str (apply_eop vt op e) (spec_eop vt op p) (ord_eop op o).
Proof. exact str_eop. Qed.
Print Assumptions C05_view_edit_exact.

Theorem C05_reindex_exact :
  forall n e p o v, ExprInv n e -> Str e p o ->
    Str (m_reindex v e) (relabel (shift v) (remove_variable v p)) (ord_reindex v o).
Proof. exact str_reindex. Qed.
Print Assumptions C05_reindex_exact.

(* ===================================================================================================
   Variables._relabel (C13's sparse-dict model, read only): a mapping accepted by iter_safe_relabels
   keeps the label list duplicate-free - the CQM relabel step no longer assumes it
   =================================================================================================== *)
Theorem C05_relabel_keeps_labels_distinct :
  forall mp labels, NoDup labels -> NoDup (map fst mp) -> relabel_ok mp labels = true ->
    NoDup (map (relabel_fun mp) labels).
Proof. exact relabel_ok_nodup. Qed.
Print Assumptions C05_relabel_keeps_labels_distinct.

(* ===================================================================================================
   Exception classes and the weight / penalty table, generated from the source
   =================================================================================================== *)
Theorem C05_set_weight_generated :
  forall l w pen q k, find_con l (q_cons q) = Some k ->
    set_weight l w pen q =
    if (gen_weight_must_be_positive && match w with Some x => Qc_leb x 0 | None => false end)
       || negb (forallb (fun v => gen_penalty_allowed (pen_of pen) (vt_of (q_vars q) v)) (pvars (k_p k)))
    then (q, exc_of gen_exc_weight)
    else (upd_con l (fun k => con_set_soft k (match w with Some x => Some (x, pen) | None => None end)) q, XNone).
Proof. exact set_weight_generated. Qed.
Print Assumptions C05_set_weight_generated.

Theorem C05_add_constraint_weight_atomic_generated :
  forall q0 q k w pen, Qc_leb w 0 = true -> append_con q0 q k (Some (w, pen)) = (q0, exc_of gen_exc_weight).
Proof. exact add_constraint_weight_atomic_generated. Qed.
Print Assumptions C05_add_constraint_weight_atomic_generated.

Theorem C05_change_vartype_exception_generated :
  forall vt l q q' e, change_vartype vt l q = (q', e) ->
    e = XNone \/ (q' = q /\ (e = exc_of gen_exc_unknown_variable \/ e = exc_of gen_exc_change_vartype_unsupported)).
Proof. exact change_vartype_exception_generated. Qed.
Print Assumptions C05_change_vartype_exception_generated.

Theorem C05_unknown_variable_exception_generated :
  forall l q, has_var l (q_vars q) = false -> in_discrete l q = false ->
    remove_variable_py l q = (q, exc_of gen_exc_unknown_variable)
    /\ fix_one l 0%Qc q = (q, exc_of gen_exc_unknown_variable)
    /\ flip l q = (q, exc_of gen_exc_unknown_variable).
Proof. exact unknown_variable_exception_generated. Qed.
Print Assumptions C05_unknown_variable_exception_generated.

Theorem C05_duplicate_label_exception_generated :
  forall d s rhs l soft q, has_con l (q_cons q) = true ->
    add_con_model d s rhs l soft q = (q, exc_of gen_exc_duplicate_constraint_label).
Proof. exact duplicate_label_exception_generated. Qed.
Print Assumptions C05_duplicate_label_exception_generated.

(* --- the hypotheses are satisfiable on non-trivial data --- *)
Definition ex_e : mexpr :=
  m_add_quadratic (fun _ => INTEGER) 4 1 (qc 3 1) (m_add_linear 3 (qc 5 2) (m_add_linear 0 (qc 1 1) e_empty)).

Example C05_example_invariant_holds : expr_ok 5 ex_e = true /\ expr_ok 4 (m_reindex 1 ex_e) = true.
Proof. vm_compute. split; reflexivity. Qed.

Example C05_example_reindex : e_vars ex_e = [0; 3; 1; 4] /\ e_vars (m_reindex 1 ex_e) = [0; 2; 3]
                              /\ e_vars (m_reindex 2 ex_e) = [0; 2; 1; 3].
Proof. vm_compute. repeat split; reflexivity. Qed.

Definition ex_discrete : list op :=
  [AddDiscreteIter [0; 1; 2] 0 true; FixVar 0 (qc 1 1); VSetOffset (TCon 0) (qc 0 1)].
Definition ex_flip : list op :=
  [AddDiscreteIter [0; 1; 2] 0 true; Flip 0; VRemoveVar (TCon 0) 0; VSetOffset (TCon 0) (qc 0 1)].

(* the discrete status ended by fix_variable(v, 1) / flip_variable(v) does not come back when the
   constraint later becomes one-hot again by other edits *)
Example C05_example_discrete_mark_not_restored :
  existsb (is_discrete (q_vars (run ex_discrete empty_cqm))) (q_cons (run ex_discrete empty_cqm)) = false
  /\ existsb (is_onehot (q_vars (run ex_discrete empty_cqm))) (q_cons (run ex_discrete empty_cqm)) = true
  /\ existsb (is_discrete (q_vars (run ex_flip empty_cqm))) (q_cons (run ex_flip empty_cqm)) = false
  /\ existsb (is_onehot (q_vars (run ex_flip empty_cqm))) (q_cons (run ex_flip empty_cqm)) = true.
Proof. vm_compute. repeat split; reflexivity. Qed.

Definition ex_hist : list mop :=
  [MAddVariable (mkI INTEGER (qc 0 1) (qc 5 1)); MAddVariable (mkI BINARY (qc 0 1) (qc 1 1));
   MAddVariable (mkI SPIN (qc (-1) 1) (qc 1 1));
   MEdit EObj (EAddQuadratic 2 0 (qc 3 1)); MEdit EObj (EAddLinear 1 (qc 1 2));
   MAddConstraintMove [qc 1 1; qc 2 1] [(0, 1, qc 5 1)]%nat (qc 1 1) [2; 0]%nat 0%nat (qc 1 1);
   MSubstitute 2 (qc 2 1) (qc (-1) 1); MFixVariable 0 (qc 2 1); MRemoveVariable 0].

Example C05_example_history :
  e_vars (m_obj (mrun ex_hist m_empty)) = [0%nat] /\ length (m_info (mrun ex_hist m_empty)) = 1%nat
  /\ poly_coeff_eqb 3 (abs_expr (m_obj (mrun ex_hist m_empty))) (s_obj (srun ex_hist s_empty)) = true.
Proof. vm_compute. repeat split; reflexivity. Qed.

Definition ex_lab_hist : list lop :=
  [LAddVariable 7 (mkI INTEGER (qc 0 1) (qc 5 1)); LAddVariable 3 (mkI BINARY (qc 0 1) (qc 1 1));
   LAddVariable 9 (mkI SPIN (qc (-1) 1) (qc 1 1));
   LEdit EObj (EAddQuadratic 9 7 (qc 3 1)); LEdit EObj (EAddLinear 3 (qc 1 2));
   LAddConstraintMove [qc 1 1; qc 2 1] [(0, 1, qc 5 1)]%nat (qc 1 1) [9; 7]%nat 0%nat (qc 1 1);
   LRelabel [(7, 3); (3, 7)]%nat; LSubstitute 9 (qc 2 1) (qc (-1) 1); LFixVariable 3 (qc 2 1); LRemoveVariable 7].

Example C05_example_labelled_history :
  l_labels (lrun ex_lab_hist l_empty) = [9%nat]
  /\ poly_coeff_eqb 10 (relabel (Lfun (l_labels (lrun ex_lab_hist l_empty))) (abs_expr (m_obj (l_q (lrun ex_lab_hist l_empty)))))
                    (sl_obj (lsrun ex_lab_hist sl_empty)) = true
  /\ e_vars (m_remove_variables_code [4; 0; 1]%nat ex_e) = [3%nat].
Proof. vm_compute. repeat split; reflexivity. Qed.

Example C05_example_exact :
  o_obj (orun ex_hist o_empty) = e_vars (m_obj (mrun ex_hist m_empty))
  /\ qpairs (abs_expr (m_obj (mrun ex_hist m_empty))) = qpairs (s_obj (srun ex_hist s_empty))
  /\ o_cons (orun ex_hist o_empty) = map (fun k => e_vars (mc_e k)) (m_cons (mrun ex_hist m_empty)).
Proof. vm_compute. repeat split; reflexivity. Qed.

(* ---------- substitute_self_loops and clear (S level) ---------- *)
From Dimod Require Import Proofs.SelfLoopFacts.
Local Open Scope Qc_scope.

(* replacing every stored self-loop u*u by u*new leaves the value of the expression unchanged wherever new = u *)
Theorem C05_substitute_self_loops_expression_energy :
  forall vt mp p s, mp_ok s mp -> energy (subst_loops_poly vt mp p) s = energy p s.
Proof. exact subst_loops_poly_energy. Qed.
Print Assumptions C05_substitute_self_loops_expression_energy.

(* ... and no substituted variable keeps a self-loop *)
Theorem C05_substitute_self_loops_removes_loops :
  forall vt mp p t, (forall t', In t' mp -> snd (fst t') <> fst (fst t')) -> In t mp ->
    has_pair (p_quad (subst_loops_poly vt mp p)) (fst (fst t)) (fst (fst t)) = false.
Proof. exact subst_loops_poly_no_self_loop. Qed.
Print Assumptions C05_substitute_self_loops_removes_loops.

(* the model as a whole: the objective and every constraint that was there keep their value at every sample in which
   each new variable equals its original, and each appended constraint u - new == 0 holds there *)
Theorem C05_substitute_self_loops_energies :
  forall mp q q' s, subst_self_loops mp q = (q', XNone) -> mp_ok s mp ->
    energy (q_obj q') s = energy (q_obj q) s
    /\ map (fun k => energy (k_p k) s) (firstn (length (q_cons q)) (q_cons q')) = map (fun k => energy (k_p k) s) (q_cons q)
    /\ forall k, In k (skipn (length (q_cons q)) (q_cons q')) -> energy (k_p k) s = 0.
Proof. exact subst_self_loops_energies. Qed.
Print Assumptions C05_substitute_self_loops_energies.

(* constraints: the old ones keep label, sense, right-hand side, softness and mark; one hard equality per entry is appended *)
Theorem C05_substitute_self_loops_constraints :
  forall mp q q', subst_self_loops mp q = (q', XNone) ->
    length (q_cons q') = (length (q_cons q) + length mp)%nat
    /\ map k_lbl (q_cons q') = map k_lbl (q_cons q) ++ map snd mp
    /\ map k_sense (q_cons q') = map k_sense (q_cons q) ++ map (fun _ => EQ) mp
    /\ map k_rhs (q_cons q') = map k_rhs (q_cons q) ++ map (fun _ => 0) mp
    /\ map k_soft (q_cons q') = map k_soft (q_cons q) ++ map (fun _ => None) mp
    /\ map k_mark (q_cons q') = map k_mark (q_cons q) ++ map (fun _ => false) mp.
Proof. exact subst_self_loops_shape. Qed.
Print Assumptions C05_substitute_self_loops_constraints.

(* variables: the old ones are untouched; one new variable per entry, in the mapping's order, with its original's type and bounds *)
Theorem C05_substitute_self_loops_variables :
  forall mp q q', subst_self_loops mp q = (q', XNone) -> q_vars q' = q_vars q ++ flat_map (new_var (q_vars q)) mp.
Proof. exact subst_self_loops_vars. Qed.
Print Assumptions C05_substitute_self_loops_variables.

Theorem C05_substitute_self_loops_keys_are_variables :
  forall mp q q' t, subst_self_loops mp q = (q', XNone) -> In t mp -> exists x, find_var (fst (fst t)) (q_vars q) = Some x.
Proof. exact subst_self_loops_keys_are_variables. Qed.
Print Assumptions C05_substitute_self_loops_keys_are_variables.

(* the specification decides WHICH variables are substituted: a mapping over any other key set is not accepted *)
Theorem C05_substitute_self_loops_rejects_wrong_keys :
  forall mp q,
    let need := map v_lbl (filter (needs_subst q) (q_vars q)) in
    let keys := map (fun t => fst (fst t)) mp in
    (forallb (fun x => memb x keys) need && forallb (fun x => memb x need) keys) = false ->
    subst_self_loops mp q = (q, XOther).
Proof. exact subst_self_loops_rejects. Qed.
Print Assumptions C05_substitute_self_loops_rejects_wrong_keys.

Theorem C05_clear_is_empty : forall q, step q Clear = (empty_cqm, XNone).
Proof. exact clear_is_empty. Qed.
Print Assumptions C05_clear_is_empty.

Example C05_example_substitute_self_loops :
  let p := mkPoly 0 [(0%nat, 1)] [(0%nat, 0%nat, two); (0%nat, 1%nat, 1)] in
  let q := mkCqm [mkV 0 INTEGER 0 (qc 5 1); mkV 1 BINARY 0 1] p [] in
  let r := fst (subst_self_loops [(0%nat, 7%nat, 3%nat)] q) in
  snd (subst_self_loops [(0%nat, 7%nat, 3%nat)] q) = XNone
  /\ map v_lbl (q_vars r) = [0%nat; 1%nat; 7%nat]
  /\ has_pair (p_quad (q_obj r)) 0 0 = false /\ quad_coeff (p_quad (q_obj r)) 0 7 = two
  /\ map k_lbl (q_cons r) = [3%nat]
  /\ snd (subst_self_loops [] q) = XOther.
Proof. vm_compute. repeat split; reflexivity. Qed.

(* ---------- from_discrete_quadratic_model (S level) ---------- *)
From Dimod Require Import Proofs.FromDqmFacts.

(* one hard equality (== 1) with the discrete mark per DQM variable, in order, under the DQM variable's label; the
   objective is the case-level model *)
Theorem C05_from_dqm_shape :
  forall d gs q', from_dqm d gs = (q', XNone) ->
    map k_lbl (q_cons q') = map fst gs
    /\ map k_mark (q_cons q') = map (fun _ => true) gs
    /\ map k_sense (q_cons q') = map (fun _ => EQ) gs
    /\ map k_rhs (q_cons q') = map (fun _ => 1) gs
    /\ q_obj q' = desc_poly (vt_of (merge_vars [] (d_vars d))) d.
Proof. exact from_dqm_shape. Qed.
Print Assumptions C05_from_dqm_shape.
