(* C09 - binary model files load back as the identical model.

   Proved for ALL inputs (no size bound) on the model of Model/Codec.v:
   - little-endian integers, header framing (make_header / read_header), section framing (Section.dumps / load);
   - the JSON text layer for the modelled subset: header dictionaries (BQM, QM, expression) and label arrays
     (integers incl. negative, printable-ASCII strings with the quote / backslash escapes, nested arrays for tuples):
     the rigid parser inverts the printer.  Float labels, non-ASCII and control characters are NOT modelled
     (exercised by the implementation round trip only);
   - whole BQM files (versions 1.0 and 2.0), whole QM files, whole expression members: decode (encode f) = f. *)
From Coq Require Import List NArith ZArith Arith Bool QArith.
From Dimod Require Import Proofs.Widen Gen.Gen_Codec Model.Codec Model.ChkC09 Proofs.CodecBase Proofs.CodecFrame Proofs.CodecBqm Proofs.CodecBqmTop
  Proofs.CodecLabel Proofs.CodecJson Proofs.CodecBqmFull Proofs.CodecQm Proofs.CodecExpr
  Model.Rebuild Proofs.RebuildFacts Proofs.RebuildUpsert Gen.Gen_Loaders Model.Loaders Proofs.CodecAdj
  Model.CodecEq Model.CqmFile Proofs.CqmFileFacts Proofs.CqmArchive Model.CqmFile2 Proofs.CqmArchive2 Model.Npy Proofs.NpyFacts.
Import ListNotations.

Theorem le_decode_encode : forall n x, (x < 256 ^ N.of_nat n)%N -> le_dec (le_enc n x) = x.
Proof. exact CodecBase.le_decode_encode. Qed.
Print Assumptions le_decode_encode.

(* read_header (make_header prefix version json ++ rest) = ((version, data), rest) *)
Theorem header_roundtrip :
  forall (H : Type) prefix (jd : bytes -> option H) json h v rest,
    (N.of_nat (length json + 1 + ALIGN) < 256 ^ N.of_nat HEADER_LEN_BYTES)%N ->
    (forall ws, forallb is_ws ws = true -> jd (json ++ ws) = Some h) ->
    dec_header prefix jd (header prefix v json ++ rest) = Ok ((v, h), rest).
Proof. intros H prefix jd json h v rest Hf Hj. exact (header_rt prefix jd json h v Hf Hj rest). Qed.
Print Assumptions header_roundtrip.

Theorem header_aligned : forall prefix v json,
  (N.of_nat (length json + 1 + ALIGN) < 256 ^ N.of_nat HEADER_LEN_BYTES)%N ->
  length (header prefix v json) mod ALIGN = 0.
Proof. intros prefix v json. exact (CodecFrame.header_aligned prefix json v). Qed.
Print Assumptions header_aligned.

(* Section.load returns payload + padding, and leaves the file positioned after the section *)
Theorem section_roundtrip : forall magic nlen p rest,
  (N.of_nat (length p + ALIGN) < 256 ^ N.of_nat nlen)%N ->
  dec_tsection magic nlen (fun x => Some x) (section magic nlen p ++ rest)
  = Ok (p ++ spaces (pad_len (length magic + nlen + length p)), rest).
Proof. exact CodecFrame.section_roundtrip. Qed.
Print Assumptions section_roundtrip.

(* a section whose payload decoder ignores trailing padding gives back the value *)
Theorem typed_section_roundtrip :
  forall (A : Type) magic nlen (pd : bytes -> option A) p a rest,
    (N.of_nat (length p + ALIGN) < 256 ^ N.of_nat nlen)%N ->
    (forall j, pd (p ++ spaces j) = Some a) ->
    dec_tsection magic nlen pd (section magic nlen p ++ rest) = Ok (a, rest).
Proof. intros A magic nlen pd p a rest Hf Hp. exact (tsection_rt magic nlen pd p a Hf Hp rest). Qed.
Print Assumptions typed_section_roundtrip.

Theorem section_aligned : forall magic nlen p,
  (N.of_nat (length p + ALIGN) < 256 ^ N.of_nat nlen)%N -> length (section magic nlen p) mod ALIGN = 0.
Proof. intros magic nlen p. exact (CodecFrame.section_aligned magic nlen p). Qed.
Print Assumptions section_aligned.

(* the unframed BQM body: offset, n x (nidx, bias), all neighbourhoods in full *)
Theorem bqm_body_decode_encode :
  forall w off lin adj m rest,
    length off = w ->
    Forall (fun b => length b = w) lin ->
    length adj = length lin ->
    Forall (Forall (rec_ok IDX_BYTES w)) adj ->
    (2 * m = N.of_nat (sumn (map (@length _) adj)))%N ->
    (2 * m < 256 ^ N.of_nat IDX_BYTES)%N ->
    dec_bqm_body w (length lin) m (bqm_body lin adj off ++ rest) = Ok ((off, lin, adj), rest).
Proof.
  intros w off lin adj m rest H1 H2 H3 H4 H5 H6.
  destruct (Nat.eq_dec (length lin) 0) as [E|E].
  - destruct lin; [|discriminate]. destruct adj; [|discriminate]. exact (body_nil_rt w m off H1 rest).
  - exact (body_rt w off lin adj m H1 H2 H3 H4 H5 H6 E rest).
Qed.
Print Assumptions bqm_body_decode_encode.

(* json.loads inverts json.dumps on label arrays (VARS payload, v1 header, variable_labels.json); tuples come back
   as tuples (LTup), arbitrary nesting *)
Theorem label_roundtrip : forall ls j, LabelsWF ls -> labels_dec (pr_labels ls ++ spaces j) = Some ls.
Proof. exact CodecLabel.label_roundtrip. Qed.
Print Assumptions label_roundtrip.

(* ... and on the BQM header dictionary, followed by any whitespace (newline + padding) *)
Theorem bqm_header_json_roundtrip : forall h ws, HvWF (h_vars h) -> forallb is_ws ws = true ->
  bqm_jd (bqm_json h ++ ws) = Some h.
Proof. intros h ws W. exact (proj1 (bqm_hdr_ok h W) ws). Qed.
Print Assumptions bqm_header_json_roundtrip.

(* whole BQM files, versions 1.0 and 2.0, no hypotheses beyond well-formedness of the content
   (widths, index ranges, sizes below 2^32, labels in the modelled subset) *)
Theorem bqm_decode_encode : forall f, BqmWFL f -> run bqm_decode (bqm_encode f) = Ok f.
Proof. exact CodecBqmFull.bqm_decode_encode_full. Qed.
Print Assumptions bqm_decode_encode.

Theorem qm_decode_encode : forall f, QmWF f -> run qm_decode (qm_encode f) = Ok f.
Proof. exact CodecQm.qm_decode_encode. Qed.
Print Assumptions qm_decode_encode.

Theorem expr_decode_encode : forall f, ExprWF f -> run expr_decode (expr_encode f) = Ok f.
Proof. exact CodecExpr.expr_decode_encode. Qed.
Print Assumptions expr_decode_encode.

(* ---- the loaded MODEL, not only the file record: replaying the loader's add_quadratic_back calls on the stored
   lower triangles restores the whole adjacency - both directions of every interaction, self loops once, every
   neighbourhood in index order - for any symmetric, index-sorted adjacency of any size *)
Theorem rebuild_lowers : forall (B : Type) (a : list (list (nat * B))), AdjWF a -> rebuild (lowers a) = a.
Proof. intros B a. exact (RebuildFacts.rebuild_lowers a). Qed.
Print Assumptions rebuild_lowers.

(* the same for the loader the source actually has: primitive (add_quadratic / add_quadratic_back) and the
   searchsorted side are read off the code by translators/codec_loaders.py (Gen_Loaders.v); a loader switched to
   another primitive changes the generated constants and these proofs no longer check *)
Theorem qm_load_restores_adjacency : forall (add : bytes -> bytes -> bytes) (add0 : bytes -> bytes) f
  (a : list (list (nat * bytes))),
  QmWF f -> AdjWF a -> qf_neig f = map nb_N (lowers a) ->
  exists g, run qm_decode (qm_encode f) = Ok g /\ qm_load_adjacency add add0 (map nb_nat (qf_neig g)) = a.
Proof. exact CodecAdj.qm_load_restores_adjacency. Qed.
Print Assumptions qm_load_restores_adjacency.

(* BQM: the loader calls add_quadratic (lower_bound + insert-if-absent + `+=`); on the call sequence of a load every
   call finds only smaller keys in both neighbourhoods it touches, so every upsert is an append (proved by induction
   over the calls, any number of variables).  `0 + bias = bias` is the only arithmetic fact used. *)
Theorem rebuild_upsert_lowers : forall (B : Type) (add : B -> B -> B) (a : list (list (nat * B))),
  AdjWF a -> NoSelf a -> rebuild_upsert add (fun b => b) (lowers a) = a.
Proof. intros B add a W NS. exact (RebuildUpsert.rebuild_upsert_lowers add a W NS). Qed.
Print Assumptions rebuild_upsert_lowers.

Theorem bqm_load_restores_adjacency : forall (add : bytes -> bytes -> bytes) f (a : list (list (nat * bytes))),
  BqmWFL f -> AdjWF a -> NoSelf a -> bf_adj f = map nb_N a ->
  exists g, run bqm_decode (bqm_encode f) = Ok g
            /\ bqm_load_adjacency add (fun b => b) (map nb_nat (bf_adj g)) = a.
Proof. exact CodecAdj.bqm_load_restores_adjacency. Qed.
Print Assumptions bqm_load_restores_adjacency.

(* hypotheses are satisfiable on non-trivial data: the implementation's own bytes of
   BQM({'a':1.5,'b':-2,('t',1):.25},{('a','b'):3},.5,'SPIN') *)
Example bqm_example_roundtrip :
  let f := mkBqmFile (2, 0)%N F64 BSPIN 1%N [0;0;0;0;0;0;224;63]%N
             [[0;0;0;0;0;0;248;63]%N; [0;0;0;0;0;0;0;192]%N; [0;0;0;0;0;0;208;63]%N]
             [[(1%N, [0;0;0;0;0;0;8;64]%N)]; [(0%N, [0;0;0;0;0;0;8;64]%N)]; []]
             (Some [LStr [97]%N; LStr [98]%N; LTup [LStr [116]%N; LInt 1]]) in
  length (bqm_encode f) = 324 /\ run bqm_decode (bqm_encode f) = Ok f.
Proof. vm_compute. split; reflexivity. Qed.


(* ---- CQM serialization versions 1.0 - 1.3 (read by ConstrainedQuadraticModel._from_file_legacy, modelled in
   Model/CqmFile.v on the list of archive members).  The objective member of such a file lists every variable of the
   model; the loaded model then has exactly the objective's variables, in the objective's order and with its vartypes
   and bounds, for any number of constraints and whatever order the reader visits them in (it iterates a set) *)
Theorem legacy_vars_objective : forall obj cons,
  NoDup (map fst (nx_vars obj)) ->
  (forall c, In c cons -> incl (map fst (nx_vars c)) (map fst (nx_vars obj))) ->
  legacy_vars obj cons = nx_vars obj.
Proof. exact CqmFileFacts.legacy_vars_objective. Qed.
Print Assumptions legacy_vars_objective.

Theorem legacy_vars_order_independent : forall obj cons cons',
  NoDup (map fst (nx_vars obj)) ->
  (forall c, In c cons -> incl (map fst (nx_vars c)) (map fst (nx_vars obj))) ->
  (forall c, In c cons' -> In c cons) ->
  legacy_vars obj cons' = legacy_vars obj cons.
Proof. exact CqmFileFacts.legacy_vars_order_independent. Qed.
Print Assumptions legacy_vars_order_independent.

(* a reader that loads the constraints before the objective is a different function (two variables, one constraint
   over the second one): the model separates the two orders *)
Theorem legacy_constraints_first_differs :
  NoDup (map fst (nx_vars ex_obj))
  /\ (forall c, In c [ex_con] -> incl (map fst (nx_vars c)) (map fst (nx_vars ex_obj)))
  /\ legacy_vars ex_obj [ex_con] = nx_vars ex_obj
  /\ constraints_first_vars ex_obj [ex_con] <> nx_vars ex_obj.
Proof. exact CqmFileFacts.constraints_first_differs. Qed.
Print Assumptions legacy_constraints_first_differs.

(* the constraint directory of a member name "constraints/<json label>/<leaf>" is recovered for every label text,
   including labels that contain '/' themselves *)
Theorem constraint_dir_member : forall dir leaf, dir <> [] ->
  forallb (fun c => negb (N.eqb c SLASH)) leaf = true ->
  constraint_dir (CONSTRAINTS_DIR ++ dir ++ [SLASH] ++ leaf) = Some dir.
Proof. exact CqmFileFacts.constraint_dir_member. Qed.
Print Assumptions constraint_dir_member.

(* QuadraticModel.from_file with the header's "type" entry ignored (as the code does): inverse of to_file *)
Theorem qm_decode_any_encode : forall f, QmWF f -> run qm_decode_any (qm_encode f) = Ok f.
Proof. exact CqmArchive.qm_decode_any_encode. Qed.
Print Assumptions qm_decode_any_encode.

(* fileview.load's dispatch on the magic prefix + the member decoders, for QM and BQM members *)
Theorem member_decode_encode : forall m, MemberWF m -> member_decode (member_encode m) = Ok (member_nexpr m).
Proof. exact CqmArchive.member_decode_encode. Qed.
Print Assumptions member_decode_encode.

(* WHOLE version-1.x archives, any number of variables and constraints: the reader applied to the members the writer
   produces (objective, constraints/<json label>/{lhs, rhs, sense, discrete[, weight, penalty]}) returns the saved
   objective, every constraint with its label (also labels containing '/'), left-hand side, rhs, sense, discrete
   flag and soft weight / penalty, and the variables the objective and the constraints bring in file order.
   Hypotheses: members well-formed for their codec (sizes below 2^32, labels in the modelled JSON subset), rhs and
   weight are 8 bytes, constraint labels pairwise distinct *)
Theorem legacy_read_archive : forall obj cons,
  MemberWF obj -> (forall c, In c cons -> ConWF c) -> NoDup (map wc_label cons) ->
  legacy_read (legacy_archive obj cons) = Ok (lmodel_of obj cons).
Proof. exact CqmArchive.legacy_read_archive. Qed.
Print Assumptions legacy_read_archive.

Theorem legacy_read_archive_vars : forall obj cons,
  MemberWF obj -> (forall c, In c cons -> ConWF c) -> NoDup (map wc_label cons) ->
  NoDup (map fst (nx_vars (member_nexpr obj))) ->
  (forall c, In c cons -> incl (map fst (nx_vars (member_nexpr (wc_lhs c)))) (map fst (nx_vars (member_nexpr obj)))) ->
  exists m, legacy_read (legacy_archive obj cons) = Ok m /\ lm_vars m = nx_vars (member_nexpr obj).
Proof. exact CqmArchive.legacy_read_archive_vars. Qed.
Print Assumptions legacy_read_archive_vars.

(* the hypotheses are satisfiable on non-trivial data: objective over 'a','b' (QM), one soft constraint labelled
   "x/y" whose left-hand side is a float32 SPIN BQM over 'b' *)
Example legacy_archive_example :
  let one := [0;0;0;0;0;0;240;63]%N in let zero := [0;0;0;0;0;0;0;0]%N in
  let obj := WQm (mkQmFile F64 1%N [(VT_BINARY, (zero, one)); (VT_BINARY, (zero, one))] zero [one; zero]
                    [[]; [(0%N, one)]] (Some [LStr [97]%N; LStr [98]%N])) in
  let con := mkWcon (LStr [120;47;121]%N)
                    (WBqm (mkBqmFile (2, 0)%N F32 BSPIN 0%N [0;0;0;0]%N [[0;0;128;63]%N] [[]] (Some [LStr [98]%N])))
                    one [60;61]%N false (Some (one, [108;105;110;101;97;114]%N)) in
  match legacy_read (legacy_archive obj [con]) with
  | Ok m => map fst (lm_vars m) = [LStr [97]%N; LStr [98]%N] /\ length (lm_cons m) = 1
            /\ map nx_lin (map lc_lhs (lm_cons m)) = [[one]]
  | Err => False
  end.
Proof. vm_compute. repeat split; reflexivity. Qed.

(* WHOLE version-2.0 archives (today's to_file / from_file), any number of variables and constraints: the reader
   applied to the members the writer produces - varinfo, variable_labels.json (only when the labels are not range(n)),
   objective, constraints/<json label>/{lhs, rhs, sense[, discrete][, weight, penalty]} - returns the saved record:
   vartypes and bounds in order, the labels in order, the objective, and every constraint with its label, left-hand
   side, rhs, sense, discrete mark and soft weight / penalty *)
Theorem cqm2_read_archive : forall m, Cqm2WF m -> cqm2_read (length (c2_vinfo m)) (cqm2_archive m) = Ok m.
Proof. exact CqmArchive2.cqm2_read_archive. Qed.
Print Assumptions cqm2_read_archive.

(* non-trivial instance: two variables ('a' BINARY, 'b' INTEGER 0..5) with labels, objective a + 2ab, one soft discrete-marked
   constraint labelled "x/y" over 'a' *)
Example cqm2_archive_example :
  let one := [0;0;0;0;0;0;240;63]%N in let zero := [0;0;0;0;0;0;0;0]%N in let two := [0;0;0;0;0;0;0;64]%N in
  let five := [0;0;0;0;0;0;20;64]%N in
  let obj := mkExprFile F64 [79;98;106]%N [0%N; 1%N] zero [one; zero] [(1%N, (0%N, two))] in
  let lhs := mkExprFile F64 [67;111;110]%N [0%N] zero [one] [] in
  let m := mkC2model [(VT_BINARY, (zero, one)); (VT_INTEGER, (zero, five))] (Some [LStr [97]%N; LStr [98]%N]) obj
             [mkC2con (LStr [120;47;121]%N) lhs one [61;61]%N true (Some (two, [108;105;110;101;97;114]%N))] in
  length (cqm2_archive m) = 9 /\ match cqm2_read 2 (cqm2_archive m) with Ok m' => c2model_eqb m' m = true | Err => False end.
Proof. vm_compute. split; reflexivity. Qed.

(* float32 members inside a CQM (float64 biases): the widening of Model/CqmFile.v preserves the VALUE of every finite
   binary32 number - zeros, subnormals (renormalised) and normal numbers - read off the fields (sign, biased exponent,
   fraction) with the IEEE-754 meaning; infinities stay infinities and NaNs stay NaNs.  (The packing of the fields into
   bytes is tied to NumPy by the `widen` stream of the check.) *)
Theorem f32_widen_value : forall s e m, (m < 2 ^ 23)%N -> (e < 255)%N ->
  oeq (val64 (widen_fields (s, e, m))) (val32 (s, e, m)).
Proof. exact Widen.widen_value. Qed.
Print Assumptions f32_widen_value.

Theorem f32_widen_special : forall s m, (m < 2 ^ 23)%N ->
  let '(s', e', m') := widen_fields (s, 255%N, m) in s' = s /\ e' = 2047%N /\ (m' = 0%N <-> m = 0%N) /\ (m' < 2 ^ 52)%N.
Proof. exact Widen.widen_special. Qed.
Print Assumptions f32_widen_special.

(* the .npy members of a DQM file's data section (case_starts, linear_biases, quadratic_*, offset): the member decoder
   inverts the NumPy format-1.0 layout for ANY amount k of header padding (the amount depends on the NumPy version),
   for one-dimensional arrays of any length and scalars, any item width 1..8 *)
Theorem npy_decode_encode : forall k a, NpyWF a ->
  (N.of_nat (length (npy_dict a) + k + 1) < 256 ^ 2)%N ->
  npy_decode (npy_encode k a) = Ok a.
Proof. exact NpyFacts.npy_decode_encode. Qed.
Print Assumptions npy_decode_encode.

Example npy_example :
  npy_decode (npy_encode 60 (mkNpy [60;117;50]%N (Some 2%N) [[0;0]%N; [2;0]%N]))
  = Ok (mkNpy [60;117;50]%N (Some 2%N) [[0;0]%N; [2;0]%N])
  /\ length (npy_encode 60 (mkNpy [60;117;50]%N (Some 2%N) [[0;0]%N; [2;0]%N])) = 132.
Proof. vm_compute. split; reflexivity. Qed.
