(* C09 - binary model files load back as the identical model.

   Proved for ALL inputs (no size bound) on the model of Model/Codec.v:
   - little-endian integers, header framing (make_header / read_header), section framing (Section.dumps / load);
   - the JSON text layer for the modelled subset: header dictionaries (BQM, QM, expression) and label arrays
     (integers incl. negative, printable-ASCII strings with the quote / backslash escapes, nested arrays for tuples):
     the rigid parser inverts the printer.  Float labels, non-ASCII and control characters are NOT modelled
     (exercised by the implementation round trip only);
   - whole BQM files (versions 1.0 and 2.0), whole QM files, whole expression members: decode (encode f) = f. *)
From Coq Require Import List NArith ZArith Arith Bool.
From Dimod Require Import Gen.Gen_Codec Model.Codec Model.ChkC09 Proofs.CodecBase Proofs.CodecFrame Proofs.CodecBqm Proofs.CodecBqmTop
  Proofs.CodecLabel Proofs.CodecJson Proofs.CodecBqmFull Proofs.CodecQm Proofs.CodecExpr
  Model.Rebuild Proofs.RebuildFacts Proofs.RebuildUpsert Gen.Gen_Loaders Model.Loaders Proofs.CodecAdj.
Import ListNotations.

Theorem le_decode_encode : forall n x, (x < 256 ^ N.of_nat n)%N -> le_dec (le_enc n x) = x.
Proof. exact CodecBase.le_decode_encode. Qed.
Print Assumptions le_decode_encode.

(* read_header (make_header prefix version json ++ rest) = ((version, data), rest) *)
Theorem header_roundtrip :
  forall (H : Type) prefix (jd : bytes -> option H) json h v rest,
    (N.of_nat (length json + 1 + ALIGN) < 256 ^ N.of_nat HEADER_LEN_BYTES)%N ->
    (forall ws, forallb is_ws ws = true -> jd (json ++ ws) = Some h) ->
    dec_header prefix jd (header prefix v json ++ rest) = Ok ((v, h), rest).
Proof. intros H prefix jd json h v rest Hf Hj. exact (header_rt prefix jd json h v Hf Hj rest). Qed.
Print Assumptions header_roundtrip.

Theorem header_aligned : forall prefix v json,
  (N.of_nat (length json + 1 + ALIGN) < 256 ^ N.of_nat HEADER_LEN_BYTES)%N ->
  length (header prefix v json) mod ALIGN = 0.
Proof. intros prefix v json. exact (CodecFrame.header_aligned prefix json v). Qed.
Print Assumptions header_aligned.

(* Section.load returns payload + padding, and leaves the file positioned after the section *)
Theorem section_roundtrip : forall magic nlen p rest,
  (N.of_nat (length p + ALIGN) < 256 ^ N.of_nat nlen)%N ->
  dec_tsection magic nlen (fun x => Some x) (section magic nlen p ++ rest)
  = Ok (p ++ spaces (pad_len (length magic + nlen + length p)), rest).
Proof. exact CodecFrame.section_roundtrip. Qed.
Print Assumptions section_roundtrip.

(* a section whose payload decoder ignores trailing padding gives back the value *)
Theorem typed_section_roundtrip :
  forall (A : Type) magic nlen (pd : bytes -> option A) p a rest,
    (N.of_nat (length p + ALIGN) < 256 ^ N.of_nat nlen)%N ->
    (forall j, pd (p ++ spaces j) = Some a) ->
    dec_tsection magic nlen pd (section magic nlen p ++ rest) = Ok (a, rest).
Proof. intros A magic nlen pd p a rest Hf Hp. exact (tsection_rt magic nlen pd p a Hf Hp rest). Qed.
Print Assumptions typed_section_roundtrip.

Theorem section_aligned : forall magic nlen p,
  (N.of_nat (length p + ALIGN) < 256 ^ N.of_nat nlen)%N -> length (section magic nlen p) mod ALIGN = 0.
Proof. intros magic nlen p. exact (CodecFrame.section_aligned magic nlen p). Qed.
Print Assumptions section_aligned.

(* the unframed BQM body: offset, n x (nidx, bias), all neighbourhoods in full *)
Theorem bqm_body_decode_encode :
  forall w off lin adj m rest,
    length off = w ->
    Forall (fun b => length b = w) lin ->
    length adj = length lin ->
    Forall (Forall (rec_ok IDX_BYTES w)) adj ->
    (2 * m = N.of_nat (sumn (map (@length _) adj)))%N ->
    (2 * m < 256 ^ N.of_nat IDX_BYTES)%N ->
    dec_bqm_body w (length lin) m (bqm_body lin adj off ++ rest) = Ok ((off, lin, adj), rest).
Proof.
  intros w off lin adj m rest H1 H2 H3 H4 H5 H6.
  destruct (Nat.eq_dec (length lin) 0) as [E|E].
  - destruct lin; [|discriminate]. destruct adj; [|discriminate]. exact (body_nil_rt w m off H1 rest).
  - exact (body_rt w off lin adj m H1 H2 H3 H4 H5 H6 E rest).
Qed.
Print Assumptions bqm_body_decode_encode.

(* json.loads inverts json.dumps on label arrays (VARS payload, v1 header, variable_labels.json); tuples come back
   as tuples (LTup), arbitrary nesting *)
Theorem label_roundtrip : forall ls j, LabelsWF ls -> labels_dec (pr_labels ls ++ spaces j) = Some ls.
Proof. exact CodecLabel.label_roundtrip. Qed.
Print Assumptions label_roundtrip.

(* ... and on the BQM header dictionary, followed by any whitespace (newline + padding) *)
Theorem bqm_header_json_roundtrip : forall h ws, HvWF (h_vars h) -> forallb is_ws ws = true ->
  bqm_jd (bqm_json h ++ ws) = Some h.
Proof. intros h ws W. exact (proj1 (bqm_hdr_ok h W) ws). Qed.
Print Assumptions bqm_header_json_roundtrip.

(* whole BQM files, versions 1.0 and 2.0, no hypotheses beyond well-formedness of the content
   (widths, index ranges, sizes below 2^32, labels in the modelled subset) *)
Theorem bqm_decode_encode : forall f, BqmWFL f -> run bqm_decode (bqm_encode f) = Ok f.
Proof. exact CodecBqmFull.bqm_decode_encode_full. Qed.
Print Assumptions bqm_decode_encode.

Theorem qm_decode_encode : forall f, QmWF f -> run qm_decode (qm_encode f) = Ok f.
Proof. exact CodecQm.qm_decode_encode. Qed.
Print Assumptions qm_decode_encode.

Theorem expr_decode_encode : forall f, ExprWF f -> run expr_decode (expr_encode f) = Ok f.
Proof. exact CodecExpr.expr_decode_encode. Qed.
Print Assumptions expr_decode_encode.

(* ---- the loaded MODEL, not only the file record: replaying the loader's add_quadratic_back calls on the stored
   lower triangles restores the whole adjacency - both directions of every interaction, self loops once, every
   neighbourhood in index order - for any symmetric, index-sorted adjacency of any size *)
Theorem rebuild_lowers : forall (B : Type) (a : list (list (nat * B))), AdjWF a -> rebuild (lowers a) = a.
Proof. intros B a. exact (RebuildFacts.rebuild_lowers a). Qed.
Print Assumptions rebuild_lowers.

(* the same for the loader the source actually has: primitive (add_quadratic / add_quadratic_back) and the
   searchsorted side are read off the code by translators/codec_loaders.py (Gen_Loaders.v); a loader switched to
   another primitive changes the generated constants and these proofs no longer check *)
Theorem qm_load_restores_adjacency : forall (add : bytes -> bytes -> bytes) (add0 : bytes -> bytes) f
  (a : list (list (nat * bytes))),
  QmWF f -> AdjWF a -> qf_neig f = map nb_N (lowers a) ->
  exists g, run qm_decode (qm_encode f) = Ok g /\ qm_load_adjacency add add0 (map nb_nat (qf_neig g)) = a.
Proof. exact CodecAdj.qm_load_restores_adjacency. Qed.
Print Assumptions qm_load_restores_adjacency.

(* BQM: the loader calls add_quadratic (lower_bound + insert-if-absent + `+=`); on the call sequence of a load every
   call finds only smaller keys in both neighbourhoods it touches, so every upsert is an append (proved by induction
   over the calls, any number of variables).  `0 + bias = bias` is the only arithmetic fact used. *)
Theorem rebuild_upsert_lowers : forall (B : Type) (add : B -> B -> B) (a : list (list (nat * B))),
  AdjWF a -> NoSelf a -> rebuild_upsert add (fun b => b) (lowers a) = a.
Proof. intros B add a W NS. exact (RebuildUpsert.rebuild_upsert_lowers add a W NS). Qed.
Print Assumptions rebuild_upsert_lowers.

Theorem bqm_load_restores_adjacency : forall (add : bytes -> bytes -> bytes) f (a : list (list (nat * bytes))),
  BqmWFL f -> AdjWF a -> NoSelf a -> bf_adj f = map nb_N a ->
  exists g, run bqm_decode (bqm_encode f) = Ok g
            /\ bqm_load_adjacency add (fun b => b) (map nb_nat (bf_adj g)) = a.
Proof. exact CodecAdj.bqm_load_restores_adjacency. Qed.
Print Assumptions bqm_load_restores_adjacency.

(* hypotheses are satisfiable on non-trivial data: the implementation's own bytes of
   BQM({'a':1.5,'b':-2,('t',1):.25},{('a','b'):3},.5,'SPIN') *)
Example bqm_example_roundtrip :
  let f := mkBqmFile (2, 0)%N F64 BSPIN 1%N [0;0;0;0;0;0;224;63]%N
             [[0;0;0;0;0;0;248;63]%N; [0;0;0;0;0;0;0;192]%N; [0;0;0;0;0;0;208;63]%N]
             [[(1%N, [0;0;0;0;0;0;8;64]%N)]; [(0%N, [0;0;0;0;0;0;8;64]%N)]; []]
             (Some [LStr [97]%N; LStr [98]%N; LTup [LStr [116]%N; LInt 1]]) in
  length (bqm_encode f) = 324 /\ run bqm_decode (bqm_encode f) = Ok f.
Proof. vm_compute. split; reflexivity. Qed.
