(* C13 - A well-formed Variables object behaves exactly like the duplicate-free
   list of labels it stands for.
   Only statements; every proof is `exact <lemma of Proofs.VarsFacts>`. *)
From Coq Require Import List ZArith Bool Arith.
From Dimod Require Import Model.Vars Model.ChkC13 Proofs.VarsFacts Proofs.VarsSliceFacts Proofs.VarsCtorFacts.
Import ListNotations.

(* ---- the invariant and the reading functions ---- *)
Theorem C13_wf_empty : wf empty.
Proof. exact wf_empty. Qed.
Print Assumptions C13_wf_empty.

Theorem C13_lab_eqb_eq : forall x y, lab_eqb x y = true <-> x = y.
Proof. exact lab_eqb_eq. Qed.
Print Assumptions C13_lab_eqb_eq.

Theorem C13_to_list_length : forall v, length (to_list v) = stop v.
Proof. exact to_list_length. Qed.
Print Assumptions C13_to_list_length.

Theorem C13_count_spec : forall v l, wf v -> (count v l = true <-> In l (to_list v)).
Proof. exact count_spec. Qed.
Print Assumptions C13_count_spec.

Theorem C13_wf_nodup : forall v, wf v -> NoDup (to_list v).
Proof. exact wf_nodup. Qed.
Print Assumptions C13_wf_nodup.

Theorem C13_index_spec : forall v l, wf v -> index v l = list_index l (to_list v).
Proof. exact index_spec. Qed.
Print Assumptions C13_index_spec.

(* ---- append ---- *)
Theorem C13_append_new :
  forall v l p, wf v -> count v l = false ->
    append v (Some l) p = Ok (store v l, l) /\
    to_list (store v l) = to_list v ++ [l] /\ wf (store v l).
Proof. exact append_new. Qed.
Print Assumptions C13_append_new.

Theorem C13_append_dup :
  forall v l, count v l = true ->
    append v (Some l) true = Ok (v, l) /\ append v (Some l) false = Err.
Proof. exact append_dup. Qed.
Print Assumptions C13_append_dup.

Theorem C13_append_auto :
  forall v p, wf v ->
    let a := auto_label v in
    append v None p = Ok (store v a, a) /\
    ~ In a (to_list v) /\ to_list (store v a) = to_list v ++ [a] /\ wf (store v a).
Proof. exact append_auto. Qed.
Print Assumptions C13_append_auto.

(* the documented choice: len(self) when free, else the least free non-negative integer *)
Theorem C13_auto_label_choice :
  forall v, wf v ->
    (~ In (LI (Z.of_nat (stop v))) (to_list v) -> auto_label v = LI (Z.of_nat (stop v))) /\
    (In (LI (Z.of_nat (stop v))) (to_list v) ->
     exists k, auto_label v = LI k /\ (0 <= k)%Z /\ ~ In (LI k) (to_list v) /\
               forall z, (0 <= z < k)%Z -> In (LI z) (to_list v)).
Proof. exact auto_label_choice. Qed.
Print Assumptions C13_auto_label_choice.

(* strict extension appends exactly the given labels *)
Theorem C13_extend_strict :
  forall ls v v', wf v -> extend v ls false = Ok v' -> to_list v' = to_list v ++ ls.
Proof. exact extend_strict. Qed.
Print Assumptions C13_extend_strict.

(* ---- pop ---- *)
Theorem C13_pop_empty : forall v, stop v = 0 -> pop v = Err.
Proof. exact pop_empty. Qed.
Print Assumptions C13_pop_empty.

Theorem C13_pop_spec :
  forall v, wf v -> stop v > 0 ->
    exists v' l, pop v = Ok (v', l) /\ to_list v = to_list v' ++ [l] /\ wf v'.
Proof. exact pop_spec. Qed.
Print Assumptions C13_pop_spec.

(* ---- relabel ---- *)
Theorem C13_relabel1_spec :
  forall v old new, wf v -> ~ In new (to_list v) ->
    wf (relabel1 v old new) /\
    to_list (relabel1 v old new) = map (fun x => if lab_eqb x old then new else x) (to_list v).
Proof. exact relabel1_fresh. Qed.
Print Assumptions C13_relabel1_spec.

Theorem C13_relabel1_absent :
  forall v old new, wf v -> ~ In old (to_list v) -> relabel1 v old new = v.
Proof. exact relabel1_absent. Qed.
Print Assumptions C13_relabel1_absent.

Theorem C13_relabel_as_integers :
  forall v,
    wf (fst (relabel_as_integers v)) /\
    to_list (fst (relabel_as_integers v)) = map (fun i => LI (Z.of_nat i)) (seq 0 (stop v)).
Proof. exact relabel_as_integers_spec. Qed.
Print Assumptions C13_relabel_as_integers.

(* ValueError exactly when two pairs share a target or a target is an existing
   label that is not itself relabelled *)
Theorem C13_relabel_err_iff :
  forall v m, wf v ->
    (relabel v m = Err <->
     ~ NoDup (map snd m) \/
     exists n, In n (map snd m) /\ In n (to_list v) /\ ~ In n (map fst m)).
Proof. exact relabel_err_iff. Qed.
Print Assumptions C13_relabel_err_iff.

(* the invariant survives any accepted mapping, duplicate keys included *)
Theorem C13_relabel_wf : forall v m v', wf v -> relabel v m = Ok v' -> wf v'.
Proof. exact relabel_ok_wf. Qed.
Print Assumptions C13_relabel_wf.

(* simultaneous substitution, swaps and cycles included *)
Theorem C13_relabel_spec :
  forall v m v', wf v -> NoDup (map fst m) -> relabel v m = Ok v' ->
    wf v' /\ to_list v' = map (subst_lab m) (to_list v).
Proof. exact relabel_ok_list. Qed.
Print Assumptions C13_relabel_spec.

(* ---- remove ---- *)
Theorem C13_remove_spec :
  forall v l v', wf v -> remove v l = Ok v' ->
    wf v' /\ to_list v' = list_remove l (to_list v).
Proof. exact remove_ok. Qed.
Print Assumptions C13_remove_spec.

Theorem C13_remove_err_iff : forall v l, wf v -> (remove v l = Err <-> ~ In l (to_list v)).
Proof. exact remove_err_iff. Qed.
Print Assumptions C13_remove_err_iff.

(* ---- constructors and copies ---- *)
(* Variables(iterable) on a duplicate-free iterable is that list; Variables(range(n)) is [0, .., n-1] (empty for n <= 0) *)
Theorem C13_ctor_list : forall ls, NoDup ls -> to_list (init_vars ls) = ls /\ wf (init_vars ls).
Proof. exact init_vars_list. Qed.
Print Assumptions C13_ctor_list.

(* Variables(range(a, b, s)): whichever branch cyVariables.__init__ takes (the fast path's condition and value are
   generated from the source), the result is the list of the range; the generic branch extends permissively and
   _relabel hands the whole object to iter_safe_relabels (both facts read off the source) *)
Theorem C13_ctor_range :
  forall a b s, (s <> 0)%Z ->
    wf (ctor_of_range a b s) /\ to_list (ctor_of_range a b s) = map LI (zrange a b s).
Proof. exact ctor_of_range_spec. Qed.
Print Assumptions C13_ctor_range.

Theorem C13_source_dispatch_facts : gen_ctor_generic_permissive = true /\ gen_relabel_existing_is_self = true.
Proof. split; [exact ctor_generic_is_permissive|exact relabel_existing_is_self]. Qed.
Print Assumptions C13_source_dispatch_facts.

(* ---- reachability: every operation of the harness, all ten constructors ---- *)
Theorem C13_step_wf : forall v o, wf v -> wf (fst (fst (step v o))).
Proof. exact step_wf. Qed.
Print Assumptions C13_step_wf.

Theorem C13_run_wf :
  forall os v, wf v -> wf (fold_left (fun s o => fst (fst (step s o))) os v).
Proof. exact run_ops_wf. Qed.
Print Assumptions C13_run_wf.

Theorem C13_reachable_is_list :
  forall os,
    let v := fold_left (fun s o => fst (fst (step s o))) os empty in
    NoDup (to_list v) /\ length (to_list v) = stop v /\
    forall l, (count v l = true <-> In l (to_list v)) /\ index v l = list_index l (to_list v).
Proof. exact reachable_list. Qed.
Print Assumptions C13_reachable_is_list.

(* ---- slicing: v[a:b:s] selects what list slicing selects ---- *)
(* never an error for a non-zero step, whatever the bounds; ValueError for step 0 *)
Theorem C13_slice_ok :
  forall v a b s, wf v -> slice_step s <> 0%Z ->
    exists v', getitem_slice v a b s = Ok v' /\ wf v' /\ to_list v' = slice_labels v a b s.
Proof. exact getitem_slice_ok. Qed.
Print Assumptions C13_slice_ok.

Theorem C13_slice_step_zero : forall v a b s, slice_step s = 0%Z -> getitem_slice v a b s = Err.
Proof. exact getitem_slice_zero. Qed.
Print Assumptions C13_slice_step_zero.

(* the selected labels are entries of the label list at positions inside it *)
Theorem C13_slice_labels_nth :
  forall v a b s d, slice_step s <> 0%Z ->
    slice_labels v a b s =
    let '(lo, hi, st) := slice_bounds v a b s in
    map (fun z => nth (Z.to_nat z) (to_list v) d) (zrange lo hi st).
Proof. exact slice_labels_nth. Qed.
Print Assumptions C13_slice_labels_nth.

Theorem C13_slice_indices_in_range :
  forall v a b s z,
    let '(lo, hi, st) := slice_bounds v a b s in
    st <> 0%Z -> In z (zrange lo hi st) -> (0 <= z < Z.of_nat (stop v))%Z.
Proof. exact slice_indices_in_range. Qed.
Print Assumptions C13_slice_indices_in_range.

(* range(a, b, s): the arithmetic progression from a that stops before b *)
Theorem C13_zrange_spec :
  forall a b s z, s <> 0%Z ->
    (In z (zrange a b s) <->
     exists k, (0 <= k)%Z /\ z = (a + k * s)%Z /\ (if (0 <? s)%Z then (z < b)%Z else (b < z)%Z)).
Proof. exact zrange_in. Qed.
Print Assumptions C13_zrange_spec.

(* step 1 or omitted: a window of the list, with CPython's clipping of the bounds *)
Theorem C13_slice_step1_is_window :
  forall v a b s, slice_step s = 1%Z ->
    let n := Z.of_nat (stop v) in
    slice_labels v a b s =
    skipn (Z.to_nat (adjust a n 1 false)) (firstn (Z.to_nat (adjust b n 1 true)) (to_list v)).
Proof. exact slice_labels_step1. Qed.
Print Assumptions C13_slice_step1_is_window.

Theorem C13_slice_all : forall v, slice_labels v None None None = to_list v.
Proof. exact slice_labels_all. Qed.
Print Assumptions C13_slice_all.

Theorem C13_slice_prefix :
  forall v k, k <= stop v -> slice_labels v None (Some (Z.of_nat k)) None = firstn k (to_list v).
Proof. exact slice_labels_prefix. Qed.
Print Assumptions C13_slice_prefix.

Theorem C13_slice_suffix :
  forall v k, k <= stop v -> slice_labels v (Some (Z.of_nat k)) None None = skipn k (to_list v).
Proof. exact slice_labels_suffix. Qed.
Print Assumptions C13_slice_suffix.

(* v[:-k] drops the last k labels (the case the defect fixed by 1cdf932 got wrong) *)
Theorem C13_slice_drop_last :
  forall v k, 0 < k <= stop v ->
    slice_labels v None (Some (- Z.of_nat k)%Z) None = firstn (stop v - k) (to_list v).
Proof. exact slice_labels_drop_last. Qed.
Print Assumptions C13_slice_drop_last.

Theorem C13_slice_reverse : forall v, slice_labels v None None (Some (-1)%Z) = rev (to_list v).
Proof. exact slice_labels_reverse. Qed.
Print Assumptions C13_slice_reverse.

(* bounds beyond either end are clipped, not rejected *)
Theorem C13_slice_clipped :
  forall v m M, (Z.of_nat (stop v) <= m)%Z -> (Z.of_nat (stop v) <= M)%Z ->
    slice_labels v (Some (- m)%Z) (Some M) None = to_list v.
Proof. exact slice_labels_clipped. Qed.
Print Assumptions C13_slice_clipped.

(* ---- non-vacuity: a sparse state whose integer labels differ from their position ---- *)
Definition C13_v0 : vars := fold_left (fun s o => fst (fst (step s o))) [OExtend [LI 3; LI 0; LA 1] false] empty.

Example C13_example_wf : wf C13_v0.
Proof. exact (reachable_wf [OExtend [LI 3; LI 0; LA 1] false]). Qed.

Example C13_example_state :
  (to_list C13_v0, i2l C13_v0, l2i C13_v0, stop C13_v0) =
  ([LI 3; LI 0; LA 1], [(2, LA 1); (1, LI 0); (0, LI 3)], [(LA 1, 2); (LI 0, 1); (LI 3, 0)], 3).
Proof. vm_compute. reflexivity. Qed.

(* len(self) = 3 is taken, 0 is taken, so the automatic label is 1; a swap goes
   through an intermediate label; removal shifts the tail; a clash is refused *)
Example C13_example_ops :
  auto_label C13_v0 = LI 1 /\
  option_map to_list (match relabel C13_v0 [(LI 3, LI 0); (LI 0, LI 3)] with Ok v => Some v | Err => None end)
    = Some [LI 0; LI 3; LA 1] /\
  option_map to_list (match remove C13_v0 (LI 3) with Ok v => Some v | Err => None end)
    = Some [LI 0; LA 1] /\
  relabel C13_v0 [(LI 3, LA 1)] = Err /\
  (count C13_v0 (LI 0), index C13_v0 (LI 0), index C13_v0 (LI 1)) = (true, Some 1, None).
Proof. vm_compute. repeat split; reflexivity. Qed.

(* slices of the sparse state: v[:-1], v[::-1], v[-9:9:2], v[2:0:-1] *)
Example C13_example_slices :
  map (fun t => match getitem_slice C13_v0 (fst (fst t)) (snd (fst t)) (snd t) with Ok w => Some (to_list w) | Err => None end)
      [(None, Some (-1)%Z, None); (None, None, Some (-1)%Z); (Some (-9)%Z, Some 9%Z, Some 2%Z);
       (Some 2%Z, Some 0%Z, Some (-1)%Z); (None, None, Some 0%Z)]
  = [Some [LI 3; LI 0]; Some [LA 1; LI 0; LI 3]; Some [LI 3; LA 1]; Some [LA 1; LI 0]; None].
Proof. vm_compute. reflexivity. Qed.
