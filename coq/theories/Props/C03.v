(* C03 - Fixing a variable equals substituting its value everywhere.
   Only statements; every proof is `exact <lemma>`. *)
From Coq Require Import List ZArith QArith Qcanon Bool Arith.
From Dimod Require Import Base.Util Model.Poly Model.HPoly Proofs.PolyFacts Proofs.HPolyFacts.
From Dimod Require Model.Adj Proofs.AdjDense Model.FixPy Proofs.FixPyFacts.
From Dimod Require Model.Expr Model.FixCopy Proofs.FixCopyFacts Proofs.FixCopyBack Proofs.FixCopyKeep Proofs.ExprFacts Proofs.CqmSim.
From Dimod Require Model.HPolyPy Proofs.HPolyPyFacts.
From Dimod Require Model.FixCopyGen Proofs.FixCopyGenFacts.
From Dimod Require Model.VartypeOps Model.FlipMarks Proofs.FlipMarksFacts.
From Dimod Require Gen.Gen_HPolyPy Proofs.HPolyPyGenFacts.
From Dimod Require Gen.Gen_LoopShapes.
From Dimod Require Proofs.FlipMarksAgree.
From Dimod Require Model.Samples Model.ChkC03 Proofs.PolyFixRows Model.Solve Proofs.SolveComp Proofs.Round4Corners.
Import ListNotations.
Open Scope Qc_scope.

(* the fixed model at any assignment of the remaining variables has the energy
   of the original at that assignment extended by the fixed value; this covers
   squared terms, constants and variables absent from the expression *)
Theorem C03_fix_variable_energy :
  forall (v : label) (a : Qc) (p : poly) (s : sample),
    energy (fix_variable v a p) s = energy p (upd s v a).
Proof. exact energy_fix_variable. Qed.
Print Assumptions C03_fix_variable_energy.

Theorem C03_fix_variables_energy :
  forall (fs : list (label * Qc)) (p : poly) (s : sample),
    energy (fix_variables fs p) s =
    energy p (fold_right (fun f acc => upd acc (fst f) (snd f)) s fs).
Proof. exact fix_variables_energy. Qed.
Print Assumptions C03_fix_variables_energy.

(* the fixed variable is gone from the result *)
Theorem C03_fixed_variable_absent_lin :
  forall v p t, In t (p_lin (remove_variable v p)) -> fst t <> v.
Proof. exact remove_variable_no_mention_lin. Qed.
Print Assumptions C03_fixed_variable_absent_lin.

Theorem C03_fixed_variable_absent_quad :
  forall v p t, In t (p_quad (remove_variable v p)) -> fst (fst t) <> v /\ snd (fst t) <> v.
Proof. exact remove_variable_no_mention_quad. Qed.
Print Assumptions C03_fixed_variable_absent_quad.

(* the in-place path of the CQM is substitute(v, 0, a) followed by removal: the
   substitution itself is energy preserving for every multiplier (this is the
   statement the unrepaired abc.h::substitute_variable violated for squared terms) *)
Theorem C03_substitute_energy :
  forall v m c p s, energy (substitute v m c p) s = energy p (upd s v (m * s v + c)).
Proof. exact energy_substitute. Qed.
Print Assumptions C03_substitute_energy.

(* polynomial fixing used by PolyFixedVariableComposite, constant terms included *)
Theorem C03_poly_fix_energy :
  forall fs (p : hpoly) s, henergy (hfix fs p) s = henergy p (override fs s).
Proof. exact hfix_energy. Qed.
Print Assumptions C03_poly_fix_energy.

Theorem C03_poly_fix_removes :
  forall fs (p : hpoly) t v, In t (hfix fs p) -> In v (fst t) -> lookup fs v = None.
Proof. exact hfix_removes. Qed.
Print Assumptions C03_poly_fix_removes.

(* the code's own in-place algorithms on the sorted adjacency structure (abc.h fix_variable:
   neighbourhood -> linear, offset += a*linear, remove with index shift; substitute_variable
   as repaired) have the same property at the index level *)
Theorem C03_adjacency_fix_variable_energy :
  forall (m : Adj.qm) (v : nat) a (s : nat -> Qc), Adj.Inv m -> (v < Adj.nvars m)%nat ->
    Adj.energy_adj (Adj.fix_variable v a m) s =
    Adj.energy_adj m (fun i => if (i <? v)%nat then s i else if (i =? v)%nat then a else s (i - 1)%nat).
Proof. exact AdjDense.energy_fix_variable_adj. Qed.
Print Assumptions C03_adjacency_fix_variable_energy.

Theorem C03_adjacency_substitute_variable_energy :
  forall (m : Adj.qm) (v : nat) k c (s : nat -> Qc), Adj.Inv m -> (v < Adj.nvars m)%nat ->
    Adj.energy_adj (Adj.substitute_variable v k c m) s =
    Adj.energy_adj m (fun i => if (i =? v)%nat then k * s i + c else s i).
Proof. exact AdjDense.energy_substitute_variable_adj. Qed.
Print Assumptions C03_adjacency_substitute_variable_energy.

(* ---------- the generic Python path views/quadratic.py:fix_variable(s) (deepening round) ----------
   for each neighbour add_linear(u, value*bias) - self-loop included -, offset += value*get_linear(v),
   remove_variable(v): same energy as the specification, hence the same coefficients *)
Theorem C03_py_fix_variable_energy :
  forall v a p s, energy (FixPy.py_fix_variable v a p) s = energy p (upd s v a).
Proof. exact FixPyFacts.py_fix_variable_energy. Qed.
Print Assumptions C03_py_fix_variable_energy.

Theorem C03_py_fix_variable_coefficients :
  forall v a p,
    p_off (FixPy.py_fix_variable v a p) = p_off (fix_variable v a p)
    /\ (forall x, lin_coeff (p_lin (FixPy.py_fix_variable v a p)) x = lin_coeff (p_lin (fix_variable v a p)) x)
    /\ (forall x y, quad_coeff (p_quad (FixPy.py_fix_variable v a p)) x y
                    = quad_coeff (p_quad (fix_variable v a p)) x y).
Proof. exact FixPyFacts.py_fix_variable_coeffs. Qed.
Print Assumptions C03_py_fix_variable_coefficients.

Theorem C03_py_fix_variable_absent :
  forall v a p,
    (forall t, In t (p_lin (FixPy.py_fix_variable v a p)) -> fst t <> v)
    /\ (forall t, In t (p_quad (FixPy.py_fix_variable v a p)) -> fst (fst t) <> v /\ snd (fst t) <> v).
Proof. exact FixPyFacts.py_fix_variable_absent. Qed.
Print Assumptions C03_py_fix_variable_absent.

Theorem C03_py_fix_variables_energy :
  forall fs p s,
    energy (FixPy.py_fix_variables fs p) s = energy p (fold_right (fun f acc => upd acc (fst f) (snd f)) s fs).
Proof. exact FixPyFacts.py_fix_variables_energy_value. Qed.
Print Assumptions C03_py_fix_variables_energy.

(* the comparison the check evaluates on the observations is implied for every input *)
Theorem C03_py_fix_variables_coeff_eqb :
  forall n fs p, poly_coeff_eqb n (FixPy.py_fix_variables fs p) (fix_variables fs p) = true.
Proof. exact FixPyFacts.py_fix_variables_coeff_eqb. Qed.
Print Assumptions C03_py_fix_variables_coeff_eqb.

(* ---------- the COPYING path constrained_quadratic_model.h fix_variables / fix_variables_expr
   (term-by-term rebuild over the surviving, re-indexed variables) on the index-level expression model ---------- *)
Theorem C03_cqm_fix_copy_wellformed :
  forall (n : nat) (vt' : nat -> vartype) (fs : list (nat * Qc)) (src : Expr.mexpr),
    FixCopyFacts.FixOk n fs ->
    ExprFacts.ExprInv (n - length fs)
      (FixCopy.fix_variables_expr vt' src (FixCopy.old_to_new_of n (map fst fs)) (FixCopy.assignments_of n fs)).
Proof. exact FixCopyFacts.fix_copy_inv. Qed.
Print Assumptions C03_cqm_fix_copy_wellformed.

(* the rebuilt expression is the specification Poly.fix_variables, re-indexed to the new model *)
Theorem C03_cqm_fix_copy_is_spec :
  forall (n : nat) (vt' : nat -> vartype) (fs : list (nat * Qc)) (src : Expr.mexpr) (s' : sample),
    ExprFacts.ExprInv n src -> FixCopyFacts.FixOk n fs -> respects vt' s' ->
    energy (Expr.abs_expr (FixCopy.fix_variables_expr vt' src (FixCopy.old_to_new_of n (map fst fs)) (FixCopy.assignments_of n fs))) s' =
    energy (relabel (FixCopy.new_index (map fst fs)) (fix_variables fs (Expr.abs_expr src))) s'.
Proof. exact FixCopyFacts.fix_copy_spec. Qed.
Print Assumptions C03_cqm_fix_copy_is_spec.

(* whole model: objective and every constraint at every (domain-respecting) sample of the new model have the
   energy of the original at the sample extended by the fixed values; sense, rhs, weight, penalty are copied;
   the new model is well formed *)
Theorem C03_cqm_fix_copy_energy :
  forall (fs : list (nat * Qc)) (q : Expr.mcqm),
    ExprFacts.CqmInv q -> FixCopyFacts.FixOk (length (Expr.m_info q)) fs ->
    let n := length (Expr.m_info q) in
    let q' := FixCopy.cqm_fix_variables_copy fs q in
    let L := FixCopy.lift_sample (FixCopy.old_to_new_of n (map fst fs)) (FixCopy.assignments_of n fs) in
    ExprFacts.CqmInv q' /\
    (forall s' : sample, respects (FixCopy.vt_of_info (Expr.m_info q')) s' ->
       energy (Expr.abs_expr (Expr.m_obj q')) s' = energy (Expr.abs_expr (Expr.m_obj q)) (L s')) /\
    Forall2 (fun k' k : Expr.mcon =>
               (forall s' : sample, respects (FixCopy.vt_of_info (Expr.m_info q')) s' ->
                  energy (Expr.abs_expr (Expr.mc_e k')) s' = energy (Expr.abs_expr (Expr.mc_e k)) (L s')) /\
               FixCopyFacts.con_attrs k' = FixCopyFacts.con_attrs k) (Expr.m_cons q') (Expr.m_cons q).
Proof. exact FixCopyFacts.cqm_fix_copy_energy. Qed.
Print Assumptions C03_cqm_fix_copy_energy.

(* the in-place path issued as the Cython layer does (each label looked up in the CURRENT model, i.e. with
   shifted indices) is the same specification *)
Theorem C03_cqm_fix_inplace_is_spec :
  forall (fs : list (nat * Qc)) (n : nat) (e : Expr.mexpr),
    ExprFacts.ExprInv n e -> FixCopyFacts.FixOk n fs ->
    ExprFacts.ExprInv (n - length fs) (FixCopyFacts.inplace_expr (FixCopy.shift_fixings fs) e) /\
    CqmSim.peq (Expr.abs_expr (FixCopyFacts.inplace_expr (FixCopy.shift_fixings fs) e))
               (relabel (FixCopy.new_index (map fst fs)) (fix_variables fs (Expr.abs_expr e))).
Proof. exact FixCopyFacts.fix_inplace_spec. Qed.
Print Assumptions C03_cqm_fix_inplace_is_spec.

(* the two separate implementations agree, for any list of distinct fixings: whole model ... *)
Theorem C03_fix_paths_agree :
  forall (fs : list (nat * Qc)) (q : Expr.mcqm),
    ExprFacts.CqmInv q -> FixCopyFacts.FixOk (length (Expr.m_info q)) fs ->
    let c := FixCopy.cqm_fix_variables_copy fs q in
    let i := FixCopy.cqm_fix_variables_inplace fs q in
    (forall s' : sample, respects (FixCopy.vt_of_info (Expr.m_info c)) s' ->
       energy (Expr.abs_expr (Expr.m_obj c)) s' = energy (Expr.abs_expr (Expr.m_obj i)) s') /\
    Forall2 (fun kc ki : Expr.mcon =>
               (forall s' : sample, respects (FixCopy.vt_of_info (Expr.m_info c)) s' ->
                  energy (Expr.abs_expr (Expr.mc_e kc)) s' = energy (Expr.abs_expr (Expr.mc_e ki)) s') /\
               FixCopyFacts.con_attrs kc = FixCopyFacts.con_attrs ki) (Expr.m_cons c) (Expr.m_cons i).
Proof. exact FixCopyFacts.fix_paths_agree. Qed.
Print Assumptions C03_fix_paths_agree.

(* ... and coefficient-wise per expression (no BINARY/SPIN self-loop among the survivors, which a valid
   expression never has: the copy path would fold it, the in-place path would not) *)
Theorem C03_fix_paths_same_coefficients :
  forall (n : nat) (vt' : nat -> vartype) (fs : list (nat * Qc)) (src : Expr.mexpr),
    ExprFacts.ExprInv n src -> FixCopyFacts.FixOk n fs -> FixCopyFacts.NoFoldLoops n vt' fs src ->
    let c := Expr.abs_expr (FixCopy.fix_variables_expr vt' src (FixCopy.old_to_new_of n (map fst fs)) (FixCopy.assignments_of n fs)) in
    let i := Expr.abs_expr (FixCopyFacts.inplace_expr (FixCopy.shift_fixings fs) src) in
    p_off c = p_off i /\
    (forall x : nat, lin_coeff (p_lin c) x = lin_coeff (p_lin i) x) /\
    (forall x y : nat, quad_coeff (p_quad c) x y = quad_coeff (p_quad i) x y).
Proof. exact FixCopyFacts.fix_paths_same_coefficients. Qed.
Print Assumptions C03_fix_paths_same_coefficients.

Theorem C03_cqm_fix_copy_coefficients :
  forall (n : nat) (vt' : nat -> vartype) (fs : list (nat * Qc)) (src : Expr.mexpr),
    ExprFacts.ExprInv n src -> FixCopyFacts.FixOk n fs -> FixCopyFacts.NoFoldLoops n vt' fs src ->
    let c := Expr.abs_expr (FixCopy.fix_variables_expr vt' src (FixCopy.old_to_new_of n (map fst fs)) (FixCopy.assignments_of n fs)) in
    let spec := relabel (FixCopy.new_index (map fst fs)) (fix_variables fs (Expr.abs_expr src)) in
    p_off c = p_off spec /\
    (forall x : nat, lin_coeff (p_lin c) x = lin_coeff (p_lin spec) x) /\
    (forall x y : nat, quad_coeff (p_quad c) x y = quad_coeff (p_quad spec) x y) /\
    (forall m : nat, poly_coeff_eqb m c spec = true).
Proof. exact FixCopyFacts.fix_copy_coefficients. Qed.
Print Assumptions C03_cqm_fix_copy_coefficients.

(* every add_quadratic_back issued by the rebuild (lower-triangle iteration of the source, strictly monotone
   re-indexing of the survivors) satisfies its ordering precondition at the moment it is issued; hence the
   rebuilt adjacency structure satisfies the invariant and add_quadratic_back acts as add_quadratic *)
Theorem C03_fix_copy_back_precondition_holds :
  forall (keep : nat -> option nat) (src dst : Adj.qm),
    Adj.Inv src -> Adj.Inv dst -> (forall x : nat, Adj.nb dst x = []) ->
    FixCopyBack.mono_keep keep -> (forall a ka : nat, keep a = Some ka -> (ka < Adj.nvars dst)%nat) ->
    FixCopyBack.calls_ok (FixCopy.back_calls keep src) dst /\
    FixCopy.rebuild keep src dst = FixCopy.rebuild_add keep src dst /\ Adj.Inv (FixCopy.rebuild keep src dst).
Proof. exact FixCopyBack.fix_copy_back_pre_holds. Qed.
Print Assumptions C03_fix_copy_back_precondition_holds.

(* the re-indexing fix_variables_expr really induces on local indices (rank among the surviving local
   variables of the source, = the position the linear phase gives them in the destination) is strictly
   monotone, so the statement above applies to every source expression and every choice of fixed variables *)
Theorem C03_fix_copy_local_reindexing_monotone :
  forall vars o2n, FixCopyBack.mono_keep (FixCopyKeep.local_keep vars o2n).
Proof. exact FixCopyKeep.local_keep_mono. Qed.
Print Assumptions C03_fix_copy_local_reindexing_monotone.

Theorem C03_fix_copy_local_reindexing_is_dst_index :
  forall vars (lin : list Qc) o2n i k,
    length lin = length vars -> (i < length vars)%nat -> FixCopy.o2n_get o2n (nth i vars 0%nat) = Some k ->
    exists r, FixCopyKeep.local_keep vars o2n i = Some r /\
              nth r (FixCopyFacts.new_vars_of o2n (combine vars lin)) 0%nat = k.
Proof. exact FixCopyKeep.local_keep_is_dst_index. Qed.
Print Assumptions C03_fix_copy_local_reindexing_is_dst_index.

Theorem C03_fix_copy_back_calls_ok :
  forall vars (lin : list Qc) o2n (src dst : Adj.qm),
    Adj.Inv src -> Adj.Inv dst -> (forall x, Adj.nb dst x = []) ->
    length lin = length vars ->
    Adj.nvars dst = length (FixCopyFacts.new_vars_of o2n (combine vars lin)) ->
    FixCopyBack.calls_ok (FixCopy.back_calls (FixCopyKeep.local_keep vars o2n) src) dst
    /\ FixCopy.rebuild (FixCopyKeep.local_keep vars o2n) src dst = FixCopy.rebuild_add (FixCopyKeep.local_keep vars o2n) src dst
    /\ Adj.Inv (FixCopy.rebuild (FixCopyKeep.local_keep vars o2n) src dst).
Proof. exact FixCopyKeep.fix_copy_back_calls_ok. Qed.
Print Assumptions C03_fix_copy_back_calls_ok.

Theorem C03_lower_iteration_is_the_polynomial :
  forall m : Adj.qm, Adj.Inv m -> FixCopy.lower_iter m = p_quad (Adj.abs m).
Proof. exact FixCopyBack.lower_iter_is_abs_quad. Qed.
Print Assumptions C03_lower_iteration_is_the_polynomial.

(* ---------- higherordercomposites.fix_variables, the python loop as repaired (set difference, v *= value,
   accumulating dict, final `()` item) equals the specification hfix ---------- *)
Theorem C03_poly_fix_loop_energy :
  forall (fixed : list (nat * Qc)) (p : hpoly) (s : sample),
  HPolyPyFacts.terms_nodup p ->
  henergy (HPolyPy.fix_variables_py fixed p) s = henergy p (override fixed s).
Proof. exact HPolyPyFacts.fix_variables_py_energy. Qed.
Print Assumptions C03_poly_fix_loop_energy.

Theorem C03_poly_fix_loop_coefficients :
  forall (fixed : list (nat * Qc)) (p : hpoly),
  HPolyPyFacts.terms_nodup p -> hpoly_eqb (HPolyPy.fix_variables_py fixed p) (hfix fixed p) = true.
Proof. exact HPolyPyFacts.fix_variables_py_coeff. Qed.
Print Assumptions C03_poly_fix_loop_coefficients.

Theorem C03_poly_fix_loop_removes :
  forall (fixed : list (nat * Qc)) (p : hpoly) (t : mono) (v : nat),
  In t (HPolyPy.fix_variables_py fixed p) -> In v (fst t) -> lookup fixed v = None.
Proof. exact HPolyPyFacts.fix_variables_py_removes. Qed.
Print Assumptions C03_poly_fix_loop_removes.

Theorem C03_poly_fix_loop_constant_item :
  forall (fixed : list (nat * Qc)) (p : hpoly),
  HPolyPy.fix_variables_py fixed p =
  fst (HPolyPy.fix_loop_py fixed p) ++ [([], snd (HPolyPy.fix_loop_py fixed p))] /\
  (forall t : mono, In t (fst (HPolyPy.fix_loop_py fixed p)) -> fst t <> []).
Proof. exact HPolyPyFacts.fix_variables_py_has_offset. Qed.
Print Assumptions C03_poly_fix_loop_constant_item.


(* ---------- the copy-path model is driven by the branch table translators/fix_copy_shape.py extracts fail-closed from
   constrained_quadratic_model.h fix_variables_expr (which assignment multiplies the bias, which new variable receives the
   term): unfolding only, so a changed branch in the source breaks this file ---------- *)
Theorem C03_fix_copy_step_uses_source_table :
  forall (vt' : nat -> vartype) (vars : list nat) (o2n : list (option nat)) 
    (asg : list Qc) (dst : Expr.mexpr) (t : Expr.lqterm),
  FixCopy.fve_quad_step vt' vars o2n asg dst t = FixCopyGen.fve_quad_step_g vt' vars o2n asg dst t.
Proof. exact FixCopyGenFacts.fve_quad_step_uses_source_table. Qed.
Print Assumptions C03_fix_copy_step_uses_source_table.

Theorem C03_fix_copy_uses_source_table :
  forall (vt' : nat -> vartype) (src : Expr.mexpr) (o2n : list (option nat)) (asg : list Qc),
  FixCopy.fix_variables_expr vt' src o2n asg = FixCopyGen.fix_variables_expr_g vt' src o2n asg.
Proof. exact FixCopyGenFacts.fix_variables_expr_uses_source_table. Qed.
Print Assumptions C03_fix_copy_uses_source_table.


(* ---------- the Cython in-place fix_variable with its discrete-marker loop; what is_discrete() reports after the in-place
   and after the copying path; the two paths can DISAGREE about discreteness on out-of-domain assignments
   (observation: discreteness is not among the attributes the property text lists) ---------- *)
Theorem C03_cqm_cython_fix_variable_energy :
  forall (v : nat) (a : Qc) (q : Expr.mcqm),
  ExprFacts.CqmInv q ->
  (v < length (Expr.m_info q))%nat ->
  let q' := FlipMarks.cy_cqm_fix_variable v a q in
  let ext := fun s : sample => upd (fun u : nat => s (Expr.shift v u)) v a in
  ExprFacts.CqmInv q' /\
  Expr.m_info q' = Expr.remove_nth v (Expr.m_info q) /\
  (forall s : sample,
   energy (Expr.abs_expr (Expr.m_obj q')) s = energy (Expr.abs_expr (Expr.m_obj q)) (ext s)) /\
  Forall2
    (fun k' k : Expr.mcon =>
     (forall s : sample,
      energy (Expr.abs_expr (Expr.mc_e k')) s = energy (Expr.abs_expr (Expr.mc_e k)) (ext s)) /\
     FixCopyFacts.con_attrs k' = FixCopyFacts.con_attrs k /\
     Expr.mc_mark k' =
     Expr.mc_mark k && negb (FlipMarks.cy_marks_guard v a q && FlipMarks.mc_has_variable v k))
    (Expr.m_cons q') (Expr.m_cons q) /\ FlipMarksFacts.sbm q' (Expr.cqm_fix_variable v a q).
Proof. exact FlipMarksFacts.cy_cqm_fix_variable_energy. Qed.
Print Assumptions C03_cqm_cython_fix_variable_energy.

Theorem C03_cqm_marker_loop_changes_only_markers :
  forall (fs : list (nat * Qc)) (q : Expr.mcqm),
  FlipMarksFacts.sbm (FlipMarks.cy_cqm_fix_variables_inplace fs q)
    (FixCopy.cqm_fix_variables_inplace fs q).
Proof. exact FlipMarksFacts.cy_cqm_fix_variables_inplace_sbm. Qed.
Print Assumptions C03_cqm_marker_loop_changes_only_markers.

Theorem C03_cqm_inplace_markers :
  forall (fs : list (nat * Qc)) (q : Expr.mcqm),
  ExprFacts.CqmInv q ->
  FixCopyFacts.FixOk (length (Expr.m_info q)) fs ->
  FlipMarks.marks_view (FlipMarks.cy_cqm_fix_variables_inplace fs q) =
  map (fun k : Expr.mcon => Expr.mc_mark k && negb (FlipMarks.mark_hit q fs k)) (Expr.m_cons q).
Proof. exact FlipMarksFacts.cy_inplace_marks. Qed.
Print Assumptions C03_cqm_inplace_markers.

Theorem C03_discrete_view_inplace :
  forall (fs : list (nat * Qc)) (q : Expr.mcqm),
  ExprFacts.CqmInv q ->
  FixCopyFacts.FixOk (length (Expr.m_info q)) fs ->
  FlipMarks.discrete_view (FlipMarks.cy_cqm_fix_variables_inplace fs q) =
  map
    (fun p : Expr.mcon * bool => Expr.mc_mark (fst p) && negb (FlipMarks.mark_hit q fs (fst p)) && snd p)
    (combine (Expr.m_cons q) (FlipMarks.onehot_view (FixCopy.cqm_fix_variables_inplace fs q))).
Proof. exact FlipMarksFacts.discrete_view_inplace. Qed.
Print Assumptions C03_discrete_view_inplace.

Theorem C03_discrete_view_copy :
  forall (fs : list (nat * Qc)) (q : Expr.mcqm),
  ExprFacts.CqmInv q ->
  FixCopyFacts.FixOk (length (Expr.m_info q)) fs ->
  FlipMarks.discrete_view (FixCopy.cqm_fix_variables_copy fs q) =
  map (fun p : Expr.mcon * bool => Expr.mc_mark (fst p) && snd p)
    (combine (Expr.m_cons q) (FlipMarks.onehot_view (FixCopy.cqm_fix_variables_copy fs q))).
Proof. exact FlipMarksFacts.discrete_view_copy. Qed.
Print Assumptions C03_discrete_view_copy.

Theorem C03_discrete_view_inplace_vs_copy :
  forall (fs : list (nat * Qc)) (q : Expr.mcqm),
  ExprFacts.CqmInv q ->
  FixCopyFacts.FixOk (length (Expr.m_info q)) fs ->
  FlipMarksFacts.onehot_agree fs q = true ->
  FlipMarks.discrete_view (FlipMarks.cy_cqm_fix_variables_inplace fs q) =
  map (fun p : Expr.mcon * bool => snd p && negb (FlipMarks.mark_hit q fs (fst p)))
    (combine (Expr.m_cons q) (FlipMarks.discrete_view (FixCopy.cqm_fix_variables_copy fs q))).
Proof. exact FlipMarksFacts.discrete_view_inplace_vs_copy. Qed.
Print Assumptions C03_discrete_view_inplace_vs_copy.

Theorem C03_discrete_inplace_implies_copy :
  forall (fs : list (nat * Qc)) (q : Expr.mcqm) (j : nat),
  ExprFacts.CqmInv q ->
  FixCopyFacts.FixOk (length (Expr.m_info q)) fs ->
  FlipMarksFacts.onehot_agree fs q = true ->
  nth j (FlipMarks.discrete_view (FlipMarks.cy_cqm_fix_variables_inplace fs q)) false = true ->
  nth j (FlipMarks.discrete_view (FixCopy.cqm_fix_variables_copy fs q)) false = true.
Proof. exact FlipMarksFacts.discrete_inplace_implies_copy. Qed.
Print Assumptions C03_discrete_inplace_implies_copy.

Theorem C03_discrete_paths_disagree_refuted :
  exists (fs : list (nat * Qc)) (q : Expr.mcqm),
    forallb (fun k : Expr.mcon => Expr.expr_ok (length (Expr.m_info q)) (Expr.mc_e k)) (Expr.m_cons q) =
    true /\
    FlipMarksFacts.onehot_agree fs q = true /\
    FlipMarks.discrete_view (FlipMarks.cy_cqm_fix_variables_inplace fs q) = [false] /\
    FlipMarks.discrete_view (FixCopy.cqm_fix_variables_copy fs q) = [true].
Proof. exact FlipMarksFacts.discrete_paths_disagree_refuted. Qed.
Print Assumptions C03_discrete_paths_disagree_refuted.


(* higherordercomposites.fix_variables: initial offset generated by translators/poly_loops.py (which pins the loop shape) *)
Theorem C03_poly_fix_loop_uses_source_constants :
  forall (fixed : list (nat * Qc)) (p : hpoly),
  HPolyPy.fix_loop_py fixed p =
  fold_left (HPolyPy.fix_step_py fixed) p ([], Gen_HPolyPy.gen_fix_offset_init).
Proof. exact HPolyPyGenFacts.fix_loop_py_uses_source_constants. Qed.
Print Assumptions C03_poly_fix_loop_uses_source_constants.


(* the two paths leave structurally identical expressions (same variables_, same linear vector, same number of stored
   interactions); hence is_onehot agrees, the relation between the two discreteness reports holds without side condition,
   and for genuine discrete constraints with in-domain assignments both paths report the SAME discreteness *)
Theorem C03_fix_paths_same_structure :
  forall (n : nat) (vt' : nat -> vartype) (fs : list (nat * Qc)) (src : Expr.mexpr),
  ExprFacts.ExprInv n src ->
  FixCopyFacts.FixOk n fs ->
  FixCopyFacts.NoFoldLoops n vt' fs src ->
  let c :=
    FixCopy.fix_variables_expr vt' src (FixCopy.old_to_new_of n (map fst fs))
      (FixCopy.assignments_of n fs) in
  let i := FixCopyFacts.inplace_expr (FixCopy.shift_fixings fs) src in
  Expr.e_vars c = FlipMarksAgree.kept_vars (map fst fs) (Expr.e_vars src) /\
  Expr.e_vars i = FlipMarksAgree.kept_vars (map fst fs) (Expr.e_vars src) /\
  Expr.e_lin c = Expr.e_lin i /\
  Expr.e_off c = Expr.e_off i /\ length (Expr.e_quad c) = length (Expr.e_quad i).
Proof. exact FlipMarksAgree.fix_paths_same_structure. Qed.
Print Assumptions C03_fix_paths_same_structure.

Theorem C03_onehot_agree_holds_noloops :
  forall (fs : list (nat * Qc)) (q : Expr.mcqm),
  ExprFacts.CqmInv q ->
  FixCopyFacts.FixOk (length (Expr.m_info q)) fs ->
  (forall k : Expr.mcon, In k (Expr.m_cons q) -> FlipMarksAgree.NoStoredLoops q (Expr.mc_e k)) ->
  FlipMarksFacts.onehot_agree fs q = true.
Proof. exact FlipMarksAgree.onehot_agree_holds_noloops. Qed.
Print Assumptions C03_onehot_agree_holds_noloops.

Theorem C03_discrete_view_inplace_vs_copy_noloops :
  forall (fs : list (nat * Qc)) (q : Expr.mcqm),
  ExprFacts.CqmInv q ->
  FixCopyFacts.FixOk (length (Expr.m_info q)) fs ->
  FlipMarksAgree.MarkedNoLoops q ->
  FlipMarks.discrete_view (FlipMarks.cy_cqm_fix_variables_inplace fs q) =
  map (fun p : Expr.mcon * bool => snd p && negb (FlipMarks.mark_hit q fs (fst p)))
    (combine (Expr.m_cons q) (FlipMarks.discrete_view (FixCopy.cqm_fix_variables_copy fs q))).
Proof. exact FlipMarksAgree.discrete_view_inplace_vs_copy_noloops. Qed.
Print Assumptions C03_discrete_view_inplace_vs_copy_noloops.

Theorem C03_discrete_inplace_implies_copy_noloops :
  forall (fs : list (nat * Qc)) (q : Expr.mcqm) (j : nat),
  ExprFacts.CqmInv q ->
  FixCopyFacts.FixOk (length (Expr.m_info q)) fs ->
  FlipMarksAgree.MarkedNoLoops q ->
  nth j (FlipMarks.discrete_view (FlipMarks.cy_cqm_fix_variables_inplace fs q)) false = true ->
  nth j (FlipMarks.discrete_view (FixCopy.cqm_fix_variables_copy fs q)) false = true.
Proof. exact FlipMarksAgree.discrete_inplace_implies_copy_noloops. Qed.
Print Assumptions C03_discrete_inplace_implies_copy_noloops.

Theorem C03_discrete_paths_agree_in_domain :
  forall (fs : list (nat * Qc)) (q : Expr.mcqm),
  ExprFacts.CqmInv q ->
  FixCopyFacts.FixOk (length (Expr.m_info q)) fs ->
  (forall k : Expr.mcon,
   In k (Expr.m_cons q) ->
   Expr.mc_mark k = true ->
   VartypeOps.vo_is_onehot (VartypeOps.cq_vartype q) k = true /\ Expr.mc_rhs k <> Q2Qc 0) ->
  (forall (v : nat) (a : Qc), In (v, a) fs -> VartypeOps.cq_vartype q v = BINARY -> a = Q2Qc 0 \/ a = 1) ->
  FlipMarks.discrete_view (FlipMarks.cy_cqm_fix_variables_inplace fs q) =
  FlipMarks.discrete_view (FixCopy.cqm_fix_variables_copy fs q).
Proof. exact FlipMarksAgree.discrete_paths_agree_in_domain. Qed.
Print Assumptions C03_discrete_paths_agree_in_domain.


(* non-vacuity: 3 i^2 + 2 i + 5 i j + j with i := 2 is 49 at j = 3 *)
Example C03_example :
  energy (fix_variable 0%nat (qc 2 1)
            (mkPoly 0 [(0%nat, qc 2 1); (1%nat, qc 1 1)] [(0%nat, 0%nat, qc 3 1); (0%nat, 1%nat, qc 5 1)]))
         (fun _ => qc 3 1) = qc 49 1.
Proof. vm_compute. reflexivity. Qed.

Example C03_example_poly :
  henergy (hfix [(0%nat, qc 2 1)] [([], qc 5 1); ([0%nat; 1%nat], qc 3 1)]) (fun _ => qc 1 1) = qc 11 1.
Proof. vm_compute. reflexivity. Qed.

(* the loops the code-shaped models mirror are textually the ones the models were proved against
   (translators/loop_shapes.py fails, and with it this build, as soon as one of them is edited) *)
Example C03_mirrored_loops_pinned : length Gen_LoopShapes.gen_pinned_loops = 15%nat.
Proof. reflexivity. Qed.

(* ---- PolyFixedVariableComposite.sample_poly, the rows it returns (round 4) ---- *)
(* a row that carries the fixed values: the fixed polynomial and the original agree on it *)
Theorem C03_poly_fix_energy_at_consistent_row :
  forall (fs : list (label * Qc)) (p : hpoly) (s : sample),
  (forall f, In f fs -> s (fst f) = snd f) -> henergy (hfix fs p) s = henergy p s.
Proof. exact PolyFixRows.hfix_energy_at_consistent. Qed.
Print Assumptions C03_poly_fix_energy_at_consistent_row.

(* the verdict of the check on the composite's rows is the property: energies are the ORIGINAL polynomial's at each
   returned row and each row carries every fixed value *)
Theorem C03_poly_composite_check_sound :
  forall c : ChkC03.pcase,
  ChkC03.pcheck c = true ->
  map (fun row => henergy (ChkC03.pc_poly c) (Samples.row_sample (ChkC03.pc_ls c) row)) (ChkC03.pc_rows c)
    = ChkC03.pc_en c
  /\ forall row, In row (ChkC03.pc_rows c) ->
       forall f, In f (ChkC03.pc_fixes c) -> Samples.row_sample (ChkC03.pc_ls c) row (fst f) = snd f.
Proof. exact PolyFixRows.pcheck_sound. Qed.
Print Assumptions C03_poly_composite_check_sound.

(* the composite as a whole (model Solve.polyfixed_result: fix, sample the child, append the fixed columns; the
   empty-child corner included): an honest child gives rows honest for the ORIGINAL polynomial *)
Theorem C03_poly_composite_energy_is_original :
  forall (orig : hpoly) (fs : list (label * Qc)) (r : Solve.result),
    (forall row, In row (Solve.r_rows r) -> length row = length (Solve.r_labels r)) ->
    (forall f, In f fs -> ~ In (fst f) (Solve.r_labels r)) ->
    Solve.honest (henergy (hfix fs orig)) r -> Solve.honest (henergy orig) (Solve.polyfixed_result orig fs r).
Proof. exact SolveComp.polyfixed_honest. Qed.
Print Assumptions C03_poly_composite_energy_is_original.

(* nothing fixed: the model is returned as it is (specification and python loop) *)
Theorem C03_fix_nothing_is_identity :
  forall p : poly, fix_variables [] p = p /\ FixPy.py_fix_variables [] p = p.
Proof. exact Round4Corners.fix_nothing_is_identity. Qed.
Print Assumptions C03_fix_nothing_is_identity.
