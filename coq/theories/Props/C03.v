(* C03 - Fixing a variable equals substituting its value everywhere.
   Only statements; every proof is `exact <lemma>`. *)
From Coq Require Import List ZArith QArith Qcanon Bool Arith.
From Dimod Require Import Base.Util Model.Poly Model.HPoly Proofs.PolyFacts Proofs.HPolyFacts.
From Dimod Require Model.Adj Proofs.AdjDense.
Import ListNotations.
Open Scope Qc_scope.

(* the fixed model at any assignment of the remaining variables has the energy
   of the original at that assignment extended by the fixed value; this covers
   squared terms, constants and variables absent from the expression *)
Theorem C03_fix_variable_energy :
  forall (v : label) (a : Qc) (p : poly) (s : sample),
    energy (fix_variable v a p) s = energy p (upd s v a).
Proof. exact energy_fix_variable. Qed.
Print Assumptions C03_fix_variable_energy.

Theorem C03_fix_variables_energy :
  forall (fs : list (label * Qc)) (p : poly) (s : sample),
    energy (fix_variables fs p) s =
    energy p (fold_right (fun f acc => upd acc (fst f) (snd f)) s fs).
Proof. exact fix_variables_energy. Qed.
Print Assumptions C03_fix_variables_energy.

(* the fixed variable is gone from the result *)
Theorem C03_fixed_variable_absent_lin :
  forall v p t, In t (p_lin (remove_variable v p)) -> fst t <> v.
Proof. exact remove_variable_no_mention_lin. Qed.
Print Assumptions C03_fixed_variable_absent_lin.

Theorem C03_fixed_variable_absent_quad :
  forall v p t, In t (p_quad (remove_variable v p)) -> fst (fst t) <> v /\ snd (fst t) <> v.
Proof. exact remove_variable_no_mention_quad. Qed.
Print Assumptions C03_fixed_variable_absent_quad.

(* the in-place path of the CQM is substitute(v, 0, a) followed by removal: the
   substitution itself is energy preserving for every multiplier (this is the
   statement the unrepaired abc.h::substitute_variable violated for squared terms) *)
Theorem C03_substitute_energy :
  forall v m c p s, energy (substitute v m c p) s = energy p (upd s v (m * s v + c)).
Proof. exact energy_substitute. Qed.
Print Assumptions C03_substitute_energy.

(* polynomial fixing used by PolyFixedVariableComposite, constant terms included *)
Theorem C03_poly_fix_energy :
  forall fs (p : hpoly) s, henergy (hfix fs p) s = henergy p (override fs s).
Proof. exact hfix_energy. Qed.
Print Assumptions C03_poly_fix_energy.

Theorem C03_poly_fix_removes :
  forall fs (p : hpoly) t v, In t (hfix fs p) -> In v (fst t) -> lookup fs v = None.
Proof. exact hfix_removes. Qed.
Print Assumptions C03_poly_fix_removes.

(* the code's own in-place algorithms on the sorted adjacency structure (abc.h fix_variable:
   neighbourhood -> linear, offset += a*linear, remove with index shift; substitute_variable
   as repaired) have the same property at the index level *)
Theorem C03_adjacency_fix_variable_energy :
  forall (m : Adj.qm) (v : nat) a (s : nat -> Qc), Adj.Inv m -> (v < Adj.nvars m)%nat ->
    Adj.energy_adj (Adj.fix_variable v a m) s =
    Adj.energy_adj m (fun i => if (i <? v)%nat then s i else if (i =? v)%nat then a else s (i - 1)%nat).
Proof. exact AdjDense.energy_fix_variable_adj. Qed.
Print Assumptions C03_adjacency_fix_variable_energy.

Theorem C03_adjacency_substitute_variable_energy :
  forall (m : Adj.qm) (v : nat) k c (s : nat -> Qc), Adj.Inv m -> (v < Adj.nvars m)%nat ->
    Adj.energy_adj (Adj.substitute_variable v k c m) s =
    Adj.energy_adj m (fun i => if (i =? v)%nat then k * s i + c else s i).
Proof. exact AdjDense.energy_substitute_variable_adj. Qed.
Print Assumptions C03_adjacency_substitute_variable_energy.

(* non-vacuity: 3 i^2 + 2 i + 5 i j + j with i := 2 is 49 at j = 3 *)
Example C03_example :
  energy (fix_variable 0%nat (qc 2 1)
            (mkPoly 0 [(0%nat, qc 2 1); (1%nat, qc 1 1)] [(0%nat, 0%nat, qc 3 1); (0%nat, 1%nat, qc 5 1)]))
         (fun _ => qc 3 1) = qc 49 1.
Proof. vm_compute. reflexivity. Qed.

Example C03_example_poly :
  henergy (hfix [(0%nat, qc 2 1)] [([], qc 5 1); ([0%nat; 1%nat], qc 3 1)]) (fun _ => qc 1 1) = qc 11 1.
Proof. vm_compute. reflexivity. Qed.
