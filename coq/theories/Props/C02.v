(* C02 - Changing between spin and binary representation never changes any energy. *)
From Coq Require Import List ZArith QArith Qcanon Bool Arith.
From Dimod Require Import Base.Util Model.Poly Model.HPoly Model.View
  Proofs.PolyFacts Proofs.HPolyFacts Proofs.ViewFacts.
Import ListNotations.
Open Scope Qc_scope.

(* the affine substitution x_v := m*y_v + c on offset, linear and quadratic terms
   (abc.h substitute_variable, squared terms included) preserves the energy landscape *)
Theorem C02_substitute_variable_energy :
  forall v m c p y, energy (substitute v m c p) y = energy p (upd y v (m * y v + c)).
Proof. exact energy_substitute. Qed.
Print Assumptions C02_substitute_variable_energy.

(* all listed variables at once (BQM change_vartype, spin_to_binary on QM/CQM expressions) *)
Theorem C02_substitute_variables_energy :
  forall vs m c p y, NoDup vs ->
    energy (substitute_many vs m c p) y =
    energy p (fun w => if existsb (Nat.eqb w) vs then m * y w + c else y w).
Proof. exact substitute_many_energy. Qed.
Print Assumptions C02_substitute_variables_energy.

(* spin -> binary: the converted model at x has the energy of the original at s = 2x - 1 *)
Theorem C02_spin_to_binary_energy :
  forall v p x, energy (spin_to_binary v p) x = energy p (upd x v (two * x v - 1)).
Proof. exact spin_to_binary_energy. Qed.
Print Assumptions C02_spin_to_binary_energy.

(* binary -> spin: the converted model at s has the energy of the original at x = (s+1)/2 *)
Theorem C02_binary_to_spin_energy :
  forall v p s, energy (binary_to_spin v p) s = energy p (upd s v ((s v + 1) * half)).
Proof. exact binary_to_spin_energy. Qed.
Print Assumptions C02_binary_to_spin_energy.

(* there and back restores the energy landscape exactly *)
Theorem C02_roundtrip_energy :
  forall v p s, energy (binary_to_spin v (spin_to_binary v p)) s = energy p s.
Proof. exact spin_binary_roundtrip_energy. Qed.
Print Assumptions C02_roundtrip_energy.

(* flips (CQM.flip_variable) *)
Theorem C02_flip_spin_energy : forall v p s, energy (flip_spin v p) s = energy p (upd s v (- s v)).
Proof. exact flip_spin_energy. Qed.
Print Assumptions C02_flip_spin_energy.
Theorem C02_flip_binary_energy : forall v p s, energy (flip_binary v p) s = energy p (upd s v (1 - s v)).
Proof. exact flip_binary_energy. Qed.
Print Assumptions C02_flip_binary_energy.

(* higher-order polynomials: the powerset expansion of to_binary / to_spin *)
Theorem C02_poly_to_binary_energy :
  forall p x, henergy (h_spin_to_binary p) x = henergy p (fun v => two * x v - 1).
Proof. exact h_spin_to_binary_energy. Qed.
Print Assumptions C02_poly_to_binary_energy.
Theorem C02_poly_to_spin_energy :
  forall p s, henergy (h_binary_to_spin p) s = henergy p (fun v => (s v + 1) * half).
Proof. exact h_binary_to_spin_energy. Qed.
Print Assumptions C02_poly_to_spin_energy.

(* writes through a live view: the formulas of vartypeview.py add exactly the term, in the
   view's own variables, to the base energy - i.e. convert, edit, convert back *)
Theorem C02_view_add_linear :
  forall d v b base y,
    energy (view_add_linear d v b base) y = energy base y + b * view_value d (y v).
Proof. exact view_add_linear_energy. Qed.
Print Assumptions C02_view_add_linear.
Theorem C02_view_add_quadratic :
  forall d u v b base y,
    energy (view_add_quadratic d u v b base) y
    = energy base y + b * view_value d (y u) * view_value d (y v).
Proof. exact view_add_quadratic_energy. Qed.
Print Assumptions C02_view_add_quadratic.
(* reads: the offset shown by the view is the base energy where all view variables are 0 *)
Theorem C02_view_offset :
  forall d base,
    view_offset d base = energy base (fun _ => match d with BinOverSpin => - (1) | SpinOverBin => half end).
Proof. exact view_offset_is_energy_at_zero. Qed.
Print Assumptions C02_view_offset.

Example C02_example :
  let p := mkPoly (qc 1 2) [(0%nat, qc 3 1); (1%nat, qc (-1) 1)] [(0%nat, 1%nat, qc 2 1)] in
  energy (spin_to_binary 1%nat (spin_to_binary 0%nat p)) (fun _ => 1) = energy p (fun _ => 1)
  /\ energy (spin_to_binary 1%nat (spin_to_binary 0%nat p)) (fun _ => 0) = energy p (fun _ => qc (-1) 1).
Proof. vm_compute. split; reflexivity. Qed.
