(* C02 - Changing between spin and binary representation never changes any energy. *)
From Coq Require Import List ZArith QArith Qcanon Bool Arith.
From Dimod Require Import Base.Util Model.Poly Model.HPoly Model.View
  Proofs.PolyFacts Proofs.HPolyFacts Proofs.ViewFacts.
From Dimod Require Model.Adj Model.AdjSubstAll Proofs.AdjSubstAllFacts.
From Dimod Require Gen.Gen_PyBQM Model.PyBqm Proofs.PyBqmFacts Model.IsingQubo Proofs.IsingQuboFacts.
From Dimod Require Model.Samples Proofs.SamplesFacts Model.SSet Model.SSetVartype Proofs.SSetVartypeFacts.
From Dimod Require Model.ViewOps Proofs.ViewOpsFacts Model.HPolyPy Proofs.HPolyPyFacts Model.Expr Proofs.ExprFacts Model.VartypeOps Proofs.VartypeOpsFacts.
From Dimod Require Gen.Gen_CppVartype Proofs.CppVartypeFacts Gen.Gen_SSetVartype Proofs.SSetVartypeGenFacts.
From Dimod Require Gen.Gen_IsingQubo Model.IsingQuboGen Proofs.IsingQuboGenFacts Model.FlipMarks Proofs.FlipMarksFacts.
From Dimod Require Gen.Gen_HPolyPy Proofs.HPolyPyGenFacts.
From Dimod Require Gen.Gen_VartypeLoops Model.VartypeLoopsGen Proofs.VartypeLoopsFacts Model.VartypeLoopsSub Proofs.Round4Corners.
From Dimod Require Model.ChkC02 Proofs.ViewEnFacts.
Import ListNotations.
Open Scope Qc_scope.

(* the affine substitution x_v := m*y_v + c on offset, linear and quadratic terms
   (abc.h substitute_variable, squared terms included) preserves the energy landscape *)
Theorem C02_substitute_variable_energy :
  forall v m c p y, energy (substitute v m c p) y = energy p (upd y v (m * y v + c)).
Proof. exact energy_substitute. Qed.
Print Assumptions C02_substitute_variable_energy.

(* all listed variables at once (BQM change_vartype, spin_to_binary on QM/CQM expressions) *)
Theorem C02_substitute_variables_energy :
  forall vs m c p y, NoDup vs ->
    energy (substitute_many vs m c p) y =
    energy p (fun w => if existsb (Nat.eqb w) vs then m * y w + c else y w).
Proof. exact substitute_many_energy. Qed.
Print Assumptions C02_substitute_variables_energy.

(* spin -> binary: the converted model at x has the energy of the original at s = 2x - 1 *)
Theorem C02_spin_to_binary_energy :
  forall v p x, energy (spin_to_binary v p) x = energy p (upd x v (two * x v - 1)).
Proof. exact spin_to_binary_energy. Qed.
Print Assumptions C02_spin_to_binary_energy.

(* binary -> spin: the converted model at s has the energy of the original at x = (s+1)/2 *)
Theorem C02_binary_to_spin_energy :
  forall v p s, energy (binary_to_spin v p) s = energy p (upd s v ((s v + 1) * half)).
Proof. exact binary_to_spin_energy. Qed.
Print Assumptions C02_binary_to_spin_energy.

(* there and back restores the energy landscape exactly *)
Theorem C02_roundtrip_energy :
  forall v p s, energy (binary_to_spin v (spin_to_binary v p)) s = energy p s.
Proof. exact spin_binary_roundtrip_energy. Qed.
Print Assumptions C02_roundtrip_energy.

(* flips (CQM.flip_variable) *)
Theorem C02_flip_spin_energy : forall v p s, energy (flip_spin v p) s = energy p (upd s v (- s v)).
Proof. exact flip_spin_energy. Qed.
Print Assumptions C02_flip_spin_energy.
Theorem C02_flip_binary_energy : forall v p s, energy (flip_binary v p) s = energy p (upd s v (1 - s v)).
Proof. exact flip_binary_energy. Qed.
Print Assumptions C02_flip_binary_energy.

(* higher-order polynomials: the powerset expansion of to_binary / to_spin *)
Theorem C02_poly_to_binary_energy :
  forall p x, henergy (h_spin_to_binary p) x = henergy p (fun v => two * x v - 1).
Proof. exact h_spin_to_binary_energy. Qed.
Print Assumptions C02_poly_to_binary_energy.
Theorem C02_poly_to_spin_energy :
  forall p s, henergy (h_binary_to_spin p) s = henergy p (fun v => (s v + 1) * half).
Proof. exact h_binary_to_spin_energy. Qed.
Print Assumptions C02_poly_to_spin_energy.

(* writes through a live view: the formulas of vartypeview.py add exactly the term, in the
   view's own variables, to the base energy - i.e. convert, edit, convert back *)
Theorem C02_view_add_linear :
  forall d v b base y,
    energy (view_add_linear d v b base) y = energy base y + b * view_value d (y v).
Proof. exact view_add_linear_energy. Qed.
Print Assumptions C02_view_add_linear.
Theorem C02_view_add_quadratic :
  forall d u v b base y,
    energy (view_add_quadratic d u v b base) y
    = energy base y + b * view_value d (y u) * view_value d (y v).
Proof. exact view_add_quadratic_energy. Qed.
Print Assumptions C02_view_add_quadratic.
(* reads: the offset shown by the view is the base energy where all view variables are 0 *)
Theorem C02_view_offset :
  forall d base,
    view_offset d base = energy base (fun _ => match d with BinOverSpin => - (1) | SpinOverBin => half end).
Proof. exact view_offset_is_energy_at_zero. Qed.
Print Assumptions C02_view_offset.

(* ---------- abc.h substitute_variables / binary_quadratic_model.h change_vartype on the adjacency
   structure (deepening round): all variables at once, quad_offset_mp = c*c/2 applied on both stored copies ---------- *)
Theorem C02_adjacency_substitute_variables_energy :
  forall k c (m : Adj.qm),
    Adj.Inv m -> (forall u, (u < Adj.nvars m)%nat -> Adj.has_interaction m u u = false) ->
    forall s, Adj.energy_adj (AdjSubstAll.substitute_variables k c m) s = Adj.energy_adj m (fun i => k * s i + c).
Proof. exact AdjSubstAllFacts.substitute_variables_energy. Qed.
Print Assumptions C02_adjacency_substitute_variables_energy.

Theorem C02_adjacency_substitute_variables_Inv :
  forall k c (m : Adj.qm), Adj.Inv m -> Adj.Inv (AdjSubstAll.substitute_variables k c m).
Proof. exact AdjSubstAllFacts.substitute_variables_Inv. Qed.
Print Assumptions C02_adjacency_substitute_variables_Inv.

(* BQM.change_vartype (C++): binary -> spin, spin -> binary, same vartype *)
Theorem C02_bqm_change_vartype_energy :
  (forall (m : Adj.qm) s, Adj.Inv m -> AdjSubstAllFacts.is_bqm BINARY m ->
     Adj.energy_adj (AdjSubstAll.bqm_change_vartype SPIN m) s = Adj.energy_adj m (fun i => (s i + 1) * half)) /\
  (forall (m : Adj.qm) s, Adj.Inv m -> AdjSubstAllFacts.is_bqm SPIN m ->
     Adj.energy_adj (AdjSubstAll.bqm_change_vartype BINARY m) s = Adj.energy_adj m (fun i => two * s i - 1)) /\
  (forall t (m : Adj.qm) s, Adj.Inv m -> AdjSubstAllFacts.is_bqm t m ->
     Adj.energy_adj (AdjSubstAll.bqm_change_vartype t m) s = Adj.energy_adj m s).
Proof. exact AdjSubstAllFacts.bqm_change_vartype_energy. Qed.
Print Assumptions C02_bqm_change_vartype_energy.

Theorem C02_bqm_change_vartype_Inv :
  forall t (m : Adj.qm),
    Adj.Inv m -> (forall u, (u < Adj.nvars m)%nat -> Adj.is_binspin (Adj.vt_at m u) = true) ->
    Adj.Inv (AdjSubstAll.bqm_change_vartype t m).
Proof. exact AdjSubstAllFacts.bqm_change_vartype_Inv. Qed.
Print Assumptions C02_bqm_change_vartype_Inv.

(* there and back restores every stored coefficient exactly (rational arithmetic) *)
Theorem C02_bqm_change_vartype_roundtrip :
  (forall (m : Adj.qm), Adj.Inv m -> (forall x, In x (Adj.vts m) -> x = BINARY) ->
     AdjSubstAll.bqm_change_vartype BINARY (AdjSubstAll.bqm_change_vartype SPIN m) = m) /\
  (forall (m : Adj.qm), Adj.Inv m -> (forall x, In x (Adj.vts m) -> x = SPIN) ->
     AdjSubstAll.bqm_change_vartype SPIN (AdjSubstAll.bqm_change_vartype BINARY m) = m).
Proof. exact AdjSubstAllFacts.bqm_change_vartype_roundtrip. Qed.
Print Assumptions C02_bqm_change_vartype_roundtrip.

(* the no-self-loop hypothesis is necessary: substitute_variables is only right for BQM-shaped models
   (its only callers inside dimod are the two in BinaryQuadraticModel::change_vartype) *)
Theorem C02_substitute_variables_self_loop_refuted :
  exists (m : Adj.qm) k c s,
    Adj.Inv m /\ Adj.energy_adj (AdjSubstAll.substitute_variables k c m) s <> Adj.energy_adj m (fun i => k * s i + c).
Proof. exact AdjSubstAllFacts.substitute_variables_self_loop_refuted. Qed.
Print Assumptions C02_substitute_variables_self_loop_refuted.

(* ---------- pybqm.py pyBQM.change_vartype (dict back-end), proved over the five multipliers that
   translators/pybqm_multipliers.py extracts from the source into Gen/Gen_PyBQM.v ---------- *)
Theorem C02_pybqm_change_vartype_energy :
  forall (t : Gen_PyBQM.pb_target) (m : PyBqm.pybqm) (y : sample),
    PyBqmFacts.pb_wf m ->
    energy (PyBqm.pb_abs (PyBqm.pb_change_vartype t m)) y = energy (PyBqm.pb_abs m) (PyBqmFacts.pb_target_map t y).
Proof. exact PyBqmFacts.pb_change_vartype_energy. Qed.
Print Assumptions C02_pybqm_change_vartype_energy.

Theorem C02_pybqm_change_vartype_to_binary :
  forall (m : PyBqm.pybqm) (y : sample), PyBqmFacts.pb_wf m ->
    energy (PyBqm.pb_abs (PyBqm.pb_change_vartype Gen_PyBQM.ToBinary m)) y = energy (PyBqm.pb_abs m) (fun v => two * y v - 1).
Proof. exact PyBqmFacts.pb_change_vartype_energy_binary. Qed.
Print Assumptions C02_pybqm_change_vartype_to_binary.

Theorem C02_pybqm_change_vartype_to_spin :
  forall (m : PyBqm.pybqm) (y : sample), PyBqmFacts.pb_wf m ->
    energy (PyBqm.pb_abs (PyBqm.pb_change_vartype Gen_PyBQM.ToSpin m)) y = energy (PyBqm.pb_abs m) (fun v => (y v + 1) * half).
Proof. exact PyBqmFacts.pb_change_vartype_energy_spin. Qed.
Print Assumptions C02_pybqm_change_vartype_to_spin.

Theorem C02_pybqm_change_vartype_wf :
  forall t (m : PyBqm.pybqm), PyBqmFacts.pb_wf m -> PyBqmFacts.pb_wf (PyBqm.pb_change_vartype t m).
Proof. exact PyBqmFacts.pb_change_vartype_wf. Qed.
Print Assumptions C02_pybqm_change_vartype_wf.

(* there and back restores every stored entry and the offset exactly *)
Theorem C02_pybqm_change_vartype_roundtrip :
  forall t (m : PyBqm.pybqm), PyBqmFacts.pb_wf m ->
    PyBqm.pb_change_vartype (PyBqmFacts.pb_other t) (PyBqm.pb_change_vartype t m) = m.
Proof. exact PyBqmFacts.pb_change_vartype_roundtrip. Qed.
Print Assumptions C02_pybqm_change_vartype_roundtrip.

(* ---------- utilities.py ising_to_qubo / qubo_to_ising (the dict loops with their offset bookkeeping) ---------- *)
Theorem C02_ising_to_qubo_energy :
  forall (h : IsingQubo.hdict) (J : IsingQubo.qdict) off x,
    NoDup (map fst h) -> NoDup (map fst J) -> IsingQuboFacts.no_self_key J -> IsingQuboFacts.binary_valued x ->
    IsingQubo.qubo_energy (fst (IsingQubo.ising_to_qubo h J off)) (snd (IsingQubo.ising_to_qubo h J off)) x =
    IsingQubo.ising_energy h J off (fun v => two * x v - 1).
Proof. exact IsingQuboFacts.ising_to_qubo_energy. Qed.
Print Assumptions C02_ising_to_qubo_energy.

Theorem C02_qubo_to_ising_energy :
  forall (Q : IsingQubo.qdict) off s,
    NoDup (map fst Q) -> IsingQuboFacts.spin_valued s ->
    IsingQubo.ising_energy (fst (fst (IsingQubo.qubo_to_ising Q off))) (snd (fst (IsingQubo.qubo_to_ising Q off)))
                           (snd (IsingQubo.qubo_to_ising Q off)) s =
    IsingQubo.qubo_energy Q off (fun v => (s v + 1) * half).
Proof. exact IsingQuboFacts.qubo_to_ising_energy. Qed.
Print Assumptions C02_qubo_to_ising_energy.

(* there and back on coefficients (read with get-or-0: zero couplings are dropped, zero biases appear) *)
Theorem C02_ising_qubo_roundtrip :
  forall (h : IsingQubo.hdict) (J : IsingQubo.qdict) off,
    NoDup (map fst h) -> NoDup (map fst J) -> IsingQuboFacts.no_self_key J ->
    let r := IsingQubo.ising_to_qubo h J off in
    let r' := IsingQubo.qubo_to_ising (fst r) (snd r) in
    (forall v, IsingQubo.hget0 (fst (fst r')) v = IsingQubo.hget0 h v) /\
    (forall k, IsingQubo.qget0 (snd (fst r')) k = IsingQubo.qget0 J k) /\
    snd r' = off.
Proof. exact IsingQuboFacts.ising_qubo_roundtrip. Qed.
Print Assumptions C02_ising_qubo_roundtrip.

(* FINDING (degenerate input): with a self key (u,u) in J the line `q[(u, v)] = 4. * bias` overwrites the
   diagonal entry 2*h[u]; the hypothesis no_self_key is necessary *)
Theorem C02_ising_to_qubo_self_key_refuted :
  exists (h : IsingQubo.hdict) (J : IsingQubo.qdict) off x,
    NoDup (map fst h) /\ NoDup (map fst J) /\ IsingQuboFacts.binary_valued x /\
    IsingQubo.qubo_energy (fst (IsingQubo.ising_to_qubo h J off)) (snd (IsingQubo.ising_to_qubo h J off)) x <>
    IsingQubo.ising_energy h J off (fun v => two * x v - 1).
Proof. exact IsingQuboFacts.ising_to_qubo_self_key_refuted. Qed.
Print Assumptions C02_ising_to_qubo_self_key_refuted.

(* BQM.to_qubo / to_ising / from_qubo / from_ising *)
Theorem C02_to_qubo_energy :
  forall p x, IsingQuboFacts.no_self_loop p -> NoDup (map fst (p_lin p)) -> IsingQuboFacts.binary_valued x ->
    IsingQubo.qubo_energy (fst (IsingQubo.to_qubo_of_poly p)) (snd (IsingQubo.to_qubo_of_poly p)) x = energy p x.
Proof. exact IsingQuboFacts.to_qubo_energy. Qed.
Print Assumptions C02_to_qubo_energy.

Theorem C02_to_ising_energy :
  forall p s,
    IsingQubo.ising_energy (fst (fst (IsingQubo.to_ising_of_poly p))) (snd (fst (IsingQubo.to_ising_of_poly p)))
                           (snd (IsingQubo.to_ising_of_poly p)) s = energy p s.
Proof. exact IsingQuboFacts.to_ising_energy. Qed.
Print Assumptions C02_to_ising_energy.

Theorem C02_from_qubo_energy :
  forall Q off x, IsingQuboFacts.binary_valued x -> energy (IsingQubo.from_qubo Q off) x = IsingQubo.qubo_energy Q off x.
Proof. exact IsingQuboFacts.from_qubo_energy. Qed.
Print Assumptions C02_from_qubo_energy.

Theorem C02_from_ising_energy :
  forall h J off s, IsingQuboFacts.spin_valued s -> energy (IsingQubo.from_ising h J off) s = IsingQubo.ising_energy h J off s.
Proof. exact IsingQuboFacts.from_ising_energy. Qed.
Print Assumptions C02_from_ising_energy.

(* ---------- SampleSet.change_vartype: the energies reported after the conversion are the energies of the
   converted model at the converted rows (plus the requested offset) ---------- *)
Theorem C02_sampleset_change_vartype_energy_consistent :
  forall target off (s s' : SSet.sset) p,
    SSetVartype.ss_change_vartype target off s = SSet.Ok s' ->
    NoDup (SSet.labels s) -> SamplesFacts.mentions_only p (SSet.labels s) ->
    (forall r, In r (SSet.rws s) -> SSetVartypeFacts.row_ok p s r) ->
    (SSet.vt s = SPIN -> target = BINARY -> forall r, In r (SSet.rws s) -> Forall SSetVartypeFacts.spin_val (SSet.vals r)) ->
    forall r', In r' (SSet.rws s') ->
      SSet.en r' = energy (SSetVartype.convert_model (SSet.vt s) target (SSet.labels s) p)
                          (Samples.row_sample (SSet.labels s') (SSet.vals r')) + off.
Proof. exact SSetVartypeFacts.ss_change_vartype_energy_consistent. Qed.
Print Assumptions C02_sampleset_change_vartype_energy_consistent.

Theorem C02_sampleset_change_vartype_roundtrip_spin :
  forall e (s s1 s2 : SSet.sset),
    SSet.vt s = SPIN -> (forall r, In r (SSet.rws s) -> Forall SSetVartypeFacts.spin_val (SSet.vals r)) ->
    SSetVartype.ss_change_vartype BINARY e s = SSet.Ok s1 ->
    SSetVartype.ss_change_vartype SPIN (- e) s1 = SSet.Ok s2 -> s2 = s.
Proof. exact SSetVartypeFacts.ss_change_vartype_roundtrip_spin. Qed.
Print Assumptions C02_sampleset_change_vartype_roundtrip_spin.

Theorem C02_sampleset_change_vartype_roundtrip_binary :
  forall e (s s1 s2 : SSet.sset),
    SSet.vt s = BINARY -> (forall r, In r (SSet.rws s) -> Forall SSetVartypeFacts.binary_val (SSet.vals r)) ->
    SSetVartype.ss_change_vartype SPIN e s = SSet.Ok s1 ->
    SSetVartype.ss_change_vartype BINARY (- e) s1 = SSet.Ok s2 -> s2 = s.
Proof. exact SSetVartypeFacts.ss_change_vartype_roundtrip_binary. Qed.
Print Assumptions C02_sampleset_change_vartype_roundtrip_binary.

(* labels, info, occurrences, tags, extra vectors, row order and count are untouched; energies shift by the offset *)
Theorem C02_sampleset_change_vartype_preserves :
  forall target off (s s' : SSet.sset),
    SSetVartype.ss_change_vartype target off s = SSet.Ok s' \/ SSetVartype.ss_change_vartype target off s = SSet.Fail s' ->
    SSet.labels s' = SSet.labels s /\ SSet.info s' = SSet.info s /\ SSet.fields s' = SSet.fields s /\
    map SSetVartypeFacts.row_frame (SSet.rws s') = map SSetVartypeFacts.row_frame (SSet.rws s) /\
    length (SSet.rws s') = length (SSet.rws s) /\
    map SSet.en (SSet.rws s') = map (fun r => SSet.en r + off) (SSet.rws s) /\
    (SSetVartype.ss_change_vartype target off s = SSet.Ok s' -> SSet.vt s' = target) /\
    (SSetVartype.ss_change_vartype target off s = SSet.Fail s' -> SSet.vt s' = SSet.vt s).
Proof. exact SSetVartypeFacts.ss_change_vartype_preserves. Qed.
Print Assumptions C02_sampleset_change_vartype_preserves.

(* ================= second wave: code-shaped models of the remaining conversion paths ================= *)
(* vartypeview.py: reads (offset getter, get_linear, get_quadratic, iter_neighborhood, iter_quadratic) over the factors generated by
   translators/view_reads.py, the delta-based writes (set_linear, set_quadratic, offset setter), remove_interaction,
   remove_variable, energies; polynomial.py to_binary/to_spin python loops; quadratic_model.h /
   constrained_quadratic_model.h change_vartype, spin_to_binary, flip_variable on the raw index-level state *)
Theorem C02_view_reported_polynomial_energy :
  forall (d : vdir) (base : poly) (y : sample),
  energy (ViewOps.view_poly d base) y = energy base (fun v : nat => ViewOps.base_value d (y v)).
Proof. exact ViewOpsFacts.view_poly_energy. Qed.
Print Assumptions C02_view_reported_polynomial_energy.

Theorem C02_view_reads_are_converted_coefficients :
  forall (d : vdir) (vars : list nat) (base : poly),
  NoDup vars ->
  SamplesFacts.mentions_only base vars ->
  ViewOpsFacts.no_self_loop base ->
  ViewOps.view_offset_gen d base = p_off (ViewOps.view_copy d vars base) /\
  (forall v : nat,
   ViewOps.view_get_linear d base v = lin_coeff (p_lin (ViewOps.view_copy d vars base)) v) /\
  (forall u v : nat,
   quad_coeff (ViewOps.view_iter_quadratic d base) u v =
   quad_coeff (p_quad (ViewOps.view_copy d vars base)) u v).
Proof. exact ViewOpsFacts.view_reads_are_converted_coefficients. Qed.
Print Assumptions C02_view_reads_are_converted_coefficients.

Theorem C02_view_set_linear_spec :
  forall (d : vdir) (v : nat) (b : Qc) (base : poly),
  ViewOps.view_get_linear d (ViewOps.view_set_linear d v b base) v = b /\
  (forall w : nat,
   w <> v ->
   ViewOps.view_get_linear d (ViewOps.view_set_linear d v b base) w = ViewOps.view_get_linear d base w) /\
  p_quad (ViewOps.view_set_linear d v b base) = p_quad base /\
  (forall x y : nat,
   ViewOps.view_get_quadratic d (ViewOps.view_set_linear d v b base) x y =
   ViewOps.view_get_quadratic d base x y) /\
  ViewOps.view_offset_gen d (ViewOps.view_set_linear d v b base) = ViewOps.view_offset_gen d base.
Proof. exact ViewOpsFacts.view_set_linear_spec. Qed.
Print Assumptions C02_view_set_linear_spec.

Theorem C02_view_set_linear_energy :
  forall (d : vdir) (v : nat) (b : Qc) (base : poly) (y : sample),
  energy (ViewOps.view_poly d (ViewOps.view_set_linear d v b base)) y =
  energy (ViewOps.view_poly d base) y + (b - ViewOps.view_get_linear d base v) * y v.
Proof. exact ViewOpsFacts.view_set_linear_energy. Qed.
Print Assumptions C02_view_set_linear_energy.

Theorem C02_view_set_quadratic_spec :
  forall (d : vdir) (u v : nat) (b : Qc) (base : poly),
  u <> v ->
  ViewOps.view_get_quadratic d (ViewOps.view_set_quadratic d u v b base) u v = Some b /\
  (forall x y : nat,
   same_pair x y u v = false ->
   ViewOps.view_get_quadratic d (ViewOps.view_set_quadratic d u v b base) x y =
   ViewOps.view_get_quadratic d base x y) /\
  (forall x y : nat,
   quad_coeff (ViewOps.view_iter_quadratic d (ViewOps.view_set_quadratic d u v b base)) x y =
   (if same_pair x y u v then b else quad_coeff (ViewOps.view_iter_quadratic d base) x y)) /\
  (forall w : nat,
   ViewOps.view_get_linear d (ViewOps.view_set_quadratic d u v b base) w =
   ViewOps.view_get_linear d base w) /\
  ViewOps.view_offset_gen d (ViewOps.view_set_quadratic d u v b base) = ViewOps.view_offset_gen d base.
Proof. exact ViewOpsFacts.view_set_quadratic_spec. Qed.
Print Assumptions C02_view_set_quadratic_spec.

Theorem C02_view_set_quadratic_energy :
  forall (d : vdir) (u v : nat) (b : Qc) (base : poly) (y : sample),
  u <> v ->
  energy (ViewOps.view_poly d (ViewOps.view_set_quadratic d u v b base)) y =
  energy (ViewOps.view_poly d base) y +
  (b - Gen_ViewReads.gen_get_quadratic d * quad_coeff (p_quad base) u v) * y u * y v.
Proof. exact ViewOpsFacts.view_set_quadratic_energy. Qed.
Print Assumptions C02_view_set_quadratic_energy.

Theorem C02_view_set_offset_spec :
  forall (d : vdir) (b : Qc) (base : poly),
  ViewOps.view_offset_gen d (ViewOps.view_set_offset d b base) = b /\
  p_lin (ViewOps.view_set_offset d b base) = p_lin base /\
  p_quad (ViewOps.view_set_offset d b base) = p_quad base /\
  (forall v : nat,
   ViewOps.view_get_linear d (ViewOps.view_set_offset d b base) v = ViewOps.view_get_linear d base v) /\
  (forall u v : nat,
   ViewOps.view_get_quadratic d (ViewOps.view_set_offset d b base) u v =
   ViewOps.view_get_quadratic d base u v).
Proof. exact ViewOpsFacts.view_set_offset_spec. Qed.
Print Assumptions C02_view_set_offset_spec.

Theorem C02_view_remove_interaction_spec :
  forall (d : vdir) (u v : nat) (base base' : poly),
  ViewOps.view_remove_interaction d u v base = Some base' ->
  ViewOps.view_get_quadratic d base' u v = None /\
  (forall y : sample,
   energy (ViewOps.view_poly d base') y = energy (remove_interaction u v (ViewOps.view_poly d base)) y).
Proof. exact ViewOpsFacts.view_remove_interaction_spec. Qed.
Print Assumptions C02_view_remove_interaction_spec.

Theorem C02_view_remove_variable_spec :
  forall (d : vdir) (v : nat) (base : poly) (y : sample),
  ViewOpsFacts.no_self_loop base ->
  energy (ViewOps.view_poly d (ViewOps.view_remove_variable d v base)) y =
  energy (remove_variable v (ViewOps.view_poly d base)) y.
Proof. exact ViewOpsFacts.view_remove_variable_spec. Qed.
Print Assumptions C02_view_remove_variable_spec.

Theorem C02_view_remove_variable_is_convert_remove_convert_back :
  forall (d : vdir) (v : nat) (vars : list nat) (base : poly) (s : sample),
  ViewOpsFacts.no_self_loop base ->
  NoDup vars ->
  SamplesFacts.mentions_only base vars ->
  energy (ViewOps.view_remove_variable d v base) s =
  energy (ViewOps.view_copy_back d vars (remove_variable v (ViewOps.view_copy d vars base))) s.
Proof. exact ViewOpsFacts.view_remove_variable_roundtrip. Qed.
Print Assumptions C02_view_remove_variable_is_convert_remove_convert_back.

Theorem C02_view_energies_spec :
  forall (d : vdir) (base : poly) (y : nat -> Qc),
  (forall v : nat, ViewOpsFacts.in_view_domain d (y v)) ->
  ViewOps.view_energy d base y = energy (ViewOps.view_poly d base) y.
Proof. exact ViewOpsFacts.view_energies_spec. Qed.
Print Assumptions C02_view_energies_spec.

Theorem C02_poly_to_binary_loop_energy :
  forall (p : hpoly) (x : sample),
  henergy (HPolyPy.to_binary_py p) x = henergy p (fun v : nat => two * x v - 1).
Proof. exact HPolyPyFacts.to_binary_py_energy. Qed.
Print Assumptions C02_poly_to_binary_loop_energy.

Theorem C02_poly_to_spin_loop_energy :
  forall (p : hpoly) (s : sample),
  henergy (HPolyPy.to_spin_py p) s = henergy p (fun v : nat => (s v + 1) * half).
Proof. exact HPolyPyFacts.to_spin_py_energy. Qed.
Print Assumptions C02_poly_to_spin_loop_energy.

Theorem C02_poly_to_binary_loop_coefficients :
  forall p : hpoly, hpoly_eqb (HPolyPy.to_binary_py p) (h_spin_to_binary p) = true.
Proof. exact HPolyPyFacts.to_binary_py_coeff. Qed.
Print Assumptions C02_poly_to_binary_loop_coefficients.

Theorem C02_poly_to_spin_loop_coefficients :
  forall p : hpoly, hpoly_eqb (HPolyPy.to_spin_py p) (h_binary_to_spin p) = true.
Proof. exact HPolyPyFacts.to_spin_py_coeff. Qed.
Print Assumptions C02_poly_to_spin_loop_coefficients.

Theorem C02_poly_loops_roundtrip_energy :
  forall (p : hpoly) (s : sample), henergy (HPolyPy.to_spin_py (HPolyPy.to_binary_py p)) s = henergy p s.
Proof. exact HPolyPyFacts.to_spin_to_binary_py_energy. Qed.
Print Assumptions C02_poly_loops_roundtrip_energy.

Theorem C02_qm_change_vartype_energy :
  forall (t : vartype) (v : nat) (q q' : VartypeOps.qmi) (s : nat -> Qc),
  VartypeOpsFacts.QInv q ->
  (v < Adj.nvars (VartypeOps.q_m q))%nat ->
  VartypeOps.qm_change_vartype t v q = Some q' ->
  Adj.energy_adj (VartypeOps.q_m q') s =
  Adj.energy_adj (VartypeOps.q_m q)
    (fun i : nat => if i =? v then VartypeOps.old_value (VartypeOps.qi_vartype q v) t (s i) else s i).
Proof. exact VartypeOpsFacts.qm_change_vartype_energy. Qed.
Print Assumptions C02_qm_change_vartype_energy.

Theorem C02_qm_change_vartype_invariant :
  forall (t : vartype) (v : nat) (q q' : VartypeOps.qmi),
  VartypeOpsFacts.QInv q ->
  (v < Adj.nvars (VartypeOps.q_m q))%nat ->
  VartypeOps.qm_change_vartype t v q = Some q' -> VartypeOpsFacts.QInv q'.
Proof. exact VartypeOpsFacts.qm_change_vartype_Inv. Qed.
Print Assumptions C02_qm_change_vartype_invariant.

Theorem C02_qm_change_vartype_info :
  forall (t : vartype) (v : nat) (q q' : VartypeOps.qmi) (i0 : Expr.minfo),
  VartypeOps.qm_change_vartype t v q = Some q' ->
  nth_error (VartypeOps.q_info q) v = Some i0 ->
  nth_error (VartypeOps.q_info q') v = Some (VartypeOpsFacts.new_info (Expr.i_vt i0) t i0) /\
  (forall u : nat, u <> v -> nth_error (VartypeOps.q_info q') u = nth_error (VartypeOps.q_info q) u) /\
  (forall u : nat, u <> v -> VartypeOps.qi_vartype q' u = VartypeOps.qi_vartype q u) /\
  length (VartypeOps.q_info q') = length (VartypeOps.q_info q).
Proof. exact VartypeOpsFacts.qm_change_vartype_info_at. Qed.
Print Assumptions C02_qm_change_vartype_info.

Theorem C02_qm_change_vartype_none_iff :
  forall (t : vartype) (v : nat) (q : VartypeOps.qmi),
  VartypeOps.qm_change_vartype t v q = None <->
  VartypeOps.cv_supported (VartypeOps.qi_vartype q v) t = false.
Proof. exact VartypeOpsFacts.qm_change_vartype_none_iff. Qed.
Print Assumptions C02_qm_change_vartype_none_iff.

Theorem C02_qm_spin_to_binary_energy :
  forall q : VartypeOps.qmi,
  VartypeOpsFacts.QInv q ->
  exists q' : VartypeOps.qmi,
    VartypeOps.qm_spin_to_binary q = Some q' /\
    VartypeOpsFacts.QInv q' /\
    Adj.nvars (VartypeOps.q_m q') = Adj.nvars (VartypeOps.q_m q) /\
    (forall i : nat, VartypeOps.qi_vartype q' i = VartypeOpsFacts.stb_vt (VartypeOps.qi_vartype q i)) /\
    (forall i : nat, VartypeOps.qi_vartype q' i <> SPIN) /\
    (forall x : nat -> Qc,
     Adj.energy_adj (VartypeOps.q_m q') x =
     Adj.energy_adj (VartypeOps.q_m q)
       (fun i : nat =>
        if VartypeOps.is_spin (Adj.vt_at (VartypeOps.q_m q) i) then two * x i - 1 else x i)).
Proof. exact VartypeOpsFacts.qm_spin_to_binary_energy. Qed.
Print Assumptions C02_qm_spin_to_binary_energy.

Theorem C02_cqm_change_vartype_energy :
  forall (t : vartype) (v : nat) (q q' : Expr.mcqm),
  ExprFacts.CqmInv q ->
  VartypeOps.cqm_change_vartype t v q = Some q' ->
  ExprFacts.CqmInv q' /\
  VartypeOpsFacts.CqmRel
    (fun s : sample => upd s v (VartypeOps.old_value (VartypeOps.cq_vartype q v) t (s v))) q q'.
Proof. exact VartypeOpsFacts.cqm_change_vartype_energy. Qed.
Print Assumptions C02_cqm_change_vartype_energy.

Theorem C02_cqm_change_vartype_same_activity :
  forall (t : vartype) (v : nat) (q q' : Expr.mcqm),
  ExprFacts.CqmInv q ->
  VartypeOps.cqm_change_vartype t v q = Some q' ->
  (forall s : sample,
   energy (Expr.abs_expr (Expr.m_obj q')) s =
   energy (Expr.abs_expr (Expr.m_obj q))
     (upd s v (VartypeOps.old_value (VartypeOps.cq_vartype q v) t (s v)))) /\
  Forall2
    (fun k k' : Expr.mcon =>
     Expr.mc_sense k' = Expr.mc_sense k /\
     Expr.mc_rhs k' = Expr.mc_rhs k /\
     (forall s : sample,
      VartypeOps.mc_activity k' s =
      VartypeOps.mc_activity k (upd s v (VartypeOps.old_value (VartypeOps.cq_vartype q v) t (s v)))))
    (Expr.m_cons q) (Expr.m_cons q').
Proof. exact VartypeOpsFacts.cqm_change_vartype_same_activity. Qed.
Print Assumptions C02_cqm_change_vartype_same_activity.

Theorem C02_cqm_change_vartype_none_iff :
  forall (t : vartype) (v : nat) (q : Expr.mcqm),
  VartypeOps.cqm_change_vartype t v q = None <->
  VartypeOps.cv_supported (VartypeOps.cq_vartype q v) t = false.
Proof. exact VartypeOpsFacts.cqm_change_vartype_none_iff. Qed.
Print Assumptions C02_cqm_change_vartype_none_iff.

Theorem C02_cqm_spin_to_binary_energy :
  forall q : Expr.mcqm,
  ExprFacts.CqmInv q ->
  exists q' : Expr.mcqm,
    VartypeOps.cqm_spin_to_binary q = Some q' /\
    ExprFacts.CqmInv q' /\
    length (Expr.m_info q') = length (Expr.m_info q) /\
    (forall i : nat, VartypeOps.cq_vartype q' i = VartypeOpsFacts.stb_vt (VartypeOps.cq_vartype q i)) /\
    (forall i : nat, VartypeOps.cq_vartype q' i <> SPIN) /\
    VartypeOpsFacts.CqmRel
      (fun (s : sample) (i : nat) =>
       if VartypeOps.is_spin (VartypeOps.cq_vartype q i) then two * s i - 1 else s i) q q'.
Proof. exact VartypeOpsFacts.cqm_spin_to_binary_energy. Qed.
Print Assumptions C02_cqm_spin_to_binary_energy.

Theorem C02_cqm_spin_to_binary_same_activity :
  forall q : Expr.mcqm,
  ExprFacts.CqmInv q ->
  exists q' : Expr.mcqm,
    VartypeOps.cqm_spin_to_binary q = Some q' /\
    (forall s : sample,
     energy (Expr.abs_expr (Expr.m_obj q')) s =
     energy (Expr.abs_expr (Expr.m_obj q))
       (fun i : nat => if VartypeOps.is_spin (VartypeOps.cq_vartype q i) then two * s i - 1 else s i)) /\
    Forall2
      (fun k k' : Expr.mcon =>
       Expr.mc_sense k' = Expr.mc_sense k /\
       Expr.mc_rhs k' = Expr.mc_rhs k /\
       (forall s : sample,
        VartypeOps.mc_activity k' s =
        VartypeOps.mc_activity k
          (fun i : nat => if VartypeOps.is_spin (VartypeOps.cq_vartype q i) then two * s i - 1 else s i)))
      (Expr.m_cons q) (Expr.m_cons q').
Proof. exact VartypeOpsFacts.cqm_spin_to_binary_same_activity. Qed.
Print Assumptions C02_cqm_spin_to_binary_same_activity.

Theorem C02_cqm_flip_variable_energy :
  forall (v : nat) (q q' : Expr.mcqm),
  ExprFacts.CqmInv q ->
  VartypeOps.cqm_flip_variable v q = Some q' ->
  ExprFacts.CqmInv q' /\
  Expr.m_info q' = Expr.m_info q /\
  VartypeOpsFacts.CqmRel
    (fun s : sample => upd s v (VartypeOps.flip_value (VartypeOps.cq_vartype q v) (s v))) q q'.
Proof. exact VartypeOpsFacts.cqm_flip_variable_energy. Qed.
Print Assumptions C02_cqm_flip_variable_energy.

Theorem C02_cqm_flip_variable_py_energy :
  forall (v : nat) (q q' : Expr.mcqm),
  ExprFacts.CqmInv q ->
  VartypeOps.py_cqm_flip_variable v q = Some q' ->
  ExprFacts.CqmInv q' /\
  Expr.m_info q' = Expr.m_info q /\
  VartypeOpsFacts.ExprRel
    (fun s : sample => upd s v (VartypeOps.flip_value (VartypeOps.cq_vartype q v) (s v))) 
    (Expr.m_obj q) (Expr.m_obj q') /\
  Forall2
    (fun k k' : Expr.mcon =>
     VartypeOpsFacts.ConRelM
       (fun s : sample => upd s v (VartypeOps.flip_value (VartypeOps.cq_vartype q v) (s v))) k k' /\
     Expr.mc_mark k' =
     Expr.mc_mark k &&
     negb
       (Expr.mc_mark k && VartypeOps.vo_is_onehot (VartypeOps.cq_vartype q) k &&
        existsb (Nat.eqb v) (Expr.e_vars (Expr.mc_e k)))) (Expr.m_cons q) (Expr.m_cons q').
Proof. exact VartypeOpsFacts.py_cqm_flip_variable_energy. Qed.
Print Assumptions C02_cqm_flip_variable_py_energy.


(* ---------- the constants and multiplier formulas of the C++ / Cython models are the ones in the source:
   extracted fail-closed by translators/cpp_vartype_constants.py into Gen/Gen_CppVartype.v; every statement is by
   unfolding only, so a changed literal in abc.h, binary_quadratic_model.h, quadratic_model.h,
   constrained_quadratic_model.h or cyconstrained.pyx breaks this file ---------- *)
Theorem C02_substitute_variables_uses_source_formulas :
  forall (mult c : Qc) (m : Adj.qm),
  AdjSubstAll.substitute_variables mult c m =
  (let
   '(l1, o1) := AdjSubstAll.sv_pass1 mult c (Adj.lin m) (Adj.off m) in
    let
    '(l2, a2, o2) :=
     AdjSubstAll.sv_pass2 (Gen_CppVartype.gen_sv_quad_mp mult c)
       (Gen_CppVartype.gen_sv_lin_quad_mp mult c) (Gen_CppVartype.gen_sv_quad_offset_mp mult c) l1
       (Adj.adj m) o1 in {| Adj.lin := l2; Adj.adj := a2; Adj.off := o2; Adj.vts := Adj.vts m |}).
Proof. exact CppVartypeFacts.substitute_variables_uses_source_formulas. Qed.
Print Assumptions C02_substitute_variables_uses_source_formulas.

Theorem C02_bqm_change_vartype_uses_source_constants :
  forall (t : vartype) (m : Adj.qm),
  AdjSubstAll.bqm_change_vartype t m =
  (if AdjSubstAll.bqm_same_vartype t m
   then m
   else
    match t with
    | BINARY =>
        AdjSubstAll.set_all_vts BINARY
          (AdjSubstAll.substitute_variables (fst Gen_CppVartype.gen_bqm_to_binary)
             (snd Gen_CppVartype.gen_bqm_to_binary) m)
    | SPIN =>
        AdjSubstAll.set_all_vts SPIN
          (AdjSubstAll.substitute_variables (fst Gen_CppVartype.gen_bqm_to_spin)
             (snd Gen_CppVartype.gen_bqm_to_spin) m)
    | _ => m
    end).
Proof. exact CppVartypeFacts.bqm_change_vartype_uses_source_constants. Qed.
Print Assumptions C02_bqm_change_vartype_uses_source_constants.

Theorem C02_qm_spin_to_binary_uses_source_constants :
  forall (v : nat) (q : VartypeOps.qmi),
  VartypeOps.qm_spin_to_binary_at v q =
  VartypeOps.qi_upd_info v BINARY
    (fun _ : Expr.minfo =>
     {|
       Expr.i_vt := BINARY;
       Expr.i_lb := CppVartypeFacts.lb4 Gen_CppVartype.gen_qm_spin_to_binary;
       Expr.i_ub := CppVartypeFacts.ub4 Gen_CppVartype.gen_qm_spin_to_binary
     |})
    (VartypeOps.qi_with_m q
       (Adj.substitute_variable v (CppVartypeFacts.mult4 Gen_CppVartype.gen_qm_spin_to_binary)
          (CppVartypeFacts.off4 Gen_CppVartype.gen_qm_spin_to_binary) (VartypeOps.q_m q))).
Proof. exact CppVartypeFacts.qm_spin_to_binary_uses_source_constants. Qed.
Print Assumptions C02_qm_spin_to_binary_uses_source_constants.

Theorem C02_qm_binary_to_spin_uses_source_constants :
  forall (v : nat) (q : VartypeOps.qmi),
  VartypeOps.qm_binary_to_spin_at v q =
  VartypeOps.qi_upd_info v SPIN
    (fun _ : Expr.minfo =>
     {|
       Expr.i_vt := SPIN;
       Expr.i_lb := CppVartypeFacts.lb4 Gen_CppVartype.gen_qm_binary_to_spin;
       Expr.i_ub := CppVartypeFacts.ub4 Gen_CppVartype.gen_qm_binary_to_spin
     |})
    (VartypeOps.qi_with_m q
       (Adj.substitute_variable v (CppVartypeFacts.mult4 Gen_CppVartype.gen_qm_binary_to_spin)
          (CppVartypeFacts.off4 Gen_CppVartype.gen_qm_binary_to_spin) (VartypeOps.q_m q))).
Proof. exact CppVartypeFacts.qm_binary_to_spin_uses_source_constants. Qed.
Print Assumptions C02_qm_binary_to_spin_uses_source_constants.

Theorem C02_cqm_spin_to_binary_uses_source_constants :
  forall (v : nat) (q : Expr.mcqm),
  VartypeOps.cqm_spin_to_binary_at v q =
  VartypeOps.cq_upd_info v
    (fun _ : Expr.minfo =>
     {|
       Expr.i_vt := BINARY;
       Expr.i_lb := CppVartypeFacts.lb4 Gen_CppVartype.gen_cqm_spin_to_binary;
       Expr.i_ub := CppVartypeFacts.ub4 Gen_CppVartype.gen_cqm_spin_to_binary
     |})
    (Expr.cqm_substitute v (CppVartypeFacts.mult4 Gen_CppVartype.gen_cqm_spin_to_binary)
       (CppVartypeFacts.off4 Gen_CppVartype.gen_cqm_spin_to_binary) q).
Proof. exact CppVartypeFacts.cqm_spin_to_binary_uses_source_constants. Qed.
Print Assumptions C02_cqm_spin_to_binary_uses_source_constants.

Theorem C02_cqm_binary_to_spin_uses_source_constants :
  forall (v : nat) (q : Expr.mcqm),
  VartypeOps.cqm_binary_to_spin_at v q =
  VartypeOps.cq_upd_info v
    (fun _ : Expr.minfo =>
     {|
       Expr.i_vt := SPIN;
       Expr.i_lb := CppVartypeFacts.lb4 Gen_CppVartype.gen_cqm_binary_to_spin;
       Expr.i_ub := CppVartypeFacts.ub4 Gen_CppVartype.gen_cqm_binary_to_spin
     |})
    (Expr.cqm_substitute v (CppVartypeFacts.mult4 Gen_CppVartype.gen_cqm_binary_to_spin)
       (CppVartypeFacts.off4 Gen_CppVartype.gen_cqm_binary_to_spin) q).
Proof. exact CppVartypeFacts.cqm_binary_to_spin_uses_source_constants. Qed.
Print Assumptions C02_cqm_binary_to_spin_uses_source_constants.

Theorem C02_cqm_flip_variable_uses_source_constants :
  forall (v : nat) (q : Expr.mcqm),
  VartypeOps.cqm_flip_variable v q =
  match VartypeOps.cq_vartype q v with
  | BINARY =>
      Some
        (Expr.cqm_substitute v (fst Gen_CppVartype.gen_cqm_flip_binary)
           (snd Gen_CppVartype.gen_cqm_flip_binary) q)
  | SPIN =>
      Some
        (Expr.cqm_substitute v (fst Gen_CppVartype.gen_cqm_flip_spin)
           (snd Gen_CppVartype.gen_cqm_flip_spin) q)
  | _ => None
  end.
Proof. exact CppVartypeFacts.cqm_flip_variable_uses_source_constants. Qed.
Print Assumptions C02_cqm_flip_variable_uses_source_constants.


(* ---------- SampleSet.change_vartype: sample maps, widening rule and statement order extracted fail-closed by
   translators/sampleset_vartype.py; the failure path (a refused conversion leaves rows and vartype untouched, the energies
   already shifted - an observation, the property does not promise atomicity) ---------- *)
Theorem C02_sampleset_to_spin_map_uses_source_constants :
  forall x : Qc,
  SSetVartype.to_spin_value x =
  fst Gen_SSetVartype.gen_ss_to_spin * x + snd Gen_SSetVartype.gen_ss_to_spin.
Proof. exact SSetVartypeGenFacts.to_spin_value_uses_source_constants. Qed.
Print Assumptions C02_sampleset_to_spin_map_uses_source_constants.

Theorem C02_sampleset_to_binary_map_uses_source_constants :
  forall x : Qc,
  SSetVartype.to_binary_value x = SSetVartype.floor_div2 (x + fst Gen_SSetVartype.gen_ss_to_binary) /\
  half = / snd Gen_SSetVartype.gen_ss_to_binary.
Proof. exact SSetVartypeGenFacts.to_binary_value_uses_source_constants. Qed.
Print Assumptions C02_sampleset_to_binary_map_uses_source_constants.

Theorem C02_sampleset_storage_is_widened :
  Gen_SSetVartype.gen_ss_widens_bool = true /\ Gen_SSetVartype.gen_ss_widens_unsigned = true.
Proof. exact SSetVartypeGenFacts.storage_is_widened. Qed.
Print Assumptions C02_sampleset_storage_is_widened.

Theorem C02_sampleset_energy_shift_order :
  forall (target : vartype) (off : Qc) (s : SSet.sset),
  Gen_SSetVartype.gen_ss_energy_shift_first = true /\
  (forall s' : SSet.sset,
   SSetVartype.ss_change_vartype target off s = SSet.Fail s' -> s' = SSetVartype.ss_shift_energy off s) /\
  (vartype_eqb target (SSet.vt s) = true ->
   SSetVartype.ss_change_vartype target off s = SSet.Ok (SSetVartype.ss_shift_energy off s)).
Proof. exact SSetVartypeGenFacts.energy_shift_order. Qed.
Print Assumptions C02_sampleset_energy_shift_order.

Theorem C02_sampleset_change_vartype_fail_state :
  forall (target : vartype) (off : Qc) (s s' : SSet.sset),
  SSetVartype.ss_change_vartype target off s = SSet.Fail s' ->
  s' = SSetVartype.ss_shift_energy off s /\
  SSet.vt s' = SSet.vt s /\
  target <> SSet.vt s /\
  SSet.rws s' = map (fun r : SSet.row => SSet.set_en r (SSet.en r + off)) (SSet.rws s).
Proof. exact SSetVartypeFacts.ss_change_vartype_fail_state. Qed.
Print Assumptions C02_sampleset_change_vartype_fail_state.

Theorem C02_sampleset_change_vartype_ok_iff :
  forall (target : vartype) (off : Qc) (s : SSet.sset),
  (exists s' : SSet.sset, SSetVartype.ss_change_vartype target off s = SSet.Ok s') <->
  target = SSet.vt s \/ target = SPIN /\ SSet.vt s = BINARY \/ target = BINARY /\ SSet.vt s = SPIN.
Proof. exact SSetVartypeFacts.ss_change_vartype_ok_iff. Qed.
Print Assumptions C02_sampleset_change_vartype_ok_iff.


(* ---------- round 2: ising_to_qubo / qubo_to_ising over the factors generated from utilities.py
   (translators/ising_qubo_constants.py); the python flip_variable loops of QM and BQM; discrete markers under flips ---------- *)
Theorem C02_ising_to_qubo_uses_source_constants :
  forall (h : IsingQubo.hdict) (J : IsingQubo.qdict) (off : Qc),
  IsingQubo.ising_to_qubo h J off = IsingQuboGen.ising_to_qubo_g h J off.
Proof. exact IsingQuboGenFacts.ising_to_qubo_uses_source_constants. Qed.
Print Assumptions C02_ising_to_qubo_uses_source_constants.

Theorem C02_qubo_to_ising_uses_source_constants :
  forall (Q : IsingQubo.qdict) (off : Qc),
  IsingQubo.qubo_to_ising Q off = IsingQuboGen.qubo_to_ising_g Q off.
Proof. exact IsingQuboGenFacts.qubo_to_ising_uses_source_constants. Qed.
Print Assumptions C02_qubo_to_ising_uses_source_constants.

Theorem C02_ising_to_qubo_generated_energy :
  forall (h : list (nat * Qc)) (J : list (nat * nat * Qc)) (off : Qc) (x : sample),
  NoDup (map fst h) ->
  NoDup (map fst J) ->
  IsingQuboFacts.no_self_key J ->
  IsingQuboFacts.binary_valued x ->
  IsingQubo.qubo_energy (fst (IsingQuboGen.ising_to_qubo_g h J off))
    (snd (IsingQuboGen.ising_to_qubo_g h J off)) x =
  IsingQubo.ising_energy h J off (fun v : nat => two * x v - 1).
Proof. exact IsingQuboGenFacts.ising_to_qubo_g_energy. Qed.
Print Assumptions C02_ising_to_qubo_generated_energy.

Theorem C02_qubo_to_ising_generated_energy :
  forall (Q : list (nat * nat * Qc)) (off : Qc) (s : sample),
  NoDup (map fst Q) ->
  IsingQuboFacts.spin_valued s ->
  IsingQubo.ising_energy (fst (fst (IsingQuboGen.qubo_to_ising_g Q off)))
    (snd (fst (IsingQuboGen.qubo_to_ising_g Q off))) (snd (IsingQuboGen.qubo_to_ising_g Q off)) s =
  IsingQubo.qubo_energy Q off (fun v : nat => (s v + 1) * half).
Proof. exact IsingQuboGenFacts.qubo_to_ising_g_energy. Qed.
Print Assumptions C02_qubo_to_ising_generated_energy.

Theorem C02_qm_flip_variable_loop_energy :
  forall (vt : vartype) (v : nat) (p p' : poly) (s : sample),
  FlipMarksFacts.NoSelfLoop v (p_quad p) ->
  FlipMarks.py_flip_variable vt v p = Some p' ->
  energy p' s = energy p (upd s v (VartypeOps.flip_value vt (s v))).
Proof. exact FlipMarksFacts.py_flip_variable_energy. Qed.
Print Assumptions C02_qm_flip_variable_loop_energy.

Theorem C02_qm_flip_variable_loop_coefficients :
  forall (vt : vartype) (v : nat) (p p' : poly),
  FlipMarksFacts.NoSelfLoop v (p_quad p) ->
  FlipMarks.py_flip_variable vt v p = Some p' ->
  p_off p' = p_off (FlipMarksFacts.flip_spec vt v p) /\
  (forall x : nat, lin_coeff (p_lin p') x = lin_coeff (p_lin (FlipMarksFacts.flip_spec vt v p)) x) /\
  (forall x y : nat,
   quad_coeff (p_quad p') x y = quad_coeff (p_quad (FlipMarksFacts.flip_spec vt v p)) x y) /\
  (forall n : nat, poly_coeff_eqb n p' (FlipMarksFacts.flip_spec vt v p) = true).
Proof. exact FlipMarksFacts.py_flip_variable_coeffs. Qed.
Print Assumptions C02_qm_flip_variable_loop_coefficients.

Theorem C02_qm_flip_variable_none_iff :
  forall (vt : vartype) (v : nat) (p : poly),
  FlipMarks.py_flip_variable vt v p = None <-> vt <> SPIN /\ vt <> BINARY.
Proof. exact FlipMarksFacts.py_flip_variable_none_iff. Qed.
Print Assumptions C02_qm_flip_variable_none_iff.

Theorem C02_bqm_flip_variable_loop_energy :
  forall (vt : vartype) (v : nat) (p p' : poly) (s : sample),
  FlipMarksFacts.NoSelfLoop v (p_quad p) ->
  FlipMarks.py_bqm_flip_variable vt v p = Some p' ->
  energy p' s = energy p (upd s v (VartypeOps.flip_value vt (s v))).
Proof. exact FlipMarksFacts.py_bqm_flip_variable_energy. Qed.
Print Assumptions C02_bqm_flip_variable_loop_energy.

Theorem C02_qm_flip_variable_involutive :
  forall (vt : vartype) (v : nat) (p p1 p2 : poly) (s : sample),
  FlipMarksFacts.NoSelfLoop v (p_quad p) ->
  FlipMarksFacts.NoSelfLoop v (p_quad p1) ->
  FlipMarks.py_flip_variable vt v p = Some p1 ->
  FlipMarks.py_flip_variable vt v p1 = Some p2 -> energy p2 s = energy p s.
Proof. exact FlipMarksFacts.py_flip_variable_involutive. Qed.
Print Assumptions C02_qm_flip_variable_involutive.

Theorem C02_cqm_flip_discrete_cleared :
  forall (v : nat) (q q' : Expr.mcqm) (j : nat) (k : Expr.mcon),
  ExprFacts.CqmInv q ->
  VartypeOps.py_cqm_flip_variable v q = Some q' ->
  nth_error (Expr.m_cons q) j = Some k ->
  nth j (FlipMarks.discrete_view q) false = true ->
  In v (Expr.e_vars (Expr.mc_e k)) ->
  nth j (FlipMarks.marks_view q') true = false /\ nth j (FlipMarks.discrete_view q') true = false.
Proof. exact FlipMarksFacts.py_cqm_flip_discrete_cleared. Qed.
Print Assumptions C02_cqm_flip_discrete_cleared.

Theorem C02_cqm_flip_marks_elsewhere :
  forall (v : nat) (q q' : Expr.mcqm) (j : nat) (k : Expr.mcon),
  ExprFacts.CqmInv q ->
  VartypeOps.py_cqm_flip_variable v q = Some q' ->
  nth_error (Expr.m_cons q) j = Some k ->
  ~ In v (Expr.e_vars (Expr.mc_e k)) -> nth j (FlipMarks.marks_view q') false = Expr.mc_mark k.
Proof. exact FlipMarksFacts.py_cqm_flip_marks_elsewhere. Qed.
Print Assumptions C02_cqm_flip_marks_elsewhere.


(* polynomial.py to_binary / to_spin: bases of the powers generated by translators/poly_loops.py (which pins the loop shapes) *)
Theorem C02_poly_to_binary_uses_source_constants :
  forall (term : list nat) (bias : Qc) (t : list nat),
  HPolyPy.to_binary_newbias term bias t =
  bias * Gen_HPolyPy.gen_to_binary_base_pos ^ length t *
  Gen_HPolyPy.gen_to_binary_base_neg ^ (length term - length t).
Proof. exact HPolyPyGenFacts.to_binary_newbias_uses_source_constants. Qed.
Print Assumptions C02_poly_to_binary_uses_source_constants.

Theorem C02_poly_to_spin_uses_source_constants :
  forall (term : list nat) (bias : Qc),
  HPolyPy.to_spin_newbias term bias = bias / Gen_HPolyPy.gen_to_spin_base ^ length term.
Proof. exact HPolyPyGenFacts.to_spin_newbias_uses_source_constants. Qed.
Print Assumptions C02_poly_to_spin_uses_source_constants.


Example C02_example :
  let p := mkPoly (qc 1 2) [(0%nat, qc 3 1); (1%nat, qc (-1) 1)] [(0%nat, 1%nat, qc 2 1)] in
  energy (spin_to_binary 1%nat (spin_to_binary 0%nat p)) (fun _ => 1) = energy p (fun _ => 1)
  /\ energy (spin_to_binary 1%nat (spin_to_binary 0%nat p)) (fun _ => 0) = energy p (fun _ => qc (-1) 1).
Proof. vm_compute. split; reflexivity. Qed.

(* ---- the python loops of spin_to_binary, iteration domain / tested vartype / target generated from the source
        (translators/vartype_loops.py accepts no domain but self.variables: every variable of the model, whether or
        not it occurs in the objective or in any constraint) ---- *)
Theorem C02_qm_spin_to_binary_uses_source_loop :
  forall q : VartypeOps.qmi,
  VartypeOps.qm_spin_to_binary q = VartypeLoopsGen.qm_stb_loop Gen_VartypeLoops.gen_qm_stb_loop q.
Proof. exact VartypeLoopsFacts.qm_spin_to_binary_uses_source_loop. Qed.
Print Assumptions C02_qm_spin_to_binary_uses_source_loop.

Theorem C02_cqm_spin_to_binary_uses_source_loop :
  forall q : Expr.mcqm,
  VartypeOps.cqm_spin_to_binary q = VartypeLoopsGen.cqm_stb_loop Gen_VartypeLoops.gen_cqm_stb_loop q.
Proof. exact VartypeLoopsFacts.cqm_spin_to_binary_uses_source_loop. Qed.
Print Assumptions C02_cqm_spin_to_binary_uses_source_loop.

(* the same loop restricted to the objective's variables (the shape translators/vartype_loops.py rejects) does NOT have
   the property: a spin variable that occurs only in a constraint keeps its vartype and the constraint's activity at
   the converted sample changes *)
Theorem C02_cqm_spin_to_binary_over_objective_only_refuted :
  exists (q q' : Expr.mcqm) (k k' : Expr.mcon) (s : sample),
    VartypeLoopsSub.cqm_stb_over (Expr.e_vars (Expr.m_obj q)) SPIN BINARY q = Some q' /\
    VartypeOps.cq_vartype q' 1 = SPIN /\
    nth_error (Expr.m_cons q) 0 = Some k /\ nth_error (Expr.m_cons q') 0 = Some k' /\
    VartypeOps.mc_activity k' s <> VartypeOps.mc_activity k (fun v => two * s v - 1).
Proof. exact Round4Corners.cqm_stb_over_objective_only_refuted. Qed.
Print Assumptions C02_cqm_spin_to_binary_over_objective_only_refuted.

(* energies THROUGH a live view (round 5): a passing ViewEn case of the check says the energies the view returned are
   those of the converted model at the rows it was given (any sample dtype: int, float, bool, unsigned) *)
Theorem C02_view_energies_check_sound :
  forall (d : ChkC02.dir) (vars : list label) (base : obs) (samples : list (list (label * Qc))) (seen : list Qc),
  NoDup vars ->
  ChkC02.check (ChkC02.ViewEn d vars base samples seen) = true ->
  seen = map (fun s => energy (ChkC02.convert d vars (obs_poly base)) (sample_of_list s)) samples.
Proof. exact ViewEnFacts.view_energies_check_sound. Qed.
Print Assumptions C02_view_energies_check_sound.
