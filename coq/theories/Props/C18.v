(* C18 - Model equality is total, symmetric and sensitive to every coefficient.
   Only statements; every proof is `exact <lemma>`. *)
From Coq Require Import List ZArith QArith Qcanon Bool Arith.
From Dimod Require Import Base.Util Model.Poly Model.Equal Proofs.EqualFacts Gen.Gen_EqualCatches Proofs.EqualCatchesFacts.
Import ListNotations.
Open Scope Qc_scope.

(* is_equal of a BQM, a QM or a CQM expression view never raises, whatever it is handed:
   a number, a BQM, a QM, a view, a CQM or a foreign object *)
Theorem C18_is_equal_total : forall a o, exists b, is_equal_code a o = Val b.
Proof. exact is_equal_total. Qed.
Print Assumptions C18_is_equal_total.

(* before the repair (except AttributeError only) QuadraticModel.is_equal raised ValueError
   for a model over a different label *)
Theorem C18_qm_is_equal_orig_refuted :
  exists a b, is_equal_with catches_orig a (OModel b) = Raise ValErr.
Proof. exact qm_is_equal_orig_refuted. Qed.
Print Assumptions C18_qm_is_equal_orig_refuted.

(* True exactly for the same labels, vartypes, offset, linear biases and interactions
   (an explicit zero-bias interaction counts as an interaction) - independent of the order
   of variables and interactions and of the class / dtype of either side *)
Theorem C18_is_equal_iff_same : forall a b, is_equal_code a (OModel b) = Val true <-> same_model a b.
Proof. exact is_equal_iff_same. Qed.
Print Assumptions C18_is_equal_iff_same.

Theorem C18_is_equal_refl : forall a, is_equal_code a (OModel a) = Val true.
Proof. exact is_equal_refl. Qed.
Print Assumptions C18_is_equal_refl.

Theorem C18_is_equal_sym : forall a b, is_equal_code a (OModel b) = is_equal_code b (OModel a).
Proof. exact is_equal_sym. Qed.
Print Assumptions C18_is_equal_sym.

Theorem C18_is_equal_sensitive :
  forall a b,
  (exists l, vt_of a l <> vt_of b l) \/ e_off a <> e_off b \/
  (exists l, lin_of a l <> lin_of b l) \/
  (exists v u, In v (labels a) /\ adj_of a v u <> adj_of b v u) ->
  is_equal_code a (OModel b) = Val false.
Proof. exact is_equal_sensitive. Qed.
Print Assumptions C18_is_equal_sensitive.

Theorem C18_is_equal_number :
  forall a q, is_equal_code a (ONumber q) = Val true <-> e_vars a = [] /\ e_off a = q.
Proof. exact is_equal_number. Qed.
Print Assumptions C18_is_equal_number.

(* ConstrainedQuadraticModel.is_equal never raises either: a boolean for a CQM, False for
   anything else (number, BQM, QM, view, foreign object) *)
Theorem C18_cqm_is_equal_total : forall c o, exists b, cqm_is_equal_code c o = Val b.
Proof. exact cqm_is_equal_total. Qed.
Print Assumptions C18_cqm_is_equal_total.

Theorem C18_cqm_is_equal_non_cqm : forall c o, (forall d, o <> OCqm d) -> cqm_is_equal_code c o = Val false.
Proof. exact cqm_is_equal_non_cqm. Qed.
Print Assumptions C18_cqm_is_equal_non_cqm.

(* same objective, same constraint labels and, per label, same sense, left-hand side and
   right-hand side - irrespective of the order of the constraints *)
Theorem C18_cqm_is_equal_iff_same : forall c d, cqm_is_equal_code c (OCqm d) = Val true <-> same_cqm c d.
Proof. exact cqm_is_equal_iff_same. Qed.
Print Assumptions C18_cqm_is_equal_iff_same.

Theorem C18_cqm_is_equal_sensitive :
  forall c d l c0 c1,
  In (l, c0) (q_cons c) -> assoc (q_cons d) l = Some c1 ->
  k_sense c0 <> k_sense c1 \/ k_rhs c0 <> k_rhs c1 \/ ~ same_model (k_lhs c0) (k_lhs c1) ->
  cqm_is_equal_code c (OCqm d) = Val false.
Proof. exact cqm_is_equal_sensitive. Qed.
Print Assumptions C18_cqm_is_equal_sensitive.

Theorem C18_cqm_is_equal_label_sensitive :
  forall c d l, In l (map fst (q_cons c)) -> ~ In l (map fst (q_cons d)) ->
  cqm_is_equal_code c (OCqm d) = Val false.
Proof. exact cqm_is_equal_label_sensitive. Qed.
Print Assumptions C18_cqm_is_equal_label_sensitive.

(* ---- is_almost_equal: biases compared after rounding to `places` decimals ---- *)
(* round(a - b, places) == 0 is modelled exactly on rationals: |a - b| * 10^places <= 1/2
   (round half to even sends the tie to 0) *)
Theorem C18_is_almost_equal_total : forall p a o, exists b, is_almost_equal_code p a o = Val b.
Proof. exact is_almost_equal_total. Qed.
Print Assumptions C18_is_almost_equal_total.

Theorem C18_is_almost_equal_iff_same :
  forall p a b, wf a -> (is_almost_equal_code p a (OModel b) = Val true <-> almost_same_model p a b).
Proof. exact is_almost_equal_iff_same. Qed.
Print Assumptions C18_is_almost_equal_iff_same.

Theorem C18_is_almost_equal_refl : forall p a, wf a -> is_almost_equal_code p a (OModel a) = Val true.
Proof. exact is_almost_equal_refl. Qed.
Print Assumptions C18_is_almost_equal_refl.

Theorem C18_is_almost_equal_sym :
  forall p a b, wf a -> wf b -> is_almost_equal_code p a (OModel b) = is_almost_equal_code p b (OModel a).
Proof. exact is_almost_equal_sym. Qed.
Print Assumptions C18_is_almost_equal_sym.

Theorem C18_is_equal_implies_almost :
  forall p a b, wf a -> is_equal_code a (OModel b) = Val true -> is_almost_equal_code p a (OModel b) = Val true.
Proof. exact is_equal_implies_almost. Qed.
Print Assumptions C18_is_equal_implies_almost.

Theorem C18_is_almost_equal_number :
  forall p a q, is_almost_equal_code p a (ONumber q) = Val true <-> e_vars a = [] /\ almost_eqb p (e_off a) q = true.
Proof. exact is_almost_equal_number. Qed.
Print Assumptions C18_is_almost_equal_number.

(* the executable well-formedness test the correspondence applies to every observation *)
Theorem C18_wf_b_sound : forall m, wf_b m = true -> wf m.
Proof. exact wf_b_sound. Qed.
Print Assumptions C18_wf_b_sound.

Theorem C18_cqm_is_almost_equal_total : forall p c o, exists b, cqm_is_almost_equal_code p c o = Val b.
Proof. exact cqm_is_almost_equal_total. Qed.
Print Assumptions C18_cqm_is_almost_equal_total.

Theorem C18_cqm_is_almost_equal_iff_same :
  forall p c d, wf_cqm c -> (cqm_is_almost_equal_code p c (OCqm d) = Val true <-> almost_same_cqm p c d).
Proof. exact cqm_is_almost_equal_iff_same. Qed.
Print Assumptions C18_cqm_is_almost_equal_iff_same.

Theorem C18_cqm_is_equal_implies_almost :
  forall p c d, wf_cqm c -> cqm_is_equal_code c (OCqm d) = Val true -> cqm_is_almost_equal_code p c (OCqm d) = Val true.
Proof. exact cqm_is_equal_implies_almost. Qed.
Print Assumptions C18_cqm_is_equal_implies_almost.

(* ---- the documented scope of CQM equality ---- *)
(* soft weights, penalty kinds, discrete marks and the CQM-level variable list (unused variables)
   are invisible: erasing them on both sides never changes the answer ... *)
Theorem C18_cqm_is_equal_scope :
  forall c o, cqm_is_equal_code c o =
              cqm_is_equal_code (erase_cqm c) (match o with OCqm d => OCqm (erase_cqm d) | x => x end).
Proof. exact cqm_is_equal_scope. Qed.
Print Assumptions C18_cqm_is_equal_scope.

Theorem C18_cqm_is_almost_equal_scope :
  forall p c o, cqm_is_almost_equal_code p c o =
                cqm_is_almost_equal_code p (erase_cqm c) (match o with OCqm d => OCqm (erase_cqm d) | x => x end).
Proof. exact cqm_is_almost_equal_scope. Qed.
Print Assumptions C18_cqm_is_almost_equal_scope.

(* ... so CQMs that differ only in those compare equal *)
Theorem C18_cqm_is_equal_ignores :
  forall c d, NoDup (map fst (q_cons c)) -> erase_cqm c = erase_cqm d -> cqm_is_equal_code c (OCqm d) = Val true.
Proof. exact cqm_is_equal_ignores. Qed.
Print Assumptions C18_cqm_is_equal_ignores.

(* non-vacuity *)
Definition bq : emdl := mkE (EB SPIN) [(0%nat, SPIN, 1); (1%nat, SPIN, qc 1 2)] (qc 3 1) [(0%nat, 1%nat, qc (-1) 4)].
Definition qq : emdl := mkE EQ [(1%nat, SPIN, qc 1 2); (0%nat, SPIN, 1)] (qc 3 1) [(1%nat, 0%nat, qc (-1) 4)].
Definition qz : emdl := mkE EQ [(1%nat, SPIN, qc 1 2); (0%nat, SPIN, 1); (2%nat, SPIN, 0)] (qc 3 1)
                            [(1%nat, 0%nat, qc (-1) 4); (0%nat, 2%nat, 0)].
Definition bz : emdl := mkE (EB SPIN) [(0%nat, SPIN, 1); (1%nat, SPIN, qc 1 2); (2%nat, SPIN, 0)] (qc 3 1)
                            [(0%nat, 1%nat, qc (-1) 4)].

(* BQM vs QM with permuted variables / interaction ends: equal in both directions *)
Example C18_cross_class_equal :
  is_equal_code bq (OModel qq) = Val true /\ is_equal_code qq (OModel bq) = Val true.
Proof. split; vm_compute; reflexivity. Qed.
(* an explicit zero-bias interaction on one side only: not equal *)
Example C18_zero_interaction : is_equal_code bz (OModel qz) = Val false /\ is_equal_code qz (OModel bz) = Val false.
Proof. split; vm_compute; reflexivity. Qed.
(* same shape, disjoint labels: False, no exception *)
Example C18_disjoint : is_equal_code qm1 (OModel qm2) = Val false.
Proof. vm_compute. reflexivity. Qed.

(* rounding: 1/2 at 0 places is a tie and rounds to 0; 3/4 does not; 1/8 at 1 place rounds to 0.1 *)
Example C18_round_half_even :
  rz 0 half = true /\ rz 0 (qc 3 4) = false /\ rz 1 (qc 1 8) = false /\ rz 1 (qc 1 20) = true /\ rz 7 (qc 1 4) = false.
Proof. repeat split; vm_compute; reflexivity. Qed.

(* ---- the except clauses and default `places` of the model are those of the source
   (translators/equal_catches.py -> Gen/Gen_EqualCatches.v) ---- *)
Theorem C18_gen_is_equal_catches :
  forall a, catches_of a = match e_cls a with EB _ => gen_catches_is_equal_bqm | EQ => gen_catches_is_equal_qm end.
Proof. exact catches_of_gen. Qed.
Print Assumptions C18_gen_is_equal_catches.

Theorem C18_gen_view_catches_as_qm : gen_catches_is_equal_view = gen_catches_is_equal_qm.
Proof. exact catches_view_is_qm. Qed.
Print Assumptions C18_gen_view_catches_as_qm.

Theorem C18_gen_is_almost_equal_catches :
  almost_catches = gen_catches_is_almost_equal_bqm /\ almost_catches = gen_catches_is_almost_equal_qm
  /\ almost_catches = gen_catches_is_almost_equal_view.
Proof. exact almost_catches_gen. Qed.
Print Assumptions C18_gen_is_almost_equal_catches.

Theorem C18_gen_default_places :
  gen_default_places_bqm = 7%nat /\ gen_default_places_qm = 7%nat /\ gen_default_places_view = 7%nat
  /\ gen_default_places_cqm = 7%nat.
Proof. exact default_places_gen. Qed.
Print Assumptions C18_gen_default_places.
