(* C19 - Copies and non-mutating variants are independent of the original.
   Statements about the store model (Model/Store.v): every copy-producing call appends a new owning
   cell; an in-place edit rewrites only the cell that owns the handle it goes through; views are
   computed from their parent.  That the real heap behaves like this store is what the
   correspondence check establishes (hence: partial). *)
From Coq Require Import List Arith Bool.
From Dimod Require Import Model.Store Proofs.StoreFacts.
Import ListNotations.

Theorem C19_frame_non_alias :
  forall (state : Type) (viewfn : nat -> state -> state) (s : store state) i e j,
    owner state s i <> owner state s j ->
    read state viewfn (step state viewfn s (Edit i e)) j = read state viewfn s j.
Proof. exact frame_non_alias. Qed.
Print Assumptions C19_frame_non_alias.

Theorem C19_edit_sequence_frame :
  forall (state : Type) (viewfn : nat -> state -> state) (es : edits state) (s : store state) j,
    (forall ie, In ie es -> owner state s (fst ie) <> owner state s j) ->
    read state viewfn (run_edits state viewfn s es) j = read state viewfn s j.
Proof. exact edits_frame. Qed.
Print Assumptions C19_edit_sequence_frame.

Theorem C19_copy_then_edit_independent :
  forall (state : Type) (viewfn : nat -> state -> state) (s : store state) src f st (es : edits state),
    wf state s -> read state viewfn s src = Some st ->
    let s1 := step state viewfn s (CopyOf src f) in
    let k := length s in
    ((forall ie, In ie es -> fst ie < length s) -> read state viewfn (run_edits state viewfn s1 es) k = Some (f st))
    /\ ((forall ie, In ie es -> fst ie = k) -> forall j, j < length s ->
        read state viewfn (run_edits state viewfn s1 es) j = read state viewfn s j).
Proof. exact copy_then_edit_independent. Qed.
Print Assumptions C19_copy_then_edit_independent.

Theorem C19_views_track_parent :
  forall (state : Type) (viewfn : nat -> state -> state) (s : store state) o v p w,
    wf state s -> nth_error s v = Some (View p w) ->
    read state viewfn (step state viewfn s o) v = option_map (viewfn w) (own_state state (step state viewfn s o) p).
Proof. exact views_track_parent. Qed.
Print Assumptions C19_views_track_parent.

Example C19_example :
  let vf := fun (w st : nat) => st + 100 * w in
  let s := run nat vf [] [New 1; MkView 0 2; CopyOf 1 (fun x => x); Edit 1 (fun _ => 7); Edit 2 (fun _ => 9)] in
  map (read nat vf s) [0; 1; 2] = [Some 7; Some 207; Some 9].
Proof. vm_compute. reflexivity. Qed.
