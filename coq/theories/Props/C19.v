(* C19 - Copies and non-mutating variants are independent of the original.
   Statements about the store model (Model/Store.v): every copy-producing call appends a new owning
   cell; an in-place edit rewrites only the cell that owns the handle it goes through; views are
   computed from their parent.  That the real heap behaves like this store is what the
   correspondence check establishes (hence: partial). *)
From Coq Require Import List ZArith QArith Qcanon Arith Bool.
From Dimod Require Import Base.Util Model.Poly Model.Samples Model.SSet Model.Store Model.Heap Model.CopyApi Gen.Gen_Copy
  Proofs.StoreFacts Proofs.HeapFacts.
From Dimod Require Model.Alias Proofs.AliasFacts.
Import ListNotations.
Local Open Scope nat_scope.

Theorem C19_frame_non_alias :
  forall (state : Type) (viewfn : nat -> state -> state) (s : store state) i e j,
    owner state s i <> owner state s j ->
    read state viewfn (step state viewfn s (Edit i e)) j = read state viewfn s j.
Proof. exact frame_non_alias. Qed.
Print Assumptions C19_frame_non_alias.

Theorem C19_edit_sequence_frame :
  forall (state : Type) (viewfn : nat -> state -> state) (es : edits state) (s : store state) j,
    (forall ie, In ie es -> owner state s (fst ie) <> owner state s j) ->
    read state viewfn (run_edits state viewfn s es) j = read state viewfn s j.
Proof. exact edits_frame. Qed.
Print Assumptions C19_edit_sequence_frame.

Theorem C19_copy_then_edit_independent :
  forall (state : Type) (viewfn : nat -> state -> state) (s : store state) src f st (es : edits state),
    wf state s -> read state viewfn s src = Some st ->
    let s1 := step state viewfn s (CopyOf src f) in
    let k := length s in
    ((forall ie, In ie es -> fst ie < length s) -> read state viewfn (run_edits state viewfn s1 es) k = Some (f st))
    /\ ((forall ie, In ie es -> fst ie = k) -> forall j, j < length s ->
        read state viewfn (run_edits state viewfn s1 es) j = read state viewfn s j).
Proof. exact copy_then_edit_independent. Qed.
Print Assumptions C19_copy_then_edit_independent.

Theorem C19_views_track_parent :
  forall (state : Type) (viewfn : nat -> state -> state) (s : store state) o v p w,
    wf state s -> nth_error s v = Some (View p w) ->
    read state viewfn (step state viewfn s o) v = option_map (viewfn w) (own_state state (step state viewfn s o) p).
Proof. exact views_track_parent. Qed.
Print Assumptions C19_views_track_parent.

(* ---- object level (Model/Heap.v): every copy-producing call is a constructor ---- *)
(* documented result of each model-level call (copy / relabel / vartype change / fix_variables / arithmetic) *)
Theorem C19_copy_call_model_result :
  forall K h c p o',
    apply_cop K h c (OModel p) = Some o' ->
    match c with CGiven x => o' = x | _ =>
    exists q, o' = OModel q /\
      match c with
      | CCopy => q = p
      | CRelabel f => forall s, energy q s = energy p (fun v => s (f v))
      | CSpinToBinary vs => forall x, energy q x = energy p (s2b_sample vs x)
      | CBinaryToSpin vs => forall s, energy q s = energy p (b2s_sample vs s)
      | CFix fs => forall s, energy q s = energy p (fold_right (fun f acc => upd acc (fst f) (snd f)) s fs)
      | CScale k => forall s, (energy q s = k * energy p s)%Qc
      | CNeg => forall s, (energy q s = - energy p s)%Qc
      | CAddConst c0 => forall s, (energy q s = energy p s + c0)%Qc
      | CAdd j => exists b, model_of h j = Some b /\ forall s, (energy q s = energy p s + energy b s)%Qc
      | CSub j => exists b, model_of h j = Some b /\ forall s, (energy q s = energy p s - energy b s)%Qc
      | CSet _ | CConcat _ | CGiven _ => False
      end
    end.
Proof. exact cop_model_result. Qed.
Print Assumptions C19_copy_call_model_result.

(* sample sets: the result is the SSet.v function of the receiver (all C14 theorems apply to it) *)
Theorem C19_copy_call_sampleset_result :
  forall K h c s o',
    apply_cop K h c (OSet s) = Some o' ->
    match c with
    | CCopy => o' = OSet s
    | CSet o => exists s', apply K o s = Ok s' /\ o' = OSet s'
    | CConcat js => exists l s', sets_of h js = Some l /\ concat_ss l s = Ok s' /\ o' = OSet s'
    | CGiven x => o' = x
    | _ => False
    end.
Proof. exact cop_set_result. Qed.
Print Assumptions C19_copy_call_sampleset_result.

Theorem C19_copy_receiver_unchanged :
  forall K h src c j, (j < length h)%nat -> nth_error (hstep K h (HCopy src c)) j = nth_error h j.
Proof. exact copy_receiver_unchanged. Qed.
Print Assumptions C19_copy_receiver_unchanged.

Theorem C19_copy_new_cell :
  forall K h src c x y,
    nth_error h src = Some x -> apply_cop K h c x = Some y ->
    hstep K h (HCopy src c) = h ++ [y] /\ nth_error (hstep K h (HCopy src c)) (length h) = Some y.
Proof. exact copy_new_cell. Qed.
Print Assumptions C19_copy_new_cell.

Theorem C19_copy_raises_unchanged :
  forall K h src c x, nth_error h src = Some x -> apply_cop K h c x = None -> hstep K h (HCopy src c) = h.
Proof. exact copy_raises_unchanged. Qed.
Print Assumptions C19_copy_raises_unchanged.

Theorem C19_edit_frame :
  forall K h i e j, i <> j -> nth_error (hstep K h (HEdit i e)) j = nth_error h j.
Proof. exact edit_frame. Qed.
Print Assumptions C19_edit_frame.

Theorem C19_inplace_false_is_copy_then_inplace :
  forall K h src c e x y,
    inplace_of c = Some e -> nth_error h src = Some x -> apply_cop K h c x = Some y ->
    hstep K (hstep K h (HCopy src CCopy)) (HEdit (length h) e) = hstep K h (HCopy src c).
Proof. exact inplace_false_is_copy_then_inplace. Qed.
Print Assumptions C19_inplace_false_is_copy_then_inplace.

(* any history of creations, copy-producing calls and in-place calls *)
Theorem C19_history_frame :
  forall K ops h j,
    (j < length h)%nat -> (forall o, In o ops -> ~ edits_cell j o) ->
    nth_error (hrun K h ops) j = nth_error h j.
Proof. exact history_frame. Qed.
Print Assumptions C19_history_frame.

Theorem C19_copy_then_history_independent :
  forall K h src c x y ops,
    nth_error h src = Some x -> apply_cop K h c x = Some y ->
    let h1 := hstep K h (HCopy src c) in
    ((forall o, In o ops -> ~ edits_cell (length h) o) -> nth_error (hrun K h1 ops) (length h) = Some y)
    /\ (forall j, (j < length h)%nat -> (forall o, In o ops -> ~ edits_cell j o) ->
          nth_error (hrun K h1 ops) j = nth_error h j).
Proof. exact copy_then_history_independent. Qed.
Print Assumptions C19_copy_then_history_independent.

(* ---- handing a live model to a CQM: copy=True vs copy=False (move) ---- *)
Theorem C19_add_constraint_cells :
  forall K h ci mi lbl copy ob cs p,
    nth_error h ci = Some (OCqm ob cs) -> nth_error h mi = Some (OModel p) ->
    let h' := hstep K h (HAddConstraint ci mi lbl copy) in
    nth_error h' ci = Some (OCqm ob (cs ++ [(lbl, p)]))
    /\ nth_error h' mi = Some (OModel (if copy then p else pzero))
    /\ (forall j, j <> ci -> j <> mi -> nth_error h' j = nth_error h j).
Proof. exact add_constraint_cells. Qed.
Print Assumptions C19_add_constraint_cells.

Theorem C19_moved_from_is_empty : forall s, energy pzero s = 0%Qc.
Proof. exact moved_from_is_empty. Qed.
Print Assumptions C19_moved_from_is_empty.

Theorem C19_stored_constraint_independent :
  forall K h ci mi lbl copy ob cs p ops,
    nth_error h ci = Some (OCqm ob cs) -> nth_error h mi = Some (OModel p) ->
    (forall o, In o ops -> ~ edits_cell ci o) ->
    nth_error (hrun K (hstep K h (HAddConstraint ci mi lbl copy)) ops) ci = Some (OCqm ob (cs ++ [(lbl, p)])).
Proof. exact stored_constraint_independent. Qed.
Print Assumptions C19_stored_constraint_independent.

Theorem C19_copied_model_independent :
  forall K h ci mi lbl ob cs p ops,
    nth_error h ci = Some (OCqm ob cs) -> nth_error h mi = Some (OModel p) ->
    (forall o, In o ops -> ~ edits_cell mi o) ->
    nth_error (hrun K (hstep K h (HAddConstraint ci mi lbl true)) ops) mi = Some (OModel p).
Proof. exact copied_model_independent. Qed.
Print Assumptions C19_copied_model_independent.

Theorem C19_set_objective_cells :
  forall K h ci mi ob cs p,
    nth_error h ci = Some (OCqm ob cs) -> nth_error h mi = Some (OModel p) ->
    let h' := hstep K h (HSetObjective ci mi) in
    nth_error h' ci = Some (OCqm p cs) /\ (forall j, j <> ci -> nth_error h' j = nth_error h j).
Proof. exact set_objective_cells. Qed.
Print Assumptions C19_set_objective_cells.

(* ---- the documented aliases: CQM expression views and spin/binary views reflect their parent ---- *)
Theorem C19_cqm_views_read_parent :
  forall h ci ob cs,
    nth_error h ci = Some (OCqm ob cs) ->
    cqm_objective h ci = Some ob
    /\ forall lbl, cqm_constraint h ci lbl = option_map snd (find (fun c => (fst c =? lbl)%nat) cs).
Proof. exact cqm_views_read_parent. Qed.
Print Assumptions C19_cqm_views_read_parent.

Theorem C19_spin_binary_views_track_parent :
  forall (s : store mstate) o v p w,
    wf mstate s -> nth_error s v = Some (View p w) ->
    read mstate model_viewfn (step mstate model_viewfn s o) v
    = option_map (model_viewfn w) (own_state mstate (step mstate model_viewfn s o) p).
Proof. exact spin_binary_views_track_parent. Qed.
Print Assumptions C19_spin_binary_views_track_parent.

Theorem C19_view_energy :
  forall (m : mstate) x,
    energy (snd (model_viewfn 0 m)) x = energy (snd m) (b2s_sample (fst m) x)
    /\ energy (snd (model_viewfn 1 m)) x = energy (snd m) (s2b_sample (fst m) x).
Proof. exact view_energy. Qed.
Print Assumptions C19_view_energy.

(* ---- arithmetic with a neutral operand (0 + a, a + 0, sum([a]), 1 * a, a / 1): equal contents, NEW object ---- *)
Theorem C19_neutral_operand_is_a_fresh_equal_object :
  forall K h src p,
    nth_error h src = Some (OModel p) ->
    hstep K h (HCopy src (CAddConst 0%Qc)) = h ++ [OModel p]
    /\ hstep K h (HCopy src (CScale 1%Qc)) = h ++ [OModel p]
    /\ length h <> src.
Proof. exact neutral_operand_is_a_fresh_equal_object. Qed.
Print Assumptions C19_neutral_operand_is_a_fresh_equal_object.

(* ---- the tie to the source: every public method with an `inplace` / `copy` parameter, its default
   and whether it returns self, as GENERATED from dimod's source, is exactly the table the model covers ---- *)
Theorem C19_copy_api_is_the_modeled_one :
  gen_copy_api = modeled_copy_api /\ gen_copy_constructors = modeled_copy_constructors
  /\ gen_sampleset_functions = modeled_sampleset_functions.
Proof. exact copy_api_matches. Qed.
Print Assumptions C19_copy_api_is_the_modeled_one.

Example C19_example :
  let vf := fun (w st : nat) => st + 100 * w in
  let s := run nat vf [] [New 1; MkView 0 2; CopyOf 1 (fun x => x); Edit 1 (fun _ => 7); Edit 2 (fun _ => 9)] in
  map (read nat vf s) [0; 1; 2] = [Some 7; Some 207; Some 9].
Proof. vm_compute. reflexivity. Qed.

(* ---- sample sets on a heap with shared records (Model/Alias.v: the model the alias histories are replayed in) ----
   relabel_variables / change_vartype with inplace=False on a resolved sample set: every existing object
   (the receiver included) and every existing record is untouched, and the returned object is new and owns a
   record that no existing object refers to - so no later in-place edit of either is visible through the other *)
Theorem C19_sampleset_copy_call_independent : forall h i c offf h' j r ls v inf,
  AliasFacts.wf h -> nth_error (Alias.objs h) i = Some (Alias.AResolved r ls v inf) -> dcall_inplace c = false ->
  Alias.acall h i c offf = (h', Some j) ->
  j = length (Alias.objs h) /\ AliasFacts.old_untouched h h'
  /\ exists rj ls' v' inf', nth_error (Alias.objs h') j = Some (Alias.AResolved rj ls' v' inf') /\ length (Alias.cells h) <= rj.
Proof. exact AliasFacts.copy_call_independent. Qed.
Print Assumptions C19_sampleset_copy_call_independent.

(* an in-place change_vartype only writes the receiver's own record (or a new one) *)
Theorem C19_sampleset_inplace_change_vartype_local : forall h j v off offf h' raised L M r ls cur inf,
  nth_error (Alias.objs h) j = Some (Alias.AResolved r ls cur inf) -> L <= r -> r < length (Alias.cells h) -> M <= j ->
  Alias.chvt_inplace h j v off offf = (h', raised) ->
  (forall k, k < M -> nth_error (Alias.objs h') k = nth_error (Alias.objs h) k)
  /\ (forall r', r' < L -> nth_error (Alias.cells h') r' = nth_error (Alias.cells h) r')
  /\ length (Alias.objs h') = length (Alias.objs h)
  /\ exists r2 ls2 v2 inf2, nth_error (Alias.objs h') j = Some (Alias.AResolved r2 ls2 v2 inf2) /\ L <= r2.
Proof. exact AliasFacts.chvt_inplace_local. Qed.
Print Assumptions C19_sampleset_inplace_change_vartype_local.

(* pending relabels never reach another sample set: the C14 history theorem, restated for this property *)
Theorem C19_sampleset_relabel_history_frame : forall l h, AliasFacts.good h -> forallb Alias.is_relabel_ev l = true ->
  AliasFacts.good (AliasFacts.arun h l) /\
  forall j s, Alias.view h j = Some s ->
    exists s', Alias.view (AliasFacts.arun h l) j = Some s' /\ rws s' = rws s /\ vt s' = vt s /\ info s' = info s
               /\ fields s' = fields s /\ (AliasFacts.never_receiver j l -> labels s' = labels s).
Proof. exact AliasFacts.relabel_history_frame. Qed.
Print Assumptions C19_sampleset_relabel_history_frame.

(* an in-place change_vartype writes at most one existing record - the receiver's own - and no other object *)
Theorem C19_sampleset_inplace_change_vartype_writes_own_record_only : forall h i v off offf h' raised r ls cur inf,
  nth_error (Alias.objs h) i = Some (Alias.AResolved r ls cur inf) ->
  Alias.chvt_inplace h i v off offf = (h', raised) ->
  (forall k, k <> i -> nth_error (Alias.objs h') k = nth_error (Alias.objs h) k)
  /\ (forall r', r' <> r -> r' < length (Alias.cells h) -> nth_error (Alias.cells h') r' = nth_error (Alias.cells h) r').
Proof. exact AliasFacts.chvt_inplace_writes_own_record_only. Qed.
Print Assumptions C19_sampleset_inplace_change_vartype_writes_own_record_only.

(* over ANY history of from_future / set_result / reads / relabel_variables (in place or not) / change_vartype with
   inplace=False, before or after the future's result exists and on any handle: every readable sample set keeps its
   rows, vartype, info and data vectors for ever, and its labels unless it is itself the receiver of an in-place
   relabel (the only call excluded is change_vartype(inplace=True), which may write a record shared through from_future) *)
Theorem C19_sampleset_copy_history_frame : forall l h, AliasFacts.good h -> forallb AliasFacts.is_copy_ev l = true ->
  AliasFacts.good (AliasFacts.arun h l) /\
  forall j s, Alias.view h j = Some s ->
    exists s', Alias.view (AliasFacts.arun h l) j = Some s' /\ rws s' = rws s /\ vt s' = vt s /\ info s' = info s
               /\ fields s' = fields s /\ (AliasFacts.never_receiver j l -> labels s' = labels s).
Proof. exact AliasFacts.copy_history_frame. Qed.
Print Assumptions C19_sampleset_copy_history_frame.

Theorem C19_sampleset_empty_heap_good : AliasFacts.good Alias.aempty.
Proof. exact AliasFacts.good_empty. Qed.
Print Assumptions C19_sampleset_empty_heap_good.
