(* C14 - Sample-set operations move whole rows and columns and never alter data.
   Statements about the model Model/SSet.v (rows = records with sample values, energy,
   num_occurrences, a unique tag and further data vectors); no size bounds anywhere. *)
From Coq Require Import List ZArith QArith Qcanon Bool Arith Permutation Sorting.Sorted.
From Dimod Require Import Base.Util Model.Poly Model.Samples Model.SSet Proofs.SamplesFacts Proofs.SSetFacts
  Proofs.SSetAgg Proofs.SSetMore Proofs.SSetSort Model.ChkC14 Gen.Gen_Narrow Model.Narrow Proofs.NarrowFacts.
From Dimod Require Model.Alias Proofs.AliasFacts Gen.Gen_Hooks Proofs.AliasGenFacts Proofs.SSetReads.
Import ListNotations.
Open Scope Qc_scope.

(* as_samples / from_samples: re-ordering columns (later dicts, label sorting) gives every label the
   value the input gave it, for ANY permutation of the labels *)
Theorem C14_reordered_row_same_assignment :
  forall first ls row v, In v first -> row_value first (reindex_row first ls row) v = row_value ls row v.
Proof. exact reindex_row_value. Qed.
Print Assumptions C14_reordered_row_same_assignment.

Theorem C14_sort_labels_permutes_columns :
  forall K sortl s,
    let s' := sort_columns K sortl s in
    vt s' = vt s /\ info s' = info s /\ fields s' = fields s
    /\ (forall v, In v (labels s') <-> In v (labels s))
    /\ rws s' = map (recolumn (labels s') (labels s)) (rws s).
Proof. exact sort_labels_permutes_columns. Qed.
Print Assumptions C14_sort_labels_permutes_columns.

Theorem C14_recolumn_frame :
  forall new old r,
    en (recolumn new old r) = en r /\ oc (recolumn new old r) = oc r /\ tag (recolumn new old r) = tag r
    /\ extra (recolumn new old r) = extra r
    /\ forall v, In v new -> row_value new (vals (recolumn new old r)) v = row_value old (vals r) v.
Proof. exact recolumn_frame. Qed.
Print Assumptions C14_recolumn_frame.

(* aggregate *)
Theorem C14_aggregate_multiset : forall l v, weight (aggregate_rows l) v = weight l v.
Proof. exact aggregate_multiset. Qed.
Print Assumptions C14_aggregate_multiset.

Theorem C14_aggregate_nodup : forall l, NoDup (map vals (aggregate_rows l)).
Proof. exact aggregate_nodup. Qed.
Print Assumptions C14_aggregate_nodup.

Theorem C14_aggregate_first_seen : forall l, map strip (aggregate_rows l) = map strip (firsts l []).
Proof. exact aggregate_first_seen. Qed.
Print Assumptions C14_aggregate_first_seen.

(* slice / truncate *)
Theorem C14_slice_indices_ok :
  forall n start stop step, step <> Some 0%Z ->
    Forall (fun i => (i < n)%nat) (slice_indices n start stop step) /\ NoDup (slice_indices n start stop step).
Proof. exact slice_indices_ok. Qed.
Print Assumptions C14_slice_indices_ok.

Theorem C14_slice_unsorted_is_list_slice :
  forall (l : list row) (a b : nat), (a <= b <= length l)%nat ->
    select l (slice_indices (length l) (Some (Z.of_nat a)) (Some (Z.of_nat b)) None) = firstn (b - a) (skipn a l).
Proof. exact slice_unsorted_is_list_slice. Qed.
Print Assumptions C14_slice_unsorted_is_list_slice.

Theorem C14_truncate_unsorted_is_firstn :
  forall (l : list row) (n : nat), (n <= length l)%nat ->
    select l (slice_indices (length l) None (Some (Z.of_nat n)) None) = firstn n l.
Proof. exact truncate_unsorted_is_firstn. Qed.
Print Assumptions C14_truncate_unsorted_is_firstn.

Theorem C14_slice_sorted_spec :
  forall (key : row -> Qc) rows p idx,
    Permutation p rows -> StronglySorted Qcle (map key p) ->
    NoDup idx -> Forall (fun i => (i < length rows)%nat) idx ->
    map key (select p idx) = map (fun i => nth i (qsort (map key rows)) 0) idx
    /\ exists rest, Permutation (select p idx ++ rest) rows.
Proof. exact slice_sorted_spec. Qed.
Print Assumptions C14_slice_sorted_spec.

(* lowest / filter / first *)
Theorem C14_lowest_exact :
  forall rtol atol s r,
    In r (rws (lowest rtol atol s)) <-> In r (rws s) /\ isclose rtol atol (min_energy (rws s)) (en r) = true.
Proof. exact lowest_exact. Qed.
Print Assumptions C14_lowest_exact.

Theorem C14_min_energy_least : forall l r, In r l -> (min_energy l <= en r)%Qc.
Proof. exact min_energy_least. Qed.
Print Assumptions C14_min_energy_least.

Theorem C14_min_energy_attained : forall l, l <> [] -> exists r, In r l /\ en r = min_energy l.
Proof. exact min_energy_attained. Qed.
Print Assumptions C14_min_energy_attained.

Theorem C14_filter_exact :
  forall p s r, In r (rws (filter_ss p s)) <-> In r (rws s) /\ eval_pred (labels s) p r = true.
Proof. exact filter_exact. Qed.
Print Assumptions C14_filter_exact.

Theorem C14_first_is_a_least_energy_row :
  forall rows seen, first_ok rows seen = true ->
    (exists r, In r rows /\ row_eqb seen r = true) /\ forall r, In r rows -> (en seen <= en r)%Qc.
Proof. exact first_ok_spec. Qed.
Print Assumptions C14_first_is_a_least_energy_row.

(* column operations: frame *)
Theorem C14_keep_frame :
  forall K vs sortl s s', keep_ss K vs sortl s = Ok s' ->
    vt s' = vt s /\ info s' = info s /\ fields s' = fields s
    /\ (forall v, In v (labels s') <-> In v vs) /\ (forall v, In v vs -> In v (labels s))
    /\ rws s' = map (recolumn (labels s') (labels s)) (rws s).
Proof. exact keep_frame. Qed.
Print Assumptions C14_keep_frame.

Theorem C14_drop_frame :
  forall K vs s s', drop_ss K vs s = Ok s' ->
    labels s' = filter (fun v => negb (memb v vs)) (labels s)
    /\ vt s' = vt s /\ info s' = info s /\ fields s' = fields s
    /\ rws s' = map (recolumn (labels s') (labels s)) (rws s).
Proof. exact drop_frame. Qed.
Print Assumptions C14_drop_frame.

Theorem C14_relabel_frame :
  forall m s s', relabel_ss m s = Ok s' ->
    labels s' = map (subst_label m) (labels s) /\ rws s' = rws s /\ vt s' = vt s /\ info s' = info s /\ fields s' = fields s.
Proof. exact relabel_frame. Qed.
Print Assumptions C14_relabel_frame.

Theorem C14_change_vartype_frame :
  forall v off s s', change_vartype_ss v off s = Ok s' ->
    labels s' = labels s /\ info s' = info s /\ fields s' = fields s /\ vt s' = v
    /\ map untouched (rws s') = map untouched (rws s)
    /\ map en (rws s') = map (fun r => en r + off) (rws s)
    /\ exists f, map vals (rws s') = map (fun r => map f (vals r)) (rws s)
                 /\ (vt s = v -> forall x, f x = x)
                 /\ (vt s = BINARY -> v = SPIN -> forall x, f x = two * x - 1)
                 /\ (vt s = SPIN -> v = BINARY -> forall x, f x = (x + 1) * half).
Proof. exact change_vartype_frame. Qed.
Print Assumptions C14_change_vartype_frame.

Theorem C14_concatenate_is_append :
  forall others s s', concat_ss others s = Ok s' ->
    labels s' = labels s /\ vt s' = vt s /\ fields s' = fields s
    /\ exists more, concat_rows s others = Some more /\ rws s' = rws s ++ more.
Proof. exact concatenate_is_append. Qed.
Print Assumptions C14_concatenate_is_append.

Theorem C14_concatenated_rows_are_recolumned_rows :
  forall s o rest more, vt o = vt s -> concat_rows s (o :: rest) = Some more ->
    exists more', concat_rows s rest = Some more' /\ more = map (recolumn (labels s) (labels o)) (rws o) ++ more'
                  /\ same_set (labels o) (labels s) = true.
Proof. exact concat_rows_same_vartype. Qed.
Print Assumptions C14_concatenated_rows_are_recolumned_rows.

(* deferred (future-backed) sample sets *)
Theorem C14_deferred_eq_resolved :
  forall K o p base,
    resolve K (defer o p) base =
    match resolve K p base with
    | Some s => match apply K o s with Ok s' => Some s' | Fail _ => None end
    | None => None
    end.
Proof. exact deferred_eq_resolved. Qed.
Print Assumptions C14_deferred_eq_resolved.

(* ---- the code shape of aggregate: np.unique + argsort un-sorting + accumulation ---- *)
(* contract of the mirrored np.unique(axis=0, return_index=True, return_inverse=True) *)
Theorem C14_np_unique_contract :
  forall l,
    let '(u, indices, inverse) := np_unique l in
    lex_sorted u /\ (forall v, In v u <-> In v (map vals l))
    /\ (forall k, (k < length u)%nat ->
          (nth k indices 0 < length l)%nat /\ vals (nth (nth k indices 0%nat) l rowz) = nth k u []
          /\ forall j, (j < nth k indices 0)%nat -> vals (nth j l rowz) <> nth k u [])
    /\ length inverse = length l
    /\ (forall i, (i < length l)%nat -> nth (nth i inverse 0%nat) u [] = vals (nth i l rowz)).
Proof. exact np_unique_contract. Qed.
Print Assumptions C14_np_unique_contract.

Theorem C14_aggregate_np_eq_aggregate_rows : forall l, aggregate_np l = aggregate_rows l.
Proof. exact aggregate_np_eq_aggregate_rows. Qed.
Print Assumptions C14_aggregate_np_eq_aggregate_rows.

(* the un-sorting is right for ANY order in which the distinct rows are enumerated *)
Theorem C14_aggregate_independent_of_unique_order :
  forall U l, Permutation U (np_unique_rows l) -> unsort_accumulate U l = aggregate_rows l.
Proof. exact aggregate_independent_of_unique_order. Qed.
Print Assumptions C14_aggregate_independent_of_unique_order.

Theorem C14_aggregate_np_multiset : forall l v, weight (aggregate_np l) v = weight l v.
Proof. exact aggregate_np_multiset. Qed.
Print Assumptions C14_aggregate_np_multiset.

Theorem C14_aggregate_np_nodup : forall l, NoDup (map vals (aggregate_np l)).
Proof. exact aggregate_np_nodup. Qed.
Print Assumptions C14_aggregate_np_nodup.

Theorem C14_aggregate_np_first_seen : forall l, map strip (aggregate_np l) = map strip (firsts l []).
Proof. exact aggregate_np_first_seen. Qed.
Print Assumptions C14_aggregate_np_first_seen.

(* ---- append_variables / append_data_vectors ---- *)
Theorem C14_append_variables_frame :
  forall K nls add sortl s s',
    append_ss K nls add sortl s = Ok s' ->
    (forall r, In r (rws s) -> length (vals r) = length (labels s)) ->
    vt s' = vt s /\ info s' = info s /\ fields s' = fields s
    /\ (forall v, In v (labels s') <-> In v (labels s) \/ In v nls)
    /\ exists ad, (ad = add \/ exists a, add = [a] /\ ad = repeat a (length (rws s)))
                  /\ length ad = length (rws s)
                  /\ Forall2 (appended_row (labels s) nls (labels s')) (rws s') (combine (rws s) ad).
Proof. exact append_frame. Qed.
Print Assumptions C14_append_variables_frame.

Theorem C14_append_variables_fail_unchanged :
  forall K nls add sortl s s', append_ss K nls add sortl s = Fail s' -> s' = s.
Proof. exact append_fail_unchanged. Qed.
Print Assumptions C14_append_variables_fail_unchanged.

Theorem C14_append_data_vectors_frame :
  forall name vec s s',
    append_vec_ss name vec s = Ok s' ->
    labels s' = labels s /\ vt s' = vt s /\ info s' = info s /\ fields s' = fields s ++ [name]
    /\ length vec = length (rws s) /\ ~ In name (fields s)
    /\ Forall2 (fun r' (rx : row * Qc) => vals r' = vals (fst rx) /\ en r' = en (fst rx) /\ oc r' = oc (fst rx)
                                          /\ tag r' = tag (fst rx) /\ extra r' = extra (fst rx) ++ [snd rx])
               (rws s') (combine (rws s) vec).
Proof. exact append_vec_frame. Qed.
Print Assumptions C14_append_data_vectors_frame.

(* ---- as_samples: the accepted forms agree ---- *)
Theorem C14_dict_row_value : forall d v, row_value (map fst d) (map snd d) v = assoc d v.
Proof. exact dict_row_value. Qed.
Print Assumptions C14_dict_row_value.

Theorem C14_list_of_dicts_values :
  forall l0 r0 rest first rows,
    as_samples_dicts ((l0, r0) :: rest) = Some (first, rows) ->
    first = l0 /\ exists rows', rows = r0 :: rows'
    /\ Forall2 (fun row' (lr : list label * list Qc) =>
                  (forall v, In v (fst lr) <-> In v first)
                  /\ forall v, In v first -> row_value first row' v = row_value (fst lr) (snd lr) v) rows' rest.
Proof. exact as_samples_dicts_values. Qed.
Print Assumptions C14_list_of_dicts_values.

Theorem C14_forms_agree :
  forall ls1 row1 ls2 row2,
    NoDup ls1 -> length row1 = length ls1 ->
    (forall v, In v ls1 -> row_value ls1 row1 v = row_value ls2 row2 v) ->
    reindex_row ls1 ls2 row2 = row1.
Proof. exact forms_agree. Qed.
Print Assumptions C14_forms_agree.

Theorem C14_dict_and_labelled_array_agree :
  forall d ls row,
    NoDup ls -> length row = length ls ->
    (forall v, In v ls -> assoc d v = row_value ls row v) ->
    reindex_row ls (map fst d) (map snd d) = row.
Proof. exact dict_and_labelled_array_agree. Qed.
Print Assumptions C14_dict_and_labelled_array_agree.

Theorem C14_sampleset_form_values :
  forall K sortl s i v,
    In v (labels s) ->
    row_value (fst (as_samples_sset (sort_columns K sortl s))) (nth i (snd (as_samples_sset (sort_columns K sortl s))) []) v
    = row_value (labels s) (nth i (map vals (rws s)) []) v.
Proof. exact sset_form_values. Qed.
Print Assumptions C14_sampleset_form_values.

(* ---- from_samples(sort_labels) ---- *)
Theorem C14_sorted_labels_sorted :
  forall K ls, sortable K ls = true ->
    Permutation (sorted_labels K true ls) ls
    /\ StronglySorted (fun a b => (snd (lkey K a) <= snd (lkey K b))%nat) (sorted_labels K true ls).
Proof. exact sorted_labels_sorted. Qed.
Print Assumptions C14_sorted_labels_sorted.

Theorem C14_sorted_labels_unsortable : forall K sortl ls, sortable K ls = false -> sorted_labels K sortl ls = ls.
Proof. exact sorted_labels_unsortable. Qed.
Print Assumptions C14_sorted_labels_unsortable.

Theorem C14_sort_columns_unsortable_id :
  forall K sortl s,
    sortable K (labels s) = false -> NoDup (labels s) ->
    (forall r, In r (rws s) -> length (vals r) = length (labels s)) ->
    sort_columns K sortl s = s.
Proof. exact sort_columns_unsortable_id. Qed.
Print Assumptions C14_sort_columns_unsortable_id.

(* ---- code shape of the sorted selections: record[np.argsort(key)[selector]] and first ---- *)
(* for EVERY admissible outcome of np.argsort (any kind) *)
Theorem C14_slice_sorted_code_spec :
  forall (key : row -> Qc) rows order idx,
    argsort_contract (map key rows) order ->
    NoDup idx -> Forall (fun i => (i < length rows)%nat) idx ->
    map key (slice_sorted_code order idx rows) = map (fun i => nth i (qsort (map key rows)) 0) idx
    /\ exists rest, Permutation (slice_sorted_code order idx rows ++ rest) rows.
Proof. exact slice_sorted_code_spec. Qed.
Print Assumptions C14_slice_sorted_code_spec.

Theorem C14_first_code_spec :
  forall rows order,
    argsort_contract (map en rows) order -> rows <> [] ->
    exists r, first_code order rows = Some r /\ In r rows /\ forall r', In r' rows -> (en r <= en r')%Qc.
Proof. exact first_code_spec. Qed.
Print Assumptions C14_first_code_spec.

(* the mirrored np.argsort(kind='stable') meets the contract, and selecting through it is the stable
   insertion sort of the rows (the deterministic replay model slice_stable) *)
Theorem C14_argsort_stable_contract : forall keys, argsort_contract keys (argsort_stable keys).
Proof. exact argsort_stable_contract. Qed.
Print Assumptions C14_argsort_stable_contract.

Theorem C14_argsort_stable_is_rsort :
  forall (key : row -> Qc) rows, select rows (argsort_stable (map key rows)) = rsort key rows.
Proof. exact argsort_stable_is_rsort. Qed.
Print Assumptions C14_argsort_stable_is_rsort.

Theorem C14_slice_stable_is_code_shape :
  forall k a b c s, c <> Some 0%Z ->
    rws (slice_stable k a b c s)
    = slice_sorted_code (argsort_stable (map (key_of k) (rws s))) (slice_indices (length (rws s)) a b c) (rws s).
Proof. exact slice_stable_is_code_shape. Qed.
Print Assumptions C14_slice_stable_is_code_shape.

(* what the check accepts as an observed argsort is an admissible argsort *)
Theorem C14_argsort_ok_b_sound :
  forall keys order, argsort_ok_b keys order = true -> argsort_contract keys order.
Proof. exact argsort_ok_b_sound. Qed.
Print Assumptions C14_argsort_ok_b_sound.

(* ---- future-backed sample sets as a state machine over (receiver, returned handle) ---- *)
Theorem C14_deferred_returned_eq_resolved :
  forall K base c d d1 ret s0,
    dstep K base c d = Some (d1, ret) -> dresolve K base d = Some s0 ->
    dresolve K base ret = match apply K (dcall_op c) s0 with Ok s' => Some s' | Fail _ => None end.
Proof. exact dstep_returned_eq. Qed.
Print Assumptions C14_deferred_returned_eq_resolved.

Theorem C14_deferred_receiver_not_inplace :
  forall K base c d d1 ret,
    dcall_inplace c = false -> dstep K base c d = Some (d1, ret) -> dresolve K base d1 = dresolve K base d.
Proof. exact dstep_receiver_not_inplace. Qed.
Print Assumptions C14_deferred_receiver_not_inplace.

Theorem C14_deferred_receiver_inplace :
  forall K base c d d1 ret,
    dcall_inplace c = true -> dstep K base c d = Some (d1, ret) ->
    (forall hooks v off, ~ (d = DPending hooks /\ c = DChangeVt v off true)) ->
    dresolve K base d1 = dresolve K base ret.
Proof. exact dstep_receiver_inplace. Qed.
Print Assumptions C14_deferred_receiver_inplace.

(* OPEN FINDING C14-deferred-inplace: the excluded case above really fails in the faithful model *)
Theorem C14_deferred_inplace_change_vartype_receiver_refuted :
  exists K base v off d1 ret,
    dstep K base (DChangeVt v off true) (DPending []) = Some (d1, ret)
    /\ dresolve K base d1 <> dresolve K base ret.
Proof. exact deferred_inplace_change_vartype_receiver_refuted. Qed.
Print Assumptions C14_deferred_inplace_change_vartype_receiver_refuted.

(* ---- as_samples without dtype: the narrowing rule of _sample_array (candidate list GENERATED from the source) ---- *)
Theorem C14_narrow_represents :
  forall vals w, narrow vals = Some w -> forall v, In v vals -> (iinfo_min w <= v <= iinfo_max w)%Z.
Proof. exact narrow_represents. Qed.
Print Assumptions C14_narrow_represents.

Theorem C14_narrow_first :
  forall vals w, narrow vals = Some w ->
    exists before after, gen_narrow_candidates = before ++ w :: after
                         /\ forall w', In w' before -> (iinfo_max w' < magnitude vals)%Z.
Proof. exact narrow_first. Qed.
Print Assumptions C14_narrow_first.

Theorem C14_narrow_value_error_iff :
  forall cands vals, narrow_in cands vals = None <-> forall w, In w cands -> (iinfo_max w < magnitude vals)%Z.
Proof. exact narrow_in_none. Qed.
Print Assumptions C14_narrow_value_error_iff.

Theorem C14_narrow_candidates_increasing : gen_narrow_candidates = [8; 16; 32; 64]%nat.
Proof. exact narrow_candidates_increasing. Qed.
Print Assumptions C14_narrow_candidates_increasing.

(* ---- future-backed sample sets on a heap with shared records (Model/Alias.v) ---- *)
(* SampleSet.resolve() of any object, in a history without change_vartype, leaves every readable sample set as it is *)
Theorem C14_alias_resolve_keeps_every_readable_set : forall fuel h i h' ok j s,
  AliasFacts.no_chvt h -> AliasFacts.ordered h -> AliasFacts.wf h ->
  Alias.aresolve fuel h i = (h', ok) -> Alias.view h j = Some s -> Alias.view h' j = Some s.
Proof. exact AliasFacts.resolve_keeps_views. Qed.
Print Assumptions C14_alias_resolve_keeps_every_readable_set.

(* one relabel_variables call (receiver resolved, done-but-unread or pending; in place or not): no readable sample
   set's rows / vartype / info / data vectors change, and only the receiver of an in-place call changes labels *)
Theorem C14_alias_relabel_call_frame : forall h i m b offf h' ret,
  AliasFacts.good h -> Alias.acall h i (DRelabel m b) offf = (h', ret) ->
  AliasFacts.good h' /\ AliasFacts.kept h h' (if b then Some i else None).
Proof. exact AliasFacts.relabel_call_frame. Qed.
Print Assumptions C14_alias_relabel_call_frame.

(* any history of from_future / set_result / relabel_variables / reads, of any length *)
Theorem C14_alias_relabel_history_frame : forall l h, AliasFacts.good h -> forallb Alias.is_relabel_ev l = true ->
  AliasFacts.good (AliasFacts.arun h l) /\
  forall j s, Alias.view h j = Some s ->
    exists s', Alias.view (AliasFacts.arun h l) j = Some s' /\ rws s' = rws s /\ vt s' = vt s /\ info s' = info s
               /\ fields s' = fields s /\ (AliasFacts.never_receiver j l -> labels s' = labels s).
Proof. exact AliasFacts.relabel_history_frame. Qed.
Print Assumptions C14_alias_relabel_history_frame.

(* the future's own result object is never altered by relabelling sample sets built from the future *)
Theorem C14_alias_future_result_never_altered_by_relabel : forall s ei sn l,
  forallb Alias.is_relabel_ev l = true -> AliasFacts.never_receiver 0 l ->
  Alias.view (AliasFacts.arun Alias.aempty (Alias.ENewObj s ei sn :: l)) 0 = Some s.
Proof. exact AliasFacts.future_result_never_altered_by_relabel. Qed.
Print Assumptions C14_alias_future_result_never_altered_by_relabel.

(* last clause of the property on the heap model: relabel_variables(inplace=True) issued any number of times on an
   unresolved from_future sample set gives, once resolved, exactly what the same relabels give on the future's result
   (`resolve` of Model/SSet.v, the DeferCase reading), raising exactly when they raise *)
Theorem C14_alias_pending_relabels_resolve_like_resolved : forall K fuel h i b post r ls v inf,
  Alias.futdone h = true ->
  nth_error (Alias.objs h) i = Some (Alias.APending (Alias.HResult b) post) ->
  nth_error (Alias.objs h) b = Some (Alias.AResolved r ls v inf) ->
  let base := mkSS ls v (Alias.crows (Alias.get_cell h r)) inf (Alias.cfields (Alias.get_cell h r)) in
  match resolve K (map ORelabel post) base with
  | Some s => exists h', Alias.aresolve (S fuel) h i = (h', true) /\ Alias.view h' i = Some s
  | None => exists h', Alias.aresolve (S fuel) h i = (h', false)
  end.
Proof. exact AliasFacts.pending_relabels_resolve_like_resolved. Qed.
Print Assumptions C14_alias_pending_relabels_resolve_like_resolved.

(* ... and the same for the wrapper returned by relabel_variables(inplace=False) on an unresolved receiver *)
Theorem C14_alias_pending_wrapper_resolves_like_resolved : forall K fuel h j i m post h1 r ls v inf,
  nth_error (Alias.objs h) j = Some (Alias.APending (Alias.HWrapRelabel i m) post) ->
  Alias.aresolve fuel h i = (h1, true) ->
  nth_error (Alias.objs h1) i = Some (Alias.AResolved r ls v inf) ->
  nth_error (Alias.objs h1) j = Some (Alias.APending (Alias.HWrapRelabel i m) post) ->
  let recv := mkSS ls v (Alias.crows (Alias.get_cell h1 r)) inf (Alias.cfields (Alias.get_cell h1 r)) in
  match resolve K (ORelabel m :: map ORelabel post) recv with
  | Some s => exists h', Alias.aresolve (S fuel) h j = (h', true) /\ Alias.view h' j = Some s
  | None => exists h', Alias.aresolve (S fuel) h j = (h', false)
  end.
Proof. exact AliasFacts.pending_wrapper_resolves_like_resolved. Qed.
Print Assumptions C14_alias_pending_wrapper_resolves_like_resolved.

(* as the code is, the relabel frame does NOT extend to change_vartype: converting a from_future sample set in place
   rewrites the samples of the future's own result object (its vartype tag stays) - witness on the faithful model *)
Theorem C14_alias_future_result_kept_under_change_vartype_refuted :
  exists s l, Alias.view (AliasFacts.arun Alias.aempty (Alias.ENewObj s false false :: l)) 0 <> Some s
              /\ forall e, In e l -> Alias.ev_receiver e <> Some 0%nat.
Proof. exact AliasFacts.future_result_altered_by_inplace_change_vartype_witness. Qed.
Print Assumptions C14_alias_future_result_kept_under_change_vartype_refuted.

(* the hook variants the heap model implements are the ones found in the source (generated, fail-closed) *)
Theorem C14_alias_hook_constants_match_source :
  Gen_Hooks.gen_relabel_composed_hook_inplace = Alias.model_relabel_composed_hook_inplace
  /\ Gen_Hooks.gen_relabel_wrapper_hook_inplace = Alias.model_relabel_wrapper_hook_inplace
  /\ Gen_Hooks.gen_change_vartype_wrapper_hook_inplace = Alias.model_change_vartype_wrapper_hook_inplace
  /\ Gen_Hooks.gen_resolve_shares_record = Alias.model_resolve_shares_record
  /\ Gen_Hooks.gen_copy_copies_record = Alias.model_copy_copies_record
  /\ Gen_Hooks.gen_relabel_pending_copies_mapping = Alias.model_relabel_pending_copies_mapping
  /\ Gen_Hooks.gen_relabel_inplace_default = true /\ Gen_Hooks.gen_change_vartype_inplace_default = true.
Proof. exact AliasGenFacts.hook_constants_match_source. Qed.
Print Assumptions C14_alias_hook_constants_match_source.

(* SampleSet.data(sorted_by, reverse=True, index=True): exactly the stable sorted rows, reversed *)
Theorem C14_data_reverse_rows : forall (key : row -> Qc) rows,
  select rows (rev (argsort_stable (map key rows))) = rev (rsort key rows).
Proof. exact SSetReads.data_reverse_rows. Qed.
Print Assumptions C14_data_reverse_rows.

(* concatenate over DIFFERENT data vectors (defaults= given or not): whole rows move *)
Theorem C14_concat_other_vectors_first_rows_kept : forall others defs s r,
  concat_d others defs s = Some r ->
  labels r = labels s /\ vt r = vt s
  /\ firstn (length (rws s)) (rws r) = map (refield (fields r) defs (fields s)) (rws s)
  /\ fields r = union_fields (fields s) (map fields others).
Proof. exact SSetReads.concat_d_first_rows_kept. Qed.
Print Assumptions C14_concat_other_vectors_first_rows_kept.

Theorem C14_concat_other_vectors_refield_keeps_row : forall res defs fs r,
  vals (refield res defs fs r) = vals r /\ en (refield res defs fs r) = en r
  /\ oc (refield res defs fs r) = oc r /\ tag (refield res defs fs r) = tag r.
Proof. exact SSetReads.refield_keeps. Qed.
Print Assumptions C14_concat_other_vectors_refield_keeps_row.

Theorem C14_concat_other_vectors_row_count : forall others defs s r,
  concat_d others defs s = Some r ->
  length (rws r) = (length (rws s) + fold_right (fun o acc => length (rws o) + acc) 0 others)%nat.
Proof. exact SSetReads.concat_d_row_count. Qed.
Print Assumptions C14_concat_other_vectors_row_count.

(* the hypotheses are satisfiable on non-trivial data *)
Example C14_aggregate_example :
  map (fun r => (tag r, oc r)) (aggregate_rows
    [mkRow [1; 0] 0 2%Z 0 []; mkRow [0; 0] 1 1%Z 1 []; mkRow [1; 0] 0 3%Z 2 []; mkRow [0; 0] 1 1%Z 3 []])
  = [(0%nat, 5%Z); (1%nat, 2%Z)].
Proof. vm_compute. reflexivity. Qed.

Example C14_aggregate_np_example :
  map (fun r => (tag r, oc r)) (aggregate_np
    [mkRow [1; 0] 0 2%Z 0 []; mkRow [0; 0] 1 1%Z 1 []; mkRow [1; 0] 0 3%Z 2 []; mkRow [0; 1] 1 1%Z 3 []; mkRow [0; 0] 1 4%Z 4 []])
  = [(0%nat, 5%Z); (1%nat, 5%Z); (3%nat, 1%Z)].
Proof. vm_compute. reflexivity. Qed.

Example C14_slice_example :
  slice_indices 10 (Some 3%Z) (Some (-3)%Z) (Some 2%Z) = [3; 5]%nat /\ slice_indices 5 None None (Some (-2)%Z) = [4; 2; 0]%nat.
Proof. vm_compute. split; reflexivity. Qed.
