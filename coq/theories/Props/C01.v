(* C01 - Energy is the value of the model's own polynomial at the sample. *)
From Coq Require Import List ZArith QArith Qcanon Bool Arith.
From Dimod Require Import Base.Util Model.Poly Model.HPoly Model.Samples
  Proofs.PolyFacts Proofs.HPolyFacts Proofs.SamplesFacts.
From Dimod Require Model.Adj Proofs.AdjEnergy.
Import ListNotations.
Open Scope Qc_scope.

(* what `energies` returns, when it returns, is offset + sum lin*value + sum quad*value*value
   over the labelled row, for every row *)
Theorem C01_energies_value :
  forall p vars ls rows es,
    energies p vars ls rows = Some es -> es = map (fun row => energy p (row_sample ls row)) rows.
Proof. exact energies_value. Qed.
Print Assumptions C01_energies_value.

(* rejected exactly when the sample omits one of the model's variables *)
Theorem C01_missing_variable_rejected :
  forall p vars ls rows,
    energies p vars ls rows = None <-> exists v, In v vars /\ ~ In v ls.
Proof. exact energies_rejects_iff. Qed.
Print Assumptions C01_missing_variable_rejected.

(* column order and extra columns are irrelevant: only the model's variables matter *)
Theorem C01_energy_depends_on_model_variables_only :
  forall p vars s s',
    mentions_only p vars -> (forall v, In v vars -> s v = s' v) -> energy p s = energy p s'.
Proof. exact energy_depends_on_vars. Qed.
Print Assumptions C01_energy_depends_on_model_variables_only.

(* list of dicts in different key orders: the re-ordered row assigns every label the
   value the original dict gave it, for every permutation of the key order *)
Theorem C01_reordered_row_same_assignment :
  forall first ls row v,
    In v first -> row_value first (reindex_row first ls row) v = row_value ls row v.
Proof. exact reindex_row_value. Qed.
Print Assumptions C01_reordered_row_same_assignment.

Theorem C01_reordered_row_same_energy :
  forall p first ls row,
    mentions_only p first ->
    energy p (row_sample first (reindex_row first ls row)) = energy p (row_sample ls row).
Proof. exact energy_reindexed_row. Qed.
Print Assumptions C01_reordered_row_same_energy.

(* degenerate shapes: a variable-free expression evaluates to its offset *)
Theorem C01_constant_only : forall c s, energy (mkPoly c [] []) s = c.
Proof. exact energy_constant. Qed.
Print Assumptions C01_constant_only.

(* self interactions: on a sample in the variable's domain a folded x*x (binary),
   s*s (spin) and a true square (integer/real) all contribute b * v * v *)
Theorem C01_self_interaction :
  forall vt u v b p s, respects vt s ->
    energy (add_quadratic vt u v b p) s = energy p s + b * s u * s v.
Proof. exact energy_add_quadratic. Qed.
Print Assumptions C01_self_interaction.

(* an expression evaluates on the sub-sample in its own variable order: relabelling
   through an index map composes with the sample *)
Theorem C01_expression_subsample :
  forall f p s, energy (relabel f p) s = energy p (fun v => s (f v)).
Proof. exact energy_relabel. Qed.
Print Assumptions C01_expression_subsample.

(* DQM: out of range cases (negative included) are rejected, otherwise the energy
   is the polynomial over (variable, case) indicators *)
Theorem C01_dqm_bad_case_rejected :
  forall p stride ncases row v n c,
    In (v, n) ncases -> find (fun vc => (fst vc =? v)%nat) row = Some (v, c) ->
    (c < 0 \/ Z.of_nat n <= c)%Z -> dqm_energy p stride ncases row = None.
Proof. exact dqm_rejects_bad_case. Qed.
Print Assumptions C01_dqm_bad_case_rejected.

Theorem C01_dqm_energy_value :
  forall p stride ncases row e,
    dqm_energy p stride ncases row = Some e -> e = energy p (dqm_sample stride row).
Proof. exact dqm_energy_value. Qed.
Print Assumptions C01_dqm_energy_value.

(* the code's evaluation loop (abc.h energy: per variable, walk the sorted neighbourhood
   and break at the first index above the variable) computes the polynomial value *)
Theorem C01_lower_triangle_walk :
  forall (m : Adj.qm) (s : nat -> Qc),
    Adj.Inv m -> Adj.energy_adj m s = energy (Adj.abs m) s.
Proof. exact AdjEnergy.energy_adj_abs. Qed.
Print Assumptions C01_lower_triangle_walk.

(* non-vacuity *)
Example C01_example_3cycle :
  as_samples_dicts [([0;1;2]%nat, [qc 0 1; qc 1 1; qc 2 1]); ([1;2;0]%nat, [qc 1 1; qc 2 1; qc 0 1])]
  = Some ([0;1;2]%nat, [[qc 0 1; qc 1 1; qc 2 1]; [qc 0 1; qc 1 1; qc 2 1]]).
Proof. vm_compute. reflexivity. Qed.

Example C01_example_energy :
  energies (mkPoly (qc 1 2) [(0%nat, qc 2 1)] [(0%nat, 0%nat, qc 3 1); (0%nat, 1%nat, qc 5 1)])
           [0;1]%nat [1;0]%nat [[qc 3 1; qc 2 1]] = Some [qc 93 2].
Proof. vm_compute. reflexivity. Qed.
