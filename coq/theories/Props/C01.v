(* C01 - Energy is the value of the model's own polynomial at the sample. *)
From Coq Require Import List ZArith QArith Qcanon Bool Arith.
From Dimod Require Import Base.Util Model.Poly Model.HPoly Model.Samples
  Proofs.PolyFacts Proofs.HPolyFacts Proofs.SamplesFacts.
From Dimod Require Model.Adj Model.Expr Proofs.AdjEnergy Model.EnergyCy Proofs.EnergyCyFacts.
From Dimod Require Model.DqmLoop Proofs.DqmLoopFacts Model.HPolyLoop Proofs.HPolyLoopFacts Model.PyBqm Proofs.PyBqmFacts.
From Dimod Require Gen.Gen_View Model.ViewOps Proofs.ViewOpsFacts.
From Dimod Require Gen.Gen_AsSamples Model.AsSamples Proofs.AsSamplesFacts.
From Dimod Require Gen.Gen_LoopShapes.
Import ListNotations.
Open Scope Qc_scope.

(* what `energies` returns, when it returns, is offset + sum lin*value + sum quad*value*value
   over the labelled row, for every row *)
Theorem C01_energies_value :
  forall p vars ls rows es,
    energies p vars ls rows = Some es -> es = map (fun row => energy p (row_sample ls row)) rows.
Proof. exact energies_value. Qed.
Print Assumptions C01_energies_value.

(* rejected exactly when the sample omits one of the model's variables *)
Theorem C01_missing_variable_rejected :
  forall p vars ls rows,
    energies p vars ls rows = None <-> exists v, In v vars /\ ~ In v ls.
Proof. exact energies_rejects_iff. Qed.
Print Assumptions C01_missing_variable_rejected.

(* column order and extra columns are irrelevant: only the model's variables matter *)
Theorem C01_energy_depends_on_model_variables_only :
  forall p vars s s',
    mentions_only p vars -> (forall v, In v vars -> s v = s' v) -> energy p s = energy p s'.
Proof. exact energy_depends_on_vars. Qed.
Print Assumptions C01_energy_depends_on_model_variables_only.

(* list of dicts in different key orders: the re-ordered row assigns every label the
   value the original dict gave it, for every permutation of the key order *)
Theorem C01_reordered_row_same_assignment :
  forall first ls row v,
    In v first -> row_value first (reindex_row first ls row) v = row_value ls row v.
Proof. exact reindex_row_value. Qed.
Print Assumptions C01_reordered_row_same_assignment.

Theorem C01_reordered_row_same_energy :
  forall p first ls row,
    mentions_only p first ->
    energy p (row_sample first (reindex_row first ls row)) = energy p (row_sample ls row).
Proof. exact energy_reindexed_row. Qed.
Print Assumptions C01_reordered_row_same_energy.

(* degenerate shapes: a variable-free expression evaluates to its offset *)
Theorem C01_constant_only : forall c s, energy (mkPoly c [] []) s = c.
Proof. exact energy_constant. Qed.
Print Assumptions C01_constant_only.

(* self interactions: on a sample in the variable's domain a folded x*x (binary),
   s*s (spin) and a true square (integer/real) all contribute b * v * v *)
Theorem C01_self_interaction :
  forall vt u v b p s, respects vt s ->
    energy (add_quadratic vt u v b p) s = energy p s + b * s u * s v.
Proof. exact energy_add_quadratic. Qed.
Print Assumptions C01_self_interaction.

(* an expression evaluates on the sub-sample in its own variable order: relabelling
   through an index map composes with the sample *)
Theorem C01_expression_subsample :
  forall f p s, energy (relabel f p) s = energy p (fun v => s (f v)).
Proof. exact energy_relabel. Qed.
Print Assumptions C01_expression_subsample.

(* DQM: out of range cases (negative included) are rejected, otherwise the energy
   is the polynomial over (variable, case) indicators *)
Theorem C01_dqm_bad_case_rejected :
  forall p stride ncases row v n c,
    In (v, n) ncases -> find (fun vc => (fst vc =? v)%nat) row = Some (v, c) ->
    (c < 0 \/ Z.of_nat n <= c)%Z -> dqm_energy p stride ncases row = None.
Proof. exact dqm_rejects_bad_case. Qed.
Print Assumptions C01_dqm_bad_case_rejected.

Theorem C01_dqm_energy_value :
  forall p stride ncases row e,
    dqm_energy p stride ncases row = Some e -> e = energy p (dqm_sample stride row).
Proof. exact dqm_energy_value. Qed.
Print Assumptions C01_dqm_energy_value.

(* the code's evaluation loop (abc.h energy: per variable, walk the sorted neighbourhood
   and break at the first index above the variable) computes the polynomial value *)
Theorem C01_lower_triangle_walk :
  forall (m : Adj.qm) (s : nat -> Qc),
    Adj.Inv m -> Adj.energy_adj m s = energy (Adj.abs m) s.
Proof. exact AdjEnergy.energy_adj_abs. Qed.
Print Assumptions C01_lower_triangle_walk.

(* ---------- code-shaped evaluation loops (deepening round) ---------- *)

(* the accumulator loop of cyQMBase._energies / abc.h energy (en += ..., break at index > u) *)
Theorem C01_energy_loop_is_polynomial :
  forall (m : Adj.qm) (val : nat -> Qc),
    Adj.Inv m -> EnergyCy.energy_loop m val = energy (Adj.abs m) val.
Proof. exact EnergyCyFacts.energy_loop_abs. Qed.
Print Assumptions C01_energy_loop_is_polynomial.

(* cyqmbase_template.pyx.pxi:_energies - the sample matrix re-indexed through the label list
   (qm_to_sample[vi] = labels.index(variables.at(vi))) and the walk run per row - is the
   polynomial-level `energies` of the object's polynomial over labels: same values, and
   rejected exactly when a model label is missing *)
Theorem C01_energies_cy_eq_spec :
  forall (m : Adj.qm) (vars ls : list label) (rows : list (list Qc)),
    Adj.Inv m -> length vars = Adj.nvars m ->
    EnergyCy.energies_cy m vars ls rows = energies (EnergyCy.qm_poly_labels m vars) vars ls rows.
Proof. exact EnergyCyFacts.energies_cy_eq_spec. Qed.
Print Assumptions C01_energies_cy_eq_spec.

(* any label list containing every model label (any order, extra labels allowed): the result is
   energy (abs m) at the row read through the labels *)
Theorem C01_energies_cy_value :
  forall (m : Adj.qm) (vars ls : list label) (rows : list (list Qc)),
    Adj.Inv m -> length vars = Adj.nvars m -> (forall v, In v vars -> In v ls) ->
    EnergyCy.energies_cy m vars ls rows =
    Some (map (fun row => energy (Adj.abs m) (fun i => row_value ls row (nth i vars 0%nat))) rows).
Proof. exact EnergyCyFacts.energies_cy_value. Qed.
Print Assumptions C01_energies_cy_value.

Theorem C01_energies_cy_rejects_iff :
  forall (m : Adj.qm) (vars ls : list label) (rows : list (list Qc)),
    Adj.Inv m -> length vars = Adj.nvars m ->
    (EnergyCy.energies_cy m vars ls rows = None <-> exists v, In v vars /\ ~ In v ls).
Proof. exact EnergyCyFacts.energies_cy_rejects_iff. Qed.
Print Assumptions C01_energies_cy_rejects_iff.

Theorem C01_qm_polynomial_mentions_own_labels :
  forall (m : Adj.qm) (vars : list label),
    Adj.Inv m -> length vars = Adj.nvars m -> mentions_only (EnergyCy.qm_poly_labels m vars) vars.
Proof. exact EnergyCyFacts.qm_poly_labels_mentions. Qed.
Print Assumptions C01_qm_polynomial_mentions_own_labels.

(* expression.h Expression::energy: sub-sample in the expression's own variables_ order, then the base walk *)
Theorem C01_expression_energy :
  forall (e : EnergyCy.xexpr) (s : nat -> Qc),
    EnergyCyFacts.xexpr_wf e -> EnergyCy.xexpr_energy e s = energy (EnergyCy.xexpr_poly e) s.
Proof. exact EnergyCyFacts.xexpr_energy_eq. Qed.
Print Assumptions C01_expression_energy.

(* cyexpression.pyx:_energies (reindex through parent labels, sub-sample, zero-variable branch) *)
Theorem C01_expression_energies_cy_eq_spec :
  forall (e : EnergyCy.xexpr) (pvars ls : list label) (rows : list (list Qc)),
    EnergyCyFacts.xexpr_wf e ->
    EnergyCy.xexpr_energies_cy e pvars ls rows =
    energies (EnergyCy.xexpr_poly_labels e pvars) (EnergyCy.xexpr_labels e pvars) ls rows.
Proof. exact EnergyCyFacts.xexpr_energies_cy_eq_spec. Qed.
Print Assumptions C01_expression_energies_cy_eq_spec.

(* a variable-free expression returns its offset for every row (the repaired zero-variable branch) *)
Theorem C01_expression_constant_only :
  forall (e : EnergyCy.xexpr) (pvars ls : list label) (rows : list (list Qc)),
    EnergyCyFacts.xexpr_wf e -> EnergyCy.x_vars e = [] ->
    EnergyCy.xexpr_energies_cy e pvars ls rows = Some (map (fun _ => Adj.off (EnergyCy.x_base e)) rows).
Proof. exact EnergyCyFacts.xexpr_energies_cy_constant. Qed.
Print Assumptions C01_expression_constant_only.

(* tie to the expression model of Model/Expr.v (the one the CQM refinement is proved on) *)
Theorem C01_expression_energy_is_abs_expr :
  forall (x : EnergyCy.xexpr) (e : Expr.mexpr) (s : nat -> Qc),
    EnergyCyFacts.xexpr_wf x -> EnergyCy.x_vars x = Expr.e_vars e ->
    length (Expr.e_lin e) = length (Expr.e_vars e) ->
    (forall t, energy (Adj.abs (EnergyCy.x_base x)) t = energy (EnergyCy.local_poly e) t) ->
    EnergyCy.xexpr_energy x s = energy (Expr.abs_expr e) s.
Proof. exact EnergyCyFacts.xexpr_energy_eq_abs_expr. Qed.
Print Assumptions C01_expression_energy_is_abs_expr.

(* cydiscrete_quadratic_model.pyx:energies - per variable u: case range check, linear(case_starts[u]+case),
   walk of the variable adjacency for v <= u adding quadratic(cu, cv) - equals the case-level polynomial
   at the indicator sample, and raises exactly on an out-of-range case (or a wrong row width) *)
Theorem C01_dqm_loop_row_eq_poly :
  forall (d : DqmLoop.dqm) (row : list Z),
    DqmLoopFacts.dqm_wf d -> DqmLoopFacts.row_ok d row ->
    DqmLoop.dqm_loop_row d row = Some (energy (Adj.abs (DqmLoop.d_bqm d)) (DqmLoop.ind d row)).
Proof. exact DqmLoopFacts.dqm_loop_row_eq_poly. Qed.
Print Assumptions C01_dqm_loop_row_eq_poly.

Theorem C01_dqm_loop_row_none_iff :
  forall (d : DqmLoop.dqm) (row : list Z),
    DqmLoop.dqm_loop_row d row = None <->
    length row <> DqmLoop.num_variables d \/
    exists u, (u < DqmLoop.num_variables d)%nat /\
              (DqmLoop.sample_at row u < 0 \/ Z.of_nat (DqmLoop.num_cases d u) <= DqmLoop.sample_at row u)%Z.
Proof. exact DqmLoopFacts.dqm_loop_row_none_iff. Qed.
Print Assumptions C01_dqm_loop_row_none_iff.

Theorem C01_dqm_loop_eq_poly :
  forall (d : DqmLoop.dqm) (rows : list (list Z)),
    DqmLoopFacts.dqm_wf d -> (forall row, In row rows -> DqmLoopFacts.row_ok d row) ->
    DqmLoop.dqm_loop d rows = Some (map (fun row => energy (Adj.abs (DqmLoop.d_bqm d)) (DqmLoop.ind d row)) rows).
Proof. exact DqmLoopFacts.dqm_loop_eq_poly. Qed.
Print Assumptions C01_dqm_loop_eq_poly.

Theorem C01_dqm_loop_none_iff :
  forall (d : DqmLoop.dqm) (rows : list (list Z)),
    DqmLoop.dqm_loop d rows = None <-> exists row, In row rows /\ DqmLoop.dqm_loop_row d row = None.
Proof. exact DqmLoopFacts.dqm_loop_none_iff. Qed.
Print Assumptions C01_dqm_loop_none_iff.

(* the loop is the existing specification Samples.dqm_energy (polynomial over (variable, case) indicators
   coded variable*stride+case), rejection included *)
Theorem C01_dqm_loop_row_eq_samples_spec :
  forall (d : DqmLoop.dqm) (stride : nat) (row : list Z),
    DqmLoopFacts.dqm_wf d -> length row = DqmLoop.num_variables d ->
    (forall u, (u < DqmLoop.num_variables d)%nat -> (DqmLoop.num_cases d u <= stride)%nat) ->
    DqmLoop.dqm_loop_row d row =
    dqm_energy (relabel (DqmLoop.code d stride) (Adj.abs (DqmLoop.d_bqm d))) stride (DqmLoop.ncases_list d)
               (combine (seq 0 (DqmLoop.num_variables d)) row).
Proof. exact DqmLoopFacts.dqm_loop_row_eq_samples_spec. Qed.
Print Assumptions C01_dqm_loop_row_eq_samples_spec.

(* the python wrapper discrete_quadratic_model.py:energies (int32 check, reordering through the labels) *)
Theorem C01_dqm_energies_eq_poly :
  forall (vars : list label) (d : DqmLoop.dqm) (ls : list label) (rows : list (list Z)),
    DqmLoopFacts.dqm_wf d -> NoDup ls -> length vars = DqmLoop.num_variables d -> length ls = DqmLoop.num_variables d ->
    (forall row, In row rows -> length row = length ls) ->
    forallb (forallb DqmLoop.int32_ok) rows = true ->
    (forall v, In v vars -> In v ls) ->
    (forall row, In row rows -> DqmLoopFacts.row_ok d (DqmLoop.reorder_row vars ls row)) ->
    DqmLoop.dqm_energies vars d ls rows =
    Some (map (fun row => energy (Adj.abs (DqmLoop.d_bqm d)) (DqmLoop.ind d (DqmLoop.reorder_row vars ls row))) rows).
Proof. exact DqmLoopFacts.dqm_energies_eq_poly. Qed.
Print Assumptions C01_dqm_energies_eq_poly.

(* the executable well-formedness test the check evaluates on the observed state implies the hypothesis *)
Theorem C01_dqm_wf_b_sound : forall d, DqmLoop.dqm_wf_b d = true -> DqmLoopFacts.dqm_wf d.
Proof. exact DqmLoopFacts.dqm_wf_b_sound. Qed.
Print Assumptions C01_dqm_wf_b_sound.

(* higherorder/polynomial.py:BinaryPolynomial.energies (product over each term's columns) = HPoly.henergy *)
Theorem C01_poly_energies_loop_eq_spec :
  forall (p : hpoly) (ls : list label) (rows : list (list Qc)),
    (forall t v, In t p -> In v (fst t) -> In v ls) ->
    HPolyLoop.hp_energies p ls rows = Some (map (fun row => henergy p (row_sample ls row)) rows).
Proof. exact HPolyLoopFacts.hp_energies_eq_spec. Qed.
Print Assumptions C01_poly_energies_loop_eq_spec.

Theorem C01_poly_energies_loop_none_iff :
  forall (p : hpoly) (ls : list label) (rows : list (list Qc)),
    HPolyLoop.hp_energies p ls rows = None <-> exists t v, In t p /\ In v (fst t) /\ ~ In v ls.
Proof. exact HPolyLoopFacts.hp_energies_none_iff. Qed.
Print Assumptions C01_poly_energies_loop_none_iff.

(* pybqm.py pyBQM.energies (dict back-end: dot products over the linear entries and over iter_quadratic,
   each interaction counted once) is the polynomial-level `energies` of the polynomial the object reports *)
Theorem C01_pybqm_energies_eq_spec :
  forall (m : PyBqm.pybqm) (ls : list label) (rows : list (list Qc)),
    PyBqmFacts.pb_wf m -> NoDup ls ->
    PyBqm.pb_energies m ls rows = energies (PyBqm.pb_abs m) (PyBqm.pb_vars m) ls rows.
Proof. exact PyBqmFacts.pb_energies_eq_spec. Qed.
Print Assumptions C01_pybqm_energies_eq_spec.

Theorem C01_pybqm_wfb_sound : forall m, PyBqm.pb_wfb m = true -> PyBqmFacts.pb_wf m.
Proof. exact PyBqmFacts.pb_wfb_sound. Qed.
Print Assumptions C01_pybqm_wfb_sound.

(* ---------- vartypeview.py VartypeView.energies: the sample conversion (generated steps, exact floor division)
   followed by the base evaluation is the energy of the polynomial the view reports ---------- *)
Theorem C01_view_energies_loop :
  forall (d : Gen_View.vdir) (base : poly) (y : nat -> Qc),
  (forall v : nat, ViewOpsFacts.in_view_domain d (y v)) ->
  ViewOps.view_energy d base y = energy (ViewOps.view_poly d base) y.
Proof. exact ViewOpsFacts.view_energies_spec. Qed.
Print Assumptions C01_view_energies_loop.

Theorem C01_view_sample_conversion :
  forall (d : Gen_View.vdir) (x : Qc),
  ViewOpsFacts.in_view_domain d x -> ViewOps.view_sample_value d x = ViewOps.base_value d x.
Proof. exact ViewOpsFacts.view_sample_value_spec. Qed.
Print Assumptions C01_view_sample_conversion.


(* ---------- sampleset.py as_samples: the samples_like normalisation as the code runs it (singledispatch branches and the
   five handlers; dispatch facts generated fail-closed by translators/as_samples_dispatch.py). Every accepted form yields the
   intended value table; all forms of one assignment table agree; energies do not depend on the form ---------- *)
Theorem C01_as_samples_table :
  forall (il : nat -> nat) (s : AsSamples.slike) (rows : list (list Qc)) (labels : list nat),
  AsSamples.as_samples il s = Some (rows, labels) ->
  length rows = length (AsSamples.spec_rows il s) /\
  Forall (fun r : list Qc => length r = length labels) rows /\
  (forall i v : nat,
   (i < length rows)%nat ->
   In v labels ->
   AsSamples.table_of (rows, labels) v i = AsSamples.assoc_value (nth i (AsSamples.spec_rows il s) []) v).
Proof. exact AsSamplesFacts.as_samples_table. Qed.
Print Assumptions C01_as_samples_table.

Theorem C01_as_samples_full_shape :
  forall (il : nat -> nat) (s : AsSamples.slike) (a : AsSamples.arr) (labels : list nat),
  AsSamples.as_samples_full il s = AsSamples.Ok (a, labels) -> AsSamples.arr_ncols a = length labels.
Proof. exact AsSamplesFacts.as_samples_full_shape. Qed.
Print Assumptions C01_as_samples_full_shape.

Theorem C01_as_samples_forms_agree :
  forall (il : nat -> nat) (L : list nat) (R : list (list Qc)),
  NoDup L ->
  Forall (fun r : list Qc => length r = length L) R ->
  (forall ms : list (list (nat * Qc)),
   Forall2 (fun (m : list (nat * Qc)) (r : list Qc) => Permutation.Permutation m (combine L r)) ms R ->
   (exists o : list (list Qc) * list nat,
      AsSamples.as_samples il (AsSamples.SList (map AsSamples.SMap ms)) = Some o /\
      AsSamplesFacts.table_agrees o L R) /\
   (exists o : list (list Qc) * list nat,
      AsSamples.as_samples il (AsSamples.SIter (map AsSamples.SMap ms)) = Some o /\
      AsSamplesFacts.table_agrees o L R)) /\
  (forall L' : list nat,
   (forall v : nat, In v L -> In v L') ->
   (exists o : list (list Qc) * list nat,
      AsSamples.as_samples il
        (AsSamples.STup (AsSamples.TFArr (AsSamples.A2 (length L') (map (reindex_row L' L) R))) L') =
      Some o /\ AsSamplesFacts.table_agrees o L R) /\
   (exists o : list (list Qc) * list nat,
      AsSamples.as_samples il (AsSamples.SSet L' (map (reindex_row L' L) R)) = Some o /\
      AsSamplesFacts.table_agrees o L R)) /\
  (forall (r : list Qc) (m : list (nat * Qc)),
   R = [r] ->
   Permutation.Permutation m (combine L r) ->
   (exists o : list (list Qc) * list nat,
      AsSamples.as_samples il (AsSamples.SMap m) = Some o /\ AsSamplesFacts.table_agrees o L R) /\
   (forall L' : list nat,
    NoDup L' ->
    (forall v : nat, In v L <-> In v L') ->
    exists o : list (list Qc) * list nat,
      AsSamples.as_samples il (AsSamples.STup (AsSamples.TFMap m) L') = Some o /\
      AsSamplesFacts.table_agrees o L R)).
Proof. exact AsSamplesFacts.as_samples_forms_agree. Qed.
Print Assumptions C01_as_samples_forms_agree.

Theorem C01_energies_cy_as_samples_form_independent :
  forall (il : nat -> nat) (m : Adj.qm) (vars : list nat) (s1 s2 : AsSamples.slike)
    (R1 : list (list Qc)) (L1 : list nat) (R2 : list (list Qc)) (L2 : list nat),
  Adj.Inv m ->
  length vars = Adj.nvars m ->
  AsSamples.as_samples il s1 = Some (R1, L1) ->
  AsSamples.as_samples il s2 = Some (R2, L2) ->
  (forall v : nat, In v vars -> In v L1) ->
  (forall v : nat, In v vars -> In v L2) ->
  Forall2 (fun r1 r2 : list Qc => forall v : nat, In v vars -> row_value L1 r1 v = row_value L2 r2 v) R1
    R2 -> EnergyCy.energies_cy m vars L1 R1 = EnergyCy.energies_cy m vars L2 R2.
Proof. exact AsSamplesFacts.energies_cy_as_samples_form_independent. Qed.
Print Assumptions C01_energies_cy_as_samples_form_independent.

Theorem C01_energies_cy_as_samples_forms :
  forall (il : nat -> nat) (m : Adj.qm) (vars L : list nat) (R : list (list Qc))
    (s1 s2 : AsSamples.slike) (o1 o2 : list (list Qc) * list nat),
  Adj.Inv m ->
  length vars = Adj.nvars m ->
  (forall v : nat, In v vars -> In v L) ->
  AsSamples.as_samples il s1 = Some o1 ->
  AsSamples.as_samples il s2 = Some o2 ->
  (forall v : nat, In v L -> In v (snd o1)) ->
  (forall v : nat, In v L -> In v (snd o2)) ->
  AsSamplesFacts.table_agrees o1 L R ->
  AsSamplesFacts.table_agrees o2 L R ->
  EnergyCy.energies_cy m vars (snd o1) (fst o1) = EnergyCy.energies_cy m vars (snd o2) (fst o2).
Proof. exact AsSamplesFacts.energies_cy_forms. Qed.
Print Assumptions C01_energies_cy_as_samples_forms.

Theorem C01_as_samples_list_of_dicts_none_iff :
  forall (il : nat -> nat) (m1 : list (nat * Qc)) (ms : list (list (nat * Qc))),
  AsSamples.as_samples il (AsSamples.SList (map AsSamples.SMap (m1 :: ms))) = None <->
  (exists m : list (nat * Qc), In m ms /\ ~ (forall v : nat, In v (map fst m) <-> In v (map fst m1))).
Proof. exact AsSamplesFacts.as_samples_list_of_dicts_none_iff. Qed.
Print Assumptions C01_as_samples_list_of_dicts_none_iff.

Theorem C01_as_samples_tuple_none_iff :
  forall (il : nat -> nat) (w : nat) (rows : list (list Qc)) (labels : list nat),
  rows <> [] ->
  w <> 0%nat ->
  Forall (fun r : list Qc => length r = w) rows ->
  (AsSamples.as_samples il (AsSamples.STup (AsSamples.TFArr (AsSamples.A2 w rows)) labels) = None <->
   length labels <> w) /\
  (length labels <> w ->
   AsSamples.as_samples_full il (AsSamples.STup (AsSamples.TFArr (AsSamples.A2 w rows)) labels) =
   AsSamples.Err AsSamples.ValueError).
Proof. exact AsSamplesFacts.as_samples_tuple_none_iff. Qed.
Print Assumptions C01_as_samples_tuple_none_iff.

Theorem C01_as_samples_deprecated_form :
  forall (il : nat -> nat) (kv : list (nat * Qc)) (L' : list nat),
  NoDup L' ->
  (forall v : nat, In v L' -> In v (map fst kv)) ->
  AsSamples.as_samples_full il (AsSamples.STup (AsSamples.TFMap kv) L') =
  AsSamples.Ok (length L', [map (AsSamples.assoc_value kv) L'], L').
Proof. exact AsSamplesFacts.as_samples_deprecated. Qed.
Print Assumptions C01_as_samples_deprecated_form.

Theorem C01_as_samples_deprecated_none_iff :
  forall (il : nat -> nat) (kv : list (nat * Qc)) (labels : list nat),
  NoDup labels ->
  AsSamples.as_samples il (AsSamples.STup (AsSamples.TFMap kv) labels) = None <->
  (exists v : nat, In v labels /\ ~ In v (map fst kv)).
Proof. exact AsSamplesFacts.as_samples_deprecated_none_iff. Qed.
Print Assumptions C01_as_samples_deprecated_none_iff.


(* non-vacuity *)
Example C01_example_3cycle :
  as_samples_dicts [([0;1;2]%nat, [qc 0 1; qc 1 1; qc 2 1]); ([1;2;0]%nat, [qc 1 1; qc 2 1; qc 0 1])]
  = Some ([0;1;2]%nat, [[qc 0 1; qc 1 1; qc 2 1]; [qc 0 1; qc 1 1; qc 2 1]]).
Proof. vm_compute. reflexivity. Qed.

Example C01_example_energy :
  energies (mkPoly (qc 1 2) [(0%nat, qc 2 1)] [(0%nat, 0%nat, qc 3 1); (0%nat, 1%nat, qc 5 1)])
           [0;1]%nat [1;0]%nat [[qc 3 1; qc 2 1]] = Some [qc 93 2].
Proof. vm_compute. reflexivity. Qed.

Example C01_example_cy_loop :
  EnergyCy.energies_cy
    (Adj.mkQM [qc 2 1; qc 0 1] [[(0%nat, qc 3 1); (1%nat, qc 5 1)]; [(0%nat, qc 5 1)]] (qc 1 2) [INTEGER; INTEGER])
    [7; 9]%nat [9; 4; 7]%nat [[qc 2 1; qc 100 1; qc 3 1]] = Some [qc 127 2].
Proof. vm_compute. reflexivity. Qed.

(* the loops the code-shaped models mirror are textually the ones the models were proved against
   (translators/loop_shapes.py fails, and with it this build, as soon as one of them is edited) *)
Example C01_mirrored_loops_pinned : length Gen_LoopShapes.gen_pinned_loops = 15%nat.
Proof. reflexivity. Qed.
