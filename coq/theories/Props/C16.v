(* C16 - constraint-to-penalty conversions penalise exactly the violating assignments.
   Only statements; every proof is `exact <lemma>`; examples by computation. *)
From Coq Require Import List ZArith QArith Qcanon Bool Arith Sorted.
From Dimod Require Import Base.Util Model.Poly Model.Comb Model.Penalty Model.CqmBqm Model.ChkC16
  Proofs.PolyFacts Proofs.CombFacts Proofs.PenaltyEq Proofs.PenaltySlack Proofs.CqmBqmFacts Proofs.ChkC16Facts Proofs.PenaltyLog10 Model.DqmAdj Proofs.DqmAdjFacts Proofs.PenaltyGen Proofs.PenaltyDqmCz Proofs.QmToBqmFacts
  Model.Log10 Model.DqmIneqGen Proofs.DqmIneqGenFacts.
Import ListNotations.

(* ================================================================== *)
(* (1) equality: the expansion adds exactly lam * (sum a x + c)^2 *)

(* native back-ends (cybqm_template.pyx.pxi), repeated labels in `terms` allowed *)
Theorem C16_equality_penalty_exact_native :
  forall (vt : vartype) (terms : list lterm) (lam c : Qc) (p : poly) (s : sample),
    vt = BINARY \/ vt = SPIN -> respects (cvt vt) s ->
    energy (add_eq_cy vt terms lam c p) s
    = (energy p s + lam * ((lin_sum terms s + c) * (lin_sum terms s + c)))%Qc.
Proof. exact add_eq_cy_exact. Qed.
Print Assumptions C16_equality_penalty_exact_native.

(* python fallback (object dtype, .spin/.binary views) as repaired in c3cb487: positions on the
   diagonal, two terms over one variable folded per vartype; repeated labels allowed *)
Theorem C16_equality_penalty_exact_fallback :
  forall (vt : vartype) (terms : list lterm) (lam c : Qc) (p : poly) (s : sample),
    vt = BINARY \/ vt = SPIN -> respects (cvt vt) s ->
    energy (add_eq_py vt terms lam c p) s
    = (energy p s + lam * ((lin_sum terms s + c) * (lin_sum terms s + c)))%Qc.
Proof. exact add_eq_py_exact. Qed.
Print Assumptions C16_equality_penalty_exact_fallback.

(* DQM (cydiscrete_quadratic_model.pyx), on one-hot case-level samples, duplicate cases allowed *)
Theorem C16_equality_penalty_exact_dqm :
  forall (grp : label -> nat) (terms : list lterm) (lam c : Qc) (p : poly) (s : sample),
    onehot_sample grp s ->
    energy (add_eq_dqm grp terms lam c p) s
    = (energy p s + lam * ((lin_sum terms s + c) * (lin_sum terms s + c)))%Qc.
Proof. exact add_eq_dqm_exact. Qed.
Print Assumptions C16_equality_penalty_exact_dqm.

(* ================================================================== *)
(* (2) slack coefficients and the four outcomes of add_linear_inequality_constraint (0/1 variables) *)

Theorem C16_slack_coeffs_positive_sum :
  forall U : Z, (0 < U)%Z ->
    Forall (fun c => (0 < c)%Z) (slack_coeffs U) /\
    dot (slack_coeffs U) (repeat true (length (slack_coeffs U))) = U.
Proof. exact slack_coeffs_positive_sum. Qed.
Print Assumptions C16_slack_coeffs_positive_sum.

Theorem C16_slack_coeffs_exact :
  forall U : Z, (0 < U)%Z ->
    forall t, (exists bits, length bits = length (slack_coeffs U) /\ dot (slack_coeffs U) bits = t)
              <-> (0 <= t <= U)%Z.
Proof. exact slack_coeffs_exact. Qed.
Print Assumptions C16_slack_coeffs_exact.

Theorem C16_slack_coeffs_cover :
  forall U : Z, (0 < U)%Z ->
    forall t, (0 <= t <= U)%Z ->
      length (slack_bits U t) = length (slack_coeffs U) /\
      dot (slack_coeffs U) (slack_bits U t) = t.
Proof. exact slack_coeffs_cover. Qed.
Print Assumptions C16_slack_coeffs_cover.

Theorem C16_binary_encoding_facts :
  forall ub : Z, (2 <= ub)%Z ->
    binary_encoding_coeffs ub = slack_coeffs ub /\
    Forall (fun c => (0 < c)%Z) (binary_encoding_coeffs ub) /\
    dot (binary_encoding_coeffs ub) (repeat true (length (binary_encoding_coeffs ub))) = ub /\
    (forall bits, length bits = length (binary_encoding_coeffs ub) ->
                  (0 <= dot (binary_encoding_coeffs ub) bits <= ub)%Z) /\
    (forall t, (0 <= t <= ub)%Z ->
       exists bits, length bits = length (binary_encoding_coeffs ub) /\
                    dot (binary_encoding_coeffs ub) bits = t).
Proof. exact binary_encoding_facts. Qed.
Print Assumptions C16_binary_encoding_facts.

(* penalty = lam * ineq_penalty by the equality theorem applied to terms ++ slack terms, constant -ubc *)
Theorem C16_inequality_penalty_gap :
  forall (a : list Z) (const lb ub : Z) (x : list bool),
    length x = length a ->
    let A := dot a x in
    let feasible := (lb <= A + const <= ub)%Z in
    (sum_neg a <= A <= sum_pos a)%Z /\
    match plan_inequality a const lb ub with
    | Skip => feasible
    | Infeasible => ~ feasible
    | Equality ubc => feasible <-> A = ubc
    | Slack ubc cs =>
        (feasible -> exists s, length s = length cs /\ ineq_penalty a x cs s ubc = 0%Z) /\
        (~ feasible -> forall s, length s = length cs -> (1 <= ineq_penalty a x cs s ubc)%Z) /\
        (forall s, (0 <= ineq_penalty a x cs s ubc)%Z)
    end.
Proof. exact plan_inequality_sound. Qed.
Print Assumptions C16_inequality_penalty_gap.

(* cross_zero=True (BQM): one more slack bit of weight lb_c when lb_c > 0; what the objective then admits *)
Theorem C16_cross_zero_gap :
  forall (a : list Z) (const lb ub : Z) (x : list bool) (ubc : Z) (cs : list Z),
    length x = length a -> (0 < lbc_of a const lb)%Z ->
    plan_inequality_cz true a const lb ub = Slack ubc cs ->
    let A := dot a x in
    let allowed := ((lb <= A + const <= ub) \/ (0 <= A <= ubc - lbc_of a const lb))%Z in
    (allowed -> exists s, length s = length cs /\ ineq_penalty a x cs s ubc = 0%Z) /\
    (~ allowed -> forall s, length s = length cs -> (1 <= ineq_penalty a x cs s ubc)%Z).
Proof. exact cross_zero_plan_sound. Qed.
Print Assumptions C16_cross_zero_gap.

Theorem C16_cross_zero_inactive :
  forall (a : list Z) (const lb ub : Z),
    plan_inequality_cz false a const lb ub = plan_inequality a const lb ub /\
    ((lbc_of a const lb <= 0)%Z -> plan_inequality_cz true a const lb ub = plan_inequality a const lb ub).
Proof. exact (fun a const lb ub => conj (plan_inequality_cz_off a const lb ub) (plan_inequality_cz_nonpositive a const lb ub)). Qed.
Print Assumptions C16_cross_zero_inactive.

(* the docstring says cross_zero "adds zero to the domain"; it admits all of 0..ub_c-lb_c:
   [1; 7], 5 <= sum <= 8: sum = 1 gets penalty 0 *)
Theorem C16_cross_zero_admits_only_zero_refuted :
  exists (a : list Z) (const lb ub : Z) (x : list bool) (ubc : Z) (cs : list Z) (s : list bool),
    length x = length a /\
    plan_inequality_cz true a const lb ub = Slack ubc cs /\ length s = length cs /\
    ~ (lb <= dot a x + const <= ub)%Z /\ dot a x <> 0%Z /\
    ineq_penalty a x cs s ubc = 0%Z.
Proof. exact cross_zero_admits_only_zero_refuted. Qed.
Print Assumptions C16_cross_zero_admits_only_zero_refuted.

(* penalization_method='unbalanced': exactly lam0 * sum - ub_c + lam1 * (sum - ub_c)^2 is added (no gap claim) *)
Theorem C16_unbalanced_adds_exactly :
  forall (py : bool) (vt : vartype) (terms : list lterm) (lam0 lam1 ubc : Qc) (p : poly) (s : sample),
    vt = BINARY \/ vt = SPIN -> respects (cvt vt) s ->
    energy (add_unbalanced py vt terms lam0 lam1 ubc p) s
    = (energy p s + lam0 * lin_sum terms s - ubc
       + lam1 * ((lin_sum terms s - ubc) * (lin_sum terms s - ubc)))%Qc.
Proof. exact add_unbalanced_exact. Qed.
Print Assumptions C16_unbalanced_adds_exactly.

(* the decision of add_linear_inequality_constraint written ONLY with the rules generated from the source
   (Gen/Gen_Penalty.v: bounds, always-feasible test, refusal, equality shortcut, 2**j coefficients, guarded
   remainder, cross_zero bit) is the plan the theorems above are about *)
Theorem C16_generated_plan_is_plan :
  forall (cz : bool) (a : list Z) (const lb ub : Z),
    plan_inequality_g cz a const lb ub = plan_inequality_cz cz a const lb ub.
Proof. exact plan_inequality_g_eq. Qed.
Print Assumptions C16_generated_plan_is_plan.

Theorem C16_generated_plan_plain :
  forall (a : list Z) (const lb ub : Z), plan_inequality_g false a const lb ub = plan_inequality a const lb ub.
Proof. exact plan_inequality_g_plain. Qed.
Print Assumptions C16_generated_plan_plain.

(* DQM.add_linear_inequality_constraint, the Python side, written ONLY with the rules generated from
   discrete_quadratic_model.py (Gen/Gen_DqmIneq.v: bound tightening, always-feasible test, refusal, equality
   shortcut and its constant, cross_zero test, the cases of every slack variable for log2 / log10 / linear):
   the same decision as plan_inequality and the slack variables dqm_slack_values_cz the DQM theorems are about *)
Theorem C16_dqm_generated_plan_is_plan :
  forall (m : slack_method) (cz : bool) (a : list Z) (const lb ub : Z),
    plan_dqm_inequality_g m cz a const lb ub
    = match plan_inequality a const lb ub with
      | Skip => DSkip
      | Infeasible => DInfeasible
      | Equality ubc => DEquality (- ubc)
      | Slack ubc _ =>
          DSlack (- ubc)
            (dqm_slack_values_cz m (Z.min (sum_pos a) (ub - const) - Z.max (sum_neg a) (lb - const)) ubc
               (dqm_cz_active cz (lbc_of a const lb) ubc))
      end.
Proof. exact plan_dqm_inequality_g_eq. Qed.
Print Assumptions C16_dqm_generated_plan_is_plan.

Theorem C16_dqm_generated_slack_values :
  forall (m : slack_method) (U ubc : Z) (zero : bool), (0 < U)%Z ->
    dqm_slack_values_g m U ubc zero = dqm_slack_values_cz m U ubc zero.
Proof. exact dqm_slack_values_g_eq. Qed.
Print Assumptions C16_dqm_generated_slack_values.

(* list(range(start, stop, step))[1:] as a general range (Model/DqmIneqGen.zrange_tail): with a span of at most ten
   steps - the log10 digit ranges - it has the at most nine elements the DQM log10 theorems enumerate *)
Theorem C16_range_tail_at_most_nine :
  forall start stop step : Z, (0 < step)%Z -> (stop - start <= 10 * step)%Z ->
    zrange_tail start stop step
    = filter (fun v => (v <? stop)%Z) (map (fun k => (start + Z.of_nat k * step)%Z) (seq 1 9)).
Proof. exact zrange_tail_nine. Qed.
Print Assumptions C16_range_tail_at_most_nine.

(* int(np.ceil(np.log10(n))) as modelled: the least d with n <= 10^d *)
Theorem C16_ceil_log10_spec :
  forall n : Z, (2 <= n)%Z ->
    exists d, ceil_log10 n = S d /\ (10 ^ Z.of_nat d < n <= 10 ^ Z.of_nat (S d))%Z.
Proof. exact ceil_log10_spec. Qed.
Print Assumptions C16_ceil_log10_spec.

Theorem C16_generated_slack_coeffs :
  forall U : Z, (0 < U)%Z -> slack_coeffs_g U = slack_coeffs U.
Proof. exact slack_coeffs_g_eq. Qed.
Print Assumptions C16_generated_slack_coeffs.

(* ================================================================== *)
(* (3) DQM slack variants *)

Theorem C16_dqm_log2_gap :
  forall U A ubc : Z, (0 < U)%Z ->
    ((ubc - U <= A <= ubc)%Z ->
       exists sl, In sl (choice_sums (dqm_slack_values Log2 U)) /\ pen_val A sl ubc = 0%Z) /\
    (~ (ubc - U <= A <= ubc)%Z ->
       forall sl, In sl (choice_sums (dqm_slack_values Log2 U)) -> (1 <= pen_val A sl ubc)%Z) /\
    (forall sl, (0 <= pen_val A sl ubc)%Z).
Proof. exact dqm_log2_gap. Qed.
Print Assumptions C16_dqm_log2_gap.

Theorem C16_dqm_linear_gap :
  forall U A ubc : Z, (0 < U)%Z ->
    ((ubc - U <= A <= ubc)%Z ->
       exists sl, In sl (choice_sums (dqm_slack_values Linear U)) /\ pen_val A sl ubc = 0%Z) /\
    (~ (ubc - U <= A <= ubc)%Z ->
       forall sl, In sl (choice_sums (dqm_slack_values Linear U)) -> (1 <= pen_val A sl ubc)%Z) /\
    (forall sl, (0 <= pen_val A sl ubc)%Z).
Proof. exact dqm_linear_gap. Qed.
Print Assumptions C16_dqm_linear_gap.

Theorem C16_dqm_log2_values_exact :
  forall U : Z, (0 < U)%Z -> forall t, In t (choice_sums (dqm_log2_values U)) <-> (0 <= t <= U)%Z.
Proof. exact dqm_log2_exact. Qed.
Print Assumptions C16_dqm_log2_values_exact.

Theorem C16_dqm_linear_values_exact :
  forall U : Z, (0 <= U)%Z -> forall t, In t (choice_sums (dqm_linear_values U)) <-> (0 <= t <= U)%Z.
Proof. exact dqm_linear_exact. Qed.
Print Assumptions C16_dqm_linear_values_exact.

(* at the level of DQM samples (one case per variable): the bounds computed as if the cases were independent
   0/1 variables stay sound, and the log2 / linear slack variables give the gap *)
Theorem C16_dqm_inequality_gap :
  forall (m : slack_method) (terms : list dterm) (const lb ub : Z) (sel : nat -> nat),
    m <> Log10 ->
    let a := map snd terms in
    let A := dqm_sum terms sel in
    let feasible := (lb <= A + const <= ub)%Z in
    (sum_neg a <= A <= sum_pos a)%Z /\
    match plan_inequality a const lb ub with
    | Skip => feasible
    | Infeasible => ~ feasible
    | Equality ubc => feasible <-> A = ubc
    | Slack ubc _ =>
        let U := (ubc - lbc_of a const lb)%Z in
        (feasible -> exists sl, In sl (choice_sums (dqm_slack_values m U)) /\ pen_val A sl ubc = 0%Z) /\
        (~ feasible -> forall sl, In sl (choice_sums (dqm_slack_values m U)) -> (1 <= pen_val A sl ubc)%Z)
    end.
Proof. exact dqm_inequality_gap. Qed.
Print Assumptions C16_dqm_inequality_gap.

(* DQM cross_zero=True (zero_constraint = lb_c > 0 or ub_c < 0): what the objective then admits.
   log2: one more two-case variable worth ub_c -> additionally -U <= sum <= 0 *)
Theorem C16_dqm_cross_zero_log2 :
  forall U A ubc : Z, (0 < U)%Z ->
    let vals := dqm_slack_values_cz Log2 U ubc true in
    let allowed := ((ubc - U <= A <= ubc) \/ (- U <= A <= 0))%Z in
    (allowed -> exists sl, In sl (choice_sums vals) /\ pen_val A sl ubc = 0%Z) /\
    (~ allowed -> forall sl, In sl (choice_sums vals) -> (1 <= pen_val A sl ubc)%Z).
Proof. exact dqm_cz_log2_gap. Qed.
Print Assumptions C16_dqm_cross_zero_log2.

(* linear: one more case worth ub_c -> additionally exactly sum = 0 *)
Theorem C16_dqm_cross_zero_linear :
  forall U A ubc : Z, (0 < U)%Z ->
    let vals := dqm_slack_values_cz Linear U ubc true in
    let allowed := ((ubc - U <= A <= ubc) \/ A = 0)%Z in
    (allowed -> exists sl, In sl (choice_sums vals) /\ pen_val A sl ubc = 0%Z) /\
    (~ allowed -> forall sl, In sl (choice_sums vals) -> (1 <= pen_val A sl ubc)%Z).
Proof. exact dqm_cz_linear_gap. Qed.
Print Assumptions C16_dqm_cross_zero_linear.

(* log10: the last digit variable gets one more case worth ub_c -> additionally -(10^(digits-1) - 1) <= sum <= 0 *)
Theorem C16_dqm_cross_zero_log10 :
  forall U A ubc : Z, (1 <= U)%Z ->
    let p := (10 ^ Z.of_nat (pred (ndigits (Z.to_nat U) U)))%Z in
    let vals := dqm_slack_values_cz Log10 U ubc true in
    let allowed := ((ubc - log10_top U <= A <= ubc) \/ (- (p - 1) <= A <= 0))%Z in
    (allowed -> exists sl, In sl (choice_sums vals) /\ pen_val A sl ubc = 0%Z) /\
    (~ allowed -> forall sl, In sl (choice_sums vals) -> (1 <= pen_val A sl ubc)%Z).
Proof. exact dqm_cz_log10_gap. Qed.
Print Assumptions C16_dqm_cross_zero_log10.

(* log10: a violating assignment whose penalty vanishes (terms [-4; 15], 0 <= sum <= 15, slack 19) *)
Theorem C16_dqm_log10_gap_refuted :
  exists (a : list Z) (const lb ub : Z) (x : list bool) (ubc U sl : Z),
    length x = length a /\
    plan_inequality a const lb ub = Slack ubc (slack_coeffs U) /\
    ~ (lb <= dot a x + const <= ub)%Z /\
    In sl (choice_sums (dqm_slack_values Log10 U)) /\
    pen_val (dot a x) sl ubc = 0%Z.
Proof. exact dqm_log10_gap_refuted. Qed.
Print Assumptions C16_dqm_log10_gap_refuted.

(* log10, for every U >= 1: the encoding reaches exactly 0 .. log10_top U, where
   log10_top U = (leading digit of U + 1) * 10^(digits - 1) - 1 >= U *)
Theorem C16_dqm_log10_reach :
  forall U : Z, (1 <= U)%Z ->
    forall t, In t (choice_sums (dqm_log10_values U)) <-> (0 <= t <= log10_top U)%Z.
Proof. exact dqm_log10_reach. Qed.
Print Assumptions C16_dqm_log10_reach.

Theorem C16_dqm_log10_covers :
  forall U : Z, (1 <= U)%Z -> forall t, (0 <= t <= U)%Z -> In t (choice_sums (dqm_log10_values U)).
Proof. exact dqm_log10_covers. Qed.
Print Assumptions C16_dqm_log10_covers.

(* it is exact precisely when every digit of U below the leading one is 9 (9, 19, 299, 99, ...) *)
Theorem C16_dqm_log10_exact_iff :
  forall U : Z, (1 <= U)%Z ->
    (log10_top U = U <-> ((U + 1) mod 10 ^ Z.of_nat (pred (ndigits (Z.to_nat U) U)) = 0)%Z).
Proof. exact log10_top_eq_iff. Qed.
Print Assumptions C16_dqm_log10_exact_iff.

Theorem C16_dqm_log10_gap_when_exact :
  forall U A ubc : Z, (1 <= U)%Z -> log10_top U = U ->
    ((ubc - U <= A <= ubc)%Z ->
       exists sl, In sl (choice_sums (dqm_slack_values Log10 U)) /\ pen_val A sl ubc = 0%Z) /\
    (~ (ubc - U <= A <= ubc)%Z ->
       forall sl, In sl (choice_sums (dqm_slack_values Log10 U)) -> (1 <= pen_val A sl ubc)%Z) /\
    (forall sl, (0 <= pen_val A sl ubc)%Z).
Proof. exact dqm_log10_gap_when_exact. Qed.
Print Assumptions C16_dqm_log10_gap_when_exact.

(* and in every other case the gap fails: the sum ubc - log10_top U lies below lb_c and costs nothing *)
Theorem C16_dqm_log10_overcover_breaks_gap :
  forall U ubc : Z, (1 <= U)%Z -> (U < log10_top U)%Z ->
    exists A sl, ~ (ubc - U <= A <= ubc)%Z /\
                 In sl (choice_sums (dqm_slack_values Log10 U)) /\ pen_val A sl ubc = 0%Z.
Proof. exact dqm_log10_overcover_breaks_gap. Qed.
Print Assumptions C16_dqm_log10_overcover_breaks_gap.

(* ================================================================== *)
(* (3b) the native adjacency bookkeeping of cyDQM.add_linear_equality_constraint (Model/DqmAdj.v):
   the sorted merge loop computes the union ... *)
Theorem C16_dqm_merge_loop_is_union :
  forall (v : nat) (vars adj : list nat) (x : nat),
    In x (merge_adj v vars adj) <-> In x adj \/ (In x vars /\ x <> v).
Proof. exact merge_adj_In. Qed.
Print Assumptions C16_dqm_merge_loop_is_union.

Theorem C16_dqm_merge_loop_sorted :
  forall (v : nat) (vars adj : list nat),
    StronglySorted lt vars -> StronglySorted lt adj -> StronglySorted lt (merge_adj v vars adj).
Proof. exact merge_adj_sorted. Qed.
Print Assumptions C16_dqm_merge_loop_sorted.

(* ... so after the call two variables are adjacent iff they were, or both occur in the constraint *)
Theorem C16_dqm_adjacency_spec :
  forall (grp : label -> nat) (terms : list lterm) (adjs : list (list nat)),
    (forall t, In t terms -> (grp (fst t) < length adjs)%nat) ->
    forall i j,
      In j (nth i (dqm_eq_adjacency grp terms adjs) [])
      <-> In j (nth i adjs []) \/ (i <> j /\ con_var grp terms i /\ con_var grp terms j).
Proof. exact dqm_eq_adjacency_spec. Qed.
Print Assumptions C16_dqm_adjacency_spec.

(* what DQM.energies relies on: every case-level interaction of the expanded polynomial is recorded in
   both adjacency lists (the statement the seeded change r3m3 broke) *)
Theorem C16_dqm_adjacency_covers_expansion :
  forall (grp : label -> nat) (terms : list lterm) (lam c : Qc) (p : poly) (adjs : list (list nat)),
    (forall t, In t terms -> (grp (fst t) < length adjs)%nat) ->
    adj_covers grp adjs (p_quad p) ->
    adj_covers grp (dqm_eq_adjacency grp terms adjs) (p_quad (add_eq_dqm grp terms lam c p)).
Proof. exact dqm_eq_adjacency_covers. Qed.
Print Assumptions C16_dqm_adjacency_covers_expansion.

Theorem C16_dqm_adjacency_invariants :
  forall (grp : label -> nat) (terms : list lterm) (adjs : list (list nat)),
    (forall t, In t terms -> (grp (fst t) < length adjs)%nat) ->
    adj_sym adjs -> adj_irrefl adjs -> (forall i, StronglySorted lt (nth i adjs [])) ->
    adj_sym (dqm_eq_adjacency grp terms adjs) /\ adj_irrefl (dqm_eq_adjacency grp terms adjs) /\
    (forall i, StronglySorted lt (nth i (dqm_eq_adjacency grp terms adjs) [])) /\
    length (dqm_eq_adjacency grp terms adjs) = length adjs.
Proof. exact dqm_eq_adjacency_invariants. Qed.
Print Assumptions C16_dqm_adjacency_invariants.

(* ================================================================== *)
(* (4) cqm_to_bqm *)

(* _qm_to_bqm: the BQM energy of a 0/1 sample is the QM energy of the inverter's image *)
Theorem C16_encoding_preserves_energy :
  forall (E : encoding) (p : poly) (s : sample),
    respects (cvt BINARY) s -> (forall v, p_quad (E v) = []) ->
    energy (encode_poly E p) s = energy p (invert E s).
Proof. exact encode_poly_energy. Qed.
Print Assumptions C16_encoding_preserves_energy.

Theorem C16_inverter_roundtrip :
  forall (k : cvar) (x : Z),
    in_domain k x -> (forall ub, k = CInt ub -> (2 <= ub)%Z) ->
    invert_var k (encode_var k x) = x.
Proof. exact invert_encode_var. Qed.
Print Assumptions C16_inverter_roundtrip.

Theorem C16_inverter_in_domain :
  forall (k : cvar) (bits : list bool),
    (forall ub, k = CInt ub -> (2 <= ub)%Z) ->
    length bits = match k with CInt ub => length (binary_encoding_coeffs ub) | _ => 1%nat end ->
    in_domain k (invert_var k bits).
Proof. exact invert_var_in_domain. Qed.
Print Assumptions C16_inverter_in_domain.

(* code-shaped _qm_to_bqm (spin_to_binary first, then the loop over variables and the four cases of the loop
   over interactions): on every 0/1 sample the BQM is the QM at the decoded sample ... *)
Theorem C16_qm_to_bqm_code_energy :
  forall (spins : list label) (ints : int_table) (p : poly) (s : sample),
    respects (cvt BINARY) s -> NoDup spins ->
    energy (qm_to_bqm_code spins ints p) s = energy p (decode spins ints s).
Proof. exact qm_to_bqm_code_energy. Qed.
Print Assumptions C16_qm_to_bqm_code_energy.

(* ... and agrees with the functional model (encode_poly over the same tables) *)
Theorem C16_qm_to_bqm_code_agrees :
  forall (spins : list label) (ints : int_table) (p : poly) (s : sample),
    respects (cvt BINARY) s -> NoDup spins ->
    (forall w, existsb (Nat.eqb w) spins = true -> find_int ints w = None) ->
    energy (qm_to_bqm_code spins ints p) s = energy (encode_poly (enc_table spins ints) p) s.
Proof. exact qm_to_bqm_code_agrees. Qed.
Print Assumptions C16_qm_to_bqm_code_agrees.

(* CQMToBQMInverter.__call__: every entry it returns is the decoded value *)
Theorem C16_inverter_call_entries :
  forall (binary : list (label * vartype)) (ints : int_table) (s : sample) (v : label) (x : Qc),
    In (v, x) (inverter_call binary ints s) ->
    (exists vt, In (v, vt) binary /\ x = match vt with SPIN => (two * s v - 1)%Qc | _ => s v end) \/
    (exists bits, In (v, bits) ints /\ x = lin_energy bits s).
Proof. exact inverter_call_entries. Qed.
Print Assumptions C16_inverter_call_entries.

(* the inverter maps BQM samples back: a sample whose bits of v are an encoding of x (here the greedy one) gives x *)
Theorem C16_inverter_recovers_integer :
  forall (ub x : Z) (bits : list lterm) (s : sample),
    (2 <= ub)%Z -> (0 <= x <= ub)%Z -> binary01 s ->
    map snd bits = map zq (binary_encoding_coeffs ub) ->
    bits_of s (map fst bits) = slack_bits ub x ->
    fold_left (fun a t => (a + s (fst t) * snd t)%Qc) bits 0%Qc = zq x.
Proof. exact inverter_recovers_integer. Qed.
Print Assumptions C16_inverter_recovers_integer.

Theorem C16_inverter_recovers_spin :
  forall (x : Qc) (s : sample) (v : label), s v = ((x + 1) * half)%Qc -> (two * s v - 1)%Qc = x.
Proof. exact inverter_recovers_spin. Qed.
Print Assumptions C16_inverter_recovers_spin.

(* the integer penalties of the substituted constraints (units of the multiplier) *)
Theorem C16_converted_constraints_penalty_gap :
  forall (ks : list zcon) (x : list bool),
    Forall zcon_accepted ks -> Forall (fun k => length x = length (zcon_coeffs k)) ks ->
    (Forall (fun k => zcon_feasible k x) ks ->
       exists ss, Forall2 (fun k s => length s = length (zcon_slack k)) ks ss /\ total_penalty ks x ss = 0%Z) /\
    (Exists (fun k => ~ zcon_feasible k x) ks ->
       forall ss, Forall2 (fun k s => length s = length (zcon_slack k)) ks ss -> (1 <= total_penalty ks x ss)%Z).
Proof. exact cqm_penalties_gap_partial. Qed.
Print Assumptions C16_converted_constraints_penalty_gap.

(* the assembled BQM (Model/CqmBqm.v: objective through _qm_to_bqm, then one penalty per constraint with
   its slack bits): for EVERY 0/1 sample  E_bqm(s) = objective(inverter(s)) + multiplier * sum of squared residuals *)
Theorem C16_cqm_to_bqm_energy :
  forall (E : encoding) (lam : Qc) (obj : poly) (cons : list ccon) (s : sample),
    respects (cvt BINARY) s -> (forall v, p_quad (E v) = []) ->
    energy (cqm_bqm E lam obj cons) s
    = (energy obj (invert E s) + lam * qsum (map (fun k => con_penalty_q E k s) cons))%Qc.
Proof. exact cqm_bqm_energy. Qed.
Print Assumptions C16_cqm_to_bqm_energy.

(* each squared residual is the integer penalty of the constraint's plan, read off the sample's bits *)
Theorem C16_cqm_to_bqm_residual_is_integer_penalty :
  forall (E : encoding) (k : ccon) (s : sample),
    con_wf E k = true -> binary01 s ->
    con_penalty_q E k s = zq (zcon_penalty (con_zcon E k) (xbits E k s) (sbits k s)).
Proof. exact con_penalty_q_eq. Qed.
Print Assumptions C16_cqm_to_bqm_residual_is_integer_penalty.

(* integer-coefficient linear constraints (con_wf), no refused constraint, multiplier > 0, slack labels
   pairwise distinct and unused by the encoding: every BQM sample costs at least the objective of its
   image, at least the multiplier more if the image violates a constraint, and if the image is feasible
   the slack bits can be reset so that the energy IS the objective (so the minimum over slack is attained there) *)
Theorem C16_cqm_to_bqm_gap :
  forall (E : encoding) (lam : Qc) (obj : poly) (cons : list ccon),
    cqm_wf E cons -> slack_separated E cons -> (0 < lam)%Qc ->
    forall s, binary01 s ->
      (energy obj (invert E s) <= energy (cqm_bqm E lam obj cons) s)%Qc /\
      (Exists (fun k => ~ con_satisfied_at k (invert E s)) cons ->
         (energy obj (invert E s) + lam <= energy (cqm_bqm E lam obj cons) s)%Qc) /\
      (Forall (fun k => con_satisfied_at k (invert E s)) cons ->
         exists s', binary01 s' /\
                    (forall v, ~ In v (slack_labels cons) -> s' v = s v) /\
                    (forall v, invert E s' v = invert E s v) /\
                    energy (cqm_bqm E lam obj cons) s' = energy obj (invert E s)).
Proof. exact cqm_bqm_gap. Qed.
Print Assumptions C16_cqm_to_bqm_gap.

(* the side condition the check evaluates implies the separation hypothesis *)
Theorem C16_separated_check_sound :
  forall (vars : list (label * cvar)) (tab : list (label * poly)) (ks : list ccon),
    separated_b vars (enc_of tab) ks = true ->
    (forall e, In e tab -> In (fst e) (map fst vars)) ->
    slack_separated (enc_of tab) ks.
Proof. exact separated_b_sound. Qed.
Print Assumptions C16_separated_check_sound.

(* ================================================================== *)
Example C16_ex_coeffs : slack_coeffs 10 = [1; 2; 4; 3]%Z.
Proof. vm_compute; reflexivity. Qed.
Example C16_ex_plan : plan_inequality [3; -2; 5]%Z 1 0 6 = Slack 5 [1; 2; 3]%Z.
Proof. vm_compute; reflexivity. Qed.
Example C16_ex_log10_15 : dqm_log10_values 15 = [[0; 1; 2; 3; 4; 5; 6; 7; 8; 9]; [0; 10]]%Z.
Proof. vm_compute; reflexivity. Qed.
Example C16_ex_log10_top : map log10_top [9; 15; 19; 99; 100; 299; 300]%Z = [9; 19; 19; 99; 199; 299; 399]%Z.
Proof. vm_compute; reflexivity. Qed.
Example C16_ex_merge : merge_adj 2%nat [1; 2; 3]%nat [0; 3; 5]%nat = [0; 1; 3; 5]%nat.
Proof. vm_compute; reflexivity. Qed.
Example C16_ex_log10_99 : length (choice_sums (dqm_log10_values 99)) = 100%nat.
Proof. vm_compute; reflexivity. Qed.
Example C16_ex_eq_fallback_repeated :
  Qc_eqb (energy (add_eq_py BINARY [(0%nat, two); (1%nat, qc 3 1); (0%nat, 1%Qc)] 1%Qc (- (1))%Qc pzero)
                 (sample_of_list [(0%nat, 1%Qc); (1%nat, 0%Qc)])) (qc 4 1) = true.
Proof. vm_compute; reflexivity. Qed.
Example C16_ex_eq_spin :
  Qc_eqb (energy (add_eq_cy SPIN [(0%nat, two); (1%nat, qc 3 1); (0%nat, 1%Qc)] 1%Qc (- (1))%Qc pzero)
                 (sample_of_list [(0%nat, 1%Qc); (1%nat, (- (1))%Qc)])) 1%Qc = true.
Proof. vm_compute; reflexivity. Qed.
