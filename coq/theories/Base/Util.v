(* Small shared utilities: the case-evaluation combinator used by the
   correspondence check, rational literals. *)
From Coq Require Import List ZArith QArith Qcanon Bool.
Import ListNotations.

Definition failing {A : Type} (f : A -> bool) (l : list A) : list nat :=
  map fst (filter (fun p => negb (f (snd p))) (combine (seq 0 (length l)) l)).

Definition qc (n : Z) (d : positive) : Qc := Q2Qc (n # d).

Definition Qc_eqb (a b : Qc) : bool := Qeq_bool a b.

Fixpoint list_eqb {A : Type} (eqb : A -> A -> bool) (l1 l2 : list A) : bool :=
  match l1, l2 with
  | [], [] => true
  | x :: xs, y :: ys => eqb x y && list_eqb eqb xs ys
  | _, _ => false
  end.

Definition option_eqb {A : Type} (eqb : A -> A -> bool) (a b : option A) : bool :=
  match a, b with
  | None, None => true
  | Some x, Some y => eqb x y
  | _, _ => false
  end.

Definition pair_eqb {A B : Type} (ea : A -> A -> bool) (eb : B -> B -> bool)
  (p q : A * B) : bool := ea (fst p) (fst q) && eb (snd p) (snd q).
