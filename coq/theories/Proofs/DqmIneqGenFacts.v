(* C16: the DQM inequality construction written with the rules generated from discrete_quadratic_model.py
   (plan_dqm_inequality_g) is the decision and the slack variables the check and the theorems use. *)
From Coq Require Import List ZArith Bool Arith Lia.
From Dimod Require Import Model.Comb Model.Penalty Model.Log10 Gen.Gen_DqmIneq Model.DqmIneqGen
  Proofs.CombFacts Proofs.PenaltyLog10.
Import ListNotations.
Local Open Scope Z_scope.

(* ceil(log10(n)) *)
Theorem ceil_log10_spec n : 2 <= n ->
  exists d, ceil_log10 n = S d /\ 10 ^ Z.of_nat d < n <= 10 ^ Z.of_nat (S d).
Proof.
  intros Hn. unfold ceil_log10. destruct (ndigits_U (n - 1)) as [d [Hd [Hlo Hhi]]]; [lia|].
  exists d. split; [exact Hd|lia].
Qed.

Lemma ceil_log10_succ U : ceil_log10 (U + 1) = ndigits (Z.to_nat U) U.
Proof. unfold ceil_log10. replace (U + 1 - 1) with U by lia. reflexivity. Qed.

Lemma dqm_log2_values_g_eq U ubc zero : 0 < U ->
  dqm_log2_values_g U ubc zero = dqm_log2_values U ++ (if zero then [[0; ubc]] else []).
Proof.
  intros HU. unfold dqm_log2_values_g, dqm_log2_values, slack_coeffs,
    gend_num_slack, gend_pow_coeff, gend_rest_guard, gend_rest_coeff, gend_log2_cz_value.
  pose proof (Z.log2_nonneg U) as Hn. pose proof (Z.log2_spec U HU) as [Hlo _].
  rewrite Z2Nat.id by exact Hn.
  destruct (Z.leb_spec 0 (U - 2 ^ Z.log2 U)) as [_|Hbad]; [|lia].
  reflexivity.
Qed.

Lemma filter_all_false {A} (f : A -> bool) l : (forall x, In x l -> f x = false) -> filter f l = [].
Proof.
  induction l as [|x r IH]; intros H; [reflexivity|]. cbn [filter].
  rewrite (H x (or_introl eq_refl)). apply IH. intros y Hy. apply H. right. exact Hy.
Qed.

(* a range whose span is at most ten steps has at most nine elements after the first *)
Lemma zrange_tail_nine start stop step :
  0 < step -> stop - start <= 10 * step ->
  zrange_tail start stop step
  = filter (fun v => v <? stop) (map (fun k => start + Z.of_nat k * step) (seq 1 9)).
Proof.
  intros Hs Hspan. unfold zrange_tail. set (n := Z.to_nat (stop - start)).
  set (g := fun k => start + Z.of_nat k * step).
  assert (Hout : forall a len, (forall k, In k (seq a len) -> stop <= g k) ->
                 filter (fun v => v <? stop) (map g (seq a len)) = []).
  { intros a len H. apply filter_all_false. intros v Hv. apply in_map_iff in Hv. destruct Hv as [k [<- Hk]].
    apply Z.ltb_ge. apply H. exact Hk. }
  destruct (Nat.le_gt_cases n 9) as [Hle|Hgt].
  - replace 9%nat with (n + (9 - n))%nat at 1 by lia. rewrite seq_app, map_app, filter_app.
    rewrite (Hout (1 + n)%nat (9 - n)%nat); [rewrite app_nil_r; reflexivity|].
    intros k Hk. apply in_seq in Hk. unfold g. subst n. nia.
  - replace n with (9 + (n - 9))%nat by lia. rewrite seq_app, map_app, filter_app.
    rewrite (Hout (1 + 9)%nat (n - 9)%nat); [rewrite app_nil_r; reflexivity|].
    intros k Hk. apply in_seq in Hk. unfold g. nia.
Qed.

Lemma log10_digit_values_g_eq U j : log10_digit_values_g U j = log10_digit_values U j.
Proof.
  unfold log10_digit_values_g, log10_digit_values, gend_log10_step, gend_log10_stop, gend_log10_start.
  pose proof (pow10_pos j) as Hp.
  rewrite zrange_tail_nine.
  - rewrite Nat2Z.inj_succ. unfold Z.succ. f_equal.
  - exact Hp.
  - replace (Z.of_nat j + 1) with (Z.of_nat (S j)) by lia. rewrite pow10_S. lia.
Qed.

Lemma linear_values_g_eq U : 0 <= U -> linear_values_g U = map Z.of_nat (seq 0 (S (Z.to_nat U))).
Proof.
  intros HU. unfold linear_values_g, gend_linear_start, gend_linear_stop.
  replace (U + 1 - 1) with U by lia.
  cbn [seq map]. f_equal. rewrite <- seq_shift, map_map. apply map_ext. intros k. lia.
Qed.

Theorem dqm_slack_values_g_eq m U ubc zero : 0 < U ->
  dqm_slack_values_g m U ubc zero = dqm_slack_values_cz m U ubc zero.
Proof.
  intros HU. unfold dqm_slack_values_g, dqm_slack_values_cz, dqm_slack_values. destruct m.
  - rewrite dqm_log2_values_g_eq by exact HU. destruct zero; [reflexivity|apply app_nil_r].
  - unfold gend_log10_nvars, gend_log10_cz_value, dqm_log10_values. rewrite Nat2Z.id, ceil_log10_succ.
    rewrite (map_ext _ _ (log10_digit_values_g_eq U)). reflexivity.
  - unfold gend_linear_cz_value, dqm_linear_values. rewrite linear_values_g_eq by lia.
    destruct zero; reflexivity.
Qed.

(* the whole decision *)
Theorem plan_dqm_inequality_g_eq m cz a const lb ub :
  plan_dqm_inequality_g m cz a const lb ub
  = match plan_inequality a const lb ub with
    | Skip => DSkip
    | Infeasible => DInfeasible
    | Equality ubc => DEquality (- ubc)
    | Slack ubc _ =>
        DSlack (- ubc)
          (dqm_slack_values_cz m (Z.min (sum_pos a) (ub - const) - Z.max (sum_neg a) (lb - const)) ubc
             (dqm_cz_active cz (lbc_of a const lb) ubc))
    end.
Proof.
  unfold plan_dqm_inequality_g, plan_inequality, dqm_cz_active, lbc_of.
  unfold gend_ubc, gend_lbc, gend_always_feasible, gend_infeasible, gend_slack_ub, gend_is_equality,
         gend_eq_constant, gend_slack_constant, gend_cz_test.
  set (tu := sum_pos a). set (tl := sum_neg a).
  set (ubc := Z.min tu (ub - const)). set (lbc := Z.max tl (lb - const)).
  destruct ((tu <=? ubc) && (lbc <=? tl)); [reflexivity|].
  destruct (Z.ltb_spec ubc lbc) as [|Hge]; [reflexivity|].
  destruct (Z.eqb_spec (ubc - lbc) 0) as [|Hne]; [reflexivity|].
  rewrite dqm_slack_values_g_eq by lia. reflexivity.
Qed.

Print Assumptions plan_dqm_inequality_g_eq.
Print Assumptions ceil_log10_spec.
