(* C04: remove_variable through a translating view, at the level of `step`:
   the result is the model with the VIEW's variable v set to 0, i.e. the base energy at y[v := zero point] *)
From Coq Require Import List ZArith QArith Qcanon Bool Arith Lia.
From Dimod Require Import Base.Util Model.Poly Model.View Model.Hist Proofs.PolyFacts Proofs.ViewFacts Proofs.HistFacts
  Proofs.HistWf Proofs.HistWf2 Proofs.HistAtomic Proofs.HistContract Proofs.HistViewStep Proofs.HistViewStep2 Proofs.CoeffSound Proofs.HistAtomicQM Proofs.HistQmAtomic.
Import ListNotations.
Open Scope Qc_scope.

(* base value at which the view's variable is 0 *)
Definition zp (d : vdir) : Qc := match d with BinOverSpin => - (1) | SpinOverBin => half end.

Lemma view_value_zp d : view_value d (zp d) = 0.
Proof. exact (view_value_zero d). Qed.

(* what set_quadratic through a translating view leaves behind, pair by pair *)
Lemma view_set_quadratic_frame h d u v b s :
  B s -> wf s -> vdir_of h s = Some d -> u <> v ->
  let s' := fst (h_set_quadratic h u v b s) in
  snd (h_set_quadratic h u v b s) = Ok /\ B s' /\ wf s' /\ vdir_of h s' = Some d /\ ge s s'
  /\ (forall y, energy (st_poly s') y
               = energy (st_poly s) y + (b - vscale h s (quad s u v)) * view_value d (y u) * view_value d (y v))
  /\ quad s' u v = kqm d b
  /\ (forall x y, same_pair x y u v = false -> quad s' x y = quad s x y)
  /\ (forall x y, hasq s' x y = same_pair x y u v || hasq s x y).
Proof.
  intros Hs Hw D E s'.
  destruct (good_h_set_quadratic h u v b s Hs E) as (G1 & G2 & G3).
  split; [exact G1|]. split; [exact G2|]. split; [apply pres_h_set_quadratic; exact Hw|].
  assert (Hfacts : forall y, snd (step s (h, OSetQuadratic u v b)) = Ok /\
      energy (st_poly (fst (step s (h, OSetQuadratic u v b)))) y
      = energy (st_poly s) y + (b - vscale h s (quad s u v)) * view_value d (y u) * view_value d (y v) /\
      quad (fst (step s (h, OSetQuadratic u v b))) u v = kqm d b /\
      hasq (fst (step s (h, OSetQuadratic u v b))) u v = true)
    by (intros y; apply view_step_set_quadratic; assumption).
  cbn [step] in Hfacts. fold s' in Hfacts.
  split.
  { rewrite <- D. apply vdir_kind. unfold s'. destruct h as [|wv]; [discriminate|].
    unfold h_set_quadratic. rewrite (bqm_guard u v s Hs). destruct (Nat.eqb_spec u v); [contradiction|].
    apply kp_bind; [apply kp_bind; [apply kp_bind; [apply kind_h_add_variable|intros a; apply kind_h_add_variable]|intros a; apply kind_h_add_quadratic]|intros a; apply kind_h_add_quadratic]. }
  split; [exact G3|]. split; [intros y; apply (Hfacts y)|]. split; [apply (Hfacts (fun _ => 0))|].
  split; [|intros x y; apply hasq_h_set_quadratic; assumption].
  (* frame: the quadratic bag only gains (u, v) terms *)
  intros x y Hxy. unfold s'. destruct h as [|wv]; [discriminate|].
  unfold h_set_quadratic. rewrite (bqm_guard u v s Hs). destruct (Nat.eqb_spec u v) as [E'|_]; [contradiction|].
  remember (Via wv) as h eqn:Eh.
  destruct (good_h_add_variable h u 0 s Hs) as (A1 & A2 & A3). unfold bind at 3. rewrite A1.
  remember (fst (h_add_variable h u 0 s)) as s1 eqn:Es1.
  assert (D1 : vdir_of h s1 = Some d) by (rewrite <- D, Es1; apply vdir_kind; apply kind_h_add_variable).
  destruct (good_h_add_variable h v 0 s1 A2) as (C1 & C2 & C3). unfold bind at 2. rewrite C1.
  remember (fst (h_add_variable h v 0 s1)) as s2 eqn:Es2.
  assert (D2 : vdir_of h s2 = Some d) by (rewrite <- D1, Es2; apply vdir_kind; apply kind_h_add_variable).
  destruct (good_h_add_quadratic h u v 0 s2 C2 E) as (F1 & F2 & F3). unfold bind at 1. rewrite F1.
  remember (fst (h_add_quadratic h u v 0 s2)) as s3 eqn:Es3.
  assert (D3 : vdir_of h s3 = Some d) by (rewrite <- D2, Es3; apply vdir_kind; apply kind_h_add_quadratic).
  assert (Q2 : p_quad (st_poly s2) = p_quad (st_poly s)).
  { rewrite Es2, (sameq_h_add_variable h v 0 s1 A2), Es1. apply (sameq_h_add_variable h u 0 s Hs). }
  unfold quad. rewrite (quad_h_add_quadratic_view h d u v _ s3 F2 D3 E), Es3, (quad_h_add_quadratic_view h d u v 0 s2 C2 D2 E), Q2.
  rewrite !quad_coeff_cons, Hxy. ring.
Qed.

(* the loop of remove_variable through a view: every interaction of v is set to 0 in the view *)
Lemma zero_loop h d v y' :
  view_value d (y' v) = 0 ->
  forall (l : list (label * Qc)) s,
    B s -> wf s -> vdir_of h s = Some d -> (forall t, In t l -> fst t <> v) ->
    let r := seqm (fun t => h_set_quadratic h (fst t) v 0) l s in
    snd r = Ok /\ B (fst r) /\ wf (fst r) /\ vdir_of h (fst r) = Some d /\ ge s (fst r)
    /\ energy (st_poly (fst r)) y' = energy (st_poly s) y'
    /\ (forall w, quad (fst r) w v = if mem_label w (map fst l) then 0 else quad s w v)
    /\ (forall x, hasq (fst r) v x = true -> hasq s v x = true \/ In x (map fst l)).
Proof.
  intros Hz. induction l as [|t l IH]; intros s Hs Hw D Hl r.
  - unfold r. cbn [seqm ok fst snd map mem_label existsb]. split; [reflexivity|]. split; [exact Hs|]. split; [exact Hw|]. split; [exact D|].
    split; [apply ge_refl|]. split; [reflexivity|]. split; [intros w; reflexivity|intros x H; left; exact H].
  - assert (Ht : fst t <> v) by (apply Hl; left; reflexivity).
    destruct (view_set_quadratic_frame h d (fst t) v 0 s Hs Hw D Ht) as (S1 & S2 & S3 & S4 & S5 & S6 & S7 & S8 & S9).
    set (s1 := fst (h_set_quadratic h (fst t) v 0 s)) in *.
    assert (Hl' : forall t', In t' l -> fst t' <> v) by (intros t' H'; apply Hl; right; exact H').
    destruct (IH s1 S2 S3 S4 Hl') as (R1 & R2 & R3 & R4 & R5 & R6 & R7 & R8).
    assert (Er : r = seqm (fun t0 => h_set_quadratic h (fst t0) v 0) l s1).
    { unfold r. cbn [seqm]. unfold bind. rewrite S1. reflexivity. }
    rewrite Er. split; [exact R1|]. split; [exact R2|]. split; [exact R3|]. split; [exact R4|].
    split; [eapply ge_trans; eassumption|]. split.
    + rewrite R6, (S6 y'), Hz. ring.
    + split.
      * intros w. rewrite R7. cbn [map mem_label existsb]. fold (mem_label w (map fst l)).
        destruct (Nat.eqb_spec w (fst t)) as [E|E]; cbn [orb].
        -- subst w. rewrite S7, kqm_zero. destruct (mem_label (fst t) (map fst l)); reflexivity.
        -- destruct (mem_label w (map fst l)); [reflexivity|]. apply S8. unfold same_pair.
           destruct (Nat.eqb_spec w (fst t)); [contradiction|]. cbn [andb orb].
           destruct (Nat.eqb_spec w v); [|reflexivity]. destruct (Nat.eqb_spec v (fst t)); [|reflexivity].
           exfalso. apply Ht. symmetry. assumption.
      * intros x Hx. destruct (R8 x Hx) as [H1|H1]; [|right; right; exact H1].
        rewrite S9 in H1. apply orb_true_iff in H1. destruct H1 as [H1|H1]; [|left; exact H1].
        right. left. unfold same_pair in H1.
        apply orb_true_iff in H1. destruct H1 as [H1|H1]; apply andb_true_iff in H1; destruct H1 as [E1 E2];
          apply Nat.eqb_eq in E1; apply Nat.eqb_eq in E2.
        -- exfalso. apply Ht. congruence.
        -- symmetry. exact E2.
Qed.

Lemma bqm_terms_ok s : B s -> wf s ->
  forall t, In t (p_quad (st_poly s)) -> fst (fst t) <> snd (fst t) /\ In (fst (fst t)) (labels s) /\ In (snd (fst t)) (labels s).
Proof.
  intros Hs Hw t Ht. destruct Hw as (Hnd & Hl & Hq & Hk). destruct (Hq t Ht) as (H1 & H2 & H3). split; [|split; assumption].
  intros E. specialize (H3 E). destruct (B_kind s Hs) as [vt K]. destruct (Hk vt K) as [Hsb Hall].
  destruct (in_labels_vinfo s _ H1) as [j [Hj Ej]]. rewrite <- Ej, (vt_of_in s j Hnd Hj), (Hall j Hj), Hsb in H3. discriminate.
Qed.

Lemma qsum_zero (l : list Qc) : (forall x, In x l -> x = 0) -> qsum l = 0.
Proof.
  induction l as [|a l IH]; intros H; [reflexivity|]. cbn [qsum]. rewrite (H a (or_introl eq_refl)), IH; [ring|].
  intros x Hx. apply H. right. exact Hx.
Qed.

Lemma sameq_h_set_linear h v b s : B s -> sameq s (fst (h_set_linear h v b s)).
Proof.
  intros Hs. unfold h_set_linear. destruct (vdir_of h s).
  - destruct (good_h_add_linear h v 0 s Hs) as (G1 & G2 & G3). unfold bind. rewrite G1.
    eapply sameq_trans; [apply sameq_h_add_linear; exact Hs|apply sameq_h_add_linear; exact G2].
  - apply sameq_d_set_linear_any.
Qed.

Lemma bind_ok_eq r g : snd r = Ok -> r >>= g = g (fst r).
Proof. intros H. unfold bind. rewrite H. reflexivity. Qed.

Theorem view_step_remove_variable h d v s y :
  B s -> wf s -> vdir_of h s = Some d -> has_var s v = true ->
  snd (step s (h, ORemoveVariable (Some v))) = Ok /\
  energy (st_poly (fst (step s (h, ORemoveVariable (Some v))))) y = energy (st_poly s) (upd y v (zp d)).
Proof.
  intros Hs Hw D Hv. cbn [step]. unfold h_remove_variable. rewrite D, Hv.
  set (y' := upd y v (zp d)).
  assert (Hz : view_value d (y' v) = 0) by (unfold y', upd; rewrite Nat.eqb_refl; apply view_value_zp).
  assert (Hl : forall t, In t (h_nbh h v s) -> fst t <> v) by (intros t Ht; apply (nbh_not_self h v s t Hs Hw Ht)).
  destruct (zero_loop h d v y' Hz (h_nbh h v s) s Hs Hw D Hl) as (R1 & R2 & R3 & R4 & R5 & R6 & R7 & R8).
  rewrite (bind_ok_eq _ _ R1).
  remember (fst (seqm (fun t => h_set_quadratic h (fst t) v 0) (h_nbh h v s) s)) as s1 eqn:Es1.
  assert (Hv1 : has_var s1 v = true) by (apply R5; exact Hv).
  (* every interaction of v is now zero *)
  assert (Z1 : forall w, quad s1 w v = 0).
  { intros w. rewrite R7. destruct (mem_label w (map fst (h_nbh h v s))) eqn:M; [reflexivity|].
    destruct (hasq s v w) eqn:Hq.
    - exfalso. assert (In w (map fst (h_nbh h v s))).
      { unfold h_nbh, nbh. rewrite !map_map. cbn [fst]. rewrite map_id. apply filter_In. split; [|exact Hq].
        destruct Hw as (_ & _ & Wq & _). unfold hasq in Hq. apply has_pair_inv in Hq. destruct Hq as [t [It Ht]].
        destruct (Wq t It) as (L1 & L2 & _). destruct Ht as [[_ ->]|[_ ->]]; assumption. }
      apply In_mem_label in H. congruence.
    - unfold quad. rewrite quad_coeff_sym. apply quad_coeff_no_pair. exact Hq. }
  destruct (view_step_set_linear h d v 0 s1 y' R2 R4 Hv1) as (L1 & L2 & L3). cbn [step] in L1, L2, L3.
  rewrite (bind_ok_eq _ _ L1).
  remember (fst (h_set_linear h v 0 s1)) as s2 eqn:Es2.
  destruct (good_h_set_linear h v 0 s1 R2) as (_ & B2 & G2). rewrite <- Es2 in B2, G2.
  assert (W2 : wf s2) by (rewrite Es2; apply pres_h_set_linear; exact R3).
  assert (Q2 : p_quad (st_poly s2) = p_quad (st_poly s1)) by (rewrite Es2; apply sameq_h_set_linear; exact R2).
  assert (Hv2 : has_var s2 v = true) by (apply G2; exact Hv1).
  assert (D2 : vdir_of h s2 = Some d).
  { rewrite <- R4, Es2. apply vdir_kind. unfold h_set_linear. rewrite R4.
    apply kp_bind; [apply kind_h_add_linear|intros a; apply kind_h_add_linear]. }
  assert (Z2 : forall w, quad s2 v w = 0).
  { intros w. unfold quad. rewrite Q2, quad_coeff_sym. apply Z1. }
  assert (N2 : nbh_sum s2 v = 0).
  { unfold nbh_sum, nbh. apply qsum_zero. intros x Hx. rewrite map_map in Hx. cbn [snd] in Hx.
    apply in_map_iff in Hx. destruct Hx as [w [<- _]]. apply Z2. }
  assert (Lz : lin s2 v = 0).
  { unfold h_get_linear in L3. rewrite Hv2, D2, N2 in L3. injection L3 as L3.
    pose proof half_two as HT. destruct d.
    - transitivity (half * (two * lin s2 v - two * 0)); [|rewrite L3; ring].
      transitivity ((half * two) * lin s2 v); [rewrite HT; ring|ring].
    - transitivity ((lin s2 v * half + 0 * quarter) * two); [|rewrite L3; ring].
      transitivity (lin s2 v * (half * two)); [rewrite HT; ring|ring]. }
  unfold d_remove_variable. rewrite Hv2. cbn [ok fst snd st_poly]. split; [reflexivity|].
  (* the removed terms contribute nothing, and the rest does not depend on the value of v *)
  assert (Hsplit : forall z, energy (st_poly s2) z = energy (remove_variable v (st_poly s2)) z).
  { intros z. rewrite (energy_split_var v (st_poly s2) z), linv_eq. fold (lin s2 v). rewrite Lz.
    unfold quadv. rewrite (quadv_sum (p_quad (st_poly s2)) v (labels s2) z); [|apply W2|apply bqm_terms_ok; assumption].
    rewrite (wsum_ext _ (fun _ => 0)); [rewrite wsum_zero; ring|].
    intros w _. fold (quad s2 v w). rewrite Z2. ring. }
  rewrite <- (energy_remove_variable_upd v (st_poly s2) y (zp d)). fold y'.
  rewrite <- (Hsplit y'), L2, Hz, R6. ring.
Qed.

Print Assumptions view_step_remove_variable.
