(* C04: writes issued through a translating .spin/.binary view handle, at the level of `step`:
   the call succeeds and adds the term in the VIEW's variables to the base energy *)
From Coq Require Import List ZArith QArith Qcanon Bool Arith Lia.
From Dimod Require Import Base.Util Model.Poly Model.View Model.Hist Proofs.PolyFacts Proofs.ViewFacts Proofs.HistFacts
  Proofs.HistWf Proofs.HistAtomic Proofs.HistContract.
Import ListNotations.
Open Scope Qc_scope.

Lemma poly_ensure v s : st_poly (ensure v s) = st_poly s.
Proof. unfold ensure. destruct (has_var s v); reflexivity. Qed.

Lemma d_add_linear_bqm v b s :
  B s -> d_add_linear v b s = ok (with_poly (ensure v s) (add_linear v b (st_poly s))).
Proof.
  intros Hs. destruct (B_kind s Hs) as [vt K]. unfold d_add_linear, resolve. rewrite K, bind_ok, poly_ensure. reflexivity.
Qed.

Lemma d_add_offset_eq b s : d_add_offset b s = ok (with_poly s (add_offset b (st_poly s))).
Proof. reflexivity. Qed.

Theorem view_step_add_linear h d v b s y :
  B s -> vdir_of h s = Some d ->
  snd (step s (h, OAddLinear v b)) = Ok /\
  energy (st_poly (fst (step s (h, OAddLinear v b)))) y = energy (st_poly s) y + b * view_value d (y v).
Proof.
  intros Hs D. cbn [step]. unfold h_add_linear. rewrite D.
  destruct d; rewrite (d_add_linear_bqm v _ s Hs), bind_ok, d_add_offset_eq; cbn [ok fst snd with_poly st_poly];
    (split; [reflexivity|]); rewrite energy_add_offset, energy_add_linear; unfold view_value.
  - ring.
  - ring.
Qed.

Lemma d_add_quadratic_bqm u v b s :
  B s -> u <> v ->
  d_add_quadratic u v b s = ok (with_poly (ensure v (ensure u s)) (push_quad u v b (st_poly s))).
Proof.
  intros Hs E. destruct (B_kind s Hs) as [vt K]. unfold d_add_quadratic. rewrite (bqm_guard u v s Hs).
  destruct (Nat.eqb_spec u v) as [E'|_]; [contradiction|].
  rewrite (resolve2_bqm u v s vt K), bind_ok, !poly_ensure. reflexivity.
Qed.

Theorem view_step_add_quadratic h d u v b s y :
  B s -> vdir_of h s = Some d -> u <> v ->
  snd (step s (h, OAddQuadratic u v b)) = Ok /\
  energy (st_poly (fst (step s (h, OAddQuadratic u v b)))) y
  = energy (st_poly s) y + b * view_value d (y u) * view_value d (y v).
Proof.
  intros Hs D E. cbn [step]. unfold h_add_quadratic. rewrite D.
  set (s1 := with_poly (ensure v (ensure u s)) (push_quad u v (match d with BinOverSpin => b * quarter | SpinOverBin => four * b end) (st_poly s))).
  assert (B1 : B s1) by (unfold s1, B, is_bqm; cbn [with_poly st_kind]; rewrite !kind_ensure; exact Hs).
  destruct d; rewrite (d_add_quadratic_bqm u v _ s Hs E), bind_ok; fold s1;
    rewrite (d_add_linear_bqm u _ s1 B1), bind_ok;
    match goal with |- context [d_add_linear v ?c ?s2] =>
      assert (B2 : B s2) by (unfold B, is_bqm; cbn [with_poly st_kind]; rewrite !kind_ensure; exact B1);
      rewrite (d_add_linear_bqm v c s2 B2), bind_ok end;
    rewrite d_add_offset_eq; cbn [ok fst snd with_poly st_poly]; (split; [reflexivity|]);
    rewrite energy_add_offset, !energy_add_linear; unfold s1; cbn [with_poly st_poly]; rewrite energy_push; unfold view_value.
  - transitivity (energy (st_poly s) y + b * quarter * ((y u + 1) * (y v + 1))); [ring|]. unfold quarter. ring.
  - unfold four. ring.
Qed.

(* the offset a view shows is the base energy at the point where every view variable is 0;
   assigning it moves the base offset by the difference *)
Theorem view_step_set_offset h d b s y :
  vdir_of h s = Some d ->
  snd (step s (h, OSetOffset b)) = Ok /\
  h_get_offset h s = energy (st_poly s) (fun _ => match d with BinOverSpin => - (1) | SpinOverBin => half end) /\
  energy (st_poly (fst (step s (h, OSetOffset b)))) y = energy (st_poly s) y - h_get_offset h s + b /\
  h_get_offset h (fst (step s (h, OSetOffset b))) = b.
Proof.
  intros D. cbn [step]. unfold h_set_offset, h_get_offset. rewrite D, d_add_offset_eq. cbn [ok fst snd with_poly st_poly].
  split; [reflexivity|]. split; [apply view_offset_is_energy_at_zero|]. split.
  - rewrite energy_add_offset. ring.
  - assert (D' : vdir_of h (with_poly s (add_offset (b - view_offset d (st_poly s)) (st_poly s))) = Some d).
    { rewrite <- D. apply vdir_kind. reflexivity. }
    rewrite D'. cbn [with_poly st_poly]. destruct d; unfold view_offset, sum_lin, sum_quad; cbn [add_offset p_off p_lin p_quad]; ring.
Qed.

Print Assumptions view_step_add_linear.
Print Assumptions view_step_add_quadratic.
Print Assumptions view_step_set_offset.
