(* C02 / C03: proofs about Model/FlipMarks.v
   (A) the Python flip_variable loops of QM / BQM preserve the energy landscape and have the
       coefficients of Poly.flip_spin / Poly.flip_binary;
   (B) the Cython in-place fix with its discrete-marker loop: same expressions as the C++
       kernel, closed form of the markers, and the exact relation between what is_discrete()
       reports after the in-place path and after the copying path. *)
From Coq Require Import List ZArith QArith Qcanon Bool Arith Lia.
From Dimod Require Import Base.Util Model.Poly Model.FixPy Model.Expr Model.FixCopy Model.VartypeOps Model.FlipMarks.
From Dimod Require Import Proofs.PolyFacts Proofs.CoeffSound Proofs.FixPyFacts Proofs.ExprFacts Proofs.ExprSim
  Proofs.CqmSim Proofs.VartypeOpsFacts Proofs.FixCopyFacts.
Import ListNotations.
Open Scope Qc_scope.

(* ================================================================== *)
(* (A) flip_variable                                                    *)
(* ================================================================== *)

(* no bag term is a self-loop of v (true of every SPIN/BINARY variable of a real model) *)
Definition NoSelfLoop (v : label) (q : list qterm) : Prop :=
  forall t, In t q -> ~ (fst (fst t) = v /\ snd (fst t) = v).

Lemma nbhd_no_v v q t : NoSelfLoop v q -> In t (nbhd v q) -> fst t <> v.
Proof.
  intros NS Hin. unfold nbhd in Hin. apply in_flat_map in Hin. destruct Hin as [[[x y] b] [Hq Ht]].
  specialize (NS _ Hq). cbn [fst snd] in NS. cbn [nbhd_term] in Ht.
  destruct (Nat.eqb_spec x v) as [Ex|Nx].
  - destruct Ht as [<-|[]]. cbn [fst]. intros Ey. apply NS. split; assumption.
  - destruct (Nat.eqb_spec y v) as [Ey|Ny]; [|destruct Ht].
    destruct Ht as [<-|[]]. cbn [fst]. exact Nx.
Qed.

Lemma lin_coeff_none (l : list lterm) v : (forall t, In t l -> fst t <> v) -> lin_coeff l v = 0.
Proof.
  induction l as [|[u b] l IH]; intros H; [reflexivity|].
  rewrite lin_coeff_cons, IH by (intros t Ht; apply H; right; exact Ht).
  destruct (Nat.eqb_spec u v) as [E|_]; [|ring]. exfalso. apply (H (u, b)); [left; reflexivity|exact E].
Qed.

Lemma lin_coeff_nbhd u v q : u <> v -> lin_coeff (nbhd v q) u = quad_coeff q u v.
Proof.
  intros Huv. induction q as [|[[x y] b] q IH].
  - reflexivity.
  - unfold nbhd in *. cbn [flat_map]. rewrite lin_coeff_app, IH, quad_coeff_cons. f_equal.
    cbn [nbhd_term]. unfold same_pair.
    destruct (Nat.eqb_spec x v) as [Ex|Nx].
    + rewrite lin_coeff_cons. unfold lin_coeff at 1. cbn [filter map qsum].
      subst x. destruct (Nat.eqb_spec u v) as [|_]; [contradiction|]. rewrite Nat.eqb_refl.
      rewrite (Nat.eqb_sym y u). cbn [andb orb]. destruct (u =? y)%nat; cbn [andb]; ring.
    + destruct (Nat.eqb_spec y v) as [Ey|Ny].
      * rewrite lin_coeff_cons. unfold lin_coeff at 1. cbn [filter map qsum].
        subst y. rewrite Nat.eqb_refl. rewrite (Nat.eqb_sym x u).
        destruct (Nat.eqb_spec u v) as [|_]; [contradiction|].
        destruct (u =? x)%nat; cbn [andb orb]; ring.
      * unfold lin_coeff. cbn [filter map qsum].
        destruct (Nat.eqb_spec v y) as [E|_]; [exfalso; apply Ny; symmetry; exact E|].
        destruct (Nat.eqb_spec v x) as [E|_]; [exfalso; apply Nx; symmetry; exact E|].
        rewrite !andb_false_r. reflexivity.
Qed.

Lemma nbr_labels_nodup v q : NoDup (nbr_labels v q).
Proof. apply NoDup_nodup. Qed.

Lemma nbr_labels_no_v v q : NoSelfLoop v q -> ~ In v (nbr_labels v q).
Proof.
  intros NS H. unfold nbr_labels in H. apply nodup_In in H. apply in_map_iff in H.
  destruct H as [t [E Ht]]. exact (nbhd_no_v v q t NS Ht E).
Qed.

(* the per-term neighbourhood sum, grouped per neighbour: one entry per neighbour with the merged bias *)
Lemma lin_energy_nbhd_grouped v q s : NoSelfLoop v q ->
  lin_energy (nbhd v q) s = qsum (map (fun u => quad_coeff q u v * s u) (nbr_labels v q)).
Proof.
  intros NS. unfold lin_energy.
  etransitivity; [apply (group_sum Nat.eqb Nat.eqb_eq (fst : lterm -> nat) (snd : lterm -> Qc) s (nbhd v q) (nbr_labels v q))|].
  - apply nbr_labels_nodup.
  - intros t Ht. unfold nbr_labels. apply nodup_In. apply in_map. exact Ht.
  - apply qsum_map_ext_in. intros u Hu. f_equal.
    change (lin_coeff (nbhd v q) u = quad_coeff q u v). apply lin_coeff_nbhd.
    intros ->. exact (nbr_labels_no_v v q NS Hu).
Qed.

(* the energy as a function of the value of v: affine when v has no self-loop *)
Lemma energy_upd_delta v p s x : NoSelfLoop v (p_quad p) ->
  energy p (upd s v x)
  = energy p s + (x - s v) * (lin_coeff (p_lin p) v
                              + qsum (map (fun u => quad_coeff (p_quad p) u v * s u) (nbr_labels v (p_quad p)))).
Proof.
  intros NS.
  assert (Z : lin_coeff (nbhd v (p_quad p)) v = 0) by (apply lin_coeff_none; intros t; apply nbhd_no_v; exact NS).
  assert (G : lin_energy (nbhd v (p_quad p)) (upd s v 0)
              = qsum (map (fun u => quad_coeff (p_quad p) u v * s u) (nbr_labels v (p_quad p)))).
  { rewrite lin_energy_nbhd_grouped by exact NS. apply qsum_map_ext_in. intros u Hu. f_equal.
    unfold upd. destruct (Nat.eqb_spec u v) as [->|_]; [|reflexivity].
    exfalso. exact (nbr_labels_no_v v _ NS Hu). }
  assert (F : forall y, energy p (upd s v y)
              = p_off p + lin_energy (p_lin p) (upd s v 0) + quad_energy (p_quad p) (upd s v 0)
                + y * (lin_coeff (p_lin p) v + lin_energy (nbhd v (p_quad p)) (upd s v 0))).
  { intros y. unfold energy. rewrite (lin_energy_upd _ s v y), (quad_energy_upd _ s v y), Z. ring. }
  assert (S : energy p s = energy p (upd s v (s v))).
  { apply energy_ext. intros w. symmetry. apply upd_self. }
  rewrite S, !F, G. ring.
Qed.

(* ---------- Poly.set_quadratic ---------- *)
Lemma energy_set_quadratic u v b p s :
  energy (set_quadratic u v b p) s = energy p s + (b - quad_coeff (p_quad p) u v) * s u * s v.
Proof.
  unfold set_quadratic, remove_interaction, energy. cbn [p_off p_lin p_quad].
  rewrite quad_energy_cons, quad_energy_filter_pair. cbn [fst snd]. ring.
Qed.

Lemma same_pair_excl u v a b x y :
  same_pair u v a b = true -> same_pair x y u v = false -> same_pair x y a b = false.
Proof.
  unfold same_pair.
  repeat match goal with |- context [(?a =? ?b)%nat] => destruct (Nat.eqb_spec a b) end;
    cbn [andb orb]; intros; try reflexivity; try discriminate; exfalso; lia.
Qed.

Lemma quad_coeff_filter_other u v x y (l : list qterm) : same_pair x y u v = false ->
  quad_coeff (filter (fun t => negb (same_pair u v (fst (fst t)) (snd (fst t)))) l) x y = quad_coeff l x y.
Proof.
  intros H. induction l as [|[[a b] w] l IH]; [reflexivity|].
  cbn [filter fst snd]. destruct (same_pair u v a b) eqn:E; cbn [negb].
  - rewrite quad_coeff_cons, IH, (same_pair_excl u v a b x y E H). ring.
  - rewrite !quad_coeff_cons, IH. reflexivity.
Qed.

Lemma quad_coeff_set_quadratic_other u v b p x y : same_pair x y u v = false ->
  quad_coeff (p_quad (set_quadratic u v b p)) x y = quad_coeff (p_quad p) x y.
Proof.
  intros H. unfold set_quadratic, remove_interaction. cbn [p_quad].
  rewrite quad_coeff_cons, H, quad_coeff_filter_other by exact H. ring.
Qed.

Lemma same_pair_other_nbr u' u v : u' <> u -> u' <> v -> same_pair u' v u v = false.
Proof.
  intros H1 H2. unfold same_pair.
  repeat match goal with |- context [(?a =? ?b)%nat] => destruct (Nat.eqb_spec a b) end;
    cbn [andb orb]; try reflexivity; exfalso; lia.
Qed.

(* ---------- the two loops ---------- *)
Lemma spin_loop v s N : NoDup N -> ~ In v N -> forall p,
  energy (fold_left (flip_spin_step v) N p) s
  = energy p s - two * s v * qsum (map (fun u => quad_coeff (p_quad p) u v * s u) N)
  /\ p_lin (fold_left (flip_spin_step v) N p) = p_lin p.
Proof.
  induction 1 as [|u N Hu ND IH]; intros Hv p; cbn [fold_left map qsum].
  - split; [ring|reflexivity].
  - assert (Huv : u <> v) by (intros ->; apply Hv; left; reflexivity).
    destruct (IH (fun C => Hv (or_intror C)) (flip_spin_step v p u)) as [E L]. rewrite E, L. split; [|reflexivity].
    rewrite (qsum_map_ext_in (fun u0 => quad_coeff (p_quad (flip_spin_step v p u)) u0 v * s u0)
                             (fun u0 => quad_coeff (p_quad p) u0 v * s u0)).
    + unfold flip_spin_step. rewrite energy_set_quadratic. unfold two. ring.
    + intros u' Hu'. f_equal. unfold flip_spin_step. apply quad_coeff_set_quadratic_other.
      apply same_pair_other_nbr; [intros ->; contradiction|intros ->; apply Hv; right; exact Hu'].
Qed.

Lemma binary_loop v s N : NoDup N -> ~ In v N -> forall p,
  energy (fold_left (flip_binary_step v) N p) s
  = energy p s + (1 - two * s v) * qsum (map (fun u => quad_coeff (p_quad p) u v * s u) N)
  /\ lin_coeff (p_lin (fold_left (flip_binary_step v) N p)) v = lin_coeff (p_lin p) v
  /\ p_off (fold_left (flip_binary_step v) N p) = p_off p.
Proof.
  induction 1 as [|u N Hu ND IH]; intros Hv p; cbn [fold_left map qsum].
  - split; [ring|split; reflexivity].
  - assert (Huv : u <> v) by (intros ->; apply Hv; left; reflexivity).
    destruct (IH (fun C => Hv (or_intror C)) (flip_binary_step v p u)) as [E [L O]]. rewrite E, L, O.
    split; [|split].
    + rewrite (qsum_map_ext_in (fun u0 => quad_coeff (p_quad (flip_binary_step v p u)) u0 v * s u0)
                               (fun u0 => quad_coeff (p_quad p) u0 v * s u0)).
      * unfold flip_binary_step. rewrite energy_add_linear, energy_set_quadratic. unfold two. ring.
      * intros u' Hu'. f_equal. unfold flip_binary_step. cbn [add_linear p_quad].
        apply quad_coeff_set_quadratic_other.
        apply same_pair_other_nbr; [intros ->; contradiction|intros ->; apply Hv; right; exact Hu'].
    + unfold flip_binary_step. cbn [add_linear p_lin set_quadratic remove_interaction].
      rewrite lin_coeff_cons. destruct (Nat.eqb_spec u v) as [|_]; [contradiction|ring].
    + reflexivity.
Qed.

(* py_flip_variable_energy: the result at s is the original at s with v flipped
   (SPIN: v := - s v ; BINARY: v := 1 - s v), for EVERY bag (duplicate terms on a pair are
   merged by the neighbourhood read and replaced by one term) in which v has no self-loop *)
Theorem py_flip_variable_energy : forall vt v p p' s, NoSelfLoop v (p_quad p) ->
  py_flip_variable vt v p = Some p' ->
  energy p' s = energy p (upd s v (flip_value vt (s v))).
Proof.
  intros vt v p p' s NS H. unfold py_flip_variable in H.
  pose proof (nbr_labels_nodup v (p_quad p)) as ND. pose proof (nbr_labels_no_v v (p_quad p) NS) as NV.
  destruct vt; try discriminate; injection H as <-.
  - destruct (binary_loop v s _ ND NV p) as [E [L O]].
    rewrite energy_set_linear. cbn [add_offset p_lin]. rewrite energy_add_offset, L, E.
    rewrite energy_upd_delta by exact NS. cbn [flip_value]. unfold two. ring.
  - destruct (spin_loop v s _ ND NV p) as [E L].
    rewrite energy_set_linear, L, E. rewrite energy_upd_delta by exact NS. cbn [flip_value]. unfold two. ring.
Qed.

Definition flip_spec (vt : vartype) (v : label) (p : poly) : poly :=
  match vt with SPIN => flip_spin v p | BINARY => flip_binary v p | _ => p end.

Theorem py_flip_variable_eq_spec_energy : forall vt v p p' s, NoSelfLoop v (p_quad p) ->
  py_flip_variable vt v p = Some p' -> energy p' s = energy (flip_spec vt v p) s.
Proof.
  intros vt v p p' s NS H. rewrite (py_flip_variable_energy vt v p p' s NS H).
  destruct vt; try discriminate; cbn [flip_spec flip_value].
  - symmetry. apply flip_binary_energy.
  - symmetry. apply flip_spin_energy.
Qed.

(* ... hence coefficient-wise equal to the substitution x := -x (+1) of Model/Poly.v *)
Theorem py_flip_variable_coeffs : forall vt v p p', NoSelfLoop v (p_quad p) ->
  py_flip_variable vt v p = Some p' ->
  p_off p' = p_off (flip_spec vt v p)
  /\ (forall x, lin_coeff (p_lin p') x = lin_coeff (p_lin (flip_spec vt v p)) x)
  /\ (forall x y, quad_coeff (p_quad p') x y = quad_coeff (p_quad (flip_spec vt v p)) x y)
  /\ (forall n, poly_coeff_eqb n p' (flip_spec vt v p) = true).
Proof.
  intros vt v p p' NS H.
  assert (E : forall s, energy p' s = energy (flip_spec vt v p) s)
    by (intros s; apply py_flip_variable_eq_spec_energy; assumption).
  split; [exact (ce_off _ _ E)|]. split; [exact (ce_lin _ _ E)|]. split; [exact (ce_quad _ _ E)|].
  intros n. apply coeff_eq_complete. exact E.
Qed.

Theorem py_flip_variable_none_iff : forall vt v p,
  py_flip_variable vt v p = None <-> (vt <> SPIN /\ vt <> BINARY).
Proof.
  intros vt v p. unfold py_flip_variable. destruct vt; split; intros H; try discriminate;
    try (destruct H as [H1 H2]; congruence); split; discriminate.
Qed.

(* the BQM method is the same function of the model-wide vartype *)
Theorem py_bqm_flip_variable_energy : forall vt v p p' s, NoSelfLoop v (p_quad p) ->
  py_bqm_flip_variable vt v p = Some p' ->
  energy p' s = energy p (upd s v (flip_value vt (s v))).
Proof. exact py_flip_variable_energy. Qed.

(* flipping twice gives back the energies (coefficients) of the original *)
Theorem py_flip_variable_involutive : forall vt v p p1 p2 s,
  NoSelfLoop v (p_quad p) -> NoSelfLoop v (p_quad p1) ->
  py_flip_variable vt v p = Some p1 -> py_flip_variable vt v p1 = Some p2 ->
  energy p2 s = energy p s.
Proof.
  intros vt v p p1 p2 s N0 N1 H1 H2.
  rewrite (py_flip_variable_energy vt v p1 p2 s N1 H2), (py_flip_variable_energy vt v p p1 _ N0 H1).
  apply energy_ext. intros w. unfold upd. destruct (Nat.eqb_spec w v) as [->|Hw]; [|reflexivity].
  rewrite Nat.eqb_refl. destruct vt; cbn [flip_value]; try discriminate; ring.
Qed.

(* the result never has a self-loop of v either: the loop can be run again *)
Lemma set_quadratic_noself u v b w p : u <> v -> NoSelfLoop w (p_quad p) -> NoSelfLoop w (p_quad (set_quadratic u v b p)).
Proof.
  intros Huv NS t Ht. unfold set_quadratic, remove_interaction in Ht. cbn [p_quad] in Ht.
  destruct Ht as [<-|Ht].
  - cbn [fst snd]. intros [E1 E2]. apply Huv. congruence.
  - apply filter_In in Ht. apply NS. exact (proj1 Ht).
Qed.

Lemma fold_noself (step : poly -> label -> poly) v N :
  (forall p u, u <> v -> NoSelfLoop v (p_quad p) -> NoSelfLoop v (p_quad (step p u))) ->
  ~ In v N -> forall p, NoSelfLoop v (p_quad p) -> NoSelfLoop v (p_quad (fold_left step N p)).
Proof.
  intros Hs. induction N as [|u N IH]; intros Hv p NS; cbn [fold_left]; [exact NS|].
  apply IH; [intros C; apply Hv; right; exact C|]. apply Hs; [intros ->; apply Hv; left; reflexivity|exact NS].
Qed.

Theorem py_flip_variable_noself : forall vt v p p', NoSelfLoop v (p_quad p) ->
  py_flip_variable vt v p = Some p' -> NoSelfLoop v (p_quad p').
Proof.
  intros vt v p p' NS H. unfold py_flip_variable in H.
  pose proof (nbr_labels_no_v v (p_quad p) NS) as NV.
  destruct vt; try discriminate; injection H as <-; cbn [set_linear add_offset p_quad].
  - apply fold_noself; try assumption. intros q u Hu Hq. unfold flip_binary_step. cbn [add_linear p_quad].
    apply set_quadratic_noself; assumption.
  - apply fold_noself; try assumption. intros q u Hu Hq. unfold flip_spin_step.
    apply set_quadratic_noself; assumption.
Qed.

(* ---------- Examples ---------- *)
(* duplicate bag terms on the pair {0,1} (1/2 and 1): the merged read flips the pair to -3/2;
   the per-term reading (NOT the code) would leave -1: the second set_quadratic overwrites *)
Definition ex_dup : poly := mkPoly 0 [(0%nat, 1)] [(0%nat, 1%nat, half); (1%nat, 0%nat, 1); (0%nat, 2%nat, two)].
Example ex_dup_merged :
  match py_flip_variable SPIN 0%nat ex_dup with
  | Some p' => Qc_eqb (quad_coeff (p_quad p') 0%nat 1%nat) (- (1) - half)
               && Qc_eqb (quad_coeff (p_quad (py_flip_spin_per_term 0%nat ex_dup)) 0%nat 1%nat) (- (1))
               && poly_coeff_eqb 3 p' (flip_spin 0%nat ex_dup)
               && negb (poly_coeff_eqb 3 (py_flip_spin_per_term 0%nat ex_dup) (flip_spin 0%nat ex_dup))
  | None => false
  end = true.
Proof. vm_compute. reflexivity. Qed.

(* BINARY variable 0 with an INTEGER neighbour 1 (self-loop 1*1 kept) and a SPIN neighbour 2 *)
Definition ex_mixed : poly :=
  mkPoly half [(0%nat, two); (1%nat, 1)] [(0%nat, 1%nat, two); (1%nat, 1%nat, 1); (2%nat, 0%nat, - (1)); (1%nat, 2%nat, half)].
Example ex_mixed_flip :
  match py_flip_variable BINARY 0%nat ex_mixed with
  | Some p' => poly_coeff_eqb 3 p' (flip_binary 0%nat ex_mixed)
               && Qc_eqb (p_off p') (half + two) && Qc_eqb (lin_coeff (p_lin p') 0%nat) (- two)
               && Qc_eqb (lin_coeff (p_lin p') 1%nat) (1 + two) && Qc_eqb (lin_coeff (p_lin p') 2%nat) (- (1))
               && Qc_eqb (quad_coeff (p_quad p') 0%nat 1%nat) (- two) && Qc_eqb (quad_coeff (p_quad p') 1%nat 1%nat) 1
  | None => false
  end = true.
Proof. vm_compute. reflexivity. Qed.

(* the hypothesis is needed: on a bag with a self-loop of v the loop does not flip the landscape
   (the real set_quadratic(v, v, .) of a SPIN/BINARY variable raises instead) *)
Example py_flip_variable_selfloop_refuted :
  exists p p', ~ NoSelfLoop 0%nat (p_quad p) /\ py_flip_variable SPIN 0%nat p = Some p'
               /\ poly_coeff_eqb 2 p' (flip_spin 0%nat p) = false.
Proof.
  exists (mkPoly 0 [] [(0%nat, 0%nat, 1)]). eexists. split; [|split; [reflexivity|vm_compute; reflexivity]].
  intros NS. apply (NS (0%nat, 0%nat, 1)); [left; reflexivity|split; reflexivity].
Qed.

(* ================================================================== *)
(* (B) the in-place CQM fix with the marker loop                        *)
(* ================================================================== *)

(* ---------- models that differ in the markers only ---------- *)
Definition strip (k : mcon) : mcon := mc_set_mark k false.
Definition sbm (q1 q2 : mcqm) : Prop :=
  m_info q1 = m_info q2 /\ m_obj q1 = m_obj q2 /\ map strip (m_cons q1) = map strip (m_cons q2).

Lemma sbm_refl q : sbm q q.
Proof. repeat split. Qed.
Lemma sbm_trans a b c : sbm a b -> sbm b c -> sbm a c.
Proof. intros [A1 [A2 A3]] [B1 [B2 B3]]. repeat split; congruence. Qed.

Lemma clear_sbm v q : sbm (cy_clear_marks v q) q.
Proof.
  unfold sbm, cy_clear_marks. cbn [m_info m_obj m_cons]. split; [reflexivity|]. split; [reflexivity|].
  rewrite map_map. apply map_ext. intros [e s r w p m]. cbn [mc_mark].
  destruct (m && _); reflexivity.
Qed.

Lemma fix_respects_sbm v a q1 q2 : sbm q1 q2 -> sbm (cqm_fix_variable v a q1) (cqm_fix_variable v a q2).
Proof.
  intros [H1 [H2 H3]]. unfold sbm, cqm_fix_variable, cqm_remove_variable, cqm_substitute.
  cbn [m_info m_obj m_cons]. rewrite H1, H2. split; [reflexivity|]. split; [reflexivity|].
  rewrite !map_map.
  set (G := fun e => m_reindex v (m_substitute v 0 a e)).
  transitivity (map (fun k => mc_set_e k (G (mc_e k))) (map strip (m_cons q1))).
  - rewrite map_map. apply map_ext. intros [e s r w p m]. reflexivity.
  - rewrite H3, map_map. apply map_ext. intros [e s r w p m]. reflexivity.
Qed.

Lemma cy_fix_sbm v a q1 q2 : sbm q1 q2 -> sbm (cy_cqm_fix_variable v a q1) (cqm_fix_variable v a q2).
Proof.
  intros H. unfold cy_cqm_fix_variable. apply fix_respects_sbm.
  destruct (cy_marks_guard v a q1); [|exact H]. eapply sbm_trans; [apply clear_sbm|exact H].
Qed.

Lemma cy_fold_sbm l : forall q1 q2, sbm q1 q2 ->
  sbm (fold_left (fun q f => cy_cqm_fix_variable (fst f) (snd f) q) l q1)
      (fold_left (fun q f => cqm_fix_variable (fst f) (snd f) q) l q2).
Proof.
  induction l as [|f l IH]; intros q1 q2 H; cbn [fold_left]; [exact H|]. apply IH. apply cy_fix_sbm. exact H.
Qed.

(* cy_cqm_fix_variables_inplace_sbm: objective, variable info and every constraint's expression,
   sense, rhs, weight and penalty are those of the C++-only in-place path (FixCopy.cqm_fix_variables_inplace):
   the marker loop touches nothing but the markers *)
Theorem cy_cqm_fix_variables_inplace_sbm : forall fs q,
  sbm (cy_cqm_fix_variables_inplace fs q) (cqm_fix_variables_inplace fs q).
Proof. intros fs q. apply cy_fold_sbm. apply sbm_refl. Qed.

Lemma sbm_cons_fields q1 q2 : sbm q1 q2 ->
  Forall2 (fun k1 k2 => mc_e k1 = mc_e k2 /\ con_attrs k1 = con_attrs k2) (m_cons q1) (m_cons q2).
Proof.
  intros [_ [_ H]]. revert H. generalize (m_cons q2). induction (m_cons q1) as [|k1 l1 IH]; intros [|k2 l2] H; try discriminate.
  - constructor.
  - cbn [map] in H. unfold strip at 1 3, mc_set_mark in H. injection H as E1 E2 E3 E4 E5 Hl.
    constructor; [|apply IH; exact Hl]. split; [exact E1|]. unfold con_attrs. congruence.
Qed.

(* ---------- one step ---------- *)
Lemma cy_fix_cons v a q :
  m_cons (cy_cqm_fix_variable v a q)
  = map (fun k => mkMC (m_fix v a (mc_e k)) (mc_sense k) (mc_rhs k) (mc_weight k) (mc_pen k)
                       (mc_mark k && negb (cy_marks_guard v a q && mc_has_variable v k))) (m_cons q).
Proof.
  unfold cy_cqm_fix_variable, cqm_fix_variable, cqm_remove_variable, cqm_substitute, m_fix.
  destruct (cy_marks_guard v a q); cbn [m_cons cy_clear_marks]; rewrite !map_map; apply map_ext;
    intros [e s r w p m]; cbn [mc_mark mc_e mc_sense mc_rhs mc_weight mc_pen mc_set_e andb].
  - unfold mc_has_variable. cbn [mc_e]. destruct m; cbn [andb]; [|reflexivity].
    destruct (idx_find v (e_idx e)); reflexivity.
  - rewrite andb_true_r. reflexivity.
Qed.

Lemma cy_fix_info v a q : m_info (cy_cqm_fix_variable v a q) = remove_nth v (m_info q).
Proof. unfold cy_cqm_fix_variable. destruct (cy_marks_guard v a q); reflexivity. Qed.

Lemma cy_fix_obj v a q : m_obj (cy_cqm_fix_variable v a q) = m_fix v a (m_obj q).
Proof. unfold cy_cqm_fix_variable. destruct (cy_marks_guard v a q); reflexivity. Qed.

(* cy_cqm_fix_variable_energy: the Cython in-place fix gives a well-formed model without v whose
   objective and constraints, at every sample s of the remaining (re-indexed) variables, have the
   energy of the original at s extended by v := a; sense / rhs / weight / penalty untouched; the
   marker of a constraint is cleared exactly when v is BINARY, a is non-zero and the constraint
   has the variable (cy_cqm_fix_variable_marks) *)
Theorem cy_cqm_fix_variable_energy : forall v a q, CqmInv q -> (v < length (m_info q))%nat ->
  let q' := cy_cqm_fix_variable v a q in
  let ext := fun (s : sample) => upd (fun u => s (shift v u)) v a in
  CqmInv q'
  /\ m_info q' = remove_nth v (m_info q)
  /\ (forall s, energy (abs_expr (m_obj q')) s = energy (abs_expr (m_obj q)) (ext s))
  /\ Forall2 (fun k' k => (forall s, energy (abs_expr (mc_e k')) s = energy (abs_expr (mc_e k)) (ext s))
                          /\ con_attrs k' = con_attrs k
                          /\ mc_mark k' = mc_mark k && negb (cy_marks_guard v a q && mc_has_variable v k))
             (m_cons q') (m_cons q)
  /\ sbm q' (cqm_fix_variable v a q).
Proof.
  intros v a q [IO IC] Hv q' ext. unfold q'.
  assert (HL : length (remove_nth v (m_info q)) = pred (length (m_info q))) by (apply remove_nth_length; exact Hv).
  split; [|split; [|split; [|split]]].
  - split; rewrite cy_fix_info, HL.
    + rewrite cy_fix_obj. apply fix_inv; assumption.
    + rewrite cy_fix_cons. apply Forall_map. rewrite Forall_forall in *. intros k Hk. cbn [mc_e].
      apply fix_inv; [apply IC; exact Hk|exact Hv].
  - apply cy_fix_info.
  - intros s. rewrite cy_fix_obj. apply (fix_energy (length (m_info q))). exact IO.
  - rewrite cy_fix_cons. rewrite <- (map_id (m_cons q)) at 2. apply Forall2_map_same. intros k Hk.
    rewrite Forall_forall in IC. cbn [mc_e mc_mark]. split; [|split; reflexivity].
    intros s. apply (fix_energy (length (m_info q))). apply IC. exact Hk.
  - apply cy_fix_sbm. apply sbm_refl.
Qed.

Theorem cy_cqm_fix_variable_marks : forall v a q,
  marks_view (cy_cqm_fix_variable v a q)
  = map (fun k => mc_mark k && negb (is_binary (cq_vartype q v) && negb (Qc_eqb a 0) && mc_has_variable v k)) (m_cons q).
Proof. intros v a q. unfold marks_view. rewrite cy_fix_cons, map_map. reflexivity. Qed.

(* ---------- has_variable through one in-place fix ---------- *)
Definition hasv (v : nat) (e : mexpr) : bool := match idx_find v (e_idx e) with Some _ => true | None => false end.

Lemma hasv_In n e v : ExprInv n e -> (hasv v e = true <-> In v (e_vars e)).
Proof.
  intros I. unfold hasv. rewrite (inv_idx _ _ I v). destruct (index_of v (e_vars e)) as [i|] eqn:F.
  - split; [intros _|reflexivity]. apply index_of_nth in F. eapply nth_error_In. exact F.
  - apply index_of_None in F. split; [discriminate|contradiction].
Qed.

Lemma substitute_vars_idx v m c e :
  e_vars (m_substitute v m c e) = e_vars e /\ e_idx (m_substitute v m c e) = e_idx e.
Proof.
  unfold m_substitute. destruct (idx_find v (e_idx e)); [|split; reflexivity]. unfold base_substitute.
  match goal with |- context [fold_left ?f ?l ?a] => destruct (fold_left f l a) end. split; reflexivity.
Qed.

Lemma In_remove_nth_other {A} (l : list A) : forall i x d,
  nth_error l i = Some d -> x <> d -> In x l -> In x (remove_nth i l).
Proof.
  induction l as [|y r IH]; intros i x d Hi Hx Hin; [destruct Hin|].
  destruct i as [|j]; cbn [remove_nth nth_error] in *.
  - injection Hi as ->. destruct Hin as [->|H]; [contradiction|exact H].
  - destruct Hin as [->|H]; [left; reflexivity|right; apply (IH j x d); assumption].
Qed.

Lemma In_vars_fix n e v a w : ExprInv n e -> w <> v ->
  (In (shift v w) (e_vars (m_fix v a e)) <-> In w (e_vars e)).
Proof.
  intros I Hw. unfold m_fix. destruct (reindex_fields v (m_substitute v 0 a e)) as [Hv _]. rewrite Hv. clear Hv.
  destruct (substitute_vars_idx v 0 a e) as [SV SI]. unfold pre_reindex. rewrite SI, (inv_idx _ _ I v).
  pose proof (inv_nodup _ _ I) as ND.
  destruct (index_of v (e_vars e)) as [i|] eqn:F; cbn [snd e_vars]; rewrite SV.
  - apply index_of_nth in F. split.
    + intros H. apply in_map_iff in H. destruct H as [y [Ey Hy]].
      assert (Hyv : y <> v) by (intros ->; exact (remove_nth_notin _ _ _ ND F Hy)).
      apply (shift_inj v y w Hyv Hw) in Ey. subst y. exact (In_remove_nth _ _ _ Hy).
    + intros H. apply in_map. apply (In_remove_nth_other _ i w v); assumption.
  - apply index_of_None in F. split.
    + intros H. apply in_map_iff in H. destruct H as [y [Ey Hy]].
      assert (Hyv : y <> v) by (intros ->; contradiction).
      apply (shift_inj v y w Hyv Hw) in Ey. subst y. exact Hy.
    + intros H. apply in_map. exact H.
Qed.

Lemma hasv_fix n e v a w : ExprInv n e -> (v < n)%nat -> w <> v ->
  hasv (shift v w) (m_fix v a e) = hasv w e.
Proof.
  intros I Hv Hw. apply Bool.eq_iff_eq_true.
  rewrite (hasv_In (pred n) (m_fix v a e)) by (apply fix_inv; assumption).
  rewrite (hasv_In n e) by assumption. apply (In_vars_fix n); assumption.
Qed.

Lemma cq_vartype_fix v a q w : w <> v -> cq_vartype (cy_cqm_fix_variable v a q) (shift v w) = cq_vartype q w.
Proof. intros Hw. unfold cq_vartype. rewrite cy_fix_info, nth_error_remove_nth by exact Hw. reflexivity. Qed.

Lemma mark_hit_step v a q k k' r : ExprInv (length (m_info q)) (mc_e k) -> (v < length (m_info q))%nat ->
  mc_e k' = m_fix v a (mc_e k) -> ~ In v (map fst r) ->
  mark_hit (cy_cqm_fix_variable v a q) (map (fun f => (shift v (fst f), snd f)) r) k' = mark_hit q r k.
Proof.
  intros I Hv Ek. unfold mark_hit. induction r as [|[w b] r IH]; intros Hn; cbn [map existsb fst snd]; [reflexivity|].
  cbn [map fst In] in Hn. rewrite IH by (intros C; apply Hn; right; exact C).
  assert (Hw : w <> v) by (intros ->; apply Hn; left; reflexivity).
  rewrite cq_vartype_fix by exact Hw. unfold mc_has_variable at 1 3. rewrite Ek.
  fold (hasv (shift v w) (m_fix v a (mc_e k))). rewrite (hasv_fix (length (m_info q))) by assumption. reflexivity.
Qed.

Lemma cy_inplace_cons v a r q :
  cy_cqm_fix_variables_inplace ((v, a) :: r) q
  = cy_cqm_fix_variables_inplace (map (fun f => (shift v (fst f), snd f)) r) (cy_cqm_fix_variable v a q).
Proof. unfold cy_cqm_fix_variables_inplace. rewrite shift_fixings_cons. reflexivity. Qed.

(* cy_inplace_marks: the markers after fix_variables(fixed, inplace=True), in closed form over the
   ORIGINAL model: a marker survives iff no BINARY variable of the constraint was fixed to a
   non-zero value *)
Theorem cy_inplace_marks : forall fs q, CqmInv q -> FixOk (length (m_info q)) fs ->
  marks_view (cy_cqm_fix_variables_inplace fs q) = map (fun k => mc_mark k && negb (mark_hit q fs k)) (m_cons q).
Proof.
  intros fs. remember (length fs) as n eqn:Hn. revert fs Hn.
  induction n as [|n IH]; intros fs Hn q I OK; destruct fs as [|[v a] r]; cbn [length] in Hn; try discriminate.
  - unfold cy_cqm_fix_variables_inplace, shift_fixings, marks_view. cbn [shift_fixings_from fold_left].
    apply map_ext. intros k. unfold mark_hit. cbn [existsb negb]. rewrite andb_true_r. reflexivity.
  - destruct (FixOk_tail _ v a r OK) as [Hv [Hnv OK']]. rewrite cy_inplace_cons.
    destruct (cy_cqm_fix_variable_energy v a q I Hv) as [I1 [HI _]].
    rewrite IH; [|rewrite map_length; lia|exact I1|rewrite HI, remove_nth_length by exact Hv; exact OK'].
    rewrite cy_fix_cons, map_map. apply map_ext_in. intros k Hk. cbn [mc_mark].
    destruct I as [_ IC]. rewrite Forall_forall in IC.
    match goal with |- context [mark_hit (cy_cqm_fix_variable v a q) ?r1 ?k1] =>
      rewrite (mark_hit_step v a q k k1 r (IC k Hk) Hv eq_refl Hnv) end.
    unfold mark_hit at 2. cbn [existsb fst snd]. fold (mark_hit q r k). unfold cy_marks_guard.
    rewrite negb_orb, andb_assoc. reflexivity.
Qed.

(* ---------- what is_discrete() reports ---------- *)
Lemma combine_map_same {A B C} (f : A -> B) (g : A -> C) l :
  combine (map f l) (map g l) = map (fun x => (f x, g x)) l.
Proof. induction l as [|x l IH]; [reflexivity|]. cbn [map combine]. rewrite IH. reflexivity. Qed.

Lemma discrete_view_zip q :
  discrete_view q = map (fun p => fst p && snd p) (combine (marks_view q) (onehot_view q)).
Proof. unfold discrete_view, marks_view, onehot_view. rewrite combine_map_same, map_map. reflexivity. Qed.

Lemma forallb_ext_in' {A} (f g : A -> bool) l : (forall x, In x l -> f x = g x) -> forallb f l = forallb g l.
Proof.
  induction l as [|x l IH]; intros H; [reflexivity|]. cbn [forallb].
  rewrite (H x (or_introl eq_refl)), IH by (intros y Hy; apply H; right; exact Hy). reflexivity.
Qed.

Lemma vo_mc vt k : vo_is_onehot vt k = mc_is_onehot vt (mc_e k) (mc_sense k) (mc_rhs k).
Proof. reflexivity. Qed.

Lemma mc_is_onehot_ext vt1 vt2 e sn r : (forall v, In v (e_vars e) -> vt1 v = vt2 v) ->
  mc_is_onehot vt1 e sn r = mc_is_onehot vt2 e sn r.
Proof.
  intros H. unfold mc_is_onehot. f_equal. f_equal. apply forallb_ext_in'. intros v Hv. rewrite (H v Hv). reflexivity.
Qed.

Lemma vo_is_onehot_strip vt k : vo_is_onehot vt (strip k) = vo_is_onehot vt k.
Proof. destruct k. reflexivity. Qed.

Lemma onehot_view_sbm q1 q2 : sbm q1 q2 -> onehot_view q1 = onehot_view q2.
Proof.
  intros [H1 [_ H3]]. unfold onehot_view.
  transitivity (map (vo_is_onehot (cq_vartype q1)) (map strip (m_cons q1))).
  - rewrite map_map. apply map_ext. intros k. symmetry. apply vo_is_onehot_strip.
  - rewrite H3, map_map. apply map_ext. intros k. rewrite vo_is_onehot_strip, !vo_mc. apply mc_is_onehot_ext.
    intros v _. unfold cq_vartype. rewrite H1. reflexivity.
Qed.

(* discrete_view_inplace: per constraint, is_discrete() after the Cython in-place path =
   old marker  &&  no BINARY variable of the constraint fixed to a non-zero value  &&  is_onehot()
   of the fixed constraint *)
Theorem discrete_view_inplace : forall fs q, CqmInv q -> FixOk (length (m_info q)) fs ->
  discrete_view (cy_cqm_fix_variables_inplace fs q)
  = map (fun p => mc_mark (fst p) && negb (mark_hit q fs (fst p)) && snd p)
        (combine (m_cons q) (onehot_view (cqm_fix_variables_inplace fs q))).
Proof.
  intros fs q I OK.
  rewrite discrete_view_zip, (cy_inplace_marks fs q I OK), (onehot_view_sbm _ _ (cy_cqm_fix_variables_inplace_sbm fs q)).
  rewrite combine_map_l, map_map. reflexivity.
Qed.

(* discrete_view_copy: per constraint, is_discrete() after fix_variables(fixed, inplace=False) =
   old marker && is_onehot() of the fixed constraint *)
Theorem discrete_view_copy : forall fs q, CqmInv q -> FixOk (length (m_info q)) fs ->
  discrete_view (cqm_fix_variables_copy fs q)
  = map (fun p => mc_mark (fst p) && snd p) (combine (m_cons q) (onehot_view (cqm_fix_variables_copy fs q))).
Proof.
  intros fs q I OK. destruct (cqm_fix_copy_energy fs q I OK) as [[_ IC] _].
  set (c := cqm_fix_variables_copy fs q) in *.
  unfold discrete_view, onehot_view.
  assert (HC : m_cons c = map (fix_copy_con (vt_of_info (m_info c)) (old_to_new_of (length (m_info q)) (map fst fs))
                                            (assignments_of (length (m_info q)) fs)) (m_cons q)) by reflexivity.
  rewrite Forall_forall in IC. revert IC. rewrite HC. intros IC.
  rewrite !map_map. rewrite <- (map_id (m_cons q)) at 2. rewrite combine_map_same, map_map.
  apply map_ext_in. intros k Hk. cbn [fst snd].
  set (F := fix_copy_con _ _ _) in *.
  assert (IF : ExprInv (length (m_info c)) (mc_e (F k))) by (apply IC; apply in_map; exact Hk).
  assert (E : mc_mark (F k) = mc_mark k && vo_is_onehot (cq_vartype c) (F k)).
  { unfold F at 1. cbn [fix_copy_con mc_mark]. f_equal. rewrite vo_mc. apply mc_is_onehot_ext.
    intros v Hv. pose proof (inv_lt _ _ IF) as LT. rewrite Forall_forall in LT. specialize (LT v Hv).
    unfold vt_of_info, cq_vartype. destruct (nth_error (m_info c) v) eqn:N; [reflexivity|].
    apply nth_error_None in N. lia. }
  rewrite E. destruct (mc_mark k), (vo_is_onehot (cq_vartype c) (F k)); reflexivity.
Qed.

(* discrete_view_inplace_vs_copy: THE relation between the two paths.  Wherever is_onehot() of the
   fixed constraint is the same on both paths (it is a function of the fixed expression, sense and
   rhs, on which the two paths agree - onehot_agree below is executable, and holds on every model
   in which they build structurally equal expressions), the in-place path reports a constraint
   discrete iff the copy path does AND no BINARY variable of it was fixed to a non-zero value.
   In particular: reported discrete in place  =>  reported discrete by the copy. *)
Definition onehot_agree (fs : list (nat * Qc)) (q : mcqm) : bool :=
  list_eqb Bool.eqb (onehot_view (cqm_fix_variables_inplace fs q)) (onehot_view (cqm_fix_variables_copy fs q)).

Lemma list_eqb_bool_eq (a b : list bool) : list_eqb Bool.eqb a b = true -> a = b.
Proof.
  revert b. induction a as [|x a IH]; intros [|y b] H; cbn [list_eqb] in H; try discriminate; [reflexivity|].
  apply andb_true_iff in H. destruct H as [H1 H2]. apply Bool.eqb_prop in H1. rewrite H1, (IH b H2). reflexivity.
Qed.

Theorem discrete_view_inplace_vs_copy : forall fs q, CqmInv q -> FixOk (length (m_info q)) fs ->
  onehot_agree fs q = true ->
  discrete_view (cy_cqm_fix_variables_inplace fs q)
  = map (fun p => snd p && negb (mark_hit q fs (fst p)))
        (combine (m_cons q) (discrete_view (cqm_fix_variables_copy fs q))).
Proof.
  intros fs q I OK A. apply list_eqb_bool_eq in A.
  rewrite (discrete_view_inplace fs q I OK), (discrete_view_copy fs q I OK), A.
  generalize (onehot_view (cqm_fix_variables_copy fs q)). generalize (m_cons q).
  induction l as [|k l IH]; intros [|o os]; cbn [combine map]; try reflexivity.
  rewrite IH. cbn [fst snd]. f_equal.
  destruct (mc_mark k), (mark_hit q fs k), o; reflexivity.
Qed.

Corollary discrete_inplace_implies_copy : forall fs q j, CqmInv q -> FixOk (length (m_info q)) fs ->
  onehot_agree fs q = true ->
  nth j (discrete_view (cy_cqm_fix_variables_inplace fs q)) false = true ->
  nth j (discrete_view (cqm_fix_variables_copy fs q)) false = true.
Proof.
  intros fs q j I OK A. rewrite (discrete_view_inplace_vs_copy fs q I OK A).
  generalize (discrete_view (cqm_fix_variables_copy fs q)). generalize (m_cons q). revert j.
  induction j as [|j IH]; intros [|k l] [|d ds]; cbn [combine map nth]; try discriminate.
  - intros H. apply andb_true_iff in H. exact (proj1 H).
  - apply IH.
Qed.

(* ---------- Examples (each cross-checked against the real code, see the comments) ---------- *)
Definition ex_vars4 : list nat := [0; 1; 2; 3]%nat.
Definition ex_idx4 : imap := [(0, 0); (1, 1); (2, 2); (3, 3)]%nat.
(* objective x0+x1+x2+x3 ; constraint "c": x0 + x1 + x2 + x3 == 1, marked discrete (add_discrete) *)
Definition ex_d4 : mcqm :=
  mkM (repeat (mkI BINARY 0 1) 4) (mkE ex_vars4 ex_idx4 [1; 1; 1; 1] [] 0)
      [mkMC (mkE ex_vars4 ex_idx4 [1; 1; 1; 1] [] 0) 2 1 None 0 true].
(* 2*x0 + x1 + x2 - 2 == 1, marked by hand (lhs.mark_discrete(True)) although not one-hot *)
Definition ex_m3 : mcqm :=
  mkM (repeat (mkI BINARY 0 1) 3) e_empty
      [mkMC (mkE [0; 1; 2]%nat [(0, 0); (1, 1); (2, 2)]%nat [two; 1; 1] [] (- two)) 2 1 None 0 true].
(* 0*x0 + 0*x1 + 0*x2 == 0, marked: one-hot in the sense of constraint.h *)
Definition ex_z3 : mcqm :=
  mkM (repeat (mkI BINARY 0 1) 3) e_empty
      [mkMC (mkE [0; 1; 2]%nat [(0, 0); (1, 1); (2, 2)]%nat [0; 0; 0] [] 0) 2 0 None 0 true].

Definition both_views (fs : list (nat * Qc)) (q : mcqm) : list bool * list bool :=
  (discrete_view (cy_cqm_fix_variables_inplace fs q), discrete_view (cqm_fix_variables_copy fs q)).
Definition views_eqb (a b : list bool * list bool) : bool :=
  list_eqb Bool.eqb (fst a) (fst b) && list_eqb Bool.eqb (snd a) (snd b).

(* real code: fix x0 := 0 -> is_discrete() True on both paths; x0 := 1 -> False on both paths
   ("1 + x1 + x2 + x3 == 1" is not one-hot: offset) *)
Example ex_d4_sensible :
  views_eqb (both_views [(0%nat, 0)] ex_d4) ([true], [true])
  && views_eqb (both_views [(0%nat, 1)] ex_d4) ([false], [false])
  && views_eqb (both_views [(2%nat, 0); (0%nat, 0)] ex_d4) ([true], [true])
  && views_eqb (both_views [(2%nat, 0); (0%nat, 1)] ex_d4) ([false], [false]) = true.
Proof. vm_compute. reflexivity. Qed.

(* a constraint that is marked but not one-hot can BECOME discrete by a fix (both paths):
   real code 2*x0 + x1 + x2 == 1 marked, fix x0 := 0 -> is_discrete() True, True *)
Example ex_becomes_discrete :
  let q := mkM (repeat (mkI BINARY 0 1) 3) e_empty
               [mkMC (mkE [0; 1; 2]%nat [(0, 0); (1, 1); (2, 2)]%nat [two; 1; 1] [] 0) 2 1 None 0 true] in
  list_eqb Bool.eqb (discrete_view q) [false] && views_eqb (both_views [(0%nat, 0)] q) ([true], [true]) = true.
Proof. vm_compute. reflexivity. Qed.

(* discrete_paths_disagree_refuted: the two paths do NOT always report the same discreteness.
   Witnesses (real code: is_discrete() False in place, True on the copy, is_onehot() True on both):
     (1) add_discrete over 4 binaries, fix {x0: 1, x1: -1}   (offsets cancel; also {x0: .5, x1: -.5})
     (2) 2*x0 + x1 + x2 - 2 == 1 marked by hand, fix {x0: 1}
     (3) 0*x0 + 0*x1 + 0*x2 == 0 marked, fix {x0: 1} *)
Example discrete_paths_disagree_refuted :
  exists fs q, forallb (fun k => expr_ok (length (m_info q)) (mc_e k)) (m_cons q) = true
               /\ onehot_agree fs q = true
               /\ discrete_view (cy_cqm_fix_variables_inplace fs q) = [false]
               /\ discrete_view (cqm_fix_variables_copy fs q) = [true].
Proof. exists [(0%nat, 1); (1%nat, - (1))], ex_d4. vm_compute. repeat split; reflexivity. Qed.

Example discrete_paths_disagree_more :
  views_eqb (both_views [(0%nat, half); (1%nat, - half)] ex_d4) ([false], [true])
  && views_eqb (both_views [(0%nat, 1)] ex_m3) ([false], [true])
  && views_eqb (both_views [(0%nat, 1)] ex_z3) ([false], [true])
  && onehot_agree [(0%nat, 1)] ex_m3 && onehot_agree [(0%nat, 1)] ex_z3 = true.
Proof. vm_compute. reflexivity. Qed.

(* ---------- flip_variable of the CQM (constrained.py) and what is_discrete() reports ---------- *)
Lemma Forall2_nth_l {A B} (R : A -> B -> Prop) l1 l2 : Forall2 R l1 l2 ->
  forall j a, nth_error l1 j = Some a -> exists b, nth_error l2 j = Some b /\ R a b.
Proof.
  induction 1 as [|x y l1 l2 Hxy F IH]; intros [|j] a Hj; cbn [nth_error] in *; try discriminate.
  - injection Hj as <-. exists y. split; [reflexivity|exact Hxy].
  - apply IH. exact Hj.
Qed.

(* py_cqm_flip_discrete_cleared: a constraint that was reported discrete and contains the flipped
   variable is no longer reported discrete (whatever form the flipped expression has), and flipping
   back does not restore it: its marker is gone (VartypeOpsFacts.py_cqm_flip_variable_energy) *)
Theorem py_cqm_flip_discrete_cleared : forall v q q' j k, CqmInv q -> py_cqm_flip_variable v q = Some q' ->
  nth_error (m_cons q) j = Some k -> nth j (discrete_view q) false = true -> In v (e_vars (mc_e k)) ->
  nth j (marks_view q') true = false /\ nth j (discrete_view q') true = false.
Proof.
  intros v q q' j k I H Hj D Hin.
  destruct (py_cqm_flip_variable_energy v q q' I H) as [_ [_ [_ F]]].
  destruct (Forall2_nth_l _ _ _ F j k Hj) as [k' [Hj' [_ M]]].
  assert (Dk : mc_mark k && vo_is_onehot (cq_vartype q) k = true).
  { unfold discrete_view in D. rewrite (nth_error_nth _ _ _ (map_nth_error _ _ _ Hj)) in D. exact D. }
  assert (Mk : mc_mark k' = false).
  { rewrite M, Dk. apply andb_true_iff in Dk. rewrite (proj1 Dk).
    rewrite (proj2 (existsb_eqb_In v (e_vars (mc_e k))) Hin). reflexivity. }
  unfold marks_view, discrete_view.
  rewrite (nth_error_nth _ _ _ (map_nth_error _ _ _ Hj')), (nth_error_nth _ _ _ (map_nth_error _ _ _ Hj')).
  rewrite Mk. split; reflexivity.
Qed.

(* a constraint without the flipped variable keeps its marker *)
Theorem py_cqm_flip_marks_elsewhere : forall v q q' j k, CqmInv q -> py_cqm_flip_variable v q = Some q' ->
  nth_error (m_cons q) j = Some k -> ~ In v (e_vars (mc_e k)) ->
  nth j (marks_view q') false = mc_mark k.
Proof.
  intros v q q' j k I H Hj Hn.
  destruct (py_cqm_flip_variable_energy v q q' I H) as [_ [_ [_ F]]].
  destruct (Forall2_nth_l _ _ _ F j k Hj) as [k' [Hj' [_ M]]].
  unfold marks_view. rewrite (nth_error_nth _ _ _ (map_nth_error _ _ _ Hj')), M.
  destruct (existsb (Nat.eqb v) (e_vars (mc_e k))) eqn:E; [apply existsb_eqb_In in E; contradiction|].
  rewrite andb_false_r. apply andb_true_r.
Qed.

Print Assumptions py_flip_variable_energy.
Print Assumptions py_flip_variable_coeffs.
Print Assumptions py_flip_variable_none_iff.
Print Assumptions py_flip_variable_involutive.
Print Assumptions py_flip_variable_noself.
Print Assumptions cy_cqm_fix_variable_energy.
Print Assumptions cy_cqm_fix_variable_marks.
Print Assumptions cy_cqm_fix_variables_inplace_sbm.
Print Assumptions cy_inplace_marks.
Print Assumptions discrete_view_inplace.
Print Assumptions discrete_view_copy.
Print Assumptions discrete_view_inplace_vs_copy.
Print Assumptions discrete_inplace_implies_copy.
Print Assumptions discrete_paths_disagree_refuted.
Print Assumptions py_cqm_flip_discrete_cleared.
Print Assumptions py_cqm_flip_marks_elsewhere.
