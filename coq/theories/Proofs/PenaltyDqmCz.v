(* C16: DQM.add_linear_inequality_constraint(cross_zero=True) - what the added objective admits, per slack method *)
From Coq Require Import List ZArith Bool Arith Lia.
From Dimod Require Import Model.Comb Model.Penalty Proofs.CombFacts Proofs.PenaltySlack Proofs.PenaltyLog10.
Import ListNotations.
Local Open Scope Z_scope.

Lemma add_case_to_last_snoc (l : list (list Z)) x v : add_case_to_last (l ++ [x]) v = l ++ [x ++ [v]].
Proof. unfold add_case_to_last. rewrite rev_app_distr. cbn [rev app]. rewrite rev_involutive. reflexivity. Qed.

Lemma choice_sums_single d t : In t (choice_sums [d]) <-> In t d.
Proof.
  rewrite choice_sums_cons. cbn [choice_sums In]. split.
  - intros [x [y [Hx [[Hy|[]] Ht]]]]. subst. replace (x + 0) with x by lia. exact Hx.
  - intros H. exists t, 0. split; [exact H|]. split; [left; reflexivity|lia].
Qed.

(* ---------- log2: one more two-case variable worth ub_c ---------- *)
Theorem dqm_cz_log2_gap U A ubc : 0 < U ->
  let vals := dqm_slack_values_cz Log2 U ubc true in
  let allowed := (ubc - U <= A <= ubc) \/ (- U <= A <= 0) in
  (allowed -> exists sl, In sl (choice_sums vals) /\ pen_val A sl ubc = 0) /\
  (~ allowed -> forall sl, In sl (choice_sums vals) -> 1 <= pen_val A sl ubc).
Proof.
  intros HU vals allowed. unfold vals, allowed, dqm_slack_values_cz, pen_val.
  assert (Hin : forall sl, In sl (choice_sums (dqm_log2_values U ++ [[0; ubc]]))
                           <-> exists t z, 0 <= t <= U /\ (z = 0 \/ z = ubc) /\ sl = t + z).
  { intros sl. rewrite choice_sums_app. split.
    - intros [x [y [Hx [Hy Hs]]]]. apply (dqm_log2_exact U HU) in Hx. apply choice_sums_single in Hy.
      exists x, y. split; [exact Hx|]. split; [|exact Hs]. cbn [In] in Hy. destruct Hy as [Hy|[Hy|[]]]; [left|right]; lia.
    - intros [t [z [Ht [Hz Hs]]]]. exists t, z. split; [apply (dqm_log2_exact U HU); exact Ht|]. split; [|exact Hs].
      apply choice_sums_single. cbn [In]. destruct Hz as [->| ->]; tauto. }
  split.
  - intros [HA|HA].
    + exists (ubc - A). split; [apply Hin; exists (ubc - A), 0; lia|nia].
    + exists (- A + ubc). split; [apply Hin; exists (- A), ubc; lia|nia].
  - intros Hna sl Hsl. apply Hin in Hsl. destruct Hsl as [t [z [Ht [Hz ->]]]].
    assert (Hne : A + (t + z) - ubc <> 0) by (destruct Hz as [->| ->]; lia). nia.
Qed.

(* ---------- linear: one more case worth ub_c: exactly "zero is added to the domain" ---------- *)
Theorem dqm_cz_linear_gap U A ubc : 0 < U ->
  let vals := dqm_slack_values_cz Linear U ubc true in
  let allowed := (ubc - U <= A <= ubc) \/ A = 0 in
  (allowed -> exists sl, In sl (choice_sums vals) /\ pen_val A sl ubc = 0) /\
  (~ allowed -> forall sl, In sl (choice_sums vals) -> 1 <= pen_val A sl ubc).
Proof.
  intros HU vals allowed. unfold vals, allowed, dqm_slack_values_cz, dqm_linear_values, pen_val.
  change [map Z.of_nat (seq 0 (S (Z.to_nat U)))] with ([] ++ [map Z.of_nat (seq 0 (S (Z.to_nat U)))]).
  rewrite add_case_to_last_snoc. cbn [app].
  assert (Hin : forall sl, In sl (choice_sums [map Z.of_nat (seq 0 (S (Z.to_nat U))) ++ [ubc]])
                           <-> (0 <= sl <= U) \/ sl = ubc).
  { intros sl. rewrite choice_sums_single, in_app_iff. cbn [In]. split.
    - intros [H|[H|[]]]; [left|right; lia]. apply in_map_iff in H. destruct H as [n [Hn Hs]]. apply in_seq in Hs. lia.
    - intros [H| ->]; [left|right; left; reflexivity]. apply in_map_iff. exists (Z.to_nat sl). split; [lia|]. apply in_seq. lia. }
  split.
  - intros [HA| ->].
    + exists (ubc - A). split; [apply Hin; left; lia|nia].
    + exists ubc. split; [apply Hin; right; reflexivity|nia].
  - intros Hna sl Hsl. apply Hin in Hsl.
    assert (Hne : A + sl - ubc <> 0) by (destruct Hsl as [H| ->]; lia). nia.
Qed.

(* ---------- log10: the last digit variable gets one more case worth ub_c ---------- *)
Theorem dqm_cz_log10_gap U A ubc : 1 <= U ->
  let p := 10 ^ Z.of_nat (pred (ndigits (Z.to_nat U) U)) in
  let vals := dqm_slack_values_cz Log10 U ubc true in
  let allowed := (ubc - log10_top U <= A <= ubc) \/ (- (p - 1) <= A <= 0) in
  (allowed -> exists sl, In sl (choice_sums vals) /\ pen_val A sl ubc = 0) /\
  (~ allowed -> forall sl, In sl (choice_sums vals) -> 1 <= pen_val A sl ubc).
Proof.
  intros H1 p vals allowed. unfold vals, allowed, p, dqm_slack_values_cz, dqm_log10_values, log10_top, pen_val.
  destruct (ndigits_U U H1) as [n [Hn [Hlo Hhi]]]. rewrite Hn. cbn [pred].
  rewrite seq_S, map_app. cbn [map plus]. rewrite add_case_to_last_snoc.
  pose proof (pow10_pos n) as Hp. set (q := 10 ^ Z.of_nat n) in *.
  assert (Hd0 : 0 <= U / q) by (apply Z.div_pos; lia).
  assert (Hin : forall sl, In sl (choice_sums (map (log10_digit_values U) (seq 0 n) ++ [log10_digit_values U n ++ [ubc]]))
                           <-> exists x, 0 <= x < q /\ ((exists k, 0 <= k <= U / q /\ sl = x + k * q) \/ sl = x + ubc)).
  { intros sl. rewrite choice_sums_app. split.
    - intros [x [y [Hx [Hy Hs]]]]. apply (proj1 (lower_digits U n Hlo x)) in Hx. apply (proj1 (choice_sums_single _ _)) in Hy.
      exists x. split; [exact Hx|]. apply in_app_or in Hy. destruct Hy as [Hy|Hy]; [|cbn [In] in Hy; destruct Hy as [Hy|[]]].
      + left. apply (digit_values_lead U n y (conj Hlo Hhi)) in Hy. destruct Hy as [k [Hk Hy]]. exists k. split; [exact Hk|]. fold q in Hy. lia.
      + right. lia.
    - intros [x [Hx [[k [Hk Hs]]|Hs]]].
      + exists x, (k * q). split; [apply (lower_digits U n Hlo); exact Hx|]. split; [|exact Hs].
        apply choice_sums_single, in_or_app. left. apply (digit_values_lead U n _ (conj Hlo Hhi)). exists k. split; [exact Hk|reflexivity].
      + exists x, ubc. split; [apply (lower_digits U n Hlo); exact Hx|]. split; [|exact Hs].
        apply choice_sums_single, in_or_app. right. left. reflexivity. }
  split.
  - intros [HA|HA].
    + assert (Ht : 0 <= ubc - A < (U / q + 1) * q) by lia.
      apply (proj2 (digit_combine q (U / q) (ubc - A) Hp Hd0)) in Ht. destruct Ht as [x [k [Hx [Hk Ht]]]].
      exists (ubc - A). split; [apply Hin; exists x; split; [exact Hx|left; exists k; split; [exact Hk|exact Ht]]|nia].
    + exists (- A + ubc). split; [apply Hin; exists (- A); split; [lia|right; reflexivity]|nia].
  - intros Hna sl Hsl. apply Hin in Hsl. destruct Hsl as [x [Hx [[k [Hk Hs]]|Hs]]]; subst sl.
    + assert (Hr : 0 <= x + k * q < (U / q + 1) * q)
        by (apply (proj1 (digit_combine q (U / q) _ Hp Hd0)); exists x, k; split; [exact Hx|split; [exact Hk|reflexivity]]).
      assert (Hne : A + (x + k * q) - ubc <> 0) by lia. nia.
    + assert (Hne : A + (x + ubc) - ubc <> 0) by lia. nia.
Qed.
