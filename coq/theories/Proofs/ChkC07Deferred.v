(* What a passing CStack / CParse case of Model/ChkC07.v establishes, in terms of the theorems:
   the table the implementation resolved to is the immediate (non-deferred) stack of adjustments
   of the base's table, and the pending flag it showed is the base future's. *)
From Coq Require Import List ZArith QArith Qcanon Bool Arith.
From Dimod Require Import Base.Util Model.Poly Model.HPoly Model.Samples Model.Solve Gen.Gen_Deferred
     Model.Deferred Model.ParseInit Model.ChkC07 Proofs.DeferredFacts Proofs.ParseInitFacts.
Import ListNotations.
Open Scope Qc_scope.

Theorem check_stack_sound kind pending_seen vars levels base res :
  check_stack kind pending_seen vars levels base res = true ->
  res_equiv (stack_result (map (level_of vars) levels) base) res = true /\
  pending_seen = negb (match kind with FNone => true | FObject hd d => negb hd || d end).
Proof.
  unfold check_stack. cbv zeta. rewrite andb_true_iff.
  rewrite stack_ss_resolve, stack_ss_done, base_ss_resolve, base_ss_done.
  intros [Hp Hr]. split; [exact Hr|]. apply eqb_prop in Hp. symmetry. exact Hp.
Qed.

(* a passing CParse case with a returned sample set: the model accepted, and the seen table is
   honest for the problem's energy up to res_equiv with a table whose energies are the problem's *)
Theorem check_parse_sound g num_reads e spin vars init seen r :
  check_parse g num_reads e spin vars init seen = true -> seen = Some r ->
  exists m, honest e m /\ res_equiv m r = true.
Proof.
  unfold check_parse. cbv zeta. intros H ->.
  destruct (parse_initial_states _ _ _ _ _ _ _) as [m|] eqn:E; [|discriminate].
  apply andb_true_iff in H. destruct H as [H _].
  exists m. split; [|exact H]. eapply parse_honest. exact E.
Qed.
