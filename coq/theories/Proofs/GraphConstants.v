(* C17: the constants of the independent-set generators, TRANSLATED from generators/graph.py
   (Gen/Gen_Graph.v), are the ones the model uses *)
From Coq Require Import List ZArith QArith Qcanon Bool Arith.
From Dimod Require Import Base.Util Model.Poly Model.Gates Gen.Gen_Graph.
Import ListNotations.
Open Scope Qc_scope.

Theorem graph_constants_are_model :
  is_edge_bias = 1 /\ is_node_bias = 0 /\ mis_node_weight = 1 /\ mwis_default_weight = 1 /\
  mwis_unweighted_max = 1 /\ mwis_empty_max = 1 /\ mwis_offset = 0.
Proof. repeat split; apply Qc_is_canon; reflexivity. Qed.

(* the model polynomial written with the source's constants *)
Theorem mwis_poly_is_source s edges ws :
  mwis_poly s edges ws
  = mkPoly mwis_offset (map (fun t => (fst t, - snd t)) ws) (map (fun e => (fst e, snd e, s * is_edge_bias)) edges).
Proof.
  destruct graph_constants_are_model as [E1 [_ [_ [_ [_ [_ E7]]]]]]. rewrite E1, E7. unfold mwis_poly. f_equal.
  apply map_ext. intros e. f_equal. ring.
Qed.

Theorem default_weights_are_source edges :
  effective_weights edges [] = map (fun v => (v, mwis_default_weight)) (edge_nodes edges) /\
  max_weight [] = mwis_empty_max.
Proof.
  destruct graph_constants_are_model as [_ [_ [_ [E4 [_ [E6 _]]]]]]. rewrite E4, E6. split; reflexivity.
Qed.
