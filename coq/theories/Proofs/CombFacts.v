(* Combinatorial cores: summary statements over CombSlack / CombPack / CombGray. *)
From Coq Require Import List ZArith NArith Bool Arith Lia Permutation.
From Dimod Require Import Model.Comb.
From Dimod Require Export Proofs.CombSlack Proofs.CombPack Proofs.CombGray.
Import ListNotations.

(* ---- slack coefficients ---- *)

Lemma slack_coeffs_positive_sum (U : Z) : (0 < U)%Z ->
  Forall (fun c => (0 < c)%Z) (slack_coeffs U) /\
  dot (slack_coeffs U) (repeat true (length (slack_coeffs U))) = U.
Proof. intros H. split; [apply slack_coeffs_pos; exact H|apply slack_coeffs_all_true]. Qed.

Lemma slack_coeffs_bounded (U : Z) : (0 < U)%Z ->
  forall bits, length bits = length (slack_coeffs U) -> (0 <= dot (slack_coeffs U) bits <= U)%Z.
Proof. intros H bits _. apply slack_coeffs_range. exact H. Qed.

Lemma slack_coeffs_cover (U : Z) : (0 < U)%Z ->
  forall t, (0 <= t <= U)%Z ->
  length (slack_bits U t) = length (slack_coeffs U) /\ dot (slack_coeffs U) (slack_bits U t) = t.
Proof. intros H t Ht. split; [apply slack_bits_length|apply slack_bits_dot; assumption]. Qed.

Lemma slack_coeffs_cover_ex (U : Z) : (0 < U)%Z ->
  forall t, (0 <= t <= U)%Z ->
  exists bits, length bits = length (slack_coeffs U) /\ dot (slack_coeffs U) bits = t.
Proof. intros H t Ht. exists (slack_bits U t). apply slack_coeffs_cover; assumption. Qed.

(* exactly the values 0..U are representable *)
Lemma slack_coeffs_exact (U : Z) : (0 < U)%Z ->
  forall t, (exists bits, length bits = length (slack_coeffs U) /\ dot (slack_coeffs U) bits = t)
            <-> (0 <= t <= U)%Z.
Proof.
  intros H t. split.
  - intros [bits [_ <-]]. apply slack_coeffs_range. exact H.
  - apply slack_coeffs_cover_ex. exact H.
Qed.

Lemma binary_encoding_facts (ub : Z) : (2 <= ub)%Z ->
  binary_encoding_coeffs ub = slack_coeffs ub /\
  Forall (fun c => (0 < c)%Z) (binary_encoding_coeffs ub) /\
  dot (binary_encoding_coeffs ub) (repeat true (length (binary_encoding_coeffs ub))) = ub /\
  (forall bits, length bits = length (binary_encoding_coeffs ub) ->
                (0 <= dot (binary_encoding_coeffs ub) bits <= ub)%Z) /\
  (forall t, (0 <= t <= ub)%Z ->
     exists bits, length bits = length (binary_encoding_coeffs ub) /\
                  dot (binary_encoding_coeffs ub) bits = t).
Proof.
  intros H. split; [apply binary_encoding_coeffs_eq|].
  split; [apply binary_encoding_pos; exact H|].
  split; [apply binary_encoding_all_true; exact H|].
  split; [intros bits _; apply binary_encoding_range; exact H|].
  intros t Ht. apply binary_encoding_coverage; assumption.
Qed.

(* ---- plan_inequality ---- *)

Lemma plan_inequality_sound (a : list Z) (const lb ub : Z) (x : list bool) :
  length x = length a ->
  let A := dot a x in
  let feasible := (lb <= A + const <= ub)%Z in
  (sum_neg a <= A <= sum_pos a)%Z /\
  match plan_inequality a const lb ub with
  | Skip => feasible
  | Infeasible => ~ feasible
  | Equality ubc => feasible <-> A = ubc
  | Slack ubc cs =>
      (feasible -> exists s, length s = length cs /\ ineq_penalty a x cs s ubc = 0%Z) /\
      (~ feasible -> forall s, length s = length cs -> (1 <= ineq_penalty a x cs s ubc)%Z) /\
      (forall s, (0 <= ineq_penalty a x cs s ubc)%Z)
  end.
Proof.
  intros _. cbv zeta. split; [apply dot_sum_bounds|].
  destruct (plan_inequality a const lb ub) as [| |ubc|ubc cs] eqn:E.
  - apply (plan_skip_sound a const lb ub x E).
  - apply (plan_infeasible_sound a const lb ub x E).
  - apply (plan_equality_sound a const lb ub x ubc E).
  - apply (plan_slack_sound a const lb ub x ubc cs E).
Qed.

(* ---- combinations ---- *)

Lemma combinations_energy_facts (k : Z) (x : list bool) :
  combinations_energy k x = ((count_true x - k) * (count_true x - k))%Z /\
  (combinations_energy k x = 0%Z <-> count_true x = k) /\
  (count_true x <> k -> (1 <= combinations_energy k x)%Z).
Proof.
  split; [apply combinations_energy_spec|].
  split; [apply combinations_energy_zero_iff|apply combinations_energy_violated].
Qed.

(* ---- Gray code ---- *)

Lemma graycode_each_once (n : nat) :
  length (graycode n) = 2 ^ n /\
  Permutation (graycode n) (all_bitvectors n) /\
  NoDup (graycode n) /\
  (forall v, In v (graycode n) <-> length v = n).
Proof.
  split; [apply graycode_length|]. split; [apply graycode_perm|].
  split; [apply graycode_NoDup|apply graycode_complete].
Qed.
