(* Counting: every off-diagonal interaction is stored twice, every self loop
   once, so num_interactions loses nothing to the integer division. *)
From Coq Require Import List ZArith QArith Qcanon Bool Arith Lia Sorted.
From Dimod Require Import Base.Util Model.Poly Model.Adj Proofs.AdjNb Proofs.AdjInv Proofs.AdjRW.
Import ListNotations.
Local Open Scope nat_scope.

Definition b2n (b : bool) : nat := if b then 1 else 0.
Definition nsum {A} (f : A -> nat) (l : list A) : nat := fold_right Nat.add 0 (map f l).
Definition cnt (p : nat -> bool) (n : nbh) : nat := length (filter (fun e => p (fst e)) n).
Definition hasb (w : nat) (n : nbh) : bool := match nb_get w n with Some _ => true | None => false end.

Lemma nsum_cons {A} (f : A -> nat) x l : nsum f (x :: l) = f x + nsum f l.
Proof. reflexivity. Qed.

Lemma nsum_app {A} (f : A -> nat) l1 l2 : nsum f (l1 ++ l2) = nsum f l1 + nsum f l2.
Proof. induction l1 as [|x l IH]; [reflexivity|]. cbn [app]. rewrite !nsum_cons, IH. lia. Qed.

Lemma nsum_add {A} (f g : A -> nat) l : nsum (fun x => f x + g x) l = nsum f l + nsum g l.
Proof. induction l as [|x l IH]; [reflexivity|]. rewrite !nsum_cons, IH. lia. Qed.

Lemma nsum_ext_in {A} (f g : A -> nat) l : (forall x, In x l -> f x = g x) -> nsum f l = nsum g l.
Proof. intros H. unfold nsum. f_equal. apply map_ext_in. exact H. Qed.

Lemma nsum_zero {A} (l : list A) : nsum (fun _ => 0) l = 0.
Proof. induction l as [|x l IH]; [reflexivity|]. rewrite nsum_cons, IH. reflexivity. Qed.

Lemma nsum_swap {A B} (F : A -> B -> nat) l1 l2 :
  nsum (fun u => nsum (fun w => F u w) l2) l1 = nsum (fun w => nsum (fun u => F u w) l1) l2.
Proof.
  induction l1 as [|x l1 IH].
  - cbn [nsum map fold_right]. symmetry. apply nsum_zero.
  - rewrite nsum_cons, IH. rewrite <- nsum_add. apply nsum_ext_in. intros w _. reflexivity.
Qed.

Lemma nsum_single (p : nat -> bool) k N :
  k < N -> nsum (fun w => b2n (p w && (w =? k))) (seq 0 N) = b2n (p k).
Proof.
  intros Hk. replace N with (k + S (N - S k)) by lia. rewrite seq_app. cbn [seq].
  rewrite nsum_app, nsum_cons. rewrite Nat.add_0_l, Nat.eqb_refl, andb_true_r.
  rewrite (nsum_ext_in _ (fun _ => 0) (seq 0 k)), nsum_zero.
  - rewrite (nsum_ext_in _ (fun _ => 0) (seq (S k) _)), nsum_zero; [lia|].
    intros w Hw. apply in_seq in Hw. destruct (Nat.eqb_spec w k); [lia|]. rewrite andb_false_r. reflexivity.
  - intros w Hw. apply in_seq in Hw. destruct (Nat.eqb_spec w k); [lia|]. rewrite andb_false_r. reflexivity.
Qed.

Lemma nsum_nth {A} (f : A -> nat) (l : list A) d :
  nsum f l = nsum (fun u => f (nth u l d)) (seq 0 (length l)).
Proof.
  induction l as [|x l IH]; [reflexivity|]. cbn [length seq]. rewrite !nsum_cons. cbn [nth].
  rewrite IH. f_equal. rewrite <- seq_shift. unfold nsum. rewrite map_map. reflexivity.
Qed.

Lemma length_filter_nsum {A} (p : A -> bool) l : length (filter p l) = nsum (fun x => b2n (p x)) l.
Proof.
  induction l as [|x l IH]; [reflexivity|]. cbn [filter]. rewrite nsum_cons, <- IH.
  destruct (p x); reflexivity.
Qed.

Lemma length_flat_map {A B} (F : A -> list B) l : length (flat_map F l) = nsum (fun x => length (F x)) l.
Proof.
  induction l as [|x l IH]; [reflexivity|]. cbn [flat_map]. rewrite app_length, nsum_cons, IH. reflexivity.
Qed.

(* ---------- one neighbourhood ---------- *)
Lemma hasb_cons w k b r :
  ksorted ((k, b) :: r) -> hasb w ((k, b) :: r) = (w =? k) || hasb w r.
Proof.
  intros Hs. apply ksorted_cons in Hs. destruct Hs as [Hall _]. unfold hasb. cbn [nb_get].
  destruct (Nat.ltb_spec k w) as [L|L].
  - destruct (Nat.eqb_spec w k); [lia|]. reflexivity.
  - rewrite (nb_get_lt_all w k r Hall L). rewrite orb_false_r.
    rewrite (Nat.eqb_sym w k). destruct (k =? w); reflexivity.
Qed.

Lemma hasb_head k b r : ksorted ((k, b) :: r) -> hasb k r = false.
Proof.
  intros Hs. apply ksorted_cons in Hs. destruct Hs as [Hall _]. unfold hasb.
  rewrite (nb_get_lt_all k k r Hall) by lia. reflexivity.
Qed.

Lemma cnt_as_sum p n N :
  ksorted n -> (forall e, In e n -> fst e < N) ->
  cnt p n = nsum (fun w => b2n (p w && hasb w n)) (seq 0 N).
Proof.
  induction n as [|[k b] r IH]; intros Hs Hb.
  - cbn. rewrite (nsum_ext_in _ (fun _ => 0)); [symmetry; apply nsum_zero|].
    intros w _. rewrite andb_false_r. reflexivity.
  - assert (Hk : k < N) by (apply (Hb (k, b)); left; reflexivity).
    rewrite (nsum_ext_in _ (fun w => b2n (p w && (w =? k)) + b2n (p w && hasb w r))).
    + rewrite nsum_add, nsum_single by exact Hk. rewrite <- IH.
      * unfold cnt. cbn [filter fst]. destruct (p k); reflexivity.
      * eapply ksorted_tail, Hs.
      * intros e He. apply Hb. right. exact He.
    + intros w _. rewrite hasb_cons by exact Hs. destruct (Nat.eqb_spec w k) as [->|Nw].
      * rewrite (hasb_head k b r Hs). destruct (p k); reflexivity.
      * cbn [orb]. rewrite andb_false_r. reflexivity.
Qed.

Lemma cnt_split u n :
  length n = cnt (fun w => w <? u) n + cnt (fun w => w =? u) n + cnt (fun w => u <? w) n.
Proof.
  unfold cnt. induction n as [|[w b] r IH]; [reflexivity|]. cbn [filter fst length].
  destruct (Nat.ltb_spec w u); destruct (Nat.eqb_spec w u); destruct (Nat.ltb_spec u w);
    cbn [length]; lia.
Qed.

Lemma cnt_le u n :
  cnt (fun w => w <=? u) n = cnt (fun w => w <? u) n + cnt (fun w => w =? u) n.
Proof.
  unfold cnt. induction n as [|[w b] r IH]; [reflexivity|]. cbn [filter fst].
  destruct (Nat.leb_spec w u); destruct (Nat.ltb_spec w u); destruct (Nat.eqb_spec w u);
    cbn [length]; lia.
Qed.

(* ---------- the model ---------- *)
Definition stored (m : qm) : nat := fold_right Nat.add 0 (map (@length _) (adj m)).

Section Counts.
  Variable m : qm.
  Hypothesis HI : Inv m.
  Let N := nvars m.
  Let low := nsum (fun u => cnt (fun w => w <? u) (nb m u)) (seq 0 N).
  Let dia := nsum (fun u => cnt (fun w => w =? u) (nb m u)) (seq 0 N).
  Let upp := nsum (fun u => cnt (fun w => u <? w) (nb m u)) (seq 0 N).

  Lemma nb_keys_lt u e : In e (nb m u) -> fst e < N.
  Proof.
    intros He. destruct e as [w b]. cbn [fst].
    apply (nb_get_In_2 w _ b (Inv_sorted m u HI)) in He.
    apply (Inv_bound m u w b HI He).
  Qed.

  Lemma cnt_nb p u :
    cnt p (nb m u) = nsum (fun w => b2n (p w && has_interaction m u w)) (seq 0 N).
  Proof. apply cnt_as_sum; [apply Inv_sorted, HI|apply nb_keys_lt]. Qed.

  Lemma low_eq_upp : low = upp.
  Proof.
    unfold low, upp.
    rewrite (nsum_ext_in _ (fun u => nsum (fun w => b2n ((w <? u) && has_interaction m u w)) (seq 0 N)))
      by (intros u _; apply cnt_nb).
    rewrite (nsum_ext_in (fun u => cnt _ _) (fun u => nsum (fun w => b2n ((u <? w) && has_interaction m u w)) (seq 0 N)))
      by (intros u _; apply (cnt_nb (fun w => u <? w))).
    rewrite (nsum_swap (fun u w => b2n ((u <? w) && has_interaction m u w))).
    apply nsum_ext_in. intros u _. apply nsum_ext_in. intros w _.
    rewrite (has_interaction_sym m w u HI). reflexivity.
  Qed.

  Lemma dia_self : dia = self_loops m.
  Proof.
    unfold dia, self_loops. rewrite length_filter_nsum. fold N.
    apply nsum_ext_in. intros u Hu. apply in_seq in Hu. rewrite (cnt_nb (fun w => w =? u)).
    rewrite (nsum_ext_in _ (fun w => b2n (has_interaction m u w && (w =? u)))).
    - apply (nsum_single (fun w => has_interaction m u w)). lia.
    - intros w _. rewrite andb_comm. reflexivity.
  Qed.

  Lemma stored_split : stored m = low + dia + upp.
  Proof.
    unfold stored. fold (nsum (@length (nat * Qc)) (adj m)).
    rewrite (nsum_nth _ (adj m) []). rewrite (Inv_len_adj m HI). fold N. fold (nb m).
    unfold low, dia, upp. rewrite <- !nsum_add. apply nsum_ext_in. intros u _. apply cnt_split.
  Qed.

  Lemma quad_terms_split : length (p_quad (abs m)) = low + dia.
  Proof.
    unfold abs. cbn [p_quad]. rewrite length_flat_map. fold N.
    unfold low, dia. rewrite <- nsum_add. apply nsum_ext_in. intros u _.
    unfold lower_terms. rewrite map_length. apply (cnt_le u (nb m u)).
  Qed.

  Theorem stored_plus_self_double : stored m + self_loops m = 2 * length (p_quad (abs m)).
  Proof. rewrite stored_split, quad_terms_split, <- dia_self, <- low_eq_upp. lia. Qed.

  Theorem stored_plus_self_even : Nat.Even (stored m + self_loops m).
  Proof. exists (length (p_quad (abs m))). apply stored_plus_self_double. Qed.

  Theorem num_interactions_exact : num_interactions m = length (p_quad (abs m)).
  Proof.
    unfold num_interactions. fold (stored m). rewrite stored_plus_self_double.
    rewrite Nat.mul_comm. apply Nat.div_mul. discriminate.
  Qed.

  Theorem num_interactions_no_loss : 2 * num_interactions m = stored m + self_loops m.
  Proof. rewrite num_interactions_exact, stored_plus_self_double. reflexivity. Qed.
End Counts.
