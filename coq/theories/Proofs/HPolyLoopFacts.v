(* C01 for BinaryPolynomial.energies: the term loop of polynomial.py computes, for every
   row, the value of the polynomial's own monomials at the labelled row; it raises
   (KeyError) exactly when some term mentions a variable that is not among the labels,
   whatever the number of rows. *)
From Coq Require Import List ZArith QArith Qcanon Bool Arith Lia.
From Dimod Require Import Base.Util Model.Poly Model.HPoly Model.Samples Model.HPolyLoop
  Proofs.PolyFacts.
Import ListNotations.
Local Open Scope Qc_scope.

Lemma existsb_nat_In v ls : existsb (Nat.eqb v) ls = true <-> In v ls.
Proof.
  rewrite existsb_exists. split.
  - intros [x [Hx He]]. apply Nat.eqb_eq in He. subst. exact Hx.
  - intros H. exists v. split; [exact H|apply Nat.eqb_refl].
Qed.

Lemma labeldict_some ls v : In v ls -> labeldict ls v = Some (idx_of v ls).
Proof. intros H. unfold labeldict. apply existsb_nat_In in H. rewrite H. reflexivity. Qed.

Lemma labeldict_none ls v : ~ In v ls -> labeldict ls v = None.
Proof.
  intros H. unfold labeldict. destruct (existsb (Nat.eqb v) ls) eqn:E; [|reflexivity].
  apply existsb_nat_In in E. contradiction.
Qed.

Lemma term_cols_some ls term :
  (forall v, In v term -> In v ls) ->
  term_cols ls term = Some (map (fun v => idx_of v ls) term).
Proof.
  induction term as [|v r IH]; intros H; [reflexivity|].
  cbn [term_cols map]. rewrite labeldict_some by (apply H; left; reflexivity).
  rewrite IH by (intros w Hw; apply H; right; exact Hw). reflexivity.
Qed.

Lemma term_cols_none ls term v :
  In v term -> ~ In v ls -> term_cols ls term = None.
Proof.
  induction term as [|w r IH]; intros Hin Hn; [destruct Hin|].
  cbn [term_cols]. destruct Hin as [->|Hin].
  - rewrite labeldict_none by exact Hn. reflexivity.
  - destruct (labeldict ls w); [|reflexivity]. rewrite (IH Hin Hn). reflexivity.
Qed.

Lemma row_prod_idx ls term row :
  row_prod (map (fun v => idx_of v ls) term) row = qprod (map (row_sample ls row) term).
Proof. unfold row_prod. rewrite map_map. reflexivity. Qed.

Lemma map_combine_map {A B C} (f : A -> B) (g : B * A -> C) (l : list A) :
  map g (combine (map f l) l) = map (fun r => g (f r, r)) l.
Proof. induction l as [|x l IH]; [reflexivity|]. cbn [map combine]. rewrite IH. reflexivity. Qed.

Lemma hp_covered_spec p ls :
  hp_covered p ls = true <-> forall t v, In t p -> In v (fst t) -> In v ls.
Proof.
  unfold hp_covered. rewrite forallb_forall. split.
  - intros H t v Ht Hv. specialize (H t Ht). rewrite forallb_forall in H.
    apply existsb_nat_In, H, Hv.
  - intros H t Ht. apply forallb_forall. intros v Hv. apply existsb_nat_In. exact (H t v Ht Hv).
Qed.

Lemma henergy_cons t p s : henergy (t :: p) s = mono_val s t + henergy p s.
Proof. reflexivity. Qed.

(* the loop invariant: the accumulator is a function of the row *)
Lemma hp_loop_spec ls rows terms :
  forall f : list Qc -> Qc,
  (forall t v, In t terms -> In v (fst t) -> In v ls) ->
  hp_loop ls rows terms (map f rows) =
  Some (map (fun row => f row + henergy terms (row_sample ls row)) rows).
Proof.
  induction terms as [|[term bias] r IH]; intros f Hc.
  - cbn [hp_loop]. f_equal. apply map_ext. intros row. unfold henergy. cbn [map qsum]. ring.
  - assert (Hr : forall t v, In t r -> In v (fst t) -> In v ls)
      by (intros t v Ht Hv; apply (Hc t v); [right; exact Ht|exact Hv]).
    cbn [hp_loop]. destruct term as [|v0 term'].
    + rewrite map_map. rewrite (IH (fun row => f row + bias) Hr). f_equal. apply map_ext.
      intros row. rewrite henergy_cons. unfold mono_val. cbn [fst snd map qprod]. ring.
    + rewrite (term_cols_some ls (v0 :: term'))
        by (intros v Hv; apply (Hc (v0 :: term', bias) v); [left; reflexivity|exact Hv]).
      rewrite (map_combine_map f
                 (fun er => fst er + row_prod (map (fun v => idx_of v ls) (v0 :: term')) (snd er) * bias)).
      cbn [fst snd].
      rewrite (IH (fun row => f row + row_prod (map (fun v => idx_of v ls) (v0 :: term')) row * bias) Hr).
      f_equal. apply map_ext. intros row. rewrite henergy_cons, row_prod_idx.
      unfold mono_val. cbn [fst snd]. ring.
Qed.

Lemma hp_loop_none_uncovered ls rows terms :
  forall acc t v, In t terms -> In v (fst t) -> ~ In v ls -> hp_loop ls rows terms acc = None.
Proof.
  induction terms as [|[term bias] r IH]; intros acc t v Ht Hv Hn; [destruct Ht|].
  cbn [hp_loop]. destruct Ht as [<-|Ht].
  - cbn [fst] in Hv. destruct term as [|v0 term']; [destruct Hv|].
    rewrite (term_cols_none ls (v0 :: term') v Hv Hn). reflexivity.
  - destruct term as [|v0 term'].
    + apply (IH _ t v Ht Hv Hn).
    + destruct (term_cols ls (v0 :: term')); [|reflexivity]. apply (IH _ t v Ht Hv Hn).
Qed.

(* ---------- main theorems ---------- *)

(* energies[k] is the value of the polynomial's own monomials at row k *)
Theorem hp_energies_eq_spec p ls rows :
  (forall t v, In t p -> In v (fst t) -> In v ls) ->
  hp_energies p ls rows = Some (map (fun row => henergy p (row_sample ls row)) rows).
Proof.
  intros Hc. unfold hp_energies. rewrite (hp_loop_spec ls rows p (fun _ => 0) Hc).
  f_equal. apply map_ext. intros row. ring.
Qed.

Theorem hp_energies_eq_spec_b p ls rows :
  hp_covered p ls = true ->
  hp_energies p ls rows = Some (map (fun row => henergy p (row_sample ls row)) rows).
Proof. intros H. apply hp_energies_eq_spec. apply hp_covered_spec. exact H. Qed.

(* KeyError iff some term mentions a label that is not given - independent of the rows
   (it happens with zero rows too) *)
Theorem hp_energies_none_iff p ls rows :
  hp_energies p ls rows = None <-> exists t v, In t p /\ In v (fst t) /\ ~ In v ls.
Proof.
  split.
  - intros H. destruct (hp_covered p ls) eqn:E.
    + rewrite (hp_energies_eq_spec_b p ls rows E) in H. discriminate.
    + unfold hp_covered in E.
      assert (Hex : exists t, In t p /\ forallb (fun v => existsb (Nat.eqb v) ls) (fst t) = false).
      { clear H. induction p as [|t p IH]; [discriminate|]. cbn [forallb] in E.
        apply andb_false_iff in E. destruct E as [E|E].
        - exists t. split; [left; reflexivity|exact E].
        - destruct (IH E) as [t' [Ht' He]]. exists t'. split; [right; exact Ht'|exact He]. }
      destruct Hex as [t [Ht He]]. exists t.
      assert (Hv : exists v, In v (fst t) /\ existsb (Nat.eqb v) ls = false).
      { clear Ht. induction (fst t) as [|v l IH]; [discriminate|]. cbn [forallb] in He.
        apply andb_false_iff in He. destruct He as [He|He].
        - exists v. split; [left; reflexivity|exact He].
        - destruct (IH He) as [v' [Hv' Hn]]. exists v'. split; [right; exact Hv'|exact Hn]. }
      destruct Hv as [v [Hv Hn]]. exists v. split; [exact Ht|]. split; [exact Hv|].
      intros Hin. apply existsb_nat_In in Hin. rewrite Hin in Hn. discriminate.
  - intros [t [v [Ht [Hv Hn]]]]. unfold hp_energies.
    apply (hp_loop_none_uncovered ls rows p _ t v Ht Hv Hn).
Qed.

Theorem hp_energies_none_iff_b p ls rows :
  hp_energies p ls rows = None <-> hp_covered p ls = false.
Proof.
  split.
  - intros H. destruct (hp_covered p ls) eqn:E; [|reflexivity].
    rewrite (hp_energies_eq_spec_b p ls rows E) in H. discriminate.
  - intros E. destruct (hp_energies p ls rows) as [es|] eqn:H; [|reflexivity]. exfalso.
    assert (Hn : hp_energies p ls rows <> None) by (rewrite H; discriminate).
    rewrite hp_energies_none_iff in Hn.
    assert (Hc : hp_covered p ls = true).
    { apply hp_covered_spec. intros t v Ht Hv.
      destruct (existsb (Nat.eqb v) ls) eqn:Ev; [apply existsb_nat_In; exact Ev|].
      exfalso. apply Hn. exists t, v. split; [exact Ht|]. split; [exact Hv|].
      intros Hin. apply existsb_nat_In in Hin. rewrite Hin in Ev. discriminate. }
    rewrite Hc in E. discriminate.
Qed.

(* the docstring example of polynomial.py plus a constant and a one-variable term,
   labels x=0 y=1 z=2 w=3; the real code returns [4. , 1.5] and raises KeyError when w is
   not a label, also for zero rows *)
Example hp_example :
  hp_energies [([0;1]%nat, - (1)); ([0;1;2]%nat, half); ([], two); ([3]%nat, two + 1)]
              [0;1;2;3]%nat [[1;1;0;1]; [1;1;1;0]]
  = Some [two + two; 1 + half].
Proof. vm_compute. reflexivity. Qed.

Example hp_example_keyerror :
  hp_energies [([0;1]%nat, - (1)); ([3]%nat, two + 1)] [0;1;2]%nat [] = None.
Proof. vm_compute. reflexivity. Qed.

Print Assumptions hp_energies_eq_spec.
Print Assumptions hp_energies_none_iff.
Print Assumptions hp_energies_none_iff_b.
