(* C12 - which labels accepted by lp._validate_label the bundled reader reads back *)
From Coq Require Import List NArith Bool Arith Lia.
From Dimod Require Import Base.Util Model.Poly Model.LP Model.LPRead Gen.Gen_LP.
Import ListNotations.

Lemma memN_spec c l : memN c l = true <-> In c l.
Proof.
  unfold memN. rewrite existsb_exists. split.
  - intros [x [Hx E]]. apply N.eqb_eq in E. subst x. exact Hx.
  - intros H. exists c. split; [exact H | apply N.eqb_refl].
Qed.

(* a boolean property checked on the (finite, generated) alphabet holds for every valid character *)
Lemma valid_char_forall (P : N -> bool) :
  forallb P LABEL_VALID_CHARS = true -> forall c, valid_char c = true -> P c = true.
Proof.
  intros H c Hc. unfold valid_char in Hc. apply existsb_exists in Hc. destruct Hc as [x [Hx E]].
  apply N.eqb_eq in E. subst x. exact (proj1 (forallb_forall _ _) H c Hx).
Qed.

Lemma alphabet_vs_tokenizer :
  forallb (fun c => negb (memN c IDENT_DELIMS) && negb (memN c SINGLE_CHAR_TOKENS) && negb (memN c BLANK_CHARS))
          LABEL_VALID_CHARS = true.
Proof. vm_compute. reflexivity. Qed.

Lemma alphabet_first_vs_strtod :
  forallb (fun c => invalid_first c || (negb (is_digitN c) && negb (N.eqb c 46))) LABEL_VALID_CHARS = true.
Proof. vm_compute. reflexivity. Qed.

Lemma take_ident_valid s : forallb valid_char s = true -> take_ident s = (s, []).
Proof.
  induction s as [|c s IH]; [reflexivity|]. cbn [forallb]. intros H.
  apply andb_true_iff in H. destruct H as [Hc Hs].
  pose proof (valid_char_forall _ alphabet_vs_tokenizer c Hc) as P.
  apply andb_true_iff in P. destruct P as [P _]. apply andb_true_iff in P. destruct P as [P _].
  apply negb_true_iff in P. cbn [take_ident]. rewrite P, (IH Hs). reflexivity.
Qed.

Lemma text_eqb_refl s : text_eqb s s = true.
Proof. unfold text_eqb. induction s as [|c s IH]; [reflexivity|]. cbn [list_eqb]. rewrite N.eqb_refl, IH. reflexivity. Qed.

Lemma text_eqb_eq a b : text_eqb a b = true -> a = b.
Proof.
  unfold text_eqb. revert b. induction a as [|x a IH]; intros [|y b] H; try discriminate; [reflexivity|].
  cbn [list_eqb] in H. apply andb_true_iff in H. destruct H as [E H]. apply N.eqb_eq in E. subst y.
  rewrite (IH b H). reflexivity.
Qed.

Lemma read_raw_valid c t :
  validate_label (Some (c :: t)) = true ->
  read_raw (c :: t) =
    if memN c SKIP_LINE_CHARS then RNone
    else if existsb (fun w => prefixb w (lower_text (c :: t))) strtod_words then RNumber
    else RIdent (c :: t) [].
Proof.
  cbn [validate_label]. intros H.
  apply andb_true_iff in H. destruct H as [H H3]. apply andb_true_iff in H. destruct H as [_ H2].
  apply negb_true_iff in H3.
  assert (Hc : valid_char c = true) by (cbn [forallb] in H2; apply andb_true_iff in H2; apply H2).
  pose proof (valid_char_forall _ alphabet_vs_tokenizer c Hc) as P.
  apply andb_true_iff in P. destruct P as [P Pb]. apply andb_true_iff in P. destruct P as [_ Ps].
  apply negb_true_iff in Pb. apply negb_true_iff in Ps.
  pose proof (valid_char_forall _ alphabet_first_vs_strtod c Hc) as Q. cbv beta in Q. rewrite H3 in Q. cbn [orb] in Q.
  apply andb_true_iff in Q. destruct Q as [Qd Qp]. apply negb_true_iff in Qd. apply negb_true_iff in Qp.
  unfold read_raw. destruct (memN c SKIP_LINE_CHARS); [reflexivity|].
  rewrite Ps, Pb. cbn [orb]. unfold strtod_consumes. rewrite Qd, Qp. cbn [andb orb].
  change NUMBERS_BY_STRTOD with true. cbn [andb].
  destruct (existsb (fun w => prefixb w (lower_text (c :: t))) strtod_words); [reflexivity|].
  rewrite (take_ident_valid (c :: t) H2). reflexivity.
Qed.

(* exactly the safe ones among the labels dump accepts are read back as the same identifier *)
Theorem label_readable_iff r s :
  validate_label (Some s) = true -> (reader_reads_label r s = true <-> label_safe r s = true).
Proof.
  intros Hv. destruct s as [|c t]; [discriminate|].
  unfold reader_reads_label, label_safe. rewrite (read_raw_valid c t Hv).
  destruct (memN c SKIP_LINE_CHARS); cbn [negb andb]; [split; discriminate|].
  destruct (existsb (fun w => prefixb w (lower_text (c :: t))) strtod_words); cbn [negb andb]; [split; discriminate|].
  rewrite text_eqb_refl. cbn [andb]. split; intros H; exact H.
Qed.

Theorem reader_reads_safe_labels r s :
  validate_label (Some s) = true -> label_safe r s = true -> reader_reads_label r s = true.
Proof. intros Hv Hs. apply (label_readable_iff r s Hv). exact Hs. Qed.

(* the open findings, against the tables of the sources: dump accepts labels the reader cannot
   read back as themselves - a leading ';', a section keyword, an inf/nan prefix, `free` *)
Theorem validator_accepts_unreadable_refuted :
  (validate_label (Some [59; 97]%N) = true /\ reader_reads_label AsConstraint [59; 97]%N = false) /\      (* ;a *)
  (validate_label (Some [115; 116]%N) = true /\ reader_reads_label AsVariable [115; 116]%N = false) /\    (* st *)
  (validate_label (Some [66; 105; 110]%N) = true /\ reader_reads_label AsConstraint [66; 105; 110]%N = false) /\  (* Bin *)
  (validate_label (Some [105; 110; 102; 111]%N) = true /\ reader_reads_label AsVariable [105; 110; 102; 111]%N = false) /\  (* info *)
  (validate_label (Some [78; 97; 110; 99; 121]%N) = true /\ reader_reads_label AsVariable [78; 97; 110; 99; 121]%N = false) /\  (* Nancy *)
  (validate_label (Some [102; 114; 101; 101]%N) = true /\ reader_reads_label AsVariable [102; 114; 101; 101]%N = false /\
   reader_reads_label AsConstraint [102; 114; 101; 101]%N = true).                                         (* free *)
Proof. vm_compute. repeat split; reflexivity. Qed.

(* the wrapper's constants in the model are those of the source *)
Theorem wrap_constants_match_source :
  WRAP_BREAK = [NL; SP] /\ WRAP_BREAK_LINE_LEN = 1%nat /\ TARGET = TARGET_LINE_LEN.
Proof. repeat split; reflexivity. Qed.

(* ------------------------------------------------------------------ *)
(* two adjacent names *)

Lemma lower_not_space c : valid_char c = true -> N.eqb (lower c) SPACE = false.
Proof.
  intros H. apply (valid_char_forall (fun c => negb (N.eqb (lower c) SPACE))) in H; [apply negb_true_iff; exact H|].
  vm_compute. reflexivity.
Qed.

Lemma split_space_join a b :
  forallb valid_char a = true -> split_space (lower_text a ++ SPACE :: b) = Some (lower_text a, b).
Proof.
  induction a as [|c a IH]; intros H.
  - reflexivity.
  - cbn [forallb] in H. apply andb_true_iff in H. destruct H as [Hc Ha].
    cbn [lower_text map app split_space]. fold (lower_text a).
    rewrite (lower_not_space c Hc).
    rewrite (IH Ha). reflexivity.
Qed.

Lemma valid_label_chars s : validate_label (Some s) = true -> forallb valid_char s = true.
Proof.
  destruct s as [|c t]; [discriminate|]. cbn [validate_label]. intros H.
  apply andb_true_iff in H. destruct H as [H _]. apply andb_true_iff in H. apply H.
Qed.

(* two accepted labels are joined into a keyword exactly when the pair of their lower-case forms is
   one of the two-word keywords of the generated table *)
Theorem reader_joins_iff a b :
  validate_label (Some a) = true ->
  (reader_joins a b = true <-> In (lower_text a, lower_text b) two_word_keywords).
Proof.
  intros Ha. apply valid_label_chars in Ha.
  unfold reader_joins, two_word_keywords, in_texts. cbn [app]. rewrite existsb_exists. split.
  - intros [w [Hw E]]. apply text_eqb_eq in E. apply in_map_iff in Hw. destruct Hw as [kw [Ek Hk]].
    apply in_flat_map. exists kw. split; [exact Hk|]. cbv beta. unfold text, char in *. rewrite Ek, <- E, (split_space_join a _ Ha).
    left. reflexivity.
  - intros H. apply in_flat_map in H. destruct H as [kw [Hk H]]. cbv beta in H.
    destruct (split_space (fst kw)) as [[x y]|] eqn:S; [|contradiction].
    destruct H as [H | []]. inversion H; subst x y. clear H.
    exists (fst kw). split; [apply in_map; exact Hk|].
    assert (E : fst kw = lower_text a ++ SPACE :: lower_text b).
    { clear Hk. revert S. generalize (fst kw) as s. generalize (lower_text a) as x.
      intros x s. revert x. induction s as [|c r IH]; intros x S; [discriminate|].
      cbn [split_space] in S. destruct (N.eqb c SPACE) eqn:Ec.
      - inversion S; subst. apply N.eqb_eq in Ec. subst c. reflexivity.
      - destruct (split_space r) as [[x' y']|] eqn:Sr; [|discriminate]. inversion S; subst.
        cbn [app]. f_equal. apply IH. reflexivity. }
    rewrite E. apply text_eqb_refl.
Qed.

(* the open finding lp_label_two_word_keyword against the generated table: each name alone is read
   back, the adjacent pair is not *)
Theorem adjacent_names_refuted :
  let subject := [115; 117; 98; 106; 101; 99; 116]%N in
  let to := [116; 111]%N in
  let Such := [83; 117; 99; 104]%N in
  let THAT := [84; 72; 65; 84]%N in
  (validate_label (Some subject) = true /\ validate_label (Some to) = true /\
   reader_reads_label AsVariable subject = true /\ reader_reads_label AsVariable to = true /\
   names_section_read [subject; to] = false /\ names_section_read [to; subject] = true) /\
  (reader_reads_label AsVariable Such = true /\ reader_reads_label AsVariable THAT = true /\
   names_section_read [Such; THAT] = false) /\
  two_word_keywords = [(subject, to); ([115; 117; 99; 104]%N, [116; 104; 97; 116]%N)].
Proof. vm_compute. repeat split; reflexivity. Qed.

(* a name list is read back when every name is safe and no adjacent pair is a two-word keyword *)
Theorem names_section_read_spec names :
  Forall (fun s => validate_label (Some s) = true) names ->
  (names_section_read names = true <->
   (Forall (fun s => label_safe AsVariable s = true) names /\ adjacent_join names = false)).
Proof.
  intros Hv. unfold names_section_read. rewrite andb_true_iff, negb_true_iff, forallb_forall, Forall_forall.
  split; intros [H1 H2]; (split; [|exact H2]); intros s Hs;
    apply (label_readable_iff AsVariable s (proj1 (Forall_forall _ _) Hv s Hs)); apply H1; exact Hs.
Qed.
