(* Every reachable BinaryQuadraticModel object of the multi-object step carries only
   BINARY/SPIN variables: this discharges the `all_binspin` hypothesis of
   Inv_bqm_change_vartype, so invariant preservation is unconditional for BQM histories. *)
From Coq Require Import List ZArith QArith Qcanon Bool Arith Lia Sorted.
From Dimod Require Import Base.Util Model.Poly Model.Adj Model.AdjMore Proofs.AdjFacts Proofs.AdjMoreFacts
  Proofs.AdjMoreInv Model.ChkC20.
Import ListNotations.
Local Open Scope nat_scope.

Definition bs (t : vartype) : Prop := is_binspin t = true.
Definition vts_bs (m : qm) : Prop := Forall bs (vts m).

Lemma Forall_del_nth {A} (P : A -> Prop) i l : Forall P l -> Forall P (del_nth i l).
Proof. intros H. apply Forall_forall. intros x Hx. rewrite Forall_forall in H. eapply H, del_nth_In, Hx. Qed.

Lemma Forall_firstn' {A} (P : A -> Prop) k l : Forall P l -> Forall P (firstn k l).
Proof.
  revert l. induction k as [|k IH]; intros l H; cbn [firstn]; [constructor|].
  destruct l as [|x l]; [constructor|]. inversion H; subst. constructor; auto.
Qed.

Lemma Forall_repeat {A} (P : A -> Prop) x k : P x -> Forall P (repeat x k).
Proof. intros H. induction k; cbn [repeat]; constructor; assumption. Qed.

Lemma vts_add_quadratic_back u v b m : vts (add_quadratic_back u v b m) = vts m.
Proof. unfold add_quadratic_back. destruct (u =? v); [|reflexivity]. destruct (vt_at m u); reflexivity. Qed.

Lemma vts_remove_interaction u v m : vts (fst (remove_interaction u v m)) = vts m.
Proof. unfold remove_interaction. destruct (nb_get v (nb m u)); reflexivity. Qed.

Lemma vts_fix_variable v a m : vts (fix_variable v a m) = del_nth v (vts m).
Proof.
  unfold fix_variable. destruct (fold_add_linear_shape (nb m v) a m) as [_ [_ [I3 _]]].
  cbn [remove_variable Adj.add_offset vts]. rewrite I3. reflexivity.
Qed.

(* a base-class call on a BQM: add_variable / resize use the model's own vartype *)
Lemma vts_bs_cstep m o :
  vts_bs m -> (match o with CAddVar t | CResize t _ => bs t | _ => True end) -> vts_bs (cstep m o).
Proof.
  unfold vts_bs. intros H Ht. destruct o; cbn [cstep];
    repeat match goal with |- context [if ?c then _ else _] => destruct c end; try exact H.
  - cbn [add_variable vts]. apply Forall_app. split; [exact H|repeat constructor; exact Ht].
  - rewrite vts_add_quadratic. exact H.
  - rewrite vts_add_quadratic_back. exact H.
  - destruct (set_quadratic u v b m) as [m'|] eqn:E; [|exact H].
    destruct (set_quadratic_keeps _ _ _ _ _ E) as [_ [_ E3]]. rewrite E3. exact H.
  - rewrite vts_remove_interaction. exact H.
  - cbn [remove_variable vts]. apply Forall_del_nth, H.
  - unfold resize. destruct (k <? nvars m); cbn [vts].
    + apply Forall_firstn', H.
    + apply Forall_app. split; [exact H|apply Forall_repeat, Ht].
  - rewrite vts_fix_variable. apply Forall_del_nth, H.
  - rewrite (proj2 (subst_shape v k c m)). exact H.
Qed.

Lemma vts_fold_aq (f : nat -> nat -> Qc -> qm -> qm) l :
  (forall u v b m, vts (f u v b m) = vts m) ->
  forall m, vts (fold_left (fun acc t => f (fst (fst t)) (snd (fst t)) (snd t) acc) l m) = vts m.
Proof.
  intros Hf. induction l as [|t l IH]; intros m; cbn [fold_left]; [reflexivity|]. rewrite IH. apply Hf.
Qed.

Lemma vts_dense n d m : vts (add_quadratic_from_dense n d m) = vts m.
Proof.
  unfold add_quadratic_from_dense. destruct (is_linear m); apply vts_fold_aq;
    [apply vts_add_quadratic_back|apply vts_add_quadratic].
Qed.

Lemma vts_coo l m : vts (add_quadratic_coo l m) = vts m.
Proof. unfold add_quadratic_coo. apply vts_fold_aq, vts_add_quadratic. Qed.

Lemma vts_bs_resize t k m : vts_bs m -> bs t -> vts_bs (resize t k m).
Proof. intros H Ht. apply (vts_bs_cstep m (CResize t k) H Ht). Qed.

Lemma remove_by_index_Forall {A} (P : A -> Prop) l idx : Forall P l -> Forall P (remove_by_index 0 l idx).
Proof. intros H. apply Forall_forall. intros x Hx. rewrite Forall_forall in H. eapply H, remove_by_index_In, Hx. Qed.

Lemma vts_bs_remove_variables vars m : vts_bs m -> vts_bs (remove_variables vars m).
Proof.
  unfold vts_bs, remove_variables, remove_variables_sorted. intros H.
  destruct (if sorted_natb vars then vars else sort_nat vars) as [|v vs]; [exact H|].
  cbn [vts]. apply remove_by_index_Forall, H.
Qed.

Lemma vts_bs_all_binspin m : vts_bs m -> all_binspin m.
Proof. apply all_binspin_of_Forall. Qed.

Lemma vts_bs_const (T : vartype) (l : list vartype) : bs T -> Forall bs (map (fun _ => T) l).
Proof. intros H. induction l; cbn [map]; constructor; assumption. Qed.

Lemma vts_bs_bqm_change_vartype cur target m :
  vts_bs m -> vts_bs (fst (fst (bqm_change_vartype cur target m))).
Proof.
  unfold vts_bs. intros H. unfold bqm_change_vartype. destruct (vartype_eqb cur target); [exact H|].
  destruct target; cbn [fst vts]; try exact H; apply vts_bs_const; reflexivity.
Qed.

Lemma sv_bqm_change_vartype cur target m :
  bs cur -> bs (snd (fst (bqm_change_vartype cur target m))).
Proof.
  intros H. unfold bqm_change_vartype. destruct (vartype_eqb cur target); [exact H|].
  destruct target; cbn [fst snd]; try exact H; reflexivity.
Qed.

(* ---------- the slot invariant ---------- *)
Definition slot_ok (x : slot) : Prop :=
  Inv (sm x) /\ (sq x = false -> vts_bs (sm x) /\ bs (sv x)).
Definition all_ok (st : state) : Prop := Forall slot_ok st.

Lemma dslot_ok : slot_ok dslot.
Proof. split; [exact Inv_empty|discriminate]. Qed.

Lemma all_ok_get st s : all_ok st -> slot_ok (get st s).
Proof.
  intros H. unfold get. destruct (Nat.lt_ge_cases s (length st)) as [L|L].
  - unfold all_ok in H. rewrite Forall_forall in H. apply H, nth_In, L.
  - rewrite nth_overflow by exact L. exact dslot_ok.
Qed.

Lemma all_ok_put st s x : all_ok st -> slot_ok x -> all_ok (put st s x).
Proof.
  unfold all_ok, put. revert s. induction st as [|y r IH]; intros s H Hx; [destruct s; constructor|].
  inversion H as [|? ? Hy Hr]; subst. destruct s as [|s]; cbn [upd_nth]; constructor; auto.
Qed.

Lemma all_ok_all_inv st : all_ok st -> all_inv st.
Proof. apply Forall_impl. intros x [H _]. exact H. Qed.

Theorem all_ok_init : all_ok init_state.
Proof.
  repeat constructor; try exact Inv_empty; try discriminate; cbn [sq sm sv vts empty_qm]; try reflexivity;
    intros _; split; try constructor; reflexivity.
Qed.

(* what the driver's typing guarantees, WITHOUT any all_binspin assumption: QM-only calls go to QM
   objects, a BQM is constructed with BINARY or SPIN, the conversion reads a BQM *)
Definition xpre2 (st : state) (o : xop) : Prop :=
  match o with
  | XRemVars s l => NoDup l /\ Forall (fun v => v < nvars (sm (get st s))) l
  | XDense s n _ => n <= nvars (sm (get st s))
  | XCoo s l => sq (get st s) = true -> coo_in_range (nvars (sm (get st s))) l
  | XChVt s _ v => sq (get st s) = true -> v < nvars (sm (get st s))
  | XSetVt s v t => sq (get st s) = true
                    /\ (is_binspin t = true -> nb_get v (nth v (adj (sm (get st s))) []) = None)
  | XAddVars s _ _ _ | XResizeB s _ _ _ => sq (get st s) = true
  | XQmOfBqm _ b => sq (get st b) = false
  | XDenseCtor _ _ t _ | XBqmCtor _ _ t => bs t
  | _ => True
  end.

Lemma xpre2_xpre st o : all_ok st -> xpre2 st o -> xpre st o.
Proof.
  intros H Hp. destruct o; cbn [xpre xpre2] in *; try exact Hp; try exact I.
  - (* XChVt *) pose proof (all_ok_get st s H) as [_ Hb]. destruct (sq (get st s)); [apply Hp; reflexivity|].
    apply vts_bs_all_binspin, Hb. reflexivity.
  - (* XSetVt *) apply Hp.
  - (* XQmOfBqm *) pose proof (all_ok_get st b H) as [_ Hb]. apply vts_bs_all_binspin, Hb, Hp.
Qed.

Lemma vts_bs_norm x o :
  sq x = false -> bs (sv x) -> match norm_cop x o with CAddVar t | CResize t _ => bs t | _ => True end.
Proof. intros Hq Hb. unfold norm_cop. rewrite Hq. destruct o; try exact I; exact Hb. Qed.

Theorem xstep_preserves_ok st o : all_ok st -> xpre2 st o -> all_ok (fst (xstep st o)).
Proof.
  intros H Hp. pose proof (all_ok_all_inv st H) as HA.
  destruct o; cbn [xpre2] in Hp; cbn [xstep fst].
  - (* XB *) pose proof (all_ok_get st s H) as [HI Hb]. apply all_ok_put; [exact H|]. split; cbn [sm sq sv].
    + apply Inv_cstep, HI.
    + intros Hq. destruct (Hb Hq) as [Hv Hs]. split; [|exact Hs].
      apply vts_bs_cstep; [exact Hv|apply vts_bs_norm; assumption].
  - (* XAddVars *) pose proof (all_ok_get st s H) as [HI _]. apply all_ok_put; [exact H|]. split; cbn [sm sq].
    + apply Inv_add_variables, HI.
    + rewrite Hp. discriminate.
  - (* XResizeB *) pose proof (all_ok_get st s H) as [HI _]. apply all_ok_put; [exact H|]. split; cbn [sm sq].
    + apply Inv_resize, HI.
    + rewrite Hp. discriminate.
  - (* XRemVars *) pose proof (all_ok_get st s H) as [HI Hb]. destruct Hp as [Hnd Hr].
    apply all_ok_put; [exact H|]. split; cbn [sm sq sv].
    + apply Inv_remove_variables; assumption.
    + intros Hq. destruct (Hb Hq) as [Hv Hs]. split; [apply vts_bs_remove_variables, Hv|exact Hs].
  - (* XRemInts *) pose proof (all_ok_get st s H) as [HI Hb]. apply all_ok_put; [exact H|].
    unfold with_m. split; cbn [sm sq sv].
    + apply Inv_remove_interactions; [apply filter_of_sym|exact HI].
    + exact Hb.
  - (* XDense *) pose proof (all_ok_get st s H) as [HI Hb]. apply all_ok_put; [exact H|].
    unfold with_m. split; cbn [sm sq sv].
    + apply Inv_add_quadratic_from_dense; assumption.
    + intros Hq. destruct (Hb Hq) as [Hv Hs]. split; [unfold vts_bs; rewrite vts_dense; exact Hv|exact Hs].
  - (* XCoo *) pose proof (all_ok_get st s H) as [HI Hb]. apply all_ok_put; [exact H|].
    unfold with_m. destruct (sq (get st s)) eqn:Eq; split; cbn [sm sq sv]; try discriminate.
    + apply Inv_add_quadratic_coo_qm; [exact HI|apply Hp; reflexivity].
    + apply Inv_add_quadratic_coo_bqm, HI.
    + intros _. destruct (Hb eq_refl) as [Hv Hs]. split; [|exact Hs].
      unfold vts_bs, add_quadratic_coo_bqm. destruct l as [|t0 l0]; [exact Hv|].
      rewrite vts_coo. destruct (nvars (sm (get st s)) <=? _); [apply vts_bs_resize; assumption|exact Hv].
  - (* XSubstAll *) pose proof (all_ok_get st s H) as [HI Hb]. apply all_ok_put; [exact H|].
    unfold with_m. split; cbn [sm sq sv]; [apply Inv_substitute_variables, HI|exact Hb].
  - (* XChVt *) pose proof (all_ok_get st s H) as [HI Hb].
    destruct (sq (get st s)) eqn:Eq; cbn [fst]; (apply all_ok_put; [exact H|]); split; cbn [sm sq sv]; try discriminate.
    + apply Inv_qm_change_vartype; [exact HI|apply Hp; reflexivity].
    + destruct (Hb eq_refl) as [Hv Hs]. apply Inv_bqm_change_vartype; [exact HI|apply vts_bs_all_binspin, Hv].
    + intros _. destruct (Hb eq_refl) as [Hv Hs]. split;
        [apply vts_bs_bqm_change_vartype, Hv|apply sv_bqm_change_vartype, Hs].
  - (* XSetLb *) pose proof (all_ok_get st s H) as [HI Hb]. apply all_ok_put; [exact H|]. split; cbn [sm sq sv]; assumption.
  - (* XSetUb *) pose proof (all_ok_get st s H) as [HI Hb]. apply all_ok_put; [exact H|]. split; cbn [sm sq sv]; assumption.
  - (* XSetVt *) pose proof (all_ok_get st s H) as [HI _]. destruct Hp as [Hq Hself].
    apply all_ok_put; [exact H|]. unfold with_m. split; cbn [sm sq].
    + apply Inv_InvG, InvG_set_vt; [apply Inv_InvG, HI|exact Hself].
    + rewrite Hq. discriminate.
  - (* XClear *) pose proof (all_ok_get st s H) as [_ Hb]. apply all_ok_put; [exact H|]. split; cbn [sm sq sv].
    + exact Inv_empty.
    + intros Hq. split; [constructor|apply (Hb Hq)].
  - (* XCopy *) apply all_ok_put; [exact H|apply all_ok_get, H].
  - (* XMove *)
    assert (H1 : all_ok (put st a (get st b))) by (apply all_ok_put; [exact H|apply all_ok_get, H]).
    apply all_ok_put; [exact H1|]. destruct c as [c'|]; [apply all_ok_get, H1|].
    pose proof (all_ok_get st b H) as [_ Hb]. split; cbn [sm sq sv]; [exact Inv_empty|].
    intros Hq. split; [constructor|apply (Hb Hq)].
  - (* XSwap *) apply all_ok_put; [apply all_ok_put; [exact H|]|]; apply all_ok_get, H.
  - (* XQmOfBqm *) pose proof (all_ok_get st b H) as [HI Hb]. destruct (Hb Hp) as [Hv _].
    apply all_ok_put; [exact H|]. split; cbn [sm sq]; [|discriminate].
    apply Inv_InvG. apply (InvG_retype (sm (get st b))); [apply Inv_InvG, HI|apply vts_bs_all_binspin, Hv|].
    rewrite repeat_length. apply Inv_InvG in HI. symmetry. apply HI.
  - (* XDenseCtor *) apply all_ok_put; [exact H|]. split; cbn [sm sq sv].
    + apply Inv_add_quadratic_from_dense; [apply Inv_resize, Inv_empty|]. rewrite nvars_resize. lia.
    + intros _. split; [|exact Hp]. unfold vts_bs. rewrite vts_dense. apply vts_bs_resize; [constructor|exact Hp].
  - (* XBqmCtor *) apply all_ok_put; [exact H|]. split; cbn [sm sq sv].
    + apply Inv_resize, Inv_empty.
    + intros _. split; [apply vts_bs_resize; [constructor|exact Hp]|exact Hp].
  - (* XEnergy *) exact H.
  - (* XNop *) exact H.
Qed.

Fixpoint xrun_pre2 (st : state) (ops : list xop) : Prop :=
  match ops with
  | [] => True
  | o :: r => xpre2 st o /\ xrun_pre2 (fst (xstep st o)) r
  end.

Theorem xstep_reachable2 ops : forall st,
  all_ok st -> xrun_pre2 st ops -> all_ok (fold_left (fun st o => fst (xstep st o)) ops st).
Proof.
  induction ops as [|o r IH]; intros st H Hp; [exact H|]. destruct Hp as [Hp Hr].
  cbn [fold_left]. apply IH; [apply xstep_preserves_ok; assumption|exact Hr].
Qed.

(* no all_binspin hypothesis anywhere: every object keeps Inv, every BQM object stays BINARY/SPIN *)
Theorem xstep_reachable_unconditional ops :
  xrun_pre2 init_state ops ->
  all_inv (fold_left (fun st o => fst (xstep st o)) ops init_state)
  /\ all_ok (fold_left (fun st o => fst (xstep st o)) ops init_state).
Proof.
  intros Hp. pose proof (xstep_reachable2 ops init_state all_ok_init Hp) as H.
  split; [apply all_ok_all_inv, H|exact H].
Qed.

(* ---------- remaining catalogue operations, Inv form ---------- *)
Theorem Inv_set_vt v t m :
  Inv m -> (is_binspin t = true -> nb_get v (nb m v) = None) -> Inv (set_vt v t m).
Proof. intros HI Hs. apply Inv_InvG, InvG_set_vt; [apply Inv_InvG, HI|exact Hs]. Qed.

Theorem Inv_add_variables_n t k m :
  Inv m -> Inv (fold_left (fun acc (_ : nat) => add_variable t acc) (seq 0 k) m).
Proof. apply Inv_add_variables. Qed.

(* QuadraticModel(const BinaryQuadraticModel&): same biases, every variable gets the BQM's vartype *)
Theorem Inv_qm_of_bqm m t :
  Inv m -> vts_bs m -> Inv (mkQM (lin m) (adj m) (off m) (repeat t (nvars m))).
Proof.
  intros HI Hv. apply Inv_InvG. apply (InvG_retype m); [apply Inv_InvG, HI|apply vts_bs_all_binspin, Hv|].
  rewrite repeat_length. apply Inv_InvG in HI. symmetry. apply HI.
Qed.

(* ---------- functional specifications (reads after the call) ---------- *)
Theorem get_remove_interactions f m x y :
  Inv m ->
  nb_get y (nb (fst (remove_interactions f m)) x)
  = match nb_get y (nb m x) with Some b => if f x y b then None else Some b | None => None end.
Proof.
  intros HI. unfold nb at 1. rewrite remove_interactions_adj, nb_get_filter by apply (Inv_sorted m x HI).
  fold (nb m x). destruct (nb_get y (nb m x)) as [b|]; [|reflexivity]. destruct (f x y b); reflexivity.
Qed.

Theorem get_substitute_variables k c m x y :
  length (adj m) = nvars m ->
  nb_get y (nb (substitute_variables k c m) x) = option_map (Qcmult (k * k)) (nb_get y (nb m x)).
Proof.
  intros Ha. destruct (substitute_variables_shape k c m Ha) as [_ [_ Had]].
  unfold nb. rewrite Had, nth_map_nil by reflexivity. apply nb_get_scale.
Qed.

(* the default bounds restated in Model/AdjMore.v are the ones generated from vartypes.h *)
From Dimod Require Import Gen.Gen_QmLimits.
Theorem default_bounds_generated t : default_bounds t = (gen_dflt_lb t, gen_dflt_ub t).
Proof. destruct t; vm_compute; reflexivity. Qed.
