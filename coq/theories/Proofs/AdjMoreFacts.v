(* Facts about the additions of Model/AdjMore.v and the multi-object step of
   Model/ChkC20.v: the compaction of utils.h remove_by_index is iterated
   single erasure from the back; clear / copy / move / swap and every base
   operation keep the invariant of every object; swap is an involution. *)
From Coq Require Import List ZArith QArith Qcanon Bool Arith Lia Sorted.
From Dimod Require Import Base.Util Model.Poly Model.Adj Model.AdjMore Proofs.AdjFacts Model.ChkC20.
Import ListNotations.
Local Open Scope nat_scope.

(* ---------- utils.h remove_by_index ---------- *)
Lemma remove_by_index_nil {A} loc (l : list A) : remove_by_index loc l [] = l.
Proof.
  revert loc. induction l as [|x r IH]; intros loc; [reflexivity|].
  cbn [remove_by_index]. f_equal. apply IH.
Qed.

(* an index below the cursor is never matched: nothing is removed *)
Lemma remove_by_index_stale {A} loc (l : list A) v vs :
  v < loc -> remove_by_index loc l (v :: vs) = l.
Proof.
  revert loc. induction l as [|x r IH]; intros loc H; [reflexivity|].
  cbn [remove_by_index]. destruct (Nat.eqb_spec v loc) as [E|E]; [lia|].
  f_equal. apply IH. lia.
Qed.

Lemma remove_by_index_single {A} loc (l : list A) v :
  loc <= v -> remove_by_index loc l [v] = del_nth (v - loc) l.
Proof.
  revert loc. induction l as [|x r IH]; intros loc H.
  - destruct (v - loc); reflexivity.
  - cbn [remove_by_index]. destruct (Nat.eqb_spec v loc) as [E|E].
    + subst. rewrite Nat.sub_diag. cbn [del_nth]. apply remove_by_index_nil.
    + destruct (v - loc) as [|k] eqn:Ek; [lia|]. cbn [del_nth]. f_equal.
      rewrite IH by lia. f_equal. lia.
Qed.

(* the head index is the smallest: erasing it commutes to the outside *)
Lemma remove_by_index_cons {A} loc (l : list A) v vs :
  loc <= v -> Forall (fun w => v < w) vs ->
  remove_by_index loc l (v :: vs) = del_nth (v - loc) (remove_by_index loc l vs).
Proof.
  revert loc vs. induction l as [|x r IH]; intros loc vs H Hall.
  - cbn [remove_by_index]. destruct vs; destruct (v - loc); reflexivity.
  - cbn [remove_by_index]. destruct (Nat.eqb_spec v loc) as [E|E].
    + subst v. rewrite Nat.sub_diag.
      destruct vs as [|w ws].
      * cbn [del_nth]. reflexivity.
      * pose proof (Forall_inv Hall) as Hw. cbn beta in Hw.
        destruct (Nat.eqb_spec w loc) as [E'|E']; [lia|]. cbn [del_nth]. reflexivity.
    + destruct (v - loc) as [|k] eqn:Ek; [lia|].
      destruct vs as [|w ws].
      * cbn [del_nth]. f_equal. rewrite remove_by_index_nil.
        rewrite remove_by_index_single by lia. f_equal. lia.
      * pose proof (Forall_inv Hall) as Hw. cbn beta in Hw.
        destruct (Nat.eqb_spec w loc) as [E'|E']; [lia|].
        cbn [del_nth]. f_equal. rewrite IH by (try lia; exact Hall). f_equal. lia.
Qed.

(* sorted distinct indices: bulk compaction = erase the largest first, one at a time *)
Theorem remove_by_index_iterated {A} (l : list A) vs :
  StronglySorted lt vs ->
  remove_by_index 0 l vs = fold_right (fun v acc => del_nth v acc) l vs.
Proof.
  induction 1 as [|v vs Hs IH Hall]; [apply remove_by_index_nil|].
  cbn [fold_right]. rewrite remove_by_index_cons; [|lia|exact Hall].
  rewrite Nat.sub_0_r, IH. reflexivity.
Qed.

Lemma del_nth_length_le {A} i (l : list A) : length (del_nth i l) <= length l.
Proof.
  revert i. induction l as [|x r IH]; intros [|i]; cbn [del_nth length]; try lia.
  specialize (IH i). lia.
Qed.

Lemma sorted_above_count vs : forall v n,
  StronglySorted lt vs -> Forall (fun w => v < w /\ w < n) vs -> length vs <= n - v - 1.
Proof.
  induction vs as [|w ws IH]; intros v n Hs Hf; [cbn; lia|].
  inversion Hs as [|? ? Hs' Hall]; subst. inversion Hf as [|? ? [Hw1 Hw2] Hf']; subst.
  assert (Hws : Forall (fun x => w < x /\ x < n) ws).
  { apply Forall_forall. intros x Hx. split.
    - eapply Forall_forall in Hall; [exact Hall|exact Hx].
    - eapply Forall_forall in Hf'; [apply Hf'|exact Hx]. }
  specialize (IH w n Hs' Hws). cbn [length]. lia.
Qed.

Theorem remove_by_index_length {A} (l : list A) vs :
  StronglySorted lt vs -> Forall (fun v => v < length l) vs ->
  length (remove_by_index 0 l vs) = length l - length vs.
Proof.
  intros Hs Hr. rewrite remove_by_index_iterated by exact Hs.
  induction Hs as [|v vs Hs IH Hall]; [cbn; lia|].
  inversion Hr as [|? ? Hv Hr']; subst. specialize (IH Hr').
  cbn [fold_right length].
  assert (Hc : length vs <= length l - v - 1).
  { apply sorted_above_count; [exact Hs|]. apply Forall_forall. intros x Hx. split.
    - eapply Forall_forall in Hall; [exact Hall|exact Hx].
    - eapply Forall_forall in Hr'; [exact Hr'|exact Hx]. }
  rewrite del_nth_length by (rewrite IH; lia). rewrite IH. lia.
Qed.

(* the three parallel vectors of a model shrink by the same amount *)
Theorem remove_variables_sorted_lengths vs m :
  StronglySorted lt vs -> Forall (fun v => v < nvars m) vs ->
  length (adj m) = nvars m -> length (vts m) = nvars m ->
  nvars (remove_variables_sorted vs m) = nvars m - length vs
  /\ length (adj (remove_variables_sorted vs m)) = nvars m - length vs
  /\ length (vts (remove_variables_sorted vs m)) = nvars m - length vs.
Proof.
  intros Hs Hr Ha Hv. unfold nvars in *.
  destruct vs as [|v0 vs0]; [cbn [remove_variables_sorted length]; lia|].
  cbn [remove_variables_sorted lin adj vts]. rewrite map_length.
  rewrite !remove_by_index_length; try exact Hs; try lia.
  - rewrite Hv. exact Hr.
  - rewrite Ha. exact Hr.
  - exact Hr.
Qed.

(* ---------- the multi-object step ---------- *)
Definition all_inv (st : state) : Prop := Forall (fun x => Inv (sm x)) st.

Lemma all_inv_get st s : all_inv st -> Inv (sm (get st s)).
Proof.
  intros H. unfold get. destruct (Nat.lt_ge_cases s (length st)) as [L|L].
  - unfold all_inv in H. rewrite Forall_forall in H. apply H. apply nth_In. exact L.
  - rewrite nth_overflow by exact L. exact Inv_empty.
Qed.

Lemma all_inv_put st s x : all_inv st -> Inv (sm x) -> all_inv (put st s x).
Proof.
  unfold all_inv, put. revert s. induction st as [|y r IH]; intros s H Hx; [destruct s; constructor|].
  inversion H as [|? ? Hy Hr]; subst. destruct s as [|s]; cbn [upd_nth].
  - constructor; assumption.
  - constructor; [exact Hy|]. apply IH; assumption.
Qed.

Theorem all_inv_init : all_inv init_state.
Proof. repeat constructor; exact Inv_empty. Qed.

(* the operations that only move values between objects, clear them, read them,
   or are operations of the base class *)
Definition value_op (o : xop) : Prop :=
  match o with
  | XB _ _ | XClear _ | XCopy _ _ | XMove _ _ _ | XSwap _ _ | XEnergy _ _ | XNop | XSetLb _ _ _ | XSetUb _ _ _ => True
  | _ => False
  end.

Theorem value_ops_preserve_inv st o :
  value_op o -> all_inv st -> all_inv (fst (xstep st o)).
Proof.
  intros Hv H. destruct o; cbn [value_op] in Hv; try contradiction; cbn [xstep fst].
  - (* XB *) apply all_inv_put; [exact H|]. cbn [sm]. apply Inv_cstep, all_inv_get, H.
  - (* XSetLb *) apply all_inv_put; [exact H|]. cbn [sm]. apply all_inv_get, H.
  - (* XSetUb *) apply all_inv_put; [exact H|]. cbn [sm]. apply all_inv_get, H.
  - (* XClear *) apply all_inv_put; [exact H|]. exact Inv_empty.
  - (* XCopy *) apply all_inv_put; [exact H|]. apply all_inv_get, H.
  - (* XMove *)
    assert (H1 : all_inv (put st a (get st b))) by (apply all_inv_put; [exact H|apply all_inv_get, H]).
    apply all_inv_put; [exact H1|]. destruct c as [c'|]; [apply all_inv_get, H1|exact Inv_empty].
  - (* XSwap *) apply all_inv_put; [apply all_inv_put; [exact H|]|]; apply all_inv_get, H.
  - (* XEnergy *) exact H.
  - (* XNop *) exact H.
Qed.

(* any history of such operations from the initial four objects *)
Theorem value_ops_reachable ops :
  Forall value_op ops -> all_inv (fold_left (fun st o => fst (xstep st o)) ops init_state).
Proof.
  assert (G : forall st, all_inv st -> Forall value_op ops ->
                         all_inv (fold_left (fun st o => fst (xstep st o)) ops st)).
  { induction ops as [|o r IH]; intros st H Hf; [exact H|].
    inversion Hf; subst. cbn [fold_left]. apply IH; [apply value_ops_preserve_inv; assumption|assumption]. }
  intros Hf. apply G; [exact all_inv_init|exact Hf].
Qed.

(* swap is a value permutation and an involution *)
Lemma put_get_same st s : put st s (get st s) = st.
Proof.
  unfold put, get. revert s. induction st as [|x r IH]; intros [|s]; cbn [upd_nth nth]; try reflexivity.
  f_equal. apply IH.
Qed.

Lemma put_put_same st s x y : put (put st s x) s y = put st s y.
Proof.
  unfold put. revert s. induction st as [|z r IH]; intros [|s]; cbn [upd_nth]; try reflexivity.
  f_equal. apply IH.
Qed.

Lemma put_comm st a b x y : a <> b -> put (put st a x) b y = put (put st b y) a x.
Proof.
  unfold put. revert a b. induction st as [|z r IH]; intros [|a] [|b] H; cbn [upd_nth]; try reflexivity; try lia.
  f_equal. apply IH. lia.
Qed.

Lemma get_put_same st s x : s < length st -> get (put st s x) s = x.
Proof. intros H. unfold get, put. rewrite nth_upd_nth_same by exact H. reflexivity. Qed.

Lemma get_put_other st s t x : t <> s -> get (put st s x) t = get st t.
Proof. intros H. unfold get, put. apply nth_upd_nth_other. exact H. Qed.

Lemma put_length st s x : length (put st s x) = length st.
Proof. unfold put. apply upd_nth_length. Qed.

Theorem swap_involutive st a b :
  a < length st -> b < length st ->
  fst (xstep (fst (xstep st (XSwap a b))) (XSwap a b)) = st.
Proof.
  intros Ha Hb. cbn [xstep fst].
  destruct (Nat.eq_dec a b) as [E|E].
  - subst b. repeat (rewrite put_put_same || rewrite put_get_same). reflexivity.
  - set (S := put (put st a (get st b)) b (get st a)).
    assert (HSb : get S b = get st a).
    { unfold S. apply get_put_same. rewrite put_length. exact Hb. }
    assert (HSa : get S a = get st b).
    { unfold S. rewrite get_put_other by exact E. apply get_put_same. exact Ha. }
    rewrite HSb, HSa.
    apply nth_ext with (d := dslot) (d' := dslot).
    + rewrite !put_length. unfold S. rewrite !put_length. reflexivity.
    + intros s _. change (get (put (put S a (get st a)) b (get st b)) s = get st s).
      destruct (Nat.eq_dec s b) as [Eb|Eb].
      * subst s. apply get_put_same. rewrite put_length. unfold S. rewrite !put_length. exact Hb.
      * rewrite get_put_other by exact Eb.
        destruct (Nat.eq_dec s a) as [Ea|Ea].
        -- subst s. apply get_put_same. unfold S. rewrite !put_length. exact Ha.
        -- rewrite get_put_other by exact Ea. unfold S.
           rewrite get_put_other by exact Eb. apply get_put_other. exact Ea.
Qed.

(* clear gives an object that satisfies the invariant and has no variables *)
Theorem clear_is_empty st s :
  let st' := fst (xstep st (XClear s)) in
  s < length st -> Inv (sm (get st' s)) /\ nvars (sm (get st' s)) = 0 /\ sb (get st' s) = [].
Proof.
  intros st' H. subst st'. cbn [xstep fst]. rewrite get_put_same by exact H. cbn [sm sb].
  split; [exact Inv_empty|split; reflexivity].
Qed.
