(* The hand written S model (Model/CQMSpec.v) uses exactly the constants and marker rules that
   translators/cqm_rules.py extracts from the source (Gen/Gen_CQM.v, regenerated on every run). *)
From Coq Require Import List ZArith QArith Qcanon Bool Arith.
From Dimod Require Import Base.Util Model.Poly Model.CQMSpec Gen.Gen_CQM Proofs.RefineFacts.
Import ListNotations.
Open Scope Qc_scope.

Theorem default_bounds_generated : forall vt, default_bounds vt = gen_default_bounds vt.
Proof. intros vt. destruct vt; reflexivity. Qed.

(* the range check of add_variables uses vartype_limits min/max *)
Theorem limits_generated : forall vt,
  match vt with INTEGER | REAL => gen_limits vt = (- snd (default_bounds vt), snd (default_bounds vt)) | _ => gen_limits vt = default_bounds vt end.
Proof. intros vt. destruct vt; cbn [gen_limits default_bounds snd]; try reflexivity; f_equal; apply Qc_is_canon; reflexivity. Qed.

Theorem spin_to_binary_generated : forall v p,
  spin_to_binary v p = substitute v (fst (fst (fst gen_spin_to_binary))) (snd (fst (fst gen_spin_to_binary))) p.
Proof. reflexivity. Qed.

Theorem binary_to_spin_generated : forall v p,
  binary_to_spin v p = substitute v (fst (fst (fst gen_binary_to_spin))) (snd (fst (fst gen_binary_to_spin))) p.
Proof. reflexivity. Qed.

Theorem change_vartype_bounds_generated : forall l q x,
  find_var l (q_vars (spin_to_binary_one l q)) = Some x ->
  v_vt x = BINARY /\ v_lb x = snd (fst gen_spin_to_binary) /\ v_ub x = snd gen_spin_to_binary.
Proof.
  intros l q x H. unfold spin_to_binary_one, set_info, set_vars, find_var, upd_var in H. cbn [q_vars] in H.
  induction (q_vars (map_exprs (spin_to_binary l) q)) as [|y r IH]; [discriminate|]. cbn [map find] in H.
  destruct (v_lbl y =? l)%nat eqn:E.
  - cbn [v_lbl] in H. rewrite E in H. injection H as <-. repeat split.
  - rewrite E in H. apply IH. exact H.
Qed.

Theorem flip_generated : forall l q q' x, find_var l (q_vars q) = Some x -> flip l q = (q', XNone) ->
  q_obj q' = match v_vt x with
             | BINARY => substitute l (fst gen_flip_binary) (snd gen_flip_binary) (q_obj q)
             | _ => substitute l (fst gen_flip_spin) (snd gen_flip_spin) (q_obj q)
             end.
Proof.
  intros l q q' x Hf H. unfold flip in H. rewrite Hf in H. destruct (v_vt x); try discriminate; injection H as <-; reflexivity.
Qed.

(* the marker rules, in the vocabulary of the generated file *)
Definition unmark_cond (c : gen_mark_cond) (vs : list vinfo) (l : label) (k : scon) : bool :=
  match c with
  | GenMarkedAndContains => k_mark k && pmentions (k_p k) l
  | GenDiscreteBeforeAndContains => is_discrete vs k && pmentions (k_p k) l
  end.

Theorem fix_marker_rule_generated : forall l a q q' x,
  find_var l (q_vars q) = Some x -> fix_one l a q = (q', XNone) ->
  map k_mark (q_cons q') =
  map (fun k => k_mark k && negb ((gen_fix_requires_binary_nonzero && is_binary (v_vt x) && negb (Qc_eqb a 0))
                                 && unmark_cond gen_fix_unmark (q_vars q) l k)) (q_cons q).
Proof.
  intros l a q q' x Hf H. cbn [gen_fix_requires_binary_nonzero gen_fix_unmark unmark_cond andb].
  destruct (is_binary (v_vt x) && negb (Qc_eqb a 0)) eqn:C.
  - apply andb_true_iff in C. destruct C as [C1 C2]. apply negb_true_iff in C2.
    destruct (v_vt x) eqn:Vt; try discriminate.
    rewrite (fix_variable_marks l a q q' x Hf Vt C2 H). apply map_ext. intros k. cbn [andb].
    destruct (k_mark k); destruct (pmentions (k_p k) l); reflexivity.
  - rewrite (fix_variable_marks_other l a q q' x Hf C H). apply map_ext. intros k. cbn [andb negb]. rewrite andb_true_r. reflexivity.
Qed.

Theorem flip_marker_rule_generated : forall l q q', flip l q = (q', XNone) ->
  map k_mark (q_cons q') = map (fun k => k_mark k && negb (unmark_cond gen_flip_unmark (q_vars q) l k)) (q_cons q).
Proof. intros l q q' H. exact (flip_variable_marks l q q' H). Qed.

Theorem remove_variable_guard_generated : forall l q,
  in_discrete l q = gen_remove_variable_refuses_discrete -> remove_variable_py l q = (q, XValue).
Proof. intros l q H. unfold remove_variable_py. cbn [gen_remove_variable_refuses_discrete] in H. rewrite H. reflexivity. Qed.
