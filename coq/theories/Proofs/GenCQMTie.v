(* The hand written S model (Model/CQMSpec.v) uses exactly the constants and marker rules that
   translators/cqm_rules.py extracts from the source (Gen/Gen_CQM.v, regenerated on every run). *)
From Coq Require Import List ZArith QArith Qcanon Bool Arith.
From Dimod Require Import Base.Util Model.Poly Model.CQMSpec Gen.Gen_CQM Proofs.RefineFacts.
Import ListNotations.
Open Scope Qc_scope.

Theorem default_bounds_generated : forall vt, default_bounds vt = gen_default_bounds vt.
Proof. intros vt. destruct vt; reflexivity. Qed.

(* the range check of add_variables uses vartype_limits min/max *)
Theorem limits_generated : forall vt,
  match vt with INTEGER | REAL => gen_limits vt = (- snd (default_bounds vt), snd (default_bounds vt)) | _ => gen_limits vt = default_bounds vt end.
Proof. intros vt. destruct vt; cbn [gen_limits default_bounds snd]; try reflexivity; f_equal; apply Qc_is_canon; reflexivity. Qed.

Theorem spin_to_binary_generated : forall v p,
  spin_to_binary v p = substitute v (fst (fst (fst gen_spin_to_binary))) (snd (fst (fst gen_spin_to_binary))) p.
Proof. reflexivity. Qed.

Theorem binary_to_spin_generated : forall v p,
  binary_to_spin v p = substitute v (fst (fst (fst gen_binary_to_spin))) (snd (fst (fst gen_binary_to_spin))) p.
Proof. reflexivity. Qed.

Theorem change_vartype_bounds_generated : forall l q x,
  find_var l (q_vars (spin_to_binary_one l q)) = Some x ->
  v_vt x = BINARY /\ v_lb x = snd (fst gen_spin_to_binary) /\ v_ub x = snd gen_spin_to_binary.
Proof.
  intros l q x H. unfold spin_to_binary_one, set_info, set_vars, find_var, upd_var in H. cbn [q_vars] in H.
  induction (q_vars (map_exprs (spin_to_binary l) q)) as [|y r IH]; [discriminate|]. cbn [map find] in H.
  destruct (v_lbl y =? l)%nat eqn:E.
  - cbn [v_lbl] in H. rewrite E in H. injection H as <-. repeat split.
  - rewrite E in H. apply IH. exact H.
Qed.

Theorem flip_generated : forall l q q' x, find_var l (q_vars q) = Some x -> flip l q = (q', XNone) ->
  q_obj q' = match v_vt x with
             | BINARY => substitute l (fst gen_flip_binary) (snd gen_flip_binary) (q_obj q)
             | _ => substitute l (fst gen_flip_spin) (snd gen_flip_spin) (q_obj q)
             end.
Proof.
  intros l q q' x Hf H. unfold flip in H. rewrite Hf in H. destruct (v_vt x); try discriminate; injection H as <-; reflexivity.
Qed.

(* the marker rules, in the vocabulary of the generated file *)
Definition unmark_cond (c : gen_mark_cond) (vs : list vinfo) (l : label) (k : scon) : bool :=
  match c with
  | GenMarkedAndContains => k_mark k && pmentions (k_p k) l
  | GenDiscreteBeforeAndContains => is_discrete vs k && pmentions (k_p k) l
  end.

Theorem fix_marker_rule_generated : forall l a q q' x,
  find_var l (q_vars q) = Some x -> fix_one l a q = (q', XNone) ->
  map k_mark (q_cons q') =
  map (fun k => k_mark k && negb ((gen_fix_requires_binary_nonzero && is_binary (v_vt x) && negb (Qc_eqb a 0))
                                 && unmark_cond gen_fix_unmark (q_vars q) l k)) (q_cons q).
Proof.
  intros l a q q' x Hf H. cbn [gen_fix_requires_binary_nonzero gen_fix_unmark unmark_cond andb].
  destruct (is_binary (v_vt x) && negb (Qc_eqb a 0)) eqn:C.
  - apply andb_true_iff in C. destruct C as [C1 C2]. apply negb_true_iff in C2.
    destruct (v_vt x) eqn:Vt; try discriminate.
    rewrite (fix_variable_marks l a q q' x Hf Vt C2 H). apply map_ext. intros k. cbn [andb].
    destruct (k_mark k); destruct (pmentions (k_p k) l); reflexivity.
  - rewrite (fix_variable_marks_other l a q q' x Hf C H). apply map_ext. intros k. cbn [andb negb]. rewrite andb_true_r. reflexivity.
Qed.

Theorem flip_marker_rule_generated : forall l q q', flip l q = (q', XNone) ->
  map k_mark (q_cons q') = map (fun k => k_mark k && negb (unmark_cond gen_flip_unmark (q_vars q) l k)) (q_cons q).
Proof. intros l q q' H. exact (flip_variable_marks l q q' H). Qed.

Theorem remove_variable_guard_generated : forall l q,
  in_discrete l q = gen_remove_variable_refuses_discrete -> remove_variable_py l q = (q, XValue).
Proof. intros l q H. unfold remove_variable_py. cbn [gen_remove_variable_refuses_discrete] in H. rewrite H. reflexivity. Qed.

(* ---------- exception classes and the weight / penalty table ---------- *)
Definition exc_of (g : gen_exc) : exc := match g with GValue => XValue | GType => XType | GKey => XKey end.
Definition pen_of (p : penalty) : gen_penalty := match p with PLin => GenLinear | PQuad => GenQuadratic end.

Theorem unknown_variable_exception_generated : forall l q,
  has_var l (q_vars q) = false -> in_discrete l q = false ->
  remove_variable_py l q = (q, exc_of gen_exc_unknown_variable)
  /\ fix_one l 0 q = (q, exc_of gen_exc_unknown_variable)
  /\ flip l q = (q, exc_of gen_exc_unknown_variable).
Proof.
  intros l q H D. unfold remove_variable_py, fix_one, flip, has_var in *. rewrite D.
  destruct (find_var l (q_vars q)); [discriminate|]. repeat split.
Qed.

Theorem remove_variable_discrete_exception_generated : forall l q,
  in_discrete l q = true -> remove_variable_py l q = (q, exc_of gen_exc_remove_variable_discrete).
Proof. intros l q H. unfold remove_variable_py. rewrite H. reflexivity. Qed.

Theorem flip_not_binary_exception_generated : forall l q x,
  find_var l (q_vars q) = Some x -> is_bin_or_spin (v_vt x) = false -> flip l q = (q, exc_of gen_exc_flip_not_binary).
Proof. intros l q x H B. unfold flip. rewrite H. destruct (v_vt x); try discriminate; reflexivity. Qed.

Theorem change_vartype_exception_generated : forall vt l q q' e,
  change_vartype vt l q = (q', e) -> e = XNone \/ (q' = q /\ (e = exc_of gen_exc_unknown_variable \/ e = exc_of gen_exc_change_vartype_unsupported)).
Proof.
  intros vt l q q' e H. unfold change_vartype in H. destruct (find_var l (q_vars q)) as [x|].
  - destruct (v_vt x); destruct vt; injection H as <- <-; auto.
  - injection H as <- <-. right. split; [reflexivity|left; reflexivity].
Qed.

Theorem view_unknown_constraint_exception_generated : forall faith_op l q,
  has_con l (q_cons q) = false ->
  (exists v b, faith_op = VAddLinear (TCon l) v b) \/ (exists v b, faith_op = VSetLinear (TCon l) v b)
  \/ (exists b, faith_op = VSetOffset (TCon l) b) \/ (exists v, faith_op = VRemoveVar (TCon l) v) ->
  step q faith_op = (q, exc_of gen_exc_unknown_constraint_view).
Proof.
  intros o l q H [[v [b ->]]|[[v [b ->]]|[[b ->]|[v ->]]]]; cbn [step target_ok on_target]; rewrite H; reflexivity.
Qed.

Theorem duplicate_label_exception_generated : forall d s rhs l soft q,
  has_con l (q_cons q) = true -> add_con_model d s rhs l soft q = (q, exc_of gen_exc_duplicate_constraint_label).
Proof. intros d s rhs l soft q H. unfold add_con_model. rewrite H. reflexivity. Qed.

(* the quadratic penalty is accepted exactly for the vartypes of the generated table *)
Theorem penalty_table_generated : forall vt, is_bin_or_spin vt = gen_penalty_allowed GenQuadratic vt /\ gen_penalty_allowed GenLinear vt = true.
Proof. intros vt. destruct vt; split; reflexivity. Qed.

Theorem set_weight_generated : forall l w pen q k,
  find_con l (q_cons q) = Some k ->
  set_weight l w pen q =
  if (gen_weight_must_be_positive && match w with Some x => Qc_leb x 0 | None => false end)
     || negb (forallb (fun v => gen_penalty_allowed (pen_of pen) (vt_of (q_vars q) v)) (pvars (k_p k)))
  then (q, exc_of gen_exc_weight)
  else (upd_con l (fun k => con_set_soft k (match w with Some x => Some (x, pen) | None => None end)) q, XNone).
Proof.
  intros l w pen q k H. unfold set_weight. rewrite H. cbn [gen_weight_must_be_positive andb].
  destruct (match w with Some x => Qc_leb x 0 | None => false end); cbn [orb]; [reflexivity|].
  destruct pen; cbn [penalty_eqb pen_of andb].
  - assert (E : forallb (fun v => gen_penalty_allowed GenLinear (vt_of (q_vars q) v)) (pvars (k_p k)) = true).
    { apply forallb_forall. intros v _. destruct (vt_of (q_vars q) v); reflexivity. }
    rewrite E. reflexivity.
  - assert (E : forallb (fun v => gen_penalty_allowed GenQuadratic (vt_of (q_vars q) v)) (pvars (k_p k))
                = forallb (fun v => is_bin_or_spin (vt_of (q_vars q) v)) (pvars (k_p k))).
    { induction (pvars (k_p k)) as [|v r IH]; [reflexivity|]. cbn [forallb]. rewrite IH. destruct (vt_of (q_vars q) v); reflexivity. }
    rewrite E. destruct (forallb (fun v => is_bin_or_spin (vt_of (q_vars q) v)) (pvars (k_p k))); reflexivity.
Qed.

(* add_constraint validates the weight before the model is touched *)
Theorem add_constraint_weight_atomic_generated : forall q0 q k w pen,
  Qc_leb w 0 = true -> append_con q0 q k (Some (w, pen)) = (q0, exc_of gen_exc_weight).
Proof. intros q0 q k w pen H. unfold append_con. rewrite H. reflexivity. Qed.
