(* C06: quicksum is the left fold of +, in-place operators are the pure operators on the
   receiver and a frame for everything else, comparison objects keep their satisfied set. *)
From Coq Require Import List ZArith QArith Qcanon Bool Arith Lia.
From Dimod Require Import Base.Util Model.Poly Model.Sym Model.SymStore Proofs.PolyFacts Proofs.SymFacts.
Import ListNotations.
Open Scope Qc_scope.

(* ---------- quicksum ---------- *)
Lemma eval_fold_err ys : forall e0 e, eval e0 = Err e -> eval (fold_left Add ys e0) = Err e.
Proof.
  induction ys as [|y ys IH]; intros e0 e H; cbn [fold_left]; [exact H|].
  apply IH. cbn [eval]. rewrite H. reflexivity.
Qed.

Lemma eval_fold_left_add xs : forall x v vs,
  eval x = Ok v -> mapM eval xs = Ok vs -> eval (fold_left Add xs x) = fold_add v vs.
Proof.
  induction xs as [|y ys IH]; intros x v vs Hx Hm; cbn [mapM] in Hm.
  - inversion Hm; subst. cbn [fold_left fold_add]. exact Hx.
  - unfold bind in Hm. destruct (eval y) as [vy|] eqn:Ey; [|discriminate Hm].
    fold (mapM eval ys) in Hm. destruct (mapM eval ys) as [vs'|] eqn:Em; [|discriminate Hm].
    inversion Hm; subst. cbn [fold_left fold_add]. unfold bind.
    destruct (v_add v vy) as [acc|e] eqn:Ea.
    + apply IH; [cbn [eval]; rewrite Hx, Ey; exact Ea|reflexivity].
    + apply eval_fold_err. cbn [eval]. rewrite Hx, Ey. exact Ea.
Qed.

(* quicksum([x0, x1, ...]) = ((x0 + x1) + ...) whenever the items themselves evaluate *)
Theorem quicksum_left_fold x xs vs :
  mapM eval (x :: xs) = Ok vs -> eval (Quicksum (x :: xs)) = eval (fold_left Add xs x).
Proof.
  intros H. cbn [eval]. rewrite H. cbn [bind]. cbn [mapM] in H. unfold bind in H.
  destruct (eval x) as [v|] eqn:Ex; [|discriminate H].
  fold (mapM eval xs) in H. destruct (mapM eval xs) as [vs'|] eqn:Em; [|discriminate H].
  inversion H; subst. cbn [v_quicksum]. symmetry. apply eval_fold_left_add; [exact Ex|exact Em].
Qed.

Theorem quicksum_empty : eval (Quicksum []) = Ok (VMdl qm_zero).
Proof. reflexivity. Qed.

(* ---------- the store ---------- *)
Lemma nth_set_same {A} (l : list A) i x : (i < length l)%nat -> nth_error (set_nth i x l) i = Some x.
Proof.
  revert i. induction l as [|h t IH]; intros i H; cbn [length] in H; [lia|].
  destruct i; cbn [set_nth nth_error]; [reflexivity|apply IH; lia].
Qed.

Lemma nth_set_other {A} (l : list A) i k x : k <> i -> nth_error (set_nth i x l) k = nth_error l k.
Proof.
  revert i k. induction l as [|h t IH]; intros i k H; [destruct i; reflexivity|].
  destruct i, k; cbn [set_nth nth_error]; try reflexivity; [contradiction|apply IH; lia].
Qed.

Lemma set_nth_length {A} (l : list A) i x : length (set_nth i x l) = length l.
Proof. revert i. induction l as [|h t IH]; intros [|i]; cbn [set_nth length]; auto. Qed.

(* st[i] op= st[j]: afterwards name i holds exactly the value of the pure operator, every other
   object - the other operand included when j <> i - is what it was *)
Theorem inplace_is_pure o i j st st' :
  exec_inplace o i j st = Ok st' ->
  exists a b v, nth_error st i = Some a /\ nth_error st j = Some b /\ pure_op o a b = Ok v /\
    nth_error st' i = Some v /\ length st' = length st /\
    forall k, k <> i -> nth_error st' k = nth_error st k.
Proof.
  unfold exec_inplace. destruct (nth_error st i) as [a|] eqn:Ei; [|discriminate].
  destruct (nth_error st j) as [b|] eqn:Ej; [|discriminate].
  destruct (pure_op o a b) as [v|e] eqn:Ep; [|discriminate]. intros H; inversion H; subst.
  exists a, b, v. split; [reflexivity|]. split; [reflexivity|]. split; [exact Ep|].
  split; [apply nth_set_same; apply nth_error_Some; congruence|].
  split; [apply set_nth_length|]. intros k Hk. apply nth_set_other. exact Hk.
Qed.

Corollary inplace_other_operand_unchanged o i j st st' :
  exec_inplace o i j st = Ok st' -> j <> i -> nth_error st' j = nth_error st j.
Proof.
  intros H Hj. destruct (inplace_is_pure _ _ _ _ _ H) as [a [b [v [_ [_ [_ [_ [_ F]]]]]]]]. apply F. exact Hj.
Qed.

(* the in-place form fails exactly when the pure operator does (and then there is no new store) *)
Theorem inplace_fails_iff_pure o i j st a b :
  nth_error st i = Some a -> nth_error st j = Some b ->
  forall e, exec_inplace o i j st = Err e <-> pure_op o a b = Err e.
Proof.
  intros Hi Hj e. unfold exec_inplace. rewrite Hi, Hj. destruct (pure_op o a b); split; congruence.
Qed.

(* quicksum leaves every existing object alone and appends the left fold of + *)
Theorem quicksum_frame args st st' :
  exec_quicksum args st = Ok st' ->
  exists v, st' = st ++ [v] /\ forall k, (k < length st)%nat -> nth_error st' k = nth_error st k.
Proof.
  unfold exec_quicksum. destruct (mapM _ args) as [vs|]; [|discriminate].
  destruct (v_quicksum vs) as [v|]; [|discriminate]. intros H; inversion H; subst.
  exists v. split; [reflexivity|]. intros k Hk. apply nth_error_app1. exact Hk.
Qed.

(* ---------- comparison objects ---------- *)
Lemma sat_b_iff s x r : sat_b s x r = true <-> sat s x r.
Proof.
  destruct s; cbn [sat_b sat].
  - apply Qle_bool_iff.
  - apply Qle_bool_iff.
  - unfold Qc_eqb. split; [intros H; apply Qc_is_canon, Qeq_bool_iff, H|intros ->; apply Qeq_bool_iff; reflexivity].
Qed.

(* the comparison object accepts exactly the samples on which the written relation holds *)
Theorem cmp_sat a s b c :
  v_cmp a s b = Ok c ->
  forall smp, sat (cm_sense c) (energy (m_poly (cm_lhs c)) smp) (cm_rhs c) <-> sat s (val_energy a smp) (val_energy b smp).
Proof.
  destruct a as [x|m|m], b as [y|m'|m']; cbn [v_cmp]; intros H; inversion H; subst; intros smp;
    cbn [cm_sense cm_lhs cm_rhs val_energy]; [destruct s; cbn [flip sat]; split; auto|tauto].
Qed.

Theorem eval_cmp_sat a s b c :
  eval_cmp a s b = Ok c ->
  forall smp, respects (tvt (m_tab (cm_lhs c))) smp ->
    (sat (cm_sense c) (energy (m_poly (cm_lhs c)) smp) (cm_rhs c) <-> sat s (denote a smp) (denote b smp)).
Proof.
  unfold eval_cmp, bind. destruct (eval a) as [x|] eqn:Ea; [|discriminate]. destruct (eval b) as [y|] eqn:Eb; [|discriminate].
  intros H smp Hr. rewrite (cmp_sat _ _ _ _ H smp).
  assert (Rn : forall t, respects (tvt (@nil (label * vinfo))) t) by (intros t v; exact I).
  destruct x as [q|m|m], y as [q'|m'|m']; cbn [v_cmp] in H; inversion H; subst; cbn [cm_lhs m_tab] in Hr.
  - rewrite <- (eval_energy a _ Ea smp (Rn smp)), <- (eval_energy b _ Eb smp Hr). tauto.
  - rewrite <- (eval_energy a _ Ea smp Hr), <- (eval_energy b _ Eb smp (Rn smp)). tauto.
Qed.

(* a model on both sides is not accepted; the documented rewrite  a - b <sense> 0  has the same
   satisfied set *)
Theorem cmp_two_models_rejected m1 m2 s : v_cmp (VMdl m1) s (VMdl m2) = Err ETypeError.
Proof. reflexivity. Qed.

Lemma Qcle_sub_0 x y : x - y <= 0 <-> x <= y.
Proof.
  rewrite (Qcle_minus_iff (x - y) 0), (Qcle_minus_iff x y).
  replace (0 + - (x - y)) with (y + - x) by ring. tauto.
Qed.

Lemma Qcle_0_sub x y : 0 <= x - y <-> y <= x.
Proof.
  rewrite (Qcle_minus_iff 0 (x - y)), (Qcle_minus_iff y x).
  replace (x - y + - 0) with (x + - y) by ring. tauto.
Qed.

Theorem cmp_move_terms a b d s :
  v_sub a b = Ok d -> forall smp, respects (tvt (val_tab d)) smp ->
  (sat s (val_energy d smp) 0 <-> sat s (val_energy a smp) (val_energy b smp)).
Proof.
  intros H smp Hr. apply v_sub_ok in H. destruct H as [_ [_ C]]. rewrite (C smp Hr).
  destruct s; cbn [sat].
  - apply Qcle_sub_0.
  - apply Qcle_0_sub.
  - split; intros E; [|rewrite E; ring].
    replace (val_energy a smp) with (val_energy a smp - val_energy b smp + val_energy b smp) by ring.
    rewrite E. ring.
Qed.

(* what add_constraint stores is the comparison itself *)
Theorem stored_constraint_same c :
  let '(l, s, r) := stored_constraint c in
  m_tab l = m_tab (cm_lhs c) /\ m_poly l = m_poly (cm_lhs c) /\ s = cm_sense c /\ r = cm_rhs c.
Proof. cbn. auto. Qed.
