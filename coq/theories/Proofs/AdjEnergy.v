(* C01 at the adjacency level: the lower-triangle walk with early break
   computes the energy of the abstracted polynomial. *)
From Coq Require Import List ZArith QArith Qcanon Bool Arith Lia Sorted.
From Dimod Require Import Base.Util Model.Poly Model.Adj Proofs.PolyFacts
  Proofs.AdjNb Proofs.AdjInv Proofs.AdjRW.
Import ListNotations.
Local Open Scope nat_scope.

Lemma qsum_map_add {A} (f g : A -> Qc) l :
  qsum (map (fun u => (f u + g u)%Qc) l) = (qsum (map f l) + qsum (map g l))%Qc.
Proof. induction l as [|x l IH]; cbn [map qsum]; [ring|rewrite IH; ring]. Qed.

Lemma qsum_map_ext_in {A} (f g : A -> Qc) l :
  (forall x, In x l -> f x = g x) -> qsum (map f l) = qsum (map g l).
Proof. intros H. f_equal. apply map_ext_in. exact H. Qed.

(* the early break loses nothing on a sorted neighbourhood *)
Lemma walk_energy_break s u w r : lt_all w r -> u <= w -> walk_energy s u r = 0%Qc.
Proof.
  destruct r as [|[k c] r]; [reflexivity|]. intros H Hu.
  specialize (H (k, c) (or_introl eq_refl)). cbn [fst] in H. cbn [walk_energy].
  destruct (Nat.ltb_spec u k); [reflexivity|lia].
Qed.

Lemma walk_energy_filter s u n :
  ksorted n -> walk_energy s u n = quad_energy (lower_terms u n) s.
Proof.
  unfold lower_terms. induction n as [|[w b] r IH]; [reflexivity|].
  intros Hs. apply ksorted_cons in Hs. destruct Hs as [Hall Hs]. specialize (IH Hs).
  cbn [walk_energy filter fst]. destruct (Nat.ltb_spec u w) as [L|L].
  - destruct (Nat.leb_spec w u); [lia|]. rewrite <- IH. symmetry.
    apply (walk_energy_break s u w r Hall). lia.
  - destruct (Nat.leb_spec w u); [|lia]. cbn [map fst snd]. rewrite quad_energy_cons, <- IH.
    cbn [fst snd]. reflexivity.
Qed.

Lemma walk_energy_sum s u n :
  ksorted n ->
  walk_energy s u n =
  qsum (map (fun e => (snd e * s u * s (fst e))%Qc) (filter (fun e => fst e <=? u) n)).
Proof.
  intros H. rewrite walk_energy_filter by exact H. unfold lower_terms, quad_energy.
  rewrite map_map. reflexivity.
Qed.

Lemma lin_energy_combine_seq (l : list Qc) a s :
  lin_energy (combine (seq a (length l)) l) s =
  qsum (map (fun u => (nth (u - a) l 0 * s u)%Qc) (seq a (length l))).
Proof.
  revert a. induction l as [|x l IH]; intros a; [reflexivity|].
  cbn [length seq combine map qsum]. rewrite lin_energy_cons, IH. cbn [fst snd].
  rewrite Nat.sub_diag. cbn [nth]. f_equal. apply qsum_map_ext_in.
  intros u Hu. apply in_seq in Hu. replace (u - a) with (S (u - S a)) by lia. reflexivity.
Qed.

Lemma quad_energy_flat_map {A} (F : A -> list qterm) l s :
  quad_energy (flat_map F l) s = qsum (map (fun u => quad_energy (F u) s) l).
Proof.
  induction l as [|x l IH]; [reflexivity|]. cbn [flat_map map qsum].
  rewrite quad_energy_app, IH. reflexivity.
Qed.

Lemma energy_adj_abs_sorted m s :
  (forall u, u < nvars m -> ksorted (nb m u)) -> energy_adj m s = energy (abs m) s.
Proof.
  intros Hs. unfold energy_adj, energy, abs. cbn [p_off p_lin p_quad].
  rewrite (qsum_map_add (fun u => (nth u (lin m) 0 * s u)%Qc) (fun u => walk_energy s u (nb m u))).
  rewrite quad_energy_flat_map. unfold nvars. rewrite lin_energy_combine_seq.
  rewrite <- Qcplus_assoc. f_equal. f_equal.
  - apply qsum_map_ext_in. intros u _. rewrite Nat.sub_0_r. reflexivity.
  - apply qsum_map_ext_in. intros u Hu. apply in_seq in Hu. apply walk_energy_filter, Hs. unfold nvars. lia.
Qed.

Theorem energy_adj_abs m s : Inv m -> energy_adj m s = energy (abs m) s.
Proof. intros H. apply energy_adj_abs_sorted. intros u _. apply Inv_sorted, H. Qed.
