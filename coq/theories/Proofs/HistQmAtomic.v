(* C04: a raising call changes nothing - EVERY atomic call of a QuadraticModel.
   Invariant used: no interaction mentions a REAL variable (dimod.REAL_INTERACTIONS
   is False; add_quadratic / set_quadratic refuse REAL ends).  With it and wf, every
   existing interaction (u, w) has quad_guard u w = false, so the loops of
   flip_variable / scale(ignored ...) / fix_variable over existing neighbours cannot
   raise after their first check; every other call is decided before its first write. *)
From Coq Require Import List ZArith QArith Qcanon Bool Arith Lia.
From Dimod Require Import Base.Util Model.Poly Model.View Model.Hist Proofs.PolyFacts Proofs.HistFacts
  Proofs.HistWf Proofs.HistWf2 Proofs.HistAtomic Proofs.HistAtomicQM.
Import ListNotations.
Open Scope Qc_scope.

Definition Q (s : state) : Prop := st_kind s = None.

Definition no_real_inter (s : state) : Prop :=
  forall t, In t (p_quad (st_poly s)) ->
    is_real (vt_of s (fst (fst t))) = false /\ is_real (vt_of s (snd (fst t))) = false.

Lemma same_pair_cases u w a b : same_pair u w a b = true -> (u = a /\ w = b) \/ (u = b /\ w = a).
Proof.
  unfold same_pair. intros H. apply orb_true_iff in H. destruct H as [H|H]; apply andb_true_iff in H; destruct H as [H1 H2];
    apply Nat.eqb_eq in H1; apply Nat.eqb_eq in H2; auto.
Qed.

Lemma has_pair_inv q u w :
  has_pair q u w = true ->
  exists t, In t q /\ ((u = fst (fst t) /\ w = snd (fst t)) \/ (u = snd (fst t) /\ w = fst (fst t))).
Proof.
  unfold has_pair. intros H. apply existsb_exists in H. destruct H as [t [It Et]].
  exists t. split; [exact It|]. apply same_pair_cases. exact Et.
Qed.

(* an existing interaction of a good QM can always be rewritten *)
Lemma qm_inter_writable s u w :
  Q s -> wf s -> no_real_inter s -> hasq s u w = true ->
  quad_guard u w s = false /\ has_var s u = true /\ has_var s w = true.
Proof.
  intros K (_ & _ & Hq & _) Hr H. unfold hasq in H. apply has_pair_inv in H. destruct H as [t [It Ht]].
  destruct (Hq t It) as (L1 & L2 & Hself). destruct (Hr t It) as [R1 R2].
  assert (Hu : has_var s u = true) by (apply has_var_In; destruct Ht as [[-> _]|[-> _]]; assumption).
  assert (Hw' : has_var s w = true) by (apply has_var_In; destruct Ht as [[_ ->]|[_ ->]]; assumption).
  split; [|split; assumption].
  unfold quad_guard. rewrite K, Hu, Hw'. cbn [andb negb orb].
  assert (Ru : is_real (vt_of s u) = false) by (destruct Ht as [[-> _]|[-> _]]; assumption).
  assert (Rw : is_real (vt_of s w) = false) by (destruct Ht as [[_ ->]|[_ ->]]; assumption).
  assert (Hs : (u =? w)%nat && is_sb (vt_of s u) = false).
  { destruct (Nat.eqb_spec u w) as [E|E]; [|reflexivity]. cbn [andb].
    assert (E' : fst (fst t) = snd (fst t)) by (destruct Ht as [[A B']|[A B']]; congruence).
    specialize (Hself E'). destruct Ht as [[A _]|[A _]]; rewrite A; [exact Hself|]. rewrite <- E'. exact Hself. }
  rewrite Hs, Ru, Rw. reflexivity.
Qed.

Lemma no_real_nb_of s v : Q s -> wf s -> no_real_inter s -> no_real_nb s v.
Proof.
  intros K Hw Hr w H. unfold hasq in H. apply has_pair_inv in H. destruct H as [t [It Ht]].
  destruct (Hr t It) as [R1 R2]. destruct Ht as [[_ ->]|[_ ->]]; assumption.
Qed.

(* ---------- the quadratic part is untouched by linear / offset writes ---------- *)
Lemma sameq_refl s : sameq s s.
Proof. reflexivity. Qed.

Lemma sameq_resolve v s : sameq s (fst (resolve v s)).
Proof.
  unfold resolve, sameq. destruct (st_kind s); cbn [fst ok]; [unfold ensure; destruct (has_var s v); reflexivity|].
  destruct (has_var s v); reflexivity.
Qed.

Lemma sameq_d_set_linear_any v b s : sameq s (fst (d_set_linear v b s)).
Proof.
  unfold d_set_linear, bind. pose proof (sameq_resolve v s) as H.
  destruct (snd (resolve v s)); [|exact H]. cbn [fst ok]. unfold sameq in *. cbn [with_poly st_poly]. exact H.
Qed.

Lemma sameq_seqm {A : Type} (f : A -> state -> res) l :
  (forall x s', sameq s' (fst (f x s'))) -> forall s, sameq s (fst (seqm f l s)).
Proof.
  intros Hf. induction l as [|x l IH]; intros s; [apply sameq_refl|].
  cbn [seqm]. unfold bind. destruct (snd (f x s)); [|apply Hf].
  eapply sameq_trans; [apply Hf|apply IH].
Qed.

Lemma pairs_same s s' : same_vars s s' -> sameq s s' -> pairs s' = pairs s.
Proof. intros [Hv _] Hq. unfold pairs, labels. rewrite Hv, Hq. reflexivity. Qed.

Lemma pairs_in_has q vs t : In t (pairs_in q vs) -> has_pair q (fst t) (snd t) = true.
Proof.
  induction vs as [|v rest IH]; [intros []|]. cbn [pairs_in]. intros H.
  apply in_app_or in H. destruct H as [H|H]; [apply IH; exact H|].
  apply in_app_or in H. destruct H as [H|H].
  - destruct (has_pair q v v) eqn:E; [|destruct H]. destruct H as [<-|[]]. exact E.
  - apply in_map_iff in H. destruct H as [w [<- Hw]]. apply filter_In in Hw. cbn [fst snd].
    rewrite has_pair_sym. apply Hw.
Qed.

(* ---------- scale with ignored sets ---------- *)
Lemma noop_m_scale_qm k iv ii io s : Q s -> wf s -> no_real_inter s -> noop (m_scale Direct k iv ii io s) s.
Proof.
  intros K Hw Hr.
  set (f1 := fun (v : label) (s : state) => if mem_label v iv then ok s
                       else h_set_linear Direct v (k * opt0 (h_get_linear Direct v s)) s).
  set (f2 := fun (t : label * label) (s : state) => if mem_pair (fst t) (snd t) ii then ok s
                                     else h_set_quadratic Direct (fst t) (snd t)
                                            (k * opt0 (h_get_quadratic Direct (fst t) (snd t) s)) s).
  assert (Hloop : goodq s (seqm f1 (labels s) s >>= (fun s => seqm f2 (pairs s) s)
                           >>= fun s => if io then ok s else h_set_offset Direct (h_get_offset Direct s * k) s)).
  { assert (G0 : goodq s (seqm f1 (labels s) s)).
    { apply goodq_seqm. intros x Hx s' Hs'. unfold f1. destruct (mem_label x iv); [apply goodq_ok|].
      unfold h_set_linear; cbn [vdir_of]. apply goodq_d_set_linear. rewrite (same_vars_has s s' _ Hs'). apply has_var_In. exact Hx. }
    assert (S0 : sameq s (fst (seqm f1 (labels s) s))).
    { apply sameq_seqm. intros x s'. unfold f1. destruct (mem_label x iv); [apply sameq_refl|].
      unfold h_set_linear; cbn [vdir_of]. apply sameq_d_set_linear_any. }
    apply goodq_bind; [|intros s' Hs'; destruct io; [apply goodq_ok|unfold h_set_offset; cbn [vdir_of]; apply goodq_d_set_offset]].
    destruct G0 as [A1 A2]. unfold bind. rewrite A1.
    set (s1 := fst (seqm f1 (labels s) s)) in *.
    rewrite (pairs_same s s1 A2 S0).
    assert (G1 : goodq s1 (seqm f2 (pairs s) s1)).
    { apply goodq_seqm. intros t Ht s' Hs'. unfold f2. destruct (mem_pair (fst t) (snd t) ii); [apply goodq_ok|].
      unfold h_set_quadratic.
      assert (Hq : hasq s (fst t) (snd t) = true) by (apply pairs_in_has with (vs := labels s); exact Ht).
      destruct (qm_inter_writable s _ _ K Hw Hr Hq) as (G & Hu & Hv).
      pose proof (same_vars_trans _ _ _ A2 Hs') as Hss.
      apply goodq_d_set_quadratic; [rewrite (same_vars_guard s s' _ _ Hss); exact G| |];
        rewrite (same_vars_has s s' _ Hss); assumption. }
    destruct G1 as [C1 C2]. split; [exact C1|]. eapply same_vars_trans; eassumption. }
  unfold m_scale. fold f1 f2.
  destruct iv as [|x iv']; [destruct ii as [|y ii']; [destruct io|]|]; try (eapply noop_goodq; exact Hloop).
  intros e H. discriminate.
Qed.

(* ---------- the theorem ---------- *)
Theorem failed_op_is_noop_qm s o e :
  Q s -> wf s -> no_real_inter s -> atomic o = true ->
  snd (step s (Direct, o)) = Raised e -> fst (step s (Direct, o)) = s.
Proof.
  intros K Hw Hr Ha. assert (Hb : is_bqm s = false) by (unfold is_bqm; rewrite K; reflexivity).
  destruct o; cbn [atomic] in Ha; try discriminate;
    try (apply failed_op_is_noop_direct; reflexivity);
    cbn [step]; rewrite ?Hb; try (intros H; reflexivity).
  - apply noop_m_flip_qm; [exact K|exact Hw|apply no_real_nb_of; assumption].
  - apply noop_m_scale_qm; assumption.
  - apply noop_m_update_qm.
  - apply noop_m_fix_qm.
  - apply noop_q_add_linear_dflt.
Qed.

(* ================= the invariant is preserved by every call ================= *)
Definition qm_inv (s : state) : Prop := Q s /\ wf s /\ no_real_inter s.
Definition PI (f : state -> res) : Prop := forall s, qm_inv s -> qm_inv (fst (f s)).

Lemma PI_ok : PI ok.
Proof. intros s H. exact H. Qed.
Lemma PI_raise b : PI (raise b).
Proof. intros s H. exact H. Qed.
Lemma I_bind r g : qm_inv (fst r) -> PI g -> qm_inv (fst (r >>= g)).
Proof. intros Hr Hg. unfold bind. destruct (snd r); [apply Hg; exact Hr|exact Hr]. Qed.
Lemma PI_bind f g : PI f -> PI g -> PI (fun s => f s >>= g).
Proof. intros Hf Hg s Hs. apply I_bind; [apply Hf; exact Hs|exact Hg]. Qed.
Lemma PI_seqm {A : Type} (f : A -> state -> res) l : (forall x, PI (f x)) -> PI (seqm f l).
Proof.
  intros Hf. induction l as [|x l IH]; [apply PI_ok|].
  intros s Hs. cbn [seqm]. apply I_bind; [apply Hf; exact Hs|exact IH].
Qed.

(* new polynomial on the same variable records *)
Lemma I_with_poly s p :
  qm_inv s -> wf (with_poly s p) ->
  (forall t, In t (p_quad p) ->
     (exists q, In q (p_quad (st_poly s)) /\ fst t = fst q)
     \/ (is_real (vt_of s (fst (fst t))) = false /\ is_real (vt_of s (snd (fst t))) = false)) ->
  qm_inv (with_poly s p).
Proof.
  intros (K & _ & Hr) Hw Ht. split; [exact K|]. split; [exact Hw|].
  intros t It. change (vt_of (with_poly s p)) with (vt_of s). cbn [with_poly st_poly] in It.
  destruct (Ht t It) as [[q [Iq E]]|H]; [|exact H]. rewrite E. apply Hr. exact Iq.
Qed.

Lemma resolve_Q v s : Q s -> resolve v s = (if has_var s v then ok s else raise BValue s).
Proof. intros K. unfold resolve. rewrite K. reflexivity. Qed.

Lemma PI_d_add_linear v (b : state -> Qc) : PI (fun s => d_add_linear v (b s) s).
Proof.
  intros s Hs. pose proof (pres_d_add_linear v (b s) s (proj1 (proj2 Hs))) as Hw.
  destruct Hs as (K & W & R). unfold d_add_linear in *. rewrite (resolve_Q v s K) in *.
  destruct (has_var s v); [|split; [|split]; assumption]. rewrite bind_ok in *. cbn [fst ok] in *.
  apply I_with_poly; [split; [|split]; assumption|exact Hw|]. intros t It. left. exists t. split; [exact It|reflexivity].
Qed.

Lemma PI_d_set_linear v (b : state -> Qc) : PI (fun s => d_set_linear v (b s) s).
Proof.
  intros s Hs. pose proof (pres_d_set_linear v (b s) s (proj1 (proj2 Hs))) as Hw.
  destruct Hs as (K & W & R). unfold d_set_linear in *. rewrite (resolve_Q v s K) in *.
  destruct (has_var s v); [|split; [|split]; assumption]. rewrite bind_ok in *. cbn [fst ok] in *.
  apply I_with_poly; [split; [|split]; assumption|exact Hw|]. intros t It. left. exists t. split; [exact It|reflexivity].
Qed.

Lemma qm_guard_false u v s :
  Q s -> quad_guard u v s = false ->
  has_var s u = true /\ has_var s v = true /\ is_real (vt_of s u) = false /\ is_real (vt_of s v) = false.
Proof.
  intros K G. unfold quad_guard in G. rewrite K in G.
  apply orb_false_iff in G. destruct G as [G Rv]. apply orb_false_iff in G. destruct G as [G Ru].
  apply orb_false_iff in G. destruct G as [G _]. apply negb_false_iff in G. apply andb_true_iff in G.
  destruct G as [Hu Hv]. auto.
Qed.

Lemma PI_d_add_quadratic u v (b : state -> Qc) : PI (fun s => d_add_quadratic u v (b s) s).
Proof.
  intros s Hs. pose proof (pres_d_add_quadratic u v (b s) s (proj1 (proj2 Hs))) as Hw.
  destruct Hs as (K & W & R). unfold d_add_quadratic in *.
  destruct (quad_guard u v s) eqn:G; [split; [|split]; assumption|].
  destruct (qm_guard_false u v s K G) as (Hu & Hv & Ru & Rv).
  rewrite (resolve_Q u s K), Hu, bind_ok, (resolve_Q v s K), Hv, bind_ok in *. cbn [fst ok] in *.
  apply I_with_poly; [split; [|split]; assumption|exact Hw|]. intros t It. cbn [push_quad p_quad] in It.
  destruct It as [<-|It]; [right; cbn [fst snd]; auto|left; exists t; auto].
Qed.

Lemma PI_d_set_quadratic u v (b : state -> Qc) : PI (fun s => d_set_quadratic u v (b s) s).
Proof.
  intros s Hs. pose proof (pres_d_set_quadratic u v (b s) s (proj1 (proj2 Hs))) as Hw.
  destruct Hs as (K & W & R). unfold d_set_quadratic in *.
  destruct (quad_guard u v s) eqn:G; [split; [|split]; assumption|].
  destruct (qm_guard_false u v s K G) as (Hu & Hv & Ru & Rv).
  rewrite (resolve_Q u s K), Hu, bind_ok, (resolve_Q v s K), Hv, bind_ok in *. cbn [fst ok] in *.
  apply I_with_poly; [split; [|split]; assumption|exact Hw|]. intros t It.
  cbn [set_quadratic remove_interaction p_quad] in It.
  destruct It as [<-|It]; [right; cbn [fst snd]; auto|]. apply filter_In in It. left; exists t; split; [apply It|reflexivity].
Qed.

Lemma PI_d_remove_interaction u v : PI (d_remove_interaction u v).
Proof.
  intros s Hs. pose proof (pres_d_remove_interaction u v s (proj1 (proj2 Hs))) as Hw.
  unfold d_remove_interaction in *. destruct (has_var s u && has_var s v && hasq s u v); [|exact Hs].
  cbn [fst ok] in *. apply I_with_poly; [exact Hs|exact Hw|]. intros t It.
  cbn [remove_interaction p_quad] in It. apply filter_In in It. left; exists t; split; [apply It|reflexivity].
Qed.

Lemma PI_d_set_offset (b : state -> Qc) : PI (fun s => d_set_offset (b s) s).
Proof.
  intros s Hs. pose proof (pres_d_set_offset (b s) s (proj1 (proj2 Hs))) as Hw. unfold d_set_offset in *. cbn [fst ok] in *.
  apply I_with_poly; [exact Hs|exact Hw|]. intros t It. left; exists t; split; [exact It|reflexivity].
Qed.

Lemma vt_of_remove_other v s x :
  x <> v -> vt_of (mkSt (st_kind s) (filter (fun i => negb (v_lab i =? v)%nat) (st_vars s)) (remove_variable v (st_poly s))) x = vt_of s x.
Proof.
  intros Hne. unfold vt_of, find_var, bvt; cbn [st_vars st_kind]. rewrite (find_filter_other _ v x Hne). reflexivity.
Qed.

Lemma PI_d_remove_variable v : PI (d_remove_variable v).
Proof.
  intros s Hs. pose proof (pres_d_remove_variable v s (proj1 (proj2 Hs))) as Hw.
  destruct Hs as (K & W & R). unfold d_remove_variable in *. destruct (has_var s v); [|split; [|split]; assumption].
  cbn [fst ok] in *. split; [exact K|]. split; [exact Hw|]. intros t It. cbn [st_poly remove_variable p_quad] in It.
  apply filter_In in It. destruct It as [It Hm]. apply negb_true_iff in Hm. unfold mentions in Hm.
  apply orb_false_iff in Hm. destruct Hm as [M1 M2]. apply Nat.eqb_neq in M1. apply Nat.eqb_neq in M2.
  rewrite !vt_of_remove_other by assumption. apply R. exact It.
Qed.
