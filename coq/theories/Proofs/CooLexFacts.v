(* C11 - every line coo.dumps prints is recognised by the line regex and read back as the same
   (u, v, bias); a regex with `\d?` for the integer digits does not have this property *)
From Coq Require Import ZArith String Ascii List Bool Arith Lia DecimalString DecimalN NArith.
From Dimod Require Import Model.CooNum Model.CooLex Proofs.CooNumFacts.
Import ListNotations.
Local Open Scope string_scope.

Definition nondigit_start (s : string) : Prop :=
  match s with String c _ => is_digit c = false | EmptyString => True end.

Lemma span_digits_stop s : nondigit_start s -> span_digits s = ("", s).
Proof. destruct s as [|c r]; [reflexivity|]. cbn [nondigit_start span_digits]. intros H. rewrite H. reflexivity. Qed.

Lemma span_digits_uint d rest : nondigit_start rest ->
  span_digits (NilEmpty.string_of_uint d ++ rest) = (NilEmpty.string_of_uint d, rest).
Proof.
  intros H. induction d as [|d IH|d IH|d IH|d IH|d IH|d IH|d IH|d IH|d IH|d IH];
    [apply span_digits_stop; exact H | ..];
    cbn [NilEmpty.string_of_uint append span_digits]; rewrite IH; reflexivity.
Qed.

Lemma to_uint_nonnil n : N.to_uint n <> Decimal.Nil.
Proof.
  intros E. pose proof (f_equal N.of_uint E) as F. rewrite DecimalN.Unsigned.of_to in F.
  cbn in F. subst n. vm_compute in E. discriminate.
Qed.

Lemma dec_head n : exists c r, dec n = String c r /\ is_digit c = true.
Proof.
  unfold dec. pose proof (to_uint_nonnil n) as H. destruct (N.to_uint n); [contradiction | ..];
    cbn [NilEmpty.string_of_uint]; eexists; eexists; split; reflexivity.
Qed.

Lemma digit_not_special c : is_digit c = true ->
  c <> " "%char /\ c <> "-"%char /\ c <> "+"%char /\ c <> "."%char.
Proof.
  destruct c as [[] [] [] [] [] [] [] []]; intros H; try discriminate H; repeat split; discriminate.
Qed.

Lemma skip_spaces_digit c r : is_digit c = true -> skip_spaces (String c r) = String c r.
Proof. destruct c as [[] [] [] [] [] [] [] []]; intros H; try discriminate H; reflexivity. Qed.

Lemma take_sign_digit c r : is_digit c = true -> take_sign (String c r) = (false, String c r).
Proof. destruct c as [[] [] [] [] [] [] [] []]; intros H; try discriminate H; reflexivity. Qed.

Lemma undec_dec n : undec (dec n) = Some n.
Proof. unfold undec, dec. rewrite NilEmpty.usu, DecimalN.Unsigned.of_to. reflexivity. Qed.

Lemma digit_cases d : (0 <= d <= 9)%Z ->
  d = 0%Z \/ d = 1%Z \/ d = 2%Z \/ d = 3%Z \/ d = 4%Z \/ d = 5%Z \/ d = 6%Z \/ d = 7%Z \/ d = 8%Z \/ d = 9%Z.
Proof. lia. Qed.

Lemma digit_char_ok d : (0 <= d <= 9)%Z -> is_digit (digit_char d) = true /\ char_digit (digit_char d) = d.
Proof.
  intros H. destruct (digit_cases d H) as [E|[E|[E|[E|[E|[E|[E|[E|[E|E]]]]]]]]]; subst d; split; reflexivity.
Qed.

Lemma span_digits_chars ds : Forall (fun d => (0 <= d <= 9)%Z) ds ->
  span_digits (string_of_chars (map digit_char ds)) = (string_of_chars (map digit_char ds), "").
Proof.
  induction 1 as [|d ds Hd H IH]; [reflexivity|].
  cbn [map string_of_chars span_digits]. rewrite (proj1 (digit_char_ok d Hd)), IH. reflexivity.
Qed.

Lemma chars_roundtrip ds : Forall (fun d => (0 <= d <= 9)%Z) ds ->
  map char_digit (chars_of_string (string_of_chars (map digit_char ds))) = ds.
Proof.
  induction 1 as [|d ds Hd H IH]; [reflexivity|].
  cbn [map string_of_chars chars_of_string]. rewrite (proj2 (digit_char_ok d Hd)), IH. reflexivity.
Qed.

Lemma length_string_of_chars l : String.length (string_of_chars l) = List.length l.
Proof. induction l as [|c l IH]; [reflexivity|]. cbn [string_of_chars String.length List.length]. rewrite IH. reflexivity. Qed.

Lemma frac_digits_ok fp : Forall (fun d => (0 <= d <= 9)%Z) (frac_digits fp) /\ List.length (frac_digits fp) = 6%nat.
Proof.
  split; [|reflexivity]. unfold frac_digits.
  repeat (apply Forall_cons; [match goal with |- (_ <= ?x mod 10 <= _)%Z =>
    pose proof (Z.mod_pos_bound x 10 ltac:(lia)); lia end|]). apply Forall_nil.
Qed.

Lemma dec_nonempty n : dec n <> "".
Proof. destruct (dec_head n) as [c [r [E _]]]. rewrite E. discriminate. Qed.

Lemma skip_spaces_dec n rest : skip_spaces (dec n ++ rest) = dec n ++ rest.
Proof. destruct (dec_head n) as [c [r [E D]]]. rewrite E. cbn [append]. apply skip_spaces_digit. exact D. Qed.

Lemma span_digits_dec n rest : nondigit_start rest -> span_digits (dec n ++ rest) = (dec n, rest).
Proof. intros H. unfold dec. apply span_digits_uint. exact H. Qed.

Lemma take_sign_dec n rest : take_sign (dec n ++ rest) = (false, dec n ++ rest).
Proof. destruct (dec_head n) as [c [r [E D]]]. rewrite E. cbn [append]. apply take_sign_digit. exact D. Qed.

(* every printed line matches, with these groups *)
Theorem recognise_print_line u v m :
  recognise None (print_line u v m) =
  Some (mkMatch (dec u) (dec v) (m <? 0)%Z (dec (Z.to_N (Z.abs m / MICRO)))
                (string_of_chars (map digit_char (frac_digits (Z.abs m mod MICRO))))).
Proof.
  unfold print_line. set (F := string_of_chars (map digit_char (frac_digits (Z.abs m mod MICRO)))).
  set (ip := Z.to_N (Z.abs m / MICRO)).
  destruct (frac_digits_ok (Z.abs m mod MICRO)) as [Hd Hl].
  assert (SF : span_digits F = (F, "")) by (apply span_digits_chars; exact Hd).
  assert (HF : F <> "").
  { unfold F. destruct (frac_digits (Z.abs m mod MICRO)) as [|d ds]; [discriminate Hl|]. discriminate. }
  clearbody F ip.
  unfold recognise.
  rewrite skip_spaces_dec, span_digits_dec by reflexivity. cbv beta iota.
  destruct (dec u) as [|cu ru] eqn:Eu; [exfalso; exact (dec_nonempty u Eu)|].
  cbn [append spaces1].
  rewrite skip_spaces_dec, span_digits_dec by reflexivity. cbv beta iota.
  destruct (dec v) as [|cv rv] eqn:Ev; [exfalso; exact (dec_nonempty v Ev)|].
  cbn [spaces1].
  assert (S : take_sign (skip_spaces ((if (m <? 0)%Z then "-" else "") ++ dec ip ++ String "." F))
              = ((m <? 0)%Z, dec ip ++ String "." F)).
  { destruct (m <? 0)%Z.
    - reflexivity.
    - cbn [append]. rewrite skip_spaces_dec. apply take_sign_dec. }
  rewrite S. cbv beta iota. rewrite span_digits_dec by reflexivity. cbv beta iota.
  cbn [within append take_fraction]. rewrite SF.
  destruct F as [|cf rf]; [contradiction|]. reflexivity.
Qed.

(* coo.loads reads back exactly what coo.dumps printed on that line *)
Theorem read_print_line u v m : read_line None (print_line u v m) = Some (u, v, m).
Proof.
  unfold read_line. rewrite recognise_print_line. cbn [g_u g_v g_neg g_int g_frac].
  rewrite !undec_dec.
  destruct (dec_head (Z.to_N (Z.abs m / MICRO))) as [ci [ri [Ei _]]].
  rewrite Ei at 1. rewrite <- Ei. rewrite undec_dec.
  destruct (frac_digits_ok (Z.abs m mod MICRO)) as [Hd Hl].
  rewrite length_string_of_chars, map_length, Hl. cbn [Nat.eqb].
  rewrite (chars_roundtrip _ Hd).
  assert (Hm : (0 < MICRO)%Z) by (unfold MICRO; lia).
  rewrite (frac_roundtrip _ (Z.mod_pos_bound (Z.abs m) MICRO Hm)).
  rewrite Z2N.id by (apply Z.div_pos; lia).
  rewrite (Z.mul_comm _ MICRO), <- (Z.div_mod (Z.abs m) MICRO) by lia.
  destruct (m <? 0)%Z eqn:E; f_equal; f_equal.
  - apply Z.ltb_lt in E. lia.
  - apply Z.ltb_ge in E. lia.
Qed.

(* a line regex that allows at most one integer digit (`\d?` instead of `\d*`) silently drops
   printed lines: the bias 10.5 is not recognised, 9.5 is *)
Theorem one_digit_regex_refuted :
  read_line (Some 1%nat) (print_line 3%N 7%N 10500000) = None /\
  read_line None (print_line 3%N 7%N 10500000) = Some (3%N, 7%N, 10500000%Z) /\
  read_line (Some 1%nat) (print_line 3%N 7%N (-9500000)) = Some (3%N, 7%N, (-9500000)%Z) /\
  print_line 3%N 7%N 10500000 = "3 7 10.500000".
Proof. vm_compute. repeat split; reflexivity. Qed.
