(* C17 - quadratic_assignment: for which inputs the generated objective is the documented cost
     sum_{i <> k} flow[i][k] * dist[loc(i)][loc(k)] .
   The generator stores (flow[i][k] + flow[k][i]) * dist[j][l] for the later-visited orientation of every pair
   (Model/Qap.v).  Hence:
     - ANY flow matrix (symmetric or not, directed flows included) with a SYMMETRIC distance matrix: exact
       (qap_cost_symmetric has no hypothesis on the flow matrix);
     - an asymmetric distance matrix: wrong already for symmetric flows (example below);
     - exactly: for a given distance matrix (n >= 2) the objective is the documented cost for ALL flow matrices
       and placements  iff  the distance matrix is symmetric. *)
From Coq Require Import List ZArith QArith Qcanon Bool Arith Lia.
From Dimod Require Import Base.Util Model.Poly Model.Knap Model.Qap Proofs.PolyFacts Proofs.KnapFacts Proofs.QapFacts.
Import ListNotations.
Open Scope Qc_scope.

(* symmetric flows, asymmetric distances: 0 instead of 1 *)
Definition F_sym : matrix := [[0; 1]; [1; 0]].
Theorem qap_symmetric_flow_asymmetric_distance_refuted :
  qap_cost_as_is 2 F_sym D_ex (fun i => i) <> qap_cost 2 F_sym D_ex (fun i => i).
Proof.
  intros H. apply (f_equal (fun q : Qc => Qnum (this q))) in H. vm_compute in H. discriminate H.
Qed.

(* one unit of flow from facility 0 to facility 1, nothing else (an asymmetric flow matrix of any size) *)
Definition F_unit : matrix := [[0; 1]].

Lemma mget_F_unit i k : mget F_unit i k = if ((i =? 0) && (k =? 1))%nat then 1 else 0.
Proof.
  unfold mget, F_unit. destruct i as [|i].
  - destruct k as [|[|k]]; cbn; try reflexivity. destruct k; reflexivity.
  - cbn [Nat.eqb andb]. destruct i; cbn [nth]; destruct k; reflexivity.
Qed.

Theorem qap_exact_iff_symmetric n D : (2 <= n)%nat ->
  ((forall F pi, (forall i, (i < n)%nat -> (pi i < n)%nat) -> qap_cost_as_is n F D pi = qap_cost n F D pi)
   <-> symmetric n D).
Proof.
  intros Hn. split.
  - intros H j l Hj Hl.
    set (pi := fun i : nat => if (i =? 0)%nat then l else j).
    assert (Hpi : forall i, (i < n)%nat -> (pi i < n)%nat) by (intros i _; unfold pi; destruct (i =? 0)%nat; assumption).
    specialize (H F_unit pi Hpi). unfold qap_cost_as_is, qap_cost in H.
    (* left: only i = 1, k = 0 *)
    rewrite (range_sum_ext n _ (fun i => if (1 =? i)%nat then mget D (pi 1%nat) (pi 0%nat) else 0)) in H.
    2:{ intros i Hi. destruct (Nat.eqb_spec 1 i) as [<-|E].
        - change (range_sum 1 (fun k => (mget F_unit 1 k + mget F_unit k 1) * mget D (pi 1%nat) (pi k))
                  = mget D (pi 1%nat) (pi 0%nat)).
          rewrite range_sum_S. cbn [range_sum seq map qsum]. rewrite !mget_F_unit. cbn [Nat.eqb andb]. ring.
        - rewrite (range_sum_ext i _ (fun _ => 0)); [apply range_sum_0|].
          intros k Hk. rewrite !mget_F_unit.
          destruct i as [|[|i]]; [lia|contradiction E; reflexivity|].
          cbn [Nat.eqb andb]. rewrite andb_false_r. ring. }
    rewrite (range_sum_pick n 1 (fun _ => mget D (pi 1%nat) (pi 0%nat))) in H by lia.
    (* right: only i = 0, k = 1 *)
    rewrite (range_sum_ext n _ (fun i => if (0 =? i)%nat then mget D (pi 0%nat) (pi 1%nat) else 0)) in H.
    2:{ intros i Hi. destruct (Nat.eqb_spec 0 i) as [<-|E].
        - rewrite (range_sum_ext n _ (fun k => if (1 =? k)%nat then mget D (pi 0%nat) (pi k) else 0)).
          + rewrite (range_sum_pick n 1 (fun k => mget D (pi 0%nat) (pi k))) by lia. reflexivity.
          + intros k Hk. rewrite mget_F_unit. cbn [Nat.eqb andb].
            destruct k as [|[|k]]; cbn [Nat.eqb]; ring.
        - rewrite (range_sum_ext n _ (fun _ => 0)); [apply range_sum_0|].
          intros k Hk. rewrite mget_F_unit. destruct i; [contradiction E; reflexivity|].
          destruct (Nat.eqb_spec (S i) k); [reflexivity|]. cbn [Nat.eqb andb]. ring. }
    rewrite (range_sum_pick n 0 (fun _ => mget D (pi 0%nat) (pi 1%nat))) in H by lia.
    unfold pi in H. cbn [Nat.eqb] in H. exact H.
  - intros Hs F pi Hpi. apply qap_cost_symmetric; assumption.
Qed.
