(* Exact truncation thresholds for whole QM files and expression members:
   a cut that still decodes lost nothing but (part of) the padding of the last section. *)
From Coq Require Import List NArith ZArith Arith Bool Lia String.
From Dimod Require Import Gen.Gen_Codec Model.Codec Proofs.CodecBase Proofs.CodecFrame Proofs.CodecBqm
  Proofs.CodecBqmTop Proofs.CodecLabel Proofs.CodecJson Proofs.CodecQm Proofs.CodecExpr.
Import ListNotations.
Open Scope nat_scope.
Notation length := List.length (only parsing).

(* round trip + prefix safety where only the last s bytes may be missing *)
Definition goodq {A} (d : parser A) (e : bytes) (a : A) (s : nat) : Prop :=
  good d e a (length e - s) /\ (0 < length e -> s < length e).

Lemma goodq_bind : forall {A B} (d1 : parser A) (f : A -> parser B) e1 e2 a b s1 s2,
  goodq d1 e1 a s1 -> goodq (f a) e2 b s2 ->
  goodq (bind d1 f) (e1 ++ e2) b (match e2 with [] => s1 | _ => s2 end).
Proof.
  intros A B d1 f e1 e2 a b s1 s2 [G1 P1] [G2 P2].
  destruct e2 as [|c e2].
  - rewrite app_nil_r. split; [|exact P1].
    pose proof (good_bind_gen d1 f e1 [] a b _ _ G1 G2 (fun H => match Nat.lt_irrefl 0 H with end)) as G.
    rewrite app_nil_r in G. exact G.
  - assert (Hl : 0 < length (c :: e2)) by (cbn; lia). specialize (P2 Hl).
    pose proof (good_bind_gen d1 f e1 (c :: e2) a b _ _ G1 G2 (fun _ => ltac:(lia))) as G. unfold thr in G.
    split.
    + replace (length (e1 ++ c :: e2) - s2) with (length e1 + (length (c :: e2) - s2)) by (rewrite app_length; lia).
      exact G.
    + intros _. rewrite app_length. lia.
Qed.

Lemma goodq_bind_ne : forall {A B} (d1 : parser A) (f : A -> parser B) e1 e2 a b s1 s2,
  goodq d1 e1 a s1 -> goodq (f a) e2 b s2 -> 0 < length e2 -> goodq (bind d1 f) (e1 ++ e2) b s2.
Proof.
  intros A B d1 f e1 e2 a b s1 s2 G1 G2 H. pose proof (goodq_bind d1 f e1 e2 a b s1 s2 G1 G2) as G.
  destruct e2; [cbn in H; lia|exact G].
Qed.

Lemma goodq_ret : forall {A} (a : A), goodq (ret a) [] a 0.
Proof. intros A a. split; [apply good_nil; reflexivity|cbn; lia]. Qed.

Lemma goodq_bind_ret : forall {A B} (d1 : parser A) (g : A -> B) e1 a s,
  goodq d1 e1 a s -> goodq (bind d1 (fun x => ret (g x))) e1 (g a) s.
Proof. intros A B d1 g e1 a s [G P]. split; [now apply good_bind_ret|exact P]. Qed.

Lemma goodq_tsection : forall {A} magic nlen (pd : bytes -> option A) p a,
  0 < length magic ->
  (N.of_nat (length p + ALIGN) < 256 ^ N.of_nat nlen)%N ->
  (forall j, pd (p ++ spaces j) = Some a) ->
  (forall k, k < length p -> pd (firstn k p) = None) ->
  goodq (dec_tsection magic nlen pd) (section magic nlen p) a (pad_len (length magic + nlen + length p)).
Proof.
  intros A magic nlen pd p a Hm Hf H1 H2. split.
  - rewrite (section_length magic nlen p Hf).
    replace (length magic + nlen + length p + pad_len (length magic + nlen + length p) - pad_len (length magic + nlen + length p))
      with (length magic + (nlen + length p)) by lia.
    split; [now apply tsection_rt|now apply tsection_psafe].
  - intros _. rewrite (section_length magic nlen p Hf). lia.
Qed.

Lemma goodq_header : forall {H} prefix (jd : bytes -> option H) json h v,
  (N.of_nat (length json + 1 + ALIGN) < 256 ^ N.of_nat HEADER_LEN_BYTES)%N ->
  (forall ws, forallb is_ws ws = true -> jd (json ++ ws) = Some h) ->
  (forall k, k < length json -> jd (firstn k json) = None) ->
  goodq (dec_header prefix jd) (header prefix v json) (v, h)
        (1 + pad_len (length prefix + HEADER_VERSION_BYTES + HEADER_LEN_BYTES + length json + 1)).
Proof.
  intros H prefix jd json h v Hf H1 H2. split.
  - rewrite (header_length prefix json v Hf).
    match goal with |- good _ _ _ ?t => replace t with (length prefix + (2 + (HEADER_LEN_BYTES + length json))) end.
    + split; [now apply header_rt|now apply header_psafe].
    + unfold HEADER_VERSION_BYTES. lia.
  - intros _. rewrite (header_length prefix json v Hf). unfold HEADER_VERSION_BYTES, HEADER_LEN_BYTES. lia.
Qed.

(* slack of a repetition: that of its last non-empty element *)
Fixpoint rep_slack {A} (enc : A -> bytes) (sl : A -> nat) (xs : list A) : nat :=
  match xs with
  | [] => 0
  | x :: r => match List.concat (map enc r) with [] => sl x | _ => rep_slack enc sl r end
  end.

Lemma goodq_rep : forall {A} (p : parser A) (enc : A -> bytes) (sl : A -> nat) (xs : list A),
  Forall (fun x => goodq p (enc x) x (sl x)) xs ->
  goodq (rep_parser (length xs) p) (List.concat (map enc xs)) xs (rep_slack enc sl xs).
Proof.
  intros A p enc sl xs H. induction H as [|x xs Hx Hxs IH]; cbn [length rep_parser map List.concat rep_slack].
  - apply goodq_ret.
  - apply (goodq_bind p _ (enc x) _ x); [exact Hx|]. now apply goodq_bind_ret.
Qed.

Lemma goodq_only_padding : forall {A} (d : parser A) e a s k x, goodq d e a s -> k < length e ->
  run d (firstn k e) = Ok x -> x = a /\ length e - s <= k.
Proof.
  intros A d e a s k x [[_ P] _] Hk E. unfold run in E.
  destruct (P k Hk) as [E'|[L E']]; rewrite E' in E; [discriminate|]. split; [congruence|exact L].
Qed.

(* ------------------------------------------------------------ QM files *)

Definition neig_sec (nb : list (N * bytes)) : bytes := section MAGIC_NEIG NLEN_NEIG (neig_payload nb).
Definition neig_pad (nb : list (N * bytes)) : nat := pad_len (length MAGIC_NEIG + NLEN_NEIG + length (neig_payload nb)).

(* the bytes that may be missing from a QM file that still loads: the padding of its last section
   (VARS if labelled, else the last NEIG, else - no variables - LINB) *)
Definition qm_tail_pad (f : qmfile) : nat :=
  let labsec := match qf_labels f with Some l => section MAGIC_VARS NLEN_VARS (pr_labels l) | None => [] end in
  let s_lab := match qf_labels f with
               | Some l => pad_len (length MAGIC_VARS + NLEN_VARS + length (pr_labels l)) | None => 0 end in
  match List.concat (map neig_sec (qf_neig f)) ++ labsec with
  | [] => pad_len (length MAGIC_LINB + NLEN_LINB + length (List.concat (qf_lin f)))
  | _ => match labsec with [] => rep_slack neig_sec neig_pad (qf_neig f) | _ => s_lab end
  end.

Lemma section_pos : forall magic nlen p, 0 < length magic -> 0 < length (section magic nlen p).
Proof. intros magic nlen p H. unfold section. rewrite app_length. lia. Qed.

Theorem qm_goodq : forall f, QmWF f -> goodq qm_decode (qm_encode f) f (qm_tail_pad f).
Proof.
  intros f W. destruct W as [Ho Hl Hvl Hv Hnl Hn HL Fj Fv Fl Fn FL].
  destruct (qm_hdr_ok (qm_hdr f)) as [J1 J2].
  destruct magic_pos as [M1 [M2 [M3 [M4 [M5 _]]]]].
  unfold qm_encode, qm_decode, qm_decode_with.
  eapply (goodq_bind_ne _ _ _ _ (QM_WRITE_VERSION, qm_hdr f)); [now apply goodq_header| |].
  2:{ rewrite app_length. pose proof (section_pos MAGIC_VTYP NLEN_VTYP (List.concat (map enc_vinfo (qf_vinfo f))) M1). lia. }
  cbv beta. cbn [fst snd]. change (vlt QM_REJECT_ABOVE QM_WRITE_VERSION) with false. cbv iota.
  unfold qm_hdr at 1 2 3 4 5 6 7. cbn [q_dtype q_n q_m q_vars]. rewrite Nat2N.id.
  set (w := dwidth (qf_dtype f)) in *.
  (* VTYP *)
  eapply (goodq_bind_ne _ _ _ _ (map enc_vinfo (qf_vinfo f))).
  { apply goodq_tsection; [exact M1|exact Fv| |].
    - intros j. rewrite <- Hvl. rewrite <- (map_length enc_vinfo (qf_vinfo f)).
      apply pd_chunks_ok. now apply Forall_enc_vinfo.
    - intros k Hk. rewrite <- Hvl. rewrite <- (map_length enc_vinfo (qf_vinfo f)).
      apply pd_chunks_strict; [now apply Forall_enc_vinfo|exact Hk]. }
  2:{ rewrite app_length. pose proof (section_pos MAGIC_OFFS NLEN_OFFS (qf_off f) M2). lia. }
  (* OFFS *)
  eapply (goodq_bind_ne _ _ _ _ (qf_off f)).
  { apply goodq_tsection; [exact M2| | |].
    - unfold fits32 in *. rewrite Ho. destruct (qf_dtype f); vm_compute; reflexivity.
    - intros j. now apply pd_take_ok.
    - intros k Hk. now apply pd_take_strict. }
  2:{ rewrite app_length. pose proof (section_pos MAGIC_LINB NLEN_LINB (List.concat (qf_lin f)) M3). lia. }
  (* LINB: what follows may be empty *)
  unfold qm_tail_pad. fold neig_sec.
  apply (goodq_bind _ _ _ _ (qf_lin f)).
  { apply goodq_tsection; [exact M3|exact Fl| |].
    - intros j. now apply pd_chunks_ok.
    - intros k Hk. now apply pd_chunks_strict. }
  (* NEIG x n *)
  apply (goodq_bind _ _ _ _ (qf_neig f)).
  { rewrite <- Hnl. apply (goodq_rep (dec_tsection MAGIC_NEIG NLEN_NEIG (pd_neig w)) neig_sec neig_pad).
    clear Hnl. induction Hn as [|nb nbs Hnb Hnbs IH]; constructor.
    - inversion Fn; subst. apply goodq_tsection; [exact M4|assumption| |].
      + intros j. now apply pd_neig_ok.
      + intros k Hk. now apply pd_neig_strict.
    - inversion Fn; subst. now apply IH. }
  (* VARS *)
  cbv beta. unfold qm_hdr. cbn [q_dtype q_n q_m q_vars]. fold w. rewrite (map_dec_enc_vinfo w (qf_vinfo f) Hv).
  destruct f as [dt m vi off lin neig labs]. cbn [qf_dtype qf_m qf_vinfo qf_off qf_lin qf_neig qf_labels] in *.
  destruct labs as [l|].
  - apply (goodq_bind_ret (bind (dec_tsection MAGIC_VARS NLEN_VARS labels_dec) (fun l0 => ret (Some l0)))
             (fun labs => mkQmFile dt m vi off lin neig labs) _ (Some l)).
    apply (goodq_bind_ret (dec_tsection MAGIC_VARS NLEN_VARS labels_dec) (fun x => Some x)).
    apply goodq_tsection; [exact M5|apply FL; reflexivity| |].
    + intros j. apply label_roundtrip. now apply HL.
    + intros k Hk. apply label_prefix_rejected; [now apply HL|exact Hk].
  - apply (goodq_bind_ret (ret None) (fun labs => mkQmFile dt m vi off lin neig labs) [] None).
    apply goodq_ret.
Qed.

Theorem qm_ok_only_if_padding_lost : forall f k x, QmWF f -> k < length (qm_encode f) ->
  run qm_decode (firstn k (qm_encode f)) = Ok x -> x = f /\ length (qm_encode f) - qm_tail_pad f <= k.
Proof. intros f k x W. apply goodq_only_padding. now apply qm_goodq. Qed.

(* ------------------------------------------------------------ expression members *)

Definition expr_tail_pad (f : exprfile) : nat :=
  pad_len (length MAGIC_QUAD + NLEN_QUAD + length (List.concat (map enc_q (ef_quad f)))).

Theorem expr_goodq : forall f, ExprWF f -> goodq expr_decode (expr_encode f) f (expr_tail_pad f).
Proof.
  intros f W. destruct W as [Wn Ho Hl Hll Hi Hq Fj Fi Fl Fq].
  destruct magic_pos as [_ [M2 [M3 [_ [_ [M6 M7]]]]]].
  unfold expr_encode, expr_decode, expr_tail_pad.
  eapply (goodq_bind_ne _ _ _ _ (CQM_WRITE_VERSION, expr_hdr f)).
  { apply goodq_header; [exact Fj| |].
    - intros ws Hws. unfold json_doc. rewrite (p_expr_json_rt f Wn ws). now rewrite Hws.
    - intros k Hk. unfold json_doc. now rewrite (p_expr_json_strict f Wn k Hk). }
  2:{ rewrite app_length. pose proof (section_pos MAGIC_INDX NLEN_INDX (List.concat (map (le_enc IDX_BYTES) (ef_idx f))) M6). lia. }
  cbv beta. cbn [fst snd]. unfold expr_hdr. cbv iota. cbv zeta. rewrite !Nat2N.id.
  set (w := dwidth (ef_dtype f)) in *.
  eapply (goodq_bind_ne _ _ _ _ (map (le_enc IDX_BYTES) (ef_idx f))).
  { apply goodq_tsection; [exact M6|exact Fi| |].
    - intros j. rewrite <- (map_length (le_enc IDX_BYTES) (ef_idx f)). apply pd_chunks_ok. apply Forall_le_enc.
    - intros k Hk. rewrite <- (map_length (le_enc IDX_BYTES) (ef_idx f)). apply pd_chunks_strict; [apply Forall_le_enc|exact Hk]. }
  2:{ rewrite app_length. pose proof (section_pos MAGIC_OFFS NLEN_OFFS (ef_off f) M2). lia. }
  eapply (goodq_bind_ne _ _ _ _ (ef_off f)).
  { apply goodq_tsection; [exact M2| | |].
    - unfold fits32 in *. rewrite Ho. destruct (ef_dtype f); vm_compute; reflexivity.
    - intros j. now apply pd_take_ok.
    - intros k Hk. now apply pd_take_strict. }
  2:{ rewrite app_length. pose proof (section_pos MAGIC_LINB NLEN_LINB (List.concat (ef_lin f)) M3). lia. }
  eapply (goodq_bind_ne _ _ _ _ (ef_lin f)).
  { rewrite <- Hll. apply goodq_tsection; [exact M3|exact Fl| |].
    - intros j. now apply pd_chunks_ok.
    - intros k Hk. now apply pd_chunks_strict. }
  2:{ apply section_pos. exact M7. }
  cbv beta. rewrite (map_le_dec_enc (ef_idx f) Hi).
  pose proof (goodq_bind_ret (dec_tsection MAGIC_QUAD NLEN_QUAD (pd_chunks (length (ef_quad f)) (IDX_BYTES + IDX_BYTES + w)))
                (fun q => mkExprFile (ef_dtype f) (ef_type f) (ef_idx f) (ef_off f) (ef_lin f) (map dec_q q))
                (section MAGIC_QUAD NLEN_QUAD (List.concat (map enc_q (ef_quad f)))) (map enc_q (ef_quad f))) as G.
  cbv beta in G. rewrite (map_dec_enc_q w (ef_quad f) Hq), expr_eta in G. apply G.
  apply goodq_tsection; [exact M7|exact Fq| |].
  - intros j. rewrite <- (map_length enc_q (ef_quad f)). apply pd_chunks_ok. now apply Forall_enc_q.
  - intros k Hk. rewrite <- (map_length enc_q (ef_quad f)). apply pd_chunks_strict; [now apply Forall_enc_q|exact Hk].
Qed.

Theorem expr_ok_only_if_padding_lost : forall f k x, ExprWF f -> k < length (expr_encode f) ->
  run expr_decode (firstn k (expr_encode f)) = Ok x -> x = f /\ length (expr_encode f) - expr_tail_pad f <= k.
Proof. intros f k x W. apply goodq_only_padding. now apply expr_goodq. Qed.
