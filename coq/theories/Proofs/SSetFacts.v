From Coq Require Import List ZArith QArith Qcanon Bool Arith Lia Permutation Sorting.Sorted.
From Dimod Require Import Base.Util Model.Poly Model.Samples Model.SSet Proofs.SamplesFacts.
Import ListNotations.
Open Scope Qc_scope.

(* ---------- deferred hooks ---------- *)
Lemma resolve_app K p q base :
  resolve K (p ++ q) base = match resolve K p base with Some s => resolve K q s | None => None end.
Proof.
  revert base. induction p as [|o r IH]; intros base; cbn [app resolve]; [reflexivity|].
  destruct (apply K o base); [apply IH|reflexivity].
Qed.

(* capturing one more operation on an unresolved set, then resolving, is the operation applied to the
   resolved set (and raises exactly when either the earlier hooks or the operation raise) *)
Theorem deferred_eq_resolved K o p base :
  resolve K (defer o p) base =
  match resolve K p base with
  | Some s => match apply K o s with Ok s' => Some s' | Fail _ => None end
  | None => None
  end.
Proof.
  unfold defer. rewrite resolve_app. destruct (resolve K p base); [|reflexivity].
  cbn [resolve]. destruct (apply K o s); reflexivity.
Qed.

(* ---------- boolean equalities reflect equality ---------- *)
Lemma Qc_eqb_eq a b : Qc_eqb a b = true <-> a = b.
Proof.
  unfold Qc_eqb. rewrite Qeq_bool_iff. split; [apply Qc_is_canon|intros ->; reflexivity].
Qed.

Lemma list_eqb_eq {A} (eqb : A -> A -> bool) (H : forall a b, eqb a b = true <-> a = b) l1 l2 :
  list_eqb eqb l1 l2 = true <-> l1 = l2.
Proof.
  revert l2. induction l1 as [|x xs IH]; intros [|y ys]; cbn [list_eqb]; try (split; [discriminate|discriminate]);
    [split; reflexivity|].
  rewrite andb_true_iff, H, IH. split; [intros [-> ->]; reflexivity|intros E; inversion E; auto].
Qed.

Lemma qlist_eqb_eq a b : qlist_eqb a b = true <-> a = b.
Proof. apply list_eqb_eq, Qc_eqb_eq. Qed.

Lemma qlist_eqb_refl a : qlist_eqb a a = true.
Proof. apply qlist_eqb_eq; reflexivity. Qed.

Lemma qlist_eqb_sym a b : qlist_eqb a b = qlist_eqb b a.
Proof.
  destruct (qlist_eqb a b) eqn:E1, (qlist_eqb b a) eqn:E2; try reflexivity.
  - apply qlist_eqb_eq in E1. subst. rewrite qlist_eqb_refl in E2. discriminate.
  - apply qlist_eqb_eq in E2. subst. rewrite qlist_eqb_refl in E1. discriminate.
Qed.

(* ---------- aggregate ---------- *)
Definition weight (l : list row) (v : list Qc) : Z :=
  fold_right Z.add 0%Z (map oc (filter (fun r => qlist_eqb (vals r) v) l)).
Definition memv (v : list Qc) (seen : list (list Qc)) : bool := existsb (qlist_eqb v) seen.
Definition strip (r : row) : row := set_oc r 0%Z.

(* the rows at which a sample value occurs for the first time, in order *)
Fixpoint firsts (l : list row) (seen : list (list Qc)) : list row :=
  match l with
  | [] => []
  | r :: rest => if memv (vals r) seen then firsts rest seen else r :: firsts rest (vals r :: seen)
  end.

Definition agg (acc : list row) (l : list row) : list row := fold_left (fun acc r => agg_insert r acc) l acc.

Lemma weight_cons r l v :
  weight (r :: l) v = ((if qlist_eqb (vals r) v then oc r else 0) + weight l v)%Z.
Proof. unfold weight. cbn [filter]. destruct (qlist_eqb (vals r) v); cbn [map fold_right]; lia. Qed.

Lemma weight_agg_insert r acc v :
  weight (agg_insert r acc) v = (weight acc v + (if qlist_eqb (vals r) v then oc r else 0))%Z.
Proof.
  induction acc as [|a rest IH]; cbn [agg_insert].
  - rewrite weight_cons. unfold weight. cbn. lia.
  - destruct (qlist_eqb (vals a) (vals r)) eqn:E.
    + apply qlist_eqb_eq in E. rewrite !weight_cons. cbn [vals oc set_oc]. rewrite E.
      destruct (qlist_eqb (vals r) v); lia.
    + rewrite !weight_cons, IH. lia.
Qed.

Lemma weight_agg acc l v : weight (agg acc l) v = (weight acc v + weight l v)%Z.
Proof.
  unfold agg. revert acc. induction l as [|r rest IH]; intros acc; cbn [fold_left].
  - unfold weight at 3. cbn. lia.
  - rewrite IH, weight_agg_insert, weight_cons. lia.
Qed.

(* the multiset of sample rows weighted by num_occurrences is preserved *)
Theorem aggregate_multiset l v : weight (aggregate_rows l) v = weight l v.
Proof. unfold aggregate_rows. change (fold_left _ l []) with (agg [] l). rewrite weight_agg. reflexivity. Qed.

Lemma vals_agg_insert r acc :
  map vals (agg_insert r acc) = if memv (vals r) (map vals acc) then map vals acc else map vals acc ++ [vals r].
Proof.
  induction acc as [|a rest IH]; cbn [agg_insert map memv existsb app]; [reflexivity|].
  rewrite (qlist_eqb_sym (vals r) (vals a)).
  destruct (qlist_eqb (vals a) (vals r)) eqn:E; cbn [orb map vals set_oc]; [reflexivity|].
  rewrite IH. fold (memv (vals r) (map vals rest)). destruct (memv (vals r) (map vals rest)); reflexivity.
Qed.

Lemma strip_agg_insert r acc :
  map strip (agg_insert r acc) = if memv (vals r) (map vals acc) then map strip acc else map strip acc ++ [strip r].
Proof.
  induction acc as [|a rest IH]; cbn [agg_insert map memv existsb app]; [reflexivity|].
  rewrite (qlist_eqb_sym (vals r) (vals a)).
  destruct (qlist_eqb (vals a) (vals r)) eqn:E; cbn [orb map]; [reflexivity|].
  rewrite IH. fold (memv (vals r) (map vals rest)). destruct (memv (vals r) (map vals rest)); reflexivity.
Qed.

Lemma memv_In v seen : memv v seen = true <-> In v seen.
Proof.
  unfold memv. rewrite existsb_exists. split.
  - intros [x [Hx E]]. apply qlist_eqb_eq in E. subst. assumption.
  - intros H. exists v. split; [assumption|apply qlist_eqb_refl].
Qed.

Lemma memv_ext v s1 s2 : (forall x, In x s1 <-> In x s2) -> memv v s1 = memv v s2.
Proof.
  intros H. destruct (memv v s1) eqn:E1, (memv v s2) eqn:E2; try reflexivity.
  - apply memv_In, H, memv_In in E1. congruence.
  - apply memv_In, H, memv_In in E2. congruence.
Qed.

Lemma firsts_ext l : forall s1 s2, (forall x, In x s1 <-> In x s2) -> firsts l s1 = firsts l s2.
Proof.
  induction l as [|r rest IH]; intros s1 s2 H; cbn [firsts]; [reflexivity|].
  rewrite (memv_ext _ s1 s2 H). destruct (memv (vals r) s2); [apply IH; assumption|].
  f_equal. apply IH. intros x. cbn [In]. rewrite H. reflexivity.
Qed.

Lemma strip_agg l : forall acc, map strip (agg acc l) = map strip acc ++ map strip (firsts l (map vals acc)).
Proof.
  unfold agg. induction l as [|r rest IH]; intros acc; cbn [fold_left firsts].
  - rewrite app_nil_r. reflexivity.
  - rewrite IH, strip_agg_insert, vals_agg_insert.
    destruct (memv (vals r) (map vals acc)) eqn:E; [reflexivity|].
    cbn [map]. rewrite <- app_assoc. cbn [app]. do 3 f_equal.
    apply firsts_ext. intros x. rewrite in_app_iff. cbn [In]. tauto.
Qed.

(* output order = order of first occurrence; every field except num_occurrences is the first occurrence's *)
Theorem aggregate_first_seen l : map strip (aggregate_rows l) = map strip (firsts l []).
Proof. unfold aggregate_rows. change (fold_left _ l []) with (agg [] l). rewrite strip_agg. reflexivity. Qed.

Lemma firsts_vals_nodup l : forall seen,
  NoDup (map vals (firsts l seen)) /\ (forall r, In r (firsts l seen) -> ~ In (vals r) seen).
Proof.
  induction l as [|r rest IH]; intros seen; cbn [firsts]; [split; [constructor|intros ? []]|].
  destruct (memv (vals r) seen) eqn:E; [apply IH|].
  destruct (IH (vals r :: seen)) as [ND NI]. split.
  - cbn [map]. constructor; [|assumption].
    intros Hin. apply in_map_iff in Hin. destruct Hin as [x [Ex Hx]]. apply (NI x Hx). left. auto.
  - intros x [<-|Hx]; [intros Hc; apply memv_In in Hc; congruence|].
    intros Hc. apply (NI x Hx). right. assumption.
Qed.

Lemma map_vals_strip l : map vals (map strip l) = map vals l.
Proof. rewrite map_map. apply map_ext. reflexivity. Qed.

(* no two output rows are equal *)
Theorem aggregate_nodup l : NoDup (map vals (aggregate_rows l)).
Proof.
  rewrite <- map_vals_strip, aggregate_first_seen, map_vals_strip. apply firsts_vals_nodup.
Qed.

(* ---------- python slices ---------- *)
Lemma zrange_pos fuel : forall cur stop step i,
  (0 < step)%Z -> (0 <= cur)%Z -> In i (zrange fuel cur stop step) ->
  (Z.to_nat cur <= i)%nat /\ (Z.of_nat i < stop)%Z.
Proof.
  induction fuel as [|f IH]; intros cur stop step i Hs Hc; cbn [zrange]; [intros []|].
  assert ((0 <? step)%Z = true) as -> by (apply Z.ltb_lt; assumption).
  destruct (cur <? stop)%Z eqn:E; [|intros []]. apply Z.ltb_lt in E.
  intros [<-|Hin]; [split; lia|].
  apply IH in Hin; lia.
Qed.

Lemma zrange_neg fuel : forall cur stop step i,
  (step < 0)%Z -> (-1 <= stop)%Z -> In i (zrange fuel cur stop step) ->
  (Z.of_nat i <= cur)%Z /\ (stop < Z.of_nat i)%Z.
Proof.
  induction fuel as [|f IH]; intros cur stop step i Hs Hc; cbn [zrange]; [intros []|].
  assert ((0 <? step)%Z = false) as -> by (apply Z.ltb_ge; lia).
  destruct (stop <? cur)%Z eqn:E; [|intros []]. apply Z.ltb_lt in E.
  intros [<-|Hin]; [split; lia|].
  apply IH in Hin; lia.
Qed.

Lemma zrange_nodup fuel : forall cur stop step,
  ((0 < step)%Z /\ (0 <= cur)%Z) \/ ((step < 0)%Z /\ (-1 <= stop)%Z) -> NoDup (zrange fuel cur stop step).
Proof.
  induction fuel as [|f IH]; intros cur stop step H; cbn [zrange]; [constructor|].
  destruct (if (0 <? step)%Z then (cur <? stop)%Z else (stop <? cur)%Z) eqn:E; [|constructor].
  constructor.
  - intros Hin. destruct H as [[Hs Hc]|[Hs Hc]].
    + apply zrange_pos in Hin; lia.
    + assert ((0 <? step)%Z = false) as E0 by (apply Z.ltb_ge; lia). rewrite E0 in E. apply Z.ltb_lt in E.
      apply zrange_neg in Hin; lia.
  - apply IH. destruct H as [[Hs Hc]|[Hs Hc]]; [left; lia|right; lia].
Qed.

Lemma clampi_pos n x : (0 <= n)%Z -> (0 <= clampi n false x <= n)%Z.
Proof.
  intros Hn. unfold clampi.
  destruct (x <? 0)%Z eqn:E1; [destruct (x + n <? 0)%Z eqn:E2|destruct (n <=? x)%Z eqn:E3];
    try apply Z.ltb_lt in E1; try apply Z.ltb_ge in E1; try apply Z.ltb_lt in E2; try apply Z.ltb_ge in E2;
    try apply Z.leb_le in E3; try apply Z.leb_gt in E3; lia.
Qed.

Lemma clampi_neg n x : (0 <= n)%Z -> (-1 <= clampi n true x <= n - 1)%Z.
Proof.
  intros Hn. unfold clampi.
  destruct (x <? 0)%Z eqn:E1; [destruct (x + n <? 0)%Z eqn:E2|destruct (n <=? x)%Z eqn:E3];
    try apply Z.ltb_lt in E1; try apply Z.ltb_ge in E1; try apply Z.ltb_lt in E2; try apply Z.ltb_ge in E2;
    try apply Z.leb_le in E3; try apply Z.leb_gt in E3; lia.
Qed.

(* every selected index is a row index of the record and no index is selected twice *)
Theorem slice_indices_ok n start stop step :
  step <> Some 0%Z ->
  Forall (fun i => (i < n)%nat) (slice_indices n start stop step) /\ NoDup (slice_indices n start stop step).
Proof.
  intros Hstep. unfold slice_indices.
  set (st := match step with None => 1%Z | Some s => s end).
  assert (st <> 0%Z) as Hst by (subst st; destruct step; [congruence|lia]).
  assert (0 <= Z.of_nat n)%Z as Hn by lia.
  destruct (st <? 0)%Z eqn:Eneg; [apply Z.ltb_lt in Eneg|apply Z.ltb_ge in Eneg].
  - set (a := match start with None => (Z.of_nat n - 1)%Z | Some x => clampi (Z.of_nat n) true x end).
    set (b := match stop with None => (-1)%Z | Some x => clampi (Z.of_nat n) true x end).
    assert (a <= Z.of_nat n - 1)%Z as Ha by (subst a; destruct start; [apply clampi_neg; assumption|lia]).
    assert (-1 <= b)%Z as Hb by (subst b; destruct stop; [apply clampi_neg; assumption|lia]).
    split; [|apply zrange_nodup; right; lia].
    apply Forall_forall. intros i Hi. apply zrange_neg in Hi; lia.
  - set (a := match start with None => 0%Z | Some x => clampi (Z.of_nat n) false x end).
    set (b := match stop with None => Z.of_nat n | Some x => clampi (Z.of_nat n) false x end).
    assert (0 <= a)%Z as Ha by (subst a; destruct start; [apply clampi_pos; assumption|lia]).
    assert (b <= Z.of_nat n)%Z as Hb by (subst b; destruct stop; [apply clampi_pos; assumption|lia]).
    split; [|apply zrange_nodup; left; lia].
    apply Forall_forall. intros i Hi. apply zrange_pos in Hi; lia.
Qed.

Lemma zrange_seq k : forall fuel a, (k <= fuel)%nat ->
  zrange fuel (Z.of_nat a) (Z.of_nat (a + k)) 1 = seq a k.
Proof.
  induction k as [|k IH]; intros fuel a Hf.
  - destruct fuel; cbn [zrange seq]; [reflexivity|].
    cbn [Z.ltb]. replace (Z.of_nat a <? Z.of_nat (a + 0))%Z with false; [reflexivity|].
    symmetry. apply Z.ltb_ge. lia.
  - destruct fuel as [|f]; [lia|]. cbn [zrange seq].
    replace (0 <? 1)%Z with true by reflexivity.
    replace (Z.of_nat a <? Z.of_nat (a + S k))%Z with true by (symmetry; apply Z.ltb_lt; lia).
    rewrite Nat2Z.id. f_equal.
    replace (Z.of_nat a + 1)%Z with (Z.of_nat (S a)) by lia.
    replace (a + S k)%nat with (S a + k)%nat by lia. apply IH. lia.
Qed.

Lemma select_seq (l : list row) : forall a k, (a + k <= length l)%nat -> select l (seq a k) = firstn k (skipn a l).
Proof.
  induction l as [|x xs IH]; intros a k H.
  - cbn [length] in H. assert (a = 0 /\ k = 0)%nat as [-> ->] by lia. reflexivity.
  - destruct a as [|a].
    + destruct k as [|k]; [reflexivity|]. cbn [seq select map nth skipn firstn]. f_equal.
      rewrite <- seq_shift. unfold select in *. rewrite map_map. cbn [nth].
      specialize (IH 0%nat k). cbn [skipn] in IH. apply IH. cbn [length] in H. lia.
    + cbn [skipn]. rewrite <- (IH a k) by (cbn [length] in H; lia).
      rewrite <- seq_shift. unfold select. rewrite map_map. reflexivity.
Qed.

(* with sorted_by=None, slice(a, b) is the list slice l[a:b] *)
Theorem slice_unsorted_is_list_slice (l : list row) (a b : nat) :
  (a <= b <= length l)%nat ->
  select l (slice_indices (length l) (Some (Z.of_nat a)) (Some (Z.of_nat b)) None) = firstn (b - a) (skipn a l).
Proof.
  intros H. unfold slice_indices. cbn [Z.ltb].
  replace (1 <? 0)%Z with false by reflexivity.
  assert (clampi (Z.of_nat (length l)) false (Z.of_nat a) = Z.of_nat a) as ->.
  { unfold clampi. replace (Z.of_nat a <? 0)%Z with false by (symmetry; apply Z.ltb_ge; lia).
    destruct (Z.of_nat (length l) <=? Z.of_nat a)%Z eqn:E; [apply Z.leb_le in E; lia|reflexivity]. }
  assert (clampi (Z.of_nat (length l)) false (Z.of_nat b) = Z.of_nat b) as ->.
  { unfold clampi. replace (Z.of_nat b <? 0)%Z with false by (symmetry; apply Z.ltb_ge; lia).
    destruct (Z.of_nat (length l) <=? Z.of_nat b)%Z eqn:E; [apply Z.leb_le in E; lia|reflexivity]. }
  replace b with (a + (b - a))%nat at 1 by lia.
  rewrite zrange_seq by lia. apply select_seq. lia.
Qed.

(* truncate(n) keeps the first n rows *)
Corollary truncate_unsorted_is_firstn (l : list row) (n : nat) :
  (n <= length l)%nat -> select l (slice_indices (length l) None (Some (Z.of_nat n)) None) = firstn n l.
Proof.
  intros H. pose proof (slice_unsorted_is_list_slice l 0 n) as P.
  unfold slice_indices in *. cbn [Z.ltb] in *. replace (1 <? 0)%Z with false in * by reflexivity.
  assert (clampi (Z.of_nat (length l)) false (Z.of_nat 0) = 0%Z) as E0.
  { unfold clampi. cbn [Z.of_nat Z.ltb Z.compare]. destruct (Z.of_nat (length l) <=? 0)%Z eqn:E; [apply Z.leb_le in E; lia|reflexivity]. }
  rewrite E0 in P. rewrite P by lia. rewrite Nat.sub_0_r. reflexivity.
Qed.

(* rows picked at distinct in-range positions form a sub-multiset of the list *)
Lemma select_all (l : list row) : select l (seq 0 (length l)) = l.
Proof. rewrite select_seq by lia. cbn [skipn]. apply firstn_all. Qed.

Lemma nodup_app_local {A} (l1 l2 : list A) :
  NoDup l1 -> NoDup l2 -> (forall x, In x l1 -> ~ In x l2) -> NoDup (l1 ++ l2).
Proof.
  induction l1 as [|a r IH]; intros N1 N2 H; cbn [app]; [assumption|].
  inversion N1 as [|? ? Ha Hr]; subst. constructor.
  - rewrite in_app_iff. intros [Hin|Hin]; [contradiction|]. apply (H a); [left; reflexivity|assumption].
  - apply IH; [assumption|assumption|]. intros x Hx. apply H. right. assumption.
Qed.

Theorem select_submultiset (l : list row) idx :
  NoDup idx -> Forall (fun i => (i < length l)%nat) idx -> exists rest, Permutation (select l idx ++ rest) l.
Proof.
  intros ND Hb. rewrite Forall_forall in Hb.
  set (others := filter (fun i => negb (existsb (Nat.eqb i) idx)) (seq 0 (length l))).
  exists (select l others).
  apply Permutation_trans with (select l (seq 0 (length l))); [|rewrite select_all; apply Permutation_refl].
  unfold select. rewrite <- map_app. apply Permutation_map.
  assert (forall i, In i others <-> In i (seq 0 (length l)) /\ ~ In i idx) as Hoth.
  { intros i. unfold others. rewrite filter_In, negb_true_iff. split; intros [H1 H2]; (split; [assumption|]).
    - intros Hin. assert (existsb (Nat.eqb i) idx = true) as Ht; [|congruence].
      apply existsb_exists. exists i. split; [assumption|apply Nat.eqb_refl].
    - apply not_true_iff_false. intros Ht. apply existsb_exists in Ht. destruct Ht as [x [Hx E]].
      apply Nat.eqb_eq in E. subst. contradiction. }
  apply NoDup_Permutation.
  - apply nodup_app_local; [assumption| |].
    + unfold others. apply NoDup_filter, seq_NoDup.
    + intros i Hi Ho. apply Hoth in Ho. tauto.
  - apply seq_NoDup.
  - intros i. rewrite in_app_iff, Hoth, !in_seq. split.
    + intros [Hi|[Hi _]]; [specialize (Hb _ Hi); lia|lia].
    + intros Hi. destruct (in_dec Nat.eq_dec i idx) as [Hin|Hnin]; [left; assumption|].
      right. split; [lia|assumption].
Qed.

(* ---------- sorted slices (argsort is not stable: relational statement) ---------- *)
Lemma qle_iff a b : qle a b = true <-> (a <= b)%Qc.
Proof. unfold qle, Qcle. apply Qle_bool_iff. Qed.

Lemma qle_total a b : qle a b = false -> (b <= a)%Qc.
Proof.
  intros H. destruct (Qclt_le_dec a b) as [Hlt|Hle]; [|assumption].
  apply Qclt_le_weak in Hlt. apply qle_iff in Hlt. congruence.
Qed.

Lemma qinsert_perm x l : Permutation (qinsert x l) (x :: l).
Proof.
  induction l as [|y r IH]; cbn [qinsert]; [apply Permutation_refl|].
  destruct (qle x y); [apply Permutation_refl|].
  apply Permutation_trans with (y :: x :: r); [apply perm_skip; assumption|apply perm_swap].
Qed.

Lemma qsort_perm l : Permutation (qsort l) l.
Proof.
  induction l as [|x r IH]; cbn [qsort]; [apply Permutation_refl|].
  apply Permutation_trans with (x :: qsort r); [apply qinsert_perm|apply perm_skip; assumption].
Qed.

Lemma qinsert_sorted x l : StronglySorted Qcle l -> StronglySorted Qcle (qinsert x l).
Proof.
  induction l as [|y r IH]; intros HS; cbn [qinsert]; [repeat constructor|].
  inversion HS as [|? ? HSr HF]; subst.
  destruct (qle x y) eqn:E.
  - apply qle_iff in E. constructor; [assumption|]. constructor; [assumption|].
    rewrite Forall_forall in *. intros z Hz. apply Qcle_trans with y; auto.
  - apply qle_total in E. constructor; [apply IH; assumption|].
    rewrite Forall_forall in *. intros z Hz.
    apply (Permutation_in _ (qinsert_perm x r)) in Hz. destruct Hz as [<-|Hz]; auto.
Qed.

Lemma qsort_sorted l : StronglySorted Qcle (qsort l).
Proof. induction l as [|x r IH]; cbn [qsort]; [constructor|apply qinsert_sorted; assumption]. Qed.

Lemma sorted_perm_unique (l1 : list Qc) : forall l2,
  StronglySorted Qcle l1 -> StronglySorted Qcle l2 -> Permutation l1 l2 -> l1 = l2.
Proof.
  induction l1 as [|a r1 IH]; intros l2 S1 S2 P.
  - apply Permutation_nil in P. subst. reflexivity.
  - destruct l2 as [|b r2]; [apply Permutation_sym, Permutation_nil in P; discriminate|].
    inversion S1 as [|? ? S1r F1]; subst. inversion S2 as [|? ? S2r F2]; subst.
    rewrite Forall_forall in F1, F2.
    assert (a = b) as ->.
    { assert (In a (b :: r2)) as Ha by (apply (Permutation_in _ P); left; reflexivity).
      assert (In b (a :: r1)) as Hb by (apply (Permutation_in _ (Permutation_sym P)); left; reflexivity).
      destruct Ha as [->|Ha]; [reflexivity|]. destruct Hb as [->|Hb]; [reflexivity|].
      apply Qcle_antisym; auto. }
    f_equal. apply IH; [assumption|assumption|]. apply Permutation_cons_inv in P. assumption.
Qed.

(* for EVERY order `p` of the record that is sorted by the key (whatever argsort does with ties):
   the keys of the result are the selector applied to THE sorted key list, and the result is a
   sub-multiset of the record *)
Theorem slice_sorted_spec (key : row -> Qc) rows p idx :
  Permutation p rows -> StronglySorted Qcle (map key p) ->
  NoDup idx -> Forall (fun i => (i < length rows)%nat) idx ->
  map key (select p idx) = map (fun i => nth i (qsort (map key rows)) 0) idx
  /\ exists rest, Permutation (select p idx ++ rest) rows.
Proof.
  intros P S ND Hb.
  assert (length p = length rows) as HL by (apply Permutation_length; assumption).
  split.
  - assert (map key p = qsort (map key rows)) as <-.
    { apply sorted_perm_unique; [assumption|apply qsort_sorted|].
      apply Permutation_trans with (map key rows); [apply Permutation_map; assumption|apply Permutation_sym, qsort_perm]. }
    unfold select. rewrite map_map. apply map_ext_in. intros i Hi.
    rewrite Forall_forall in Hb. specialize (Hb _ Hi).
    rewrite (nth_indep (map key p) 0 (key rowz)) by (rewrite map_length; lia).
    rewrite map_nth. reflexivity.
  - destruct (select_submultiset p idx ND) as [rest Hr]; [rewrite HL; assumption|].
    exists rest. apply Permutation_trans with p; assumption.
Qed.

(* ---------- lowest / filter ---------- *)
Lemma qmin_list_le d l : (qmin_list d l <= d)%Qc /\ (forall x, In x l -> (qmin_list d l <= x)%Qc).
Proof.
  revert d. induction l as [|y r IH]; intros d; cbn [qmin_list].
  - split; [apply Qcle_refl|intros ? []].
  - destruct (IH y) as [H1 H2]. destruct (qle d (qmin_list y r)) eqn:E.
    + apply qle_iff in E. split; [apply Qcle_refl|]. intros x [Hx|Hx]; [subst x; apply Qcle_trans with (qmin_list y r); assumption|].
      apply Qcle_trans with (qmin_list y r); auto.
    + apply qle_total in E. split; [assumption|]. intros x [Hx|Hx]; [subst x; assumption|auto].
Qed.

Lemma qmin_list_in d l : qmin_list d l = d \/ In (qmin_list d l) l.
Proof.
  revert d. induction l as [|y r IH]; intros d; cbn [qmin_list]; [left; reflexivity|].
  destruct (qle d (qmin_list y r)); [left; reflexivity|].
  right. destruct (IH y) as [->|H]; [left; reflexivity|right; assumption].
Qed.

(* the reference energy of `lowest` is the least energy of the record, and it is attained *)
Theorem min_energy_least l r : In r l -> (min_energy l <= en r)%Qc.
Proof.
  destruct l as [|a rest]; [intros []|]. cbn [min_energy].
  destruct (qmin_list_le (en a) (map en rest)) as [H1 H2].
  intros [<-|Hin]; [assumption|]. apply H2. apply in_map. assumption.
Qed.

Theorem min_energy_attained l : l <> [] -> exists r, In r l /\ en r = min_energy l.
Proof.
  destruct l as [|a rest]; [congruence|]. intros _. cbn [min_energy].
  destruct (qmin_list_in (en a) (map en rest)) as [E|Hin].
  - exists a. split; [left; reflexivity|symmetry; assumption].
  - apply in_map_iff in Hin. destruct Hin as [r [Er Hr]]. exists r. split; [right; assumption|assumption].
Qed.

(* lowest returns exactly the rows within tolerance of the least energy, in record order, everything else untouched *)
Theorem lowest_exact rtol atol s r :
  In r (rws (lowest rtol atol s)) <-> In r (rws s) /\ isclose rtol atol (min_energy (rws s)) (en r) = true.
Proof. unfold lowest, with_rows. cbn [rws]. apply filter_In. Qed.

Theorem lowest_frame rtol atol s :
  labels (lowest rtol atol s) = labels s /\ vt (lowest rtol atol s) = vt s /\ info (lowest rtol atol s) = info s
  /\ fields (lowest rtol atol s) = fields s
  /\ rws (lowest rtol atol s) = filter (fun r => isclose rtol atol (min_energy (rws s)) (en r)) (rws s).
Proof. repeat split. Qed.

Theorem filter_exact p s r :
  In r (rws (filter_ss p s)) <-> In r (rws s) /\ eval_pred (labels s) p r = true.
Proof. unfold filter_ss, with_rows. cbn [rws]. apply filter_In. Qed.

Theorem filter_frame p s :
  labels (filter_ss p s) = labels s /\ vt (filter_ss p s) = vt s /\ info (filter_ss p s) = info s
  /\ fields (filter_ss p s) = fields s /\ rws (filter_ss p s) = filter (eval_pred (labels s) p) (rws s).
Proof. repeat split. Qed.

(* `first`: any accepted observation is a row of the record of least energy *)
Theorem first_ok_spec rows seen :
  first_ok rows seen = true -> (exists r, In r rows /\ row_eqb seen r = true) /\ forall r, In r rows -> (en seen <= en r)%Qc.
Proof.
  unfold first_ok. rewrite andb_true_iff, existsb_exists, forallb_forall. intros [H1 H2]. split; [assumption|].
  intros r Hr. apply qle_iff, H2, Hr.
Qed.

(* ---------- column operations: frame ---------- *)
Lemma recolumn_frame new old r :
  en (recolumn new old r) = en r /\ oc (recolumn new old r) = oc r /\ tag (recolumn new old r) = tag r
  /\ extra (recolumn new old r) = extra r
  /\ forall v, In v new -> row_value new (vals (recolumn new old r)) v = row_value old (vals r) v.
Proof.
  repeat split. intros v Hv. unfold recolumn, set_vals. cbn [vals]. apply reindex_row_value. assumption.
Qed.

Lemma insert_by_in {A} (k : A -> nat) x l y : In y (insert_by k x l) <-> y = x \/ In y l.
Proof.
  induction l as [|z r IH]; cbn [insert_by In]; [intuition|].
  destruct (k x <? k z)%nat; cbn [In]; [intuition|]. rewrite IH. intuition.
Qed.

Lemma sort_by_in {A} (k : A -> nat) l y : In y (sort_by k l) <-> In y l.
Proof.
  induction l as [|x r IH]; cbn [sort_by In]; [reflexivity|]. rewrite insert_by_in, IH. intuition.
Qed.

(* label sorting only permutes the labels *)
Theorem sorted_labels_same_set K sortl ls v : In v (sorted_labels K sortl ls) <-> In v ls.
Proof. unfold sorted_labels. destruct (sortl && sortable K ls); [apply sort_by_in|reflexivity]. Qed.

(* from_samples(sort_labels): every label keeps its column of values, all other fields untouched *)
Theorem sort_labels_permutes_columns K sortl s :
  let s' := sort_columns K sortl s in
  vt s' = vt s /\ info s' = info s /\ fields s' = fields s
  /\ (forall v, In v (labels s') <-> In v (labels s))
  /\ rws s' = map (recolumn (labels s') (labels s)) (rws s).
Proof. cbn zeta. unfold sort_columns. cbn [vt info fields labels rws]. repeat split; apply sorted_labels_same_set. Qed.

Theorem keep_frame K vs sortl s s' :
  keep_ss K vs sortl s = Ok s' ->
  vt s' = vt s /\ info s' = info s /\ fields s' = fields s
  /\ (forall v, In v (labels s') <-> In v vs)
  /\ (forall v, In v vs -> In v (labels s))
  /\ rws s' = map (recolumn (labels s') (labels s)) (rws s).
Proof.
  unfold keep_ss. destruct (forallb (fun v => memb v (labels s)) vs && nodupb vs) eqn:E; [|discriminate].
  intros H. inversion H; subst; clear H. cbn [vt info fields labels rws].
  repeat split; try apply sorted_labels_same_set.
  apply andb_prop in E. destruct E as [E _]. rewrite forallb_forall in E.
  intros v Hv. specialize (E v Hv). unfold memb in E. apply existsb_exists in E.
  destruct E as [x [Hx Ex]]. apply Nat.eqb_eq in Ex. subst. assumption.
Qed.

Theorem keep_fail_unchanged K vs sortl s s' : keep_ss K vs sortl s = Fail s' -> s' = s.
Proof. unfold keep_ss. destruct (_ && _); [discriminate|]. intros H; inversion H; reflexivity. Qed.

(* drop keeps exactly the other labels, in their original order *)
Theorem drop_frame K vs s s' :
  drop_ss K vs s = Ok s' ->
  labels s' = filter (fun v => negb (memb v vs)) (labels s)
  /\ vt s' = vt s /\ info s' = info s /\ fields s' = fields s
  /\ rws s' = map (recolumn (labels s') (labels s)) (rws s).
Proof.
  unfold drop_ss, keep_ss. destruct (_ && _); [|discriminate].
  intros H. inversion H; subst; clear H. cbn [vt info fields labels rws].
  unfold sorted_labels. cbn [andb]. repeat split.
Qed.

Theorem relabel_frame m s s' :
  relabel_ss m s = Ok s' ->
  labels s' = map (subst_label m) (labels s) /\ rws s' = rws s /\ vt s' = vt s /\ info s' = info s /\ fields s' = fields s.
Proof.
  unfold relabel_ss. destruct (relabel_valid m (labels s)); [|discriminate].
  intros H; inversion H; subst. repeat split.
Qed.

Theorem relabel_fail_unchanged m s s' : relabel_ss m s = Fail s' -> s' = s.
Proof. unfold relabel_ss. destruct (relabel_valid m (labels s)); [discriminate|]. intros H; inversion H; reflexivity. Qed.

Definition untouched (r : row) := (oc r, tag r, extra r).

(* change_vartype: same labels/info/fields, occurrences/tags/vectors untouched, energies shifted by the
   offset, values mapped pointwise by the spin<->binary bijection (or unchanged) *)
Theorem change_vartype_frame v off s s' :
  change_vartype_ss v off s = Ok s' ->
  labels s' = labels s /\ info s' = info s /\ fields s' = fields s /\ vt s' = v
  /\ map untouched (rws s') = map untouched (rws s)
  /\ map en (rws s') = map (fun r => en r + off) (rws s)
  /\ exists f, map vals (rws s') = map (fun r => map f (vals r)) (rws s)
               /\ (vt s = v -> forall x, f x = x)
               /\ (vt s = BINARY -> v = SPIN -> forall x, f x = two * x - 1)
               /\ (vt s = SPIN -> v = BINARY -> forall x, f x = (x + 1) * half).
Proof.
  unfold change_vartype_ss.
  set (s1 := if Qc_eqb off 0 then s else with_rows s (map (fun r => set_en r (en r + off)) (rws s))).
  assert (labels s1 = labels s /\ info s1 = info s /\ fields s1 = fields s /\ vt s1 = vt s
          /\ map untouched (rws s1) = map untouched (rws s) /\ map en (rws s1) = map (fun r => en r + off) (rws s)
          /\ map vals (rws s1) = map vals (rws s)) as (L1 & I1 & F1 & V1 & U1 & E1 & W1).
  { subst s1. destruct (Qc_eqb off 0) eqn:E.
    - apply Qc_eqb_eq in E. subst off. repeat split. apply map_ext. intros r. ring.
    - unfold with_rows. cbn [labels info fields vt rws]. rewrite !map_map. repeat split. }
  destruct (vartype_eqb v (vt s)) eqn:Ev.
  - intros H; inversion H; subst s'; clear H.
    assert (v = vt s) as -> by (destruct v, (vt s); cbn in Ev; congruence).
    repeat split; try assumption. exists (fun x => x). split; [|split; [reflexivity|split; intros A B; rewrite A in B; discriminate]].
    rewrite W1. apply map_ext. intros r. symmetry. apply map_id.
  - destruct v, (vt s) eqn:Evs; try discriminate; intros H; inversion H; subst s'; clear H;
      unfold map_vals; cbn [labels info fields vt rws]; rewrite !map_map; cbn [untouched oc tag extra set_vals en vals].
    + split; [exact L1|]. split; [exact I1|]. split; [exact F1|]. split; [reflexivity|].
      split; [transitivity (map untouched (rws s1)); [reflexivity|exact U1]|].
      split; [transitivity (map en (rws s1)); [reflexivity|exact E1]|].
      exists (fun x => (x + 1) * half). split; [|split; [discriminate|split; [discriminate|reflexivity]]].
      rewrite <- (map_map vals (fun l => map (fun x => (x + 1) * half) l)), W1, map_map. reflexivity.
    + split; [exact L1|]. split; [exact I1|]. split; [exact F1|]. split; [reflexivity|].
      split; [transitivity (map untouched (rws s1)); [reflexivity|exact U1]|].
      split; [transitivity (map en (rws s1)); [reflexivity|exact E1]|].
      exists (fun x => two * x - 1). split; [|split; [discriminate|split; [reflexivity|discriminate]]].
      rewrite <- (map_map vals (fun l => map (fun x => two * x - 1) l)), W1, map_map. reflexivity.
Qed.

(* concatenate appends the (re-columned) rows of the others to the receiver's rows *)
Theorem concatenate_is_append others s s' :
  concat_ss others s = Ok s' ->
  labels s' = labels s /\ vt s' = vt s /\ fields s' = fields s
  /\ exists more, concat_rows s others = Some more /\ rws s' = rws s ++ more.
Proof.
  unfold concat_ss. destruct (concat_rows s others) as [more|]; [|discriminate].
  intros H; inversion H; subst. repeat split. exists more. split; reflexivity.
Qed.

Theorem concat_rows_same_vartype s o rest more :
  vt o = vt s -> concat_rows s (o :: rest) = Some more ->
  exists more', concat_rows s rest = Some more' /\ more = map (recolumn (labels s) (labels o)) (rws o) ++ more'
                /\ same_set (labels o) (labels s) = true.
Proof.
  intros Hv. cbn [concat_rows]. rewrite Hv.
  assert (vartype_eqb (vt s) (vt s) = true) as -> by (destruct (vt s); reflexivity).
  destruct (concat_rows s rest) as [more'|]; [|discriminate].
  destruct (same_set (labels o) (labels s) && list_eqb Nat.eqb (fields o) (fields s)) eqn:E; [|discriminate].
  intros H; inversion H; subst. exists more'. repeat split. apply andb_prop in E. tauto.
Qed.

(* relabelling validity keeps the labels distinct *)
Lemma memb_In v l : memb v l = true <-> In v l.
Proof.
  unfold memb. rewrite existsb_exists. split; [intros [x [Hx E]]; apply Nat.eqb_eq in E; subst; assumption|].
  intros H. exists v. split; [assumption|apply Nat.eqb_refl].
Qed.
