(* The hand-written step of the copy path (Model/FixCopy.v) IS the step driven by the selector table generated
   from constrained_quadratic_model.h: by case analysis and unfolding only, so that swapping the ends in any
   branch of fix_variables_expr changes Gen/Gen_FixCopy.v and breaks this file. *)
From Coq Require Import List ZArith QArith Qcanon Bool Arith.
From Dimod Require Import Base.Util Model.Poly Model.Expr Model.FixCopy Model.FixCopyGen.
Import ListNotations.
Open Scope Qc_scope.

Theorem fve_quad_step_uses_source_table vt' vars o2n asg dst t :
  fve_quad_step vt' vars o2n asg dst t = fve_quad_step_g vt' vars o2n asg dst t.
Proof.
  unfold fve_quad_step, fve_quad_step_g.
  destruct (o2n_get o2n (nth (fst (fst t)) vars 0%nat)) as [ku|];
    destruct (o2n_get o2n (nth (snd (fst t)) vars 0%nat)) as [kv|]; reflexivity.
Qed.

Lemma fold_left_ext_fun {A B} (f g : A -> B -> A) l a : (forall x y, f x y = g x y) -> fold_left f l a = fold_left g l a.
Proof. intros H. revert a. induction l as [|y l IH]; intros a; cbn [fold_left]; [reflexivity|]. rewrite H. apply IH. Qed.

Theorem fix_variables_expr_uses_source_table vt' src o2n asg :
  fix_variables_expr vt' src o2n asg = fix_variables_expr_g vt' src o2n asg.
Proof.
  unfold fix_variables_expr, fix_variables_expr_g. apply fold_left_ext_fun.
  intros d t. apply fve_quad_step_uses_source_table.
Qed.

Print Assumptions fve_quad_step_uses_source_table.
Print Assumptions fix_variables_expr_uses_source_table.
