(* C06: the promotion primitive of the interpreter (EFromBqm, evaluated as Sym.to_qm) is what the translated
   QuadraticModel.from_bqm / cyqm from_cybqm builds, for every BQM whose variable table is that of a BQM
   (each variable of the model's vartype with that vartype's own domain). *)
From Coq Require Import List ZArith QArith Qcanon Bool Arith Lia.
From Dimod Require Import Base.Util Model.Poly Model.Sym Model.OpsLang Gen.Gen_Ops Gen.Gen_AddVar Model.Ops.
Import ListNotations.
Open Scope Qc_scope.

Definition bqm_tab_ok (v : vartype) (t : tab) : Prop :=
  Forall (fun e => snd e = mkVI v (default_lb v) (default_ub v)) t.

Lemma fb_all : fb_has FbOffset = true /\ fb_has FbVartypeOfBqm = true /\ fb_has FbAddVariable = true /\
               fb_has FbLinear = true /\ fb_has FbLabels = true /\ fb_has FbQuadratic = true.
Proof. repeat split; reflexivity. Qed.

Lemma map_tab_id v t : bqm_tab_ok v t -> map (fun e : label * vinfo => (fst e, mkVI v (default_lb v) (default_ub v))) t = t.
Proof.
  induction 1 as [|[l i] t H _ IH]; [reflexivity|]. cbn [map fst]. cbn [snd] in H. rewrite IH, <- H. reflexivity.
Qed.

Theorem from_bqm_gen_correct m v :
  m_cls m = CBqm v -> bqm_tab_ok v (m_tab m) -> from_bqm_gen m = to_qm m.
Proof.
  intros C T. unfold from_bqm_gen, to_qm. rewrite C.
  destruct fb_all as [-> [-> [-> [-> [-> ->]]]]]. cbn [andb].
  rewrite (map_tab_id v _ T). destruct (m_poly m); reflexivity.
Qed.

(* nothing is invented: the promoted model has the BQM's energy on every sample, the BQM's variables, each with
   the BQM's vartype *)
Theorem from_bqm_gen_energy m v s :
  m_cls m = CBqm v -> bqm_tab_ok v (m_tab m) ->
  energy (m_poly (from_bqm_gen m)) s = energy (m_poly m) s /\ m_tab (from_bqm_gen m) = m_tab m /\
  m_cls (from_bqm_gen m) = CQm.
Proof. intros C T. rewrite (from_bqm_gen_correct m v C T). repeat split. Qed.

(* a single Binary / Spin variable with its own domain is such a BQM *)
Lemma var_mdl_tab_ok_bin l : bqm_tab_ok BINARY (m_tab (var_mdl KBin l 0 1)).
Proof. repeat constructor. Qed.
Lemma var_mdl_tab_ok_spin l : bqm_tab_ok SPIN (m_tab (var_mdl KSpin l (- (1)) 1)).
Proof. repeat constructor. Qed.
