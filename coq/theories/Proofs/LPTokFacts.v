(* C12 - the reference parser reads back what the printer wrote *)
From Coq Require Import List ZArith NArith QArith Qcanon Bool Arith Lia.
From Dimod Require Import Base.Util Model.Poly Model.LP Model.LPTok Proofs.PolyFacts Proofs.LPFacts.
Import ListNotations.
Open Scope Qc_scope.

Lemma signed_abs b : signed (Qc_neg b) (Qc_abs b) = b.
Proof. unfold signed, Qc_abs. destruct (Qc_neg b); ring. Qed.

(* ------------------------------------------------------------------ *)
(* term lists *)

Definition stops_l (ts : list token) : Prop :=
  match ts with TSign _ :: TNum _ :: TName _ :: _ => False | _ => True end.

Definition stops_q (ts : list token) : Prop :=
  match ts with TSign _ :: TNum _ :: TName _ :: TStar :: TName _ :: _ => False | _ => True end.

Lemma parse_lterms_stop ts : stops_l ts -> parse_lterms ts = ([], ts).
Proof.
  destruct ts as [|t1 [|t2 [|t3 r]]]; try reflexivity;
    destruct t1; try reflexivity; destruct t2; try reflexivity; destruct t3; try reflexivity.
  intros H. contradiction.
Qed.

Lemma parse_qterms_stop ts : stops_q ts -> parse_qterms ts = ([], ts).
Proof.
  destruct ts as [|t1 [|t2 [|t3 [|t4 [|t5 r]]]]]; try reflexivity;
    destruct t1; try reflexivity; destruct t2; try reflexivity; destruct t3; try reflexivity;
    destruct t4; try reflexivity; destruct t5; try reflexivity.
  intros H. contradiction.
Qed.

Lemma parse_lterms_print l : forall rest, stops_l rest ->
  parse_lterms (flat_map print_lterm l ++ rest) = (l, rest).
Proof.
  induction l as [|t l IH]; intros rest H.
  - cbn [flat_map app]. apply parse_lterms_stop. exact H.
  - cbn [flat_map print_lterm app]. cbn [parse_lterms]. rewrite (IH rest H).
    rewrite signed_abs. destruct t. reflexivity.
Qed.

Lemma parse_qterms_print q : forall rest, stops_q rest ->
  parse_qterms (flat_map print_qterm q ++ rest) = (q, rest).
Proof.
  induction q as [|t q IH]; intros rest H.
  - cbn [flat_map app]. apply parse_qterms_stop. exact H.
  - cbn [flat_map print_qterm app]. cbn [parse_qterms]. rewrite (IH rest H).
    rewrite signed_abs. destruct t as [[u v] b]. reflexivity.
Qed.

Definition stops_b (ts : list token) : Prop :=
  match ts with TSign false :: TLBr :: _ => False | _ => True end.

Lemma parse_block_none close ts : stops_b ts -> parse_block close ts = Some ([], ts).
Proof.
  destruct ts as [|t1 [|t2 r]]; try reflexivity; destruct t1; try reflexivity.
  - destruct neg; reflexivity.
  - destruct neg; [reflexivity|]. destruct t2; try reflexivity. intros H. contradiction.
Qed.

Lemma parse_block_print (close : token -> bool) (c : token) q rest :
  close c = true -> stops_q (c :: rest) -> stops_b rest ->
  parse_block close (print_block c q ++ rest) = Some (q, rest).
Proof.
  intros Hc Hs Hb. destruct q as [|t q].
  - cbn [print_block app]. apply parse_block_none. exact Hb.
  - unfold print_block. cbn [app]. unfold parse_block.
    rewrite <- app_assoc. cbn [app].
    rewrite (parse_qterms_print (t :: q) (c :: rest) Hs). rewrite Hc. reflexivity.
Qed.

(* ------------------------------------------------------------------ *)
(* objective *)

Lemma Qc_eqb_refl0 c : Qc_eqb c 0 = true -> c = 0.
Proof. apply Qc_eqb_true. Qed.

Lemma parse_const_print c rest :
  (match rest with TSign _ :: TNum _ :: _ => False | _ => True end) ->
  parse_const (print_const c ++ rest) = (c, rest).
Proof.
  intros H. unfold print_const. destruct (Qc_eqb c 0) eqn:E.
  - apply Qc_eqb_true in E. subst c. cbn [app].
    destruct rest as [|t1 [|t2 r]]; try reflexivity; destruct t1; try reflexivity;
      destruct t2; try reflexivity. contradiction.
  - cbn [app parse_const]. rewrite signed_abs. reflexivity.
Qed.

Lemma print_const_stops c rest :
  stops_l (print_const c ++ TSubjectTo :: rest) /\ stops_b (print_const c ++ TSubjectTo :: rest).
Proof. unfold print_const. destruct (Qc_eqb c 0); cbn [app]; split; try exact I. unfold stops_b. destruct (Qc_neg c); exact I. Qed.

Theorem parse_objective_print o rest :
  parse_objective (print_objective o ++ TSubjectTo :: rest) = Some (o, TSubjectTo :: rest).
Proof.
  unfold print_objective. destruct (obj_empty o) eqn:E.
  - unfold obj_empty in E. destruct o as [lin q c]. cbn [lo_lin lo_quad2 lo_const] in E.
    destruct lin; [|discriminate]. destruct q; [|discriminate].
    apply Qc_eqb_true in E. subst c. reflexivity.
  - rewrite <- !app_assoc. cbn [app parse_objective].
    destruct (print_const_stops (lo_const o) rest) as [Hl Hb].
    assert (Hl2 : stops_l (print_block TRBrHalf (lo_quad2 o) ++ print_const (lo_const o) ++ TSubjectTo :: rest)).
    { destruct (lo_quad2 o); [exact Hl | exact I]. }
    rewrite (parse_lterms_print (lo_lin o) _ Hl2).
    rewrite (parse_block_print is_rbrhalf TRBrHalf (lo_quad2 o) _ eq_refl I Hb).
    rewrite parse_const_print by exact I. destruct o. reflexivity.
Qed.

(* ------------------------------------------------------------------ *)
(* constraints *)

Lemma parse_constraints_print cs : forall fuel rest,
  (length cs < fuel)%nat ->
  (match rest with TLabel _ :: _ => False | _ => True end) ->
  parse_constraints fuel (flat_map print_constraint cs ++ rest) = Some (cs, rest).
Proof.
  induction cs as [|[l c] cs IH]; intros fuel rest Hf Hr.
  - destruct fuel; [inversion Hf|]. cbn [flat_map app parse_constraints].
    destruct rest as [|t r]; try reflexivity. destruct t; try reflexivity. contradiction.
  - destruct fuel as [|f]; [inversion Hf|].
    cbn [flat_map]. unfold print_constraint at 1. cbn [fst snd].
    rewrite <- !app_assoc. cbn [app parse_constraints].
    assert (Hl : stops_l (print_block TRBr (lc_quad c) ++
                 TSense (lc_sense c) :: TNum (lc_rhs c) :: flat_map print_constraint cs ++ rest)).
    { destruct (lc_quad c); exact I. }
    rewrite (parse_lterms_print (lc_lin c) _ Hl).
    rewrite (parse_block_print is_rbr TRBr (lc_quad c)
               (TSense (lc_sense c) :: TNum (lc_rhs c) :: flat_map print_constraint cs ++ rest) eq_refl I I). rewrite (IH f rest); [destruct c; reflexivity | cbn [length] in Hf; lia | exact Hr].
Qed.

Lemma parse_bounds_print bs : forall rest,
  (match rest with TNum _ :: _ => False | _ => True end) ->
  parse_bounds (flat_map print_bound bs ++ rest) = (bs, rest).
Proof.
  induction bs as [|[[v lo] hi] bs IH]; intros rest H.
  - cbn [flat_map app]. destruct rest as [|t r]; try reflexivity. destruct t; try reflexivity. contradiction.
  - cbn [flat_map print_bound app parse_bounds]. rewrite (IH rest H). reflexivity.
Qed.

Lemma parse_names_print vs : forall rest,
  (match rest with TName _ :: _ => False | _ => True end) ->
  parse_names (map TName vs ++ rest) = (vs, rest).
Proof.
  induction vs as [|v vs IH]; intros rest H.
  - cbn [map app]. destruct rest as [|t r]; try reflexivity. destruct t; try reflexivity. contradiction.
  - cbn [map app parse_names]. rewrite (IH rest H). reflexivity.
Qed.

Lemma length_flat_map_ge {A} (f : A -> list token) l :
  (forall x, 1 <= length (f x))%nat -> (length l <= length (flat_map f l))%nat.
Proof.
  intros H. induction l as [|x l IH]; [apply Nat.le_refl|].
  cbn [flat_map length]. rewrite app_length. specialize (H x). lia.
Qed.

(* ------------------------------------------------------------------ *)
(* the whole file *)

Theorem parse_print_cqm m : parse_tokens (print_cqm m) = Some m.
Proof.
  unfold print_cqm, parse_tokens. cbn [app]. rewrite parse_objective_print.
  set (tail := TBounds :: flat_map print_bound (m_bounds m) ++ TBinary :: map TName (m_binary m)
               ++ TGeneral :: map TName (m_general m) ++ [TEnd]).
  rewrite (parse_constraints_print (m_cons m) _ tail).
  - unfold tail.
    rewrite (parse_bounds_print (m_bounds m)) by exact I.
    rewrite (parse_names_print (m_binary m)) by exact I.
    rewrite (parse_names_print (m_general m)) by exact I.
    destruct m. reflexivity.
  - rewrite app_length.
    pose proof (length_flat_map_ge print_constraint (m_cons m)) as L.
    assert (X : forall x, (1 <= length (print_constraint x))%nat).
    { intros x. unfold print_constraint. cbn [app length]. lia. }
    specialize (L X). lia.
  - exact I.
Qed.

(* ------------------------------------------------------------------ *)
(* text level: words separated by blanks, wrapped by _WidthLimitedFile *)

Lemma tok_no_blank s : forall cur, Forall (fun c => is_blank c = false) s ->
  tok cur (s ++ [SP]) = [rev cur ++ s] \/ (cur = [] /\ s = [] /\ tok cur (s ++ [SP]) = []).
Proof.
  induction s as [|c s IH]; intros cur H.
  - cbn [app tok]. change (is_blank SP) with true. cbv iota.
    destruct cur as [|x cur]; [right; repeat split; reflexivity | left; rewrite app_nil_r; reflexivity].
  - inversion H as [|? ? Hc Hs]; subst. cbn [app tok]. rewrite Hc.
    destruct (IH (c :: cur) Hs) as [E | [E _]]; [|discriminate].
    left. rewrite E. cbn [rev]. rewrite <- app_assoc. reflexivity.
Qed.

Lemma tokens_word s : no_blank s -> tokens (s ++ [SP]) = [s].
Proof.
  intros [Hn Hf]. unfold tokens. destruct (tok_no_blank s [] Hf) as [E | [_ [E _]]].
  - exact E.
  - contradiction.
Qed.

Lemma writes_sealed render ts :
  (forall t, no_blank (render t)) -> sealed (writes_of render ts).
Proof.
  intros H. induction ts as [|t ts IH]; [exact I|].
  cbn [writes_of map sealed]. split; [|split].
  - destruct (render t); discriminate.
  - destruct ts as [|t2 ts2]; [exact I|]. cbn [map]. left. exists (render t), SP. split; reflexivity.
  - exact IH.
Qed.

Lemma tokens_writes render ts :
  (forall t, no_blank (render t)) -> flat_map tokens (writes_of render ts) = map render ts.
Proof.
  intros H. induction ts as [|t ts IH]; [reflexivity|].
  cbn [writes_of map flat_map]. rewrite (tokens_word (render t) (H t)).
  unfold writes_of in IH. rewrite IH. reflexivity.
Qed.

Lemma lex_all_render render lex ts :
  (forall t, lex (render t) = Some t) -> lex_all lex (map render ts) = Some ts.
Proof.
  intros H. induction ts as [|t ts IH]; [reflexivity|].
  cbn [map lex_all]. rewrite H, IH. reflexivity.
Qed.

(* whatever the column at which lines are broken, the text of a printed model lexes and parses
   back to that model - for any rendering of tokens as blank-free words that the lexer inverts *)
Theorem lp_text_roundtrip render lex m :
  (forall t, no_blank (render t)) -> (forall t, lex (render t) = Some t) ->
  parse_text lex (wrap (writes_of render (print_cqm m))) = Some m.
Proof.
  intros Hr Hl. unfold parse_text.
  rewrite (wrap_preserves_tokens _ (writes_sealed render _ Hr)).
  rewrite (tokens_writes render _ Hr), (lex_all_render render lex _ Hl).
  apply parse_print_cqm.
Qed.

(* ------------------------------------------------------------------ *)
(* writer convention followed by reader convention gives the model back *)

Lemma mem_nat_in v l : mem_nat v l = true -> In v l.
Proof.
  unfold mem_nat. intros H. apply existsb_exists in H. destruct H as [x [Hx E]].
  apply Nat.eqb_eq in E. subst x. exact Hx.
Qed.

Lemma in_filter_labels P vs l : In l (map vi_label (filter P vs)) -> In l (map vi_label vs).
Proof.
  intros H. apply in_map_iff in H. destruct H as [x [E Hx]]. apply filter_In in Hx.
  apply in_map_iff. exists x. split; [exact E | apply Hx].
Qed.

Lemma mem_label_filter P vs : NoDup (map vi_label vs) -> forall v, In v vs ->
  mem_nat (vi_label v) (map vi_label (filter P vs)) = P v.
Proof.
  induction vs as [|x vs IH]; intros Hn v Hv; [contradiction|].
  cbn [map] in Hn. inversion Hn as [|? ? Hx Hn']; subst.
  destruct Hv as [E | Hv].
  - subst x. cbn [filter]. destruct (P v) eqn:Pv.
    + cbn [map]. unfold mem_nat. cbn [existsb]. rewrite Nat.eqb_refl. reflexivity.
    + destruct (mem_nat (vi_label v) (map vi_label (filter P vs))) eqn:M; [|reflexivity].
      apply mem_nat_in in M. apply in_filter_labels in M. contradiction.
  - assert (Hne : vi_label v <> vi_label x).
    { intros E. apply Hx. rewrite <- E. apply in_map. exact Hv. }
    cbn [filter]. destruct (P x).
    + cbn [map]. unfold mem_nat. cbn [existsb].
      rewrite (proj2 (Nat.eqb_neq _ _) Hne). cbn [orb]. apply (IH Hn' v Hv).
    + apply (IH Hn' v Hv).
Qed.

Lemma find_bound_own Q vs : NoDup (map vi_label vs) -> forall v, In v vs -> Q v = true ->
  find (fun b : nat * Qc * Qc => Nat.eqb (fst (fst b)) (vi_label v))
       (map (fun v => (vi_label v, vi_lb v, vi_ub v)) (filter Q vs))
  = Some (vi_label v, vi_lb v, vi_ub v).
Proof.
  induction vs as [|x vs IH]; intros Hn v Hv Qv; [contradiction|].
  cbn [map] in Hn. inversion Hn as [|? ? Hx Hn']; subst.
  destruct Hv as [E | Hv].
  - subst x. cbn [filter]. rewrite Qv. cbn [map find fst]. rewrite Nat.eqb_refl. reflexivity.
  - assert (Hne : vi_label x <> vi_label v).
    { intros E. apply Hx. rewrite E. apply in_map. exact Hv. }
    cbn [filter]. destruct (Q x).
    + cbn [map find fst]. rewrite (proj2 (Nat.eqb_neq _ _) Hne). apply (IH Hn' v Hv Qv).
    + apply (IH Hn' v Hv Qv).
Qed.

Lemma Qle_bool_Qcle (a b : Qc) : Qle_bool a b = true <-> a <= b.
Proof. unfold Qcle. apply Qle_bool_iff. Qed.

Lemma clampq_id lo hi x : lo <= x -> x <= hi -> clampq lo hi x = x.
Proof.
  intros H1 H2. unfold clampq.
  destruct (Qle_bool x lo) eqn:E1.
  - apply Qle_bool_Qcle in E1. apply Qcle_antisym; assumption.
  - destruct (Qle_bool hi x) eqn:E2; [|reflexivity].
    apply Qle_bool_Qcle in E2. apply Qcle_antisym; assumption.
Qed.

Lemma read_varinfo_own c v :
  NoDup (map vi_label (q_vars c)) -> In v (q_vars c) -> var_wf v ->
  read_varinfo (lpmodel_of_cqm c) (vi_label v) = v.
Proof.
  intros Hn Hv Hw. unfold read_varinfo, bounds_of, type_of, find_bound, lpmodel_of_cqm.
  cbn [m_binary m_general m_bounds].
  rewrite (mem_label_filter (is_vt BINARY) _ Hn v Hv), (mem_label_filter (is_vt INTEGER) _ Hn v Hv).
  unfold var_wf in Hw. destruct v as [l t lb ub]. cbn [vi_label vi_type vi_lb vi_ub] in *.
  unfold is_vt at 1 2. cbn [vi_type].
  destruct t; cbn [vartype_eqb].
  - destruct Hw as [E1 E2]. subst. reflexivity.
  - contradiction.
  - pose proof (find_bound_own (fun v => is_vt INTEGER v || is_vt REAL v) _ Hn (mkVar l INTEGER lb ub) Hv eq_refl) as F.
    cbn [vi_label vi_lb vi_ub] in F. rewrite F.
    unfold is_vt. cbn [vi_label vi_type vi_lb vi_ub vartype_eqb fst snd]. destruct Hw as [A [B [C D]]].
    rewrite !clampq_id by assumption. reflexivity.
  - pose proof (find_bound_own (fun v => is_vt INTEGER v || is_vt REAL v) _ Hn (mkVar l REAL lb ub) Hv eq_refl) as F.
    cbn [vi_label vi_lb vi_ub] in F. rewrite F.
    unfold is_vt. cbn [vi_label vi_type vi_lb vi_ub vartype_eqb fst snd]. destruct Hw as [A [B [C D]]].
    rewrite !clampq_id by assumption. reflexivity.
Qed.

(* same variables with the same types and bounds, same constraint labels, every expression
   replaced by its (energy-preserving, see C12_objective_roundtrip / C12_constraint_roundtrip)
   read-after-write image *)
Theorem cqm_lpmodel_roundtrip c :
  NoDup (map vi_label (q_vars c)) -> Forall var_wf (q_vars c) ->
  let c' := cqm_of_lpmodel (map vi_label (q_vars c)) (lpmodel_of_cqm c) in
  q_vars c' = q_vars c /\
  q_obj c' = read_objective (write_objective (q_obj c)) /\
  q_cons c' = map (fun lc => (fst lc, read_constraint (write_constraint (snd lc)))) (q_cons c) /\
  (forall s, energy (q_obj c') s = energy (q_obj c) s).
Proof.
  intros Hn Hw. cbn zeta. unfold cqm_of_lpmodel. cbn [q_vars q_obj q_cons].
  split; [|split; [|split]].
  - rewrite map_map. rewrite <- (map_id (q_vars c)) at 2. apply map_ext_in.
    intros v Hv. apply read_varinfo_own; [exact Hn | exact Hv |].
    exact (proj1 (Forall_forall _ _) Hw v Hv).
  - reflexivity.
  - unfold lpmodel_of_cqm. cbn [m_cons]. rewrite map_map. reflexivity.
  - intros s. unfold lpmodel_of_cqm. cbn [m_obj]. apply objective_roundtrip.
Qed.

(* end to end on the model: print, wrap into lines, split into words, lex, parse, convert *)
Theorem lp_model_text_roundtrip render lex c :
  (forall t, no_blank (render t)) -> (forall t, lex (render t) = Some t) ->
  NoDup (map vi_label (q_vars c)) -> Forall var_wf (q_vars c) ->
  exists m, parse_text lex (wrap (writes_of render (print_cqm (lpmodel_of_cqm c)))) = Some m /\
    let c' := cqm_of_lpmodel (map vi_label (q_vars c)) m in
    q_vars c' = q_vars c /\
    map fst (q_cons c') = map fst (q_cons c) /\
    (forall s, energy (q_obj c') s = energy (q_obj c) s) /\
    Forall2 (fun a b => forall s, holds (snd a) s <-> holds (snd b) s) (q_cons c') (q_cons c).
Proof.
  intros Hr Hl Hn Hw. exists (lpmodel_of_cqm c). split; [apply lp_text_roundtrip; assumption|].
  destruct (cqm_lpmodel_roundtrip c Hn Hw) as [A [B [C D]]]. cbn zeta in *.
  split; [exact A|]. split; [|split; [exact D|]].
  - rewrite C, map_map. reflexivity.
  - rewrite C. clear. induction (q_cons c) as [|x l IH]; [constructor|].
    cbn [map]. constructor; [|exact IH]. intros s. cbn [snd]. apply constraint_holds_iff.
Qed.
