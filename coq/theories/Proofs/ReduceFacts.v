(* C15: reduction by product substitution preserves the energy on consistent assignments *)
From Coq Require Import List ZArith QArith Qcanon Bool Arith Lia.
From Dimod Require Import Base.Util Model.Poly Model.HPoly Model.Reduce Proofs.PolyFacts Proofs.HPolyFacts.
Import ListNotations.
Open Scope Qc_scope.

(* ---------- boolean reflection ---------- *)
Lemma mem_In v l : mem v l = true <-> In v l.
Proof.
  unfold mem. rewrite existsb_exists. split.
  - intros [x [Hin Heq]]. apply Nat.eqb_eq in Heq. subst. exact Hin.
  - intros Hin. exists v. split; [exact Hin|apply Nat.eqb_refl].
Qed.

Lemma mem_false v l : mem v l = false <-> ~ In v l.
Proof.
  rewrite <- mem_In. destruct (mem v l); split; intros H; try congruence; try (intros H1; congruence).
Qed.

Lemma nodupb_NoDup l : nodupb l = true -> NoDup l.
Proof.
  induction l as [|x l IH]; cbn [nodupb]; intros H; [constructor|].
  apply andb_true_iff in H. destruct H as [H1 H2]. apply negb_true_iff in H1.
  constructor; [apply mem_false; exact H1|apply IH; exact H2].
Qed.

Lemma In_remove_var x v l : In x (remove_var v l) <-> In x l /\ x <> v.
Proof.
  unfold remove_var. rewrite filter_In. rewrite negb_true_iff, Nat.eqb_neq. tauto.
Qed.

Lemma NoDup_remove_var v l : NoDup l -> NoDup (remove_var v l).
Proof. intros H. unfold remove_var. apply NoDup_filter. exact H. Qed.

Lemma remove_var_notin v l : ~ In v l -> remove_var v l = l.
Proof.
  induction l as [|x l IH]; intros H; [reflexivity|].
  unfold remove_var in *. cbn [filter].
  destruct (Nat.eqb_spec x v) as [E|E].
  - exfalso. apply H. left. exact E.
  - cbn [negb]. f_equal. apply IH. intros Hin. apply H. right. exact Hin.
Qed.

(* ---------- products over duplicate-free variable lists ---------- *)
Lemma qprod_remove (a : sample) v l :
  NoDup l -> In v l -> qprod (map a l) = a v * qprod (map a (remove_var v l)).
Proof.
  induction l as [|x l IH]; intros Hnd Hin; [destruct Hin|].
  inversion Hnd as [|x' l' Hx Hnd']; subst.
  unfold remove_var. cbn [filter map qprod]. fold (remove_var v l).
  destruct (Nat.eqb_spec x v) as [E|E].
  - subst x. cbn [negb]. rewrite (remove_var_notin v l Hx). reflexivity.
  - cbn [negb map qprod]. destruct Hin as [Hin|Hin]; [congruence|].
    rewrite (IH Hnd' Hin). ring.
Qed.

Lemma applies_spec u v t :
  applies u v t = true -> (2 < length t)%nat /\ In u t /\ In v t.
Proof.
  unfold applies. intros H. apply andb_true_iff in H. destruct H as [H Hv].
  apply andb_true_iff in H. destruct H as [Hl Hu].
  apply Nat.ltb_lt in Hl. apply mem_In in Hu. apply mem_In in Hv. tauto.
Qed.

Lemma subst_term_val (a : sample) u v p t :
  NoDup t -> u <> v -> a p = a u * a v ->
  qprod (map a (subst_term (u, v, p) t)) = qprod (map a t).
Proof.
  intros Hnd Huv Hp. unfold subst_term.
  destruct (applies u v t) eqn:Ha; [|reflexivity].
  apply applies_spec in Ha. destruct Ha as [_ [Hu Hv]].
  cbn [map qprod].
  rewrite (qprod_remove a v t Hnd Hv).
  assert (Hu' : In u (remove_var v t)) by (apply In_remove_var; tauto).
  rewrite (qprod_remove a u (remove_var v t) (NoDup_remove_var v t Hnd) Hu').
  rewrite Hp. ring.
Qed.

Lemma subst_term_In u v p t x :
  In x (subst_term (u, v, p) t) -> x = p \/ In x t.
Proof.
  unfold subst_term. destruct (applies u v t); [|tauto].
  intros [H|H]; [left; symmetry; exact H|].
  apply In_remove_var in H. destruct H as [H _]. apply In_remove_var in H. tauto.
Qed.

Lemma subst_term_NoDup u v p t :
  NoDup t -> ~ In p t -> NoDup (subst_term (u, v, p) t).
Proof.
  intros Hnd Hp. unfold subst_term. destruct (applies u v t); [|exact Hnd].
  constructor.
  - intros H. apply In_remove_var in H. destruct H as [H _]. apply In_remove_var in H. tauto.
  - apply NoDup_remove_var. apply NoDup_remove_var. exact Hnd.
Qed.

(* each applicable substitution lowers the degree of the term by exactly one *)
Lemma length_remove_var v l : NoDup l -> In v l -> S (length (remove_var v l)) = length l.
Proof.
  induction l as [|x l IH]; intros Hnd Hin; [destruct Hin|].
  inversion Hnd as [|x' l' Hx Hnd']; subst.
  unfold remove_var. cbn [filter]. fold (remove_var v l).
  destruct (Nat.eqb_spec x v) as [E|E].
  - subst x. cbn [negb]. rewrite (remove_var_notin v l Hx). reflexivity.
  - cbn [negb length]. destruct Hin as [Hin|Hin]; [congruence|]. rewrite (IH Hnd' Hin). reflexivity.
Qed.

Lemma subst_term_degree u v p t :
  NoDup t -> u <> v -> applies u v t = true ->
  S (length (subst_term (u, v, p) t)) = length t.
Proof.
  intros Hnd Huv Ha. unfold subst_term. rewrite Ha. cbn [length].
  apply applies_spec in Ha. destruct Ha as [_ [Hu Hv]].
  assert (Hu' : In u (remove_var v t)) by (apply In_remove_var; tauto).
  rewrite (length_remove_var u _ (NoDup_remove_var v t Hnd) Hu').
  apply (length_remove_var v t Hnd Hv).
Qed.

Lemma subst_term_low_degree c t : (length t <= 2)%nat -> subst_term c t = t.
Proof.
  destruct c as [[u v] p]. intros H. unfold subst_term, applies.
  destruct (Nat.ltb_spec 2 (length t)) as [H1|H1]; [lia|reflexivity].
Qed.

(* ---------- invariant: duplicate-free terms over known variables ---------- *)
Definition wf (vars : list label) (poly : hpoly) : Prop :=
  forall t, In t poly -> NoDup (fst t) /\ (forall x, In x (fst t) -> In x vars).

Lemma terms_nodup_wf poly : terms_nodup poly = true -> wf (hvars poly) poly.
Proof.
  unfold terms_nodup. rewrite forallb_forall. intros H t Ht. split.
  - apply nodupb_NoDup. apply H. exact Ht.
  - intros x Hx. unfold hvars. apply in_flat_map. exists t. tauto.
Qed.

Lemma subst_step_energy (a : sample) u v p vars poly :
  wf vars poly -> u <> v -> a p = a u * a v ->
  henergy (subst_step (u, v, p) poly) a = henergy poly a.
Proof.
  intros Hwf Huv Hp. unfold henergy, subst_step. rewrite map_map. f_equal.
  apply map_ext_in. intros t Ht. unfold mono_val. cbn [fst snd].
  rewrite (subst_term_val a u v p (fst t)); [reflexivity| |exact Huv|exact Hp].
  apply (Hwf t Ht).
Qed.

Lemma subst_step_wf u v p vars poly :
  wf vars poly -> ~ In p vars -> wf (p :: vars) (subst_step (u, v, p) poly).
Proof.
  intros Hwf Hp t Ht. unfold subst_step in Ht. apply in_map_iff in Ht.
  destruct Ht as [t0 [<- Ht0]]. cbn [fst]. destruct (Hwf t0 Ht0) as [Hnd Hin]. split.
  - apply subst_term_NoDup; [exact Hnd|]. intros H. apply Hp. apply Hin. exact H.
  - intros x Hx. apply subst_term_In in Hx. destruct Hx as [->|Hx]; [left; reflexivity|].
    right. apply Hin. exact Hx.
Qed.

Lemma valid_cons_cons vars u v p r :
  valid_cons vars ((u, v, p) :: r) = true ->
  u <> v /\ In u vars /\ In v vars /\ ~ In p vars /\ valid_cons (p :: vars) r = true.
Proof.
  cbn [valid_cons]. intros H.
  repeat (apply andb_true_iff in H; destruct H as [H ?]).
  apply negb_true_iff in H. apply Nat.eqb_neq in H.
  repeat split; try (apply mem_In; assumption); try assumption.
  apply mem_false. apply negb_true_iff. assumption.
Qed.

Theorem reduce_energy_wf (a : sample) cons : forall vars poly,
  wf vars poly -> valid_cons vars cons = true -> consistent cons a ->
  henergy (reduce_with cons poly) a = henergy poly a.
Proof.
  induction cons as [|[[u v] p] r IH]; intros vars poly Hwf Hv Hc; [reflexivity|].
  apply valid_cons_cons in Hv. destruct Hv as [Huv [Hu [Hv [Hp Hr]]]].
  unfold reduce_with. cbn [fold_left]. fold (reduce_with r (subst_step (u, v, p) poly)).
  rewrite (IH (p :: vars)).
  - apply (subst_step_energy a u v p vars); [exact Hwf|exact Huv|]. apply Hc. left. reflexivity.
  - apply subst_step_wf; assumption.
  - exact Hr.
  - intros u' v' p' Hin. apply Hc. right. exact Hin.
Qed.

(* the statement used by the property: any polynomial with duplicate-free terms,
   any valid constraint sequence, any (not necessarily 0/1 or +-1) assignment *)
Theorem reduce_energy_on_consistent poly cons (a : sample) :
  terms_nodup poly = true -> valid_cons (hvars poly) cons = true -> consistent cons a ->
  henergy (reduce_with cons poly) a = henergy poly a.
Proof.
  intros Hnd Hv Hc. apply (reduce_energy_wf a cons (hvars poly)); [apply terms_nodup_wf|..]; assumption.
Qed.

Lemma consistentb_consistent cons a : consistentb cons a = true -> consistent cons a.
Proof.
  unfold consistentb, consistent. rewrite forallb_forall. intros H u v p Hin.
  specialize (H _ Hin). cbn in H. apply Qc_is_canon. apply Qeq_bool_eq. exact H.
Qed.

(* ---------- every assignment of the original variables extends consistently ---------- *)
Lemma extend_spec cons : forall vars (a : sample),
  valid_cons vars cons = true ->
  consistent cons (extend cons a) /\ (forall x, In x vars -> extend cons a x = a x).
Proof.
  induction cons as [|[[u v] p] r IH]; intros vars a Hv.
  - split; [intros u v p []|reflexivity].
  - apply valid_cons_cons in Hv. destruct Hv as [Huv [Hu [Hv [Hp Hr]]]].
    unfold extend. cbn [fold_left]. fold (extend r (upd a p (a u * a v))).
    destruct (IH (p :: vars) (upd a p (a u * a v)) Hr) as [Hc Hsame].
    assert (Hup : forall x, In x vars -> upd a p (a u * a v) x = a x).
    { intros x Hx. unfold upd. destruct (Nat.eqb_spec x p) as [E|E]; [subst; contradiction|reflexivity]. }
    split.
    + intros u' v' p' [E|Hin]; [|apply Hc; exact Hin].
      inversion E; subst u' v' p'.
      rewrite (Hsame p (or_introl eq_refl)), (Hsame u (or_intror Hu)), (Hsame v (or_intror Hv)).
      rewrite (Hup u Hu), (Hup v Hv). unfold upd. rewrite Nat.eqb_refl. reflexivity.
    + intros x Hx. rewrite (Hsame x (or_intror Hx)). apply Hup. exact Hx.
Qed.

Lemma henergy_ext poly (a b : sample) :
  (forall x, In x (hvars poly) -> a x = b x) -> henergy poly a = henergy poly b.
Proof.
  intros H. unfold henergy. f_equal. apply map_ext_in. intros t Ht. unfold mono_val. f_equal. f_equal.
  apply map_ext_in. intros x Hx. apply H. unfold hvars. apply in_flat_map. exists t. tauto.
Qed.

Theorem reduce_energy_extend poly cons (a : sample) :
  terms_nodup poly = true -> valid_cons (hvars poly) cons = true ->
  consistent cons (extend cons a) /\
  (forall x, In x (hvars poly) -> extend cons a x = a x) /\
  henergy (reduce_with cons poly) (extend cons a) = henergy poly a.
Proof.
  intros Hnd Hv. destruct (extend_spec cons (hvars poly) a Hv) as [Hc Hs].
  split; [exact Hc|]. split; [exact Hs|].
  rewrite (reduce_energy_on_consistent poly cons _ Hnd Hv Hc). apply henergy_ext. exact Hs.
Qed.

(* ---------- the quadratic model of a polynomial of degree <= 2 ---------- *)
Lemma energy_mono_poly t (a : sample) :
  (length (fst t) <= 2)%nat -> energy (mono_poly t) a = mono_val a t.
Proof.
  destruct t as [vs b]. cbn [fst]. intros H. unfold mono_poly, mono_val. cbn [fst snd].
  destruct vs as [|x [|y [|z vs]]].
  - unfold energy, lin_energy, quad_energy. cbn [p_off p_lin p_quad map qsum qprod]. ring.
  - unfold energy, lin_energy, quad_energy, lterm_val. cbn [p_off p_lin p_quad map qsum qprod fst snd]. ring.
  - unfold energy, lin_energy, quad_energy, qterm_val. cbn [p_off p_lin p_quad map qsum qprod fst snd]. ring.
  - cbn [length] in H. lia.
Qed.

Theorem poly_of_hpoly_energy p (a : sample) :
  all_degree_le2 p = true -> energy (poly_of_hpoly p) a = henergy p a.
Proof.
  unfold all_degree_le2, poly_of_hpoly, henergy. rewrite forallb_forall. intros H.
  rewrite energy_psum, map_map. f_equal. apply map_ext_in. intros t Ht.
  apply energy_mono_poly. apply Nat.leb_le. apply H. exact Ht.
Qed.
