(* Energy-level specification of substitute_variables / BinaryQuadraticModel::change_vartype for the
   functions of Model/AdjMore.v that the C20 check evaluates: AdjMore.substitute_variables IS
   AdjSubstAll.substitute_variables (g11's loop-shaped mirror), so the energy theorems of
   Proofs/AdjSubstAllFacts.v are re-exported for it rather than re-proved. *)
From Coq Require Import List ZArith QArith Qcanon Bool Arith Lia.
From Dimod Require Import Base.Util Model.Poly Model.Adj Model.AdjMore Model.AdjSubstAll
  Proofs.AdjFacts Proofs.AdjSubstAllFacts Proofs.AdjMoreInv.
Import ListNotations.
Local Open Scope Qc_scope.

Lemma fold_row_lin lq (n : nbh) x :
  fold_left (fun b e => b + lq * snd e) n x = x + lq * rsum n.
Proof.
  revert x. unfold rsum. induction n as [|e r IH]; intros x; cbn [fold_left map qsum]; [ring|].
  rewrite IH. ring.
Qed.

Lemma fold_off1 c (l : list Qc) o : fold_left (fun o b => o + b * c) l o = o + c * qsum l.
Proof.
  revert o. induction l as [|b r IH]; intros o; cbn [fold_left qsum]; [ring|]. rewrite IH. ring.
Qed.

Lemma fold_off2 qo (a : list nbh) o :
  fold_left (fun o n => fold_left (fun o' e => o' + qo * snd e) n o) a o = o + qo * qsum (map rsum a).
Proof.
  revert o. induction a as [|n a IH]; intros o; cbn [fold_left map qsum]; [ring|].
  rewrite IH. replace (fold_left (fun o' e => o' + qo * snd e) n o) with (o + qo * rsum n).
  - ring.
  - symmetry. apply fold_row_lin.
Qed.

Lemma lin2_as_map lq (l : list Qc) (a : list nbh) k :
  length l = length a ->
  map (fun r => fold_left (fun b e => b + lq * snd e) (snd r) (fst r * k)) (combine l a)
  = lin2 lq (map (fun b => b * k) l) a.
Proof.
  revert a. induction l as [|x l IH]; intros [|n a] H; cbn [length] in H; try discriminate; [reflexivity|].
  cbn [combine map lin2 fst snd]. rewrite fold_row_lin, IH by lia. reflexivity.
Qed.

Theorem substitute_variables_same k c m :
  length (adj m) = nvars m ->
  AdjMore.substitute_variables k c m = AdjSubstAll.substitute_variables k c m.
Proof.
  intros Ha. rewrite substitute_variables_eq by exact Ha. unfold AdjMore.substitute_variables.
  unfold nvars in Ha. rewrite Ha, Nat.sub_diag. cbn [repeat]. rewrite app_nil_r.
  rewrite subst_all_adj, fold_off2, fold_off1, lin2_as_map by (symmetry; exact Ha).
  reflexivity.
Qed.

Theorem substitute_variables_energy_C20 k c m s :
  Inv m -> (forall u, (u < nvars m)%nat -> has_interaction m u u = false) ->
  energy_adj (AdjMore.substitute_variables k c m) s = energy_adj m (fun i => k * s i + c).
Proof.
  intros HI Hn. rewrite substitute_variables_same by (apply Inv_len_adj, HI).
  apply substitute_variables_energy; assumption.
Qed.

(* BinaryQuadraticModel::change_vartype as modelled in AdjMore.v (cur = the object's vartype_) *)
Theorem bqm_change_vartype_energy_C20 cur m s :
  Inv m -> all_binspin m ->
  (cur <> SPIN ->
   energy_adj (fst (fst (AdjMore.bqm_change_vartype cur SPIN m))) s = energy_adj m (fun i => half * s i + half))
  /\ (cur <> BINARY ->
      energy_adj (fst (fst (AdjMore.bqm_change_vartype cur BINARY m))) s = energy_adj m (fun i => two * s i + - (1)))
  /\ energy_adj (fst (fst (AdjMore.bqm_change_vartype cur cur m))) s = energy_adj m s.
Proof.
  intros HI Hb.
  assert (Hn : forall u, (u < nvars m)%nat -> has_interaction m u u = false).
  { apply binspin_no_self_loops; [exact HI|]. intros u _. apply Hb. }
  assert (Hne : forall a b, a <> b -> vartype_eqb a b = false).
  { intros a b H. destruct (vartype_eqb a b) eqn:E; [|reflexivity]. apply vt_eqb_iff in E. contradiction. }
  split; [|split].
  - intros Hc. unfold AdjMore.bqm_change_vartype. rewrite (Hne _ _ Hc). cbn [fst].
    change (mkQM ?l ?a ?o (map (fun _ => SPIN) ?v)) with (set_all_vts SPIN (mkQM l a o v)).
    set (m' := AdjMore.substitute_variables half half m).
    change (energy_adj (set_all_vts SPIN (mkQM (lin m') (adj m') (off m') (vts m'))) s = energy_adj m (fun i => half * s i + half)).
    rewrite energy_adj_set_all_vts. destruct m' as [l a o v] eqn:Em. cbn [lin adj off vts]. rewrite <- Em. subst m'.
    apply substitute_variables_energy_C20; assumption.
  - intros Hc. unfold AdjMore.bqm_change_vartype. rewrite (Hne _ _ Hc). cbn [fst].
    set (m' := AdjMore.substitute_variables two (- (1)) m).
    change (energy_adj (set_all_vts BINARY (mkQM (lin m') (adj m') (off m') (vts m'))) s = energy_adj m (fun i => two * s i + - (1))).
    rewrite energy_adj_set_all_vts. destruct m' as [l a o v] eqn:Em. cbn [lin adj off vts]. rewrite <- Em. subst m'.
    apply substitute_variables_energy_C20; assumption.
  - unfold AdjMore.bqm_change_vartype. assert (E : vartype_eqb cur cur = true) by (apply vt_eqb_iff; reflexivity).
    rewrite E. reflexivity.
Qed.
