(* C08: both code-shaped paths compute the specification of Model/Feas.v *)
From Coq Require Import List ZArith QArith Qcanon Bool Arith Lia.
From Dimod Require Import Base.Util Model.Poly Model.Feas Proofs.PolyFacts.
Import ListNotations.
Open Scope Qc_scope.

(* ---------- list helpers ---------- *)

Lemma combine_map_r {A B C} (f : B -> C) (l1 : list A) (l2 : list B) :
  combine l1 (map f l2) = map (fun p => (fst p, f (snd p))) (combine l1 l2).
Proof.
  revert l2. induction l1 as [|a l1 IH]; intros [|b l2]; cbn [combine map]; try reflexivity.
  rewrite IH. reflexivity.
Qed.

Lemma filter_map {A B} (g : A -> B) (P : B -> bool) (l : list A) :
  filter P (map g l) = map g (filter (fun x => P (g x)) l).
Proof.
  induction l as [|a l IH]; cbn [map filter]; [reflexivity|].
  destruct (P (g a)); cbn [map]; rewrite IH; reflexivity.
Qed.

Lemma forallb_map {A B} (g : A -> B) (P : B -> bool) (l : list A) :
  forallb P (map g l) = forallb (fun x => P (g x)) l.
Proof. induction l as [|a l IH]; cbn [map forallb]; [reflexivity|]. rewrite IH. reflexivity. Qed.

Lemma forallb_split {A} (f p : A -> bool) (l : list A) :
  forallb f l = forallb f (filter p l) && forallb f (filter (fun x => negb (p x)) l).
Proof.
  induction l as [|a l IH]; cbn [forallb filter]; [reflexivity|].
  rewrite IH. destruct (p a); cbn [negb forallb]; destruct (f a); cbn [andb]; try reflexivity.
  - rewrite andb_false_r. reflexivity.
Qed.

(* ---------- per-sample path ---------- *)

Lemma datum_fields k s :
  d_lhs (constraint_datum k s) = energy (c_lhs k) s /\
  d_rhs (constraint_datum k s) = c_rhs k /\
  d_sense (constraint_datum k s) = c_sense k /\
  d_activity (constraint_datum k s) = activity k s /\
  d_violation (constraint_datum k s) = violation k s.
Proof.
  unfold constraint_datum, violation, activity. cbn [d_lhs d_rhs d_sense d_activity d_violation].
  repeat split; destruct (c_sense k); reflexivity.
Qed.

Lemma datum_violation k s : d_violation (constraint_datum k s) = violation k s.
Proof. apply datum_fields. Qed.

Lemma iter_constraint_data_spec m s :
  iter_constraint_data m s
  = map (fun k => mkDatum (energy (c_lhs k) s) (c_rhs k) (c_sense k) (activity k s) (violation k s)) (m_cons m).
Proof.
  unfold iter_constraint_data. apply map_ext. intros k.
  unfold constraint_datum, violation, activity. destruct (c_sense k); reflexivity.
Qed.

Definition spec_violation_list (m : cqm) (s : sample) : list (nat * Qc) :=
  combine (seq 0 (length (m_cons m))) (map (fun k => violation k s) (m_cons m)).

Lemma iter_violations_spec m s skip clip :
  iter_violations m s skip clip
  = if skip then filter (fun iv => negb (Qc_leb (snd iv) 0)) (spec_violation_list m s)
    else if clip then map (fun iv => (fst iv, qmax0 (snd iv))) (spec_violation_list m s)
    else spec_violation_list m s.
Proof.
  unfold iter_violations, spec_violation_list.
  rewrite iter_constraint_data_spec. rewrite !combine_map_r.
  destruct skip; [|destruct clip].
  - rewrite filter_map. cbn [snd d_violation]. rewrite map_map. cbn [fst snd d_violation].
    rewrite filter_map. cbn [snd]. reflexivity.
  - rewrite !map_map. cbn [fst snd d_violation]. reflexivity.
  - rewrite map_map. cbn [fst snd d_violation]. reflexivity.
Qed.

(* check_feasible = EVERY constraint (soft ones too) satisfied *)
Lemma check_feasible_all m s rtol atol :
  check_feasible m s rtol atol = forallb (fun k => satisfied atol rtol k s) (m_cons m).
Proof.
  unfold check_feasible. rewrite iter_constraint_data_spec, forallb_map.
  cbn [d_violation d_rhs]. reflexivity.
Qed.

Definition no_soft_violated (atol rtol : Qc) (m : cqm) (s : sample) : Prop :=
  forallb (fun k => satisfied atol rtol k s) (filter is_soft (m_cons m)) = true.

Lemma filter_hard_soft (l : list constraint) :
  filter (fun x => negb (is_hard x)) l = filter is_soft l.
Proof. apply filter_ext. intros k. unfold is_hard. apply negb_involutive. Qed.

Lemma check_feasible_eq_spec_if m s rtol atol :
  no_soft_violated atol rtol m s -> check_feasible m s rtol atol = feasible atol rtol m s.
Proof.
  intros H. rewrite check_feasible_all. unfold feasible.
  rewrite (forallb_split _ is_hard). rewrite filter_hard_soft. unfold no_soft_violated in H.
  rewrite H. apply andb_true_r.
Qed.

(* one soft constraint x == 1, sample x = 0 *)
Definition cf_bad_cqm : cqm :=
  mkCqm pzero [mkCon (mkPoly 0 [(0%nat, 1)] []) Eq 1 (Some (1, PLinear))].

Lemma check_feasible_counts_soft_refuted :
  exists m s rtol atol, check_feasible m s rtol atol <> feasible atol rtol m s.
Proof.
  exists cf_bad_cqm, (sample_of_list []), 0, 0. vm_compute. discriminate.
Qed.

(* ---------- vectorised path ---------- *)

Lemma col_violation_eq k s : col_violation k s = violation k s.
Proof.
  unfold col_violation, violation, activity, gen_vec_violation_eq, gen_vec_violation_ge, gen_vec_violation_le.
  destruct (c_sense k); try reflexivity. ring.
Qed.

Lemma sat_col_eq atol rtol k s :
  Qc_leb (col_violation k s) (gen_vec_tolerance atol rtol (c_rhs k)) = satisfied atol rtol k s.
Proof. rewrite col_violation_eq. reflexivity. Qed.

Lemma map_combine3 {A B C D} (f : A -> B) (h : A -> C) (g : B * (C * A) -> D) (l : list A) :
  map g (combine (map f l) (combine (map h l) l)) = map (fun s => g (f s, (h s, s))) l.
Proof. induction l as [|a l IH]; cbn [map combine]; [reflexivity|]. rewrite IH. reflexivity. Qed.

Lemma soft_penalty_satisfied atol rtol k s :
  satisfied atol rtol k s = true -> soft_penalty atol rtol k s = 0.
Proof. intros H. unfold soft_penalty. destruct (c_soft k) as [[w pen]|]; [rewrite H|]; reflexivity. Qed.

Lemma soft_penalty_hard atol rtol k s : is_soft k = false -> soft_penalty atol rtol k s = 0.
Proof. unfold is_soft, soft_penalty. destruct (c_soft k) as [[w pen]|]; [discriminate|reflexivity]. Qed.

Lemma add_penalty_map atol rtol k samples (f : sample -> Qc) :
  add_penalty k (column atol rtol k samples) samples (map f samples)
  = map (fun s => f s + soft_penalty atol rtol k s) samples.
Proof.
  unfold add_penalty, soft_penalty, column. destruct (c_soft k) as [[w pen]|].
  - rewrite map_combine3. apply map_ext. intros s. rewrite sat_col_eq, !col_violation_eq.
    unfold gen_vec_penalty_linear, gen_vec_penalty_quadratic.
    destruct (satisfied atol rtol k s); destruct pen; ring.
  - apply map_ext. intros s. ring.
Qed.

Lemma column_all atol rtol k samples :
  forallb (fun b => b) (column atol rtol k samples) = true ->
  forall s, In s samples -> satisfied atol rtol k s = true.
Proof.
  unfold column. rewrite forallb_map. intros H s Hs. rewrite forallb_forall in H.
  specialize (H s Hs). rewrite sat_col_eq in H. exact H.
Qed.

Definition mark_ok (atol rtol : Qc) (samples : list sample) (k : constraint) (mark : bool) : Prop :=
  (mark = true -> is_soft k = true) /\
  (mark = false -> is_soft k = true -> forall s, In s samples -> satisfied atol rtol k s = true).

Lemma vec_loop_spec atol rtol samples cons : forall garb prev (f : sample -> Qc),
  fst (vec_loop atol rtol cons garb prev samples (map f samples))
  = map (fun s => f s + qsum (map (fun k => soft_penalty atol rtol k s) cons)) samples /\
  Forall2 (mark_ok atol rtol samples) cons (snd (vec_loop atol rtol cons garb prev samples (map f samples))).
Proof.
  induction cons as [|k r IH]; intros garb prev f; cbn [vec_loop fst snd map qsum].
  - split; [|constructor]. apply map_ext. intros s. ring.
  - set (col := column atol rtol k samples).
    set (all_now := prev && forallb (fun b => b) col).
    set (mark := is_soft k && negb (all_now && hd true garb)).
    assert (Hm : mark_ok atol rtol samples k mark).
    { unfold mark_ok, mark. split.
      - intros H. apply andb_true_iff in H. apply H.
      - intros H Hs. rewrite Hs in H. cbn [andb] in H. apply negb_false_iff in H.
        apply andb_true_iff in H. destruct H as [H _]. unfold all_now in H.
        apply andb_true_iff in H. destruct H as [_ H]. apply column_all. exact H. }
    assert (He : (if mark then add_penalty k col samples (map f samples) else map f samples)
                 = map (fun s => f s + soft_penalty atol rtol k s) samples).
    { destruct mark eqn:Em.
      - apply add_penalty_map.
      - apply map_ext_in. intros s Hs. destruct Hm as [_ Hm].
        destruct (is_soft k) eqn:Es.
        + rewrite soft_penalty_satisfied by (apply Hm; auto). ring.
        + rewrite soft_penalty_hard by exact Es. ring. }
    rewrite He.
    destruct (IH (tl garb) all_now (fun s => f s + soft_penalty atol rtol k s)) as [IH1 IH2].
    split.
    + rewrite IH1. apply map_ext. intros s. ring.
    + constructor; assumption.
Qed.

Lemma feas_marks atol rtol samples s cons marks :
  Forall2 (mark_ok atol rtol samples) cons marks -> In s samples ->
  forallb (fun km => snd km || Qc_leb (col_violation (fst km) s) (gen_vec_tolerance atol rtol (c_rhs (fst km))))
          (combine cons marks)
  = forallb (fun k => satisfied atol rtol k s) (filter is_hard cons).
Proof.
  intros HF Hs. induction HF as [|k mark cons marks Hk HF IH]; cbn [combine forallb filter]; [reflexivity|].
  cbn [fst snd]. rewrite sat_col_eq, IH. destruct Hk as [H1 H2]. unfold is_hard.
  destruct (is_soft k) eqn:Es; cbn [negb].
  - destruct mark; cbn [orb andb]; [reflexivity|]. rewrite H2 by auto. reflexivity.
  - destruct mark; [specialize (H1 eq_refl); discriminate H1|]. cbn [orb forallb]. reflexivity.
Qed.

Lemma feas_unmarked atol rtol samples s cons marks :
  Forall2 (mark_ok atol rtol samples) cons marks -> existsb (fun b => b) marks = false -> In s samples ->
  forallb (fun b => b) (map (fun k => Qc_leb (col_violation k s) (gen_vec_tolerance atol rtol (c_rhs k))) cons)
  = forallb (fun k => satisfied atol rtol k s) (filter is_hard cons).
Proof.
  intros HF He Hs. induction HF as [|k mark cons marks Hk HF IH]; cbn [map forallb filter]; [reflexivity|].
  cbn [existsb] in He. apply orb_false_iff in He. destruct He as [Hmk He]. subst mark.
  rewrite sat_col_eq, (IH He). destruct Hk as [_ H2]. unfold is_hard.
  destruct (is_soft k) eqn:Es; cbn [negb forallb].
  - rewrite H2 by auto. reflexivity.
  - reflexivity.
Qed.

Theorem from_samples_cqm_spec atol rtol m samples garb :
  from_samples_cqm atol rtol m samples garb
  = mkVec (map (spec_energy atol rtol m) samples)
          (map (fun s => map (fun k => satisfied atol rtol k s) (m_cons m)) samples)
          (map (feasible atol rtol m) samples).
Proof.
  unfold from_samples_cqm.
  destruct (vec_loop_spec atol rtol samples (m_cons m) garb true (energy (m_obj m))) as [He Hm].
  f_equal.
  - rewrite He. reflexivity.
  - apply map_ext. intros s. apply map_ext. intros k. apply sat_col_eq.
  - destruct (existsb (fun b => b) (snd (vec_loop atol rtol (m_cons m) garb true samples
                                            (map (energy (m_obj m)) samples)))) eqn:Ex.
    + apply map_ext_in. intros s Hs. unfold feasible. eapply feas_marks; eassumption.
    + apply map_ext_in. intros s Hs. unfold feasible. eapply feas_unmarked; eassumption.
Qed.

(* ---------- the two paths against each other ---------- *)

Lemma paths_agree_satisfied atol rtol m samples garb :
  v_is_satisfied (from_samples_cqm atol rtol m samples garb)
  = map (fun s => map (fun d => Qc_leb (d_violation d) (atol + rtol * qabs (d_rhs d)))
                      (iter_constraint_data m s)) samples.
Proof.
  rewrite from_samples_cqm_spec. cbn [v_is_satisfied]. apply map_ext. intros s.
  rewrite iter_constraint_data_spec, map_map. reflexivity.
Qed.

Lemma paths_agree_feasible atol rtol m samples garb :
  (forall s, In s samples -> no_soft_violated atol rtol m s) ->
  v_is_feasible (from_samples_cqm atol rtol m samples garb)
  = map (fun s => check_feasible m s rtol atol) samples.
Proof.
  intros H. rewrite from_samples_cqm_spec. cbn [v_is_feasible]. apply map_ext_in. intros s Hs.
  symmetry. apply check_feasible_eq_spec_if. apply H. exact Hs.
Qed.

Lemma paths_agree_unconditioned_refuted :
  exists atol rtol m samples garb,
    v_is_feasible (from_samples_cqm atol rtol m samples garb)
    <> map (fun s => check_feasible m s rtol atol) samples.
Proof.
  exists 0, 0, cf_bad_cqm, [sample_of_list []], []. vm_compute. discriminate.
Qed.

(* ---------- the uninitialised memory is read (columns > i at step i) but never observed ---------- *)

Lemma from_samples_cqm_garb_irrelevant atol rtol m samples garb garb' :
  from_samples_cqm atol rtol m samples garb = from_samples_cqm atol rtol m samples garb'.
Proof. rewrite !from_samples_cqm_spec. reflexivity. Qed.

(* ---------- tolerances ---------- *)

Lemma Qc_leb_le a b : Qc_leb a b = true <-> a <= b.
Proof. unfold Qc_leb, Qcle. apply Qle_bool_iff. Qed.

Lemma qabs_nonneg q : 0 <= qabs q.
Proof.
  unfold qabs. destruct (Qc_leb 0 q) eqn:E.
  - apply Qc_leb_le. exact E.
  - assert (H : ~ 0 <= q) by (intro X; apply Qc_leb_le in X; rewrite X in E; discriminate E).
    apply Qcnot_le_lt in H. apply Qclt_le_weak in H.
    apply Qcopp_le_compat in H. replace (- 0) with 0 in H by ring. exact H.
Qed.

Lemma tolerance_mono atol rtol atol' rtol' k :
  atol <= atol' -> rtol <= rtol' -> tolerance atol rtol k <= tolerance atol' rtol' k.
Proof.
  intros Ha Hr. unfold tolerance. apply Qcplus_le_compat; [exact Ha|].
  apply Qcmult_le_compat_r; [exact Hr|apply qabs_nonneg].
Qed.

(* loosening the tolerances never turns a satisfied constraint into a violated one *)
Lemma satisfied_mono atol rtol atol' rtol' k s :
  atol <= atol' -> rtol <= rtol' ->
  satisfied atol rtol k s = true -> satisfied atol' rtol' k s = true.
Proof.
  intros Ha Hr H. unfold satisfied in *. apply Qc_leb_le. apply Qc_leb_le in H.
  eapply Qcle_trans; [exact H|]. apply tolerance_mono; assumption.
Qed.

Lemma forallb_impl {A} (f g : A -> bool) (l : list A) :
  (forall x, f x = true -> g x = true) -> forallb f l = true -> forallb g l = true.
Proof.
  intros H Hf. rewrite forallb_forall in *. intros x Hx. apply H. apply Hf. exact Hx.
Qed.

Lemma feasible_mono atol rtol atol' rtol' m s :
  atol <= atol' -> rtol <= rtol' ->
  feasible atol rtol m s = true -> feasible atol' rtol' m s = true.
Proof.
  intros Ha Hr. unfold feasible. apply forallb_impl. intros k. apply satisfied_mono; assumption.
Qed.

Lemma check_feasible_mono m s atol rtol atol' rtol' :
  atol <= atol' -> rtol <= rtol' ->
  check_feasible m s rtol atol = true -> check_feasible m s rtol' atol' = true.
Proof.
  intros Ha Hr. rewrite !check_feasible_all. apply forallb_impl. intros k. apply satisfied_mono; assumption.
Qed.

(* zero tolerances: satisfied iff the violation is not positive, i.e. the constraint holds exactly *)
Lemma satisfied_zero_tol k s : satisfied 0 0 k s = true <-> violation k s <= 0.
Proof.
  unfold satisfied, tolerance. rewrite Qc_leb_le.
  replace (0 + 0 * qabs (c_rhs k)) with 0 by ring. reflexivity.
Qed.

(* the soft penalties are never negative when the tolerances are not: energy >= objective *)
Lemma soft_penalty_nonneg atol rtol k s :
  0 <= atol -> 0 <= rtol -> (forall w pen, c_soft k = Some (w, pen) -> 0 <= w) ->
  0 <= soft_penalty atol rtol k s.
Proof.
  intros Ha Hr Hw. unfold soft_penalty. destruct (c_soft k) as [[w pen]|]; [|apply Qcle_refl].
  specialize (Hw w pen eq_refl).
  destruct (satisfied atol rtol k s) eqn:Es; [apply Qcle_refl|].
  assert (Hv : 0 <= violation k s).
  { assert (Hn : ~ violation k s <= tolerance atol rtol k)
      by (intro X; apply Qc_leb_le in X; unfold satisfied in Es; rewrite X in Es; discriminate Es).
    apply Qcnot_le_lt in Hn. apply Qclt_le_weak.
    eapply Qcle_lt_trans; [|exact Hn]. unfold tolerance.
    rewrite <- (Qcplus_0_l 0). apply Qcplus_le_compat; [exact Ha|].
    rewrite <- (Qcmult_0_l (qabs (c_rhs k))). apply Qcmult_le_compat_r; [exact Hr|apply qabs_nonneg]. }
  destruct pen.
  - rewrite <- (Qcmult_0_l (violation k s)). apply Qcmult_le_compat_r; assumption.
  - rewrite <- (Qcmult_0_l (violation k s * violation k s)). apply Qcmult_le_compat_r; [exact Hw|].
    rewrite <- (Qcmult_0_l (violation k s)). apply Qcmult_le_compat_r; assumption.
Qed.

(* ---------- labels and order of iter_violations ---------- *)

Lemma map_fst_combine_seq {B} (l : list B) : map fst (combine (seq 0 (length l)) l) = seq 0 (length l).
Proof.
  generalize 0%nat. induction l as [|b l IH]; intros n; cbn [length seq combine map]; [reflexivity|].
  cbn [fst]. rewrite IH. reflexivity.
Qed.

Lemma spec_violation_list_labels m s : map fst (spec_violation_list m s) = seq 0 (length (m_cons m)).
Proof.
  unfold spec_violation_list.
  pose proof (map_fst_combine_seq (map (fun k => violation k s) (m_cons m))) as H.
  rewrite map_length in H. exact H.
Qed.

(* without skip_satisfied: one entry per constraint, in constraint order *)
Lemma iter_violations_labels m s clip :
  map fst (iter_violations m s false clip) = seq 0 (length (m_cons m)).
Proof.
  rewrite iter_violations_spec. destruct clip.
  - rewrite map_map. cbn [fst]. apply spec_violation_list_labels.
  - apply spec_violation_list_labels.
Qed.

(* with skip_satisfied: exactly the constraints with a positive violation, still in constraint order *)
Lemma iter_violations_skip_labels m s clip :
  map fst (iter_violations m s true clip)
  = map fst (filter (fun iv => negb (Qc_leb (snd iv) 0)) (spec_violation_list m s)) /\
  (forall iv, In iv (iter_violations m s true clip) -> In iv (spec_violation_list m s) /\ ~ snd iv <= 0).
Proof.
  rewrite iter_violations_spec. split; [reflexivity|].
  intros iv Hin. apply filter_In in Hin. destruct Hin as [Hin Hp]. split; [exact Hin|].
  intro X. apply Qc_leb_le in X. rewrite X in Hp. discriminate Hp.
Qed.

(* ---------- ExactCQMSolver: the feasibility column ---------- *)

Lemma exact_solver_feasible_column atol rtol m cases garb :
  v_is_feasible (exact_cqm_solver atol rtol m cases garb) = map (feasible atol rtol m) cases.
Proof. unfold exact_cqm_solver. rewrite from_samples_cqm_spec. reflexivity. Qed.

Lemma exact_solver_reports_feasible atol rtol m cases garb :
  In true (v_is_feasible (exact_cqm_solver atol rtol m cases garb))
  <-> exists s, In s cases /\ feasible atol rtol m s = true.
Proof.
  rewrite exact_solver_feasible_column, in_map_iff. split.
  - intros [s [Hs Hin]]. exists s. split; assumption.
  - intros [s [Hin Hs]]. exists s. split; assumption.
Qed.
