(* C16: DQM slack variants, integer encoding / inverter, penalties of a converted CQM *)
From Coq Require Import List ZArith QArith Qcanon Bool Arith Lia.
From Dimod Require Import Base.Util Model.Poly Model.Comb Model.Penalty Proofs.PolyFacts Proofs.CombFacts.
Import ListNotations.

(* ================================================================== *)
(* slack values of DQM variables *)

Lemma choice_sums_cons d r t :
  In t (choice_sums (d :: r)) <-> exists x y, In x d /\ In y (choice_sums r) /\ t = (x + y)%Z.
Proof.
  cbn [choice_sums]. rewrite in_flat_map. split.
  - intros [x [Hx Ht]]. apply in_map_iff in Ht. destruct Ht as [y [Hy Hin]].
    exists x, y. split; [exact Hx|]. split; [exact Hin|]. symmetry. exact Hy.
  - intros [x [y [Hx [Hy Ht]]]]. exists x. split; [exact Hx|]. apply in_map_iff. exists y.
    split; [symmetry; exact Ht|exact Hy].
Qed.

(* two-case variables: the same sums as slack bits *)
Lemma choice_sums_bits cs : forall t,
  In t (choice_sums (map (fun c => [0; c]%Z) cs))
  <-> exists bits, length bits = length cs /\ dot cs bits = t.
Proof.
  induction cs as [|c r IH]; intros t.
  - cbn [map choice_sums In length]. split.
    + intros [H|[]]. exists []. split; [reflexivity|]. cbn [dot]. exact H.
    + intros [bits [Hl Hd]]. left. destruct bits; [|discriminate Hl]. cbn [dot] in Hd. exact Hd.
  - cbn [map]. rewrite choice_sums_cons. split.
    + intros [x [y [Hx [Hy Ht]]]]. apply IH in Hy. destruct Hy as [bits [Hl Hd]].
      cbn [In] in Hx. destruct Hx as [Hx|[Hx|[]]]; subst x.
      * exists (false :: bits). split; [cbn [length]; lia|]. cbn [dot]. lia.
      * exists (true :: bits). split; [cbn [length]; lia|]. cbn [dot]. lia.
    + intros [bits [Hl Hd]]. destruct bits as [|b bits]; [discriminate Hl|].
      cbn [length] in Hl. cbn [dot] in Hd.
      exists (if b then c else 0%Z), (dot r bits). split.
      * destruct b; cbn [In]; tauto.
      * split; [|lia]. apply IH. exists bits. split; [lia|reflexivity].
Qed.

Lemma dqm_log2_exact U : (0 < U)%Z ->
  forall t, In t (choice_sums (dqm_log2_values U)) <-> (0 <= t <= U)%Z.
Proof.
  intros HU t. unfold dqm_log2_values. rewrite choice_sums_bits. apply slack_coeffs_exact. exact HU.
Qed.

Lemma dqm_linear_exact U : (0 <= U)%Z ->
  forall t, In t (choice_sums (dqm_linear_values U)) <-> (0 <= t <= U)%Z.
Proof.
  intros HU t. unfold dqm_linear_values. rewrite choice_sums_cons. cbn [choice_sums In]. split.
  - intros [x [y [Hx [[Hy|[]] Ht]]]]. subst y. apply in_map_iff in Hx. destruct Hx as [n [Hn Hin]].
    apply in_seq in Hin. lia.
  - intros Ht. exists t, 0%Z. split; [|split; [left; reflexivity|lia]].
    apply in_map_iff. exists (Z.to_nat t). split; [lia|]. apply in_seq. lia.
Qed.

(* any slack construction whose values are exactly 0..U gives the gap *)
Lemma exact_cover_gap (vals : list (list Z)) (U A ubc : Z) :
  (forall t, In t (choice_sums vals) <-> (0 <= t <= U)%Z) ->
  ((ubc - U <= A <= ubc)%Z -> exists sl, In sl (choice_sums vals) /\ pen_val A sl ubc = 0%Z) /\
  (~ (ubc - U <= A <= ubc)%Z -> forall sl, In sl (choice_sums vals) -> (1 <= pen_val A sl ubc)%Z) /\
  (forall sl, (0 <= pen_val A sl ubc)%Z).
Proof.
  intros Hc. unfold pen_val. split; [|split].
  - intros HA. exists (ubc - A)%Z. split; [apply Hc; lia|]. nia.
  - intros HA sl Hsl. apply Hc in Hsl. assert (Hd : (A + sl - ubc <> 0)%Z) by lia. nia.
  - intros sl. apply Z.square_nonneg.
Qed.

Lemma dqm_log2_gap U A ubc : (0 < U)%Z ->
  ((ubc - U <= A <= ubc)%Z -> exists sl, In sl (choice_sums (dqm_slack_values Log2 U)) /\ pen_val A sl ubc = 0%Z) /\
  (~ (ubc - U <= A <= ubc)%Z -> forall sl, In sl (choice_sums (dqm_slack_values Log2 U)) -> (1 <= pen_val A sl ubc)%Z) /\
  (forall sl, (0 <= pen_val A sl ubc)%Z).
Proof. intros HU. apply exact_cover_gap. apply dqm_log2_exact. exact HU. Qed.

Lemma dqm_linear_gap U A ubc : (0 < U)%Z ->
  ((ubc - U <= A <= ubc)%Z -> exists sl, In sl (choice_sums (dqm_slack_values Linear U)) /\ pen_val A sl ubc = 0%Z) /\
  (~ (ubc - U <= A <= ubc)%Z -> forall sl, In sl (choice_sums (dqm_slack_values Linear U)) -> (1 <= pen_val A sl ubc)%Z) /\
  (forall sl, (0 <= pen_val A sl ubc)%Z).
Proof. intros HU. apply exact_cover_gap. apply dqm_linear_exact. lia. Qed.

(* log10: the digit ranges over-cover when U + 1 is not a power of ten *)
Lemma dqm_log10_overcovers : exists U t, (0 < U)%Z /\ In t (choice_sums (dqm_log10_values U)) /\ (U < t)%Z.
Proof. exists 15%Z, 19%Z. split; [lia|]. split; [vm_compute; tauto|lia]. Qed.

(* terms [-4; 15], 0 <= sum <= 15: x = (1, 0) violates the constraint, yet slack 19 cancels it *)
Lemma dqm_log10_gap_refuted :
  exists (a : list Z) (const lb ub : Z) (x : list bool) (ubc U sl : Z),
    length x = length a /\
    plan_inequality a const lb ub = Slack ubc (slack_coeffs U) /\
    ~ (lb <= dot a x + const <= ub)%Z /\
    In sl (choice_sums (dqm_slack_values Log10 U)) /\
    pen_val (dot a x) sl ubc = 0%Z.
Proof.
  exists [-4; 15]%Z, 0%Z, 0%Z, 15%Z, [true; false], 15%Z, 15%Z, 19%Z.
  split; [reflexivity|]. split; [vm_compute; reflexivity|]. split; [cbn [dot]; lia|].
  split; [vm_compute; tauto|vm_compute; reflexivity].
Qed.

(* what does hold for log10 (checked by computation for U <= 300): no value of 0..U is missed *)
Definition log10_covers_b (U : Z) : bool :=
  forallb (fun n => existsb (Z.eqb (Z.of_nat n)) (choice_sums (dqm_log10_values U))) (seq 0 (S (Z.to_nat U))).

Lemma dqm_log10_covers_partial U : (1 <= U <= 300)%Z ->
  forall t, (0 <= t <= U)%Z -> In t (choice_sums (dqm_log10_values U)).
Proof.
  intros HU t Ht.
  assert (Hall : forallb (fun n => log10_covers_b (Z.of_nat n)) (seq 1 300) = true) by (vm_compute; reflexivity).
  rewrite forallb_forall in Hall. specialize (Hall (Z.to_nat U)).
  rewrite Z2Nat.id in Hall by lia.
  assert (Hin : In (Z.to_nat U) (seq 1 300)) by (apply in_seq; lia).
  specialize (Hall Hin). unfold log10_covers_b in Hall. rewrite forallb_forall in Hall.
  specialize (Hall (Z.to_nat t)). rewrite Z2Nat.id in Hall by lia.
  assert (Hin2 : In (Z.to_nat t) (seq 0 (S (Z.to_nat U)))) by (apply in_seq; lia).
  specialize (Hall Hin2). apply existsb_exists in Hall. destruct Hall as [y [Hy He]].
  apply Z.eqb_eq in He. subst y. exact Hy.
Qed.

(* ================================================================== *)
(* cqm_to_bqm: substitution of the encoding, inverter *)

Open Scope Qc_scope.

Lemma lin_energy_invert E l s :
  qsum (map (fun p => energy p s) (map (enc_lterm E) l)) = lin_energy l (invert E s).
Proof.
  induction l as [|t r IH]; cbn [map qsum].
  - reflexivity.
  - rewrite IH, lin_energy_cons. unfold enc_lterm, invert. rewrite energy_scale. ring.
Qed.

Lemma quad_energy_invert E (l : list qterm) s :
  respects (cvt BINARY) s -> (forall v, p_quad (E v) = []) ->
  qsum (map (fun p => energy p s) (map (enc_qterm E) l)) = quad_energy l (invert E s).
Proof.
  intros Hr HE. induction l as [|t r IH]; cbn [map qsum].
  - reflexivity.
  - rewrite IH, quad_energy_cons. unfold enc_qterm, invert.
    rewrite energy_scale, pmul_linear_energy by (try apply HE; assumption). ring.
Qed.

(* _qm_to_bqm preserves the energy: E_bqm(s) = E_qm(inverter(s)) for every 0/1 sample *)
Theorem encode_poly_energy E p s :
  respects (cvt BINARY) s -> (forall v, p_quad (E v) = []) ->
  energy (encode_poly E p) s = energy p (invert E s).
Proof.
  intros Hr HE. unfold encode_poly. rewrite !energy_padd, !energy_psum.
  rewrite lin_energy_invert, quad_energy_invert by assumption.
  unfold energy at 1; cbn [p_off p_lin p_quad]. unfold energy, lin_energy at 1, quad_energy at 1.
  cbn [map qsum]. ring.
Qed.

Close Scope Qc_scope.

(* inverter(encode(x)) = x on the Z-level view of one variable *)
Theorem invert_encode_var (k : cvar) (x : Z) :
  in_domain k x -> (forall ub, k = CInt ub -> (2 <= ub)%Z) ->
  invert_var k (encode_var k x) = x.
Proof.
  intros Hd Hub. destruct k as [| |ub]; cbn [in_domain] in Hd; cbn [invert_var encode_var].
  - destruct Hd as [-> | ->]; reflexivity.
  - destruct Hd as [-> | ->]; reflexivity.
  - specialize (Hub ub eq_refl). rewrite binary_encoding_coeffs_eq. apply slack_bits_dot; lia.
Qed.

Theorem invert_var_in_domain (k : cvar) (bits : list bool) :
  (forall ub, k = CInt ub -> (2 <= ub)%Z) ->
  length bits = match k with CInt ub => length (binary_encoding_coeffs ub) | _ => 1%nat end ->
  in_domain k (invert_var k bits).
Proof.
  intros Hub Hl. destruct k as [| |ub]; cbn [in_domain invert_var].
  - destruct bits as [|b [|b' r]]; try discriminate Hl. destruct b; cbn [dot]; lia.
  - destruct bits as [|b [|b' r]]; try discriminate Hl. destruct b; cbn [dot]; lia.
  - apply binary_encoding_range. apply Hub. reflexivity.
Qed.

(* ================================================================== *)
(* penalties of the converted constraints *)

Lemma zcon_gap (k : zcon) (x : list bool) :
  zcon_accepted k -> length x = length (zcon_coeffs k) ->
  (zcon_feasible k x -> exists s, length s = length (zcon_slack k) /\ zcon_penalty k x s = 0%Z) /\
  (~ zcon_feasible k x -> forall s, length s = length (zcon_slack k) -> (1 <= zcon_penalty k x s)%Z) /\
  (forall s, (0 <= zcon_penalty k x s)%Z).
Proof.
  intros Hacc Hlen. destruct k as [a c|a const lb ub];
    cbn [zcon_feasible zcon_slack zcon_penalty zcon_coeffs zcon_accepted] in *.
  - split; [|split].
    + intros Hf. exists []. split; [reflexivity|]. rewrite Hf. reflexivity.
    + intros Hf s _. nia.
    + intros s. apply Z.square_nonneg.
  - pose proof (plan_inequality_sound a const lb ub x Hlen) as Hp. cbv zeta in Hp.
    destruct Hp as [_ Hp].
    destruct (plan_inequality a const lb ub) as [| |ubc|ubc cs].
    + split; [|split].
      * intros _. exists []. split; reflexivity.
      * intros Hf. contradiction.
      * intros s. lia.
    + exfalso. apply Hacc. reflexivity.
    + unfold ineq_penalty. rewrite dot_nil_r. split; [|split].
      * intros Hf. exists []. split; [reflexivity|]. apply Hp in Hf. rewrite Hf. ring.
      * intros Hf s _. assert (dot a x <> ubc) by (intro X; apply Hf; apply Hp; exact X). nia.
      * intros s. apply Z.square_nonneg.
    + destruct Hp as [H1 [H2 H3]]. split; [exact H1|]. split; [exact H2|exact H3].
Qed.

Lemma total_penalty_nonneg ks x : forall ss,
  Forall zcon_accepted ks -> Forall (fun k => length x = length (zcon_coeffs k)) ks ->
  (0 <= total_penalty ks x ss)%Z.
Proof.
  induction ks as [|k kr IH]; intros ss Ha Hl; destruct ss as [|s sr]; cbn [total_penalty]; try lia.
  inversion Ha as [|k0 kr0 Hak Har]; inversion Hl as [|k1 kr1 Hlk Hlr]; subst.
  pose proof (zcon_gap k x Hak Hlk) as [_ [_ Hnn]].
  specialize (Hnn s). specialize (IH sr Har Hlr). lia.
Qed.

(* every constraint satisfied: some slack assignment makes the whole penalty vanish;
   some constraint violated: every slack assignment leaves at least 1 (times the multiplier) *)
Theorem cqm_penalties_gap_partial (ks : list zcon) (x : list bool) :
  Forall zcon_accepted ks -> Forall (fun k => length x = length (zcon_coeffs k)) ks ->
  (Forall (fun k => zcon_feasible k x) ks ->
     exists ss, Forall2 (fun k s => length s = length (zcon_slack k)) ks ss /\ total_penalty ks x ss = 0%Z) /\
  (Exists (fun k => ~ zcon_feasible k x) ks ->
     forall ss, Forall2 (fun k s => length s = length (zcon_slack k)) ks ss -> (1 <= total_penalty ks x ss)%Z).
Proof.
  intros Ha Hl. split.
  - induction ks as [|k kr IH]; intros Hf.
    + exists []. split; [constructor|reflexivity].
    + inversion Ha as [|k0 kr0 Hak Har]; inversion Hl as [|k1 kr1 Hlk Hlr];
        inversion Hf as [|k2 kr2 Hfk Hfr]; subst.
      destruct (IH Har Hlr Hfr) as [sr [Hsr Htr]].
      pose proof (zcon_gap k x Hak Hlk) as [Hz _].
      destruct (Hz Hfk) as [s [Hs Hps]].
      exists (s :: sr). split; [constructor; assumption|]. cbn [total_penalty]. lia.
  - induction ks as [|k kr IH]; intros He ss Hss.
    + inversion He.
    + inversion Ha as [|k0 kr0 Hak Har]; inversion Hl as [|k1 kr1 Hlk Hlr]; subst.
      inversion Hss as [|k' s kr' sr Hs Hsr]; subst.
      cbn [total_penalty].
      pose proof (zcon_gap k x Hak Hlk) as [_ [Hviol Hnn]].
      pose proof (total_penalty_nonneg kr x sr Har Hlr) as Hrest.
      inversion He as [k2 kr2 Hbad|k2 kr2 Hbad]; subst.
      * specialize (Hviol Hbad s Hs). lia.
      * specialize (IH Har Hlr Hbad sr Hsr). specialize (Hnn s). lia.
Qed.

(* ================================================================== *)
(* cross_zero=True *)

Lemma plan_slack_shape a const lb ub ubc cs :
  plan_inequality a const lb ub = Slack ubc cs ->
  ubc = Z.min (sum_pos a) (ub - const) /\
  cs = slack_coeffs (ubc - lbc_of a const lb) /\ (0 < ubc - lbc_of a const lb)%Z.
Proof.
  unfold plan_inequality, lbc_of.
  set (tu := sum_pos a). set (tl := sum_neg a).
  destruct ((tu <=? Z.min tu (ub - const)) && (Z.max tl (lb - const) <=? tl))%Z; [discriminate|].
  destruct (Z.ltb_spec (Z.min tu (ub - const)) (Z.max tl (lb - const))) as [H1|H1]; [discriminate|].
  destruct (Z.eqb_spec (Z.min tu (ub - const) - Z.max tl (lb - const)) 0) as [H2|H2]; [discriminate|].
  intros H. inversion H; subst. split; [reflexivity|]. split; [reflexivity|]. lia.
Qed.

(* with the extra bit of weight lbc > 0 the penalty vanishes exactly on [lbc, ubc] U [0, ubc - lbc] *)
Lemma cross_zero_gap (U lbc ubc A : Z) :
  (0 < U)%Z -> (ubc - lbc = U)%Z ->
  let cs := slack_coeffs U ++ [lbc] in
  let allowed := ((lbc <= A <= ubc) \/ (0 <= A <= U))%Z in
  (allowed -> exists bits, length bits = length cs /\ pen_val A (dot cs bits) ubc = 0%Z) /\
  (~ allowed -> forall bits, length bits = length cs -> (1 <= pen_val A (dot cs bits) ubc)%Z).
Proof.
  intros HU Hd cs allowed. unfold cs, allowed, pen_val. split.
  - intros [HA|HA].
    + destruct (slack_coeffs_cover_ex U HU (ubc - A)%Z ltac:(lia)) as [b [Hl Hb]].
      exists (b ++ [false]). split; [rewrite !app_length, Hl; reflexivity|].
      rewrite dot_app by exact (eq_sym Hl). rewrite Hb. cbn [dot]. nia.
    + destruct (slack_coeffs_cover_ex U HU (U - A)%Z ltac:(lia)) as [b [Hl Hb]].
      exists (b ++ [true]). split; [rewrite !app_length, Hl; reflexivity|].
      rewrite dot_app by exact (eq_sym Hl). rewrite Hb. cbn [dot]. nia.
  - intros Hna bits Hl. rewrite app_length in Hl. cbn [length] in Hl.
    assert (Hsplit : exists b z, bits = b ++ [z] /\ length b = length (slack_coeffs U)).
    { destruct (exists_last (l := bits)) as [b [z Hbz]].
      - intro X. subst bits. cbn [length] in Hl. lia.
      - exists b, z. split; [exact Hbz|]. subst bits. rewrite app_length in Hl. cbn [length] in Hl. lia. }
    destruct Hsplit as [b [z [-> Hlb]]].
    rewrite dot_app by exact (eq_sym Hlb).
    pose proof (slack_coeffs_bounded U HU b Hlb) as Hrange. cbn [dot].
    assert (Hne : (A + (dot (slack_coeffs U) b + ((if z then lbc else 0) + 0)) - ubc <> 0)%Z)
      by (destruct z; lia).
    nia.
Qed.

(* "adds zero to the domain" is not what happens: [1; 7], 5 <= sum <= 8, cross_zero: x = (1, 0) has
   sum 1 (neither in [5, 8] nor 0) and zero penalty with slack bits (0, 1, 1) *)
Lemma cross_zero_admits_only_zero_refuted :
  exists (a : list Z) (const lb ub : Z) (x : list bool) (ubc : Z) (cs : list Z) (s : list bool),
    length x = length a /\
    plan_inequality_cz true a const lb ub = Slack ubc cs /\ length s = length cs /\
    ~ (lb <= dot a x + const <= ub)%Z /\ dot a x <> 0%Z /\
    ineq_penalty a x cs s ubc = 0%Z.
Proof.
  exists [1; 7]%Z, 0%Z, 5%Z, 8%Z, [true; false], 8%Z, [1; 2; 5]%Z, [false; true; true].
  split; [reflexivity|]. split; [vm_compute; reflexivity|]. split; [reflexivity|].
  split; [cbn [dot]; lia|]. split; [cbn [dot]; lia|vm_compute; reflexivity].
Qed.

Lemma plan_inequality_cz_off a const lb ub :
  plan_inequality_cz false a const lb ub = plan_inequality a const lb ub.
Proof. unfold plan_inequality_cz. destruct (plan_inequality a const lb ub); reflexivity. Qed.

Lemma plan_inequality_cz_nonpositive a const lb ub :
  (lbc_of a const lb <= 0)%Z -> plan_inequality_cz true a const lb ub = plan_inequality a const lb ub.
Proof.
  intros H. unfold plan_inequality_cz. destruct (plan_inequality a const lb ub); try reflexivity.
  destruct (Z.ltb_spec 0 (lbc_of a const lb)); [lia|reflexivity].
Qed.

(* cross_zero=True, lb_c > 0: what the added objective admits *)
Theorem cross_zero_plan_sound (a : list Z) (const lb ub : Z) (x : list bool) (ubc : Z) (cs : list Z) :
  length x = length a -> (0 < lbc_of a const lb)%Z ->
  plan_inequality_cz true a const lb ub = Slack ubc cs ->
  let A := dot a x in
  let allowed := ((lb <= A + const <= ub) \/ (0 <= A <= ubc - lbc_of a const lb))%Z in
  (allowed -> exists s, length s = length cs /\ ineq_penalty a x cs s ubc = 0%Z) /\
  (~ allowed -> forall s, length s = length cs -> (1 <= ineq_penalty a x cs s ubc)%Z).
Proof.
  intros Hlen Hpos Hplan A allowed. unfold plan_inequality_cz in Hplan.
  destruct (plan_inequality a const lb ub) as [| |u|u cs0] eqn:Ep; try discriminate Hplan.
  destruct (plan_slack_shape a const lb ub u cs0 Ep) as [Hu [Hcs HU]].
  destruct (Z.ltb_spec 0 (lbc_of a const lb)) as [_|Hc]; [|lia]. cbn [andb] in Hplan.
  inversion Hplan; subst ubc cs. clear Hplan.
  pose proof (dot_sum_bounds a x) as Hb. fold A in Hb.
  set (lbc := lbc_of a const lb) in *.
  assert (Hfe : ((lb <= A + const <= ub) <-> (lbc <= A <= u))%Z).
  { unfold lbc, lbc_of. rewrite Hu. lia. }
  rewrite Hcs.
  destruct (cross_zero_gap (u - lbc) lbc u A HU ltac:(lia)) as [G1 G2].
  unfold allowed. split.
  - intros Had. apply G1. rewrite <- Hfe. exact Had.
  - intros Hna s Hs. apply G2; [|exact Hs]. rewrite <- Hfe. exact Hna.
Qed.

(* ================================================================== *)
(* DQM inequality at the level of DQM samples: the bounds (computed as if all cases were independent
   0/1 variables) are sound - only looser - for one-case-per-variable samples, and the log2 / linear
   slack variables give the gap *)
Theorem dqm_inequality_gap (m : slack_method) (terms : list dterm) (const lb ub : Z) (sel : nat -> nat) :
  m <> Log10 ->
  let a := map snd terms in
  let A := dqm_sum terms sel in
  let feasible := (lb <= A + const <= ub)%Z in
  (sum_neg a <= A <= sum_pos a)%Z /\
  match plan_inequality a const lb ub with
  | Skip => feasible
  | Infeasible => ~ feasible
  | Equality ubc => feasible <-> A = ubc
  | Slack ubc _ =>
      let U := (ubc - lbc_of a const lb)%Z in
      (feasible -> exists sl, In sl (choice_sums (dqm_slack_values m U)) /\ pen_val A sl ubc = 0%Z) /\
      (~ feasible -> forall sl, In sl (choice_sums (dqm_slack_values m U)) -> (1 <= pen_val A sl ubc)%Z)
  end.
Proof.
  intros Hm a A feasible.
  assert (Hlen : length (dqm_bits terms sel) = length a) by (unfold dqm_bits, a; rewrite !map_length; reflexivity).
  pose proof (plan_inequality_sound a const lb ub (dqm_bits terms sel) Hlen) as Hp. cbv zeta in Hp.
  change (dot a (dqm_bits terms sel)) with A in Hp. destruct Hp as [Hb Hp]. split; [exact Hb|].
  destruct (plan_inequality a const lb ub) as [| |ubc|ubc cs] eqn:Ep; try exact Hp.
  destruct (plan_slack_shape a const lb ub ubc cs Ep) as [Hu [_ HU]].
  assert (Hfe : (feasible <-> (ubc - (ubc - lbc_of a const lb) <= A <= ubc))%Z).
  { unfold feasible, lbc_of. clearbody A a. subst ubc. clear -Hb. split; intros H; lia. }
  assert (G : forall U, (0 < U)%Z ->
            ((ubc - U <= A <= ubc)%Z -> exists sl, In sl (choice_sums (dqm_slack_values m U)) /\ pen_val A sl ubc = 0%Z) /\
            (~ (ubc - U <= A <= ubc)%Z -> forall sl, In sl (choice_sums (dqm_slack_values m U)) -> (1 <= pen_val A sl ubc)%Z)).
  { intros U HU0. destruct m.
    - destruct (dqm_log2_gap U A ubc HU0) as [G1 [G2 _]]. split; assumption.
    - exfalso. apply Hm. reflexivity.
    - destruct (dqm_linear_gap U A ubc HU0) as [G1 [G2 _]]. split; assumption. }
  destruct (G _ HU) as [G1 G2]. split.
  - intros Hf. apply G1. apply Hfe. exact Hf.
  - intros Hnf. apply G2. intro X. apply Hnf. apply Hfe. exact X.
Qed.
