(* C17: satisfiability generators - clause energies *)
From Coq Require Import List ZArith QArith Qcanon Bool Arith Lia.
From Dimod Require Import Base.Util Model.Poly Model.Gates Model.Sat Proofs.PolyFacts Proofs.GatesFacts.
Import ListNotations.

(* sum over pairs = ((sum)^2 - sum of squares) / 2, any list of integers *)
Theorem pair_sum_square l : (2 * pair_sum l = zsum l * zsum l - zsumsq l)%Z.
Proof. induction l as [|x r IH]; cbn [pair_sum zsum zsumsq]; [reflexivity|]. nia. Qed.

Lemma zsumsq_pm1 l : Forall (fun x => x = 1 \/ x = -1)%Z l -> zsumsq l = Z.of_nat (length l).
Proof.
  induction 1 as [|x r Hx Hr IH]; [reflexivity|]. cbn [zsumsq length]. rewrite IH.
  destruct Hx as [-> | ->]; lia.
Qed.

(* a clause of k literals +-1: energy ((sum of literals)^2 - k) / 2 *)
Theorem clause_energy_pm1 l :
  Forall (fun x => x = 1 \/ x = -1)%Z l ->
  (2 * pair_sum l = zsum l * zsum l - Z.of_nat (length l))%Z.
Proof. intros H. rewrite pair_sum_square, (zsumsq_pm1 l H). reflexivity. Qed.

Definition lit (b : bool) : Z := if b then 1%Z else (-1)%Z.

(* not-all-equal 3-SAT: -1 exactly when the three literals are not all equal, 3 otherwise *)
Theorem nae3_clause a b c :
  (pair_sum [lit a; lit b; lit c] = -1 <-> ~ (a = b /\ b = c))%Z /\
  ((a = b /\ b = c) -> pair_sum [lit a; lit b; lit c] = 3)%Z.
Proof. destruct a, b, c; cbn; split; try split; intros; try lia; try tauto; try (intros [? ?]; discriminate); try (destruct H; discriminate). Qed.

(* 2-in-4 SAT: -2 exactly when two literals are true and two false, at least 0 otherwise *)
Definition count4 (a b c d : bool) : nat := (b2n a + b2n b + b2n c + b2n d)%nat.
Theorem twoin4_clause a b c d :
  (pair_sum [lit a; lit b; lit c; lit d] = -2 <-> count4 a b c d = 2%nat)%Z /\
  (count4 a b c d <> 2%nat -> 0 <= pair_sum [lit a; lit b; lit c; lit d])%Z.
Proof. destruct a, b, c, d; cbn; split; try split; intros; try lia; try discriminate. Qed.

(* the BQM: sum over clauses of the clause energies *)
Open Scope Qc_scope.

Lemma z2q_zsum_map {A} (f : A -> Z) l : z2q (zsum (map f l)) = qsum (map (fun a => z2q (f a)) l).
Proof. induction l as [|a l IH]; cbn [map zsum qsum]; [apply z2q_0|]. rewrite z2q_add, IH. reflexivity. Qed.

Lemma clause_pairs_energy (c : clause) (s : nat -> Z) :
  quad_energy (map (fun t => (fst (fst t), snd (fst t), z2q (snd t))) (clause_pairs c)) (fun v => z2q (s v))
  = z2q (pair_sum (lits c s)).
Proof.
  induction c as [|[u su] r IH]; cbn [clause_pairs lits map pair_sum]; [unfold quad_energy; cbn; symmetry; apply z2q_0|].
  rewrite map_app, quad_energy_app, IH. fold (lits r s). rewrite z2q_add. f_equal.
  rewrite map_map. cbn [fst snd].
  clear IH. induction r as [|[v sv] r IH]; cbn [map lits zsum].
  - unfold quad_energy. cbn [map qsum]. replace (su * s u * 0)%Z with 0%Z by lia. symmetry. apply z2q_0.
  - rewrite quad_energy_cons, IH. cbn [fst snd]. fold (lits r s).
    replace (su * s u * (sv * s v + zsum (lits r s)))%Z
      with ((su * sv) * s u * s v + su * s u * zsum (lits r s))%Z by lia.
    rewrite z2q_add, !z2q_mul. ring.
Qed.

Theorem sat_poly_energy cs (s : nat -> Z) :
  energy (sat_poly cs) (fun v => z2q (s v)) = z2q (sat_energy cs s).
Proof.
  unfold energy, sat_poly, sat_energy. cbn [p_off p_lin p_quad lin_energy map qsum].
  replace (0 + 0 + quad_energy (map (fun t => (fst (fst t), snd (fst t), z2q (snd t))) (flat_map clause_pairs cs))
                      (fun v => z2q (s v)))
    with (quad_energy (map (fun t => (fst (fst t), snd (fst t), z2q (snd t))) (flat_map clause_pairs cs))
                      (fun v => z2q (s v))) by ring.
  induction cs as [|c r IH]; cbn [flat_map map zsum].
  - unfold quad_energy. cbn. symmetry. apply z2q_0.
  - rewrite map_app, quad_energy_app, IH, clause_pairs_energy, z2q_add. reflexivity.
Qed.
