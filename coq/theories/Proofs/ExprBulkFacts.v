(* Expression::remove_variables (bulk path, Model/ExprBulk.v) is iterated single removal:
   on sorted duplicate-free local indices the compaction by utils::remove_by_index and the
   re-numbering of the interactions give exactly the expression obtained by calling
   Expression::remove_variable once per variable, highest local index first. *)
From Coq Require Import List ZArith QArith Qcanon Bool Arith Lia Sorting.Sorted.
From Dimod Require Import Base.Util Model.Poly Model.Adj Model.AdjMore Model.Expr Model.ExprBulk Model.CQMSpec
  Proofs.PolyFacts Proofs.AdjMoreFacts Proofs.AdjMoreInv Proofs.ExprFacts Proofs.ExprViewFacts Proofs.RefineFacts Proofs.ExprSim.
Import ListNotations.
Local Open Scope nat_scope.

Lemma del_nth_remove_nth : forall {A} i (l : list A), del_nth i l = remove_nth i l.
Proof.
  intros A i l. revert i. induction l as [|x r IH]; intros [|i]; cbn [del_nth remove_nth]; reflexivity.
Qed.

Lemma nth_error_del_nth_lt : forall {A} (l : list A) w i, i < w -> nth_error (del_nth w l) i = nth_error l i.
Proof.
  intros A l. induction l as [|x r IH]; intros w i H; [destruct w; reflexivity|].
  destruct w as [|w']; [lia|]. destruct i as [|i']; cbn [del_nth nth_error]; [reflexivity|]. apply IH. lia.
Qed.

Lemma keep_below : forall {A} (l : list A) rest i, Forall (fun w => i < w) rest ->
  nth_error (fold_right (fun v acc => del_nth v acc) l rest) i = nth_error l i.
Proof.
  intros A l rest i H. induction H as [|w ws Hw Hr IH]; [reflexivity|]. cbn [fold_right].
  rewrite nth_error_del_nth_lt by exact Hw. exact IH.
Qed.

(* ---------- iterated single removal ---------- *)
Lemma iter_fields : forall n e is_, ExprInv n e -> StronglySorted lt is_ -> Forall (fun i => i < length (e_vars e)) is_ ->
  let r := iter_remove is_ e in
  ExprInv n r
  /\ e_vars r = fold_right (fun v acc => del_nth v acc) (e_vars e) is_
  /\ e_lin r = fold_right (fun v acc => del_nth v acc) (e_lin e) is_
  /\ e_quad r = fold_right base_remove_quad (e_quad e) is_
  /\ e_off r = e_off e
  /\ abs_expr r = fold_right (fun i p => Poly.remove_variable (nth i (e_vars e) 0) p) (abs_expr e) is_.
Proof.
  intros n e is_ I Hs. induction Hs as [|i rest Hs IH Hall]; intros Hlt.
  - cbn. split; [exact I|]. repeat split; reflexivity.
  - inversion Hlt as [|? ? Hi Hlt']; subst. destruct (IH Hlt') as [Ir [Ev [El [Eq [Eo Ea]]]]]. clear IH.
    unfold iter_remove in *. cbn [fold_right].
    set (acc := fold_right (fun i acc => m_remove_variable (nth i (e_vars e) 0) acc) e rest) in *.
    set (v := nth i (e_vars e) 0).
    assert (Hv : nth_error (e_vars acc) i = Some v).
    { rewrite Ev, keep_below by exact Hall. apply nth_error_nth'. exact Hi. }
    assert (Fv : idx_find v (e_idx acc) = Some i).
    { rewrite (inv_idx _ _ Ir v). apply nth_index_of; [exact (inv_nodup _ _ Ir)|exact Hv]. }
    split; [apply remove_variable_inv; exact Ir|].
    split; [|split; [|split; [|split]]].
    + unfold m_remove_variable. rewrite Fv. cbn [e_vars]. rewrite Ev. reflexivity.
    + unfold m_remove_variable. rewrite Fv. cbn [e_lin]. unfold base_remove_lin. rewrite El. reflexivity.
    + unfold m_remove_variable. rewrite Fv. cbn [e_quad]. rewrite Eq. reflexivity.
    + unfold m_remove_variable. rewrite Fv. cbn [e_off]. exact Eo.
    + rewrite (remove_variable_abs n acc v Ir), Ea. reflexivity.
Qed.

(* ---------- the re-numbering of the interactions ---------- *)
Lemma StronglySorted_filter : forall (f : nat -> bool) l, StronglySorted lt l -> StronglySorted lt (filter f l).
Proof.
  intros f l H. induction H as [|a r Hr IH Hall]; [constructor|]. cbn [filter]. destruct (f a); [|exact IH].
  constructor; [exact IH|]. apply Forall_forall. intros x Hx. apply filter_In in Hx.
  rewrite Forall_forall in Hall. apply Hall. exact (proj1 Hx).
Qed.

Lemma count_below_bound : forall rest i a, StronglySorted lt rest -> Forall (fun w => i < w) rest -> i < a ->
  length (filter (fun w => w <? a) rest) <= a - i - 1.
Proof.
  intros rest i a Hs Hall Ha. apply sorted_above_count.
  - apply StronglySorted_filter. exact Hs.
  - apply Forall_forall. intros x Hx. apply filter_In in Hx. destruct Hx as [Hin Hlt].
    rewrite Forall_forall in Hall. apply Nat.ltb_lt in Hlt. split; [apply Hall; exact Hin|exact Hlt].
Qed.

Lemma count_below_zero : forall rest i a, Forall (fun w => i < w) rest -> a <= S i ->
  filter (fun w => w <? a) rest = [].
Proof.
  intros rest i a Hall Ha. induction Hall as [|w ws Hw Hr IH]; [reflexivity|]. cbn [filter].
  destruct (Nat.ltb_spec w a); [lia|exact IH].
Qed.

Lemma relocal_cons_facts : forall rest i a, StronglySorted lt rest -> Forall (fun w => i < w) rest ->
  (relocal rest a =? i) = (a =? i) /\ (a <> i -> shift i (relocal rest a) = relocal (i :: rest) a).
Proof.
  intros rest i a Hs Hall. unfold relocal. cbn [filter].
  destruct (Nat.ltb_spec i a) as [Hia|Hia].
  - pose proof (count_below_bound rest i a Hs Hall Hia) as B. split.
    + destruct (Nat.eqb_spec a i); [lia|]. apply Nat.eqb_neq. lia.
    + intros _. cbn [length]. unfold shift. destruct (Nat.ltb_spec i (a - length (filter (fun w => w <? a) rest))); lia.
  - rewrite (count_below_zero rest i a Hall) by lia. cbn [length]. rewrite Nat.sub_0_r. split; [reflexivity|].
    intros Hne. unfold shift. destruct (Nat.ltb_spec i a); [lia|reflexivity].
Qed.

Definition bulk_quad (is_ : list nat) (quad : list lqterm) : list lqterm :=
  map (fun t => (relocal is_ (fst (fst t)), relocal is_ (snd (fst t)), snd t))
      (filter (fun t => negb (existsb (fun i => lmentions i t) is_)) quad).

Lemma filter_filter : forall {A} (f g : A -> bool) l, filter (fun x => f x && g x) l = filter f (filter g l).
Proof.
  intros A f g l. induction l as [|a r IH]; [reflexivity|]. cbn [filter]. destruct (g a); cbn [filter].
  - destruct (f a); cbn [andb]; rewrite IH; reflexivity.
  - rewrite andb_false_r. exact IH.
Qed.

Lemma bulk_quad_iterated : forall is_ quad, StronglySorted lt is_ ->
  bulk_quad is_ quad = fold_right base_remove_quad quad is_.
Proof.
  intros is_ quad Hs. induction Hs as [|i rest Hs IH Hall].
  - cbn [fold_right]. unfold bulk_quad. cbn [existsb negb]. rewrite filter_all by reflexivity.
    rewrite <- (map_id quad) at 2. apply map_ext. intros [[a b] w]. unfold relocal. cbn. rewrite !Nat.sub_0_r. reflexivity.
  - cbn [fold_right]. rewrite <- IH. unfold bulk_quad, base_remove_quad.
    rewrite filter_map_comm, map_map.
    assert (F : filter (fun t : lqterm => negb (existsb (fun j => lmentions j t) (i :: rest))) quad
                = filter (fun t => negb (lmentions i t)) (filter (fun t => negb (existsb (fun j => lmentions j t) rest)) quad)).
    { rewrite <- filter_filter. apply filter_ext. intros t. cbn [existsb]. apply negb_orb. }
    rewrite F. apply map_filter_agree.
    + intros [[a b] w] _. unfold lmentions. cbn [fst snd].
      rewrite (proj1 (relocal_cons_facts rest i a Hs Hall)), (proj1 (relocal_cons_facts rest i b Hs Hall)). reflexivity.
    + intros [[a b] w] _ E. unfold lmentions in E. cbn [fst snd] in *. apply negb_true_iff in E. apply orb_false_iff in E.
      destruct E as [E1 E2]. apply Nat.eqb_neq in E1. apply Nat.eqb_neq in E2.
      rewrite (proj2 (relocal_cons_facts rest i a Hs Hall) E1), (proj2 (relocal_cons_facts rest i b Hs Hall) E2). reflexivity.
Qed.

(* ---------- bulk removal = iterated single removal ---------- *)
Theorem bulk_is_iterated : forall n e is_, ExprInv n e -> StronglySorted lt is_ ->
  Forall (fun i => i < length (e_vars e)) is_ ->
  let b := bulk_remove_local is_ e in let r := iter_remove is_ e in
  e_vars b = e_vars r /\ e_lin b = e_lin r /\ e_quad b = e_quad r /\ e_off b = e_off r
  /\ ExprInv n b /\ ExprInv n r /\ abs_expr b = abs_expr r
  /\ abs_expr b = fold_right (fun i p => Poly.remove_variable (nth i (e_vars e) 0) p) (abs_expr e) is_.
Proof.
  intros n e is_ I Hs Hlt b r. destruct (iter_fields n e is_ I Hs Hlt) as [Ir [Ev [El [Eq [Eo Ea]]]]]. fold r in Ir, Ev, El, Eq, Eo, Ea.
  assert (Bv : e_vars b = e_vars r) by (unfold b, bulk_remove_local; cbn [e_vars]; rewrite Ev; apply remove_by_index_iterated; exact Hs).
  assert (Bl : e_lin b = e_lin r) by (unfold b, bulk_remove_local; cbn [e_lin]; rewrite El; apply remove_by_index_iterated; exact Hs).
  assert (Bq : e_quad b = e_quad r).
  { unfold b, bulk_remove_local. cbn [e_quad]. rewrite Eq. exact (bulk_quad_iterated is_ (e_quad e) Hs). }
  assert (Bo : e_off b = e_off r) by (rewrite Eo; reflexivity).
  assert (Ab : abs_expr b = abs_expr r) by (unfold abs_expr; rewrite Bv, Bl, Bq, Bo; reflexivity).
  assert (Ib : ExprInv n b).
  { destruct Ir as [ND LT LEN QD IDX]. constructor.
    - rewrite Bv. exact ND.
    - rewrite Bv. exact LT.
    - rewrite Bv, Bl. exact LEN.
    - rewrite Bv, Bq. exact QD.
    - unfold b, bulk_remove_local. cbn [e_idx e_vars]. apply rebuild_idx_inv.
      change (AdjMore.remove_by_index 0 (e_vars e) is_) with (e_vars b). rewrite Bv. exact ND. }
  assert (Af : abs_expr b = fold_right (fun i p => Poly.remove_variable (nth i (e_vars e) 0) p) (abs_expr e) is_)
    by (rewrite Ab; exact Ea).
  exact (conj Bv (conj Bl (conj Bq (conj Bo (conj Ib (conj Ir (conj Ab Af))))))).
Qed.

(* ---------- from the model variables given to remove_variables ---------- *)
Lemma lookup_all_In : forall n e vs i, ExprInv n e ->
  In i (lookup_all vs e) <-> exists v, In v vs /\ index_of v (e_vars e) = Some i.
Proof.
  intros n e vs i I. unfold lookup_all. rewrite in_flat_map. split.
  - intros [v [Hv Hi]]. rewrite (inv_idx _ _ I v) in Hi. destruct (index_of v (e_vars e)) as [j|] eqn:F; [|destruct Hi].
    destruct Hi as [<-|[]]. exists v. split; assumption.
  - intros [v [Hv F]]. exists v. split; [exact Hv|]. rewrite (inv_idx _ _ I v), F. left. reflexivity.
Qed.

Lemma lookup_all_NoDup : forall n e vs, ExprInv n e -> NoDup vs -> NoDup (lookup_all vs e).
Proof.
  intros n e vs I ND. induction ND as [|v r Hn NDr IH]; [constructor|].
  unfold lookup_all in *. cbn [flat_map]. rewrite (inv_idx _ _ I v).
  destruct (index_of v (e_vars e)) as [i|] eqn:F; [|exact IH]. cbn [app]. constructor; [|exact IH].
  intros Hin. apply (proj1 (lookup_all_In n e r i I)) in Hin. destruct Hin as [v' [Hv' F']].
  apply index_of_nth in F. apply index_of_nth in F'. assert (v = v') by congruence. subst. contradiction.
Qed.

Theorem remove_variables_is_iterated : forall n e vs, ExprInv n e -> NoDup vs ->
  let is_ := AdjMore.sort_nat (lookup_all vs e) in
  StronglySorted lt is_
  /\ ExprInv n (m_remove_variables_code vs e)
  /\ abs_expr (m_remove_variables_code vs e) = abs_expr (iter_remove is_ e)
  /\ e_vars (m_remove_variables_code vs e) = e_vars (iter_remove is_ e)
  /\ e_lin (m_remove_variables_code vs e) = e_lin (iter_remove is_ e)
  /\ e_quad (m_remove_variables_code vs e) = e_quad (iter_remove is_ e).
Proof.
  intros n e vs I ND is_.
  assert (Hs : StronglySorted lt is_) by (apply sort_nat_sorted; apply (lookup_all_NoDup n); assumption).
  assert (Hlt : Forall (fun i => i < length (e_vars e)) is_).
  { apply Forall_forall. intros i Hi. unfold is_ in Hi. apply (proj1 (sort_nat_In _ _)) in Hi. apply (proj1 (lookup_all_In n e vs i I)) in Hi.
    destruct Hi as [v [_ F]]. eapply index_of_lt. exact F. }
  destruct (bulk_is_iterated n e is_ I Hs Hlt) as [Bv [Bl [Bq [Bo [Ib [Ir [Ab _]]]]]]].
  unfold m_remove_variables_code. fold is_. exact (conj Hs (conj Ib (conj Ab (conj Bv (conj Bl Bq))))).
Qed.
