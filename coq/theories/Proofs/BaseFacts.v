(* C15: make_quadratic with a supplied base model *)
From Coq Require Import List ZArith QArith Qcanon Bool Arith Lia.
From Dimod Require Import Base.Util Model.Poly Model.HPoly Model.Reduce Proofs.PolyFacts Proofs.HPolyFacts
  Proofs.NormaliseFacts.
Import ListNotations.
Open Scope Qc_scope.

Lemma energy_ext_on p (s1 s2 : sample) :
  (forall v, In v (poly_vars p) -> s1 v = s2 v) -> energy p s1 = energy p s2.
Proof.
  intros H. unfold energy. f_equal; [f_equal|].
  - unfold lin_energy. f_equal. apply map_ext_in. intros t Ht. unfold lterm_val. rewrite H; [reflexivity|].
    unfold poly_vars. apply In_dedup. apply in_or_app. left. apply in_map. exact Ht.
  - unfold quad_energy. f_equal. apply map_ext_in. intros t Ht. unfold qterm_val.
    rewrite (H (fst (fst t))), (H (snd (fst t))); [reflexivity| |];
      unfold poly_vars; apply In_dedup; apply in_or_app; right; apply in_flat_map; exists t;
      (split; [exact Ht|cbn; tauto]).
Qed.

Lemma substitute_all_energy p m c (s : sample) :
  energy (substitute_many (poly_vars p) m c p) s = energy p (fun w => m * s w + c).
Proof.
  rewrite substitute_many_energy by (unfold poly_vars; apply NoDup_dedup).
  apply energy_ext_on. intros v Hv.
  assert (E : existsb (Nat.eqb v) (poly_vars p) = true).
  { apply existsb_exists. exists v. split; [exact Hv|apply Nat.eqb_refl]. }
  rewrite E. reflexivity.
Qed.

(* change_vartype of the supplied model: same energy at corresponding assignments *)
Theorem convert_base_energy vt bvt p (s : sample) :
  energy (convert_base vt bvt p) s =
  energy p (match bvt, vt with
            | SPIN, BINARY => fun w => two * s w + - (1)
            | BINARY, SPIN => fun w => half * s w + half
            | _, _ => s
            end).
Proof. destruct bvt, vt; cbn [convert_base]; try reflexivity; apply substitute_all_energy. Qed.

Theorem with_base_energy vt base q (s : sample) :
  energy (with_base vt base q) s =
  match base with
  | None => energy q s
  | Some (bvt, p) => energy (convert_base vt bvt p) s + energy q s
  end.
Proof. destruct base as [[bvt p]|]; cbn [with_base]; [apply energy_padd|reflexivity]. Qed.
