(* C16: the boolean side conditions evaluated by the check imply the hypotheses of the theorems *)
From Coq Require Import List ZArith QArith Qcanon Bool Arith Lia.
From Dimod Require Import Base.Util Model.Poly Model.Comb Model.Penalty Model.CqmBqm Model.ChkC16
  Proofs.CqmBqmFacts.
Import ListNotations.

Lemma nodupb_sound l : nodupb l = true -> NoDup l.
Proof.
  induction l as [|x r IH]; cbn [nodupb]; intros H; [constructor|].
  apply andb_true_iff in H. destruct H as [Hx Hr]. constructor; [|apply IH; exact Hr].
  intro Hin. apply negb_true_iff in Hx.
  assert (X : existsb (Nat.eqb x) r = true) by (apply existsb_exists; exists x; split; [exact Hin|apply Nat.eqb_refl]).
  rewrite X in Hx. discriminate Hx.
Qed.

Lemma separated_b_sound vars tab ks :
  separated_b vars (enc_of tab) ks = true ->
  (forall e, In e tab -> In (fst e) (map fst vars)) ->
  slack_separated (enc_of tab) ks.
Proof.
  unfold separated_b. intros H Htab. apply andb_true_iff in H. destruct H as [Hnd Hav].
  split; [apply nodupb_sound; exact Hnd|].
  intros v t Ht Hin. unfold enc_of in Ht.
  destruct (find (fun e => (fst e =? v)%nat) tab) as [e|] eqn:Ef; [|destruct Ht].
  destruct (find_some _ _ Ef) as [He Hv]. apply Nat.eqb_eq in Hv.
  specialize (Htab e He). apply in_map_iff in Htab. destruct Htab as [vk [Hvk Hin_vk]].
  rewrite forallb_forall in Hav. specialize (Hav vk Hin_vk).
  rewrite Hvk, Hv in Hav. unfold enc_of in Hav. rewrite Ef in Hav.
  rewrite forallb_forall in Hav. specialize (Hav t Ht). apply negb_true_iff in Hav.
  assert (X : existsb (Nat.eqb (fst t)) (slack_labels ks) = true)
    by (apply existsb_exists; exists (fst t); split; [exact Hin|apply Nat.eqb_refl]).
  rewrite X in Hav. discriminate Hav.
Qed.
