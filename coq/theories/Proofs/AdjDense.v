(* The energy of a well formed adjacency model as a dense double sum over
   indices, and the algebra of fixing / substituting a variable on that form. *)
From Coq Require Import List ZArith QArith Qcanon Bool Arith Lia Sorted.
From Dimod Require Import Base.Util Model.Poly Model.Adj Proofs.PolyFacts
  Proofs.AdjNb Proofs.AdjInv Proofs.AdjRW Proofs.AdjEnergy.
Import ListNotations.
Local Open Scope nat_scope.

(* ---------- sums over index ranges ---------- *)
Lemma qsum_map_scale {A} (k : Qc) (f : A -> Qc) l :
  qsum (map (fun u => (k * f u)%Qc) l) = (k * qsum (map f l))%Qc.
Proof. induction l as [|x l IH]; cbn [map qsum]; [ring|rewrite IH; ring]. Qed.

Lemma qsum_map_zero {A} (l : list A) : qsum (map (fun _ => 0%Qc) l) = 0%Qc.
Proof. induction l as [|x l IH]; cbn [map qsum]; [reflexivity|rewrite IH; ring]. Qed.

Lemma qsum_map_lin4 {A} (a : Qc) (f1 f2 f3 f4 : A -> Qc) l :
  qsum (map (fun u => (f1 u + a * f2 u + f3 u - f4 u)%Qc) l) =
  (qsum (map f1 l) + a * qsum (map f2 l) + qsum (map f3 l) - qsum (map f4 l))%Qc.
Proof. induction l as [|x l IH]; cbn [map qsum]; [ring|rewrite IH; ring]. Qed.

Lemma seq_split v N : v < N -> seq 0 N = seq 0 v ++ v :: seq (S v) (N - S v).
Proof.
  intros H. replace N with (v + S (N - S v)) at 1 by lia. rewrite seq_app. reflexivity.
Qed.

Lemma qsum_single (f : nat -> Qc) k N :
  k < N -> qsum (map (fun w => if w =? k then f w else 0%Qc) (seq 0 N)) = f k.
Proof.
  intros Hk. rewrite (seq_split k N Hk), map_app, qsum_app. cbn [map qsum].
  rewrite Nat.eqb_refl.
  rewrite (qsum_map_ext_in _ (fun _ => 0%Qc) (seq 0 k)), qsum_map_zero.
  - rewrite (qsum_map_ext_in _ (fun _ => 0%Qc) (seq (S k) _)), qsum_map_zero; [ring|].
    intros w Hw. apply in_seq in Hw. destruct (Nat.eqb_spec w k); [lia|reflexivity].
  - intros w Hw. apply in_seq in Hw. destruct (Nat.eqb_spec w k); [lia|reflexivity].
Qed.

Lemma map_skip_seq v N : v < N -> map (skip v) (seq 0 (N - 1)) = seq 0 v ++ seq (S v) (N - S v).
Proof.
  intros H. replace (N - 1) with (v + (N - S v)) by lia. rewrite seq_app, map_app. f_equal.
  - rewrite <- (map_id (seq 0 v)) at 2. apply map_ext_in. intros x Hx. apply in_seq in Hx.
    unfold skip. destruct (Nat.ltb_spec x v); [reflexivity|lia].
  - rewrite <- seq_shift. apply map_ext_in. intros x Hx. apply in_seq in Hx.
    unfold skip. destruct (Nat.ltb_spec x v); [lia|reflexivity].
Qed.

Lemma qsum_skip (f : nat -> Qc) v N :
  v < N ->
  qsum (map f (seq 0 N)) = (f v + qsum (map (fun x => f (skip v x)) (seq 0 (N - 1))))%Qc.
Proof.
  intros H. rewrite <- (map_map (skip v) f), (map_skip_seq v N H), (seq_split v N H).
  rewrite !map_app, !qsum_app. cbn [map qsum]. ring.
Qed.

(* ---------- a sorted neighbourhood as a dense vector ---------- *)
Lemma odef_get_cons w k b r :
  ksorted ((k, b) :: r) ->
  odef (nb_get w ((k, b) :: r)) = if w =? k then b else odef (nb_get w r).
Proof.
  intros Hs. apply ksorted_cons in Hs. destruct Hs as [Hall _]. cbn [nb_get].
  destruct (Nat.ltb_spec k w) as [L|L].
  - destruct (Nat.eqb_spec w k); [lia|reflexivity].
  - rewrite (nb_get_lt_all w k r Hall L). rewrite (Nat.eqb_sym w k).
    destruct (k =? w); reflexivity.
Qed.

Lemma nb_sum_dense (c : nat -> Qc) n N :
  ksorted n -> (forall e, In e n -> fst e < N) ->
  qsum (map (fun e => (snd e * c (fst e))%Qc) n) =
  qsum (map (fun w => (odef (nb_get w n) * c w)%Qc) (seq 0 N)).
Proof.
  induction n as [|[k b] r IH]; intros Hs Hb.
  - cbn [map qsum nb_get odef]. rewrite (qsum_map_ext_in _ (fun _ => 0%Qc)); [symmetry; apply qsum_map_zero|].
    intros w _. ring.
  - assert (Hk : k < N) by (apply (Hb (k, b)); left; reflexivity).
    cbn [map qsum fst snd]. rewrite IH; [|eapply ksorted_tail, Hs|intros e He; apply Hb; right; exact He].
    rewrite <- (qsum_single (fun w => (b * c w)%Qc) k N Hk).
    rewrite <- qsum_map_add. apply qsum_map_ext_in. intros w _.
    rewrite odef_get_cons by exact Hs. destruct (Nat.eqb_spec w k) as [->|Nw]; [|ring].
    apply ksorted_cons in Hs. destruct Hs as [Hall _].
    rewrite (nb_get_lt_all k k r Hall) by lia. cbn [odef]. ring.
Qed.

Lemma qsum_filter_ind (p : nat -> bool) (c : nat -> Qc) (n : nbh) :
  qsum (map (fun e => (snd e * c (fst e))%Qc) (filter (fun e => p (fst e)) n)) =
  qsum (map (fun e => (snd e * (if p (fst e) then c (fst e) else 0))%Qc) n).
Proof.
  induction n as [|e r IH]; [reflexivity|]. cbn [filter map qsum].
  destruct (p (fst e)); cbn [map qsum]; rewrite IH; ring.
Qed.

Lemma walk_energy_dense s u n N :
  ksorted n -> (forall e, In e n -> fst e < N) ->
  walk_energy s u n =
  qsum (map (fun w => if w <=? u then (odef (nb_get w n) * s u * s w)%Qc else 0%Qc) (seq 0 N)).
Proof.
  intros Hs Hb. rewrite walk_energy_sum by exact Hs.
  rewrite (qsum_map_ext_in _ (fun e => (snd e * (s u * s (fst e)))%Qc)) by (intros; ring).
  rewrite (qsum_filter_ind (fun w => w <=? u) (fun w => (s u * s w)%Qc)).
  rewrite (nb_sum_dense (fun w => if w <=? u then (s u * s w)%Qc else 0%Qc) n N Hs Hb).
  apply qsum_map_ext_in. intros w _. destruct (w <=? u); ring.
Qed.

(* ---------- dense energy ---------- *)
Definition dense (N : nat) (o : Qc) (l : nat -> Qc) (q : nat -> nat -> Qc) (s : nat -> Qc) : Qc :=
  (o + qsum (map (fun u =>
        l u * s u +
        qsum (map (fun w => if (w <=? u)%nat then q u w * s u * s w else 0) (seq 0 N)))
      (seq 0 N)))%Qc.

Theorem energy_dense m s :
  Inv m -> energy_adj m s = dense (nvars m) (off m) (linear m) (quadratic m) s.
Proof.
  intros HI. unfold energy_adj, dense. f_equal. apply qsum_map_ext_in. intros u _.
  unfold linear. f_equal. unfold quadratic. apply walk_energy_dense.
  - apply Inv_sorted, HI.
  - intros [w b] He. cbn [fst]. apply (nb_get_In_2 w _ b (Inv_sorted m u HI)) in He.
    apply (Inv_bound m u w b HI He).
Qed.

Lemma dense_ext N o l l' q q' s s' :
  (forall u, u < N -> l u = l' u) ->
  (forall u w, u < N -> w < N -> q u w = q' u w) ->
  (forall u, u < N -> s u = s' u) ->
  dense N o l q s = dense N o l' q' s'.
Proof.
  intros Hl Hq Hs. unfold dense. f_equal. apply qsum_map_ext_in. intros u Hu. apply in_seq in Hu.
  rewrite Hl, Hs by lia. f_equal. apply qsum_map_ext_in. intros w Hw. apply in_seq in Hw.
  rewrite Hq, (Hs w) by lia. reflexivity.
Qed.

(* ---------- fixing a variable on the dense form ---------- *)
Definition ext_sample (v : nat) (a : Qc) (s : nat -> Qc) : nat -> Qc :=
  fun i => if i <? v then s i else if i =? v then a else s (i - 1).

Lemma ext_sample_skip v a s x : ext_sample v a s (skip v x) = s x.
Proof.
  unfold ext_sample, skip. destruct (Nat.ltb_spec x v) as [L|L].
  - destruct (Nat.ltb_spec x v); [reflexivity|lia].
  - destruct (Nat.ltb_spec (S x) v); [lia|]. destruct (Nat.eqb_spec (S x) v); [lia|].
    f_equal. lia.
Qed.

Lemma ext_sample_at v a s : ext_sample v a s v = a.
Proof. unfold ext_sample. rewrite Nat.ltb_irrefl, Nat.eqb_refl. reflexivity. Qed.

Lemma skip_le v x y : (skip v y <=? skip v x) = (y <=? x).
Proof.
  unfold skip. destruct (Nat.ltb_spec x v); destruct (Nat.ltb_spec y v);
    apply Bool.eq_iff_eq_true; rewrite !Nat.leb_le; lia.
Qed.

Lemma dense_fix N o l q v a s :
  v < N -> (forall u w, q u w = q w u) ->
  dense (N - 1) (o + a * (l v + a * q v v))
        (fun x => l (skip v x) + a * q v (skip v x))%Qc
        (fun x y => q (skip v x) (skip v y)) s
  = dense N o l q (ext_sample v a s).
Proof.
  intros Hv Hsym. set (s' := ext_sample v a s).
  pose (H := fun u w => if (w <=? u)%nat then (q u w * s' u * s' w)%Qc else 0%Qc).
  pose (R := fun u => qsum (map (H u) (seq 0 N))).
  (* left side, reindexed over the full range *)
  assert (EL : dense (N - 1) (o + a * (l v + a * q v v))
                     (fun x => l (skip v x) + a * q v (skip v x))%Qc
                     (fun x y => q (skip v x) (skip v y)) s
               = (o + a * (l v + a * q v v)
                  + qsum (map (fun x => (fun u => l u * s' u + a * (q v u * s' u) + R u - H u v)%Qc (skip v x))
                              (seq 0 (N - 1))))%Qc).
  { unfold dense. f_equal. apply qsum_map_ext_in. intros x _.
    unfold R. rewrite (qsum_skip (H (skip v x)) v N Hv).
    rewrite (qsum_map_ext_in (fun y => H (skip v x) (skip v y))
               (fun y => if (y <=? x)%nat then (q (skip v x) (skip v y) * s x * s y)%Qc else 0%Qc)).
    - unfold s'. rewrite ext_sample_skip. ring.
    - intros y _. unfold H, s'. rewrite skip_le, !ext_sample_skip. reflexivity. }
  rewrite EL. clear EL.
  pose proof (qsum_skip (fun u => l u * s' u + a * (q v u * s' u) + R u - H u v)%Qc v N Hv) as ES.
  cbv beta in ES.
  assert (EQ : (qsum (map (fun x => (fun u => l u * s' u + a * (q v u * s' u) + R u - H u v)%Qc (skip v x))
                          (seq 0 (N - 1)))
               = qsum (map (fun u => l u * s' u + a * (q v u * s' u) + R u - H u v) (seq 0 N))
                 - (l v * s' v + a * (q v v * s' v) + R v - H v v))%Qc).
  { rewrite ES. ring. }
  rewrite EQ. clear EQ ES.
  rewrite (qsum_map_lin4 a (fun u => (l u * s' u)%Qc) (fun u => (q v u * s' u)%Qc) R (fun u => H u v)).
  (* the column of v plus the row of v is the full neighbourhood sum *)
  assert (ED : (qsum (map (fun u => H u v) (seq 0 N)) + R v
                = a * qsum (map (fun u => (q v u * s' u)%Qc) (seq 0 N)) + q v v * a * a)%Qc).
  { unfold R. rewrite <- qsum_map_add.
    rewrite <- (qsum_single (fun u => (q v u * a * a)%Qc) v N Hv).
    rewrite <- qsum_map_scale, <- qsum_map_add. apply qsum_map_ext_in. intros u _.
    unfold H. unfold s' at 2 3. rewrite !ext_sample_at. rewrite (Hsym u v).
    destruct (Nat.leb_spec v u); destruct (Nat.leb_spec u v); destruct (Nat.eqb_spec u v);
      try lia; subst; unfold s'; rewrite ?ext_sample_at; ring. }
  unfold dense. rewrite (qsum_map_add (fun u => (l u * s' u)%Qc) R).
  assert (Ea : s' v = a) by apply ext_sample_at. rewrite Ea.
  assert (Hvv : H v v = (q v v * a * a)%Qc).
  { unfold H. rewrite Nat.leb_refl, Ea. reflexivity. }
  rewrite Hvv.
  set (A := qsum (map (fun u => (l u * s' u)%Qc) (seq 0 N))) in *.
  set (B := qsum (map (fun u => (q v u * s' u)%Qc) (seq 0 N))) in *.
  set (C := qsum (map R (seq 0 N))) in *.
  set (D := qsum (map (fun u => H u v) (seq 0 N))) in *.
  assert (ED' : D = (a * B + q v v * a * a - R v)%Qc) by (rewrite <- ED; ring).
  rewrite ED'. ring.
Qed.

(* ---------- fix_variable on the model ---------- *)
Lemma fold_add_linear_nth (l : nbh) a m u :
  ksorted l -> u < length (lin m) ->
  nth u (lin (fold_left (fun acc e => add_linear (fst e) (snd e * a)%Qc acc) l m)) 0%Qc
  = (nth u (lin m) 0 + odef (nb_get u l) * a)%Qc.
Proof.
  revert m. induction l as [|[w b] r IH]; intros m Hs Hu.
  - cbn [fold_left nb_get odef]. ring.
  - cbn [fold_left fst snd]. rewrite IH; [|eapply ksorted_tail, Hs|cbn [add_linear lin]; rewrite upd_nth_length; exact Hu].
    rewrite odef_get_cons by exact Hs. cbn [add_linear lin].
    destruct (Nat.eqb_spec u w) as [->|Nu].
    + rewrite nth_upd_nth_same by exact Hu. apply ksorted_cons in Hs. destruct Hs as [Hall _].
      rewrite (nb_get_lt_all w w r Hall) by lia. cbn [odef]. ring.
    + rewrite nth_upd_nth_other by exact Nu. reflexivity.
Qed.

Theorem energy_fix_variable_adj m v a s :
  Inv m -> v < nvars m ->
  energy_adj (fix_variable v a m) s = energy_adj m (ext_sample v a s).
Proof.
  intros HI Hv.
  rewrite (energy_dense _ _ (Inv_fix_variable v a m HI Hv)), (energy_dense m _ HI).
  rewrite <- (dense_fix (nvars m) (off m) (linear m) (quadratic m) v a s Hv
                (fun u w => quadratic_sym m u w HI)).
  unfold fix_variable.
  destruct (fold_add_linear_shape (nb m v) a m) as [I1 [I2 [I3 I4]]].
  pose proof (fun u => fold_add_linear_nth (nb m v) a m u (Inv_sorted m v HI)) as IL.
  set (m1 := fold_left _ _ _) in *.
  assert (EN : nvars (remove_variable v (Adj.add_offset (a * nth v (lin m1) 0%Qc)%Qc m1)) = nvars m - 1).
  { unfold nvars in *. cbn [remove_variable Adj.add_offset lin]. rewrite del_nth_length; lia. }
  rewrite EN.
  assert (EO : off (remove_variable v (Adj.add_offset (a * nth v (lin m1) 0%Qc)%Qc m1))
               = (off m + a * (linear m v + a * quadratic m v v))%Qc).
  { cbn [remove_variable Adj.add_offset off]. rewrite I4, (IL v Hv). unfold linear, quadratic. 
    fold (odef (nb_get v (nb m v))). ring. }
  rewrite EO. apply dense_ext.
  - intros x Hx. unfold linear. cbn [remove_variable Adj.add_offset lin]. rewrite nth_del_nth.
    rewrite IL by (unfold skip, nvars in *; destruct (Nat.ltb_spec x v); lia).
    unfold quadratic. fold (odef (nb_get (skip v x) (nb m v))). ring.
  - intros x y _ _. unfold quadratic, nb. cbn [remove_variable Adj.add_offset adj].
    rewrite I2, nth_remove_var, nb_get_remove_var by (apply (Inv_sorted m _ HI)). reflexivity.
  - reflexivity.
Qed.

(* ---------- substituting a variable on the dense form ---------- *)
Definition hterm (q : nat -> nat -> Qc) (s : nat -> Qc) (u w : nat) : Qc :=
  if (w <=? u)%nat then (q u w * s u * s w)%Qc else 0%Qc.

Lemma qsum_map_lin4b {A} (a b : Qc) (f1 f2 f3 f4 : A -> Qc) l :
  qsum (map (fun u => (f1 u + a * f2 u + b * f3 u + f4 u)%Qc) l) =
  (qsum (map f1 l) + a * qsum (map f2 l) + b * qsum (map f3 l) + qsum (map f4 l))%Qc.
Proof. induction l as [|x l IH]; cbn [map qsum]; [ring|rewrite IH; ring]. Qed.

Lemma dense_split N o l q s v :
  v < N ->
  dense N o l q s =
  (o + (l v * s v + (hterm q s v v + qsum (map (fun y => hterm q s v (skip v y)) (seq 0 (N - 1)))))
   + qsum (map (fun x => l (skip v x) * s (skip v x)
                          + (hterm q s (skip v x) v
                             + qsum (map (fun y => hterm q s (skip v x) (skip v y)) (seq 0 (N - 1)))))
               (seq 0 (N - 1))))%Qc.
Proof.
  intros Hv.
  change (dense N o l q s)
    with (o + qsum (map (fun u => (l u * s u + qsum (map (hterm q s u) (seq 0 N)))%Qc) (seq 0 N)))%Qc.
  rewrite (qsum_skip (fun u => (l u * s u + qsum (map (hterm q s u) (seq 0 N)))%Qc) v N Hv).
  rewrite (qsum_skip (hterm q s v) v N Hv).
  rewrite (qsum_map_ext_in
             (fun x => (l (skip v x) * s (skip v x) + qsum (map (hterm q s (skip v x)) (seq 0 N)))%Qc)
             (fun x => (l (skip v x) * s (skip v x)
                          + (hterm q s (skip v x) v
                             + qsum (map (fun y => hterm q s (skip v x) (skip v y)) (seq 0 (N - 1)))))%Qc)).
  - ring.
  - intros x _. rewrite (qsum_skip (hterm q s (skip v x)) v N Hv). reflexivity.
Qed.

Lemma skip_neq v x : skip v x <> v.
Proof. unfold skip. destruct (Nat.ltb_spec x v); lia. Qed.

Definition aff_sample (v : nat) (k c : Qc) (s : nat -> Qc) : nat -> Qc :=
  fun i => if i =? v then (k * s i + c)%Qc else s i.

Lemma dense_subst N o l q v k c s :
  v < N -> (forall u w, q u w = q w u) ->
  dense N (o + l v * c + q v v * c * c)
        (fun u => if u =? v then l v * k + two * q v v * k * c else l u + q v u * c)%Qc
        (fun x y => q x y * (if x =? v then k else 1) * (if y =? v then k else 1))%Qc s
  = dense N o l q (aff_sample v k c s).
Proof.
  intros Hv Hsym. rewrite !(dense_split N _ _ _ _ v Hv).
  set (q' := fun x y => (q x y * (if x =? v then k else 1) * (if y =? v then k else 1))%Qc).
  set (s' := aff_sample v k c s).
  pose (r := fun y => if (skip v y <=? v)%nat then (q v (skip v y) * s (skip v y))%Qc else 0%Qc).
  pose (cl := fun x => if (v <=? skip v x)%nat then (q (skip v x) v * s (skip v x))%Qc else 0%Qc).
  pose (ll := fun x => (q v (skip v x) * s (skip v x))%Qc).
  pose (p := fun x => (l (skip v x) * s (skip v x))%Qc).
  pose (M := fun x => qsum (map (fun y => hterm q s (skip v x) (skip v y)) (seq 0 (N - 1)))).
  assert (Es'v : s' v = (k * s v + c)%Qc) by (unfold s', aff_sample; rewrite Nat.eqb_refl; reflexivity).
  assert (Es' : forall x, s' (skip v x) = s (skip v x)).
  { intros x. unfold s', aff_sample. destruct (Nat.eqb_spec (skip v x) v) as [E|E]; [|reflexivity].
    exfalso. exact (skip_neq v x E). }
  assert (Eq'1 : forall x, q' v (skip v x) = (q v (skip v x) * k)%Qc).
  { intros x. unfold q'. rewrite Nat.eqb_refl. destruct (Nat.eqb_spec (skip v x) v) as [E|E]; [|ring].
    exfalso. exact (skip_neq v x E). }
  assert (Eq'2 : forall x, q' (skip v x) v = (q (skip v x) v * k)%Qc).
  { intros x. unfold q'. rewrite Nat.eqb_refl. destruct (Nat.eqb_spec (skip v x) v) as [E|E]; [|ring].
    exfalso. exact (skip_neq v x E). }
  assert (Eq'3 : forall x y, q' (skip v x) (skip v y) = q (skip v x) (skip v y)).
  { intros x y. unfold q'. destruct (Nat.eqb_spec (skip v x) v) as [E|_]; [exfalso; exact (skip_neq v x E)|].
    destruct (Nat.eqb_spec (skip v y) v) as [E|_]; [exfalso; exact (skip_neq v y E)|]. ring. }
  assert (Eq'v : q' v v = (q v v * k * k)%Qc) by (unfold q'; rewrite Nat.eqb_refl; reflexivity).
  (* rows of v *)
  assert (RowL : qsum (map (fun y => hterm q' s v (skip v y)) (seq 0 (N - 1)))
                 = ((k * s v) * qsum (map r (seq 0 (N - 1))))%Qc).
  { rewrite <- qsum_map_scale. apply qsum_map_ext_in. intros y _. unfold hterm, r.
    rewrite Eq'1. destruct (skip v y <=? v); ring. }
  assert (RowR : qsum (map (fun y => hterm q s' v (skip v y)) (seq 0 (N - 1)))
                 = ((k * s v + c) * qsum (map r (seq 0 (N - 1))))%Qc).
  { rewrite <- qsum_map_scale. apply qsum_map_ext_in. intros y _. unfold hterm, r.
    rewrite Es'v, Es'. destruct (skip v y <=? v); ring. }
  (* the other rows *)
  assert (RestL :
    qsum (map (fun x => ((if skip v x =? v then l v * k + two * q v v * k * c
                          else l (skip v x) + q v (skip v x) * c) * s (skip v x)
                          + (hterm q' s (skip v x) v
                             + qsum (map (fun y => hterm q' s (skip v x) (skip v y)) (seq 0 (N - 1)))))%Qc)
              (seq 0 (N - 1)))
    = (qsum (map p (seq 0 (N - 1))) + c * qsum (map ll (seq 0 (N - 1)))
       + (k * s v) * qsum (map cl (seq 0 (N - 1))) + qsum (map M (seq 0 (N - 1))))%Qc).
  { rewrite <- qsum_map_lin4b. apply qsum_map_ext_in. intros x _.
    destruct (Nat.eqb_spec (skip v x) v) as [E|_]; [exfalso; exact (skip_neq v x E)|].
    assert (EM : qsum (map (fun y => hterm q' s (skip v x) (skip v y)) (seq 0 (N - 1))) = M x).
    { apply qsum_map_ext_in. intros y _. unfold hterm. rewrite Eq'3. reflexivity. }
    rewrite EM. unfold hterm, p, ll, cl. rewrite Eq'2. destruct (v <=? skip v x); ring. }
  assert (RestR :
    qsum (map (fun x => (l (skip v x) * s' (skip v x)
                          + (hterm q s' (skip v x) v
                             + qsum (map (fun y => hterm q s' (skip v x) (skip v y)) (seq 0 (N - 1)))))%Qc)
              (seq 0 (N - 1)))
    = (qsum (map p (seq 0 (N - 1))) + 0 * qsum (map ll (seq 0 (N - 1)))
       + (k * s v + c) * qsum (map cl (seq 0 (N - 1))) + qsum (map M (seq 0 (N - 1))))%Qc).
  { rewrite <- qsum_map_lin4b. apply qsum_map_ext_in. intros x _.
    assert (EM : qsum (map (fun y => hterm q s' (skip v x) (skip v y)) (seq 0 (N - 1))) = M x).
    { apply qsum_map_ext_in. intros y _. unfold hterm. rewrite !Es'. reflexivity. }
    rewrite EM. unfold hterm, p, ll, cl. rewrite Es', Es'v. destruct (v <=? skip v x); ring. }
  assert (RC : qsum (map ll (seq 0 (N - 1)))
               = (qsum (map r (seq 0 (N - 1))) + qsum (map cl (seq 0 (N - 1))))%Qc).
  { rewrite <- qsum_map_add. apply qsum_map_ext_in. intros x _. unfold ll, r, cl.
    rewrite (Hsym (skip v x) v). pose proof (skip_neq v x) as Hne.
    destruct (Nat.leb_spec (skip v x) v); destruct (Nat.leb_spec v (skip v x)); try lia; ring. }
  rewrite RowL, RowR, RestL, RestR, RC.
  rewrite Nat.eqb_refl. unfold hterm. rewrite Nat.leb_refl, Eq'v, Es'v. unfold two. ring.
Qed.

(* ---------- substitute_variable on the model ---------- *)
Lemma quadratic_odef m x y : quadratic m x y = odef (nb_get y (nb m x)).
Proof. reflexivity. Qed.

Section SubstFold.
  Variables (v : nat) (k c : Qc).

  Definition sstep (acc : qm) (e : nat * Qc) : qm :=
    let '(w, b) := e in
    if (w =? v)%nat then
      mkQM (upd_nth v (fun x => x + two * b * k * c)%Qc (lin acc))
           (upd_nth v (nb_upsert (fun x => x * (k * k))%Qc v) (adj acc))
           (off acc + b * c * c)%Qc (vts acc)
    else
      mkQM (upd_nth w (fun x => x + b * c)%Qc (lin acc))
           (upsert_both (fun x => x * k)%Qc v w (adj acc))
           (off acc) (vts acc).

  Lemma substitute_variable_fold m :
    substitute_variable v k c m =
    fold_left sstep (nb m v)
      (mkQM (upd_nth v (fun x => x * k)%Qc (lin m)) (adj m) (off m + nth v (lin m) 0 * c)%Qc (vts m)).
  Proof. reflexivity. Qed.

  (* what one step / the whole fold does, as recursive summaries of the list *)
  Definition offc1 (w : nat) (b : Qc) : Qc := if w =? v then (b * c * c)%Qc else 0%Qc.
  Definition linc1 (w : nat) (b : Qc) (u : nat) : Qc :=
    if w =? v then (if u =? v then (two * b * k * c)%Qc else 0%Qc)
    else (if u =? w then (b * c)%Qc else 0%Qc).
  Definition mult1 (w y : nat) : Qc := if y =? w then k else 1%Qc.

  Fixpoint offc (l : nbh) : Qc :=
    match l with [] => 0%Qc | (w, b) :: r => (offc1 w b + offc r)%Qc end.
  Fixpoint linc (l : nbh) (u : nat) : Qc :=
    match l with [] => 0%Qc | (w, b) :: r => (linc1 w b u + linc r u)%Qc end.
  Fixpoint mult (l : nbh) (y : nat) : Qc :=
    match l with [] => 1%Qc | (w, _) :: r => (mult1 w y * mult r y)%Qc end.

  Lemma sstep_spec N acc w b :
    v < N -> w < N -> length (lin acc) = N -> length (adj acc) = N ->
    let acc1 := sstep acc (w, b) in
    length (lin acc1) = N /\ length (adj acc1) = N /\
    off acc1 = (off acc + offc1 w b)%Qc /\
    (forall u, u < N -> nth u (lin acc1) 0%Qc = (nth u (lin acc) 0 + linc1 w b u)%Qc) /\
    (forall x y, quadratic acc1 x y =
                 (quadratic acc x y * (if x =? v then mult1 w y else 1)
                  * (if y =? v then mult1 w x else 1))%Qc).
  Proof.
    intros Hv Hw Hl Ha. unfold sstep, offc1, linc1, mult1.
    destruct (Nat.eqb_spec w v) as [->|Hne]; cbn [lin adj off vts].
    - split; [rewrite upd_nth_length; exact Hl|]. split; [rewrite upd_nth_length; exact Ha|].
      split; [reflexivity|]. split.
      + intros u Hu. destruct (Nat.eqb_spec u v) as [->|Nu].
        * rewrite nth_upd_nth_same by lia. reflexivity.
        * rewrite nth_upd_nth_other by exact Nu. ring.
      + intros x y. rewrite !quadratic_odef. unfold nb. cbn [adj]. rewrite get_upsert_self by lia.
        destruct (Nat.eqb_spec x v) as [->|Nx]; destruct (Nat.eqb_spec y v) as [->|Ny];
          cbn [andb odef]; ring.
    - split; [rewrite upd_nth_length; exact Hl|].
      split; [unfold upsert_both; rewrite !upd_nth_length; exact Ha|].
      split; [ring|]. split.
      + intros u Hu. destruct (Nat.eqb_spec u w) as [->|Nu].
        * rewrite nth_upd_nth_same by lia. reflexivity.
        * rewrite nth_upd_nth_other by exact Nu. ring.
      + intros x y. rewrite !quadratic_odef. unfold nb. cbn [adj].
        rewrite get_upsert_both by (try lia; congruence).
        repeat match goal with
               | |- context [?a =? ?b] =>
                   destruct (Nat.eqb_spec a b); [first [subst a|subst b|idtac]|]
               end; cbn [andb odef]; try congruence; ring.
  Qed.

  Lemma sfold_spec N l acc :
    v < N -> length (lin acc) = N -> length (adj acc) = N ->
    (forall e, In e l -> fst e < N) ->
    let f := fold_left sstep l acc in
    length (lin f) = N /\ length (adj f) = N /\
    off f = (off acc + offc l)%Qc /\
    (forall u, u < N -> nth u (lin f) 0%Qc = (nth u (lin acc) 0 + linc l u)%Qc) /\
    (forall x y, quadratic f x y =
                 (quadratic acc x y * (if x =? v then mult l y else 1)
                  * (if y =? v then mult l x else 1))%Qc).
  Proof.
    intros Hv. revert acc. induction l as [|[w b] r IH]; intros acc Hl Ha Hb; cbn [fold_left].
    - split; [exact Hl|]. split; [exact Ha|]. cbn [offc linc mult]. split; [ring|].
      split; [intros; ring|]. intros x y. destruct (x =? v); destruct (y =? v); ring.
    - assert (Hw : w < N) by (apply (Hb (w, b)); left; reflexivity).
      destruct (sstep_spec N acc w b Hv Hw Hl Ha) as [S1 [S2 [S3 [S4 S5]]]].
      destruct (IH (sstep acc (w, b)) S1 S2 (fun e He => Hb e (or_intror He))) as [F1 [F2 [F3 [F4 F5]]]].
      split; [exact F1|]. split; [exact F2|]. cbn [offc linc mult].
      split; [rewrite F3, S3; ring|].
      split; [intros u Hu; rewrite F4, S4 by exact Hu; ring|].
      intros x y. rewrite F5, S5. destruct (x =? v); destruct (y =? v); ring.
  Qed.

  (* the summaries on a sorted neighbourhood *)
  Lemma mult_head w r : lt_all w r -> mult r w = 1%Qc.
  Proof.
    induction r as [|[w' b'] r IH]; [reflexivity|]. intros H. cbn [mult]. unfold mult1.
    pose proof (H (w', b') (or_introl eq_refl)) as Hw. cbn [fst] in Hw.
    destruct (Nat.eqb_spec w w'); [lia|]. rewrite IH; [ring|].
    intros e He. apply H. right. exact He.
  Qed.

  Lemma mult_sorted l y : ksorted l -> (odef (nb_get y l) * mult l y = odef (nb_get y l) * k)%Qc.
  Proof.
    induction l as [|[w b] r IH]; intros Hs; [cbn [nb_get odef]; ring|].
    rewrite odef_get_cons by exact Hs. cbn [mult]. unfold mult1.
    pose proof Hs as Hs0. apply ksorted_cons in Hs0. destruct Hs0 as [Hall Hs'].
    destruct (Nat.eqb_spec y w) as [->|Ny].
    - rewrite (mult_head w r Hall). ring.
    - transitivity (odef (nb_get y r) * mult r y)%Qc; [ring|]. apply IH, Hs'.
  Qed.

  Lemma offc_sorted l : ksorted l -> offc l = (odef (nb_get v l) * c * c)%Qc.
  Proof.
    induction l as [|[w b] r IH]; intros Hs; [cbn [offc nb_get odef]; ring|].
    rewrite odef_get_cons by exact Hs. cbn [offc]. unfold offc1.
    pose proof Hs as Hs0. apply ksorted_cons in Hs0. destruct Hs0 as [Hall Hs'].
    rewrite (IH Hs'). rewrite (Nat.eqb_sym v w). destruct (Nat.eqb_spec w v) as [->|Nw]; [|ring].
    rewrite (nb_get_lt_all v v r Hall) by lia. cbn [odef]. ring.
  Qed.

  Lemma linc_sorted l u :
    ksorted l ->
    linc l u = if u =? v then (two * odef (nb_get v l) * k * c)%Qc else (odef (nb_get u l) * c)%Qc.
  Proof.
    induction l as [|[w b] r IH]; intros Hs.
    - cbn [linc nb_get odef]. destruct (u =? v); ring.
    - rewrite !odef_get_cons by exact Hs. cbn [linc]. unfold linc1.
      pose proof Hs as Hs0. apply ksorted_cons in Hs0. destruct Hs0 as [Hall Hs'].
      rewrite (IH Hs'). rewrite (Nat.eqb_sym v w).
      destruct (Nat.eqb_spec w v) as [Ew|Nw]; destruct (Nat.eqb_spec u v) as [Eu|Nu].
      + rewrite Ew in Hall. rewrite (nb_get_lt_all v v r Hall) by lia. cbn [odef]. ring.
      + destruct (Nat.eqb_spec u w) as [E|_]; [congruence|]. ring.
      + destruct (Nat.eqb_spec u w) as [E|_]; [congruence|]. ring.
      + destruct (Nat.eqb_spec u w) as [Euw|Nuw]; [|ring].
        rewrite Euw. rewrite (nb_get_lt_all w w r Hall) by lia. cbn [odef]. ring.
  Qed.
End SubstFold.

Theorem energy_substitute_variable_adj m v k c s :
  Inv m -> v < nvars m ->
  energy_adj (substitute_variable v k c m) s = energy_adj m (aff_sample v k c s).
Proof.
  intros HI Hv.
  rewrite (energy_dense _ _ (Inv_substitute_variable v k c m HI Hv)), (energy_dense m _ HI).
  rewrite <- (dense_subst (nvars m) (off m) (linear m) (quadratic m) v k c s Hv
                (fun u w => quadratic_sym m u w HI)).
  rewrite substitute_variable_fold.
  set (m0 := mkQM _ _ _ _).
  assert (Hb : forall e, In e (nb m v) -> fst e < nvars m).
  { intros [w b] He. cbn [fst]. apply (nb_get_In_2 w _ b (Inv_sorted m v HI)) in He.
    apply (Inv_bound m v w b HI He). }
  assert (Hl0 : length (lin m0) = nvars m) by (unfold m0; cbn [lin]; apply upd_nth_length).
  assert (Ha0 : length (adj m0) = nvars m) by (unfold m0; cbn [adj]; apply Inv_len_adj, HI).
  destruct (sfold_spec v k c (nvars m) (nb m v) m0 Hv Hl0 Ha0 Hb) as [F1 [F2 [F3 [F4 F5]]]].
  set (f := fold_left _ _ _) in *.
  pose proof (Inv_sorted m v HI) as Hs.
  assert (EN : nvars f = nvars m) by exact F1. rewrite EN.
  assert (EO : off f = (off m + linear m v * c + quadratic m v v * c * c)%Qc).
  { rewrite F3, (offc_sorted v c _ Hs). unfold m0, linear, quadratic. cbn [off].
    fold (odef (nb_get v (nb m v))). ring. }
  rewrite EO. apply dense_ext.
  - intros u Hu. unfold linear at 1. rewrite (F4 u Hu), (linc_sorted v k c _ u Hs).
    unfold m0. cbn [lin]. unfold linear, quadratic. fold (odef (nb_get v (nb m v))).
    fold (odef (nb_get u (nb m v))).
    destruct (Nat.eqb_spec u v) as [->|Nu].
    + rewrite nth_upd_nth_same by exact Hv. ring.
    + rewrite nth_upd_nth_other by exact Nu. reflexivity.
  - intros x y _ _. rewrite F5.
    assert (Q0 : forall a b, quadratic m0 a b = quadratic m a b) by reflexivity. rewrite Q0.
    assert (Mv : forall y0, (quadratic m v y0 * mult k (nb m v) y0 = quadratic m v y0 * k)%Qc).
    { intros y0. unfold quadratic. fold (odef (nb_get y0 (nb m v))). apply mult_sorted, Hs. }
    destruct (Nat.eqb_spec x v) as [->|Nx]; destruct (Nat.eqb_spec y v) as [->|Ny].
    + transitivity ((quadratic m v v * mult k (nb m v) v) * mult k (nb m v) v)%Qc; [ring|].
      rewrite Mv. transitivity ((quadratic m v v * mult k (nb m v) v) * k)%Qc; [ring|].
      rewrite Mv. ring.
    + transitivity (quadratic m v y * mult k (nb m v) y)%Qc; [ring|]. rewrite Mv. ring.
    + rewrite (quadratic_sym m x v HI).
      transitivity (quadratic m v x * mult k (nb m v) x)%Qc; [ring|]. rewrite Mv. ring.
    + ring.
  - reflexivity.
Qed.
