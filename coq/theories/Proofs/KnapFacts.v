(* C17: knapsack / multi-knapsack / bin packing - feasibility and objective of the
   generated CQM are exactly the stated conditions (any number of items / bins) *)
From Coq Require Import List ZArith QArith Qcanon Bool Arith Lia.
From Dimod Require Import Base.Util Model.Poly Model.Knap Proofs.PolyFacts.
Import ListNotations.
Open Scope Qc_scope.

Lemma qleb_le a b : qleb a b = true <-> a <= b.
Proof. unfold qleb, Qcle. apply Qle_bool_iff. Qed.

Lemma Qc_eqb_eq a b : Qc_eqb a b = true <-> a = b.
Proof.
  unfold Qc_eqb. rewrite Qeq_bool_iff. split; [apply Qc_is_canon|intros ->; reflexivity].
Qed.

Lemma lin_energy_lin_of n idx coef (x : sample) :
  lin_energy (lin_of n idx coef) x = range_sum n (fun i => coef i * x (idx i)).
Proof.
  unfold lin_energy, lin_of, range_sum. rewrite map_map. reflexivity.
Qed.

Lemma range_sum_ext n f g : (forall i, (i < n)%nat -> f i = g i) -> range_sum n f = range_sum n g.
Proof.
  intros H. unfold range_sum. f_equal. apply map_ext_in. intros i Hi. apply in_seq in Hi. apply H. lia.
Qed.

Lemma range_sum_scale n k f : range_sum n (fun i => k * f i) = k * range_sum n f.
Proof. unfold range_sum. generalize (seq 0 n). intros l. induction l as [|a l IH]; cbn [map qsum]; [ring|rewrite IH; ring]. Qed.

Lemma range_sum_opp n f : range_sum n (fun i => - f i) = - range_sum n f.
Proof. unfold range_sum. generalize (seq 0 n). intros l. induction l as [|a l IH]; cbn [map qsum]; [ring|rewrite IH; ring]. Qed.

Lemma forallb_seq n (p : nat -> bool) : forallb p (seq 0 n) = true <-> forall i, (i < n)%nat -> p i = true.
Proof.
  rewrite forallb_forall. split; intros H i Hi; apply H; [apply in_seq; lia|apply in_seq in Hi; lia].
Qed.

Lemma forallb_map_seq {A} n (g : nat -> A) (p : A -> bool) :
  forallb p (map g (seq 0 n)) = true <-> forall i, (i < n)%nat -> p (g i) = true.
Proof.
  rewrite forallb_forall. split.
  - intros H i Hi. apply H. apply in_map. apply in_seq. lia.
  - intros H a Ha. apply in_map_iff in Ha. destruct Ha as [i [<- Hi]]. apply in_seq in Hi. apply H. lia.
Qed.

Lemma le_shift (a c : Qc) : a + - c <= 0 <-> a <= c.
Proof.
  split; intros H.
  - pose proof (Qcplus_le_compat (a + - c) 0 c c H (Qcle_refl c)) as K.
    replace (a + - c + c) with a in K by ring. replace (0 + c) with c in K by ring. exact K.
  - pose proof (Qcplus_le_compat a c (- c) (- c) H (Qcle_refl (- c))) as K.
    replace (c + - c) with 0 in K by ring. exact K.
Qed.

Lemma eq_shift (a c : Qc) : a + - c = 0 <-> a = c.
Proof. split; intros H; [replace a with ((a + - c) + c) by ring; rewrite H; ring|rewrite H; ring]. Qed.

(* ---------------- knapsack ---------------- *)
Theorem knapsack_objective values weights capacity (x : sample) :
  energy (q_obj (knapsack_model values weights capacity)) x = - ks_value values (length values) x.
Proof.
  unfold knapsack_model, energy, ks_value. cbn [q_obj p_off p_lin p_quad quad_energy map qsum].
  rewrite lin_energy_lin_of, <- range_sum_opp.
  replace (0 + range_sum (length values) (fun i => - wt values i * x i) + 0)
    with (range_sum (length values) (fun i => - wt values i * x i)) by ring.
  apply range_sum_ext. intros i _. ring.
Qed.

Theorem knapsack_feasible values weights capacity (x : sample) :
  feasibleb (knapsack_model values weights capacity) x = true
  <-> ks_weight weights (length values) x <= capacity.
Proof.
  unfold feasibleb, knapsack_model. cbn [q_cons forallb]. rewrite andb_true_r.
  unfold lc_satb, lc_value. cbn [lc_sense lc_lin lc_const].
  rewrite lin_energy_lin_of.
  rewrite qleb_le, le_shift. reflexivity.
Qed.

(* ---------------- multi-knapsack ---------------- *)
Lemma lin_energy_flat_map {A} (f : A -> list lterm) l (x : sample) :
  lin_energy (flat_map f l) x = qsum (map (fun a => lin_energy (f a) x) l).
Proof.
  induction l as [|a l IH]; cbn [flat_map map qsum]; [reflexivity|].
  rewrite lin_energy_app, IH. reflexivity.
Qed.

Theorem mk_objective values weights capacities (x : sample) :
  energy (q_obj (mk_model values weights capacities)) x
  = - mk_value values (length values) (length capacities) x.
Proof.
  unfold mk_model, energy, mk_value. cbn [q_obj p_off p_lin p_quad quad_energy map qsum].
  rewrite lin_energy_flat_map. fold (range_sum (length values)
    (fun i => lin_energy (lin_of (length capacities) (mk_idx (length capacities) i) (fun _ => - wt values i)) x)).
  rewrite <- range_sum_opp.
  replace (0 + range_sum (length values)
      (fun i => lin_energy (lin_of (length capacities) (mk_idx (length capacities) i) (fun _ => - wt values i)) x) + 0)
    with (range_sum (length values)
      (fun i => lin_energy (lin_of (length capacities) (mk_idx (length capacities) i) (fun _ => - wt values i)) x)) by ring.
  apply range_sum_ext. intros i _. rewrite lin_energy_lin_of. unfold mk_count.
  rewrite range_sum_scale. ring.
Qed.

Theorem mk_feasible values weights capacities (x : sample) :
  let n := length values in let b := length capacities in
  feasibleb (mk_model values weights capacities) x = true
  <-> (forall i, (i < n)%nat -> mk_count b x i <= 1) /\
      (forall j, (j < b)%nat -> mk_load weights n b x j <= wt capacities j).
Proof.
  intros n b. unfold feasibleb, mk_model. cbn [q_cons]. fold n b.
  rewrite forallb_app, andb_true_iff, !forallb_map_seq.
  assert (Hitem : forall i, lc_satb (mkLC (lin_of b (mk_idx b i) (fun _ => 1)) (- (1)) SLe) x = true
                            <-> mk_count b x i <= 1).
  { intros i. unfold lc_satb, lc_value. cbn [lc_sense lc_lin lc_const]. rewrite lin_energy_lin_of.
    rewrite qleb_le, le_shift. unfold mk_count.
    rewrite (range_sum_ext b (fun j => 1 * x (mk_idx b i j)) (fun j => x (mk_idx b i j))) by (intros; ring).
    reflexivity. }
  assert (Hbin : forall j, lc_satb (mkLC (lin_of n (fun i => mk_idx b i j) (wt weights)) (- wt capacities j) SLe) x = true
                           <-> mk_load weights n b x j <= wt capacities j).
  { intros j. unfold lc_satb, lc_value. cbn [lc_sense lc_lin lc_const]. rewrite lin_energy_lin_of.
    rewrite qleb_le, le_shift. reflexivity. }
  split; intros [H1 H2]; split; intros k Hk.
  - apply Hitem. apply H1. exact Hk.
  - apply Hbin. apply H2. exact Hk.
  - apply Hitem. apply H1. exact Hk.
  - apply Hbin. apply H2. exact Hk.
Qed.

(* ---------------- bin packing ---------------- *)
Theorem bp_objective weights capacity (x : sample) :
  energy (q_obj (bp_model weights capacity)) x = bp_open_bins (length weights) x.
Proof.
  unfold bp_model, energy, bp_open_bins. cbn [q_obj p_off p_lin p_quad quad_energy map qsum].
  rewrite lin_energy_lin_of.
  replace (0 + range_sum (length weights) (fun i => 1 * x (bp_y i)) + 0)
    with (range_sum (length weights) (fun i => 1 * x (bp_y i))) by ring.
  apply range_sum_ext. intros i _. ring.
Qed.

Theorem bp_feasible weights capacity (x : sample) :
  let n := length weights in
  feasibleb (bp_model weights capacity) x = true
  <-> (forall i, (i < n)%nat -> bp_count n x i = 1) /\
      (forall j, (j < n)%nat -> bp_load weights n x j <= capacity * x (bp_y j)).
Proof.
  intros n. unfold feasibleb, bp_model. cbn [q_cons]. fold n.
  rewrite forallb_app, andb_true_iff, !forallb_map_seq.
  assert (Hitem : forall i, lc_satb (mkLC (lin_of n (bp_x n i) (fun _ => 1)) (- (1)) SEq) x = true
                            <-> bp_count n x i = 1).
  { intros i. unfold lc_satb, lc_value. cbn [lc_sense lc_lin lc_const]. rewrite lin_energy_lin_of.
    rewrite Qc_eqb_eq, eq_shift. unfold bp_count.
    rewrite (range_sum_ext n (fun j => 1 * x (bp_x n i j)) (fun j => x (bp_x n i j))) by (intros; ring).
    reflexivity. }
  assert (Hbin : forall j, lc_satb (mkLC (lin_of n (fun i => bp_x n i j) (wt weights) ++ [(bp_y j, - capacity)]) 0 SLe) x = true
                           <-> bp_load weights n x j <= capacity * x (bp_y j)).
  { intros j. unfold lc_satb, lc_value. cbn [lc_sense lc_lin lc_const].
    rewrite lin_energy_app, lin_energy_lin_of. unfold lin_energy at 1. cbn [map qsum]. unfold lterm_val. cbn [fst snd].
    rewrite qleb_le.
    replace (range_sum n (fun i => wt weights i * x (bp_x n i j)) + (- capacity * x (bp_y j) + 0) + 0)
      with (bp_load weights n x j + - (capacity * x (bp_y j))) by (unfold bp_load; ring).
    apply le_shift. }
  split; intros [H1 H2]; split; intros k Hk.
  - apply Hitem. apply H1. exact Hk.
  - apply Hbin. apply H2. exact Hk.
  - apply Hitem. apply H1. exact Hk.
  - apply Hbin. apply H2. exact Hk.
Qed.

(* for 0/1 assignments: a row of 0/1 values sums to 1 iff exactly one of them is 1 *)
Fixpoint count_ones (n : nat) (f : nat -> bool) : nat :=
  match n with O => O | S k => (if f k then 1 else 0) + count_ones k f end.

Lemma range_sum_S n f : range_sum (S n) f = range_sum n f + f n.
Proof.
  unfold range_sum. rewrite seq_S, map_app. cbn [map plus].
  generalize (map f (seq 0 n)). intros l. induction l as [|a l IH]; cbn [app qsum]; [ring|rewrite IH; ring].
Qed.

Definition nat2q (k : nat) : Qc := Q2Qc (inject_Z (Z.of_nat k)).

Lemma nat2q_S k : nat2q (S k) = nat2q k + 1.
Proof.
  apply Qc_is_canon. unfold nat2q. cbn [this Qcplus Q2Qc]. rewrite !Qred_correct.
  rewrite Nat2Z.inj_succ, <- Z.add_1_r, inject_Z_plus. reflexivity.
Qed.

Lemma range_sum_bool n (f : nat -> bool) :
  range_sum n (fun i => if f i then 1 else 0) = nat2q (count_ones n f).
Proof.
  induction n as [|n IH]; [apply Qc_is_canon; reflexivity|].
  rewrite range_sum_S, IH. cbn [count_ones]. destruct (f n); cbn [plus].
  - rewrite nat2q_S. reflexivity.
  - ring.
Qed.

Lemma nat2q_inj a b : nat2q a = nat2q b -> a = b.
Proof.
  intros H. apply (f_equal this) in H. unfold nat2q in H. cbn [this Q2Qc] in H.
  assert (H' : (inject_Z (Z.of_nat a) == inject_Z (Z.of_nat b))%Q).
  { rewrite <- (Qred_correct (inject_Z (Z.of_nat a))), H, Qred_correct. reflexivity. }
  unfold Qeq in H'. cbn in H'. lia.
Qed.

Theorem exactly_one n (f : nat -> bool) :
  range_sum n (fun i => if f i then 1 else 0) = 1 <-> count_ones n f = 1%nat.
Proof.
  rewrite range_sum_bool. split.
  - intros H. apply nat2q_inj. rewrite H. apply Qc_is_canon. reflexivity.
  - intros ->. apply Qc_is_canon. reflexivity.
Qed.

(* bin packing on a 0/1 placement: "every item in exactly one bin" literally *)
Theorem bp_feasible_bool weights capacity (x : sample) (place : nat -> nat -> bool) :
  let n := length weights in
  (forall i j, (i < n)%nat -> (j < n)%nat -> x (bp_x n i j) = if place i j then 1 else 0) ->
  (feasibleb (bp_model weights capacity) x = true
   <-> (forall i, (i < n)%nat -> count_ones n (place i) = 1%nat) /\
       (forall j, (j < n)%nat -> bp_load weights n x j <= capacity * x (bp_y j))).
Proof.
  intros n Hx. rewrite bp_feasible. fold n.
  assert (Hc : forall i, (i < n)%nat -> (bp_count n x i = 1 <-> count_ones n (place i) = 1%nat)).
  { intros i Hi. unfold bp_count.
    rewrite (range_sum_ext n (fun j => x (bp_x n i j)) (fun j => if place i j then 1 else 0))
      by (intros j Hj; apply Hx; assumption).
    apply exactly_one. }
  split; intros [H1 H2]; (split; [|exact H2]); intros i Hi; apply (Hc i Hi); apply H1; exact Hi.
Qed.
