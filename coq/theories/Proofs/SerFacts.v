(* C11 - proofs about Model/Ser.v *)
From Coq Require Import List ZArith NArith QArith Qcanon Bool Arith String Lia.
From Dimod Require Import Base.Util Model.Poly Model.Comb Model.Ser Proofs.CombPack.
Import ListNotations.
Open Scope Qc_scope.

(* ------------------------------------------------------------------ *)
(* samples *)

Lemma of_to_bit vt intd x :
  (vt = SPIN \/ vt = BINARY) -> valid_value vt x -> of_bit vt (to_bit vt intd x) = x.
Proof.
  intros [Hv | Hv]; subst vt; cbn [valid_value]; intros [Hx | Hx]; subst x.
  - reflexivity.
  - reflexivity.
  - destruct intd; reflexivity.
  - destruct intd; reflexivity.
Qed.

Lemma packs_true vt pack : packs vt pack = true -> vt = SPIN \/ vt = BINARY.
Proof. unfold packs. destruct pack, vt; cbn; intros H; try discriminate; auto. Qed.

Lemma row_roundtrip vt intd n r :
  (vt = SPIN \/ vt = BINARY) -> List.length r = n -> Forall (valid_value vt) r ->
  map (of_bit vt) (unpack_row (pack_row (map (to_bit vt intd) r)) n) = r.
Proof.
  intros Hv Hn Hr.
  replace n with (List.length (map (to_bit vt intd) r)) by (rewrite map_length; exact Hn).
  rewrite unpack_pack_row, map_map.
  clear Hn. induction Hr as [|x r Hx Hr IH]; [reflexivity|].
  cbn [map]. rewrite IH. f_equal. apply of_to_bit; assumption.
Qed.

Theorem sampleset_samples_roundtrip :
  forall vt intd pack n rows, valid_for vt n rows ->
    deser_samples vt n (ser_samples vt intd pack rows) = rows.
Proof.
  intros vt intd pack n rows Hv. unfold ser_samples, ser_with.
  destruct (packs vt pack) eqn:Hp; [|reflexivity].
  apply packs_true in Hp. cbn [deser_samples]. rewrite map_map.
  induction Hv as [|r rows [Hn Hr] Hv IH]; [reflexivity|].
  cbn [map]. rewrite IH. f_equal. apply row_roundtrip; assumption.
Qed.

(* unpacked serialisation never needs the validity hypothesis *)
Theorem sampleset_unpacked_roundtrip :
  forall vt intd n rows, deser_samples vt n (ser_samples vt intd false rows) = rows.
Proof. intros. reflexivity. Qed.

(* INTEGER and REAL sample sets are never packed, whatever the option *)
Theorem nonbinary_never_packed :
  forall vt intd pack n rows, vt = INTEGER \/ vt = REAL ->
    ser_samples vt intd pack rows = Raw rows /\
    deser_samples vt n (ser_samples vt intd pack rows) = rows.
Proof.
  intros vt intd pack n rows [H | H]; subst vt; unfold ser_samples, ser_with, packs;
    destruct pack; cbn; split; reflexivity.
Qed.

(* the packed words are those of pack_row of the bit rows, one list of
   ceil(n/32) words per row *)
Theorem packed_words_shape :
  forall vt intd rows n ws, valid_for vt n rows ->
    ser_samples vt intd true rows = Packed ws ->
    List.length ws = List.length rows /\ Forall (fun w => List.length w = ((n + 31) / 32)%nat) ws.
Proof.
  intros vt intd rows n ws Hv. unfold ser_samples, ser_with.
  destruct (packs vt true); [|discriminate]. intros H. inversion H; subst ws; clear H.
  split; [apply map_length|].
  apply Forall_map. induction Hv as [|r rows [Hn Hr] Hv IH]; constructor; [|exact IH].
  rewrite length_pack_row, map_length, Hn. reflexivity.
Qed.

Lemma rows_neq a b : rows_eqb a b = false -> a <> b.
Proof.
  intros H E. subst b.
  assert (R : forall l, list_eqb Qc_eqb l l = true).
  { induction l as [|x l IH]; [reflexivity|]. cbn [list_eqb]. rewrite IH.
    unfold Qc_eqb. rewrite (proj2 (Qeq_bool_iff x x) (Qeq_refl x)). reflexivity. }
  assert (R2 : forall l, rows_eqb l l = true).
  { induction l as [|x l IH]; [reflexivity|]. unfold rows_eqb in *. cbn [list_eqb].
    rewrite IH, R. reflexivity. }
  rewrite R2 in H. discriminate.
Qed.

(* one bit per value cannot represent other values: packing is not injective *)
Theorem pack_loses_information :
  exists r1 r2 : list Qc, r1 <> r2 /\
    pack_row (map gt0 r1) = pack_row (map gt0 r2).
Proof.
  exists [qc 3 1; 0; qc 5 1], [1; 0; 1]. split; [|vm_compute; reflexivity].
  intros E. apply (rows_neq [[qc 3 1; 0; qc 5 1]] [[1; 0; 1]]); [vm_compute; reflexivity|].
  rewrite E. reflexivity.
Qed.

(* the rule that was in place before the repair packed REAL sample sets *)
Theorem unguarded_pack_refuted :
  exists rows, valid_for REAL 3 rows /\
    deser_samples REAL 3 (ser_samples_unguarded REAL false true rows) <> rows /\
    deser_samples REAL 3 (ser_samples REAL false true rows) = rows.
Proof.
  exists [[qc 3 1; 0; qc 5 1]]. split; [|split].
  - repeat constructor.
  - apply rows_neq. vm_compute. reflexivity.
  - reflexivity.
Qed.

(* a SPIN set with the flipped unpack mapping would not round trip: both
   directions of the mapping matter *)
Theorem spin_mapping_is_forced :
  forall f : bool -> Qc,
    (forall x, valid_value SPIN x -> f (gt0 x) = x) -> f true = 1 /\ f false = - (1).
Proof.
  intros f H. split.
  - apply (H 1). left. reflexivity.
  - apply (H (- (1))). right. reflexivity.
Qed.

(* ------------------------------------------------------------------ *)
(* labels *)

Section LblInd.
  Variable P : lbl -> Prop.
  Hypothesis Hi : forall z, P (LInt z).
  Hypothesis Hf : forall n d, P (LFlt n d).
  Hypothesis Hs : forall s, P (LStr s).
  Hypothesis Ht : forall l, Forall P l -> P (LTup l).
  Fixpoint lbl_nested_ind (v : lbl) : P v :=
    match v with
    | LInt z => Hi z
    | LFlt n d => Hf n d
    | LStr s => Hs s
    | LTup l => Ht l ((fix go (l : list lbl) : Forall P l :=
                         match l with
                         | [] => Forall_nil P
                         | x :: xs => Forall_cons x (lbl_nested_ind x) (go xs)
                         end) l)
    end.
End LblInd.

Section JvInd.
  Variable P : jv -> Prop.
  Hypothesis Hi : forall z, P (JInt z).
  Hypothesis Hf : forall n d, P (JFlt n d).
  Hypothesis Hs : forall s, P (JStr s).
  Hypothesis Ht : forall l, Forall P l -> P (JList l).
  Fixpoint jv_nested_ind (v : jv) : P v :=
    match v with
    | JInt z => Hi z
    | JFlt n d => Hf n d
    | JStr s => Hs s
    | JList l => Ht l ((fix go (l : list jv) : Forall P l :=
                         match l with
                         | [] => Forall_nil P
                         | x :: xs => Forall_cons x (jv_nested_ind x) (go xs)
                         end) l)
    end.
End JvInd.

Lemma map_id_Forall {A} (f : A -> A) l : Forall (fun x => f x = x) l -> map f l = l.
Proof. induction 1 as [|x l Hx Hl IH]; [reflexivity|]. cbn [map]. rewrite Hx, IH. reflexivity. Qed.

Theorem labels_roundtrip : forall v, deserialize_variable (serialize_variable v) = v.
Proof.
  induction v as [z | n d | s | l IH] using lbl_nested_ind; try reflexivity.
  cbn [serialize_variable deserialize_variable]. rewrite map_map. f_equal.
  apply map_id_Forall. exact IH.
Qed.

Theorem label_lists_roundtrip :
  forall vs, map deserialize_variable (map serialize_variable vs) = vs.
Proof.
  intros vs. rewrite map_map. apply map_id_Forall.
  apply Forall_forall. intros v _. apply labels_roundtrip.
Qed.

(* the other direction: every JSON label value is the image of exactly the label it decodes to *)
Theorem labels_roundtrip_json : forall j, serialize_variable (deserialize_variable j) = j.
Proof.
  induction j as [z | n d | s | l IH] using jv_nested_ind; try reflexivity.
  cbn [serialize_variable deserialize_variable]. rewrite map_map. f_equal.
  apply map_id_Forall. exact IH.
Qed.

Theorem serialize_variable_injective :
  forall a b, serialize_variable a = serialize_variable b -> a = b.
Proof.
  intros a b H. rewrite <- (labels_roundtrip a), <- (labels_roundtrip b), H. reflexivity.
Qed.

(* ------------------------------------------------------------------ *)
(* _replace_float_with_int *)

Lemma replace_num_value q : jnum_val (replace_num q) = q.
Proof.
  unfold replace_num, is_integer, to_int.
  destruct (Pos.eqb (Qden (this q)) 1) eqn:Hd; [|reflexivity].
  apply Pos.eqb_eq in Hd. cbn [jnum_val].
  apply Qc_is_canon. cbn [this Q2Qc]. rewrite Qred_correct.
  destruct q as [[n d] Hc]. cbn [this Qnum Qden] in *. subst d.
  unfold inject_Z. reflexivity.
Qed.

Section FarrInd.
  Variable P : farr -> Prop.
  Hypothesis Hr : forall xs, P (FRow xs).
  Hypothesis Hn : forall l, Forall P l -> P (FNest l).
  Fixpoint farr_nested_ind (a : farr) : P a :=
    match a with
    | FRow xs => Hr xs
    | FNest l => Hn l ((fix go (l : list farr) : Forall P l :=
                          match l with
                          | [] => Forall_nil P
                          | x :: xs => Forall_cons x (farr_nested_ind x) (go xs)
                          end) l)
    end.
End FarrInd.

Theorem replace_float_with_int_value :
  forall a, jarr_val (replace_float_with_int a) = a.
Proof.
  induction a as [xs | l IH] using farr_nested_ind.
  - cbn [replace_float_with_int jarr_val]. rewrite map_map. f_equal.
    apply map_id_Forall. apply Forall_forall. intros x _. apply replace_num_value.
  - cbn [replace_float_with_int jarr_val]. rewrite map_map. f_equal.
    apply map_id_Forall. exact IH.
Qed.

(* integral floats become ints, the others stay floats *)
Theorem replace_num_kind :
  forall q, (is_integer q = true -> replace_num q = JI (to_int q)) /\
            (is_integer q = false -> replace_num q = JF q).
Proof. intros q. unfold replace_num. destruct (is_integer q); split; intros H; try discriminate; reflexivity. Qed.

Theorem is_integer_spec : forall q, is_integer q = true <-> exists z, q = Q2Qc (inject_Z z).
Proof.
  intros q. split.
  - intros H. exists (to_int q). pose proof (replace_num_value q) as R.
    unfold replace_num in R. rewrite H in R. cbn [jnum_val] in R. symmetry. exact R.
  - intros [z Hz]. subst q. unfold is_integer. cbn [this Q2Qc].
    unfold inject_Z, Qred. cbn [Qnum Qden].
    pose proof (Z.ggcd_gcd z 1) as G. pose proof (Z.ggcd_correct_divisors z 1) as D.
    destruct (Z.ggcd z (Zpos 1)) as [g [aa bb]]. cbn [fst snd] in *. destruct D as [D1 D2].
    rewrite Z.gcd_1_r in G. subst g. rewrite Z.mul_1_l in D2. subst bb. reflexivity.
Qed.
