(* the hook constants found in dimod/sampleset.py by translators/sampleset_hooks.py (Gen/Gen_Hooks.v, regenerated on
   every run, fail-closed on any other statement shape) are the variants Model/Alias.v implements *)
From Dimod Require Import Model.Alias Gen.Gen_Hooks.

Theorem hook_constants_match_source :
  gen_relabel_composed_hook_inplace = model_relabel_composed_hook_inplace
  /\ gen_relabel_wrapper_hook_inplace = model_relabel_wrapper_hook_inplace
  /\ gen_change_vartype_wrapper_hook_inplace = model_change_vartype_wrapper_hook_inplace
  /\ gen_resolve_shares_record = model_resolve_shares_record
  /\ gen_copy_copies_record = model_copy_copies_record
  /\ gen_relabel_pending_copies_mapping = model_relabel_pending_copies_mapping
  /\ gen_relabel_inplace_default = true /\ gen_change_vartype_inplace_default = true.
Proof. repeat split; reflexivity. Qed.
